(* C02 proofs, part 7: arguments torch rejects for the batch shape are rejected by tensordict — for the operations whose
   guards are checked by tensordict itself before any entry is visited (transpose, unsqueeze, squeeze(dim), permute
   with as many dims as the batch, and after fixes/C02: flatten, split(int), stack), whatever the entries are (even
   without entries).  For the remaining operations only the per-entry torch calls validate the arguments: the statement
   is false on a tensordict without entries (C02-l) and for split(list) with sizes summing beyond the dim (D4, reduced). *)
From Coq Require Import ZArith List Bool Lia ZifyBool String.
Import ListNotations.
From TD Require Import Spec.PySlice Spec.C02_TorchShape Model.C02_ShapeOps Proofs.C02_FrameP Proofs.C02_OpsP.
Open Scope Z_scope.
Ltac Zify.zify_post_hook ::= Z.to_euclidean_division_equations.

Lemma wrap_dim_reject d n : wrap_dim d n = Reject -> d < - Z.of_nat n \/ Z.of_nat n <= d.
Proof. unfold wrap_dim. destruct ((d <? - Z.of_nat n) || (Z.of_nat n <=? d)) eqn:E; [lia|discriminate]. Qed.

Lemma apply_raises bs nm ents o k : node_step o bs nm = Raised k -> apply (Node bs nm ents) o = Raised k.
Proof. intros H. cbn [apply]. rewrite H. reflexivity. Qed.

Definition reject_domain (o : sop) (bs : list Z) : Prop :=
  match o with
  | OTranspose _ _ => bs <> []
  | OUnsqueeze _ => True
  | OSqueeze (Some _) => bs <> []
  | OPermute dims => List.length dims = List.length bs
  | OFlatten _ _ => True
  | _ => False
  end.

Lemma mapM_wrap_reject dims m : mapM (fun d => wrap_dim d m) dims = Reject ->
  existsb (fun d => (d <? 0) || (Z.of_nat m <=? d)) (map (fun d => if 0 <=? d then d else Z.of_nat m + d) dims) = true.
Proof.
  induction dims as [|d dims IH]; cbn [mapM]; intros H; [discriminate|].
  destruct (wrap_dim d m) as [i|] eqn:E.
  - cbn [bind] in H. destruct (mapM _ dims) as [p|] eqn:E2; [discriminate|]. cbn [map existsb]. rewrite (IH eq_refl). apply orb_true_r.
  - apply wrap_dim_reject in E. cbn [map existsb]. apply orb_true_iff. left.
    destruct (0 <=? d) eqn:E3; lia.
Qed.

Theorem illegal_is_rejected : forall bs nm ents o,
  reject_domain o bs -> torch_shape o bs = Reject -> exists k, apply (Node bs nm ents) o = Raised k.
Proof.
  intros bs nm ents o Hd Ht.
  destruct o as [dims|d0 d1|d|d|sh|sh|sh|sh|a b|d sizes|reps|r d|ds|bs1 n1 ds]; cbn [reject_domain torch_shape] in *; try contradiction.
  - (* permute *)
    unfold t_permute in Ht. rewrite Hd, Nat.eqb_refl in Ht. cbn [negb] in Ht.
    destruct (mapM (fun d => wrap_dim d (List.length bs)) dims) as [p|] eqn:E.
    + cbn [bind] in Ht. destruct (nodupb p) eqn:E2; [discriminate|].
      exists EValue. apply apply_raises. rewrite (node_permute_raw _ _ _ _ E). cbn [node_step].
      destruct (mapM_wrap_norm _ _ _ E) as [_ [Hf Hl]].
      rewrite map_norm_nat, (existsb_range_false _ _ Hf), map_to_nat_of_nat, E2, andb_false_r. reflexivity.
    + exists EValue. apply apply_raises. cbn [node_step]. rewrite (mapM_wrap_reject _ _ E). reflexivity.
  - (* transpose *)
    exists EValue. apply apply_raises. unfold t_transpose in Ht.
    rewrite !wrap_dim_scalar_pos in Ht by (destruct bs; [congruence|cbn; lia]).
    cbn [node_step]. destruct (wrap_dim d0 (List.length bs)) as [i|] eqn:E0.
    + cbn [bind] in Ht. destruct (wrap_dim d1 (List.length bs)) as [j|] eqn:E1.
      * cbn [bind] in Ht. destruct bs; [congruence|discriminate].
      * apply wrap_dim_reject in E1.
        destruct ((if d0 <? 0 then _ else _) <? 0) eqn:A1; destruct ((if d1 <? 0 then Z.of_nat (List.length bs) + d1 else d1) <? 0) eqn:A2;
        destruct (Z.of_nat (List.length bs) <=? (if d0 <? 0 then Z.of_nat (List.length bs) + d0 else d0)) eqn:A3;
        destruct (Z.of_nat (List.length bs) <=? (if d1 <? 0 then Z.of_nat (List.length bs) + d1 else d1)) eqn:A4; cbn [orb]; try reflexivity.
        destruct (d1 <? 0); lia.
    + apply wrap_dim_reject in E0.
      destruct ((if d0 <? 0 then Z.of_nat (List.length bs) + d0 else d0) <? 0) eqn:A1; destruct ((if d1 <? 0 then Z.of_nat (List.length bs) + d1 else d1) <? 0) eqn:A2;
      destruct (Z.of_nat (List.length bs) <=? (if d0 <? 0 then Z.of_nat (List.length bs) + d0 else d0)) eqn:A3;
      destruct (Z.of_nat (List.length bs) <=? (if d1 <? 0 then Z.of_nat (List.length bs) + d1 else d1)) eqn:A4; cbn [orb]; try reflexivity.
      destruct (d0 <? 0); lia.
  - (* squeeze(dim) *)
    destruct d as [d|]; [|contradiction]. exists EIndex. apply apply_raises.
    unfold t_squeeze_dim in Ht. rewrite wrap_dim_scalar_pos in Ht by (destruct bs; [congruence|cbn; lia]).
    destruct (wrap_dim d (List.length bs)) as [i|] eqn:E; [cbn [bind] in Ht; destruct bs; [congruence|discriminate]|].
    apply wrap_dim_reject in E. cbn [node_step]. unfold correct_neg_dim.
    destruct (((if d <? 0 then Z.of_nat (List.length bs) + d else d) <? 0)
              || (Z.of_nat (List.length bs) <=? (if d <? 0 then Z.of_nat (List.length bs) + d else d))) eqn:A; [reflexivity|].
    destruct (d <? 0); lia.
  - (* unsqueeze *)
    exists ERuntime. apply apply_raises. unfold t_unsqueeze in Ht.
    destruct (wrap_dim d (S (List.length bs))) as [i|] eqn:E; [discriminate|]. apply wrap_dim_reject in E.
    cbn [node_step].
    destruct ((Z.of_nat (List.length bs) <? (if d <? 0 then Z.of_nat (List.length bs) + d + 1 else d))
              || ((if d <? 0 then Z.of_nat (List.length bs) + d + 1 else d) <? 0)) eqn:A; [reflexivity|].
    destruct (d <? 0); lia.
  - (* flatten: both dims go through _maybe_correct_neg_dim, then start < end *)
    cbn [apply node_step]. change fixed_S5 with true. cbn [andb].
    set (m := Z.of_nat (List.length bs)) in *.
    set (s0 := if a <? 0 then m + a else a). set (e0 := if b <? 0 then m + b else b).
    destruct ((s0 <? 0) || (m <=? s0) || (e0 <? 0) || (m <=? e0)) eqn:E; [exists EIndex; reflexivity|].
    exists EValue.
    assert (Hm : 0 < m) by lia.
    assert (Hne : bs <> []) by (intros ->; cbn in m; lia).
    unfold t_flatten in Ht. rewrite !wrap_dim_scalar_pos in Ht by (destruct bs; [congruence|cbn; lia]).
    unfold wrap_dim in Ht. fold m in Ht.
    destruct ((a <? - m) || (m <=? a)) eqn:Ea; [unfold s0 in E; destruct (a <? 0); lia|].
    destruct ((b <? - m) || (m <=? b)) eqn:Eb; [unfold e0 in E; destruct (b <? 0); lia|].
    cbn [bind] in Ht. destruct bs as [|b0 bs]; [congruence|].
    destruct (Nat.ltb (Z.to_nat (if b <? 0 then b + m else b)) (Z.to_nat (if a <? 0 then a + m else a))) eqn:Elt.
    + apply Nat.ltb_lt in Elt.
      destruct ((b <? 0) && (e0 <? 0)) eqn:E2; [reflexivity|].
      destruct (e0 <=? s0) eqn:E3; [reflexivity|]. unfold s0, e0 in *. destruct (a <? 0); destruct (b <? 0); lia.
    + destruct (Nat.eqb _ _); discriminate.
Qed.

(* split(k): k < 0, k = 0 on a non-empty dim, or a dim out of range (after fixes/C02/D4) *)
Theorem split_int_illegal_rejected : forall bs nm ents k d,
  t_split_int bs k d = Reject -> exists e, td_split (Node bs nm ents) (inl k) d = Raised e.
Proof.
  intros bs nm ents k d Ht. cbn [td_split]. unfold t_split_int in Ht.
  destruct bs as [|b0 bs0] eqn:Eb.
  { exists EIndex. unfold correct_neg_dim. cbn [List.length Z.of_nat]. destruct (d <? 0); destruct ((_ <? 0) || (0 <=? _)) eqn:E; try reflexivity; lia. }
  rewrite <- Eb in *.
  destruct (wrap_dim d (List.length bs)) as [i|] eqn:Ei.
  - rewrite (correct_neg_dim_wrap _ _ _ Ei). cbn [bindo bind] in *. unfold split_int_segments.
    destruct (k <? 0) eqn:E0.
    + exists ERuntime. destruct (0 <? k) eqn:E1; [lia|]. change fixed_D4 with true. cbv iota.
      destruct ((k =? 0) && (nthZ bs i =? 0)) eqn:E2; [lia|]. reflexivity.
    + destruct (k =? 0) eqn:E1; [|discriminate]. destruct (nthZ bs i =? 0) eqn:E2; [discriminate|].
      exists ERuntime. destruct (0 <? k) eqn:E3; [lia|]. change fixed_D4 with true. cbv iota. rewrite ?E1, ?E2. reflexivity.
  - exists EIndex. apply wrap_dim_reject in Ei. unfold correct_neg_dim.
    destruct (((if d <? 0 then Z.of_nat (List.length bs) + d else d) <? 0)
              || (Z.of_nat (List.length bs) <=? (if d <? 0 then Z.of_nat (List.length bs) + d else d))) eqn:A; [reflexivity|].
    destruct (d <? 0); lia.
Qed.

(* torch.stack: operands of different batch sizes, or a dim outside [-rank-1, rank] (after fixes/C02/D22-C02b) *)
Theorem stack_illegal_rejected : forall bs nm ents others d,
  t_stack (map top_shape (Node bs nm ents :: others)) d = Reject ->
  exists e, td_stack (Node bs nm ents :: others) d = Raised e.
Proof.
  intros bs nm ents others d Ht. cbn [td_stack stack_at map top_shape] in *. unfold t_stack in Ht.
  destruct (forallb (fun t => match t with Node b _ _ => list_eqb b bs | Leaf _ => false end) others) eqn:Em; cbn [negb];
    [|exists ERuntime; reflexivity].
  assert (Hs : forallb (list_eqb bs) (map top_shape others) = true).
  { rewrite forallb_forall in *. intros sh Hin. apply in_map_iff in Hin. destruct Hin as [o [<- Ho]]. specialize (Em o Ho).
    destruct o as [|b n e]; [discriminate|]. cbn [top_shape]. apply list_eqb_eq in Em. subst. apply list_eqb_refl. }
  rewrite Hs in Ht. destruct (wrap_dim d (S (List.length bs))) as [i|] eqn:Ei; [discriminate|]. apply wrap_dim_reject in Ei.
  exists EIndex. change fixed_D22 with true. cbn [andb].
  destruct (((if d <? 0 then Z.of_nat (List.length bs) + d + 1 else d) <? 0)
            || (Z.of_nat (List.length bs) <? (if d <? 0 then Z.of_nat (List.length bs) + d + 1 else d))) eqn:A; [reflexivity|].
  destruct (d <? 0); lia.
Qed.
