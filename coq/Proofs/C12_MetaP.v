From Coq Require Import List String Bool Arith.
Import ListNotations.
From TD Require Import Model.C12_Meta.

Scheme mtree_mind := Induction for mtree Sort Prop
  with mforest_mind := Induction for mforest Sort Prop.

Lemma mforest_list_ind (P : mforest -> Prop) :
  P MNil -> (forall k t r, P r -> P (MCons k t r)) -> forall f, P f.
Proof. intros H0 H1. fix IH 1. intros [|k t r]; [exact H0|apply H1, IH]. Qed.

(* unfolding equations (destructing under an unfolded mutual fixpoint would specialise its body) *)
Lemma mt_meta_unfold o dev names sm kids out :
  mt_meta o dev names (MNode sm kids) out =
  if mo_inplace o then MOk (MNode sm kids) else
  match out with
  | Some ot => mbind (check_out o dev ot) (fun ot' =>
               match ot' with MNode om okids => mbind (mt_kids o dev om kids okids okids) (fun rk => MOk (MNode (fst rk) (snd rk))) end)
  | None => mbind (mt_kids o dev (make_result o names dev sm) kids MNil MNil)
                  (fun rk => MOk (MNode (fst rk) (snd rk)))
  end.
Proof. reflexivity. Qed.
Lemma st_meta_unfold o dev names sm kids out :
  st_meta o dev names (MNode sm kids) out =
  if mo_inplace o then MOk (MNode sm kids) else
  match out with
  | Some ot => mbind (check_out o dev ot) (fun ot' =>
               match ot' with MNode om okids => mbind (st_kids o dev om kids okids okids) (fun rk => MOk (MNode (fst rk) (snd rk))) end)
  | None => mbind (st_kids o dev (make_result o names dev sm) kids MNil MNil)
                  (fun rk => MOk (MNode (fst rk) (snd rk)))
  end.
Proof. reflexivity. Qed.
Lemma mt_kids_unfold o dev rm k item rest okids acc :
  mt_kids o dev rm (MCons k item rest) okids acc =
  mbind (mt_meta o dev None item (mget okids k)) (fun r => mbind (adopt (mo_checked o) rm acc r) (fun a =>
         mt_kids o dev (fst (fst a)) rest okids (mset (snd (fst a)) k (snd a)))).
Proof. reflexivity. Qed.
Lemma st_kids_unfold o dev rm k item rest okids acc :
  st_kids o dev rm (MCons k item rest) okids acc =
  mbind (st_meta o dev None item (mget okids k)) (fun r => mbind (adopt (mo_checked o) rm acc r) (fun a =>
         st_kids o dev (fst (fst a)) rest okids (mset (snd (fst a)) k (snd a)))).
Proof. reflexivity. Qed.

(* the thread-pool form computes the metadata of the single-threaded form: for every nesting, every batch_size= / device= /
   names= override, inplace, checked, every out= (also one that lacks entries, is locked, or has another batch size / device) *)
Theorem mt_meta_eq_st_meta : forall o dev self names out,
  mt_meta o dev names self out = st_meta o dev names self out.
Proof.
  intros o dev.
  apply (mtree_mind
           (fun self => forall names out, mt_meta o dev names self out = st_meta o dev names self out)
           (fun kids => forall rm okids acc, mt_kids o dev rm kids okids acc = st_kids o dev rm kids okids acc)).
  - intros sm kids IH names out. rewrite mt_meta_unfold, st_meta_unfold.
    destruct (mo_inplace o); [reflexivity|].
    destruct out as [ot|].
    + destruct (check_out o dev ot) as [[om okids]|e]; cbn [mbind]; [|reflexivity]. now rewrite IH.
    + now rewrite IH.
  - intros rm okids acc. reflexivity.
  - intros k t IHt rest IHr rm okids acc. rewrite mt_kids_unfold, st_kids_unfold, IHt.
    destruct (st_meta o dev None t (mget okids k)) as [r|e]; cbn [mbind]; [|reflexivity].
    destruct (adopt (mo_checked o) rm acc r); cbn [mbind]; [apply IHr|reflexivity].
Qed.

(* in place nothing changes *)
Theorem meta_inplace : forall o dev names self out,
  mo_inplace o = true -> mt_meta o dev names self out = MOk self.
Proof. intros o dev names [sm kids] out H. rewrite mt_meta_unfold. now rewrite H. Qed.

Lemma adopt_checked rm acc r : adopt true rm acc r = MOk (rm, acc, r).
Proof. reflexivity. Qed.

Lemma mt_kids_checked_meta o dev : mo_checked o = true ->
  forall kids rm okids acc r, mt_kids o dev rm kids okids acc = MOk r -> fst r = rm.
Proof.
  intro Hc. induction kids as [|k t rest IH] using mforest_list_ind; intros rm okids acc r.
  - cbn. intro H. now injection H as <-.
  - rewrite mt_kids_unfold. destruct (mt_meta o dev None t (mget okids k)); cbn [mbind]; [|discriminate].
    rewrite Hc, adopt_checked. cbn [mbind fst snd]. apply IH.
Qed.

(* checked mode (the _fast_apply default): the ROOT of the result carries the names= override *)
Theorem meta_root_names : forall o dev self nm r,
  mo_inplace o = false -> mo_checked o = true -> mt_meta o dev (Some nm) self None = MOk r ->
  match r with MNode m _ => m_names m = nm end.
Proof.
  intros o dev [sm kids] nm r Hip Hc. rewrite mt_meta_unfold, Hip.
  destruct (mt_kids _ _ _ kids MNil MNil) as [rk|e] eqn:E; cbn [mbind]; [|discriminate]. intro H. injection H as <-.
  now rewrite (mt_kids_checked_meta o dev Hc _ _ _ _ _ E).
Qed.
