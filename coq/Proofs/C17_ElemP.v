(* C17 — element maps: the inverse call issued by `_reverse_*` undoes the forward operation on every valid multi-index,
   for every rank and every argument spelling. *)
From Coq Require Import ZArith List String Bool Lia ZifyBool Permutation.
Import ListNotations.
From TD Require Import Model.C17_Inverse Model.C17_Elem Proofs.C17_InverseP.
Open Scope string_scope.
Open Scope Z_scope.
Open Scope list_scope.

Definition nonneg (l : list Z) : Prop := Forall (fun x => 0 <= x) l.
Definition allpos (l : list Z) : Prop := Forall (fun x => 0 < x) l.

(* ------------------------------------------------------------------ valid multi-indices *)
Lemma valid_len : forall sh i, valid_idx sh i = true -> List.length i = List.length sh.
Proof.
  induction sh as [|s sh IH]; intros [|x r] H; cbn [valid_idx List.length nth ravel unravel app firstn skipn] in *; try discriminate; [reflexivity|].
  apply andb_prop in H. destruct H as [_ H]. now rewrite (IH _ H).
Qed.

Lemma valid_app : forall A iA B iB, List.length iA = List.length A ->
  valid_idx (A ++ B) (iA ++ iB) = valid_idx A iA && valid_idx B iB.
Proof.
  induction A as [|s A IH]; intros [|x iA] B iB H; cbn [valid_idx List.length nth ravel unravel app firstn skipn] in *; try discriminate; [reflexivity|].
  rewrite IH by lia. now rewrite andb_assoc.
Qed.

Lemma valid_pos : forall sh i, valid_idx sh i = true -> allpos sh.
Proof.
  induction sh as [|s sh IH]; intros [|x r] H; cbn [valid_idx List.length nth ravel unravel app firstn skipn] in *; try discriminate; [constructor|].
  apply andb_prop in H. destruct H as [H1 H2]. apply andb_prop in H1. destruct H1 as [Ha Hb].
  constructor; [lia|]. eapply IH; eauto.
Qed.

Lemma allpos_prod : forall l, allpos l -> 0 < prodZ l.
Proof. induction 1 as [|x l Hx _ IH]; cbn; [lia|]. apply Z.mul_pos_pos; assumption. Qed.

Lemma nonneg_prod_pos : forall l, nonneg l -> 0 < prodZ l -> allpos l.
Proof.
  induction 1 as [|x l Hx _ IH]; intros Hp; [constructor|]. change (0 < x * prodZ l) in Hp.
  assert (x <> 0) by (intros ->; lia).
  assert (0 < x) by lia.
  constructor; [assumption|]. apply IH. now apply (Z.mul_pos_cancel_l x).
Qed.

Lemma allpos_nonneg l : allpos l -> nonneg l.
Proof. unfold allpos, nonneg. intros H. eapply Forall_impl; [|exact H]. cbn. intros; lia. Qed.

Lemma nonneg_app a b : nonneg (a ++ b) <-> nonneg a /\ nonneg b.
Proof. unfold nonneg. apply Forall_app. Qed.

Lemma valid_firstn sh i k : valid_idx sh i = true -> valid_idx (firstn k sh) (firstn k i) = true.
Proof.
  revert i k. induction sh as [|s sh IH]; intros [|x r] [|k] H; cbn [valid_idx List.length nth ravel unravel app firstn skipn] in *; try discriminate; try reflexivity.
  apply andb_prop in H. destruct H as [H1 H2]. rewrite H1. cbn. now apply IH.
Qed.

Lemma valid_skipn sh i k : valid_idx sh i = true -> valid_idx (skipn k sh) (skipn k i) = true.
Proof.
  revert i k. induction sh as [|s sh IH]; intros [|x r] [|k] H; cbn [valid_idx List.length nth ravel unravel app firstn skipn] in *; try discriminate; try reflexivity; try assumption.
  apply andb_prop in H. destruct H as [H1 H2]. now apply IH.
Qed.

Lemma valid_nth : forall sh i k, valid_idx sh i = true -> (k < List.length sh)%nat -> 0 <= nth k i 0 < nth k sh 0.
Proof.
  induction sh as [|s sh IH]; intros [|x r] k H Hk; cbn [valid_idx List.length nth ravel unravel app firstn skipn] in *; try discriminate; try lia.
  apply andb_prop in H. destruct H as [H1 H2]. apply andb_prop in H1. destruct H1 as [Ha Hb].
  destruct k as [|k]; [lia|]. apply IH; [assumption|lia].
Qed.

Lemma valid_of_nth : forall sh i, List.length i = List.length sh ->
  (forall k, (k < List.length sh)%nat -> 0 <= nth k i 0 < nth k sh 0) -> valid_idx sh i = true.
Proof.
  induction sh as [|s sh IH]; intros [|x r] Hl H; cbn [valid_idx List.length nth ravel unravel app firstn skipn] in *; try discriminate; [reflexivity|].
  assert (H0 := H 0%nat ltac:(lia)). cbn in H0.
  replace (0 <=? x) with true by lia. replace (x <? s) with true by lia. cbn.
  apply IH; [lia|]. intros k Hk. apply (H (S k)). lia.
Qed.

(* ------------------------------------------------------------------ ravel / unravel *)
Lemma ravel_bound : forall sh i, valid_idx sh i = true -> 0 <= ravel sh i < prodZ sh.
Proof.
  induction sh as [|s sh IH]; intros [|x r] H; cbn [valid_idx List.length nth ravel unravel app firstn skipn] in *; try discriminate; [cbn; lia|].
  apply andb_prop in H. destruct H as [H1 H2]. apply andb_prop in H1. destruct H1 as [Ha Hb].
  specialize (IH _ H2). assert (0 <= x < s) by lia. change (prodZ (s :: sh)) with (s * prodZ sh). nia.
Qed.

Lemma unravel_ravel : forall sh i, valid_idx sh i = true -> unravel sh (ravel sh i) = i.
Proof.
  induction sh as [|s sh IH]; intros [|x r] H; cbn [valid_idx List.length nth ravel unravel app firstn skipn] in *; try discriminate; [reflexivity|].
  apply andb_prop in H. destruct H as [H1 H2].
  pose proof (ravel_bound _ _ H2) as Hb.
  assert (Hq : (x * prodZ sh + ravel sh r) / prodZ sh = x).
  { symmetry. apply (Z.div_unique_pos _ _ x (ravel sh r)); [assumption|lia]. }
  assert (Hm : (x * prodZ sh + ravel sh r) mod prodZ sh = ravel sh r).
  { symmetry. apply (Z.mod_unique_pos _ _ x (ravel sh r)); [assumption|lia]. }
  rewrite Hq, Hm. f_equal. now apply IH.
Qed.

Lemma unravel_len : forall sh k, List.length (unravel sh k) = List.length sh.
Proof. induction sh as [|s sh IH]; intros k; cbn; [reflexivity|]. now rewrite IH. Qed.

Lemma ravel_unravel : forall sh k, allpos sh -> 0 <= k < prodZ sh ->
  valid_idx sh (unravel sh k) = true /\ ravel sh (unravel sh k) = k.
Proof.
  induction sh as [|s sh IH]; intros k Hp Hk; cbn [valid_idx List.length nth ravel unravel app firstn skipn] in *; [cbn in Hk; split; [reflexivity|lia]|].
  change (prodZ (s :: sh)) with (s * prodZ sh) in Hk.
  inversion Hp as [|? ? Hs Hp']; subst.
  pose proof (allpos_prod _ Hp') as HP.
  assert (Hm : 0 <= k mod prodZ sh < prodZ sh) by (apply Z.mod_pos_bound; assumption).
  destruct (IH (k mod prodZ sh) Hp' Hm) as [Hv Hr].
  assert (Hq0 : 0 <= k / prodZ sh) by (apply Z.div_pos; lia).
  assert (Hq1 : k / prodZ sh < s) by (apply Z.div_lt_upper_bound; lia).
  split.
  - replace (0 <=? k / prodZ sh) with true by lia. replace (k / prodZ sh <? s) with true by lia. exact Hv.
  - rewrite Hr. pose proof (Z.div_mod k (prodZ sh) ltac:(lia)). lia.
Qed.

(* ------------------------------------------------------------------ infer *)
Lemma prod_replace v : forall l,
  prodZ (map (fun x => if is_m1 x then v else x) l)
  = prodZ (filter (fun x => negb (is_m1 x)) l) * v ^ Z.of_nat (List.length (filter is_m1 l)).
Proof.
  assert (PC : forall x l, prodZ (x :: l) = x * prodZ l) by reflexivity.
  induction l as [|x l IH]; [reflexivity|]. cbn [map filter]. rewrite PC, IH.
  destruct (is_m1 x); cbn [negb List.length].
  - rewrite Nat2Z.inj_succ, Z.pow_succ_r by lia. ring.
  - rewrite PC. ring.
Qed.

Lemma filter_m1_nil_nonneg : forall l, forallb (fun x => -1 <=? x) l = true -> filter is_m1 l = [] -> nonneg l.
Proof.
  induction l as [|x l IH]; intros H F; [constructor|]. cbn [forallb filter] in *. apply andb_prop in H. destruct H as [H1 H2].
  unfold is_m1 in *. destruct (x =? -1) eqn:E; [discriminate|]. constructor; [lia|]. now apply IH.
Qed.

Lemma nonneg_filter_m1 : forall l, nonneg l -> filter is_m1 l = [] /\ forallb (fun x => -1 <=? x) l = true.
Proof.
  induction 1 as [|x l Hx _ [IH1 IH2]]; [split; reflexivity|]. cbn. unfold is_m1 in *.
  replace (x =? -1) with false by lia. replace (-1 <=? x) with true by lia. split; assumption.
Qed.

Lemma infer_nonneg_id l total : nonneg l -> prodZ l = total -> infer l total = Some l.
Proof.
  intros H E. unfold infer. destruct (nonneg_filter_m1 _ H) as [F A]. rewrite A, F. cbn.
  now replace (prodZ l =? total) with true by lia.
Qed.

Lemma infer_spec l total r : 0 <= total -> infer l total = Some r ->
  prodZ r = total /\ nonneg r /\ List.length r = List.length l.
Proof.
  intros Ht. unfold infer. destruct (forallb (fun x => -1 <=? x) l) eqn:A; [|discriminate]. cbn [negb].
  destruct (filter is_m1 l) as [|m [|m2 rest]] eqn:F; [| |discriminate].
  - destruct (prodZ l =? total) eqn:E; [|discriminate]. intros H. injection H as <-.
    repeat split; [lia|now apply filter_m1_nil_nonneg].
  - set (known := prodZ (filter (fun x => negb (is_m1 x)) l)).
    destruct ((0 <? known) && (total mod known =? 0)) eqn:E; [|discriminate]. intros H. injection H as <-.
    apply andb_prop in E. destruct E as [E1 E2].
    assert (Hq : 0 <= total / known) by (apply Z.div_pos; lia).
    repeat split.
    + rewrite prod_replace, F. cbn [List.length]. fold known. change (Z.of_nat 1) with 1. rewrite Z.pow_1_r.
      pose proof (Z.div_mod total known ltac:(lia)). lia.
    + clear F. unfold nonneg. apply Forall_forall. intros y Hy. apply in_map_iff in Hy. destruct Hy as [x [<- Hx]].
      rewrite forallb_forall in A. specialize (A _ Hx). cbn in A. unfold is_m1. destruct (x =? -1) eqn:Ex; lia.
    + now rewrite map_length.
Qed.

(* ------------------------------------------------------------------ list surgery at a position given as a length *)
Lemma firstn_app_len {X} (A B : list X) : firstn (List.length A) (A ++ B) = A.
Proof. rewrite firstn_app, firstn_all, Nat.sub_diag. cbn. apply app_nil_r. Qed.

Lemma skipn_app_len {X} (A B : list X) : skipn (List.length A) (A ++ B) = B.
Proof. rewrite skipn_app, skipn_all, Nat.sub_diag. reflexivity. Qed.

Lemma nth_app_len {X} (A B : list X) x d : nth (List.length A) (A ++ x :: B) d = x.
Proof. rewrite app_nth2 by lia. now rewrite Nat.sub_diag. Qed.

Lemma skipn_app_len1 {X} (A B : list X) x : skipn (S (List.length A)) (A ++ x :: B) = B.
Proof. rewrite skipn_app. rewrite skipn_all2 by lia. replace (S (List.length A) - List.length A)%nat with 1%nat by lia. reflexivity. Qed.

Lemma seg_app (A M B : list Z) a b :
  a = zlen A -> b + 1 - a = zlen M -> seg (A ++ M ++ B) a b = M.
Proof.
  intros -> Hb. unfold seg, zlen in *. rewrite Nat2Z.id, skipn_app_len.
  replace (Z.to_nat (b + 1 - Z.of_nat (List.length A))) with (List.length M) by lia. apply firstn_app_len.
Qed.

Lemma split3 {X} (l : list X) (a m : nat) : (a + m <= List.length l)%nat ->
  l = firstn a l ++ firstn m (skipn a l) ++ skipn (a + m) l
  /\ List.length (firstn a l) = a /\ List.length (firstn m (skipn a l)) = m.
Proof.
  intros H. repeat split.
  - rewrite <- (firstn_skipn a l) at 1. f_equal. rewrite <- (firstn_skipn m (skipn a l)) at 1. f_equal.
    apply skipn_skipn'.
  - rewrite firstn_length. lia.
  - rewrite firstn_length, skipn_length. lia.
Qed.

(* a valid index of a shape given in three parts splits accordingly *)
Lemma valid_dec A M B i : valid_idx (A ++ M ++ B) i = true ->
  exists iA iM iB, i = iA ++ iM ++ iB /\ List.length iA = List.length A /\ List.length iM = List.length M
    /\ valid_idx A iA = true /\ valid_idx M iM = true /\ valid_idx B iB = true.
Proof.
  intros Hv. pose proof (valid_len _ _ Hv) as Hlen. rewrite !app_length in Hlen.
  set (a := List.length A). set (m := List.length M).
  destruct (split3 i a m ltac:(lia)) as [E [L1 L2]].
  exists (firstn a i), (firstn m (skipn a i)), (skipn (a + m) i). repeat split; try assumption.
  - pose proof (valid_firstn _ _ a Hv) as H. subst a. now rewrite firstn_app_len in H.
  - pose proof (valid_firstn _ _ m (valid_skipn _ _ a Hv)) as H. subst a m. now rewrite skipn_app_len, firstn_app_len in H.
  - pose proof (valid_skipn _ _ m (valid_skipn _ _ a Hv)) as H. subst a m.
    rewrite skipn_app_len, skipn_app_len, skipn_skipn' in H. exact H.
Qed.

Lemma valid3 A M B iA iM iB : List.length iA = List.length A -> List.length iM = List.length M ->
  valid_idx (A ++ M ++ B) (iA ++ iM ++ iB) = valid_idx A iA && valid_idx M iM && valid_idx B iB.
Proof. intros H1 H2. rewrite valid_app by assumption. rewrite valid_app by assumption. now rewrite andb_assoc. Qed.

Lemma zlen_app {X} (a b : list X) : zlen (a ++ b) = zlen a + zlen b.
Proof. unfold zlen. rewrite app_length. lia. Qed.

Lemma zlen_nonneg {X} (a : list X) : 0 <= zlen a.
Proof. unfold zlen. lia. Qed.

Lemma norm_range d n : in_range d n = true -> 0 <= norm d n < n.
Proof. unfold in_range, norm. intros H. apply andb_prop in H. destruct H. destruct (d <? 0) eqn:?; lia. Qed.

(* ------------------------------------------------------------------ transpose *)
Lemma swap_nth {X} (l : list X) a b k d : (a < List.length l)%nat -> (b < List.length l)%nat ->
  nth k (set_nth (set_nth l a (nth b l d)) b (nth a l d)) d
  = nth (if Nat.eqb k b then a else if Nat.eqb k a then b else k) l d.
Proof.
  intros Ha Hb. destruct (Nat.eqb k b) eqn:Eb.
  - apply Nat.eqb_eq in Eb. subst k. now rewrite nth_set_nth_same by (rewrite set_nth_length; lia).
  - apply Nat.eqb_neq in Eb. rewrite nth_set_nth_other by congruence.
    destruct (Nat.eqb k a) eqn:Ea.
    + apply Nat.eqb_eq in Ea. subst k. now rewrite nth_set_nth_same by lia.
    + apply Nat.eqb_neq in Ea. now rewrite nth_set_nth_other by congruence.
Qed.

Lemma transpose_valid sh a b ysh i :
  sh_transpose sh a b = Some ysh -> valid_idx sh i = true ->
  exists j, sh_transpose i a b = Some j /\ valid_idx ysh j = true.
Proof.
  intros Hs Hv. pose proof (valid_len _ _ Hv) as Hl. unfold sh_transpose in *.
  assert (Hz : zlen i = zlen sh) by (unfold zlen; lia). rewrite Hz.
  destruct (in_range a (zlen sh) && in_range b (zlen sh)) eqn:E; [|discriminate].
  injection Hs as <-. eexists. split; [reflexivity|].
  apply andb_prop in E. destruct E as [Ea Eb]. apply norm_range in Ea. apply norm_range in Eb.
  set (a' := Z.to_nat (norm a (zlen sh))) in *. set (b' := Z.to_nat (norm b (zlen sh))) in *.
  assert (Ha : (a' < List.length sh)%nat) by (unfold zlen in *; lia).
  assert (Hb : (b' < List.length sh)%nat) by (unfold zlen in *; lia).
  apply valid_of_nth; [now rewrite !set_nth_length|].
  intros k Hk. rewrite !set_nth_length in Hk. rewrite !swap_nth by lia.
  apply valid_nth; [assumption|]. destruct (Nat.eqb k b'); [lia|]. destruct (Nat.eqb k a'); lia.
Qed.

Lemma sh_transpose_len sh a b ysh : sh_transpose sh a b = Some ysh -> zlen ysh = zlen sh.
Proof.
  unfold sh_transpose. destruct (_ && _); [|discriminate]. intros H. injection H as <-. unfold zlen. now rewrite !set_nth_length.
Qed.

Theorem undoes_transpose a b sh ysh :
  shape_of (CTranspose a b) sh = Some ysh -> undoes (CTranspose a b) (CTranspose a b) sh ysh.
Proof.
  cbn [shape_of]. intros Hs. pose proof (transpose_involutive _ _ _ _ Hs) as Hs'.
  pose proof (sh_transpose_len _ _ _ _ Hs) as Hn.
  assert (D : forall s1 s2 i, sh_transpose s1 a b = Some s2 -> zlen s2 = zlen s1 -> valid_idx s1 i = true ->
              exists j, push (CTranspose a b) s1 i = Some j /\ valid_idx s2 j = true /\ push (CTranspose a b) s2 j = Some i).
  { intros s1 s2 i H12 Hz Hv. destruct (transpose_valid _ _ _ _ _ H12 Hv) as [j [Hj Hvj]].
    exists j. cbn [push]. pose proof (valid_len _ _ Hv) as L1. pose proof (valid_len _ _ Hvj) as L2.
    replace (zlen i =? zlen s1) with true by (unfold zlen in *; lia).
    replace (zlen j =? zlen s2) with true by (unfold zlen in *; lia).
    repeat split; [assumption|assumption|]. now apply transpose_involutive. }
  split; [exact Hs'|]. split.
  - intros i Hv. apply (D sh ysh i Hs Hn Hv).
  - intros j Hv. apply (D ysh sh j Hs' (eq_sym Hn) Hv).
Qed.

(* ------------------------------------------------------------------ permute *)
Lemma nth_skipn' {X} (l : list X) k i d : nth i (skipn k l) d = nth (k + i) l d.
Proof. revert l. induction k as [|k IH]; intros [|x l]; cbn; try reflexivity; [destruct i; reflexivity|apply IH]. Qed.

Lemma apply_perm_len x p : (List.length p <= List.length x)%nat -> List.length (apply_perm x p) = List.length x.
Proof. intros H. unfold apply_perm, sh_permute. rewrite app_length, map_length, skipn_length. lia. Qed.

Lemma apply_perm_nth x p m : (List.length p <= List.length x)%nat ->
  nth m (apply_perm x p) 0 = if Nat.ltb m (List.length p) then nth (Z.to_nat (nth m p 0)) x 0 else nth m x 0.
Proof.
  intros H. unfold apply_perm, sh_permute. destruct (m <? List.length p)%nat eqn:E.
  - apply Nat.ltb_lt in E. rewrite app_nth1 by (now rewrite map_length).
    now rewrite (nth_map_in _ _ _ 0) by assumption.
  - apply Nat.ltb_ge in E. rewrite app_nth2 by (now rewrite map_length). rewrite map_length, nth_skipn'. f_equal. lia.
Qed.

Lemma apply_perm_comp x p q :
  List.length q = List.length p -> (List.length p <= List.length x)%nat ->
  (forall m, (m < List.length p)%nat ->
     0 <= nth m q 0 < zlen p /\ nth (Z.to_nat (nth m q 0)) p 0 = Z.of_nat m) ->
  apply_perm (apply_perm x p) q = x.
Proof.
  intros Hq Hp H. apply (list_ext_nth _ _ 0).
  - rewrite apply_perm_len; rewrite apply_perm_len; lia.
  - intros m _. rewrite apply_perm_nth by (rewrite apply_perm_len; lia). rewrite Hq.
    destruct (m <? List.length p)%nat eqn:E; [|apply Nat.ltb_ge in E; rewrite apply_perm_nth by lia;
      now replace (m <? List.length p)%nat with false by (symmetry; apply Nat.ltb_ge; lia)].
    apply Nat.ltb_lt in E. destruct (H m E) as [Hr He]. unfold zlen in Hr.
    rewrite apply_perm_nth by lia.
    replace (Nat.ltb (Z.to_nat (nth m q 0)) (List.length p)) with true by (symmetry; apply Nat.ltb_lt; lia).
    rewrite He. now rewrite Nat2Z.id.
Qed.

Lemma apply_perm_valid sh i p : valid_idx sh i = true -> (List.length p <= List.length sh)%nat ->
  (forall m, (m < List.length p)%nat -> 0 <= nth m p 0 < zlen p) ->
  valid_idx (apply_perm sh p) (apply_perm i p) = true.
Proof.
  intros Hv Hp H. pose proof (valid_len _ _ Hv) as Hl.
  apply valid_of_nth; [rewrite !apply_perm_len; lia|].
  intros k Hk. rewrite apply_perm_len in Hk by lia. rewrite !apply_perm_nth by lia.
  destruct (k <? List.length p)%nat eqn:E; [|now apply valid_nth].
  apply Nat.ltb_lt in E. specialize (H k E). unfold zlen in H. apply valid_nth; [assumption|lia].
Qed.

Lemma is_perm_spec k l : is_perm k l = true ->
  List.length l = k /\ Permutation l (map Z.of_nat (seq 0 k)).
Proof.
  unfold is_perm. intros H. apply andb_prop in H. destruct H as [H1 H2]. apply Nat.eqb_eq in H1.
  split; [assumption|]. apply Permutation_sym. apply NoDup_Permutation_bis.
  - apply FinFun.Injective_map_NoDup; [intros x y; lia|apply seq_NoDup].
  - rewrite map_length, seq_length. lia.
  - intros z Hz. apply in_map_iff in Hz. destruct Hz as [n [<- Hn]]. rewrite forallb_forall in H2.
    specialize (H2 _ Hn). apply existsb_exists in H2. destruct H2 as [y [Hy E]]. apply Z.eqb_eq in E. now subst.
Qed.

Lemma perm_entries l k : Permutation l (map Z.of_nat (seq 0 k)) -> List.length l = k ->
  NoDup l /\ (forall m, (m < k)%nat -> 0 <= nth m l 0 < Z.of_nat k) /\ (forall m, (m < k)%nat -> In (Z.of_nat m) l).
Proof.
  intros P L. repeat split.
  - eapply Permutation_NoDup; [apply Permutation_sym; exact P|].
    apply FinFun.Injective_map_NoDup; [intros x y; lia|apply seq_NoDup].
  - assert (In (nth m l 0) l) by (apply nth_In; lia).
    eapply Permutation_in in H0; [|exact P]. apply in_map_iff in H0. destruct H0 as [n [E Hn]]. apply in_seq in Hn. lia.
  - assert (In (nth m l 0) l) by (apply nth_In; lia).
    eapply Permutation_in in H0; [|exact P]. apply in_map_iff in H0. destruct H0 as [n [E Hn]]. apply in_seq in Hn. lia.
  - intros m Hm. eapply Permutation_in; [apply Permutation_sym; exact P|]. apply in_map. apply in_seq. lia.
Qed.

Lemma index_of_nth : forall l m i, NoDup l -> (m < List.length l)%nat -> index_of (nth m l 0) l i = i + Z.of_nat m.
Proof.
  induction l as [|y r IH]; intros m i N Hm; cbn in Hm; [lia|]. inversion N as [|? ? Hnin N']; subst.
  destruct m as [|m]; cbn [nth index_of].
  - rewrite Z.eqb_refl. lia.
  - destruct (y =? nth m r 0) eqn:E.
    + apply Z.eqb_eq in E. exfalso. apply Hnin. rewrite E. apply nth_In. lia.
    + rewrite IH by (assumption || lia). lia.
Qed.

Lemma inv_perm_len l : List.length (inv_perm l) = List.length l.
Proof. unfold inv_perm. now rewrite map_length, seq_length. Qed.

Lemma inv_perm_nth l m : (m < List.length l)%nat -> nth m (inv_perm l) 0 = index_of (Z.of_nat m) l 0.
Proof. intros H. unfold inv_perm. rewrite (nth_map_in _ _ _ 0%nat) by (now rewrite seq_length). now rewrite seq_nth. Qed.

(* the facts about argsort of a permutation used below *)
Lemma inv_perm_facts l k : List.length l = k -> Permutation l (map Z.of_nat (seq 0 k)) ->
  (forall m, (m < k)%nat -> 0 <= nth m (inv_perm l) 0 < Z.of_nat k /\ nth (Z.to_nat (nth m (inv_perm l) 0)) l 0 = Z.of_nat m)
  /\ (forall m, (m < k)%nat -> nth (Z.to_nat (nth m l 0)) (inv_perm l) 0 = Z.of_nat m).
Proof.
  intros L P. destruct (perm_entries _ _ P L) as [N [R I]]. split.
  - intros m Hm. rewrite inv_perm_nth by lia.
    destruct (index_of_spec (Z.of_nat m) l 0 (I m Hm)) as [Hr Hn]. rewrite Z.sub_0_r in Hn. unfold zlen in Hr.
    split; [lia|].
    (* nth with default -1 vs 0: the position is in range *)
    rewrite (nth_indep _ 0 (-1)) by lia. exact Hn.
  - intros m Hm. specialize (R m Hm). rewrite inv_perm_nth by lia. rewrite Z2Nat.id by lia.
    rewrite index_of_nth by (assumption || lia). lia.
Qed.

Lemma is_perm_of_facts k q : List.length q = k ->
  (forall m, (m < k)%nat -> exists e, (e < k)%nat /\ nth e q 0 = Z.of_nat m) -> is_perm k q = true.
Proof.
  intros L H. unfold is_perm. rewrite L, Nat.eqb_refl. cbn. apply forallb_forall. intros m Hm. apply in_seq in Hm.
  destruct (H m ltac:(lia)) as [e [He E]]. apply existsb_exists. exists (nth e q 0). split; [apply nth_In; lia|]. rewrite E. apply Z.eqb_refl.
Qed.

Lemma perm_dims_spec l n p : perm_dims l n = Some p ->
  p = map (fun d => norm d n) l /\ List.length p = List.length l /\ Permutation p (map Z.of_nat (seq 0 (List.length p)))
  /\ (Z.of_nat (List.length p) <= n \/ l = []).
Proof.
  unfold perm_dims. destruct (forallb _ l && is_perm _ _) eqn:E; [|discriminate]. intros H. injection H as <-.
  apply andb_prop in E. destruct E as [E1 E2]. apply is_perm_spec in E2. destruct E2 as [L P].
  set (p := map (fun d => norm d n) l) in *.
  assert (Lp : List.length p = List.length l) by (subst p; apply map_length).
  split; [reflexivity|]. split; [exact Lp|]. split; [rewrite Lp; exact P|].
  destruct (Nat.eq_dec (List.length l) 0) as [Z0|NZ]; [right; now apply length_zero_iff_nil|left].
  destruct (perm_entries _ _ P L) as [_ [_ I]].
  specialize (I (List.length l - 1)%nat ltac:(lia)).
  subst p. apply in_map_iff in I. destruct I as [d [Ed Hd]]. rewrite forallb_forall in E1. specialize (E1 _ Hd).
  apply norm_range in E1. rewrite map_length. lia.
Qed.

(* np.argsort(dims_list) is accepted by permute and is again a permutation order *)
Lemma perm_dims_inv p n : Permutation p (map Z.of_nat (seq 0 (List.length p))) -> Z.of_nat (List.length p) <= n ->
  perm_dims (inv_perm p) n = Some (inv_perm p).
Proof.
  intros P Hn. set (k := List.length p) in *.
  destruct (inv_perm_facts p k eq_refl P) as [F1 F2]. destruct (perm_entries _ _ P eq_refl) as [_ [R _]].
  assert (Hnorm : map (fun d => norm d n) (inv_perm p) = inv_perm p).
  { apply (list_ext_nth _ _ 0); [now rewrite map_length|]. intros m Hm. rewrite map_length, inv_perm_len in Hm.
    rewrite (nth_map_in _ _ _ 0) by (now rewrite inv_perm_len). destruct (F1 m Hm) as [Hr _]. unfold norm.
    destruct (nth m (inv_perm p) 0 <? 0) eqn:?; lia. }
  unfold perm_dims. rewrite Hnorm, inv_perm_len. fold k.
  replace (forallb (fun d => in_range d n) (inv_perm p)) with true.
  2:{ symmetry. apply forallb_forall. intros e He. apply (In_nth _ _ 0) in He. destruct He as [m [Hm <-]].
      rewrite inv_perm_len in Hm. destruct (F1 m Hm) as [Hr _]. unfold in_range. lia. }
  rewrite (is_perm_of_facts k (inv_perm p)); [reflexivity|apply inv_perm_len|].
  intros m Hm. specialize (R m Hm). exists (Z.to_nat (nth m p 0)). split; [lia|]. now apply F2.
Qed.

Lemma norm_ge d n : (if d >=? 0 then d else n + d) = norm d n.
Proof. unfold norm. destruct (d >=? 0) eqn:?, (d <? 0) eqn:?; lia. Qed.

Theorem undoes_permute l sh ysh p :
  perm_dims l (zlen sh) = Some p -> shape_of (CPermute l) sh = Some ysh ->
  undoes (CPermute l) (CPermute (inv_perm p)) sh ysh.
Proof.
  intros Hp Hs. cbn [shape_of] in Hs. rewrite Hp in Hs. cbn in Hs. injection Hs as <-.
  destruct (perm_dims_spec _ _ _ Hp) as [_ [Ll [P Hn0]]].
  assert (Hn : Z.of_nat (List.length p) <= zlen sh).
  { destruct Hn0 as [Hn| ->]; [exact Hn|]. destruct p; [|discriminate]. cbn. apply zlen_nonneg. }
  clear Hn0. set (k := List.length p) in *.
  destruct (inv_perm_facts p k eq_refl P) as [F1 F2]. destruct (perm_entries _ _ P eq_refl) as [_ [R _]].
  assert (Hk : (k <= List.length sh)%nat) by (unfold zlen in Hn; lia).
  assert (Hyl : zlen (apply_perm sh p) = zlen sh) by (unfold zlen; rewrite apply_perm_len; lia).
  pose proof (perm_dims_inv p (zlen sh) P Hn) as Hinv.
  assert (RT1 : forall x, (k <= List.length x)%nat -> apply_perm (apply_perm x p) (inv_perm p) = x).
  { intros x Hx. apply apply_perm_comp; [apply inv_perm_len|lia|]. intros m Hm. unfold zlen. apply F1. exact Hm. }
  assert (RT2 : forall x, (k <= List.length x)%nat -> apply_perm (apply_perm x (inv_perm p)) p = x).
  { intros x Hx. apply apply_perm_comp; [now rewrite inv_perm_len|rewrite inv_perm_len; lia|].
    rewrite inv_perm_len. intros m Hm. unfold zlen. rewrite inv_perm_len. split; [apply R; exact Hm|apply F2; exact Hm]. }
  split; [|split].
  - cbn [shape_of]. rewrite Hyl, Hinv. cbn. f_equal. now apply RT1.
  - intros i Hv. pose proof (valid_len _ _ Hv) as Hl. exists (apply_perm i p). cbn [push]. rewrite Hp.
    replace (zlen i =? zlen sh) with true by (unfold zlen; lia). cbn. split; [reflexivity|]. split.
    + apply apply_perm_valid; [assumption|lia|]. intros m Hm. unfold zlen. apply R. exact Hm.
    + rewrite Hyl, Hinv. replace (zlen (apply_perm i p) =? zlen sh) with true
        by (unfold zlen; rewrite apply_perm_len; lia). cbn. f_equal. apply RT1. lia.
  - intros j Hv. pose proof (valid_len _ _ Hv) as Hl. rewrite apply_perm_len in Hl by lia.
    exists (apply_perm j (inv_perm p)). cbn [push]. rewrite Hyl, Hinv, Hp.
    replace (zlen j =? zlen sh) with true by (unfold zlen; lia). cbn. split; [reflexivity|]. split.
    + rewrite <- (RT1 sh Hk) at 1. apply apply_perm_valid; [assumption|rewrite inv_perm_len, apply_perm_len; lia|].
      rewrite inv_perm_len. intros m Hm. unfold zlen. rewrite inv_perm_len. apply F1. exact Hm.
    + replace (zlen (apply_perm j (inv_perm p)) =? zlen sh) with true
        by (unfold zlen; rewrite apply_perm_len; rewrite ?inv_perm_len; lia). cbn. f_equal. apply RT2. lia.
Qed.

(* ------------------------------------------------------------------ view *)
Theorem undoes_view l sh ysh : nonneg sh -> shape_of (CView l) sh = Some ysh -> undoes (CView l) (CView sh) sh ysh.
Proof.
  intros Hnn Hs. cbn [shape_of] in Hs.
  assert (Hp0 : 0 <= prodZ sh).
  { clear -Hnn. induction Hnn as [|x r Hx _ IH]; cbn; [lia|]. apply Z.mul_nonneg_nonneg; assumption. }
  destruct (infer_spec _ _ _ Hp0 Hs) as [Hprod [Hny _]].
  assert (Hback : infer sh (prodZ ysh) = Some sh) by (apply infer_nonneg_id; [assumption|lia]).
  assert (D : forall s1 s2 l1 l2 i, infer l1 (prodZ s1) = Some s2 -> infer l2 (prodZ s2) = Some s1 ->
              nonneg s1 -> nonneg s2 -> prodZ s2 = prodZ s1 -> valid_idx s1 i = true ->
              exists j, push (CView l1) s1 i = Some j /\ valid_idx s2 j = true /\ push (CView l2) s2 j = Some i).
  { intros s1 s2 l1 l2 i H12 H21 N1 N2 Hpp Hv. cbn [push]. rewrite H12. cbn. eexists. split; [reflexivity|].
    pose proof (ravel_bound _ _ Hv) as Hb.
    assert (Hpos2 : allpos s2) by (apply nonneg_prod_pos; [assumption|lia]).
    destruct (ravel_unravel s2 (ravel s1 i) Hpos2 ltac:(lia)) as [Hv2 Hr2].
    split; [exact Hv2|]. rewrite H21. cbn. f_equal. rewrite Hr2. now apply unravel_ravel. }
  split; [exact Hback|]. split.
  - intros i Hv. apply (D sh ysh l sh i Hs Hback Hnn Hny Hprod Hv).
  - intros j Hv. apply (D ysh sh sh l j Hback Hs Hny Hnn (eq_sym Hprod) Hv).
Qed.

(* ------------------------------------------------------------------ flatten / unflatten *)
(* the segment form of the two operations, on shapes given as A ++ M ++ B *)
Lemma flatten_dims_dec A M B a b :
  flatten_dims a b (zlen (A ++ M ++ B)) = Some (zlen A, zlen A + zlen M - 1) ->
  sh_flatten (A ++ M ++ B) (zlen A) (zlen A + zlen M - 1) = (A ++ [prodZ M] ++ B)%list.
Proof.
  intros _. unfold sh_flatten.
  replace (firstn (Z.to_nat (zlen A + zlen M - 1 + 1 - zlen A)) (skipn (Z.to_nat (zlen A)) (A ++ M ++ B)))
    with (seg (A ++ M ++ B) (zlen A) (zlen A + zlen M - 1)) by reflexivity.
  rewrite seg_app by lia. unfold zlen. rewrite Nat2Z.id, firstn_app_len.
  replace (Z.to_nat (Z.of_nat (List.length A) + Z.of_nat (List.length M) - 1 + 1)) with (List.length A + List.length M)%nat by lia.
  rewrite <- skipn_skipn', skipn_app_len, skipn_app_len. reflexivity.
Qed.

Lemma push_flatten_dec A M B iA iM iB a b :
  List.length iA = List.length A -> List.length iM = List.length M ->
  flatten_dims a b (zlen (A ++ M ++ B)) = Some (zlen A, zlen A + zlen M - 1) ->
  push (CFlatten a b) (A ++ M ++ B) (iA ++ iM ++ iB) = Some (iA ++ [ravel M iM] ++ iB)%list.
Proof.
  intros LA LM Hd. cbn [push]. rewrite Hd. cbn [option_map]. f_equal.
  rewrite !seg_app by (unfold zlen in *; lia). unfold zlen.
  rewrite Nat2Z.id. rewrite <- LA at 1. rewrite firstn_app_len.
  replace (Z.to_nat (Z.of_nat (List.length A) + Z.of_nat (List.length M) - 1 + 1)) with (List.length iA + List.length iM)%nat by lia.
  rewrite <- skipn_skipn', skipn_app_len, skipn_app_len. reflexivity.
Qed.

Lemma unflatten_dims_dec A B m sz sz' d :
  unflatten_dims (A ++ [m] ++ B) d sz = Some (zlen A, sz') ->
  sh_unflatten (A ++ [m] ++ B) (zlen A) sz' = (A ++ sz' ++ B)%list.
Proof.
  intros _. unfold sh_unflatten, zlen. rewrite Nat2Z.id, firstn_app_len.
  replace (Z.to_nat (Z.of_nat (List.length A) + 1)) with (S (List.length A)) by lia.
  cbn [app]. now rewrite skipn_app_len1.
Qed.

Lemma push_unflatten_dec A B m iA iB x sz sz' d :
  List.length iA = List.length A ->
  unflatten_dims (A ++ [m] ++ B) d sz = Some (zlen A, sz') ->
  push (CUnflatten d sz) (A ++ [m] ++ B) (iA ++ [x] ++ iB) = Some (iA ++ unravel sz' x ++ iB)%list.
Proof.
  intros LA Hd. cbn [push]. rewrite Hd. cbn [option_map]. f_equal. unfold nthZ, zlen.
  rewrite Nat2Z.id. rewrite <- LA. rewrite firstn_app_len. cbn [app]. rewrite nth_app_len.
  replace (Z.to_nat (Z.of_nat (List.length iA) + 1)) with (S (List.length iA)) by lia.
  now rewrite skipn_app_len1.
Qed.

Lemma flatten_dims_ok a b n a' b' : flatten_dims a b n = Some (a', b') ->
  a' = norm a n /\ b' = norm b n /\ 0 <= a' /\ a' < b' /\ b' < n.
Proof.
  unfold flatten_dims. destruct (in_range a n && in_range b n && (norm a n <? norm b n)) eqn:E; [|discriminate].
  intros H. injection H as <- <-. apply andb_prop in E. destruct E as [E E3]. apply andb_prop in E. destruct E as [E1 E2].
  apply norm_range in E1. apply norm_range in E2. repeat split; lia.
Qed.

Lemma flatten_dims_pos a b n : 0 <= a -> a < b -> b < n -> flatten_dims a b n = Some (a, b).
Proof.
  intros. unfold flatten_dims, in_range, norm.
  replace (a <? 0) with false by lia. replace (b <? 0) with false by lia.
  replace ((- n <=? a) && (a <? n) && ((- n <=? b) && (b <? n)) && (a <? b)) with true by lia. reflexivity.
Qed.

(* segment-level core: flatten of the middle segment M and unflatten of the resulting dim undo each other *)
Lemma seg_core A M B a b d sz :
  let sh := (A ++ M ++ B)%list in let ysh := (A ++ [prodZ M] ++ B)%list in
  flatten_dims a b (zlen sh) = Some (zlen A, zlen A + zlen M - 1) ->
  unflatten_dims ysh d sz = Some (zlen A, M) ->
  nonneg M ->
  shape_of (CFlatten a b) sh = Some ysh /\ shape_of (CUnflatten d sz) ysh = Some sh
  /\ (forall i, valid_idx sh i = true ->
        exists j, push (CFlatten a b) sh i = Some j /\ valid_idx ysh j = true /\ push (CUnflatten d sz) ysh j = Some i)
  /\ (forall j, valid_idx ysh j = true ->
        exists i, push (CUnflatten d sz) ysh j = Some i /\ valid_idx sh i = true /\ push (CFlatten a b) sh i = Some j).
Proof.
  intros sh ysh Hfd Hud HnM. split; [|split; [|split]].
  - cbn [shape_of]. rewrite Hfd. cbn. f_equal. subst sh. now apply flatten_dims_dec with (a := a) (b := b).
  - cbn [shape_of]. rewrite Hud. cbn. f_equal. subst ysh. now apply unflatten_dims_dec with (d := d) (sz := sz).
  - intros i Hv. destruct (valid_dec _ _ _ _ Hv) as [iA [iM [iB [-> [LA [LM [VA [VM VB]]]]]]]].
    exists (iA ++ [ravel M iM] ++ iB)%list. split; [now apply push_flatten_dec|]. split.
    + subst ysh. rewrite valid3 by (assumption || reflexivity). rewrite VA, VB. cbn.
      pose proof (ravel_bound _ _ VM). replace (0 <=? ravel M iM) with true by lia.
      now replace (ravel M iM <? prodZ M) with true by lia.
    + subst ysh. rewrite (push_unflatten_dec A B (prodZ M) iA iB (ravel M iM) sz M d) by assumption.
      now rewrite unravel_ravel.
  - intros j Hv. destruct (valid_dec A [prodZ M] B j Hv) as [jA [jM [jB [-> [LA [LM [VA [VM VB]]]]]]]].
    destruct jM as [|x [|? ?]]; try (cbn in LM; lia). cbn in VM.
    assert (Hx : 0 <= x < prodZ M) by lia.
    assert (HpM : allpos M) by (apply nonneg_prod_pos; [assumption|lia]).
    destruct (ravel_unravel M x HpM Hx) as [Hvu Hru].
    exists (jA ++ unravel M x ++ jB)%list. split; [now apply push_unflatten_dec|]. split.
    + subst sh. rewrite valid3 by (assumption || apply unravel_len). now rewrite VA, Hvu, VB.
    + subst sh. rewrite push_flatten_dec by (assumption || apply unravel_len). now rewrite Hru.
Qed.

Lemma unflatten_dims_self A M B : nonneg M -> M <> [] ->
  unflatten_dims (A ++ [prodZ M] ++ B) (zlen A) M = Some (zlen A, M).
Proof.
  intros HnM Hne. unfold unflatten_dims. rewrite !zlen_app. unfold in_range, norm.
  replace (zlen A <? 0) with false by (unfold zlen; lia).
  replace ((- (zlen A + (zlen [prodZ M] + zlen B)) <=? zlen A) && (zlen A <? zlen A + (zlen [prodZ M] + zlen B))) with true
    by (unfold zlen; cbn [List.length]; lia).
  destruct M as [|m0 M0]; [congruence|]. unfold nthZ, zlen. rewrite Nat2Z.id. cbn [app]. rewrite nth_app_len.
  now rewrite infer_nonneg_id.
Qed.

Theorem undoes_flatten a b sh ysh a' b' :
  nonneg sh -> flatten_dims a b (zlen sh) = Some (a', b') -> shape_of (CFlatten a b) sh = Some ysh ->
  undoes (CFlatten a b) (CUnflatten a' (seg sh a' b')) sh ysh.
Proof.
  intros Hnn Hd Hs. destruct (flatten_dims_ok _ _ _ _ _ Hd) as [_ [_ [H0 [H1 H2]]]].
  assert (Hl : (Z.to_nat a' + Z.to_nat (b' + 1 - a') <= List.length sh)%nat) by (unfold zlen in H2; lia).
  destruct (split3 sh (Z.to_nat a') (Z.to_nat (b' + 1 - a')) Hl) as [E [LA LM]].
  assert (Eseg : seg sh a' b' = firstn (Z.to_nat (b' + 1 - a')) (skipn (Z.to_nat a') sh)) by reflexivity.
  rewrite Eseg. clear Eseg.
  set (A := firstn (Z.to_nat a') sh) in *. set (M := firstn (Z.to_nat (b' + 1 - a')) (skipn (Z.to_nat a') sh)) in *.
  set (B := skipn (Z.to_nat a' + Z.to_nat (b' + 1 - a')) sh) in *.
  assert (Ea : a' = zlen A) by (unfold zlen; lia). assert (Eb : b' = zlen A + zlen M - 1) by (unfold zlen; lia).
  assert (HnM : nonneg M) by (rewrite E in Hnn; apply nonneg_app in Hnn; destruct Hnn as [_ Hnn]; apply nonneg_app in Hnn; tauto).
  assert (HMne : M <> []) by (intros HM; rewrite HM in LM; cbn in LM; lia).
  clearbody A M B. subst sh a' b'.
  destruct (seg_core A M B a b (zlen A) M Hd (unflatten_dims_self A M B HnM HMne) HnM) as [S1 [S2 [D1 D2]]].
  rewrite S1 in Hs. injection Hs as <-. split; [exact S2|]. split; assumption.
Qed.

Theorem undoes_unflatten d sz sh ysh d' sz' :
  nonneg sh -> (2 <= List.length sz)%nat -> unflatten_dims sh d sz = Some (d', sz') ->
  shape_of (CUnflatten d sz) sh = Some ysh ->
  undoes (CUnflatten d sz) (CFlatten d' (d' + zlen sz - 1)) sh ysh.
Proof.
  intros Hnn Hsz Hd Hs.
  assert (Hd2 := Hd). unfold unflatten_dims in Hd2. destruct (in_range d (zlen sh)) eqn:Er; [|discriminate].
  destruct sz as [|z0 sz0] eqn:Esz; [discriminate|]. rewrite <- Esz in *.
  destruct (infer sz (nthZ sh (norm d (zlen sh)) 0)) as [r|] eqn:Ei; [|discriminate]. injection Hd2 as <- <-.
  apply norm_range in Er. set (d' := norm d (zlen sh)) in *.
  assert (Hl : (Z.to_nat d' + 1 <= List.length sh)%nat) by (unfold zlen in Er; lia).
  destruct (split3 sh (Z.to_nat d') 1 Hl) as [E [LA LM]].
  set (A := firstn (Z.to_nat d') sh) in *. set (B := skipn (Z.to_nat d' + 1) sh) in *.
  assert (Em : firstn 1 (skipn (Z.to_nat d') sh) = [nthZ sh d' 0]).
  { unfold nthZ. destruct (skipn (Z.to_nat d') sh) as [|x t] eqn:Es; [cbn in LM; lia|]. cbn. f_equal.
    rewrite <- (firstn_skipn (Z.to_nat d') sh) at 1. rewrite Es. fold A.
    replace (Z.to_nat d') with (List.length A) by exact LA. symmetry. apply nth_app_len. }
  rewrite Em in E. clear LM.
  assert (Hm0 : 0 <= nthZ sh d' 0).
  { unfold nonneg in Hnn. rewrite Forall_forall in Hnn. apply Hnn. unfold nthZ. apply nth_In. lia. }
  destruct (infer_spec _ _ _ Hm0 Ei) as [Hprod [Hnr Hlr]].
  assert (Ed : d' = zlen A) by (unfold zlen; lia).
  set (m := nthZ sh d' 0) in *. clearbody A B m d'. subst sh m d'.
  assert (Hfd : flatten_dims (zlen A) (zlen A + zlen sz - 1) (zlen (A ++ r ++ B)) = Some (zlen A, zlen A + zlen r - 1)).
  { replace (zlen sz) with (zlen r) by (unfold zlen; lia). apply flatten_dims_pos; rewrite ?zlen_app; unfold zlen; lia. }
  destruct (seg_core A r B (zlen A) (zlen A + zlen sz - 1) d sz Hfd Hd Hnr) as [S1 [S2 [D1 D2]]].
  rewrite S2 in Hs. injection Hs as <-. split; [exact S1|]. split; assumption.
Qed.

(* ------------------------------------------------------------------ squeeze / unsqueeze *)
Lemma sq_core A B d e :
  let sh := (A ++ [1] ++ B)%list in let ysh := (A ++ B)%list in
  in_range d (zlen sh) = true -> norm d (zlen sh) = zlen A ->
  in_range e (zlen ysh + 1) = true -> norm e (zlen ysh + 1) = zlen A ->
  shape_of (CSqueeze d) sh = Some ysh /\ shape_of (CUnsqueeze e) ysh = Some sh
  /\ (forall i, valid_idx sh i = true ->
        exists j, push (CSqueeze d) sh i = Some j /\ valid_idx ysh j = true /\ push (CUnsqueeze e) ysh j = Some i)
  /\ (forall j, valid_idx ysh j = true ->
        exists i, push (CUnsqueeze e) ysh j = Some i /\ valid_idx sh i = true /\ push (CSqueeze d) sh i = Some j).
Proof.
  intros sh ysh Rd Nd Re Ne.
  assert (Hn1 : nthZ sh (zlen A) 0 = 1) by (unfold nthZ, zlen; rewrite Nat2Z.id; subst sh; cbn [app]; apply nth_app_len).
  split; [|split; [|split]].
  - cbn [shape_of]. rewrite Rd, Nd. f_equal. unfold sh_squeeze. rewrite Hn1. cbn [Z.eqb Pos.eqb].
    unfold zlen. rewrite Nat2Z.id. subst sh. rewrite firstn_app_len.
    replace (Z.to_nat (Z.of_nat (List.length A) + 1)) with (S (List.length A)) by lia. cbn [app]. now rewrite skipn_app_len1.
  - cbn [shape_of]. rewrite Re, Ne. f_equal. unfold sh_unsqueeze, zlen. rewrite Nat2Z.id. subst ysh.
    now rewrite firstn_app_len, skipn_app_len.
  - intros i Hv. destruct (valid_dec A [1] B i Hv) as [iA [iM [iB [-> [LA [LM [VA [VM VB]]]]]]]].
    destruct iM as [|x [|? ?]]; try (cbn in LM; lia). cbn in VM. assert (x = 0) by lia. subst x.
    exists (iA ++ iB)%list. split; [|split].
    + cbn [push]. rewrite Rd, Nd, Hn1. cbn [Z.eqb Pos.eqb]. f_equal. unfold zlen. rewrite Nat2Z.id, <- LA, firstn_app_len.
      replace (Z.to_nat (Z.of_nat (List.length iA) + 1)) with (S (List.length iA)) by lia. cbn [app]. now rewrite skipn_app_len1.
    + subst ysh. rewrite valid_app by assumption. now rewrite VA, VB.
    + cbn [push]. rewrite Re, Ne. f_equal. unfold zlen. now rewrite Nat2Z.id, <- LA, firstn_app_len, skipn_app_len.
  - intros j Hv. subst ysh. destruct (valid_dec A [] B j Hv) as [jA [jM [jB [-> [LA [LM [VA [VM VB]]]]]]]].
    destruct jM; [|cbn in LM; lia]. change (jA ++ [] ++ jB) with (jA ++ jB) in *.
    exists (jA ++ [0] ++ jB)%list. split; [|split].
    + cbn [push]. rewrite Re, Ne. f_equal. unfold zlen. now rewrite Nat2Z.id, <- LA, firstn_app_len, skipn_app_len.
    + subst sh. rewrite valid3 by (assumption || reflexivity). now rewrite VA, VB.
    + cbn [push]. rewrite Rd, Nd, Hn1. cbn [Z.eqb Pos.eqb]. f_equal. unfold zlen. rewrite Nat2Z.id, <- LA, firstn_app_len.
      replace (Z.to_nat (Z.of_nat (List.length jA) + 1)) with (S (List.length jA)) by lia. cbn [app]. now rewrite skipn_app_len1.
Qed.

Lemma undoes_identity sh : undoes CIdentity CIdentity sh sh.
Proof.
  split; [reflexivity|]. split; intros i Hv; exists i; repeat split; assumption.
Qed.

Lemma nth_split1 sh (k : nat) : (k < List.length sh)%nat ->
  sh = (firstn k sh ++ [nth k sh 0] ++ skipn (S k) sh)%list.
Proof.
  intros H. destruct (split3 sh k 1 ltac:(lia)) as [E [LA LM]].
  destruct (skipn k sh) as [|x t] eqn:Es; [cbn in LM; lia|]. cbn [firstn] in E.
  replace (k + 1)%nat with (S k) in E by lia.
  assert (x = nth k sh 0).
  { rewrite <- (firstn_skipn k sh) at 1. rewrite Es. rewrite <- LA at 1. symmetry. apply nth_app_len. }
  subst x. exact E.
Qed.

(* squeeze(d): the reverse issues unsqueeze(d) when the rank changed and nothing otherwise *)
Theorem undoes_squeeze d sh ysh :
  shape_of (CSqueeze d) sh = Some ysh ->
  undoes (CSqueeze d) (if zlen ysh =? zlen sh then CIdentity else CUnsqueeze d) sh ysh.
Proof.
  intros Hs. assert (Hs0 := Hs). cbn [shape_of] in Hs. destruct (in_range d (zlen sh)) eqn:Er; [|discriminate].
  injection Hs as Hy. pose proof (norm_range _ _ Er) as Hr. set (d' := norm d (zlen sh)) in *.
  unfold sh_squeeze in Hy. destruct (nthZ sh d' 0 =? 1) eqn:E1.
  - (* squeezed *)
    apply Z.eqb_eq in E1. unfold nthZ in E1.
    pose proof (nth_split1 sh (Z.to_nat d') ltac:(unfold zlen in Hr; lia)) as E. rewrite E1 in E.
    set (A := firstn (Z.to_nat d') sh) in *.
    assert (LA : List.length A = Z.to_nat d') by (subst A; rewrite firstn_length; unfold zlen in Hr; lia).
    replace (Z.to_nat (d' + 1)) with (S (Z.to_nat d')) in Hy by lia.
    set (B := skipn (S (Z.to_nat d')) sh) in *.
    assert (Ed : d' = zlen A) by (unfold zlen; lia).
    assert (Hzl : zlen ysh =? zlen sh = false).
    { subst ysh. rewrite E. rewrite !zlen_app. unfold zlen. cbn [List.length]. lia. }
    rewrite Hzl. subst ysh. unfold d' in Ed. clearbody A B. subst sh.
    assert (Re : in_range d (zlen (A ++ B) + 1) = true).
    { rewrite !zlen_app in *. unfold in_range in *. unfold zlen in *. cbn [List.length] in *. lia. }
    assert (Ne : norm d (zlen (A ++ B) + 1) = zlen A).
    { rewrite <- Ed. f_equal. rewrite !zlen_app. unfold zlen. cbn [List.length]. lia. }
    destruct (sq_core A B d d Er Ed Re Ne) as [S1 [S2 [D1 D2]]].
    split; [exact S2|]. split; assumption.
  - (* not a singleton: the same shape comes back *)
    subst ysh. rewrite Z.eqb_refl.
    split; [reflexivity|]. split; intros i Hv; exists i; cbn [push]; rewrite Er; fold d'; rewrite E1; repeat split; assumption.
Qed.

Theorem undoes_unsqueeze d sh ysh :
  shape_of (CUnsqueeze d) sh = Some ysh -> undoes (CUnsqueeze d) (CSqueeze d) sh ysh.
Proof.
  intros Hs. cbn [shape_of] in Hs. destruct (in_range d (zlen sh + 1)) eqn:Er; [|discriminate].
  injection Hs as Hy. pose proof (norm_range _ _ Er) as Hr. set (d' := norm d (zlen sh + 1)) in *.
  unfold sh_unsqueeze in Hy.
  pose proof (firstn_skipn (Z.to_nat d') sh) as E.
  set (A := firstn (Z.to_nat d') sh) in *. set (B := skipn (Z.to_nat d') sh) in *.
  assert (LA : List.length A = Z.to_nat d') by (subst A; rewrite firstn_length; unfold zlen in Hr; lia).
  assert (Ed : d' = zlen A) by (unfold zlen; lia). unfold d' in Ed.
  clearbody A B. subst sh ysh.
  assert (Rd : in_range d (zlen (A ++ [1] ++ B)) = true).
  { rewrite !zlen_app in *. unfold in_range in *. unfold zlen in *. cbn [List.length] in *. lia. }
  assert (Nd : norm d (zlen (A ++ [1] ++ B)) = zlen A).
  { rewrite <- Ed. f_equal. rewrite !zlen_app. unfold zlen. cbn [List.length]. lia. }
  destruct (sq_core A B d d Rd Nd Er Ed) as [S1 [S2 [D1 D2]]].
  split; [exact S1|]. split; assumption.
Qed.


(* an unflattened_size of length 1 changes nothing: the identity undoes it (what the repaired _reverse_unflatten does) *)
Theorem undoes_unflatten1 d z sh ysh :
  nonneg sh -> shape_of (CUnflatten d [z]) sh = Some ysh -> undoes (CUnflatten d [z]) CIdentity sh ysh.
Proof.
  intros Hnn Hs. assert (Hs0 := Hs). cbn [shape_of] in Hs.
  destruct (unflatten_dims sh d [z]) as [[d' sz']|] eqn:Hd; [|discriminate]. cbn [option_map fst snd] in Hs. injection Hs as Hy.
  assert (Hd2 := Hd). unfold unflatten_dims in Hd2. destruct (in_range d (zlen sh)) eqn:Er; [|discriminate].
  destruct (infer [z] (nthZ sh (norm d (zlen sh)) 0)) as [r|] eqn:Ei; [|discriminate]. injection Hd2 as <- <-.
  apply norm_range in Er. set (d' := norm d (zlen sh)) in *.
  pose proof (nth_split1 sh (Z.to_nat d') ltac:(unfold zlen in Er; lia)) as E.
  assert (Hm0 : 0 <= nthZ sh d' 0).
  { unfold nonneg in Hnn. rewrite Forall_forall in Hnn. apply Hnn. unfold nthZ. apply nth_In. unfold zlen in Er. lia. }
  destruct (infer_spec _ _ _ Hm0 Ei) as [Hprod [_ Hlr]].
  destruct r as [|m [|? ?]]; try (cbn in Hlr; lia).
  assert (Em : m = nthZ sh d' 0) by (cbn in Hprod; lia).
  set (A := firstn (Z.to_nat d') sh) in *. set (B := skipn (S (Z.to_nat d')) sh) in *.
  assert (LA : List.length A = Z.to_nat d') by (subst A; rewrite firstn_length; unfold zlen in Er; lia).
  assert (Ed : d' = zlen A) by (unfold zlen; lia).
  unfold nthZ in Em. rewrite <- Em in E.
  assert (Hyy : ysh = sh).
  { rewrite <- Hy. unfold sh_unflatten. fold A. replace (Z.to_nat (d' + 1)) with (S (Z.to_nat d')) by lia. fold B. symmetry. exact E. }
  clear Hy Hs0. subst ysh.
  assert (P : forall iA iB x, List.length iA = List.length A ->
              push (CUnflatten d [z]) sh (iA ++ [x] ++ iB) = Some (iA ++ [x] ++ iB)).
  { intros iA iB x LiA. rewrite E. rewrite (push_unflatten_dec A B m iA iB x [z] [m] d LiA).
    - cbn [unravel]. change (prodZ []) with 1. now rewrite Z.div_1_r.
    - rewrite <- E, <- Ed. exact Hd. }
  split; [reflexivity|]. split; intros i Hv.
  - assert (Hv' := Hv). rewrite E in Hv'. destruct (valid_dec A [m] B i Hv') as [iA [iM [iB [-> [LiA [LM _]]]]]].
    destruct iM as [|x [|? ?]]; try (cbn in LM; lia).
    exists (iA ++ [x] ++ iB). split; [now apply P|]. split; [exact Hv|reflexivity].
  - assert (Hv' := Hv). rewrite E in Hv'. destruct (valid_dec A [m] B i Hv') as [iA [iM [iB [-> [LiA [LM _]]]]]].
    destruct iM as [|x [|? ?]]; try (cbn in LM; lia).
    exists (iA ++ [x] ++ iB). split; [reflexivity|]. split; [exact Hv|now apply P].
Qed.
