(* C06 — the cache key: which calls share an entry (utils.py _unfold_sequence / _make_cache_key). *)
From Coq Require Import ZArith List String Bool Arith Lia.
Import ListNotations.
From TD Require Import Model.C06_Cache.
Open Scope string_scope.
Open Scope list_scope.

(* ---------------------------------------------------------------- induction over nested arguments / key atoms *)
Section ArgInd.
  Variable P : arg -> Prop.
  Hypothesis Hstr : forall s, P (AStr s).
  Hypothesis Hint : forall z, P (AInt z).
  Hypothesis Hsl : forall a b c, P (ASlice a b c).
  Hypothesis Hell : P AEll.
  Hypothesis Hobj : forall o, P (AObj o).
  Hypothesis Hseq : forall l, Forall P l -> P (ASeq l).
  Fixpoint arg_ind' (a : arg) : P a :=
    match a with
    | AStr s => Hstr s | AInt z => Hint z | ASlice a b c => Hsl a b c | AEll => Hell | AObj o => Hobj o
    | ASeq l => Hseq l ((fix go (l : list arg) : Forall P l :=
                           match l with [] => Forall_nil P | x :: r => Forall_cons x (arg_ind' x) (go r) end) l)
    end.
End ArgInd.

Section KInd.
  Variable P : katom -> Prop.
  Hypothesis Hstr : forall s, P (KStr s).
  Hypothesis Hint : forall z, P (KInt z).
  Hypothesis Hsl : forall a b c, P (KSlice a b c).
  Hypothesis Hell : P KEll.
  Hypothesis Hid : forall a, P (KId a).
  Hypothesis Htup : forall l, Forall P l -> P (KTup l).
  Fixpoint katom_ind' (a : katom) : P a :=
    match a with
    | KStr s => Hstr s | KInt z => Hint z | KSlice a b c => Hsl a b c | KEll => Hell | KId o => Hid o
    | KTup l => Htup l ((fix go (l : list katom) : Forall P l :=
                           match l with [] => Forall_nil P | x :: r => Forall_cons x (katom_ind' x) (go r) end) l)
    end.
End KInd.

(* ---------------------------------------------------------------- which arguments get the same key *)
(* equal by value (str, int — a bool IS an int —, slice, Ellipsis), or objects at the same address, or sequences of such *)
Inductive same_arg : arg -> arg -> Prop :=
| SA_str : forall s, same_arg (AStr s) (AStr s)
| SA_int : forall z, same_arg (AInt z) (AInt z)
| SA_slice : forall a b c, same_arg (ASlice a b c) (ASlice a b c)
| SA_ell : same_arg AEll AEll
| SA_obj : forall o o', o_addr o = o_addr o' -> same_arg (AObj o) (AObj o')
| SA_seq : forall l l', Forall2 same_arg l l' -> same_arg (ASeq l) (ASeq l').

Lemma unfold_inj : forall x y, unfold_arg x = unfold_arg y -> same_arg x y.
Proof.
  induction x using arg_ind'; intros y E; destruct y; cbn in E; try discriminate; try (inversion E; subst; constructor; fail).
  - inversion E. now constructor.
  - inversion E as [E']. constructor. clear E.
    revert l0 E'. induction H as [|x l Hx Hl IH]; intros [|y m] E'; cbn in E'; try discriminate; constructor.
    + apply Hx. now inversion E'.
    + apply IH. now inversion E'.
Qed.

Lemma same_arg_unfold : forall x y, same_arg x y -> unfold_arg x = unfold_arg y.
Proof.
  induction x using arg_ind'; intros y S; inversion S; subst; cbn; try reflexivity.
  - now f_equal.
  - f_equal. match goal with F : Forall2 same_arg _ ?m |- _ => clear S; revert m F end.
    induction H as [|x l Hx Hl IH]; intros l' F; inversion F; subst; cbn; [reflexivity|].
    f_equal; [now apply Hx|now apply IH].
Qed.

Fixpoint arg_objs (a : arg) : list obj :=
  match a with AObj o => [o] | ASeq l => flat_map arg_objs l | _ => [] end.

(* CPython: two objects that are alive at the same time have different id()s.  [U] is a set of objects among which
   an address determines the object. *)
Definition objs_consistent (U : list obj) : Prop :=
  forall o o', In o U -> In o' U -> o_addr o = o_addr o' -> o = o'.

Lemma same_arg_eq : forall U x y, objs_consistent U -> incl (arg_objs x) U -> incl (arg_objs y) U -> same_arg x y -> x = y.
Proof.
  intros U x. induction x using arg_ind'; intros y HU Ia Ib S; inversion S; subst; try reflexivity.
  - f_equal. apply HU; [apply Ia|apply Ib|assumption]; cbn; auto.
  - f_equal. match goal with F : Forall2 same_arg _ ?m |- _ => clear S; revert m F Ib end.
    cbn in Ia. induction H as [|x l Hx Hl IH]; intros l' F Ib; inversion F; subst; [reflexivity|].
    cbn in Ia, Ib. f_equal.
    + apply Hx; auto; intros o Ho; [apply Ia|apply Ib]; apply in_or_app; now left.
    + apply IH; auto; intros o Ho; [apply Ia|apply Ib]; apply in_or_app; now right.
Qed.

(* ---------------------------------------------------------------- the key of a call *)
Definition kwatom (kv : string * arg) : katom := KTup [KStr (fst kv); unfold_arg (snd kv)].

Lemma make_cache_key_general : forall a k,
  make_cache_key a k = (KTup (map unfold_arg a), KTup (map kwatom (sort_kw k))).
Proof.
  intros a k. unfold make_cache_key.
  destruct a as [|x [|y r]]; destruct k as [|kv k']; try reflexivity; destruct x; reflexivity.
Qed.

Definition same_kw (x y : string * arg) : Prop := fst x = fst y /\ same_arg (snd x) (snd y).

(* key_injective: two calls share a cache entry only if their arguments are pairwise equal by value or live at the same
   address (keyword arguments compared after sorting by name) *)
Theorem key_injective : forall a k a' k',
  make_cache_key a k = make_cache_key a' k' ->
  Forall2 same_arg a a' /\ Forall2 same_kw (sort_kw k) (sort_kw k').
Proof.
  intros a k a' k' E. rewrite !make_cache_key_general in E. inversion E as [[E1 E2]]. clear E. split.
  - revert a' E1. induction a as [|x a IH]; intros [|y a'] E1; cbn in E1; try discriminate; constructor.
    + apply unfold_inj. now inversion E1.
    + apply IH. now inversion E1.
  - revert E2. generalize (sort_kw k) (sort_kw k'). intros l. induction l as [|x l IH]; intros [|y l'] E2; cbn in E2; try discriminate; constructor.
    + inversion E2. split; [assumption|now apply unfold_inj].
    + apply IH. now inversion E2.
Qed.

Theorem key_complete : forall a k a' k',
  Forall2 same_arg a a' -> Forall2 same_kw (sort_kw k) (sort_kw k') -> make_cache_key a k = make_cache_key a' k'.
Proof.
  intros a k a' k' F1 F2. rewrite !make_cache_key_general. f_equal; f_equal.
  - induction F1; cbn; [reflexivity|]. f_equal; [now apply same_arg_unfold|assumption].
  - induction F2 as [|x y l l' [H1 H2] F IH]; cbn; [reflexivity|]. f_equal; [|assumption].
    unfold kwatom. rewrite H1. f_equal. f_equal. f_equal. now apply same_arg_unfold.
Qed.

Definition call_objs (a : list arg) (k : list (string * arg)) : list obj :=
  flat_map arg_objs a ++ flat_map (fun kv => arg_objs (snd kv)) k.

Lemma flat_map_incl_elem : forall {A B} (f : A -> list B) l x U, incl (flat_map f l) U -> In x l -> incl (f x) U.
Proof.
  intros A B f l x U I Hx o Ho. apply I. apply in_flat_map. now exists x.
Qed.

(* among objects whose address determines them, the key determines the call (keyword arguments given sorted) *)
Theorem key_determines_call : forall U a k a' k',
  objs_consistent U -> incl (call_objs a k) U -> incl (call_objs a' k') U ->
  sort_kw k = k -> sort_kw k' = k' ->
  make_cache_key a k = make_cache_key a' k' -> a = a' /\ k = k'.
Proof.
  intros U a k a' k' HU I I' Sk Sk' E. apply key_injective in E. destruct E as [F1 F2]. rewrite Sk, Sk' in F2.
  unfold call_objs in I, I'. split.
  - assert (Ia : incl (flat_map arg_objs a) U) by (intros o Ho; apply I; apply in_or_app; now left).
    assert (Ia' : incl (flat_map arg_objs a') U) by (intros o Ho; apply I'; apply in_or_app; now left).
    clear I I' F2. induction F1 as [|x y l l' Hxy F IH]; [reflexivity|]. cbn in Ia, Ia'. f_equal.
    + eapply same_arg_eq; eauto; intros o Ho; [apply Ia|apply Ia']; apply in_or_app; now left.
    + apply IH; intros o Ho; [apply Ia|apply Ia']; apply in_or_app; now right.
  - assert (Ik : incl (flat_map (fun kv => arg_objs (snd kv)) k) U) by (intros o Ho; apply I; apply in_or_app; now right).
    assert (Ik' : incl (flat_map (fun kv => arg_objs (snd kv)) k') U) by (intros o Ho; apply I'; apply in_or_app; now right).
    clear I I' F1 Sk Sk'. induction F2 as [|x y l l' [H1 H2] F IH]; [reflexivity|]. cbn in Ik, Ik'. f_equal.
    + destruct x as [x1 x2], y as [y1 y2]; cbn in *. subst. f_equal.
      eapply same_arg_eq; eauto; intros o Ho; [apply Ik|apply Ik']; apply in_or_app; now left.
    + apply IH; intros o Ho; [apply Ik|apply Ik']; apply in_or_app; now right.
Qed.

(* without liveness the key does NOT determine the call: a dead object's address can be taken by another object *)
Theorem key_injective_needs_liveness : exists a a' k, a <> a' /\ make_cache_key a k = make_cache_key a' k.
Proof.
  exists [AObj {| o_addr := 7; o_uid := 1; o_sem := 1 |}], [AObj {| o_addr := 7; o_uid := 2; o_sem := 7 |}], [].
  split; [discriminate|reflexivity].
Qed.

(* ---------------------------------------------------------------- decidable equality used by the lookup *)
Lemma opt_Z_eqb_eq : forall a b, opt_Z_eqb a b = true <-> a = b.
Proof.
  intros [a|] [b|]; cbn; split; intros H; try discriminate; try reflexivity.
  - apply Z.eqb_eq in H. now subst.
  - inversion H. apply Z.eqb_refl.
Qed.

Lemma katom_eqb_eq : forall x y, katom_eqb x y = true <-> x = y.
Proof.
  induction x using katom_ind'; intros y; destruct y; cbn; split; intros E; try discriminate; try reflexivity.
  - apply String.eqb_eq in E. now subst.
  - inversion E. apply String.eqb_refl.
  - apply Z.eqb_eq in E. now subst.
  - inversion E. apply Z.eqb_refl.
  - apply andb_prop in E. destruct E as [E E3]. apply andb_prop in E. destruct E as [E1 E2].
    apply opt_Z_eqb_eq in E1, E2, E3. now subst.
  - inversion E; subst. rewrite !(proj2 (opt_Z_eqb_eq _ _) eq_refl). reflexivity.
  - apply Nat.eqb_eq in E. now subst.
  - inversion E. apply Nat.eqb_refl.
  - f_equal. revert l0 E. induction H as [|x l Hx Hl IH]; intros [|y m] E; try discriminate; [reflexivity|].
    apply andb_prop in E. destruct E as [E1 E2]. f_equal; [now apply Hx|now apply IH].
  - inversion E as [E']. subst l0. clear E. induction H as [|x l Hx Hl IH]; [reflexivity|].
    apply andb_true_intro. split; [now apply Hx|assumption].
Qed.

Lemma ckey_eqb_eq : forall a b, ckey_eqb a b = true <-> a = b.
Proof.
  intros [a1 a2] [b1 b2]. unfold ckey_eqb. cbn. rewrite andb_true_iff, !katom_eqb_eq. split.
  - intros [-> ->]. reflexivity.
  - intros E. inversion E. auto.
Qed.

Lemma meth_eqb_eq : forall a b, meth_eqb a b = true <-> a = b.
Proof.
  intros a b. split.
  - destruct a, b; intros E; try reflexivity; vm_compute in E; discriminate.
  - intros ->. unfold meth_eqb. apply String.eqb_refl.
Qed.
