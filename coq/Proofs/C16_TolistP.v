(* C16 proofs, part 6: unbind keeps shapes well-formed; tolist() is the row-major nested list of the array. *)
From Coq Require Import ZArith List Bool Lia.
Import ListNotations.
From TD Require Import Spec.PySlice Spec.C16_ObjArray Model.C16_NonTensor.
From TD Require Import Proofs.C16_BasicsP Proofs.C16_StackP Proofs.C16_SpecP Proofs.C16_IndexP.
Open Scope nat_scope.

Theorem select_shape x : forall k dim y sh n,
  wf x = true -> shape x = Some sh -> nth_error sh dim = Some n -> k < n -> select k dim x = Ok y ->
  shape y = Some (remove_at dim sh) /\ wf y = true.
Proof.
  induction x as [p sh0|d l IH] using nt_ind'; intros k dim y sh n Hw Hsh Hn Hk H; cbn [select] in H.
  - cbn [shape] in Hsh. injection Hsh as <-. rewrite Hn in H. replace (k <? n) with true in H by (symmetry; now apply Nat.ltb_lt).
    injection H as <-. now split.
  - apply wf_stack in Hw as (m0 & r0 & s & El & Hwf & Hss & Hd).
    assert (Hshape : sh = insert_at d (length l) s).
    { subst l. inversion Hss; subst. rewrite (shape_stack d m0 r0 s) in Hsh by assumption. now injection Hsh as <-. }
    subst sh. assert (Hdim : dim < S (length s)) by (rewrite <- (length_insert_at s d (length l)); apply nth_error_Some; congruence).
    destruct (dim =? d) eqn:Edd.
    + apply Nat.eqb_eq in Edd. subst dim. rewrite nth_error_insert_at in Hn by assumption. injection Hn as <-.
      destruct (nth_error l k) as [m|] eqn:Em; cbn [of_opt] in H; [|discriminate]. injection H as <-.
      rewrite remove_insert_at by assumption. split; [exact (Forall_nth_error _ _ _ _ Hss Em)|exact (Forall_nth_error _ _ _ _ Hwf Em)].
    + apply Nat.eqb_neq in Edd. rewrite select_stack_mp in H.
      destruct (rmap (select k (if dim <? d then dim else dim - 1)) l) as [ys| |] eqn:E; cbn [rbind] in H; try discriminate.
      injection H as <-. pose proof (rmap_ok_length _ _ _ E) as Lys.
      assert (Hne : ys <> []). { intros ->. subst l. cbn in Lys. lia. }
      destruct (dim <? d) eqn:Elt.
      * apply Nat.ltb_lt in Elt. rewrite nth_insert_lt in Hn by lia.
        assert (Hall : Forall (fun y => shape y = Some (remove_at dim s) /\ wf y = true) ys).
        { apply Forall_forall. intros y Hy. apply In_nth_error in Hy as [j Hj].
          destruct (rmap_ok_nth_inv _ _ _ _ _ E Hj) as (m & Em & Hm).
          exact (Forall_nth_error _ _ _ _ IH Em k dim y s n (Forall_nth_error _ _ _ _ Hwf Em) (Forall_nth_error _ _ _ _ Hss Em) Hn Hk Hm). }
        destruct (stack_of_members (d - 1) ys (remove_at dim s) Hne Hall ltac:(rewrite length_remove_at; lia)) as [S W].
        split; [|exact W]. rewrite S, Lys, remove_insert_gt by lia. reflexivity.
      * apply Nat.ltb_ge in Elt. assert (d < dim) by lia. rewrite nth_insert_gt in Hn by lia.
        assert (Hall : Forall (fun y => shape y = Some (remove_at (dim - 1) s) /\ wf y = true) ys).
        { apply Forall_forall. intros y Hy. apply In_nth_error in Hy as [j Hj].
          destruct (rmap_ok_nth_inv _ _ _ _ _ E Hj) as (m & Em & Hm).
          exact (Forall_nth_error _ _ _ _ IH Em k (dim - 1) y s n (Forall_nth_error _ _ _ _ Hwf Em) (Forall_nth_error _ _ _ _ Hss Em) Hn Hk Hm). }
        destruct (stack_of_members d ys (remove_at (dim - 1) s) Hne Hall ltac:(rewrite length_remove_at; lia)) as [S W].
        split; [|exact W]. rewrite S, Lys, remove_insert_lt' by lia. reflexivity.
Qed.

(* ---------------- tree_of *)
Definition tree_all (sh' : list nat) (f : list nat -> option payload) :=
  fix all (l : list nat) : option (list tree) :=
    match l with
    | [] => Some []
    | k :: r => match tree_of sh' (fun I => f (k :: I)), all r with
                | Some t, Some ts => Some (t :: ts) | _, _ => None end
    end.
Lemma tree_of_cons n sh' f : tree_of (n :: sh') f = option_map Node (tree_all sh' f (seq 0 n)).
Proof. reflexivity. Qed.

Lemma tree_of_ext sh : forall f g, (forall I, f I = g I) -> tree_of sh f = tree_of sh g.
Proof.
  induction sh as [|n sh IH]; intros f g H; [cbn [tree_of]; now rewrite H|].
  rewrite !tree_of_cons. f_equal. induction (seq 0 n) as [|k r IHr]; [reflexivity|]. cbn [tree_all].
  rewrite (IH (fun I => f (k :: I)) (fun I => g (k :: I))) by (intros; apply H). now rewrite IHr.
Qed.

(* the rows: tree_all over ks is the list of the trees of the rows *)
Lemma tree_all_spec sh' f ks ts :
  length ts = length ks ->
  (forall j k t, nth_error ks j = Some k -> nth_error ts j = Some t -> tree_of sh' (fun I => f (k :: I)) = Some t) ->
  tree_all sh' f ks = Some ts.
Proof.
  revert ts. induction ks as [|k ks IH]; intros ts L H; destruct ts as [|t ts]; cbn [length] in L; try lia; [reflexivity|].
  cbn [tree_all]. rewrite (H 0 k t eq_refl eq_refl). rewrite (IH ts) by (try lia; intros j k' t' A B; exact (H (S j) k' t' A B)).
  reflexivity.
Qed.

Lemma tree_of_const sh p : tree_of sh (fun I => if in_range sh I then Some p else None) = Some (full_tree sh p).
Proof.
  induction sh as [|n sh IH]; [reflexivity|]. rewrite tree_of_cons. cbn [full_tree].
  rewrite (tree_all_spec sh _ (seq 0 n) (repeat (full_tree sh p) n)); [reflexivity|now rewrite repeat_length, seq_length|].
  intros j k t Hk Ht. assert (j < n) by (rewrite <- (seq_length n 0); apply nth_error_Some; congruence).
  rewrite nth_error_repeat in Ht by assumption. injection Ht as <-.
  assert (k < n). { apply nth_error_In in Hk. apply in_seq in Hk. lia. }
  rewrite <- IH. apply tree_of_ext. intros I. cbn [in_range]. replace (k <? n) with true by (symmetry; now apply Nat.ltb_lt). reflexivity.
Qed.

(* ---------------- tolist *)
Lemma unbind_spec x dim sh n ms :
  wf x = true -> shape x = Some sh -> nth_error sh dim = Some n -> unbind dim x = Ok ms ->
  length ms = n /\ forall k y, nth_error ms k = Some y ->
    shape y = Some (remove_at dim sh) /\ wf y = true /\ forall I, dim <= length I -> denote y I = denote x (insert_at dim k I).
Proof.
  intros Hw Hsh Hn H. unfold unbind in H. rewrite Hsh, Hn in H. split.
  - rewrite (rmap_ok_length _ _ _ H). apply seq_length.
  - intros k y Ey. destruct (rmap_ok_nth_inv _ _ _ _ _ H Ey) as (k' & Ek' & Hy).
    assert (k < n) by (rewrite <- (seq_length n 0); apply nth_error_Some; congruence).
    rewrite nth_error_nth' with (d := 0) in Ek' by (now rewrite seq_length). rewrite seq_nth in Ek' by assumption.
    injection Ek' as <-. cbn [Nat.add] in Hy.
    destruct (select_shape x k dim y sh n Hw Hsh Hn H0 Hy) as [A B]. repeat split; auto.
    intros I HI. now apply select_denote.
Qed.

Theorem tolist_f_rowmajor f : forall x sh t,
  wf x = true -> shape x = Some sh -> length sh < f -> tolist_f f x = Ok t -> tree_of sh (denote x) = Some t.
Proof.
  induction f as [|f IH]; intros x sh t Hw Hsh Hf H; [lia|].
  destruct x as [p sh0|d l].
  - cbn [tolist_f] in H. injection H as <-. cbn [shape] in Hsh. injection Hsh as <-.
    rewrite <- tree_of_const. apply tree_of_ext. intros I. reflexivity.
  - cbn [tolist_f] in H.
    pose proof Hw as Hw0. apply wf_stack in Hw as (m0 & r0 & s & El & Hwf & Hss & Hd).
    assert (Hshape : sh = insert_at d (length l) s).
    { subst l. inversion Hss; subst. rewrite (shape_stack d m0 r0 s) in Hsh by assumption. now injection Hsh as <-. }
    destruct (d =? 0) eqn:Ed.
    + apply Nat.eqb_eq in Ed. subst d. cbn [rbind] in H. rewrite insert_at_0 in Hshape. subst sh.
      destruct (rmap (tolist_f f) l) as [ts| |] eqn:E; cbn [rbind] in H; try discriminate. injection H as <-.
      rewrite tree_of_cons. rewrite (tree_all_spec s _ (seq 0 (length l)) ts); [reflexivity|rewrite seq_length; eapply rmap_ok_length; eauto|].
      intros j k t Hk Ht. assert (j < length l) by (rewrite <- (seq_length (length l) 0); apply nth_error_Some; congruence).
      rewrite nth_error_nth' with (d := 0) in Hk by (now rewrite seq_length). rewrite seq_nth in Hk by assumption.
      injection Hk as <-. cbn [Nat.add].
      destruct (rmap_ok_nth_inv _ _ _ _ _ E Ht) as (m & Em & Hm).
      rewrite <- (IH m s t (Forall_nth_error _ _ _ _ Hwf Em) (Forall_nth_error _ _ _ _ Hss Em) ltac:(cbn [length] in Hf; lia) Hm).
      apply tree_of_ext. intros I. rewrite denote_stack. cbn [nth_error]. now rewrite Em, remove_at_0.
    + apply Nat.eqb_neq in Ed.
      destruct (unbind 0 (Stack d l)) as [ms| |] eqn:Eu; cbn [rbind] in H; try discriminate.
      destruct (rmap (tolist_f f) ms) as [ts| |] eqn:E; cbn [rbind] in H; try discriminate. injection H as <-.
      destruct sh as [|n0 sh'].
      { exfalso. assert (length (insert_at d (length l) s) = 0) by (rewrite <- Hshape; reflexivity). rewrite length_insert_at in H. lia. }
      destruct (unbind_spec (Stack d l) 0 (n0 :: sh') n0 ms Hw0 Hsh eq_refl Eu) as [Lms Hms].
      rewrite tree_of_cons. rewrite (tree_all_spec sh' _ (seq 0 n0) ts); [reflexivity|rewrite seq_length, <- Lms; eapply rmap_ok_length; eauto|].
      intros j k t Hk Ht. assert (j < n0) by (rewrite <- (seq_length n0 0); apply nth_error_Some; congruence).
      rewrite nth_error_nth' with (d := 0) in Hk by (now rewrite seq_length). rewrite seq_nth in Hk by assumption.
      injection Hk as <-. cbn [Nat.add].
      destruct (rmap_ok_nth_inv _ _ _ _ _ E Ht) as (m & Em & Hm).
      destruct (Hms j m Em) as (Sm & Wm & Dm). rewrite remove_at_0 in Sm.
      rewrite <- (IH m sh' t Wm Sm ltac:(cbn [length] in Hf; lia) Hm).
      apply tree_of_ext. intros I. rewrite (Dm I ltac:(lia)). now rewrite insert_at_0.
Qed.

Theorem tolist_rowmajor x sh t :
  wf x = true -> shape x = Some sh -> tolist x = Ok t -> tree_of sh (denote x) = Some t.
Proof.
  intros Hw Hsh H. unfold tolist, rank in H. rewrite Hsh in H. eapply tolist_f_rowmajor; eauto.
Qed.

(* ---------------- equal nested lists = equal arrays; the is_diff test of _set_at_str *)
Section TreeInd.
  Variable P : tree -> Prop.
  Hypothesis Hl : forall p, P (Leaf p).
  Hypothesis Hn : forall l, Forall P l -> P (Node l).
  Fixpoint tree_ind' (t : tree) : P t :=
    match t with
    | Leaf p => Hl p
    | Node l => Hn l ((fix go (l : list tree) : Forall P l :=
                         match l with [] => Forall_nil P | x :: r => Forall_cons x (tree_ind' x) (go r) end) l)
    end.
End TreeInd.

Lemma tree_eqb_eq a : forall b, tree_eqb a b = true -> a = b.
Proof.
  induction a as [p|l IH] using tree_ind'; intros [q|m]; cbn [tree_eqb]; try discriminate.
  - intros H. apply Z.eqb_eq in H. now subst.
  - intros H. f_equal. revert m H. induction l as [|x l IHl]; intros [|y m] H; try discriminate; [reflexivity|].
    apply andb_true_iff in H as [H1 H2]. inversion IH as [|? ? Hx Hr]; subst. f_equal; [now apply Hx|now apply IHl].
Qed.

Lemma tree_all_nth sh' f : forall ks ts, tree_all sh' f ks = Some ts ->
  length ts = length ks /\ forall j k, nth_error ks j = Some k -> exists t, nth_error ts j = Some t /\ tree_of sh' (fun I => f (k :: I)) = Some t.
Proof.
  induction ks as [|k ks IH]; intros ts H; cbn [tree_all] in H.
  - injection H as <-. split; [reflexivity|]. intros j k E. now destruct j.
  - destruct (tree_of sh' (fun I => f (k :: I))) as [t|] eqn:Et; [|discriminate].
    destruct (tree_all sh' f ks) as [ts'|] eqn:Ea; [|discriminate]. injection H as <-.
    destruct (IH ts' eq_refl) as [L N]. split; [cbn; lia|]. intros j k' E. destruct j; cbn [nth_error] in *.
    + injection E as <-. eauto.
    + now apply N.
Qed.

Lemma tree_of_inj sh : forall f g t, tree_of sh f = Some t -> tree_of sh g = Some t ->
  forall R, in_range sh R = true -> f R = g R.
Proof.
  induction sh as [|n sh IH]; intros f g t Hf Hg R HR.
  - destruct R; [|discriminate]. cbn [tree_of] in Hf, Hg.
    destruct (f []) as [p|]; [|discriminate]. destruct (g []) as [q|]; [|discriminate].
    cbn in Hf, Hg. congruence.
  - destruct R as [|k R]; [discriminate|]. cbn [in_range] in HR. apply andb_true_iff in HR as [Hk HR]. apply Nat.ltb_lt in Hk.
    rewrite tree_of_cons in Hf, Hg.
    destruct (tree_all sh f (seq 0 n)) as [ts|] eqn:Ef; [|discriminate].
    destruct (tree_all sh g (seq 0 n)) as [ts'|] eqn:Eg; [|discriminate].
    cbn [option_map] in Hf, Hg. assert (ts' = ts) by congruence. subst ts'.
    assert (Hs : nth_error (seq 0 n) k = Some k).
    { rewrite nth_error_nth' with (d := 0) by (now rewrite seq_length). now rewrite seq_nth. }
    destruct (proj2 (tree_all_nth _ _ _ _ Ef) k k Hs) as (t1 & E1 & T1).
    destruct (proj2 (tree_all_nth _ _ _ _ Eg) k k Hs) as (t2 & E2 & T2).
    assert (t2 = t1) by congruence. subst t2.
    exact (IH _ _ t1 T1 T2 R HR).
Qed.

(* when _set_at_str decides not to write (is_diff = False), the addressed positions already hold the value *)
Theorem set_at_noop_sound x idx sh r v vexp cur tc tv :
  wf x = true -> shape x = Some sh -> n_adv idx <= 1 -> ix_shape idx sh = Some r ->
  wf v = true -> shape v = Some r ->
  index x idx = Ok cur -> tolist cur = Ok tc -> tolist v = Ok tv -> tree_eqb tc tv = true ->
  set_at x idx v vexp = Ok x /\ forall R I, ix_src idx sh R = Some I -> denote x I = denote v R.
Proof.
  intros Hw Hsh Hn Hr Hwv Hsv Hc Htc Htv He. split.
  - unfold set_at. rewrite Hc. cbn [rbind]. rewrite Htc. cbn [rbind]. rewrite Htv. cbn [rbind]. now rewrite He.
  - intros R I HI. destruct (index_denote x idx sh r cur Hw Hsh Hn Hr Hc) as (Sc & Wc & Dc).
    rewrite <- (Dc R I HI). apply tree_eqb_eq in He. subst tv.
    eapply tree_of_inj.
    + exact (tolist_rowmajor cur r tc Wc Sc Htc).
    + exact (tolist_rowmajor v r tc Hwv Hsv Htv).
    + eapply ix_src_result_range; eauto.
Qed.
