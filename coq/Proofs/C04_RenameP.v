(* C04 — rename_key_: the code stores under the new key first and deletes the old key afterwards (or not at all when the
   new key is a prefix of the old one); when the new key lies under the old one it detaches the entry first (fix of D42).
   The plain nested dict pops the old key and stores under the new one.  The two agree. *)
From Coq Require Import ZArith List String Bool Lia.
Import ListNotations.
From TD Require Import Model.Keys Proofs.KeysP Model.C04_Tree Model.C04_Ops Spec.C04_NestedDict Proofs.C04_AssocP Proofs.C04_CoreP.
Open Scope string_scope.
Open Scope list_scope.

(* ---- more algebra ---- *)
Lemma aset_aset_same k X Y es : aset k Y (aset k X es) = aset k Y es.
Proof.
  induction es as [|[k' w] r IH]; cbn; [now rewrite String.eqb_refl|].
  destruct (String.eqb k k') eqn:E; cbn; rewrite E; [reflexivity|now rewrite IH].
Qed.

Lemma adel_aset_comm a b X es : a <> b -> adel a (aset b X es) = aset b X (adel a es).
Proof.
  intros N. induction es as [|[k' w] r IH]; cbn.
  - destruct (String.eqb_spec a b); [contradiction|reflexivity].
  - destruct (String.eqb_spec b k'); destruct (String.eqb_spec a k'); subst; cbn.
    + contradiction.
    + rewrite String.eqb_refl. destruct (String.eqb_spec a k'); [contradiction|reflexivity].
    + destruct (String.eqb_spec k' k'); [reflexivity|contradiction].
    + destruct (String.eqb_spec b k'); [contradiction|]. destruct (String.eqb_spec a k'); [contradiction|]. now rewrite IH.
Qed.

Lemma aset_aset_comm a b X Y es : a <> b -> amem a es = true -> aset a Y (aset b X es) = aset b X (aset a Y es).
Proof.
  intros N. unfold amem. induction es as [|[k' w] r IH]; cbn; [discriminate|].
  destruct (String.eqb_spec a k'); destruct (String.eqb_spec b k'); subst; cbn; intros M.
  - contradiction.
  - rewrite String.eqb_refl. destruct (String.eqb_spec b k'); [contradiction|reflexivity].
  - rewrite String.eqb_refl. destruct (String.eqb_spec a k'); [contradiction|reflexivity].
  - destruct (String.eqb_spec a k'); [contradiction|]. destruct (String.eqb_spec b k'); [contradiction|]. now rewrite IH.
Qed.

Lemma amem_aset_neq a b X es : a <> b -> amem a (aset b X es) = amem a es.
Proof. intros N. unfold amem. now rewrite aget_aset_neq. Qed.

Lemma amem_adel_neq a b es : a <> b -> amem a (adel b es) = amem a es.
Proof. intros N. unfold amem. now rewrite aget_adel_neq. Qed.

Lemma amem_aset_eq a X es : amem a (aset a X es) = true.
Proof. unfold amem. now rewrite aget_aset_eq. Qed.

(* ---- relative position of two paths ---- *)
Inductive diverge : list string -> list string -> Prop :=
| div_head a b p q : a <> b -> diverge (a :: p) (b :: q)
| div_cons k p q : diverge p q -> diverge (k :: p) (k :: q).

Definition strict_prefix (p q : list string) : Prop := exists r, r <> [] /\ q = p ++ r.

Lemma path_cases : forall p q, p <> [] -> q <> [] -> p = q \/ strict_prefix p q \/ strict_prefix q p \/ diverge p q.
Proof.
  induction p as [|a p IH]; intros q Np Nq; [congruence|]. destruct q as [|b q]; [congruence|].
  destruct (string_dec a b) as [->|Nab]; [|right; right; right; now constructor].
  destruct p as [|a2 p]; destruct q as [|b2 q].
  - now left.
  - right; left. exists (b2 :: q). split; [discriminate|reflexivity].
  - right; right; left. exists (a2 :: p). split; [discriminate|reflexivity].
  - destruct (IH (b2 :: q)) as [E|[[r [Nr E]]|[[r [Nr E]]|D]]]; try discriminate.
    + left. now rewrite E.
    + right; left. exists r. split; [assumption|]. cbn. now rewrite E.
    + right; right; left. exists r. split; [assumption|]. cbn. now rewrite E.
    + right; right; right. now constructor.
Qed.

Lemma diverge_sym p q : diverge p q -> diverge q p.
Proof. induction 1; constructor; congruence || assumption. Qed.

Lemma diverge_not_prefix p q : diverge p q -> forall r, q <> p ++ r.
Proof.
  induction 1 as [a b p q N|k p q D IH]; intros r E; cbn in E.
  - injection E as E1 E2. congruence.
  - injection E as E2. exact (IH r E2).
Qed.

(* ---- set q then del p  =  del p then set q, for divergent p and q ---- *)
Lemma set_tuple_head b q v es es1 : set_tuple (b :: q) v es = Ok es1 -> exists X, es1 = aset b X es.
Proof.
  destruct q as [|b2 q2]; [rewrite set_tuple_1; intros E; injection E as E; eauto|].
  rewrite set_tuple_2. destruct (aget b es) as [[[|] z|sub]|]; try discriminate.
  - destruct (set_tuple (b2 :: q2) v sub); [|discriminate]. intros E; injection E as E; eauto.
  - destruct (set_tuple (b2 :: q2) v []); [|discriminate]. intros E; injection E as E; eauto.
Qed.

(* set_tuple at (b :: q) only looks at the entry b *)
Lemma set_tuple_local b q v es es' :
  aget b es' = aget b es ->
  match set_tuple (b :: q) v es with
  | Ok es1 => exists X, es1 = aset b X es /\ set_tuple (b :: q) v es' = Ok (aset b X es')
  | Raise e => set_tuple (b :: q) v es' = Raise e
  end.
Proof.
  intros G. destruct q as [|b2 q2]; [rewrite !set_tuple_1; eauto|].
  rewrite !set_tuple_2, G. destruct (aget b es) as [[[|] z|sub]|]; try reflexivity.
  - destruct (set_tuple (b2 :: q2) v sub); [eauto|reflexivity].
  - destruct (set_tuple (b2 :: q2) v []); [eauto|reflexivity].
Qed.

Lemma del_tuple_local a p es es' :
  aget a es' = aget a es ->
  match del_tuple (a :: p) es with
  | Ok es0 => (p = [] /\ es0 = adel a es /\ del_tuple (a :: p) es' = Ok (adel a es') /\ amem a es = true)
              \/ (exists Y, es0 = aset a Y es /\ del_tuple (a :: p) es' = Ok (aset a Y es') /\ amem a es = true)
  | Raise e => del_tuple (a :: p) es' = Raise e
  end.
Proof.
  intros G. destruct p as [|a2 p2].
  - rewrite !del_tuple_1. unfold amem. rewrite G. destruct (aget a es); [left; auto|reflexivity].
  - rewrite !del_tuple_2, G. unfold amem. destruct (aget a es) as [[[|] z|sub]|]; try reflexivity.
    destruct (del_tuple (a2 :: p2) sub); [right; eauto|reflexivity].
Qed.

Lemma set_del_diverge : forall p q, diverge p q -> forall v es es0,
  del_tuple p es = Ok es0 ->
  match set_tuple q v es with
  | Ok es1 => exists es2, del_tuple p es1 = Ok es2 /\ set_tuple q v es0 = Ok es2
  | Raise e => set_tuple q v es0 = Raise e
  end.
Proof.
  induction 1 as [a b p q N|k p q D IH]; intros v es es0 Dl.
  - (* different heads: the two operations touch different entries of this dict *)
    assert (Nba : b <> a) by congruence.
    pose proof (del_tuple_local a p es es (eq_refl _)) as DL. rewrite Dl in DL.
    destruct DL as [[-> [-> [_ M]]]|[Y [-> [_ M]]]].
    + pose proof (set_tuple_local b q v es (adel a es) (aget_adel_neq _ _ _ Nba)) as SL.
      destruct (set_tuple (b :: q) v es) as [es1|e]; [|exact SL].
      destruct SL as [X [-> S0]]. exists (aset b X (adel a es)). split; [|exact S0].
      rewrite del_tuple_1, (amem_aset_neq _ _ _ _ N), M. now rewrite adel_aset_comm.
    + pose proof (set_tuple_local b q v es (aset a Y es) (aget_aset_neq _ _ _ _ Nba)) as SL.
      destruct (set_tuple (b :: q) v es) as [es1|e]; [|exact SL].
      destruct SL as [X [-> S0]]. exists (aset b X (aset a Y es)). split; [|exact S0].
      pose proof (del_tuple_local a p es (aset b X es) (aget_aset_neq _ _ _ _ N)) as DL. rewrite Dl in DL.
      destruct DL as [[-> [E _]]|[Y' [E [D2 _]]]].
      * (* p = [] : es0 = adel a es = aset a Y es is impossible to use; recompute *)
        rewrite del_tuple_1 in Dl. rewrite M in Dl. injection Dl as Dl.
        rewrite del_tuple_1, (amem_aset_neq _ _ _ _ N), M. rewrite adel_aset_comm by assumption. now rewrite Dl.
      * rewrite D2. f_equal.
        assert (EY : aset a Y' es = aset a Y es) by congruence.
        assert (Y' = Y).
        { assert (H : aget a (aset a Y' es) = aget a (aset a Y es)) by now rewrite EY. rewrite !aget_aset_eq in H. congruence. }
        subst Y'. now apply aset_aset_comm.
  - (* same head: both operations go into the nested node k *)
    assert (Np : p <> []) by (inversion D; discriminate).
    assert (Nq : q <> []) by (inversion D; discriminate).
    destruct p as [|a2 p2]; [congruence|]. destruct q as [|b2 q2]; [congruence|].
    rewrite del_tuple_2 in Dl. rewrite set_tuple_2.
    destruct (aget k es) as [[[|] z|sub]|] eqn:G; try discriminate.
    destruct (del_tuple (a2 :: p2) sub) as [sub0|e] eqn:D0; [|discriminate]. injection Dl as <-.
    specialize (IH v sub sub0 D0).
    rewrite set_tuple_2, aget_aset_eq.
    destruct (set_tuple (b2 :: q2) v sub) as [sub1|e].
    + destruct IH as [sub2 [D1 S0]]. rewrite S0. exists (aset k (Node sub2) es). split; [|now rewrite aset_aset_same].
      rewrite del_tuple_2, aget_aset_eq, D1. now rewrite aset_aset_same.
    + now rewrite IH.
Qed.

(* ---- the new key is a strict prefix of the old one: storing under it overwrites the old entry anyway ---- *)
Lemma set_over_deleted : forall q r v es es0, q <> [] -> r <> [] ->
  del_tuple (q ++ r) es = Ok es0 ->
  set_tuple q v es0 = set_tuple q v es /\ exists es1, set_tuple q v es = Ok es1.
Proof.
  induction q as [|k q IH]; intros r v es es0 Nq Nr Dl; [congruence|].
  destruct q as [|k2 q2].
  - destruct r as [|r1 r2]; [congruence|]. cbn [app] in Dl. rewrite del_tuple_2 in Dl.
    destruct (aget k es) as [[[|] z|sub]|]; try discriminate.
    destruct (del_tuple (r1 :: r2) sub); [|discriminate]. injection Dl as <-.
    rewrite !set_tuple_1. split; [now rewrite aset_aset_same|eauto].
  - change ((k :: k2 :: q2) ++ r) with (k :: (k2 :: q2) ++ r) in Dl.
    change ((k2 :: q2) ++ r) with (k2 :: (q2 ++ r)) in Dl. rewrite del_tuple_2 in Dl.
    destruct (aget k es) as [[[|] z|sub]|] eqn:G; try discriminate.
    change (k2 :: (q2 ++ r)) with ((k2 :: q2) ++ r) in Dl.
    destruct (del_tuple ((k2 :: q2) ++ r) sub) as [sub0|e] eqn:D0; [|discriminate]. injection Dl as <-.
    destruct (IH r v sub sub0 ltac:(discriminate) Nr D0) as [E [sub1 S1]].
    rewrite !set_tuple_2, aget_aset_eq, G, E, S1. split; [now rewrite aset_aset_same|eauto].
Qed.

(* ---- the store-first branch of rename_r, as a function of the two paths ---- *)
Definition rename_store_first (p q : list string) (safe : bool) (es : ents) : ents * option err :=
  if list_string_eqb p q then
    match view_contains_path true p es with
    | Ok true => (es, None) | Ok false => (es, Some EKey) | Raise e => (es, Some e)
    end
  else
    match (if safe then view_contains_path true q es else Ok false) with
    | Raise e => (es, Some e)
    | Ok true => (es, Some EKey)
    | Ok false =>
        match get_tuple p es false with
        | GRaise e => (es, Some e)
        | GDef => (es, Some EOther)
        | GVal v =>
            match set_tuple q v es with
            | Raise e => (es, Some e)
            | Ok es1 =>
                if list_string_eqb (firstn (List.length q) p) q then (es1, None)
                else match del_tuple p es1 with Ok es2 => (es2, None) | Raise e => (es1, Some e) end
            end
        end
    end.

(* ---- rename_r on canonical keys ---- *)
Definition rename_p (p q : list string) (safe : bool) (es : ents) : ents * option err :=
  if list_string_eqb p q then
    match view_contains_path true p es with
    | Ok true => (es, None) | Ok false => (es, Some EKey) | Raise e => (es, Some e)
    end
  else
    match (if safe then view_contains_path true q es else Ok false) with
    | Raise e => (es, Some e)
    | Ok true => (es, Some EKey)
    | Ok false =>
        match get_tuple p es false with
        | GRaise e => (es, Some e)
        | GDef => (es, Some EOther)
        | GVal v =>
            let under := list_string_eqb (firstn (List.length p) q) p in
            match (if under then del_tuple p es else Ok es) with
            | Raise e => (es, Some e)
            | Ok es0 =>
                match set_tuple q v es0 with
                | Raise e => (es0, Some e)
                | Ok es1 =>
                    if under || list_string_eqb (firstn (List.length q) p) q then (es1, None)
                    else match del_tuple p es1 with Ok es2 => (es2, None) | Raise e => (es1, Some e) end
                end
            end
        end
    end.

Lemma list_string_eqb_true l m : list_string_eqb l m = true <-> l = m.
Proof. unfold list_string_eqb. destruct (list_eq_dec string_dec l m); split; congruence. Qed.

Lemma keyres_eqb_path p q : p <> [] -> q <> [] -> keyres_eqb (path_keyres p) (path_keyres q) = list_string_eqb p q.
Proof.
  intros Np Nq. destruct p as [|a [|a2 p]]; destruct q as [|b [|b2 q]]; try congruence; cbn.
  - unfold list_string_eqb. destruct (String.eqb_spec a b); destruct (list_eq_dec string_dec [a] [b]); congruence.
  - unfold list_string_eqb. destruct (list_eq_dec string_dec [a] (b :: b2 :: q)); congruence.
  - unfold list_string_eqb. destruct (list_eq_dec string_dec (a :: a2 :: p) [b]); congruence.
  - reflexivity.
Qed.

Lemma keyres_in_keys_path p es : p <> [] -> keyres_in_keys (path_keyres p) es = view_contains_path true p es.
Proof. intros N. destruct p as [|a [|a2 p]]; [congruence|reflexivity|reflexivity]. Qed.

Lemma firstn_single_neq a b q : [a] <> b :: q -> list_string_eqb (firstn (List.length (b :: q)) [a]) (b :: q) = false.
Proof.
  intros N. destruct (list_string_eqb (firstn (List.length (b :: q)) [a]) (b :: q)) eqn:E; [|reflexivity].
  apply list_string_eqb_true in E. cbn in E. destruct q; cbn in E; congruence.
Qed.

Lemma rename_r_path p q safe es : p <> [] -> q <> [] ->
  rename_r (path_keyres p) (path_keyres q) safe es = rename_p p q safe es.
Proof.
  intros Np Nq. unfold rename_r, rename_p.
  rewrite (keyres_eqb_path p q Np Nq), !keyres_in_keys_path, !path_keyres_path by assumption.
  destruct (list_string_eqb p q) eqn:EQ; [reflexivity|].
  destruct (if safe then view_contains_path true q es else Ok false) as [[|]|e]; try reflexivity.
  destruct p as [|a p']; [congruence|]. destruct q as [|b q']; [congruence|].
  destruct (get_tuple (a :: p') es false) as [v| |e]; try reflexivity.
  cbv zeta.
  destruct (if list_string_eqb (firstn (List.length (a :: p')) (b :: q')) (a :: p') then del_tuple (a :: p') es else Ok es) as [es0|e0];
    [|reflexivity].
  assert (S : match path_keyres (b :: q') with RStr s => Ok (aset s v es0) | _ => set_tuple (b :: q') v es0 end
              = set_tuple (b :: q') v es0) by (destruct q'; reflexivity).
  rewrite S. destruct (set_tuple (b :: q') v es0) as [es1|e]; [|reflexivity].
  assert (K : match path_keyres (a :: p') with RTup lo => list_string_eqb (firstn (List.length (b :: q')) lo) (b :: q') | _ => false end
              = list_string_eqb (firstn (List.length (b :: q')) (a :: p')) (b :: q')).
  { destruct p' as [|a2 p2]; [|reflexivity]. cbn [path_keyres]. symmetry. apply firstn_single_neq.
    intros E. rewrite E in EQ. assert (T : list_string_eqb (b :: q') (b :: q') = true) by now apply list_string_eqb_true.
    congruence. }
  rewrite K. reflexivity.
Qed.

(* q is a prefix of p *)
Lemma firstn_prefix p q : list_string_eqb (firstn (List.length q) p) q = true <-> exists r, p = q ++ r.
Proof.
  rewrite list_string_eqb_true. split.
  - intros E. exists (skipn (List.length q) p). rewrite <- E at 1. symmetry. apply firstn_skipn.
  - intros [r ->]. rewrite firstn_app, Nat.sub_diag, firstn_all. cbn. now rewrite app_nil_r.
Qed.

Lemma find_prefix_found : forall q r d w, q <> [] -> r <> [] -> nd_find (q ++ r) d = Found w -> foundb (nd_find q d) = true.
Proof.
  induction q as [|k q IH]; intros r d w Nq Nr FP; [congruence|].
  destruct q as [|k2 q2].
  - destruct r as [|r1 r2]; [congruence|]. cbn [app] in FP. rewrite nd_find_2 in FP. rewrite nd_find_1.
    destruct (d_get k d) as [[z|z|sub]|]; try discriminate; reflexivity.
  - change ((k :: k2 :: q2) ++ r) with (k :: k2 :: (q2 ++ r)) in FP. rewrite nd_find_2 in FP. rewrite nd_find_2.
    destruct (d_get k d) as [[z|z|sub]|]; try discriminate.
    apply (IH r sub w ltac:(discriminate) Nr). exact FP.
Qed.

Lemma rename_store_first_refines p q safe es : p <> [] -> q <> [] -> ~ strict_prefix p q ->
  match rename_store_first p q safe es with
  | (es', None) => nd_rename p q safe (absE es) = Some (absE es')
  | (es', Some _) => nd_rename p q safe (absE es) = None /\ es' = es
  end.
Proof.
  intros Np Nq NP. unfold rename_store_first, nd_rename.
  pose proof (view_contains_refines p es Np) as CP.
  pose proof (get_tuple_refines p es false Np) as GP.
  destruct (list_string_eqb p q) eqn:EQ.
  - apply list_string_eqb_true in EQ. subst q.
    destruct (view_contains_path true p es) as [b|e].
    + subst b. destruct (nd_find p (absE es)); cbn [foundb]; [|now split|now split].
      destruct (list_eq_dec string_dec p p); [reflexivity|congruence].
    + rewrite CP. now split.
  - assert (NE : p <> q) by (intros E; apply list_string_eqb_true in E; congruence).
    pose proof (view_contains_refines q es Nq) as CQ.
    (* facts about the old key *)
    destruct (nd_find p (absE es)) as [w| |] eqn:FP.
    2:{ (* missing *)
        assert (G : get_tuple p es false = GRaise EKey).
        { destruct (get_tuple p es false) as [v| |e]; [congruence|destruct GP; congruence|].
          destruct GP as [[_ [_ ->]]|[GP _]]; [reflexivity|congruence]. }
        rewrite G. destruct safe; [|now split].
        destruct (view_contains_path true q es) as [[|]|e]; now split. }
    2:{ assert (G : exists e, get_tuple p es false = GRaise e).
        { destruct (get_tuple p es false) as [v| |e]; [congruence|destruct GP; congruence|eauto]. }
        destruct G as [e G]. rewrite G. destruct safe; [|now split].
        destruct (view_contains_path true q es) as [[|]|e']; now split. }
    destruct (list_eq_dec string_dec p q) as [E|_]; [congruence|].
    assert (G : exists v, get_tuple p es false = GVal v /\ abs v = w).
    { destruct (get_tuple p es false) as [v| |e]; [exists v; split; congruence|destruct GP; congruence|].
      destruct GP as [[GP _]|[GP _]]; congruence. }
    destruct G as [v [G AV]]. rewrite G. subst w.
    (* the old key can be deleted *)
    pose proof (nd_del_find p (absE es) Np) as DF. rewrite FP in DF. destruct DF as [d1 DF]. rewrite DF.
    pose proof (del_tuple_refines p es) as DR.
    destruct (del_tuple p es) as [es0|e0] eqn:DP; [|congruence].
    assert (D1 : d1 = absE es0) by congruence. subst d1.
    pose proof (set_tuple_refines q v es) as SQ.
    pose proof (set_tuple_refines q v es0) as SQ0.
    (* relative position of the two keys *)
    destruct (path_cases p q Np Nq) as [E|[SP|[[r [Nr E]]|DV]]]; [congruence|contradiction| |].
    + (* the new key is a strict prefix of the old one: kept *)
      destruct (set_over_deleted q r v es es0 Nq Nr ltac:(now rewrite <- E)) as [E0 [es1 S1]].
      assert (K : list_string_eqb (firstn (List.length q) p) q = true) by (apply firstn_prefix; eauto).
      rewrite K, S1. rewrite E0, S1 in SQ0.
      (* q is present (it is an ancestor of p): a safe rename refuses *)
      assert (FQ : foundb (nd_find q (absE es)) = true) by (subst p; exact (find_prefix_found q r _ _ Nq Nr FP)).
      destruct safe; cbn [andb].
      * destruct (view_contains_path true q es) as [b|e].
        -- subst b. destruct (nd_find q (absE es)); cbn [foundb] in *; try discriminate. now split.
        -- rewrite CQ in FQ. discriminate.
      * exact SQ0.
    + (* divergent keys: the two updates commute *)
      pose proof (set_del_diverge p q DV v es es0 DP) as CM.
      assert (K : list_string_eqb (firstn (List.length q) p) q = false).
      { destruct (list_string_eqb (firstn (List.length q) p) q) eqn:K; [|reflexivity].
        apply firstn_prefix in K. destruct K as [r K]. exfalso. exact (diverge_not_prefix q p (diverge_sym _ _ DV) r K). }
      rewrite K.
      assert (TAIL :
        match set_tuple q v es with
        | Ok es1 => match del_tuple p es1 with Ok es2 => (es2, None) | Raise e => (es1, Some e) end
        | Raise e => (es, Some e)
        end = match set_tuple q v es0 with Ok es2 => (es2, None) | Raise e => (es, Some e) end).
      { destruct (set_tuple q v es) as [es1|e]; [destruct CM as [es2 [D2 S2]]; now rewrite D2, S2|now rewrite CM]. }
      destruct safe; cbn [andb].
      * destruct (view_contains_path true q es) as [b|e].
        -- subst b. destruct (nd_find q (absE es)) eqn:FQ; cbn [foundb]; [now split| |].
           ++ destruct (set_tuple q v es) as [es1|e]; [destruct CM as [es2 [D2 S2]]; rewrite D2; now rewrite S2 in SQ0|].
              rewrite CM in SQ0. now split.
           ++ destruct (set_tuple q v es) as [es1|e]; [destruct CM as [es2 [D2 S2]]; rewrite D2; now rewrite S2 in SQ0|].
              rewrite CM in SQ0. now split.
        -- rewrite CQ. cbn [foundb]. rewrite (nd_set_through_leaf q (abs v) _ CQ) in SQ.
           destruct (set_tuple q v es) as [es1|e']; [discriminate|]. rewrite CM in SQ0. now split.
      * destruct (set_tuple q v es) as [es1|e]; [destruct CM as [es2 [D2 S2]]; rewrite D2; now rewrite S2 in SQ0|].
        rewrite CM in SQ0. now split.
Qed.

(* ---- the new key lies under the old one: detach first ---- *)
Lemma set_after_del_under : forall p r v es es0, wfE es -> r <> [] ->
  del_tuple p es = Ok es0 -> exists es1, set_tuple (p ++ r) v es0 = Ok es1.
Proof.
  induction p as [|k p IH]; intros r v es es0 W Nr D; [discriminate|].
  destruct p as [|k2 p2].
  - rewrite del_tuple_1 in D. destruct (amem k es); [|discriminate]. injection D as <-.
    destruct r as [|r1 r2]; [congruence|]. cbn [app]. rewrite set_tuple_2.
    apply wfE_inv in W. destruct W as [ND _]. rewrite (aget_adel_eq k es ND).
    destruct (set_tuple_nil_ok (r1 :: r2) v ltac:(discriminate)) as [s E]. rewrite E. eauto.
  - rewrite del_tuple_2 in D. destruct (aget k es) as [[[|] z|sub]|] eqn:G; try discriminate.
    destruct (del_tuple (k2 :: p2) sub) as [sub0|e] eqn:D0; [|discriminate]. injection D as <-.
    change ((k :: k2 :: p2) ++ r) with (k :: k2 :: (p2 ++ r)). rewrite set_tuple_2, aget_aset_eq.
    change (k2 :: p2 ++ r) with ((k2 :: p2) ++ r).
    destruct (IH r v sub sub0 (wfE_sub _ _ _ W G) Nr D0) as [s1 E]. rewrite E. eauto.
Qed.

Theorem rename_p_refines p q safe es : p <> [] -> q <> [] -> wfE es -> (strict_prefix p q -> safe = false) ->
  match rename_p p q safe es with
  | (es', None) => nd_rename p q safe (absE es) = Some (absE es')
  | (es', Some _) => nd_rename p q safe (absE es) = None /\ es' = es
  end.
Proof.
  intros Np Nq W SF.
  destruct (list_string_eqb (firstn (List.length p) q) p) eqn:U.
  - (* q = p ++ r *)
    apply firstn_prefix in U. destruct U as [r U].
    destruct r as [|r1 r2].
    + (* the same key *)
      rewrite app_nil_r in U. subst q. pose proof (rename_store_first_refines p p safe es Np Np) as R.
      assert (NP : ~ strict_prefix p p).
      { intros [t [Nt E]]. apply (f_equal (@List.length string)) in E. rewrite app_length in E. destruct t; [congruence|cbn in E; lia]. }
      specialize (R NP). unfold rename_store_first in R. unfold rename_p.
      assert (T : list_string_eqb p p = true) by now apply list_string_eqb_true. rewrite T in *. exact R.
    + (* strictly under the old key *)
      assert (SP : strict_prefix p q) by (exists (r1 :: r2); split; [discriminate|exact U]).
      rewrite (SF SP). unfold rename_p, nd_rename.
      assert (NE : list_string_eqb p q = false).
      { destruct (list_string_eqb p q) eqn:E; [|reflexivity]. apply list_string_eqb_true in E. exfalso.
        rewrite <- E in U. apply (f_equal (@List.length string)) in U. rewrite app_length in U. cbn in U. lia. }
      rewrite NE.
      assert (UT : list_string_eqb (firstn (List.length p) q) p = true) by (apply firstn_prefix; eauto).
      rewrite UT. cbn [orb].
      pose proof (get_tuple_refines p es false Np) as GP.
      pose proof (nd_del_find p (absE es) Np) as DF. pose proof (del_tuple_refines p es) as DR.
      destruct (get_tuple p es false) as [v| |e].
      * rewrite GP in *. destruct DF as [d1 DF]. rewrite DF.
        destruct (list_eq_dec string_dec p q) as [E|_];
          [exfalso; assert (T : list_string_eqb p q = true) by (now apply list_string_eqb_true); congruence|].
        destruct (del_tuple p es) as [es0|e0] eqn:DP; [|congruence].
        assert (d1 = absE es0) by congruence. subst d1. cbn [andb].
        pose proof (set_tuple_refines q v es0) as SQ.
        destruct (set_after_del_under p (r1 :: r2) v es es0 W ltac:(discriminate) DP) as [es1 S1].
        rewrite <- U in S1. rewrite S1 in *. exact SQ.
      * destruct GP as [_ GP]. discriminate.
      * destruct GP as [[GP _]|[GP _]]; rewrite GP; now split.
  - (* not under the old key: the store-first branch *)
    assert (NP : ~ strict_prefix p q).
    { intros [r [Nr E]]. assert (T : list_string_eqb (firstn (List.length p) q) p = true) by (apply firstn_prefix; eauto). congruence. }
    pose proof (rename_store_first_refines p q safe es Np Nq NP) as R.
    unfold rename_store_first in R. unfold rename_p. rewrite U.
    destruct (list_string_eqb p q); [exact R|].
    destruct (if safe then view_contains_path true q es else Ok false) as [[|]|e]; exact R.
Qed.

(* ---- well-formedness ---- *)
Lemma get_tuple_wf : forall p es d v, wfE es -> get_tuple p es d = GVal v -> wf v.
Proof.
  induction p as [|k rest IH]; intros es d v W G; [discriminate|].
  destruct rest as [|k2 r2].
  - rewrite get_tuple_1 in G. destruct (aget k es) as [w|] eqn:A; [|destruct d; discriminate].
    injection G as <-. exact (wf_aget _ _ _ W A).
  - rewrite get_tuple_2 in G. destruct (aget k es) as [[[|] z|sub]|] eqn:A; try discriminate; [|destruct d; discriminate].
    exact (IH sub d v (wfE_sub _ _ _ W A) G).
Qed.


Lemma rename_p_wf p q safe es es' e : wfE es -> rename_p p q safe es = (es', e) -> wfE es'.
Proof.
  intros W. unfold rename_p. destruct (list_string_eqb p q).
  - destruct (view_contains_path true p es) as [[|]|e0]; intros E; injection E as <- _; exact W.
  - destruct (if safe then view_contains_path true q es else Ok false) as [[|]|e0]; try (intros E; injection E as <- _; exact W).
    destruct (get_tuple p es false) as [v| |e0] eqn:G; try (intros E; injection E as <- _; exact W).
    cbv zeta.
    assert (W0 : forall es0, (if list_string_eqb (firstn (List.length p) q) p then del_tuple p es else Ok es) = Ok es0 -> wfE es0).
    { intros es0. destruct (list_string_eqb (firstn (List.length p) q) p); [intros D; exact (del_tuple_wf _ _ _ W D)|intros D; injection D as <-; exact W]. }
    destruct (if list_string_eqb (firstn (List.length p) q) p then del_tuple p es else Ok es) as [es0|e0];
      [|intros E; injection E as <- _; exact W].
    specialize (W0 es0 eq_refl).
    destruct (set_tuple q v es0) as [es1|e0] eqn:S; [|intros E; injection E as <- _; exact W0].
    assert (W1 : wfE es1) by exact (set_tuple_wf _ _ _ _ W0 (get_tuple_wf _ _ _ _ W G) S).
    destruct (list_string_eqb (firstn (List.length p) q) p || list_string_eqb (firstn (List.length q) p) q);
      [intros E; injection E as <- _; exact W1|].
    destruct (del_tuple p es1) as [es2|e0] eqn:D; intros E; injection E as <- _; [exact (del_tuple_wf _ _ _ W1 D)|exact W1].
Qed.

