(* C06 — reads: a hit returns what a fresh call returns; reads keep the invariant. *)
From Coq Require Import ZArith List String Bool Arith Lia.
Import ListNotations.
From TD Require Import Model.C06_Cache Proofs.C06_PathP Proofs.C06_ViewP Proofs.C06_KeyP Proofs.C06_CacheP.
Open Scope string_scope.
Open Scope list_scope.

Definition call_ok (U : list obj) (a : list arg) (k : list (string * arg)) : Prop :=
  incl (call_objs a k) U /\ sort_kw k = k.

(* ---------------------------------------------------------------- a hit *)
Lemma cache_lookup_some : forall c m k e, cache_lookup c m k = Some e -> In e c /\ e_meth e = m /\ e_key e = k.
Proof.
  intros c m k e H. unfold cache_lookup in H. apply find_some in H. destruct H as [Hin H].
  apply andb_prop in H. destruct H as [H1 H2]. apply meth_eqb_eq in H1. apply ckey_eqb_eq in H2. auto.
Qed.

Lemma hit_sound : forall U s n m a k e,
  objs_consistent U -> Good U s -> In n (nodes s) -> cache_lookup (n_cache n) m (make_cache_key a k) = Some e ->
  call_ok U a k -> e_val e = fresh s n m a k.
Proof.
  intros U s n m a k e HU G Hn L [I S]. apply cache_lookup_some in L. destruct L as [He [Em Ek]].
  destruct (g_inv U s G n e Hn He) as [K1 [K2 [K3 K4]]].
  rewrite K1 in Ek. destruct (key_determines_call U _ _ _ _ HU K3 I K4 S Ek) as [Ea Ekw].
  rewrite K2, Em, Ea, Ekw. reflexivity.
Qed.

(* ---------------------------------------------------------------- storing an entry *)
Definition add_f (p : path) (e : centry) (x : node) : node := if path_eqb (n_path x) p then with_cache x (e :: n_cache x) else x.

Lemma add_entry_eq : forall s p e, add_entry s p e = upd_nodes s (add_f p e).
Proof. reflexivity. Qed.

Lemma add_f_keeps : forall p e n, n_path (add_f p e n) = n_path n /\ info (add_f p e n) = info n.
Proof. intros. unfold add_f. destruct (path_eqb (n_path n) p); split; reflexivity. Qed.

Lemma add_f_flag : forall p e n, flag_locked (add_f p e n) = flag_locked n /\ n_parents (add_f p e n) = n_parents n /\ n_flag (add_f p e n) = n_flag n /\ n_kind (add_f p e n) = n_kind n.
Proof. intros. unfold add_f. destruct (path_eqb (n_path n) p); repeat split; reflexivity. Qed.

Lemma add_entry_good : forall U s p n e,
  Good U s -> find_node s p = Some n -> flag_locked n = true -> entry_ok U s n e -> Good U (add_entry s p e).
Proof.
  intros U s p n e G F L OK. rewrite add_entry_eq. assert (K := add_f_keeps p e). destruct (find_node_in s p n F) as [Hn Pn].
  constructor.
  - apply nodup_upd; [intros; apply K|apply (g_nodup U s G)].
  - intros n' Hn'. apply in_upd in Hn'. destruct Hn' as [x [Hx ->]]. destruct (add_f_flag p e x) as [_ [_ [A B]]]. rewrite A, B. now apply (g_td U s G).
  - intros n' x' Hn' Hx' L' P. apply in_upd in Hn', Hx'. destruct Hn' as [a [Ha ->]], Hx' as [x [Hx ->]].
    destruct (add_f_flag p e a) as [A _], (add_f_flag p e x) as [B _]. rewrite A in L'. rewrite B.
    rewrite (proj1 (K a)), (proj1 (K x)) in P. eapply (g_lc U s G a x); eauto.
  - intros n' x' Hn' Hx' L' P. apply in_upd in Hn', Hx'. destruct Hn' as [a [Ha ->]], Hx' as [x [Hx ->]].
    destruct (add_f_flag p e a) as [A _], (add_f_flag p e x) as [_ [B _]]. rewrite A in L'. rewrite B.
    rewrite (proj1 (K a)), (proj1 (K x)) in P. rewrite (proj1 (K a)). eapply (g_pc U s G a x); eauto.
  - intros n' Hn' L'. apply in_upd in Hn'. destruct Hn' as [x [Hx ->]]. destruct (add_f_flag p e x) as [A _]. rewrite A in L'.
    unfold add_f. destruct (path_eqb (n_path x) p) eqn:E.
    + apply path_eqb_eq in E. assert (x = n) by (apply (nodup_path_inj (nodes s)); auto; [apply (g_nodup U s G)|congruence]). subst x. congruence.
    + now apply (g_ue U s G).
  - intros n' e' Hn' He'. apply in_upd in Hn'. destruct Hn' as [x [Hx ->]].
    assert (V : view_of (upd_nodes s (add_f p e)) (n_path x) = view_of s (n_path x)) by (apply view_upd; apply K).
    unfold add_f in He' |- *. destruct (path_eqb (n_path x) p) eqn:E.
    + apply path_eqb_eq in E. assert (x = n) by (apply (nodup_path_inj (nodes s)); auto; [apply (g_nodup U s G)|congruence]). subst x.
      cbn in He'. destruct He' as [<-|He'].
      * eapply entry_ok_view; [reflexivity|exact V|exact OK].
      * eapply entry_ok_view; [reflexivity|exact V|apply (g_inv U s G n e' Hn He')].
    + eapply entry_ok_view; [reflexivity|exact V|apply (g_inv U s G x e' Hx He')].
Qed.

(* what the caller relies on across a call: nothing but caches changes *)
Definition same_content (s s' : state) : Prop :=
  (forall q, view_of s' q = view_of s q)
  /\ (forall q, option_map n_path (find_node s' q) = option_map n_path (find_node s q))
  /\ (forall q n n', find_node s q = Some n -> find_node s' q = Some n' -> n_flag n' = n_flag n /\ n_kind n' = n_kind n)
  /\ leaves s' = leaves s /\ store s' = store s.

Lemma same_content_refl : forall s, same_content s s.
Proof. intros s. split; [|split; [|split; [|split; reflexivity]]]; auto. intros q n n' H H0. rewrite H in H0. inversion H0. auto. Qed.

Lemma same_content_trans : forall a b c, same_content a b -> same_content b c -> same_content a c.
Proof.
  intros a b c [A1 [A2 [A3 [A4 A5]]]] [B1 [B2 [B3 [B4 B5]]]].
  split; [|split; [|split; [|split; congruence]]].
  - intros q. now rewrite B1, A1.
  - intros q. now rewrite B2, A2.
  - intros q n n' H H0. specialize (A2 q). rewrite H in A2. destruct (find_node b q) as [nb|] eqn:Fb; [|discriminate].
    destruct (A3 q n nb H Fb) as [X X']. destruct (B3 q nb n' Fb H0) as [Y Y']. split; congruence.
Qed.

Lemma same_content_add : forall s p e, same_content s (add_entry s p e).
Proof.
  intros s p e. rewrite add_entry_eq. split; [|split; [|split; [|split; reflexivity]]].
  - intros q. apply view_upd. apply add_f_keeps.
  - intros q. rewrite find_node_upd; [|intros; apply add_f_keeps]. destruct (find_node s q) as [n|]; cbn; [|reflexivity]. f_equal. apply add_f_keeps.
  - intros q n n' H H0. rewrite find_node_upd in H0; [|intros; apply add_f_keeps]. rewrite H in H0. cbn in H0. inversion H0. split; apply add_f_flag.
Qed.

Lemma fresh_same : forall s s' n n' m a k, same_content s s' -> n_path n' = n_path n -> fresh s' n' m a k = fresh s n m a k.
Proof. intros s s' n n' m a k [V _] P. unfold fresh. now rewrite P, V. Qed.

(* ---------------------------------------------------------------- the decorator *)
Lemma decorate_spec : forall U s p n m a k,
  objs_consistent U -> Good U s -> find_node s p = Some n -> call_ok U a k ->
  exists acc, snd (decorate s p m a k (fresh s n m a k)) = Some (acc, fresh s n m a k)
              /\ Good U (fst (decorate s p m a k (fresh s n m a k)))
              /\ same_content s (fst (decorate s p m a k (fresh s n m a k))).
Proof.
  intros U s p n m a k HU G F OK. unfold decorate. rewrite F. destruct (find_node_in s p n F) as [Hn Pn].
  destruct (g_td U s G n Hn) as [_ Fl]. rewrite (cache_active_td s n Fl).
  destruct (flag_locked n) eqn:L; cbn.
  - destruct (cache_lookup (n_cache n) m (make_cache_key a k)) as [e|] eqn:CL; cbn.
    + exists Hit. rewrite (hit_sound U s n m a k e HU G Hn CL OK). split; [reflexivity|split; [exact G|apply same_content_refl]].
    + destruct (is_tensor_result (fresh s n m a k) || is_raise (fresh s n m a k)); cbn.
      * exists Miss. split; [reflexivity|split; [exact G|apply same_content_refl]].
      * exists Miss. split; [reflexivity|]. split; [|apply same_content_add].
        eapply add_entry_good; eauto. destruct OK as [I S]. repeat split; auto.
  - exists Bypass. split; [reflexivity|split; [exact G|apply same_content_refl]].
Qed.

Lemma decorate_hit_any : forall U s p n m a k v e,
  objs_consistent U -> Good U s -> find_node s p = Some n -> call_ok U a k ->
  cache_active s n = true -> cache_lookup (n_cache n) m (make_cache_key a k) = Some e ->
  decorate s p m a k v = (s, Some (Hit, fresh s n m a k)).
Proof.
  intros U s p n m a k v e HU G F OK L CL. unfold decorate. rewrite F, L. cbn. rewrite CL.
  destruct (find_node_in s p n F) as [Hn _]. now rewrite (hit_sound U s n m a k e HU G Hn CL OK).
Qed.

Lemma call0_spec : forall U s p n m a k,
  objs_consistent U -> Good U s -> find_node s p = Some n -> call_ok U a k ->
  snd (call0 s p m a k) = fresh s n m a k /\ Good U (fst (call0 s p m a k)) /\ same_content s (fst (call0 s p m a k)).
Proof.
  intros U s p n m a k HU G F OK. unfold call0. rewrite F.
  destruct (decorate_spec U s p n m a k HU G F OK) as [acc [D1 [D2 D3]]].
  destruct (decorate s p m a k (fresh s n m a k)) as [s' [[acc' v]|]] eqn:E; cbn in *; [|discriminate].
  inversion D1; subst. auto.
Qed.

Definition sub_fresh (s : state) (n : node) (c : meth * list arg * list (string * arg)) : cval :=
  fresh s n (fst (fst c)) (snd (fst c)) (snd c).

Lemma run_subcalls_spec : forall U p cs s n acc0,
  objs_consistent U -> Good U s -> find_node s p = Some n ->
  (forall c, In c cs -> call_ok U (snd (fst c)) (snd c)) ->
  let r := fold_left (fun acc c => let r := call0 (fst acc) p (fst (fst c)) (snd (fst c)) (snd c) in (fst r, snd acc ++ [snd r])) cs (s, acc0) in
  Good U (fst r) /\ same_content s (fst r) /\ snd r = acc0 ++ map (sub_fresh s n) cs.
Proof.
  intros U p cs. induction cs as [|c cs IH]; intros s n acc0 HU G F OK; cbn.
  - split; [exact G|split; [apply same_content_refl|now rewrite app_nil_r]].
  - destruct (call0_spec U s p n (fst (fst c)) (snd (fst c)) (snd c) HU G F (OK c (or_introl eq_refl))) as [V [G1 SC]].
    set (s1 := fst (call0 s p (fst (fst c)) (snd (fst c)) (snd c))) in *.
    pose proof SC as [SC1 [SC2 SC3]].
    assert (F1 : exists n1, find_node s1 p = Some n1 /\ n_path n1 = n_path n).
    { specialize (SC2 p). rewrite F in SC2. destruct (find_node s1 p) as [n1|]; [|discriminate]. exists n1. cbn in SC2. split; [reflexivity|congruence]. }
    destruct F1 as [n1 [F1 P1]].
    destruct (IH s1 n1 (acc0 ++ [snd (call0 s p (fst (fst c)) (snd (fst c)) (snd c))]) HU G1 F1 (fun c' H => OK c' (or_intror H))) as [G2 [SC' E]].
    cbv zeta in G2, SC', E |- *.
    split; [exact G2|]. split; [eapply same_content_trans; [exact SC|exact SC']|].
    rewrite E, V. rewrite <- app_assoc. cbn. f_equal. f_equal.
    apply map_ext. intros c'. unfold sub_fresh. apply fresh_same; [exact SC|assumption].
Qed.

Lemma run_subcalls_ok : forall U p cs s n,
  objs_consistent U -> Good U s -> find_node s p = Some n ->
  (forall c, In c cs -> call_ok U (snd (fst c)) (snd c)) ->
  Good U (fst (run_subcalls s p cs)) /\ same_content s (fst (run_subcalls s p cs)) /\ snd (run_subcalls s p cs) = map (sub_fresh s n) cs.
Proof.
  intros U p cs s n HU G F OK. unfold run_subcalls. exact (run_subcalls_spec U p cs s n [] HU G F OK).
Qed.

(* ---------------------------------------------------------------- the body computed from its callees' results *)
Definition env_of (m : meth) (a : list arg) (k : list (string * arg)) : list (string * arg) :=
  match bind (fst (signature m)) (snd (signature m)) a k with Some e => e | None => [] end.

Lemma body_fresh : forall s n m a k,
  body s n m a k (map (sub_fresh s n) (subcalls m (env_of m a k))) = fresh s n m a k.
Proof.
  intros s n m a k. unfold env_of.
  destruct (bind (fst (signature m)) (snd (signature m)) a k) as [env|] eqn:B.
  2: { unfold body, fresh, freshv. rewrite B. reflexivity. }
  unfold body. rewrite B.
  destruct m; try reflexivity.
  - (* _values_list *)
    cbn [subcalls]. destruct (is_none (par env "sorting_keys")) eqn:E; cbn [map]; [reflexivity|].
    unfold sub_fresh, fresh, freshv. rewrite B. cbn. rewrite E. reflexivity.
  - (* bytes *) cbn [subcalls map]. unfold sub_fresh, fresh, freshv. rewrite B. cbn. reflexivity.
  - (* param_count *) cbn [subcalls map]. unfold sub_fresh, fresh, freshv. rewrite B. cbn. reflexivity.
Qed.

Lemma subcalls_sorted : forall m env c, In c (subcalls m env) -> sort_kw (snd c) = snd c.
Proof.
  intros m env c H. destruct m; cbn in H; try contradiction.
  - destruct (is_none (par env "sorting_keys")); [contradiction|]. destruct H as [<-|[]]. reflexivity.
  - destruct H as [<-|[]]. reflexivity.
  - destruct H as [<-|[]]. reflexivity.
  - destruct H as [<-|[]]. reflexivity.
Qed.

Definition sub_objs (m : meth) (a : list arg) (k : list (string * arg)) : list obj :=
  flat_map (fun c => call_objs (snd (fst c)) (snd c)) (subcalls m (env_of m a k)).

(* a well-formed public call: its objects and those of the internal calls it triggers lie in U; keyword arguments sorted *)
Definition read_ok (U : list obj) (m : meth) (a : list arg) (k : list (string * arg)) : Prop :=
  call_ok U a k /\ incl (sub_objs m a k) U.

Lemma read_spec : forall U hk s p m a k,
  objs_consistent U -> Good U s -> read_ok U m a k ->
  Good U (fst (read hk s p m a k)) /\ same_content s (fst (read hk s p m a k))
  /\ (forall acc v b, snd (read hk s p m a k) = Some (acc, v, b) ->
        exists n, find_node s p = Some n /\ v = fresh s n m a k /\ (forall bv, b = Some bv -> bv = fresh s n m a k)).
Proof.
  intros U hk s p m a k HU G [OK SO]. unfold read.
  destruct (find_node s p) as [n|] eqn:F; [|split; [exact G|split; [apply same_content_refl|intros; discriminate]]].
  fold (env_of m a k).
  set (hit := cache_active s n && match cache_lookup (n_cache n) m (make_cache_key a k) with Some _ => true | None => false end).
  destruct (hit && negb hk) eqn:HH.
  - (* a production hit: the body does not run *)
    apply andb_prop in HH. destruct HH as [Hh _]. unfold hit in Hh. apply andb_prop in Hh. destruct Hh as [L CL].
    destruct (cache_lookup (n_cache n) m (make_cache_key a k)) as [e|] eqn:CLe; [|discriminate].
    rewrite (decorate_hit_any U s p n m a k VRaise e HU G F OK L CLe). cbn.
    split; [exact G|split; [apply same_content_refl|]].
    intros acc v b E. inversion E; subst. exists n. split; [reflexivity|split; [reflexivity|intros; discriminate]].
  - assert (MC : member_calls s p n m = s).
    { destruct (find_node_in s p n F) as [Hn0 _]. destruct (g_td U s G n Hn0) as [T _]. unfold member_calls. now rewrite T. }
    rewrite MC.
    assert (SOK : forall c, In c (subcalls m (env_of m a k)) -> call_ok U (snd (fst c)) (snd c)).
    { intros c Hc. split; [|now apply (subcalls_sorted m (env_of m a k))].
      intros o Ho. apply SO. unfold sub_objs. apply in_flat_map. now exists c. }
    destruct (run_subcalls_ok U p (subcalls m (env_of m a k)) s n HU G F SOK) as [G1 [SC E]].
    set (sv := run_subcalls s p (subcalls m (env_of m a k))) in *.
    assert (F1 : exists n1, find_node (fst sv) p = Some n1 /\ n_path n1 = n_path n).
    { destruct SC as [_ [SC2 _]]. specialize (SC2 p). rewrite F in SC2. destruct (find_node (fst sv) p) as [n1|]; cbn in SC2; [|discriminate].
      exists n1. split; [reflexivity|congruence]. }
    destruct F1 as [n1 [F1 P1]]. rewrite F1. rewrite E.
    assert (BV : body (fst sv) n1 m a k (map (sub_fresh s n) (subcalls m (env_of m a k))) = fresh s n m a k).
    { rewrite <- (fresh_same s (fst sv) n n1 m a k SC P1). rewrite <- (body_fresh (fst sv) n1 m a k). f_equal.
      apply map_ext. intros c. unfold sub_fresh. symmetry. now apply fresh_same. }
    rewrite BV. rewrite <- (fresh_same s (fst sv) n n1 m a k SC P1).
    destruct (decorate_spec U (fst sv) p n1 m a k HU G1 F1 OK) as [acc [D1 [D2 D3]]].
    destruct (decorate (fst sv) p m a k (fresh (fst sv) n1 m a k)) as [s' [[acc' v]|]] eqn:DE; cbn in D1, D2, D3 |- *; [|discriminate].
    inversion D1; subst. split; [exact D2|]. split; [eapply same_content_trans; eauto|].
    intros acc0 v0 b0 E0. inversion E0; subst. exists n. rewrite (fresh_same s (fst sv) n n1 m a k SC P1). repeat split; auto.
    intros bv Ebv. now inversion Ebv.
Qed.
