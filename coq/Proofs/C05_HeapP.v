(* C05 — basic facts about the heap representation and the monadic folds. *)
From Coq Require Import List String Bool Arith PeanoNat Lia.
Import ListNotations.
From TD Require Import Model.C05_Heap Model.C05_Lock Spec.C05_LockSpec.

Ltac eqb_cases :=
  repeat match goal with
         | |- context [Nat.eqb ?a ?b] => destruct (Nat.eqb_spec a b); subst; try congruence
         end.

Lemma lookup_upd : forall h n nd m,
  lookup (upd h n nd) m =
  if Nat.eqb m n then match lookup h n with Some _ => Some nd | None => None end else lookup h m.
Proof.
  induction h as [|[i x] r IH]; intros n nd m; cbn.
  - destruct (Nat.eqb m n); reflexivity.
  - destruct (Nat.eqb_spec i n) as [Ein|Ein]; cbn.
    + subst i. eqb_cases.
    + destruct (Nat.eqb_spec i m) as [Eim|Eim].
      * subst i. eqb_cases.
      * rewrite IH. eqb_cases.
Qed.

Lemma lookup_upd_same : forall h n nd x, lookup h n = Some x -> lookup (upd h n nd) n = Some nd.
Proof. intros. rewrite lookup_upd, Nat.eqb_refl, H. reflexivity. Qed.

Lemma lookup_upd_other : forall h n nd m, m <> n -> lookup (upd h n nd) m = lookup h m.
Proof. intros. rewrite lookup_upd. apply Nat.eqb_neq in H. rewrite H. reflexivity. Qed.

Lemma lookup_app_fresh : forall h n nd m,
  lookup (h ++ [(n, nd)]) m = match lookup h m with Some x => Some x | None => if Nat.eqb n m then Some nd else None end.
Proof.
  induction h as [|[i x] r IH]; intros; cbn.
  - reflexivity.
  - destruct (Nat.eqb i m); [reflexivity|apply IH].
Qed.

Lemma memb_In : forall x l, memb x l = true <-> In x l.
Proof.
  intros. unfold memb. rewrite existsb_exists. split.
  - intros [y [Hy E]]. apply Nat.eqb_eq in E. subst. exact Hy.
  - intros Hx. exists x. split; [exact Hx|apply Nat.eqb_refl].
Qed.

Lemma fold_opt_rel : forall {A B} (f : A -> B -> option A) (R : A -> A -> Prop),
  (forall a, R a a) -> (forall a b c, R a b -> R b c -> R a c) ->
  forall l a a', (forall x y z, In y l -> f x y = Some z -> R x z) -> fold_opt f l a = Some a' -> R a a'.
Proof.
  intros A B f R Hr Ht. induction l as [|y l IH]; intros a a' Hstep H; cbn in H.
  - inversion H. subst. apply Hr.
  - destruct (f a y) eqn:E; [|discriminate].
    apply Ht with a0.
    + apply (Hstep a y a0); [left; reflexivity|exact E].
    + apply IH; [|exact H]. intros x y' z Hin. apply Hstep. right. exact Hin.
Qed.

(* children relation helpers *)
Lemma child_lookup : forall h p c, child h p c -> exists nd, lookup h p = Some nd /\ In c (node_children nd).
Proof.
  unfold child, children. intros h p c H. destruct (lookup h p) eqn:E; [|contradiction]. eauto.
Qed.

Lemma child_intro : forall h p c nd, lookup h p = Some nd -> In c (node_children nd) -> child h p c.
Proof. unfold child, children. intros. rewrite H. exact H0. Qed.

Lemma flag_true_lookup : forall h n, flag_true h n = true -> exists nd, lookup h n = Some nd /\ flg nd = FTrue.
Proof.
  unfold flag_true. intros h n H. destruct (lookup h n) eqn:E; [|discriminate].
  exists n0. split; [reflexivity|]. destruct (flg n0); cbn in H; try discriminate; reflexivity.
Qed.

Lemma flag_true_intro : forall h n nd, lookup h n = Some nd -> flg nd = FTrue -> flag_true h n = true.
Proof. unfold flag_true. intros. rewrite H, H0. reflexivity. Qed.

Lemma Reach_trans : forall h a b c, Reach h a b -> Reach h b c -> Reach h a c.
Proof. induction 1; intros; [assumption|]. econstructor; eauto. Qed.

Lemma Reach_child : forall h a b, child h a b -> Reach h a b.
Proof. intros. econstructor; [eassumption|constructor]. Qed.

(* depth bounds exclude cycles *)
Lemma depth_lt_mono : forall h d n, depth_lt h d n -> depth_lt h (S d) n.
Proof.
  induction d; intros n H; cbn in *; [contradiction|].
  intros c Hc. apply IHd. apply H. exact Hc.
Qed.

Lemma depth_lt_reach : forall h a b, Reach h a b -> forall d, depth_lt h d a -> depth_lt h d b.
Proof.
  induction 1; intros d Hd; [assumption|].
  apply IHReach. destruct d; cbn in Hd; [contradiction|]. apply depth_lt_mono. apply Hd. exact H.
Qed.

Lemma depth_lt_child_reach : forall h a c b d, child h a c -> Reach h c b -> depth_lt h (S d) a -> depth_lt h d b.
Proof.
  intros. cbn in H1. eapply depth_lt_reach; [eassumption|]. apply H1. exact H.
Qed.

Lemma depth_lt_no_cycle : forall h d n c, depth_lt h d n -> child h n c -> Reach h c n -> False.
Proof.
  induction d; intros n c Hd Hc Hr; cbn in Hd; [contradiction|].
  eapply IHd; [|exact Hc|exact Hr].
  eapply depth_lt_reach; [exact Hr|]. apply Hd. exact Hc.
Qed.
