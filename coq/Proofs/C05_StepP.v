(* C05 — every public call preserves the lock-graph invariant. *)
From Coq Require Import List String Bool Arith PeanoNat Lia.
Import ListNotations.
From TD Require Import Model.C05_Heap Model.C05_Lock Spec.C05_LockSpec Proofs.C05_HeapP Proofs.C05_LockP Proofs.C05_InvP.

Definition nch (e : list (string * ref)) : list nat := flat_map (fun x => ref_children (snd x)) e.

Lemma node_children_nch : forall nd, node_children nd = nch (ents nd).
Proof. reflexivity. Qed.

Lemma nch_incl : forall e' e, incl e' e -> incl (nch e') (nch e).
Proof.
  intros e' e H c Hc. unfold nch in *. apply in_flat_map in Hc. destruct Hc as [x [Hx Hc]].
  apply in_flat_map. exists x. split; [apply H; exact Hx|exact Hc].
Qed.

Lemma ents_del_incl : forall e k, incl (ents_del e k) e.
Proof.
  induction e as [|[k' r] e IH]; intros k x Hx; cbn in *; [exact Hx|].
  destruct (String.eqb k' k); [right; exact Hx|].
  destruct Hx as [Hx|Hx]; [left; exact Hx|right; eapply IH; exact Hx].
Qed.

Lemma fold_del_incl : forall ks e, incl (fold_left ents_del ks e) e.
Proof.
  induction ks as [|k ks IH]; intros e; cbn; [apply incl_refl|].
  eapply incl_tran; [apply IH|apply ents_del_incl].
Qed.

Lemma removelast_incl : forall {A} (l : list A), incl (removelast l) l.
Proof.
  induction l as [|a l IH]; [apply incl_refl|]. cbn. destruct l as [|b l]; [intros x []|].
  intros x [Hx|Hx]; [left; exact Hx|right; apply IH; exact Hx].
Qed.

Lemma ents_get_in : forall e k r, ents_get e k = Some r -> In (k, r) e.
Proof.
  induction e as [|[k' r'] e IH]; intros k r H; cbn in H; [discriminate|].
  destruct (String.eqb_spec k' k) as [->|Hne]; [inversion H; left; reflexivity|right; apply IH; exact H].
Qed.

Lemma select_ents_incl : forall ks e e', select_ents e ks = Some e' -> incl e' e.
Proof.
  induction ks as [|k ks IH]; intros e e' H; cbn in H.
  - inversion H. intros x [].
  - destruct (ents_get e k) as [v|] eqn:G; [|discriminate]. destruct (select_ents e ks) as [t|] eqn:S; [|discriminate].
    inversion H. subst e'. intros x [<-|Hx]; [apply ents_get_in; exact G|eapply IH; eassumption].
Qed.

Lemma ents_set_nch : forall e k r, incl (nch (ents_set e k r)) (nch e ++ ref_children r).
Proof.
  induction e as [|[k' r'] e IH]; intros k r c Hc; cbn in *.
  - rewrite app_nil_r in Hc. exact Hc.
  - destruct (String.eqb k' k); cbn in Hc.
    + apply in_app_or in Hc. destruct Hc as [Hc|Hc].
      * apply in_or_app. right. exact Hc.
      * apply in_or_app. left. apply in_or_app. right. exact Hc.
    + apply in_app_or in Hc. destruct Hc as [Hc|Hc].
      * apply in_or_app. left. apply in_or_app. left. exact Hc.
      * apply IH in Hc. apply in_app_or in Hc. destruct Hc as [Hc|Hc].
        -- apply in_or_app. left. apply in_or_app. right. exact Hc.
        -- apply in_or_app. right. exact Hc.
Qed.

Lemma is_td_spec : forall s n, is_td s n = true -> exists nd, lookup (hp s) n = Some nd /\ nk nd = KTd /\ live s n = true.
Proof.
  unfold is_td. intros s n H. destruct (lookup (hp s) n) as [nd|]; [|discriminate].
  destruct (nk nd) eqn:K; [|discriminate]. eauto.
Qed.

Lemma is_lazy_spec : forall s n, is_lazy s n = true -> exists nd, lookup (hp s) n = Some nd /\ nk nd = KLazy /\ live s n = true.
Proof.
  unfold is_lazy. intros s n H. destruct (lookup (hp s) n) as [nd|]; [|discriminate].
  destruct (nk nd) eqn:K; [discriminate|]. eauto.
Qed.

Lemma exists_live_spec : forall s n, exists_live s n = true -> lookup (hp s) n <> None /\ live s n = true.
Proof.
  unfold exists_live. intros s n H. destruct (lookup (hp s) n); [split; [discriminate|exact H]|discriminate].
Qed.

(* replacing the entries of one node *)
Lemma Inv_set_ents : forall s n nd e', Inv s -> lookup (hp s) n = Some nd ->
  (forall c, In c (nch e') -> In c (nch (ents nd)) \/ (lookup (hp s) c <> None /\ (live s n = true -> live s c = true))) ->
  (flg nd = FTrue -> incl (nch e') (nch (ents nd))) ->
  (nk nd = KLazy -> incl (nch (ents nd)) (nch e')) ->
  Inv (set_node_ents s n e').
Proof.
  intros s n nd e' HI E Ch Sub Lz. unfold set_node_ents. rewrite E.
  eapply Inv_update; [exact HI|exact E|reflexivity|reflexivity|reflexivity| | |].
  - intros c Hc. cbn in Hc. destruct (Ch c Hc) as [Hold|[Hex Hl]].
    + split.
      * destruct HI as [_ _ [C1 _]]. eapply C1. eapply child_intro; [exact E|exact Hold].
      * intros L. destruct HI as [_ HI0 _]. eapply HI0; [eapply child_intro; [exact E|exact Hold]|exact L].
    + split; [exact Hex|exact Hl].
  - intros F. cbn. apply Sub. exact F.
  - exact Lz.
Qed.

Lemma td_flag_false : forall s n nd, lookup (hp s) n = Some nd -> td_flag s n = false -> flg nd <> FTrue.
Proof. unfold td_flag, flag_true. intros s n nd E F C. rewrite E, C in F. cbn in F. congruence. Qed.

(* shrinking the entries is always safe (this is why D8 does not break the GRAPH invariant: it breaks locked_frozen) *)
Lemma Inv_shrink_ents : forall s n nd e', Inv s -> lookup (hp s) n = Some nd -> nk nd = KTd ->
  incl e' (ents nd) -> Inv (set_node_ents s n e').
Proof.
  intros s n nd e' HI E K Hi. eapply Inv_set_ents; [exact HI|exact E| | |].
  - intros c Hc. left. eapply nch_incl; eassumption.
  - intros _. apply nch_incl. exact Hi.
  - congruence.
Qed.

Lemma Inv_gc : forall s ds, Inv s -> gc_ok s ds = true -> Inv (mkSt (hp s) (ds ++ dead s) (nxt s) (writes s)).
Proof.
  intros s ds [HI1 HI0 [C1 [C2 C3]]] G. unfold gc_ok in G. apply andb_prop in G. destruct G as [G1 G2].
  assert (LiveOld : forall x, live (mkSt (hp s) (ds ++ dead s) (nxt s) (writes s)) x = true -> live s x = true /\ memb x ds = false).
  { intros x Lx. unfold live in *. change (dead (mkSt (hp s) (ds ++ dead s) (nxt s) (writes s))) with (ds ++ dead s) in Lx.
    unfold memb in *. rewrite existsb_app in Lx. apply negb_true_iff in Lx. apply orb_false_iff in Lx.
    destruct Lx as [A B]. rewrite B. split; [reflexivity|exact A]. }
  split.
  - intros p F L nd c E Hc. cbn in *. destruct (LiveOld p L) as [L0 _]. apply (HI1 p F L0 nd c E Hc).
  - intros p c Hc L. cbn in *. destruct (LiveOld p L) as [L0 Nds].
    assert (Lc : live s c = true) by (eapply HI0; eassumption).
    unfold live. change (dead (mkSt (hp s) (ds ++ dead s) (nxt s) (writes s))) with (ds ++ dead s).
    destruct (memb c (ds ++ dead s)) eqn:M; [|reflexivity]. exfalso.
    apply memb_In in M. apply in_app_or in M. destruct M as [M|M].
    + destruct (child_lookup _ _ _ Hc) as [nd [E Hin]].
      rewrite forallb_forall in G2.
      assert (Hp : In (p, nd) (hp s)).
      { clear - E. induction (hp s) as [|[i x] r IH]; cbn in E; [discriminate|].
        destruct (Nat.eqb_spec i p) as [->|Hne]; [inversion E; left; reflexivity|right; apply IH; exact E]. }
      specialize (G2 _ Hp). cbn in G2. rewrite Nds in G2.
      unfold live in L0. destruct (memb p (dead s)); [discriminate|]. cbn in G2.
      rewrite forallb_forall in G2. specialize (G2 c Hin). apply memb_In in M. rewrite M in G2. discriminate.
    + unfold live in Lc. apply memb_In in M. rewrite M in Lc. discriminate.
  - split; [exact C1|split; [exact C2|]]. cbn. intros d Hd. apply in_app_or in Hd. destruct Hd as [Hd|Hd]; [|apply C3; exact Hd].
    apply C2. rewrite forallb_forall in G1. specialize (G1 d Hd). destruct (lookup (hp s) d); congruence.
Qed.

(* ---------------------------------------------------------------------------------------------- memmap_ *)
Definition mm_mono (s s' : st) : Prop :=
  forall x a, lookup (hp s) x = Some a -> exists b, lookup (hp s') x = Some b /\ nk b = nk a /\ (mm a = true -> mm b = true).

Lemma mm_mono_refl : forall s, mm_mono s s.
Proof. intros s x a E. exists a. auto. Qed.

Lemma mm_mono_trans : forall a b c, mm_mono a b -> mm_mono b c -> mm_mono a c.
Proof.
  intros a b c H1 H2 x na E. destruct (H1 x na E) as (nb & Eb & Kb & Mb). destruct (H2 x nb Eb) as (nc & Ec & Kc & Mc).
  exists nc. repeat split; [exact Ec|congruence|auto].
Qed.

Lemma mm_mono_upd : forall s n nd nd', lookup (hp s) n = Some nd -> nk nd' = nk nd -> (mm nd = true -> mm nd' = true) ->
  mm_mono s (with_hp s (upd (hp s) n nd')).
Proof.
  intros s n nd nd' E K M x a Ea. cbn. rewrite lookup_upd. destruct (Nat.eqb_spec x n) as [->|Hne].
  - rewrite E in *. inversion Ea. subst a. exists nd'. auto.
  - exists a. auto.
Qed.

Lemma pmemmap_inv : forall fuel s n s' r, Inv s -> pmemmap fuel s n = Some (s', r) -> Inv s' /\ mm_mono s s'.
Proof.
  induction fuel as [|f IH]; intros s n s' r HI H; [discriminate|].
  cbn in H. destruct (lookup (hp s) n) as [nd|] eqn:E; [|inversion H; subst; split; [exact HI|apply mm_mono_refl]].
  destruct (nk nd) eqn:K.
  - destruct (shm nd); [inversion H; subst; split; [exact HI|apply mm_mono_refl]|].
    set (ndm := mkNode KTd (ents nd) (flg nd) (pars nd) false true) in *.
    set (s1 := with_hp s (upd (hp s) n ndm)) in *.
    assert (HI1 : Inv s1).
    { eapply Inv_update; [exact HI|exact E|cbn; congruence|reflexivity|reflexivity| |intros _; apply incl_refl|congruence].
      intros c Hc. cbn in Hc. split.
      - destruct HI as [_ _ [C1 _]]. eapply C1. eapply child_intro; eassumption.
      - intros L. destruct HI as [_ HI0 _]. eapply HI0; [eapply child_intro; eassumption|exact L]. }
    assert (M1 : mm_mono s s1) by (eapply mm_mono_upd; [exact E|cbn; congruence|reflexivity]).
    match type of H with context [fold_opt ?F (ents nd) _] => set (Fm := F) in * end.
    assert (Step : forall sa ra e sm rm, Fm (sa, ra) e = Some (sm, rm) -> Inv sa ->
               (exists x, lookup (hp sa) n = Some x /\ nk x = KTd) ->
               Inv sm /\ mm_mono sa sm).
    { intros sa ra e sm rm Fe Ia Ka. unfold Fm in Fe. cbn [fst snd] in Fe. destruct ra.
      - inversion Fe. subst. split; [exact Ia|apply mm_mono_refl].
      - destruct (snd e) as [lf|c] eqn:Se.
        + destruct Ka as [x [Ex Kx]]. unfold alloc_leaf in Fe. cbn [hp] in Fe. rewrite Ex in Fe.
          set (sa1 := mkSt (hp sa) (dead sa) (S (nxt sa)) (writes sa)) in *.
          assert (Ia1 : Inv sa1) by (apply (Inv_alloc_leaf sa Ia)).
          assert (Ia2 : Inv (set_node_ents sa1 n (ents_set (ents x) (fst e) (RLeaf (nxt sa))))).
          { eapply Inv_set_ents; [exact Ia1|exact Ex| | |congruence].
            - intros c Hc. left. apply ents_set_nch in Hc. cbn in Hc. rewrite app_nil_r in Hc. exact Hc.
            - intros _ c Hc. apply ents_set_nch in Hc. cbn in Hc. rewrite app_nil_r in Hc. exact Hc. }
          unfold set_node_ents in Ia2. change (hp sa1) with (hp sa) in Ia2. rewrite Ex in Ia2.
          inversion Fe. subst sm rm. split; [exact Ia2|].
          intros y a Ey.
          destruct (mm_mono_upd sa1 n x (set_ents x (ents_set (ents x) (fst e) (RLeaf (nxt sa)))) Ex eq_refl (fun z => z) y a Ey) as (b & Eb & Kb & Mb').
          exists b. auto.
        + eapply IH; eassumption. }
    assert (Fold : forall l sa ra sb rb, fold_opt Fm l (sa, ra) = Some (sb, rb) -> Inv sa ->
               (exists x, lookup (hp sa) n = Some x /\ nk x = KTd) -> Inv sb /\ mm_mono sa sb).
    { induction l as [|e l IHl]; intros sa ra sb rb Hf Ia Ka; cbn [fold_opt] in Hf.
      - inversion Hf. subst. split; [exact Ia|apply mm_mono_refl].
      - destruct (Fm (sa, ra) e) as [[sm rm]|] eqn:Fe; [|discriminate].
        destruct (Step _ _ _ _ _ Fe Ia Ka) as [Im Mm].
        destruct Ka as [x [Ex Kx]]. destruct (Mm n x Ex) as (xm & Exm & Kxm & _).
        destruct (IHl _ _ _ _ Hf Im) as [Ib Mb]; [exists xm; split; [exact Exm|congruence]|].
        split; [exact Ib|eapply mm_mono_trans; eassumption]. }
    destruct (fold_opt Fm (ents nd) (s1, false)) as [[s2 r2]|] eqn:Hf; [|discriminate].
    destruct (Fold _ _ _ _ _ Hf HI1) as [I2 M2].
    { unfold s1. cbn. erewrite lookup_upd_same; [|exact E]. eexists. split; [reflexivity|reflexivity]. }
    destruct r2; inversion H; subst; (split; [exact I2|eapply mm_mono_trans; eassumption]).
  - match type of H with context [fold_opt ?F (node_children nd) _] => set (Fm := F) in * end.
    assert (Fold : forall l sa ra sb rb, fold_opt Fm l (sa, ra) = Some (sb, rb) -> Inv sa -> Inv sb /\ mm_mono sa sb).
    { induction l as [|c l IHl]; intros sa ra sb rb Hf Ia; cbn [fold_opt] in Hf.
      - inversion Hf. subst. split; [exact Ia|apply mm_mono_refl].
      - destruct (Fm (sa, ra) c) as [[sm rm]|] eqn:Fe; [|discriminate].
        assert (Im : Inv sm /\ mm_mono sa sm).
        { unfold Fm in Fe. cbn [fst snd] in Fe. destruct ra; [inversion Fe; subst; split; [exact Ia|apply mm_mono_refl]|].
          eapply IH; eassumption. }
        destruct Im as [Im Mm]. destruct (IHl _ _ _ _ Hf Im) as [Ib Mb].
        split; [exact Ib|eapply mm_mono_trans; eassumption]. }
    eapply Fold; eassumption.
Qed.

(* ---------------------------------------------------------------------------------------------- share_memory_ *)
Lemma pshare_inv : forall lf fuel s n s' r, Inv s -> pshare lf fuel s n = Some (s', r) -> Inv s'.
Proof.
  intros lf. induction fuel as [|f IH]; intros s n s' r HI H; [discriminate|].
  cbn in H. destruct (lookup (hp s) n) as [nd|] eqn:E; [|inversion H; subst; exact HI].
  assert (Fold : forall l sa ra sb rb,
     fold_opt (fun (acc : st * bool) c => if snd acc then Some acc else pshare lf f (fst acc) c) l (sa, ra) = Some (sb, rb) ->
     Inv sa -> Inv sb).
  { induction l as [|c l IHl]; intros sa ra sb rb Hf Ia; cbn [fold_opt] in Hf.
    - inversion Hf. subst. exact Ia.
    - cbn [fst snd] in Hf. destruct ra.
      + eapply IHl; eassumption.
      + destruct (pshare lf f sa c) as [[sm rm]|] eqn:Pc; [|discriminate].
        eapply IHl; [exact Hf|]. eapply IH; eassumption. }
  destruct (nk nd) eqn:K.
  - destruct (mm nd); [inversion H; subst; exact HI|].
    destruct (fold_opt _ (node_children nd) (s, false)) as [[s2 r2]|] eqn:Hf; [|discriminate].
    assert (I2 : Inv s2) by (eapply Fold; eassumption).
    destruct r2; [inversion H; subst; exact I2|].
    destruct (lookup (hp s2) n) as [nd2|] eqn:E2; [|inversion H; subst; exact I2].
    destruct (lock_ lf (upd (hp s2) n (set_shm nd2 true)) n) as [h4|] eqn:LK; [|discriminate].
    inversion H. subst s' r. clear H.
    assert (I3 : Inv (with_hp s2 (upd (hp s2) n (set_shm nd2 true)))).
    { eapply Inv_update; [exact I2|exact E2|reflexivity|reflexivity|reflexivity| |intros _; apply incl_refl|intros _; apply incl_refl].
      intros c Hc. cbn in Hc. split.
      - destruct I2 as [_ _ [C1 _]]. eapply C1. eapply child_intro; eassumption.
      - intros L. destruct I2 as [_ HI0 _]. eapply HI0; [eapply child_intro; eassumption|exact L]. }
    apply (lock_inv lf _ n h4 I3 LK).
  - destruct (fold_opt _ (node_children nd) (s, false)) as [[s2 r2]|] eqn:Hf; [|discriminate].
    assert (I2 : Inv s2) by (eapply Fold; eassumption).
    destruct r2; [inversion H; subst; exact I2|].
    destruct (lock_ lf (hp s2) n) as [h4|] eqn:LK; [|discriminate].
    inversion H. subst s' r. eapply lock_inv; eassumption.
Qed.

(* ---------------------------------------------------------------------------------------------- pickle round trip *)
Definition ext (s s' : st) : Prop :=
  (forall x, lookup (hp s) x <> None -> lookup (hp s') x <> None) /\ dead s' = dead s /\ nxt s <= nxt s'.
Definition memo_ok (s : st) (memo : list (nat * nat)) : Prop :=
  forall a b, In (a, b) memo -> lookup (hp s) b <> None /\ live s b = true.

Lemma ext_refl : forall s, ext s s.
Proof. intros s. split; [auto|split; [reflexivity|lia]]. Qed.

Lemma ext_trans : forall a b c, ext a b -> ext b c -> ext a c.
Proof. intros a b c (A1 & A2 & A3) (B1 & B2 & B3). split; [auto|split; [congruence|lia]]. Qed.

Lemma ext_live : forall s s' x, ext s s' -> live s' x = live s x.
Proof. intros s s' x (_ & D & _). unfold live. rewrite D. reflexivity. Qed.

Lemma memo_ok_ext : forall s s' m, ext s s' -> memo_ok s m -> memo_ok s' m.
Proof.
  intros s s' m X M a b Hab. destruct (M a b Hab) as [A B]. split; [apply X; exact A|rewrite (ext_live _ _ _ X); exact B].
Qed.

Lemma memo_get_in : forall m n c, memo_get m n = Some c -> In (n, c) m.
Proof.
  induction m as [|[a b] m IH]; intros n c H; cbn in H; [discriminate|].
  destruct (Nat.eqb_spec a n) as [->|Hne]; [inversion H; left; reflexivity|right; apply IH; exact H].
Qed.

Lemma nch_app : forall a b, nch (a ++ b) = nch a ++ nch b.
Proof. intros. unfold nch. apply flat_map_app. Qed.

Lemma ext_alloc_leaf : forall s, ext s (fst (alloc_leaf s)).
Proof. intros s. split; [auto|split; [reflexivity|cbn; lia]]. Qed.

Lemma ext_alloc_node : forall s nd, closed_heap s -> ext s (fst (alloc_node s nd)).
Proof.
  intros s nd HC. split; [|split; [reflexivity|cbn; lia]].
  intros x Hx. rewrite lookup_alloc_old; assumption.
Qed.

Lemma ext_same_struct : forall s h', same_struct (hp s) h' -> ext s (with_hp s h').
Proof.
  intros s h' S. split; [|split; [reflexivity|cbn; lia]]. intros x Hx. cbn. eapply same_struct_some; eassumption.
Qed.

Lemma pcopy_inv : forall lf fuel s memo n s' memo' c,
  Inv s -> memo_ok s memo -> pcopy lf fuel s memo n = Some (s', memo', c) ->
  Inv s' /\ memo_ok s' memo' /\ ext s s' /\ lookup (hp s') c <> None /\ live s' c = true.
Proof.
  intros lf. induction fuel as [|f IH]; intros s memo n s' memo' c HI MO H; [discriminate|].
  cbn in H. destruct (memo_get memo n) as [c0|] eqn:MG.
  - inversion H. subst. destruct (MO n c (memo_get_in _ _ _ MG)) as [A B].
    split; [exact HI|split; [exact MO|split; [apply ext_refl|split; assumption]]].
  - destruct (lookup (hp s) n) as [nd|] eqn:E; [|discriminate].
    match type of H with context [fold_opt ?F (ents nd) _] => set (Fm := F) in * end.
    assert (Fold : forall l s0 m0 es s1 m1 es1, fold_opt Fm l (s0, m0, es) = Some (s1, m1, es1) ->
              Inv s0 -> memo_ok s0 m0 -> (forall x, In x (nch es) -> lookup (hp s0) x <> None /\ live s0 x = true) ->
              Inv s1 /\ memo_ok s1 m1 /\ ext s0 s1 /\
              (forall x, In x (nch es1) -> lookup (hp s1) x <> None /\ live s1 x = true) /\
              List.length (nch es1) = List.length (nch es) + List.length (nch l)).
    { induction l as [|e l IHl]; intros s0 m0 es s1 m1 es1 Hf I0' M0 C0; cbn [fold_opt] in Hf.
      - inversion Hf. subst. split; [exact I0'|split; [exact M0|split; [apply ext_refl|split; [exact C0|cbn; lia]]]].
      - destruct (Fm (s0, m0, es) e) as [[[sm mm0] esm]|] eqn:Fe; [|discriminate].
        assert (StepOk : Inv sm /\ memo_ok sm mm0 /\ ext s0 sm /\
                         (forall x, In x (nch esm) -> lookup (hp sm) x <> None /\ live sm x = true) /\
                         List.length (nch esm) = List.length (nch es) + List.length (ref_children (snd e))).
        { unfold Fm in Fe. destruct (snd e) as [lf0|c1] eqn:Se.
          - cbn in Fe. inversion Fe. subst sm mm0 esm.
            pose proof (ext_alloc_leaf s0) as X.
            split; [apply (Inv_alloc_leaf s0 I0')|split; [eapply memo_ok_ext; [exact X|exact M0]|split; [exact X|split]]].
            + intros x Hx. rewrite nch_app in Hx. cbn in Hx. rewrite app_nil_r in Hx. apply (C0 x Hx).
            + rewrite nch_app. cbn. rewrite app_nil_r. lia.
          - destruct (pcopy lf f s0 m0 c1) as [[[s9 m9] c9]|] eqn:Pc; [|discriminate].
            inversion Fe. subst sm mm0 esm.
            destruct (IH _ _ _ _ _ _ I0' M0 Pc) as (I9 & M9 & X9 & Ex9 & L9).
            split; [exact I9|split; [exact M9|split; [exact X9|split]]].
            + intros x Hx. rewrite nch_app in Hx. apply in_app_or in Hx. destruct Hx as [Hx|Hx].
              * destruct (C0 x Hx) as [A B]. split; [apply X9; exact A|rewrite (ext_live _ _ _ X9); exact B].
              * cbn in Hx. destruct Hx as [<-|[]]. split; assumption.
            + rewrite nch_app. cbn. rewrite app_length. cbn. lia. }
        destruct StepOk as (Im & Mm & Xm & Cm & Lm).
        destruct (IHl _ _ _ _ _ _ Hf Im Mm Cm) as (I1' & M1 & X1 & C1' & L1).
        split; [exact I1'|split; [exact M1|split; [eapply ext_trans; eassumption|split; [exact C1'|]]]].
        rewrite L1, Lm. change (nch (e :: l)) with (ref_children (snd e) ++ nch l). rewrite app_length. lia. }
    destruct (fold_opt Fm (ents nd) (s, memo, [])) as [[[s1 m1] es]|] eqn:Hf; [|discriminate].
    destruct (Fold _ _ _ _ _ _ _ Hf HI MO) as (I1' & M1 & X1 & C1' & L1); [intros x []|].
    set (nd' := mkNode (nk nd) es (if flag_is_true (flg nd) then FFalse else flg nd) [] (shm nd) (mm nd)) in *.
    assert (HC1 : closed_heap s1) by apply I1'.
    assert (I2 : Inv (fst (alloc_node s1 nd'))).
    { apply Inv_alloc_node; [exact I1'| |].
      - unfold nd'. cbn. destruct (flg nd); cbn; discriminate.
      - intros x Hx. apply C1'. exact Hx. }
    assert (X2 : ext s1 (fst (alloc_node s1 nd'))) by (apply ext_alloc_node; exact HC1).
    assert (Ec : lookup (hp (fst (alloc_node s1 nd'))) (nxt s1) = Some nd') by (apply lookup_alloc_new; exact HC1).
    assert (Lc : live (fst (alloc_node s1 nd')) (nxt s1) = true).
    { unfold live. change (dead (fst (alloc_node s1 nd'))) with (dead s1). destruct (memb (nxt s1) (dead s1)) eqn:M; [|reflexivity].
      apply memb_In in M. destruct HC1 as [_ [_ C3]]. specialize (C3 _ M). lia. }
    cbn [alloc_node] in H. change (mkSt (hp s1 ++ [(nxt s1, nd')]) (dead s1) (S (nxt s1)) (writes s1)) with (fst (alloc_node s1 nd')) in H.
    destruct (flag_is_true (flg nd)) eqn:RL.
    + change (hp s1 ++ [(nxt s1, nd')]) with (hp (fst (alloc_node s1 nd'))) in H.
      destruct (lock_ lf (hp (fst (alloc_node s1 nd'))) (nxt s1)) as [h3|] eqn:LK; [|discriminate].
      inversion H. subst s' memo' c. clear H.
      pose proof (lock_grows _ _ _ _ LK) as G.
      assert (X3 : ext (fst (alloc_node s1 nd')) (with_hp (fst (alloc_node s1 nd')) h3)) by (apply ext_same_struct; apply G).
      split; [eapply lock_inv; eassumption|].
      split.
      { intros a b [Hab|Hab].
        - inversion Hab. subst a b. split; [apply X3; congruence|rewrite (ext_live _ _ _ X3); exact Lc].
        - eapply memo_ok_ext; [eapply ext_trans; [exact X2|exact X3]|exact M1|exact Hab]. }
      split; [eapply ext_trans; [exact X1|eapply ext_trans; [exact X2|exact X3]]|].
      split; [apply X3; congruence|rewrite (ext_live _ _ _ X3); exact Lc].
    + inversion H. subst s' memo' c. clear H.
      split; [exact I2|].
      split.
      { intros a b [Hab|Hab].
        - inversion Hab. subst a b. split; [intros Hn; change (lookup (hp (fst (alloc_node s1 nd'))) (nxt s1) = None) in Hn; congruence|exact Lc].
        - eapply memo_ok_ext; [exact X2|exact M1|exact Hab]. }
      split; [eapply ext_trans; eassumption|]. split; [intros Hn; change (lookup (hp (fst (alloc_node s1 nd'))) (nxt s1) = None) in Hn; congruence|exact Lc].
Qed.

(* ---------------------------------------------------------------------------------------------- one public call *)
Lemma Inv_writes : forall s w, Inv s -> Inv (mkSt (hp s) (dead s) (nxt s) w).
Proof. intros s w [A B C]. split; assumption. Qed.

Lemma resolve_value_spec : forall s v s1 r, Inv s -> resolve_value s v = Some (s1, r) ->
  Inv s1 /\ (forall x, lookup (hp s) x <> None -> lookup (hp s1) x = lookup (hp s) x) /\ (forall x, live s1 x = live s x) /\
  (forall c, In c (ref_children r) -> lookup (hp s1) c <> None /\ live s1 c = true).
Proof.
  intros s v s1 r HI H. destruct v as [|m|]; cbn in H.
  - inversion H. subst. split; [apply (Inv_alloc_leaf s HI)|]. repeat split; auto; destruct H0.
  - destruct (exists_live s m) eqn:X; [|discriminate]. inversion H. subst.
    apply exists_live_spec in X. split; [exact HI|]. split; [auto|split; [auto|]].
    intros c [<-|[]]. exact X.
  - assert (Hs : s1 = fst (alloc_node s empty_td) /\ r = RNode (nxt s)) by (inversion H; split; reflexivity).
    destruct Hs as [-> ->]. clear H. pose proof (inv_closed _ HI) as HC.
    split.
    + apply Inv_alloc_node; [exact HI|cbn; discriminate|intros c []].
    + split; [intros x Hx; apply lookup_alloc_old; assumption|]. split; [reflexivity|].
      intros c [<-|[]]. split.
      * rewrite lookup_alloc_new; [discriminate|exact HC].
      * unfold live. change (dead (fst (alloc_node s empty_td))) with (dead s).
        destruct (memb (nxt s) (dead s)) eqn:M; [|reflexivity].
        apply memb_In in M. destruct HC as [_ [_ C3]]. specialize (C3 _ M). lia.
Qed.

Lemma is_locked_flag : forall fuel h n nd b, lookup h n = Some nd -> flg nd = FTrue -> is_locked fuel h n = Some b -> b = true.
Proof.
  intros fuel h n nd b E F H. destruct fuel; [discriminate|]. cbn in H. rewrite E, F in H. inversion H. reflexivity.
Qed.

Lemma insert_at_incl : forall {A} (l : list A) i x, incl l (insert_at l i x) /\ incl (insert_at l i x) (x :: l).
Proof.
  induction l as [|a l IH]; intros i x; destruct i; cbn; split; try (intros y Hy; cbn in *; tauto).
  - intros y [<-|Hy]; [left; reflexivity|]. right. apply (proj1 (IH i x)). exact Hy.
  - intros y [<-|Hy]; [right; left; reflexivity|]. apply (proj2 (IH i x)) in Hy. destruct Hy as [<-|Hy]; [left; reflexivity|right; right; exact Hy].
Qed.

Lemma nch_members : forall ms, nch (map (fun m => (""%string, RNode m)) ms) = ms.
Proof. induction ms as [|m ms IH]; cbn; [reflexivity|]. f_equal. exact IH. Qed.

Ltac ret HI H := inversion H; subst; exact HI.

Theorem step_inv : forall fuel s o s' out, Inv s -> step fuel s o = Some (s', out) -> Inv s'.
Proof.
  intros fuel s o s' out HI H. destruct o; cbn [step] in H.
  - (* lock_ *)
    destruct (exists_live s n); cbn [negb] in H; [|ret HI H].
    destruct (lock_ fuel (hp s) n) as [h|] eqn:L; [|discriminate]. inversion H. subst. eapply lock_inv; eassumption.
  - (* unlock_ *)
    destruct (exists_live s n); cbn [negb] in H; [|ret HI H]. eapply unlock_inv; eassumption.
  - (* set *)
    destruct (is_td s n) eqn:T; cbn [negb] in H; [|ret HI H].
    destruct (resolve_value s v) as [[s1 r]|] eqn:RV; [|ret HI H].
    destruct (td_flag s n) eqn:TF; [ret HI H|].
    destruct (resolve_value_spec _ _ _ _ HI RV) as (I1' & Same & Lv & Rc).
    destruct (is_td_spec _ _ T) as (nd & E & K & L).
    assert (E1 : lookup (hp s1) n = Some nd) by (rewrite Same; [exact E|congruence]).
    rewrite E1 in H. inversion H. subst s' out.
    eapply Inv_set_ents; [exact I1'|exact E1| | |congruence].
    + intros c Hc. apply ents_set_nch in Hc. apply in_app_or in Hc. destruct Hc as [Hc|Hc]; [left; exact Hc|right].
      destruct (Rc c Hc) as [A B]. split; [exact A|intros _; exact B].
    + intros F. exfalso. apply (td_flag_false s n nd E TF F).
  - (* set(inplace=True) *)
    destruct (is_td s n) eqn:T; cbn [negb] in H; [|ret HI H].
    destruct (is_td_spec _ _ T) as (nd & E & K & L). rewrite E in H.
    destruct (ents_get (ents nd) k) as [[l|c]|] eqn:G.
    + inversion H. subst. apply Inv_writes. exact HI.
    + ret HI H.
    + destruct (td_flag s n) eqn:TF; [ret HI H|].
      cbn in H. inversion H. subst s' out.
      eapply Inv_set_ents; [apply (Inv_alloc_leaf s HI)|exact E| | |congruence].
      * intros c Hc. left. apply ents_set_nch in Hc. cbn in Hc. rewrite app_nil_r in Hc. exact Hc.
      * intros F. exfalso. apply (td_flag_false s n nd E TF F).
  - (* set_ *)
    destruct (is_td s n) eqn:T; cbn [negb] in H; [|ret HI H].
    destruct (is_td_spec _ _ T) as (nd & E & K & L). rewrite E in H.
    destruct (ents_get (ents nd) k) as [[l|c]|] eqn:G; [|ret HI H|ret HI H].
    inversion H. subst. apply Inv_writes. exact HI.
  - (* del_ *)
    destruct (is_td s n && is_td s hn) eqn:T; cbn [negb] in H; [|ret HI H].
    apply andb_prop in T. destruct T as [T _].
    destruct (td_flag s hn); [ret HI H|]. destruct (td_flag s n); [ret HI H|].
    destruct (is_td_spec _ _ T) as (nd & E & K & L). rewrite E in H.
    destruct (ents_has (ents nd) k); [|ret HI H]. inversion H. subst.
    eapply Inv_shrink_ents; [exact HI|exact E|exact K|apply ents_del_incl].
  - (* pop *)
    destruct (is_td s n && is_td s hn) eqn:T; cbn [negb] in H; [|ret HI H].
    apply andb_prop in T. destruct T as [T _].
    destruct (is_td_spec _ _ T) as (nd & E & K & L). rewrite E in H.
    destruct (ents_has (ents nd) k); cbn [negb] in H; [|ret HI H].
    destruct (td_flag s hn); [ret HI H|]. destruct (td_flag s n); [ret HI H|]. inversion H. subst.
    eapply Inv_shrink_ents; [exact HI|exact E|exact K|apply ents_del_incl].
  - (* rename_key_ *)
    destruct (is_td s n) eqn:T; cbn [negb] in H; [|ret HI H].
    destruct (td_flag s n) eqn:TF; [ret HI H|].
    destruct (is_td_spec _ _ T) as (nd & E & K & L). rewrite E in H.
    destruct (String.eqb k k'); [destruct (ents_has (ents nd) k); ret HI H|].
    destruct (safe && ents_has (ents nd) k'); [ret HI H|].
    destruct (ents_get (ents nd) k) as [r|] eqn:G; [|ret HI H]. inversion H. subst.
    eapply Inv_set_ents; [exact HI|exact E| | |congruence].
    + intros c Hc. left. apply (nch_incl _ _ (ents_del_incl _ _)) in Hc.
      apply ents_set_nch in Hc. apply in_app_or in Hc. destruct Hc as [Hc|Hc]; [exact Hc|].
      unfold nch. apply in_flat_map. exists (k, r). split; [apply ents_get_in; exact G|exact Hc].
    + intros F. exfalso. apply (td_flag_false s n nd E TF F).
  - (* clear *)
    destruct (is_td s n) eqn:T; cbn [negb] in H; [|ret HI H].
    destruct (td_flag s n); [ret HI H|]. inversion H. subst.
    destruct (is_td_spec _ _ T) as (nd & E & K & L).
    eapply Inv_shrink_ents; [exact HI|exact E|exact K|intros x []].
  - (* popitem *)
    destruct (is_td s n) eqn:T; cbn [negb] in H; [|ret HI H].
    destruct (td_flag s n); [ret HI H|].
    destruct (is_td_spec _ _ T) as (nd & E & K & L). rewrite E in H.
    destruct (ents nd) as [|e0 es] eqn:En; [ret HI H|].
    assert (Hs : s' = set_node_ents s n (removelast (e0 :: es))) by (inversion H; reflexivity). subst s'.
    eapply Inv_shrink_ents; [exact HI|exact E|exact K|rewrite En; apply removelast_incl].
  - (* select(inplace=True) *)
    destruct (is_td s n) eqn:T; cbn [negb] in H; [|ret HI H].
    destruct (td_flag s n); [ret HI H|].
    destruct (is_td_spec _ _ T) as (nd & E & K & L). rewrite E in H.
    destruct (select_ents (ents nd) (dedup_keys ks [])) as [e|] eqn:S; [|ret HI H]. inversion H. subst.
    eapply Inv_shrink_ents; [exact HI|exact E|exact K|eapply select_ents_incl; exact S].
  - (* exclude(inplace=True) *)
    destruct (is_td s n) eqn:T; cbn [negb] in H; [|ret HI H].
    destruct (td_flag s n); [ret HI H|].
    destruct (is_td_spec _ _ T) as (nd & E & K & L). rewrite E in H. inversion H. subst.
    eapply Inv_shrink_ents; [exact HI|exact E|exact K|apply fold_del_incl].
  - (* append *)
    destruct (is_lazy s l && exists_live s m) eqn:T; cbn [negb] in H; [|ret HI H].
    apply andb_prop in T. destruct T as [T X]. apply exists_live_spec in X.
    destruct (is_locked fuel (hp s) l) as [[|]|] eqn:IL; [ret HI H| |discriminate].
    destruct (is_lazy_spec _ _ T) as (nd & E & K & L). rewrite E in H. inversion H. subst.
    eapply Inv_set_ents; [exact HI|exact E| | |].
    + intros c Hc. rewrite nch_app in Hc. apply in_app_or in Hc. destruct Hc as [Hc|Hc]; [left; exact Hc|right].
      cbn in Hc. destruct Hc as [<-|[]]. split; [apply X|intros _; apply X].
    + intros F. assert (false = true); [|discriminate]. eapply is_locked_flag; eassumption.
    + intros _. rewrite nch_app. apply incl_appl. apply incl_refl.
  - (* insert *)
    destruct (is_lazy s l && exists_live s m) eqn:T; cbn [negb] in H; [|ret HI H].
    apply andb_prop in T. destruct T as [T X]. apply exists_live_spec in X.
    destruct (is_locked fuel (hp s) l) as [[|]|] eqn:IL; [ret HI H| |discriminate].
    destruct (is_lazy_spec _ _ T) as (nd & E & K & L). rewrite E in H. inversion H. subst.
    eapply Inv_set_ents; [exact HI|exact E| | |].
    + intros c Hc. apply (nch_incl _ _ (proj2 (insert_at_incl (ents nd) i (""%string, RNode m)))) in Hc.
      cbn in Hc. destruct Hc as [<-|Hc]; [right; split; [apply X|intros _; apply X]|left; exact Hc].
    + intros F. assert (false = true); [|discriminate]. eapply is_locked_flag; eassumption.
    + intros _. apply nch_incl. apply (proj1 (insert_at_incl (ents nd) i (""%string, RNode m))).
  - (* lazy_stack *)
    destruct (forallb (exists_live s) ms) eqn:A; [|ret HI H]. inversion H. subst.
    apply Inv_alloc_node; [exact HI|cbn; discriminate|].
    intros c Hc. change (node_children _) with (nch (map (fun m => (""%string, RNode m)) ms)) in Hc. rewrite nch_members in Hc.
    rewrite forallb_forall in A. apply exists_live_spec. apply A. exact Hc.
  - (* TensorDict({}) *)
    inversion H. subst. apply Inv_alloc_node; [exact HI|cbn; discriminate|intros c []].
  - (* memmap_ *)
    destruct (exists_live s n); cbn [negb] in H; [|ret HI H].
    destruct (pmemmap fuel s n) as [[s1 [|]]|] eqn:P; [| |discriminate].
    + inversion H. subst. eapply pmemmap_inv; eassumption.
    + destruct (plock fuel (hp s1) n None) as [h|] eqn:L; [|discriminate]. inversion H. subst.
      eapply plock_inv; [|exact L]. eapply pmemmap_inv; eassumption.
  - (* share_memory_ *)
    destruct (exists_live s n); cbn [negb] in H; [|ret HI H].
    destruct (pshare fuel fuel s n) as [[s1 [|]]|] eqn:P; [| |discriminate]; inversion H; subst; eapply pshare_inv; eassumption.
  - (* pickle round trip *)
    destruct (exists_live s n); cbn [negb] in H; [|ret HI H].
    destruct (pcopy fuel fuel s [] n) as [[[s1 m1] c1]|] eqn:P; [|discriminate]. inversion H. subst.
    eapply pcopy_inv; [exact HI| |exact P]. intros a b [].
  - (* make_memmap *)
    destruct (is_td s n) eqn:T; cbn [negb] in H; [|ret HI H].
    destruct (is_td_spec _ _ T) as (nd & E & K & L). rewrite E in H.
    destruct (mm nd); cbn [negb] in H; [|ret HI H].
    destruct (ents_has (ents nd) k); [ret HI H|]. cbn in H. inversion H. subst.
    eapply Inv_set_ents; [apply (Inv_alloc_leaf s HI)|exact E| | |congruence].
    + intros c Hc. left. apply ents_set_nch in Hc. cbn in Hc. rewrite app_nil_r in Hc. exact Hc.
    + intros _ c Hc. apply ents_set_nch in Hc. cbn in Hc. rewrite app_nil_r in Hc. exact Hc.
  - (* gc *)
    destruct (gc_ok s ds) eqn:G; [|ret HI H]. inversion H. subst. apply Inv_gc; assumption.
Qed.

Lemma Inv_init : Inv init.
Proof.
  split.
  - intros p F. unfold flag_true in F. cbn in F. discriminate.
  - intros p c Hc. destruct Hc.
  - split; [intros p c []|split; [intros n Hn; cbn in Hn; congruence|intros d []]].
Qed.

Theorem run_inv : forall ff ops s s' outs, Inv s -> run ff s ops = Some (s', outs) -> Inv s'.
Proof.
  intros ff. induction ops as [|o ops IH]; intros s s' outs HI H; cbn in H.
  - inversion H. subst. exact HI.
  - destruct (step (ff s) s o) as [[s1 out]|] eqn:St; [|discriminate].
    destruct (run ff s1 ops) as [[s2 outs2]|] eqn:R; [|discriminate]. inversion H. subst.
    eapply IH; [|exact R]. eapply step_inv; eassumption.
Qed.
