From Coq Require Import ZArith List Bool Arith Lia String.
Import ListNotations.
From TD Require Import Model.C11_Layout Model.C11_Tree Model.C11_Formats Proofs.C11_TreeP.
Open Scope nat_scope.

(* ------------------------------------------------------------------ list helpers *)
Lemma eqb_list_eq : forall a b, eqb_list a b = true <-> a = b.
Proof.
  induction a as [|x a IH]; intros [|y b]; cbn; split; intros H; try discriminate; try reflexivity.
  - apply andb_true_iff in H as [H1 H2]. apply Nat.eqb_eq in H1. apply IH in H2. congruence.
  - injection H as -> ->. rewrite Nat.eqb_refl. now apply IH.
Qed.

Lemma prefixb_spec bs sh : prefixb bs sh = true <-> exists tl, sh = bs ++ tl.
Proof.
  unfold prefixb. rewrite eqb_list_eq. split.
  - intros H. exists (skipn (List.length bs) sh).
    transitivity (firstn (List.length bs) sh ++ skipn (List.length bs) sh); [symmetry; apply firstn_skipn|].
    now rewrite <- H.
  - intros [tl ->]. rewrite firstn_app, Nat.sub_diag, firstn_all, firstn_O, app_nil_r. reflexivity.
Qed.

Lemma prefixb_trans a b c : prefixb a b = true -> prefixb b c = true -> prefixb a c = true.
Proof.
  rewrite !prefixb_spec. intros [t1 ->] [t2 ->]. exists (t1 ++ t2). now rewrite app_assoc.
Qed.

Lemma prefixb_refl a : prefixb a a = true.
Proof. apply prefixb_spec. exists []. now rewrite app_nil_r. Qed.

(* ------------------------------------------------------------------ to_dict / from_dict *)
Lemma from_to_dict bs :
  (forall t, all_prefix_t bs t = true -> from_dict_f (to_dict_f (ents t)) bs = Ok (blanked_f bs (ents t))) /\
  (forall f, all_prefix_f bs f = true -> from_dict_f (to_dict_f f) bs = Ok (blanked_f bs f)).
Proof.
  apply tree_forest_ind; cbn [all_prefix_t all_prefix_f ents to_dict_f from_dict_f blanked_f].
  - intros m f IH H. auto.
  - reflexivity.
  - intros k l v r IH H. apply andb_true_iff in H as [H1 H2]. now rewrite H1, (IH H2).
  - intros k p b r IH H. now rewrite (IH H).
  - intros k t IHt r IHr H. apply andb_true_iff in H as [H1 H2].
    destruct t as [m f]. cbn [ents to_dict_f from_dict_f] in *. rewrite (IHt H1), (IHr H2). reflexivity.
Qed.

(* from_dict(to_dict(t), batch_size=bs): the keys, the nesting, every tensor (the very same objects) and every non-tensor
   payload of t; every node has the batch size passed by the caller, no names, no device, not locked *)
Theorem to_dict_from_dict t bs : all_prefix_t bs t = true -> from_dict (to_dict t) bs = Ok (blanked_t bs t).
Proof.
  intros H. unfold from_dict, to_dict. rewrite (proj1 (from_to_dict bs) t H). destruct t. reflexivity.
Qed.

Lemma coherent_all_prefix :
  (forall t bs0, prefixb bs0 (m_bs (meta t)) = true -> coherent_t t = true -> all_prefix_t bs0 t = true) /\
  (forall f bs0 bs dv, prefixb bs0 bs = true -> coherent_f bs dv f = true -> all_prefix_f bs0 f = true).
Proof.
  apply tree_forest_ind; cbn [coherent_t coherent_f all_prefix_t all_prefix_f meta].
  - intros m f IH bs0 H0 H. apply andb_true_iff in H as [_ H]. eauto.
  - reflexivity.
  - intros k l v r IH bs0 bs dv H0 H. apply andb_true_iff in H as [H1 H2].
    rewrite (prefixb_trans _ _ _ H0 H1). cbn. eauto.
  - intros k p b r IH bs0 bs dv H0 H. apply andb_true_iff in H as [H1 H2]. eauto.
  - intros k t IHt r IHr bs0 bs dv H0 H.
    apply andb_true_iff in H as [H H4]. apply andb_true_iff in H as [H H3]. apply andb_true_iff in H as [H1 H2].
    rewrite (IHt bs0 (prefixb_trans _ _ _ H0 H1) H3). cbn. eauto.
Qed.

(* for a coherent tensordict the caller's `batch_size=td.batch_size` is always accepted *)
Theorem to_dict_from_dict_coherent t : coherent_t t = true ->
  from_dict (to_dict t) (m_bs (meta t)) = Ok (blanked_t (m_bs (meta t)) t).
Proof.
  intros H. apply to_dict_from_dict. apply (proj1 coherent_all_prefix); [apply prefixb_refl|exact H].
Qed.

(* ------------------------------------------------------------------ pytree *)
Lemma dev0_devices f bs d : d = 0 -> coherent_f bs (Some d) f = true -> devices_ok d (setlock_f false f) = true.
Proof.
  intros ->. induction f as [|k l v r IH|k p b r IH|k t r IH]; cbn [coherent_f devices_ok setlock_f]; intros H.
  - reflexivity.
  - apply andb_true_iff in H as [_ H]. cbn. auto.
  - apply andb_true_iff in H as [_ H]. auto.
  - apply andb_true_iff in H as [H H4]. apply andb_true_iff in H as [H _]. apply andb_true_iff in H as [_ H2].
    destruct t as [m f]. cbn [setlock_t meta m_dev set_locked] in *.
    destruct (m_dev m) as [d'|]; [|discriminate]. rewrite H2. cbn. auto.
Qed.

Lemma shapes_setlock bs dv f : coherent_f bs dv f = true -> shapes_ok bs (setlock_f false f) = true.
Proof.
  induction f as [|k l v r IH|k p b r IH|k t r IH]; cbn [coherent_f shapes_ok setlock_f]; intros H.
  - reflexivity.
  - apply andb_true_iff in H as [H1 H]. rewrite H1. cbn. auto.
  - apply andb_true_iff in H as [H1 H]. rewrite H1. cbn. auto.
  - apply andb_true_iff in H as [H H4]. apply andb_true_iff in H as [H _]. apply andb_true_iff in H as [H1 _].
    destruct t as [m f]. cbn [setlock_t meta m_bs set_locked] in *. rewrite H1. cbn. auto.
Qed.

Lemma pt_roundtrip_all :
  (forall t rest, coherent_t t = true ->
     pt_unflatten_t (pt_spec t) (pt_leaves t ++ rest) = Some (setlock_t false t, rest)) /\
  (forall f rest bs dv, coherent_f bs dv f = true ->
     pt_unflatten_f (pt_spec_f f) (pt_leaves_f f ++ rest) = Some (setlock_f false f, rest)).
Proof.
  apply tree_forest_ind; cbn [coherent_t pt_spec pt_spec_f pt_leaves pt_leaves_f pt_unflatten_t pt_unflatten_f setlock_t setlock_f].
  - intros m f IH rest H. apply andb_true_iff in H as [Hd H]. rewrite (IH rest _ _ H).
    unfold pt_node. cbn [set_locked m_bs m_names m_dev].
    rewrite (shapes_setlock _ _ _ H).
    destruct (m_dev m) as [d|] eqn:Ed.
    + apply Nat.eqb_eq in Hd. rewrite (dev0_devices f (m_bs m) d Hd H). destruct m; cbn in *. now subst.
    + destruct m; cbn in *. now subst.
  - reflexivity.
  - intros k l v r IH rest bs dv H. cbn [coherent_f] in H. apply andb_true_iff in H as [_ H]. cbn [app].
    now rewrite (IH rest _ _ H).
  - intros k p b r IH rest bs dv H. cbn [coherent_f] in H. apply andb_true_iff in H as [_ H]. now rewrite (IH rest _ _ H).
  - intros k t IHt r IHr rest bs dv H. cbn [coherent_f] in H.
    apply andb_true_iff in H as [H H4]. apply andb_true_iff in H as [_ H3].
    rewrite <- app_assoc, (IHt _ H3), (IHr rest _ _ H4). reflexivity.
Qed.

(* tree_unflatten(tree_flatten(t)) : t with nothing locked (the context has no lock state), everything else kept *)
Theorem pytree_roundtrip t : coherent_t t = true -> pt_unflatten (pt_leaves t) (pt_spec t) = Some (setlock_t false t).
Proof.
  intros H. unfold pt_unflatten. pose proof (proj1 pt_roundtrip_all t [] H) as E. rewrite app_nil_r in E. now rewrite E.
Qed.

(* ------------------------------------------------------------------ state_dict / load_state_dict *)
(* the target is "like" the source: same keys in the same order, same kinds, same dtype / element size / shape of every
   tensor, the same batch size at every node, a compatible device; its names, lock state, device and contents are its own *)
Definition dev_compat (a b : option nat) : bool := match a, b with Some x, Some y => x =? y | _, _ => true end.
Fixpoint like_t (t g : tree) : bool :=
  match t, g with Node m f, Node m' f' => eqb_list (m_bs m) (m_bs m') && dev_compat (m_dev m) (m_dev m') && like_f f f' end
with like_f (f g : forest) : bool :=
  match f, g with
  | FNil, FNil => true
  | FLeaf k l _ r, FLeaf k' l' _ r' =>
      String.eqb k k' && (l_dt l =? l_dt l') && (l_esz l =? l_esz l') && eqb_list (l_shape l) (l_shape l') && like_f r r'
  | FNonT k _ _ r, FNonT k' _ _ r' => String.eqb k k' && like_f r r'
  | FSub k t r, FSub k' t' r' => String.eqb k k' && like_t t t' && like_f r r'
  | _, _ => false
  end.

(* contents of t in the shell of g *)
Fixpoint merge_t (t g : tree) : tree :=
  match t, g with Node _ f, Node m' f' => Node m' (merge_f f f') end
with merge_f (f g : forest) : forest :=
  match f, g with
  | FLeaf _ l _ r, FLeaf k' _ v' r' => FLeaf k' l v' (merge_f r r')
  | FNonT _ p _ r, FNonT k' _ bs' r' => FNonT k' p bs' (merge_f r r')
  | FSub _ t r, FSub k' t' r' => FSub k' (merge_t t t') (merge_f r r')
  | _, _ => g
  end.

Fixpoint nodup_t (t : tree) : bool := match t with Node _ f => nodup_f f end
with nodup_f (f : forest) : bool :=
  match f with
  | FNil => true
  | FLeaf k _ _ r | FNonT k _ _ r => negb (mem k (f_keys r)) && nodup_f r
  | FSub k t r => negb (mem k (f_keys r)) && nodup_t t && nodup_f r
  end.

Lemma mem_refl k l : mem k (k :: l) = true.
Proof. unfold mem. cbn. now rewrite String.eqb_refl. Qed.

Lemma same_keys_refl l : same_keys l l = true.
Proof.
  unfold same_keys. assert (H : forallb (fun k => mem k l) l = true).
  { apply forallb_forall. intros k Hk. unfold mem. apply existsb_exists. exists k. split; [exact Hk|apply String.eqb_refl]. }
  now rewrite H.
Qed.

Lemma sd_keys_state f : sd_keys (state_f f) = f_keys f.
Proof. induction f; cbn; congruence. Qed.

Lemma like_keys : forall f g, like_f f g = true -> f_keys g = f_keys f.
Proof.
  induction f as [|k l v r IH|k p b r IH|k t r IH]; intros [|k' l' v' r'|k' p' b' r'|k' t' r']; cbn [like_f f_keys]; intros H;
    try discriminate; try reflexivity.
  - repeat (apply andb_true_iff in H as [H ?]). apply String.eqb_eq in H. subst. f_equal. auto.
  - apply andb_true_iff in H as [H ?]. apply String.eqb_eq in H. subst. f_equal. auto.
  - repeat (apply andb_true_iff in H as [H ?]). apply String.eqb_eq in H. subst. f_equal. auto.
Qed.

Lemma not_mem_neq k k' l : mem k' (k :: l) = false -> String.eqb k' k = false.
Proof. unfold mem. cbn. intros H. now apply orb_false_iff in H as [H _]. Qed.
Lemma not_mem_tl k k' l : mem k' (k :: l) = false -> mem k' l = false.
Proof. unfold mem. cbn. intros H. now apply orb_false_iff in H as [_ H]. Qed.

Definition lres_map (h : forest -> forest) (x : lres) : lres := match x with LOk f => LOk (h f) | y => y end.

(* an entry whose key does not occur in the state dict is left where it is *)
Lemma load_skip : forall s g (h : forest -> forest) (kh : string),
  (forall k l g0, String.eqb k kh = false -> store_leaf (h g0) k l = lres_map h (store_leaf g0 k l)) ->
  (forall k p g0, String.eqb k kh = false -> store_nont (h g0) k p = lres_map h (store_nont g0 k p)) ->
  (forall k ld g0, String.eqb k kh = false -> store_sub (h g0) k ld = lres_map h (store_sub g0 k ld)) ->
  forallb (fun k => negb (String.eqb k kh)) (sd_keys s) = true ->
  load_f (h g) s = lres_map h (load_f g s).
Proof.
  induction s as [|k l r IH|k p r IH|k d r IH]; intros g h kh H1 H2 H3 Hk; cbn [load_f sd_keys forallb] in *.
  - reflexivity.
  - apply andb_true_iff in Hk as [Hk Hr]. apply negb_true_iff in Hk. rewrite (H1 _ _ _ Hk).
    destruct (store_leaf g k l); cbn [lres_map]; try reflexivity. now apply IH with (kh := kh).
  - apply andb_true_iff in Hk as [Hk Hr]. apply negb_true_iff in Hk. rewrite (H2 _ _ _ Hk).
    destruct (store_nont g k p); cbn [lres_map]; try reflexivity. now apply IH with (kh := kh).
  - apply andb_true_iff in Hk as [Hk Hr]. apply negb_true_iff in Hk. rewrite (H3 _ _ _ Hk).
    destruct (store_sub g k _); cbn [lres_map]; try reflexivity. now apply IH with (kh := kh).
Qed.

Lemma keys_avoid k l : mem k l = false -> forallb (fun k' => negb (String.eqb k' k)) l = true.
Proof.
  unfold mem. induction l as [|x l IH]; cbn; [reflexivity|]. intros H. apply orb_false_iff in H as [H1 H2].
  rewrite String.eqb_sym, H1. cbn. auto.
Qed.

Lemma skip_leaf kh lh vh : forall s g, mem kh (sd_keys s) = false ->
  load_f (FLeaf kh lh vh g) s = lres_map (FLeaf kh lh vh) (load_f g s).
Proof.
  intros s g H. apply load_skip with (kh := kh); [| | |now apply keys_avoid];
    intros; cbn [store_leaf store_nont store_sub]; rewrite H0;
    match goal with |- context [match ?x with _ => _ end] => destruct x end; reflexivity.
Qed.
Lemma skip_nont kh ph bh : forall s g, mem kh (sd_keys s) = false ->
  load_f (FNonT kh ph bh g) s = lres_map (FNonT kh ph bh) (load_f g s).
Proof.
  intros s g H. apply load_skip with (kh := kh); [| | |now apply keys_avoid];
    intros; cbn [store_leaf store_nont store_sub]; rewrite H0;
    match goal with |- context [match ?x with _ => _ end] => destruct x end; reflexivity.
Qed.
Lemma skip_sub kh th : forall s g, mem kh (sd_keys s) = false ->
  load_f (FSub kh th g) s = lres_map (FSub kh th) (load_f g s).
Proof.
  intros s g H. apply load_skip with (kh := kh); [| | |now apply keys_avoid];
    intros; cbn [store_leaf store_nont store_sub]; rewrite H0;
    match goal with |- context [match ?x with _ => _ end] => destruct x end; reflexivity.
Qed.

Lemma load_like :
  (forall t g, like_t t g = true -> nodup_t g = true -> load_t g (state_dict t) = LDone (merge_t t g)) /\
  (forall f g, like_f f g = true -> nodup_f g = true -> load_f g (state_f f) = LOk (merge_f f g)).
Proof.
  apply tree_forest_ind.
  - intros m f IH [m' f'] Hl Hn. cbn [like_t nodup_t state_dict load_t ents merge_t] in *.
    apply andb_true_iff in Hl as [Hl Hf]. apply andb_true_iff in Hl as [Hb Hd].
    rewrite sd_keys_state, (like_keys _ _ Hf), same_keys_refl. cbn [negb].
    cbn [set_bs_t]. rewrite Hb.
    unfold dev_compat in Hd. destruct (m_dev m) as [a|], (m_dev m') as [b|]; cbn [negb]; try rewrite Hd; cbn [negb];
      now rewrite (IH f' Hf Hn).
  - intros [|? ? ? ?|? ? ? ?|? ? ?] Hl Hn; cbn in Hl; try discriminate. reflexivity.
  - intros k l v r IH [|k' l' v' r'|? ? ? ?|? ? ?] Hl Hn; cbn [like_f] in Hl; try discriminate.
    repeat (apply andb_true_iff in Hl as [Hl ?]). apply String.eqb_eq in Hl. subst k'.
    cbn [nodup_f] in Hn. apply andb_true_iff in Hn as [Hk Hn]. apply negb_true_iff in Hk.
    cbn [state_f load_f store_leaf merge_f]. rewrite String.eqb_refl, H2, H1, H0. cbn [andb].
    rewrite skip_leaf by (rewrite sd_keys_state, <- (like_keys _ _ H); exact Hk).
    now rewrite (IH r' H Hn).
  - intros k p b r IH [|? ? ? ?|k' p' b' r'|? ? ?] Hl Hn; cbn [like_f] in Hl; try discriminate.
    apply andb_true_iff in Hl as [Hl H]. apply String.eqb_eq in Hl. subst k'.
    cbn [nodup_f] in Hn. apply andb_true_iff in Hn as [Hk Hn]. apply negb_true_iff in Hk.
    cbn [state_f load_f store_nont merge_f]. rewrite String.eqb_refl.
    rewrite skip_nont by (rewrite sd_keys_state, <- (like_keys _ _ H); exact Hk).
    now rewrite (IH r' H Hn).
  - intros k t IHt r IHr [|? ? ? ?|? ? ? ?|k' t' r'] Hl Hn; cbn [like_f] in Hl; try discriminate.
    apply andb_true_iff in Hl as [Hl H]. apply andb_true_iff in Hl as [Hl Ht]. apply String.eqb_eq in Hl. subst k'.
    cbn [nodup_f] in Hn. apply andb_true_iff in Hn as [Hn Hnr]. apply andb_true_iff in Hn as [Hk Hnt]. apply negb_true_iff in Hk.
    cbn [state_f load_f store_sub merge_f]. rewrite String.eqb_refl, (IHt t' Ht Hnt).
    rewrite skip_sub by (rewrite sd_keys_state, <- (like_keys _ _ H); exact Hk).
    now rewrite (IHr r' H Hnr).
Qed.

(* load_state_dict(state_dict(t)) into a target like t: the tensors' contents and the non-tensor payloads of t arrive in
   the target; the target keeps its own names, lock state, device (and view flags) *)
Theorem state_dict_roundtrip t g : like_t t g = true -> nodup_t g = true -> load_t g (state_dict t) = LDone (merge_t t g).
Proof. apply (proj1 load_like). Qed.

(* ... in particular, loading into a zeroed copy gives back the source *)
Lemma like_refl : (forall t, like_t t t = true) /\ (forall f, like_f f f = true).
Proof.
  apply tree_forest_ind; cbn [like_t like_f]; intros.
  - rewrite (proj2 (eqb_list_eq _ _) eq_refl), H. unfold dev_compat. destruct (m_dev m); [now rewrite Nat.eqb_refl|reflexivity].
  - reflexivity.
  - now rewrite String.eqb_refl, !Nat.eqb_refl, (proj2 (eqb_list_eq _ _) eq_refl), H.
  - now rewrite String.eqb_refl, H.
  - now rewrite String.eqb_refl, H, H0.
Qed.
