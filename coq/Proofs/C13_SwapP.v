(* C13 — lemmas about Model/C13_Swap: slot-wise characterisation of _set_tensor_dict / swap_tensor, the frame of one
   _to_module pass, and the restore theorem (second pass over the swap returns every slot to what it held). *)
From Coq Require Import ZArith List String Bool Lia.
Import ListNotations.
From TD Require Import Model.C13_Swap Model.C13_Scope.
Open Scope string_scope.
Open Scope list_scope.

(* ------------------------------------------------------------------ dictionaries *)
Section DictLemmas.
  Context {V : Type}.
  Implicit Types d : list (string * V).

  Lemma d_get_set_same d k v : d_get (d_set d k v) k = Some v.
  Proof.
    induction d as [|[k' v'] r IH]; cbn.
    - now rewrite String.eqb_refl.
    - destruct (String.eqb k k') eqn:E; cbn; now rewrite E.
  Qed.

  Lemma d_get_set_other d k k' v : k' <> k -> d_get (d_set d k v) k' = d_get d k'.
  Proof.
    intros Hne. induction d as [|[k0 v0] r IH]; cbn.
    - destruct (String.eqb k' k) eqn:E; [apply String.eqb_eq in E; congruence|reflexivity].
    - destruct (String.eqb k k0) eqn:E; cbn.
      + apply String.eqb_eq in E; subst k0.
        destruct (String.eqb k' k) eqn:E2; [apply String.eqb_eq in E2; congruence|reflexivity].
      + destruct (String.eqb k' k0); [reflexivity|exact IH].
  Qed.

  Lemma d_get_del_same d k : d_get (d_del d k) k = None.
  Proof.
    induction d as [|[k' v'] r IH]; cbn; [reflexivity|].
    destruct (String.eqb k k') eqn:E; cbn; [exact IH|now rewrite E].
  Qed.

  Lemma d_get_del_other d k k' : k' <> k -> d_get (d_del d k) k' = d_get d k'.
  Proof.
    intros Hne. induction d as [|[k0 v0] r IH]; cbn; [reflexivity|].
    destruct (String.eqb k k0) eqn:E; cbn.
    - apply String.eqb_eq in E; subst k0.
      destruct (String.eqb k' k) eqn:E2; [apply String.eqb_eq in E2; congruence|exact IH].
    - destruct (String.eqb k' k0); [reflexivity|exact IH].
  Qed.
End DictLemmas.

Section ZDictLemmas.
  Context {V : Type}.
  Implicit Types d : list (Z * V).
  Lemma z_get_set_same d k v : z_get (z_set d k v) k = Some v.
  Proof.
    induction d as [|[k' v'] r IH]; cbn.
    - now rewrite Z.eqb_refl.
    - destruct (Z.eqb k k') eqn:E; cbn; now rewrite E.
  Qed.
  Lemma z_get_set_other d k k' v : k' <> k -> z_get (z_set d k v) k' = z_get d k'.
  Proof.
    intros Hne. induction d as [|[k0 v0] r IH]; cbn.
    - destruct (Z.eqb k' k) eqn:E; [apply Z.eqb_eq in E; congruence|reflexivity].
    - destruct (Z.eqb k k0) eqn:E; cbn.
      + apply Z.eqb_eq in E; subst k0.
        destruct (Z.eqb k' k) eqn:E2; [apply Z.eqb_eq in E2; congruence|reflexivity].
      + destruct (Z.eqb k' k0); [reflexivity|exact IH].
  Qed.
End ZDictLemmas.

(* ------------------------------------------------------------------ slots *)

Definition place3 (x : obj) (was_buffer : bool) (s : slot3_t) : slot3_t :=
  let '(p, b, a) := s in
  if was_buffer then (p, Some (Some x), a) else if is_param x then (Some (Some x), b, a) else (p, b, Some x).

(* _set_tensor_dict (inplace=False) on the triple *)
Definition std3 (s : slot3_t) (x : obj) : slot3_t * option obj :=
  let '(p, b, a) := s in
  match p with
  | Some (Some o) => (place3 x false (None, b, a), Some o)
  | _ =>
      match b with
      | Some (Some o) => (place3 x true (None, None, a), Some o)
      | _ =>
          match a with
          | Some o => (place3 x false (None, None, None), Some o)
          | None => ((None, None, None), None)
          end
      end
  end.

Ltac use_get :=
  match goal with
  | H : d_get ?d ?k = _ |- context [d_get ?d ?k] => rewrite H
  end.
Ltac dsimp :=
  repeat first
    [ rewrite d_get_set_same | rewrite d_get_del_same
    | rewrite d_get_set_other by assumption | rewrite d_get_del_other by assumption | use_get ].
Ltac node_cbn := cbn [m_params m_bufs m_attrs m_custom m_subs with_params with_bufs with_attrs fst snd].

Lemma std_slot n k x st :
  let '(n', out, st') := set_tensor_dict n k x false st in
  st' = st /\ out = snd (std3 (slot3 n k) x) /\ slot3 n' k = fst (std3 (slot3 n k) x)
  /\ (forall k', k' <> k -> slot3 n' k' = slot3 n k') /\ m_custom n' = m_custom n /\ m_subs n' = m_subs n.
Proof.
  unfold set_tensor_dict, set_tensor_dict_gen, fixed_D131, slot3, std3, place3. cbn [andb].
  destruct n as [cu ps bs ats subs]; node_cbn.
  destruct (d_get ps k) as [[o|]|] eqn:Ep; node_cbn;
    destruct (d_get bs k) as [[o2|]|] eqn:Eb; node_cbn; repeat (use_get; node_cbn);
      destruct (d_get ats k) as [o3|] eqn:Ea; node_cbn; repeat (use_get; node_cbn);
        destruct (is_param x) eqn:Ex; node_cbn;
          (repeat split; intros; dsimp; reflexivity).
Qed.

(* torch's swap_tensor on the triple; [insubs]: the name is a key of _modules (TypeError) or unknown (AttributeError) *)
Definition sw3 (insubs : bool) (s : slot3_t) (x : obj) : slot3_t * (option obj + exn) :=
  let '(p, b, a) := s in
  match p with
  | Some orig => ((Some (Some x), b, a), inl orig)
  | None =>
      match b with
      | Some orig => ((p, Some (Some x), a), inl orig)
      | None =>
          match a with
          | Some o => ((if is_param x then (Some (Some x), None, None) else (None, None, Some x)), inl (Some o))
          | None => (s, inr (if insubs then ETypeError else EAttrError))
          end
      end
  end.

Lemma sw_slot n k x :
  match swap_tensor n k x with
  | SwOk n' orig =>
      slot3 n' k = fst (sw3 (d_mem (m_subs n) k) (slot3 n k) x) /\ snd (sw3 (d_mem (m_subs n) k) (slot3 n k) x) = inl orig
      /\ (forall k', k' <> k -> slot3 n' k' = slot3 n k') /\ m_custom n' = m_custom n /\ m_subs n' = m_subs n
  | SwErr e => snd (sw3 (d_mem (m_subs n) k) (slot3 n k) x) = inr e /\ fst (sw3 (d_mem (m_subs n) k) (slot3 n k) x) = slot3 n k
  end.
Proof.
  unfold swap_tensor, slot3, sw3.
  destruct n as [cu ps bs ats subs]; node_cbn.
  destruct (d_get ps k) as [orig|] eqn:Ep; node_cbn.
  { repeat split; intros; dsimp; reflexivity. }
  destruct (d_get bs k) as [orig|] eqn:Eb; node_cbn.
  { repeat split; intros; dsimp; reflexivity. }
  destruct (d_get ats k) as [o|] eqn:Ea; node_cbn.
  { destruct (is_param x) eqn:Ex; node_cbn; repeat split; intros; dsimp; reflexivity. }
  destruct (d_mem subs k); split; reflexivity.
Qed.

(* one leaf entry on the triple *)
Definition leaf3 (cu insubs : bool) (s : slot3_t) (x : obj) : slot3_t * (option obj + exn) :=
  if cu then sw3 insubs s x
  else let '(s1, out) := std3 s x in (s1, match out with Some o => inl (Some o) | None => inr EKeyError end).


(* a name lives in one dict of a regular module, parameters are Parameters, the rest is not *)
Definition wf3 (s : slot3_t) : Prop :=
  match s with
  | (Some (Some o), None, None) => is_param o = true
  | (Some None, None, None) => True
  | (None, Some (Some o), None) => True
  | (None, Some None, None) => True
  | (None, None, Some o) => is_param o = false
  | (None, None, None) => True
  | _ => False
  end.

(* what the restore theorem asks of a supplied tensor x for a slot: a custom module's None entries are not addressed
   (a regular module takes any tensor under any of its names since the repair of D131) *)
Definition ok3 (cu : bool) (s : slot3_t) (x : obj) : Prop :=
  if cu then fst3 s <> Some None /\ snd3 s <> Some None else True.

Definition mono3 (cu : bool) (s s1 : slot3_t) : Prop :=
  if cu then (fst3 s1 = Some None -> fst3 s = Some None) /\ (snd3 s1 = Some None -> snd3 s = Some None)
  else (snd3 s1 <> None -> snd3 s <> None).

Lemma mono3_refl cu s : mono3 cu s s.
Proof. unfold mono3; destruct cu; auto. Qed.
Lemma mono3_trans cu a b c : mono3 cu a b -> mono3 cu b c -> mono3 cu a c.
Proof. unfold mono3; destruct cu; intuition. Qed.
Lemma ok3_mono cu s s1 x : ok3 cu s x -> mono3 cu s s1 -> ok3 cu s1 x.
Proof. unfold ok3, mono3; destruct cu; intuition. Qed.

Definition wfc (cu : bool) (s : slot3_t) : Prop := if cu then thd3 s = None else wf3 s.

Lemma leaf3_mono cu i s x : mono3 cu s (fst (leaf3 cu i s x)).
Proof.
  unfold leaf3, mono3, sw3, std3, place3, fst3, snd3.
  destruct s as [[p b] a]. destruct cu.
  - destruct p as [orig|]; cbn; [split; congruence|].
    destruct b as [orig|]; cbn; [split; congruence|].
    destruct a as [o|]; cbn; [destruct (is_param x); cbn; split; congruence|split; congruence].
  - destruct p as [[o|]|]; cbn; try tauto;
      destruct b as [[o2|]|]; cbn; try (destruct (is_param x); cbn; congruence);
        destruct a as [o3|]; cbn; try (destruct (is_param x); cbn; congruence); congruence.
Qed.

Lemma leaf3_wfc cu i s x : wfc cu s -> wfc cu (fst (leaf3 cu i s x)).
Proof.
  unfold leaf3, wfc, sw3, std3, place3, thd3, wf3.
  destruct s as [[p b] a]. destruct cu.
  - cbn. intros ->. destruct p as [orig|]; cbn; [reflexivity|]. destruct b as [orig|]; cbn; reflexivity.
  - destruct p as [[o|]|]; destruct b as [[o2|]|]; destruct a as [o3|]; cbn; try tauto;
      intros H; destruct (is_param x) eqn:Ex; cbn; auto.
Qed.

Lemma leaf3_out cu i s x out : ok3 cu s x -> snd (leaf3 cu i s x) = inl out -> exists o, out = Some o.
Proof.
  unfold leaf3, ok3, sw3, std3, fst3, snd3. destruct s as [[p b] a]. destruct cu; cbn.
  - intros [Hp Hb]. destruct p as [[o|]|]; cbn; try congruence.
    + intros E; inversion E; eauto.
    + destruct b as [[o|]|]; cbn; try congruence.
      * intros E; inversion E; eauto.
      * destruct a; cbn; intros E; inversion E; eauto.
  - intros _. destruct p as [[o|]|]; cbn; try (intros E; inversion E; eauto; fail);
      destruct b as [[o2|]|]; cbn; try (intros E; inversion E; eauto; fail);
        destruct a as [o3|]; cbn; intros E; inversion E; eauto.
Qed.

(* the central local fact: the second application with the saved value puts the triple back *)
Lemma leaf3_restore cu i s x s1 o :
  wfc cu s -> ok3 cu s x -> leaf3 cu i s x = (s1, inl (Some o)) -> leaf3 cu i s1 o = (s, inl (Some x)).
Proof.
  unfold leaf3, wfc, ok3, sw3, std3, place3, thd3, fst3, snd3, wf3.
  destruct s as [[p b] a]. destruct cu; cbn.
  - intros -> [Hp Hb]. destruct p as [[o0|]|]; cbn; try congruence.
    + intros E; inversion E; subst. reflexivity.
    + destruct b as [[o0|]|]; cbn; try congruence.
      intros E; inversion E; subst. reflexivity.
  - destruct p as [[o0|]|]; destruct b as [[o2|]|]; destruct a as [o3|]; cbn; try tauto; intros Hwf Hok;
      try (destruct (is_param x) eqn:Ex; cbn; intros E; inversion E; subst; cbn; rewrite ?Hwf; cbn; reflexivity);
      try (intros E; inversion E; subst; cbn; rewrite ?Hwf; cbn; reflexivity);
      try (intros E; inversion E; fail).
Qed.

(* ------------------------------------------------------------------ one leaf step on the heap (plain mode) *)
Definition simple (cfg : tmcfg) : Prop :=
  c_usd cfg = false /\ (c_inplace cfg = None \/ c_inplace cfg = Some false) /\ c_return_swap cfg = true.

Lemma h_get_set_same h m n : h_get (h_set h m n) m = Some n.
Proof. apply z_get_set_same. Qed.
Lemma h_get_set_other h m n c : c <> m -> h_get (h_set h m n) c = h_get h c.
Proof. apply z_get_set_other. Qed.

Lemma leaf_step_spec cfg m k x st n :
  simple cfg -> h_get (t_heap st) m = Some n ->
  exists n',
    let '(st', r) := leaf_step cfg m k x st in
    t_vals st' = t_vals st /\ t_next st' = t_next st /\ h_get (t_heap st') m = Some n'
    /\ (forall c, c <> m -> h_get (t_heap st') c = h_get (t_heap st) c)
    /\ m_custom n' = m_custom n /\ m_subs n' = m_subs n
    /\ slot3 n' k = fst (leaf3 (m_custom n) (d_mem (m_subs n) k) (slot3 n k) x)
    /\ r = snd (leaf3 (m_custom n) (d_mem (m_subs n) k) (slot3 n k) x)
    /\ (forall k', k' <> k -> slot3 n' k' = slot3 n k').
Proof.
  intros (Husd & Hinp & _) Hn. unfold leaf_step. rewrite Hn, Husd.
  assert (Hip : match c_inplace cfg with Some b => b | None => false end = false) by (destruct Hinp as [-> | ->]; reflexivity).
  rewrite Hip. unfold leaf3.
  destruct (m_custom n) eqn:Ecu.
  - pose proof (sw_slot n k x) as Hs. destruct (swap_tensor n k x) as [n' orig|e].
    + destruct Hs as (H1 & H2 & H3 & H4 & H5). exists n'. cbn.
      rewrite h_get_set_same. repeat split; auto; try (intros c Hc; now apply h_get_set_other); try congruence.
    + destruct Hs as (H1 & H2). exists n. repeat split; auto; try congruence.
  - pose proof (std_slot n k x st) as Hs.
    destruct (set_tensor_dict n k x false st) as [[n' out] st'].
    destruct Hs as (-> & H2 & H3 & H4 & H5 & H6). exists n'.
    destruct (std3 (slot3 n k) x) as [s1 out'] eqn:E3. cbn in H2, H3. subst out'.
    destruct out as [o|]; cbn; rewrite h_get_set_same; repeat split; auto;
      try (intros c Hc; now apply h_get_set_other); congruence.
Qed.

(* ------------------------------------------------------------------ heap-level vocabulary *)
Definition sloteq (n n' : mnode) : Prop :=
  m_custom n = m_custom n' /\ m_subs n = m_subs n' /\ forall k, slot3 n k = slot3 n' k.
Definition osloteq (a b : option mnode) : Prop :=
  match a, b with Some n, Some n' => sloteq n n' | None, None => True | _, _ => False end.
Definition struct_same (h h' : heap) : Prop :=
  forall c, match h_get h c, h_get h' c with
            | Some n, Some n' => m_custom n = m_custom n' /\ m_subs n = m_subs n'
            | None, None => True
            | _, _ => False
            end.
Definition wf_node (n : mnode) : Prop := forall k, wfc (m_custom n) (slot3 n k).
Definition wf_heap (h : heap) : Prop := forall c n, h_get h c = Some n -> wf_node n.
Definition mono_heap (h h1 : heap) : Prop :=
  forall c n1, h_get h1 c = Some n1 ->
    exists n, h_get h c = Some n /\ m_custom n = m_custom n1 /\ forall k, mono3 (m_custom n) (slot3 n k) (slot3 n1 k).

Lemma sloteq_refl n : sloteq n n.
Proof. repeat split. Qed.
Lemma osloteq_refl a : osloteq a a.
Proof. destruct a; cbn; auto using sloteq_refl. Qed.
Lemma sloteq_trans a b c : sloteq a b -> sloteq b c -> sloteq a c.
Proof. intros (A1 & A2 & A3) (B1 & B2 & B3). repeat split; try congruence; try (intros k; now rewrite A3). Qed.
Lemma osloteq_trans a b c : osloteq a b -> osloteq b c -> osloteq a c.
Proof. destruct a, b, c; cbn; try tauto. apply sloteq_trans. Qed.
Lemma sloteq_sym a b : sloteq a b -> sloteq b a.
Proof. intros (A1 & A2 & A3). repeat split; auto. Qed.
Lemma osloteq_sym a b : osloteq a b -> osloteq b a.
Proof. destruct a, b; cbn; auto using sloteq_sym. Qed.

Lemma struct_same_refl h : struct_same h h.
Proof. intros c. destruct (h_get h c); auto. Qed.
Lemma struct_same_trans a b c : struct_same a b -> struct_same b c -> struct_same a c.
Proof.
  intros H1 H2 x. specialize (H1 x). specialize (H2 x).
  destruct (h_get a x), (h_get b x), (h_get c x); try tauto. destruct H1, H2. split; congruence.
Qed.
Lemma struct_same_sym a b : struct_same a b -> struct_same b a.
Proof. intros H x. specialize (H x). destruct (h_get a x), (h_get b x); try tauto. destruct H; split; congruence. Qed.

Lemma mono_heap_refl h : mono_heap h h.
Proof. intros c n Hn. exists n. repeat split; auto. intros k. apply mono3_refl. Qed.
Lemma mono_heap_trans a b c : mono_heap a b -> mono_heap b c -> mono_heap a c.
Proof.
  intros H1 H2 x n2 Hn2. destruct (H2 x n2 Hn2) as (n1 & Hn1 & Hc1 & Hm1).
  destruct (H1 x n1 Hn1) as (n0 & Hn0 & Hc0 & Hm0). exists n0. repeat split; auto; try congruence.
  intros k. eapply mono3_trans; [apply Hm0|]. rewrite Hc0. apply Hm1.
Qed.

(* leaves anywhere in a tensordict *)
Fixpoint leaf_of (t : ptd) (k : string) (x : obj) : Prop :=
  match t with PTD ents =>
    (fix go (l : list (string * pent)) : Prop :=
       match l with
       | [] => False
       | (k', PLeaf o) :: r => (k' = k /\ o = Some x) \/ go r
       | (_, PSub t') :: r => leaf_of t' k x \/ go r
       end) ents
  end.
Definition leaf_ofL := fix go (l : list (string * pent)) (k : string) (x : obj) : Prop :=
  match l with
  | [] => False
  | (k', PLeaf o) :: r => (k' = k /\ o = Some x) \/ go r k x
  | (_, PSub t') :: r => leaf_of t' k x \/ go r k x
  end.
Lemma leaf_of_PTD ents k x : leaf_of (PTD ents) k x = leaf_ofL ents k x.
Proof. induction ents as [|[k' [o|t']] r IH]; cbn; [reflexivity| |]; cbn in IH; now rewrite IH. Qed.

Definition scopeL (h : heap) (l : list (string * pent)) : Prop :=
  forall k x, leaf_ofL l k x -> forall c n, h_get h c = Some n -> ok3 (m_custom n) (slot3 n k) x.
Definition scope (h : heap) (t : ptd) : Prop := scopeL h (p_ents t).

Lemma scopeL_mono h h1 l : scopeL h l -> mono_heap h h1 -> scopeL h1 l.
Proof.
  intros Hs Hm k x Hl c n1 Hn1. destruct (Hm c n1 Hn1) as (n & Hn & Hc & Hk).
  rewrite <- Hc. eapply ok3_mono; [eapply Hs; eauto|apply Hk].
Qed.

(* keys of every node are pairwise different (a Python dict) *)
Fixpoint keys_nodup (t : ptd) : Prop :=
  match t with PTD ents =>
    NoDup (map fst ents) /\
    (fix go (l : list (string * pent)) : Prop :=
       match l with
       | [] => True
       | (_, PLeaf _) :: r => go r
       | (_, PSub t') :: r => keys_nodup t' /\ go r
       end) ents
  end.
Definition keys_nodupL := fix go (l : list (string * pent)) : Prop :=
  match l with
  | [] => True
  | (_, PLeaf _) :: r => go r
  | (_, PSub t') :: r => keys_nodup t' /\ go r
  end.
Lemma keys_nodup_PTD ents : keys_nodup (PTD ents) = (NoDup (map fst ents) /\ keys_nodupL ents).
Proof. reflexivity. Qed.

Lemma keys_nodupL_app a b : keys_nodupL (a ++ b) <-> keys_nodupL a /\ keys_nodupL b.
Proof.
  induction a as [|[k [o|t]] r IH]; cbn; [tauto|exact IH|]. rewrite IH. tauto.
Qed.

(* a strong induction principle for ptd *)
Section ptd_ind2.
  Variable P : ptd -> Prop.
  Hypothesis HP : forall ents, Forall (fun e => match snd e with PSub t => P t | PLeaf _ => True end) ents -> P (PTD ents).
  Fixpoint ptd_ind2 (t : ptd) : P t :=
    match t with
    | PTD ents =>
        HP ents ((fix go (l : list (string * pent)) : Forall (fun e => match snd e with PSub t => P t | PLeaf _ => True end) l :=
                    match l with
                    | [] => Forall_nil _
                    | (k, PLeaf o) :: r => Forall_cons (k, PLeaf o) I (go r)
                    | (k, PSub t') :: r => Forall_cons (k, PSub t') (ptd_ind2 t') (go r)
                    end) ents)
    end.
End ptd_ind2.

(* ------------------------------------------------------------------ the loop of _to_module, unfolded *)
Lemma tm_go_nil rec cfg m cu subs ph st memo acc : tm_go rec cfg m cu subs ph [] st memo acc = (st, memo, acc, None).
Proof. reflexivity. Qed.
Lemma tm_go_leaf rec cfg m cu subs ph k x r st memo acc :
  tm_go rec cfg m cu subs ph ((k, PLeaf (Some x)) :: r) st memo acc =
  if c_usd cfg && negb ph then tm_go rec cfg m cu subs ph r st memo acc else
  match leaf_step cfg m k x st with
  | (st', inl out) => tm_go rec cfg m cu subs ph r st' memo (push cfg acc k (PLeaf out))
  | (st', inr e) => (st', memo, acc, Some e)
  end.
Proof. reflexivity. Qed.
Lemma tm_go_none rec cfg m cu subs ph k r st memo acc :
  tm_go rec cfg m cu subs ph ((k, PLeaf None) :: r) st memo acc =
  if c_usd cfg then tm_go rec cfg m cu subs ph r st memo acc else
  if cu then (st, memo, acc, Some ETypeError)
  else if d_mem subs k then (st, memo, acc, Some EAttrError) else (st, memo, acc, Some EKeyError).
Proof. reflexivity. Qed.
Lemma tm_go_sub rec cfg m cu subs ph k t' r st memo acc :
  tm_go rec cfg m cu subs ph ((k, PSub t') :: r) st memo acc =
  if c_usd cfg && (ph || ptd_empty t') then tm_go rec cfg m cu subs ph r st memo acc else
  match d_get subs k with
  | None => (st, memo, acc, Some (if cu then ETypeError else EKeyError))
  | Some None => (st, memo, acc, Some ETypeError)
  | Some (Some child) =>
      match z_get memo child with
      | Some sw => tm_go rec cfg m cu subs ph r st memo (push cfg acc k (PSub sw))
      | None =>
          match rec t' child st memo with
          | TmErr st' e => (st', memo, acc, Some e)
          | TmOk st' memo' sw => tm_go rec cfg m cu subs ph r st' memo' (push cfg acc k (PSub sw))
          end
      end
  end.
Proof. reflexivity. Qed.

Lemma to_mod_simple cfg ents m st memo :
  simple cfg ->
  to_mod cfg (PTD ents) m st memo =
  match h_get (t_heap st) m with
  | None => TmErr st EOther
  | Some n0 =>
      match tm_go (to_mod cfg) cfg m (m_custom n0) (m_subs n0) true ents st (z_set memo m (PTD [])) [] with
      | (st2, memo2, acc2, Some e) => TmErr st2 e
      | (st2, memo2, acc2, None) => TmOk st2 (z_set memo2 m (PTD acc2)) (PTD acc2)
      end
  end.
Proof.
  intros (Husd & Hinp & Hrs). cbn [to_mod]. destruct (h_get (t_heap st) m); [|reflexivity].
  rewrite Husd, Hrs. cbn. reflexivity.
Qed.

Definition dom_eq (a b : memo_t) : Prop := forall c, z_get a c = None <-> z_get b c = None.
Definition touched (memo memo1 : memo_t) (c : Z) : Prop := z_get memo1 c <> None /\ z_get memo c = None.
Definition hg (st : tstate) (c : Z) := h_get (t_heap st) c.

Definition pass1_facts (m : Z) (st : tstate) (memo : memo_t) (st1 : tstate) (memo1 : memo_t) : Prop :=
  t_vals st1 = t_vals st /\ t_next st1 = t_next st
  /\ (forall c, z_get memo c <> None -> z_get memo1 c <> None) /\ z_get memo1 m <> None
  /\ (forall c, ~ touched memo memo1 c -> hg st1 c = hg st c)
  /\ struct_same (t_heap st) (t_heap st1)
  /\ (wf_heap (t_heap st) -> wf_heap (t_heap st1))
  /\ mono_heap (t_heap st) (t_heap st1).

Definition pass2_facts (cfg : tmcfg) (m : Z) (st : tstate) (memo : memo_t) (st1 : tstate) (memo1 : memo_t) (sw : ptd) : Prop :=
  forall stX memoX,
    dom_eq memoX memo ->
    (forall c, touched memo memo1 c -> osloteq (hg stX c) (hg st1 c)) ->
    struct_same (t_heap st) (t_heap stX) ->
    exists stY memoY sw',
      to_mod cfg sw m stX memoX = TmOk stY memoY sw' /\ dom_eq memoY memo1
      /\ (forall c, touched memo memo1 c -> osloteq (hg stY c) (hg st c))
      /\ (forall c, ~ touched memo memo1 c -> hg stY c = hg stX c)
      /\ t_vals stY = t_vals stX /\ t_next stY = t_next stX.

Definition S_stmt (t : ptd) : Prop :=
  forall cfg, simple cfg -> forall m st memo st1 memo1 sw,
    to_mod cfg t m st memo = TmOk st1 memo1 sw -> z_get memo m = None -> keys_nodup t ->
    pass1_facts m st memo st1 memo1
    /\ (wf_heap (t_heap st) -> scope (t_heap st) t -> pass2_facts cfg m st memo st1 memo1 sw).

Definition loop1_facts (m : Z) (n : mnode) (l : list (string * pent)) (st : tstate) (memo : memo_t) (st1 : tstate) (memo1 : memo_t) : Prop :=
  t_vals st1 = t_vals st /\ t_next st1 = t_next st
  /\ (forall c, z_get memo c <> None -> z_get memo1 c <> None)
  /\ (forall c, c <> m -> ~ touched memo memo1 c -> hg st1 c = hg st c)
  /\ (exists n1, hg st1 m = Some n1 /\ m_custom n1 = m_custom n /\ m_subs n1 = m_subs n
                 /\ forall k, ~ In k (map fst l) -> slot3 n1 k = slot3 n k)
  /\ struct_same (t_heap st) (t_heap st1)
  /\ (wf_heap (t_heap st) -> wf_heap (t_heap st1))
  /\ mono_heap (t_heap st) (t_heap st1).

Definition loop2_facts (cfg : tmcfg) (m : Z) (n : mnode) (l swl : list (string * pent))
           (st : tstate) (memo : memo_t) (st1 : tstate) (memo1 : memo_t) : Prop :=
  forall stX memoX accX nX n1,
    hg st1 m = Some n1 ->
    dom_eq memoX memo ->
    (forall c, touched memo memo1 c -> osloteq (hg stX c) (hg st1 c)) ->
    hg stX m = Some nX -> m_custom nX = m_custom n -> m_subs nX = m_subs n ->
    (forall k, In k (map fst l) -> slot3 nX k = slot3 n1 k) ->
    struct_same (t_heap st) (t_heap stX) ->
    exists stY memoY swl' nY,
      tm_go (to_mod cfg) cfg m (m_custom n) (m_subs n) true swl stX memoX accX = (stY, memoY, accX ++ swl', None)
      /\ dom_eq memoY memo1
      /\ (forall c, touched memo memo1 c -> osloteq (hg stY c) (hg st c))
      /\ (forall c, c <> m -> ~ touched memo memo1 c -> hg stY c = hg stX c)
      /\ hg stY m = Some nY /\ m_custom nY = m_custom n /\ m_subs nY = m_subs n
      /\ (forall k, In k (map fst l) -> slot3 nY k = slot3 n k)
      /\ (forall k, ~ In k (map fst l) -> slot3 nY k = slot3 nX k)
      /\ t_vals stY = t_vals stX /\ t_next stY = t_next stX.

Lemma touched_dec memo memo1 c : touched memo memo1 c \/ ~ touched memo memo1 c.
Proof.
  unfold touched. destruct (z_get memo1 c), (z_get memo c); [right|left|right|right]; intuition congruence.
Qed.

Lemma wf_heap_set h m n : wf_heap h -> wf_node n -> wf_heap (h_set h m n).
Proof.
  intros Hw Hn c n' Hc. destruct (Z.eq_dec c m) as [->|Hne].
  - rewrite h_get_set_same in Hc. now inversion Hc; subst.
  - rewrite h_get_set_other in Hc by assumption. eauto.
Qed.

(* one leaf step: facts about the heap *)
Lemma leaf_step_heap cfg m k x st n st' r :
  simple cfg -> hg st m = Some n -> leaf_step cfg m k x st = (st', r) ->
  exists n', t_vals st' = t_vals st /\ t_next st' = t_next st /\ hg st' m = Some n'
    /\ (forall c, c <> m -> hg st' c = hg st c)
    /\ m_custom n' = m_custom n /\ m_subs n' = m_subs n
    /\ slot3 n' k = fst (leaf3 (m_custom n) (d_mem (m_subs n) k) (slot3 n k) x)
    /\ r = snd (leaf3 (m_custom n) (d_mem (m_subs n) k) (slot3 n k) x)
    /\ (forall k', k' <> k -> slot3 n' k' = slot3 n k')
    /\ struct_same (t_heap st) (t_heap st')
    /\ (wf_heap (t_heap st) -> wf_heap (t_heap st'))
    /\ mono_heap (t_heap st) (t_heap st').
Proof.
  intros Hs Hn Hl. destruct (leaf_step_spec cfg m k x st n Hs Hn) as (n' & H). rewrite Hl in H.
  destruct H as (H1 & H2 & H3 & H4 & H5 & H6 & H7 & H8 & H9).
  exists n'. repeat split; auto.
  - intros c. destruct (Z.eq_dec c m) as [->|Hne].
    + unfold hg in *. rewrite Hn, H3. auto.
    + unfold hg in *. rewrite (H4 c Hne). destruct (h_get (t_heap st) c); auto.
  - intros Hw c nc Hc. destruct (Z.eq_dec c m) as [->|Hne].
    + unfold hg in *. rewrite H3 in Hc. inversion Hc; subst nc. intros k'.
      rewrite H5. destruct (string_dec k' k) as [->|Hk].
      * rewrite H7. apply leaf3_wfc. apply (Hw m n Hn k).
      * rewrite (H9 k' Hk). apply (Hw m n Hn k').
    + unfold hg in *. rewrite (H4 c Hne) in Hc. eauto.
  - intros c nc Hc. destruct (Z.eq_dec c m) as [->|Hne].
    + unfold hg in *. rewrite H3 in Hc. inversion Hc; subst nc. exists n. repeat split; auto.
      intros k'. destruct (string_dec k' k) as [->|Hk].
      * rewrite H7. apply leaf3_mono.
      * rewrite (H9 k' Hk). apply mono3_refl.
    + unfold hg in *. rewrite (H4 c Hne) in Hc. exists nc. repeat split; auto. intros k'. apply mono3_refl.
Qed.

Lemma z_get_set_cases {V} (d : list (Z * V)) k v c :
  z_get (z_set d k v) c = if Z.eqb c k then Some v else z_get d c.
Proof.
  destruct (Z.eqb c k) eqn:E.
  - apply Z.eqb_eq in E. subst. apply z_get_set_same.
  - apply Z.eqb_neq in E. now apply z_get_set_other.
Qed.

Lemma dom_eq_set a b m v w : dom_eq a b -> dom_eq (z_set a m v) (z_set b m w).
Proof.
  intros H c. rewrite !z_get_set_cases. destruct (Z.eqb c m); [split; congruence|apply H].
Qed.

Lemma struct_from st stX stY (T : Z -> Prop) :
  (forall c, T c \/ ~ T c) ->
  (forall c, T c -> osloteq (hg stY c) (hg st c)) ->
  (forall c, ~ T c -> hg stY c = hg stX c) ->
  struct_same (t_heap st) (t_heap stX) -> struct_same (t_heap st) (t_heap stY).
Proof.
  intros Hdec H1 H2 Hs c. specialize (Hs c). unfold hg in *. destruct (Hdec c) as [Ht|Ht].
  - specialize (H1 c Ht). destruct (h_get (t_heap stY) c), (h_get (t_heap st) c); cbn in H1; try tauto.
    destruct H1 as (A & B & _). split; congruence.
  - rewrite (H2 c Ht). exact Hs.
Qed.

Lemma scopeL_tail h e r : scopeL h (e :: r) -> scopeL h r.
Proof.
  intros H k x Hl. apply H. destruct e as [k' [o|t']]; cbn; right; exact Hl.
Qed.

Lemma GL : forall l,
  Forall (fun e => match snd e with PSub t => S_stmt t | PLeaf _ => True end) l ->
  forall cfg, simple cfg -> forall m n st memo acc st1 memo1 acc1,
    tm_go (to_mod cfg) cfg m (m_custom n) (m_subs n) true l st memo acc = (st1, memo1, acc1, None) ->
    hg st m = Some n -> z_get memo m <> None -> NoDup (map fst l) -> keys_nodupL l ->
    exists swl, acc1 = acc ++ swl /\ map fst swl = map fst l
      /\ loop1_facts m n l st memo st1 memo1
      /\ (wf_heap (t_heap st) -> scopeL (t_heap st) l -> loop2_facts cfg m n l swl st memo st1 memo1).
Proof.
  induction l as [|e r IH]; [|destruct e as [k pe]; destruct pe as [o|t']; [destruct o as [x|]|]];
    intros HF cfg Hs m n st memo acc st1 memo1 acc1 Hgo Hn Hm Hnd Hkn;
    assert (Hs' := Hs); unfold simple in Hs'; destruct Hs' as (Husd & Hinp & Hrs).
  - (* nil *)
    rewrite tm_go_nil in Hgo. inversion Hgo; subst st1 memo1 acc1. exists []. rewrite app_nil_r.
    split; [reflexivity|]. split; [reflexivity|]. split.
    + unfold loop1_facts. repeat split; auto.
      * exists n. repeat split; auto.
      * apply struct_same_refl.
      * apply mono_heap_refl.
    + intros _ _ stX memoX accX nX n1 Hn1 Hde HX2 HnX HcX HsX HXm Hss.
      exists stX, memoX, [], nX. rewrite tm_go_nil, app_nil_r.
      split; [reflexivity|]. split; [exact Hde|].
      split. { intros c (A & B). congruence. }
      split; [auto|]. split; [exact HnX|]. split; [exact HcX|]. split; [exact HsX|].
      split. { intros k []. }
      split; [auto|]. split; reflexivity.
  - (* leaf *)
    rewrite tm_go_leaf, Husd in Hgo. cbn [andb] in Hgo.
    destruct (leaf_step cfg m k x st) as [st' [out|e]] eqn:El; [|discriminate].
    destruct (leaf_step_heap cfg m k x st n st' (inl out) Hs Hn El)
      as (n' & L1 & L2 & L3 & L4 & L5 & L6 & L7 & L8 & L9 & L10 & L11 & L12).
    unfold push in Hgo. rewrite Hrs in Hgo. rewrite <- L5, <- L6 in Hgo.
    inversion Hnd as [|? ? Hk Hnd']; subst. cbn in Hkn.
    destruct (IH (Forall_inv_tail HF) cfg Hs m n' st' memo _ st1 memo1 acc1 Hgo L3 Hm Hnd' Hkn)
      as (swl & Hacc & Hkeys & Hl1 & Hl2).
    exists ((k, PLeaf out) :: swl). split; [rewrite Hacc, <- app_assoc; reflexivity|].
    split; [cbn; now rewrite Hkeys|].
    destruct Hl1 as (A1 & A2 & A3 & A4 & (n1 & A5 & A6 & A7 & A8) & A9 & A10 & A11).
    split.
    + unfold loop1_facts. repeat split; try congruence; auto.
      * intros c Hc Ht. rewrite (A4 c Hc Ht). now apply L4.
      * exists n1. repeat split; try congruence. intros k' Hk'. cbn in Hk'.
        rewrite A8 by tauto. apply L9. intros ->. tauto.
      * eapply struct_same_trans; eauto.
      * eapply mono_heap_trans; eauto.
    + intros Hwf Hsc stX memoX accX nX n1' Hn1' Hde HX2 HnX HcX HsX HXm Hss.
      assert (n1' = n1) by congruence. subst n1'.
      assert (Hok : ok3 (m_custom n) (slot3 n k) x).
      { apply (Hsc k x (or_introl (conj eq_refl eq_refl)) m n Hn). }
      destruct (leaf3_out _ _ _ _ _ Hok (eq_sym L8)) as (o & ->).
      assert (Hrest : leaf3 (m_custom n) (d_mem (m_subs n) k) (slot3 n' k) o = (slot3 n k, inl (Some x))).
      { apply leaf3_restore; [apply (Hwf m n Hn k)|exact Hok|].
        rewrite L7, L8. now destruct (leaf3 (m_custom n) (d_mem (m_subs n) k) (slot3 n k) x). }
      destruct (leaf_step cfg m k o stX) as [stX' rX] eqn:ElX.
      destruct (leaf_step_heap cfg m k o stX nX stX' rX Hs HnX ElX)
        as (nX' & M1 & M2 & M3 & M4 & M5 & M6 & M7 & M8 & M9 & M10 & M11 & M12).
      assert (HkX : slot3 nX k = slot3 n' k).
      { rewrite (HXm k) by (cbn; auto). apply A8. exact Hk. }
      rewrite HcX, HsX, HkX, Hrest in M7, M8. cbn in M7, M8. subst rX.
      assert (Hm' : forall c, touched memo memo1 c -> c <> m).
      { intros c (T1 & T2) ->. congruence. }
      destruct (Hl2 (L11 Hwf) (scopeL_mono _ _ _ (scopeL_tail _ _ _ Hsc) L12)
                    stX' memoX (accX ++ [(k, PLeaf (Some x))]) nX' n1 A5 Hde) as (stY & memoY & swl' & nY & Hres).
      { intros c Ht. rewrite (M4 c (Hm' c Ht)). now apply HX2. }
      { exact M3. }
      { congruence. }
      { congruence. }
      { intros k' Hk'. rewrite M9 by (intros ->; tauto). apply HXm. cbn; auto. }
      { eapply struct_same_trans; [apply struct_same_sym; exact L10|].
        eapply struct_same_trans; [exact Hss|exact M10]. }
      destruct Hres as (R1 & R2 & R3 & R4 & R5 & R6 & R7 & R8 & R9 & R10 & R11).
      exists stY, memoY, ((k, PLeaf (Some x)) :: swl'), nY.
      split.
      { rewrite tm_go_leaf, Husd. cbn [andb]. rewrite ElX. unfold push. rewrite Hrs.
        rewrite <- L5, <- L6. rewrite R1, <- app_assoc. reflexivity. }
      split; [exact R2|].
      split. { intros c Ht. rewrite <- (L4 c (Hm' c Ht)). now apply R3. }
      split. { intros c Hc Ht. rewrite (R4 c Hc Ht). now apply M4. }
      split; [exact R5|]. split; [congruence|]. split; [congruence|].
      split.
      { intros k' Hk'; cbn in Hk'; destruct Hk' as [<-|Hk'].
        - rewrite R9 by exact Hk. exact M7.
        - rewrite (R8 k' Hk'). apply L9. intros ->. tauto. }
      split.
      { intros k' Hk'. cbn in Hk'. rewrite R9 by tauto. apply M9. intros ->. tauto. }
      split; congruence.
  - (* a None leaf: not reachable on a successful plain pass *)
    rewrite tm_go_none, Husd in Hgo. destruct (m_custom n); [discriminate|]. destruct (d_mem (m_subs n) k); discriminate.
  - (* sub-tensordict *)
    rewrite tm_go_sub, Husd in Hgo. cbn [andb] in Hgo.
    destruct (d_get (m_subs n) k) as [[child|]|] eqn:Ed; try discriminate.
    inversion Hnd as [|? ? Hk Hnd']; subst. cbn in Hkn. destruct Hkn as (Hkt & Hkn).
    assert (Hm' : forall (mm mm1 : memo_t) c, z_get mm m <> None -> touched mm mm1 c -> c <> m).
    { intros mm mm1 c Hmm (T1 & T2) ->. congruence. }
    destruct (z_get memo child) as [swc|] eqn:Emc.
    + (* memo hit *)
      unfold push in Hgo. rewrite Hrs in Hgo.
      destruct (IH (Forall_inv_tail HF) cfg Hs m n st memo _ st1 memo1 acc1 Hgo Hn Hm Hnd' Hkn)
        as (swl & Hacc & Hkeys & Hl1 & Hl2).
      exists ((k, PSub swc) :: swl). split; [rewrite Hacc, <- app_assoc; reflexivity|].
      split; [cbn; now rewrite Hkeys|].
      pose proof Hl1 as (A1 & A2 & A3 & A4 & (n1 & A5 & A6 & A7 & A8) & A9 & A10 & A11).
      split.
      * unfold loop1_facts. repeat split; auto.
        exists n1. repeat split; auto. intros k' Hk'. apply A8. cbn in Hk'. tauto.
      * intros Hwf Hsc stX memoX accX nX n1' Hn1' Hde HX2 HnX HcX HsX HXm Hss.
        assert (n1' = n1) by congruence. subst n1'.
        destruct (Hl2 Hwf (scopeL_tail _ _ _ Hsc) stX memoX (accX ++ [(k, PSub
           (match z_get memoX child with Some s => s | None => PTD [] end))]) nX n1 A5 Hde HX2 HnX HcX HsX)
          as (stY & memoY & swl' & nY & R1 & R2 & R3 & R4 & R5 & R6 & R7 & R8 & R9 & R10 & R11).
        { intros k' Hk'. apply HXm. cbn; auto. }
        { exact Hss. }
        exists stY, memoY, ((k, PSub (match z_get memoX child with Some s => s | None => PTD [] end)) :: swl'), nY.
        split.
        { rewrite tm_go_sub, Husd. cbn [andb]. rewrite Ed.
          destruct (z_get memoX child) as [sX|] eqn:EX.
          - unfold push. rewrite Hrs, R1, <- app_assoc. reflexivity.
          - apply Hde in EX. congruence. }
        split; [exact R2|]. split; [exact R3|]. split; [exact R4|]. split; [exact R5|].
        split; [exact R6|]. split; [exact R7|].
        split.
        { intros k' Hk'; cbn in Hk'; destruct Hk' as [<-|Hk']; [|now apply R8].
          rewrite R9 by exact Hk. rewrite (HXm k) by (cbn; auto). now apply A8. }
        split.
        { intros k' Hk'. cbn in Hk'. apply R9. tauto. }
        split; assumption.
    + (* first visit of the child: recursive call *)
      destruct (to_mod cfg t' child st memo) as [st' memo' s|] eqn:Et; [|discriminate].
      unfold push in Hgo. rewrite Hrs in Hgo.
      pose proof (Forall_inv HF) as HS. cbn in HS.
      destruct (HS cfg Hs child st memo st' memo' s Et Emc Hkt) as (P1 & P2).
      destruct P1 as (B1 & B2 & B3 & B4 & B5 & B6 & B7 & B8).
      assert (Hn' : hg st' m = Some n).
      { rewrite B5; [exact Hn|]. intros (T1 & T2). congruence. }
      assert (Hm1 : z_get memo' m <> None) by (apply B3; exact Hm).
      destruct (IH (Forall_inv_tail HF) cfg Hs m n st' memo' _ st1 memo1 acc1 Hgo Hn' Hm1 Hnd' Hkn)
        as (swl & Hacc & Hkeys & Hl1 & Hl2).
      exists ((k, PSub s) :: swl). split; [rewrite Hacc, <- app_assoc; reflexivity|].
      split; [cbn; now rewrite Hkeys|].
      pose proof Hl1 as (A1 & A2 & A3 & A4 & (n1 & A5 & A6 & A7 & A8) & A9 & A10 & A11).
      assert (Hsplit : forall c, ~ touched memo memo1 c -> ~ touched memo memo' c /\ ~ touched memo' memo1 c).
      { intros c Hnt. split; intros (T1 & T2); apply Hnt; split; auto.
        - destruct (z_get memo c) eqn:E; [|reflexivity]. exfalso.
          assert (H : z_get memo c <> None) by congruence. specialize (B3 c H). congruence. }
      split.
      * unfold loop1_facts. repeat split; try congruence; auto.
        -- intros c Hc Hnt. destruct (Hsplit c Hnt) as (N1 & N2). rewrite (A4 c Hc N2). now apply B5.
        -- exists n1. repeat split; auto. intros k' Hk'. apply A8. cbn in Hk'. tauto.
        -- eapply struct_same_trans; eauto.
        -- eapply mono_heap_trans; eauto.
      * intros Hwf Hsc stX memoX accX nX n1' Hn1' Hde HX2 HnX HcX HsX HXm Hss.
        assert (n1' = n1) by congruence. subst n1'.
        assert (Hsct : scope (t_heap st) t').
        { destruct t' as [e']. unfold scope. cbn [p_ents]. intros k0 x0 Hl0. apply Hsc.
          change (leaf_of (PTD e') k0 x0 \/ leaf_ofL r k0 x0). left. rewrite leaf_of_PTD. exact Hl0. }
        destruct (P2 Hwf Hsct stX memoX Hde) as (stX' & memoX' & s' & Q1 & Q2 & Q3 & Q4 & Q5 & Q6).
        { intros c Ht. destruct Ht as (T1 & T2).
          assert (Htt : touched memo memo1 c) by (split; auto).
          eapply osloteq_trans; [apply HX2; exact Htt|].
          assert (Hcm : c <> m) by (eapply Hm'; [exact Hm|exact Htt]).
          rewrite (A4 c Hcm); [apply osloteq_refl|]. intros (U1 & U2). congruence. }
        { exact Hss. }
        assert (HnX' : hg stX' m = Some nX).
        { rewrite Q4; [exact HnX|]. intros (T1 & T2). congruence. }
        assert (Hss' : struct_same (t_heap st') (t_heap stX')).
        { eapply struct_same_trans; [apply struct_same_sym; exact B6|].
          eapply (struct_from st stX stX' (touched memo memo')); eauto using touched_dec. }
        destruct (Hl2 (B7 Hwf) (scopeL_mono _ _ _ (scopeL_tail _ _ _ Hsc) B8)
                      stX' memoX' (accX ++ [(k, PSub s')]) nX n1 A5 Q2) as (stY & memoY & swl' & nY & Hres).
        { intros c (T1 & T2).
          assert (Hnt : ~ touched memo memo' c) by (intros (U1 & U2); congruence).
          rewrite (Q4 c Hnt). apply HX2. split; auto.
          destruct (z_get memo c) eqn:E; [|reflexivity]. exfalso.
          assert (z_get memo c <> None) by congruence. specialize (B3 c H). congruence. }
        { exact HnX'. }
        { exact HcX. }
        { exact HsX. }
        { intros k' Hk'. apply HXm. cbn; auto. }
        { exact Hss'. }
        destruct Hres as (R1 & R2 & R3 & R4 & R5 & R6 & R7 & R8 & R9 & R10 & R11).
        exists stY, memoY, ((k, PSub s') :: swl'), nY.
        split.
        { rewrite tm_go_sub, Husd. cbn [andb]. rewrite Ed.
          assert (EX : z_get memoX child = None) by (apply Hde; exact Emc).
          rewrite EX, Q1. unfold push. rewrite Hrs, R1, <- app_assoc. reflexivity. }
        split; [exact R2|].
        split.
        { intros c Ht. destruct (touched_dec memo memo' c) as [Ht'|Hnt'].
          - assert (Hcm : c <> m) by (eapply Hm'; [exact Hm|exact Ht]).
            rewrite (R4 c Hcm); [now apply Q3|]. intros (U1 & U2). destruct Ht' as (V1 & V2). congruence.
          - destruct Ht as (T1 & T2).
            assert (E' : z_get memo' c = None).
            { destruct (z_get memo' c) eqn:E; [|reflexivity]. exfalso. apply Hnt'. split; congruence. }
            rewrite <- (B5 c Hnt'). apply R3. split; auto. }
        split.
        { intros c Hc Hnt. destruct (Hsplit c Hnt) as (N1 & N2). rewrite (R4 c Hc N2). now apply Q4. }
        split; [exact R5|]. split; [exact R6|]. split; [exact R7|].
        split.
        { intros k' Hk'; cbn in Hk'; destruct Hk' as [<-|Hk']; [|now apply R8].
          rewrite R9 by exact Hk. rewrite (HXm k) by (cbn; auto). now apply A8. }
        split.
        { intros k' Hk'. cbn in Hk'. apply R9. tauto. }
        split; congruence.
Qed.

Theorem S_all : forall t, S_stmt t.
Proof.
  induction t as [ents HF] using ptd_ind2.
  intros cfg Hs m st memo st1 memo1 sw Htm Hm Hkn.
  rewrite to_mod_simple in Htm by exact Hs.
  destruct (h_get (t_heap st) m) as [n0|] eqn:En; [|discriminate].
  destruct (tm_go (to_mod cfg) cfg m (m_custom n0) (m_subs n0) true ents st (z_set memo m (PTD [])) [])
    as [[[st2 memo2] acc2] [e|]] eqn:Eg; [discriminate|].
  inversion Htm; subst st1 memo1 sw. clear Htm.
  rewrite keys_nodup_PTD in Hkn. destruct Hkn as (Hnd & Hkn).
  assert (Hm0 : z_get (z_set memo m (PTD [])) m <> None) by (rewrite z_get_set_same; discriminate).
  destruct (GL ents HF cfg Hs m n0 st (z_set memo m (PTD [])) [] st2 memo2 acc2 Eg En Hm0 Hnd Hkn)
    as (swl & Hacc & Hkeys & Hl1 & Hl2).
  cbn in Hacc. subst acc2.
  destruct Hl1 as (A1 & A2 & A3 & A4 & (n1 & A5 & A6 & A7 & A8) & A9 & A10 & A11).
  assert (Htm : touched memo (z_set memo2 m (PTD swl)) m).
  { split; [rewrite z_get_set_same; discriminate|exact Hm]. }
  assert (Htr : forall c, c <> m -> (touched memo (z_set memo2 m (PTD swl)) c <-> touched (z_set memo m (PTD [])) memo2 c)).
  { intros c Hc. unfold touched. rewrite !z_get_set_other by exact Hc. tauto. }
  split; [|intros Hwf Hsc].
  - unfold pass1_facts. repeat split; auto.
    + intros c Hc. rewrite z_get_set_cases. destruct (Z.eqb c m) eqn:E; [discriminate|].
      apply Z.eqb_neq in E. apply A3. now rewrite z_get_set_other.
    + rewrite z_get_set_same. discriminate.
    + intros c Hnt. assert (Hc : c <> m) by (intros ->; tauto).
      apply A4; [exact Hc|]. intros Ht. apply Hnt. now apply Htr.
  - intros stX memoX Hde HX2 Hss.
    rewrite to_mod_simple by exact Hs.
    pose proof (Hss m) as Hsm. unfold hg in *. rewrite En in Hsm.
    destruct (h_get (t_heap stX) m) as [nX|] eqn:EnX; [|tauto]. destruct Hsm as (HcX & HsX).
    pose proof (HX2 m Htm) as Hom. rewrite EnX, A5 in Hom. cbn in Hom. destruct Hom as (O1 & O2 & O3).
    destruct (Hl2 Hwf Hsc stX (z_set memoX m (PTD [])) [] nX n1 A5) as (stY & memoY & swl' & nY & Hres).
    { now apply dom_eq_set. }
    { intros c Ht. assert (Hc : c <> m). { intros ->. destruct Ht as (T1 & T2). congruence. }
      apply HX2. now apply Htr. }
    { exact EnX. }
    { congruence. }
    { congruence. }
    { intros k _. apply O3. }
    { exact Hss. }
    destruct Hres as (R1 & R2 & R3 & R4 & R5 & R6 & R7 & R8 & R9 & R10 & R11). unfold hg in *.
    rewrite <- HcX, <- HsX, R1. cbn [app].
    exists stY, (z_set memoY m (PTD swl')), (PTD swl').
    split; [reflexivity|]. split; [now apply dom_eq_set|].
    split.
    { intros c Ht. destruct (Z.eq_dec c m) as [->|Hc].
      - rewrite R5, En. cbn. split; [congruence|]. split; [congruence|].
        intros k. destruct (in_dec string_dec k (map fst ents)) as [Hi|Hni].
        + now apply R8.
        + rewrite (R9 k Hni), O3. now apply A8.
      - apply R3. now apply Htr. }
    split.
    { intros c Hnt. assert (Hc : c <> m) by (intros ->; tauto).
      apply R4; [exact Hc|]. intros Ht. apply Hnt. now apply Htr. }
    split; assumption.
Qed.

Lemma d_get_notin {V} (d : list (string * V)) k : ~ In k (map fst d) -> d_get d k = None.
Proof.
  induction d as [|[k' v] r IH]; cbn; [reflexivity|]. intros H.
  destruct (String.eqb k k') eqn:E; [apply String.eqb_eq in E; subst; tauto|]. apply IH. tauto.
Qed.

(* ------------------------------------------------------------------ swap_dest: _quick_set into an empty tensordict *)
Definition qs_go := fix go (l : list (string * pent)) (dest : ptd) : qres :=
  match l with
  | [] => QOk dest
  | (key, PSub s') :: r =>
      match p_get dest key with
      | None => QErr EKeyError
      | Some (PLeaf _) => QErr EOther
      | Some (PSub d') =>
          match quick_set s' d' with
          | QErr e => QErr e
          | QOk d'' => go r (p_set dest key (PSub d''))
          end
      end
  | (key, PLeaf o) :: r =>
      if pent_is (p_get dest key) o then go r dest else go r (p_set dest key (PLeaf o))
  end.
Lemma quick_set_PTD l dest : quick_set (PTD l) dest = qs_go l dest.
Proof. reflexivity. Qed.

Lemma d_set_fresh {V} (d : list (string * V)) k v : ~ In k (map fst d) -> d_set d k v = d ++ [(k, v)].
Proof.
  induction d as [|[k' v'] r IH]; cbn; [reflexivity|]. intros H.
  destruct (String.eqb k k') eqn:E; [apply String.eqb_eq in E; subst; tauto|]. rewrite IH by tauto. reflexivity.
Qed.

Lemma qs_go_fresh : forall l acc sw,
  qs_go l (PTD acc) = QOk sw -> NoDup (map fst l) -> (forall k, In k (map fst l) -> ~ In k (map fst acc)) ->
  sw = PTD (acc ++ l) /\ Forall (fun e => is_leaf_ent e = true) l.
Proof.
  induction l as [|[k [o|t']] r IH]; intros acc sw H Hnd Hdis.
  - cbn in H. inversion H. rewrite app_nil_r. split; [reflexivity|constructor].
  - cbn [qs_go] in H. unfold p_get in H. cbn [p_ents] in H.
    rewrite (d_get_notin acc k) in H by (apply Hdis; cbn; auto). cbn [pent_is] in H.
    unfold p_set in H. cbn [p_ents] in H. rewrite d_set_fresh in H by (apply Hdis; cbn; auto).
    inversion Hnd as [|? ? Hk Hnd']; subst.
    destruct (IH _ _ H Hnd') as (E & F).
    { intros k' Hk' Hin. rewrite map_app, in_app_iff in Hin. cbn in Hin. destruct Hin as [Hin|[<-|[]]]; [|tauto].
      apply (Hdis k'); [cbn; auto|exact Hin]. }
    split; [rewrite E, <- app_assoc; reflexivity|constructor; [reflexivity|exact F]].
  - cbn [qs_go] in H. unfold p_get in H. cbn [p_ents] in H.
    rewrite (d_get_notin acc k) in H by (apply Hdis; cbn; auto). discriminate.
Qed.

(* filling an empty swap_dest: succeeds only for a flat swap, and the destination then holds exactly the swap *)
Lemma quick_set_empty l sw :
  quick_set (PTD l) (PTD []) = QOk sw -> NoDup (map fst l) -> sw = PTD l /\ Forall (fun e => is_leaf_ent e = true) l.
Proof.
  rewrite quick_set_PTD. intros H Hnd. destruct (qs_go_fresh l [] sw H Hnd) as (E & F); [intros k _ []|]. split; [exact E|exact F].
Qed.

Lemma quick_set_empty_nested k t r l : l = (k, PSub t) :: r -> quick_set (PTD l) (PTD []) = QErr EKeyError.
Proof. intros ->. reflexivity. Qed.

Lemma S_forall ents : Forall (fun e : string * pent => match snd e with PSub t => S_stmt t | PLeaf _ => True end) ents.
Proof. apply Forall_forall. intros [k [o|t]] _; cbn; [exact I|apply S_all]. Qed.

(* the swap returned by a plain pass has the keys of the tensordict, in the same order *)
Lemma to_mod_keys cfg ents m st memo st1 memo1 sw :
  simple cfg -> to_mod cfg (PTD ents) m st memo = TmOk st1 memo1 sw -> keys_nodup (PTD ents) ->
  exists swl, sw = PTD swl /\ map fst swl = map fst ents.
Proof.
  intros Hs Htm Hkn. rewrite to_mod_simple in Htm by exact Hs.
  destruct (h_get (t_heap st) m) as [n0|] eqn:En; [|discriminate].
  destruct (tm_go (to_mod cfg) cfg m (m_custom n0) (m_subs n0) true ents st (z_set memo m (PTD [])) [])
    as [[[st2 memo2] acc2] [e|]] eqn:Eg; [discriminate|].
  inversion Htm; subst. rewrite keys_nodup_PTD in Hkn. destruct Hkn as (Hnd & Hkn).
  assert (Hm0 : z_get (z_set memo m (PTD [])) m <> None) by (rewrite z_get_set_same; discriminate).
  destruct (GL ents (S_forall ents) cfg Hs m n0 st (z_set memo m (PTD [])) [] st1 _ acc2 Eg En Hm0 Hnd Hkn)
    as (swl & Hacc & Hkeys & _).
  exists swl. split; [now rewrite Hacc|exact Hkeys].
Qed.

(* ------------------------------------------------------------------ one block, then programs *)
Definition all_sloteq (st' st : tstate) : Prop := forall c, osloteq (hg st' c) (hg st c).

Definition block_ok (h : heap) (b : block) : Prop :=
  b_usd b = false /\ (b_inplace b = None \/ b_inplace b = Some false) /\ b_manual b = false
  /\ keys_nodup (b_params b) /\ scope h (b_params b).

Lemma block_ok_simple h b : block_ok h b -> simple (cfg_of b true).
Proof. intros (H1 & H2 & _). unfold simple, cfg_of. cbn. auto. Qed.

Lemma block_ok_mono h h1 b : block_ok h b -> mono_heap h h1 -> block_ok h1 b.
Proof.
  intros (H1 & H2 & H4 & H5 & H6) Hm. repeat split; auto. unfold scope in *. eapply scopeL_mono; eauto.
Qed.

Lemma all_sloteq_refl st : all_sloteq st st.
Proof. intros c. apply osloteq_refl. Qed.

Lemma all_sloteq_struct st1 st2 : all_sloteq st2 st1 -> struct_same (t_heap st1) (t_heap st2).
Proof.
  intros H c. specialize (H c). unfold hg in H.
  destruct (h_get (t_heap st2) c), (h_get (t_heap st1) c); cbn in H; try tauto. destruct H as (A & B & _). split; congruence.
Qed.

Lemma enter_facts b st st1 memo1 swap :
  block_ok (t_heap st) b ->
  to_module (cfg_of b true) (b_params b) (b_target b) st = TmOk st1 memo1 swap ->
  pass1_facts (b_target b) st [] st1 memo1
  /\ (wf_heap (t_heap st) -> pass2_facts (cfg_of b true) (b_target b) st [] st1 memo1 swap).
Proof.
  intros Hb Ht. pose proof Hb as (H1 & H2 & H4 & H5 & H6).
  destruct (S_all (b_params b) (cfg_of b true) (block_ok_simple _ _ Hb) (b_target b) (clear_saved st) [] st1 memo1 swap Ht eq_refl H5)
    as (P1 & P2).
  split; [exact P1|]. intros Hwf. exact (P2 Hwf H6).
Qed.

(* a user-supplied (empty) swap_dest is filled by _quick_set when to_module returns: either it raises (a nested entry:
   KeyError, the block is not entered) or it holds exactly the swap, under the same keys *)
Lemma sd_enter b st st1 memo1 swap0 :
  block_ok (t_heap st) b ->
  to_module (cfg_of b true) (b_params b) (b_target b) st = TmOk st1 memo1 swap0 ->
  (if b_swap_dest b then quick_set swap0 (PTD []) else QOk swap0) = QOk swap0
  \/ exists e, (if b_swap_dest b then quick_set swap0 (PTD []) else QOk swap0) = QErr e.
Proof.
  intros Hb Ht. destruct (b_swap_dest b); [|left; reflexivity].
  destruct (quick_set swap0 (PTD [])) as [d|e] eqn:Eq; [left|right; eauto].
  pose proof Hb as (H1 & H2 & H4 & H5 & H6). unfold to_module in Ht.
  destruct (b_params b) as [ents] eqn:Ep.
  destruct (to_mod_keys _ _ _ _ _ _ _ _ (block_ok_simple _ _ Hb) Ht H5) as (swl & -> & Hk).
  rewrite keys_nodup_PTD in H5. destruct H5 as (Hnd & _). rewrite <- Hk in Hnd.
  destruct (quick_set_empty swl d Eq Hnd) as (-> & _). reflexivity.
Qed.

Lemma block_restore b st st1 memo1 swap st2 :
  block_ok (t_heap st) b -> wf_heap (t_heap st) ->
  to_module (cfg_of b true) (b_params b) (b_target b) st = TmOk st1 memo1 swap ->
  all_sloteq st2 st1 ->
  exists st3 r, reverse_to_module b swap st2 = (st3, r) /\ all_sloteq st3 st /\ t_vals st3 = t_vals st2.
Proof.
  intros Hb Hwf Ht H21. destruct (enter_facts b st st1 memo1 swap Hb Ht) as (P1 & P2).
  destruct P1 as (B1 & B2 & B3 & B4 & B5 & B6 & B7 & B8).
  destruct (P2 Hwf (clear_saved st2) []) as (stY & memoY & sw' & Q1 & Q2 & Q3 & Q4 & Q5 & Q6).
  { intros c. tauto. }
  { intros c _. apply H21. }
  { eapply struct_same_trans; [exact B6|]. exact (all_sloteq_struct st1 st2 H21). }
  unfold reverse_to_module, fixed_D133. rewrite andb_false_r.
  unfold to_module. rewrite Q1.
  assert (Hall : all_sloteq stY st).
  { intros c. destruct (touched_dec [] memo1 c) as [Ht'|Hnt].
    - now apply Q3.
    - rewrite (Q4 c Hnt). eapply osloteq_trans; [apply H21|]. rewrite (B5 c Hnt). apply osloteq_refl. }
  destruct (b_live b); [destruct (quick_set sw' (b_params b))|]; eexists _, _; (split; [reflexivity|split; [exact Hall|exact Q5]]).
Qed.

Definition enters_ok (evs : list event) : Prop := Forall (fun e => ev_kind e = EvEnter -> ev_out e = OOk) evs.

Lemma enters_ok_inner e evs e' : enters_ok (e :: evs ++ [e']) -> enters_ok evs.
Proof.
  intros H. inversion H as [|? ? _ H']; subst. apply Forall_app in H'. tauto.
Qed.

(* under the repaired __exit__ (inverse also run when the body raised): every program restores every slot, whatever is
   raised and wherever *)
Theorem restore_fixed : forall x bs lvl st st' evs oc,
  run_blocks_gen true x bs lvl st = (st', evs, oc) ->
  Forall (block_ok (t_heap st)) bs -> wf_heap (t_heap st) -> enters_ok evs ->
  all_sloteq st' st /\ t_vals st' = t_vals st.
Proof.
  intros x bs. induction bs as [|b rest IH]; intros lvl st st' evs oc Hrun Hok Hwf Hen.
  - cbn in Hrun. inversion Hrun; subst. split; [apply all_sloteq_refl|reflexivity].
  - cbn [run_blocks_gen] in Hrun.
    pose proof (Forall_inv Hok) as Hb. pose proof (Forall_inv_tail Hok) as Hrest.
    destruct (to_module (cfg_of b true) (b_params b) (b_target b) st) as [st1 memo1 swap0|st1 e] eqn:Et.
    2:{ inversion Hrun; subst. inversion Hen as [|? ? He _]; subst. cbn in He. specialize (He eq_refl). discriminate. }
    destruct (sd_enter b st st1 memo1 swap0 Hb Et) as [Hq|(eq & Hq)]; rewrite Hq in Hrun.
    2:{ inversion Hrun; subst. inversion Hen as [|? ? He _]; subst. cbn in He. specialize (He eq_refl). discriminate. }
    pose proof Hb as (_ & _ & Hman & _). rewrite Hman in Hrun.
    destruct (run_blocks_gen true x rest (S lvl) st1) as [[st2 evs_i] oc_i] eqn:Er.
    destruct (enter_facts b st st1 memo1 swap0 Hb Et) as (P1 & _).
    destruct P1 as (B1 & B2 & B3 & B4 & B5 & B6 & B7 & B8).
    destruct (exit_block_gen true b swap0 (match oc_i with OOk => body_raise x lvl | ORaise _ => oc_i end) st2)
      as [st3 oc'] eqn:Ex.
    inversion Hrun; subst st' evs oc. clear Hrun.
    destruct (IH (S lvl) st1 st2 evs_i oc_i Er) as (I1 & I2).
    { eapply Forall_impl; [|exact Hrest]. intros b' Hb'. eapply block_ok_mono; eauto. }
    { now apply B7. }
    { eapply enters_ok_inner; exact Hen. }
    destruct (block_restore b st st1 memo1 swap0 st2 Hb Hwf Et I1) as (st3' & r & Hr & Hall & Hv).
    assert (st3 = st3').
    { unfold exit_block_gen in Ex.
      destruct (match oc_i with OOk => body_raise x lvl | ORaise _ => oc_i end) as [|e].
      - rewrite Hr in Ex. now inversion Ex.
      - rewrite Hr in Ex. destruct (is_Exception e); now inversion Ex. }
    subst st3'. split; [exact Hall|congruence].
Qed.

(* the code as it is (and any setting of the switch): a program in which nothing is raised restores every slot *)
Theorem restore_normal : forall fixed x bs lvl st st' evs oc,
  run_blocks_gen fixed x bs lvl st = (st', evs, oc) ->
  x_kind x = XNone -> Forall (fun e => ev_out e = OOk) evs ->
  Forall (block_ok (t_heap st)) bs -> wf_heap (t_heap st) ->
  all_sloteq st' st /\ t_vals st' = t_vals st /\ oc = OOk.
Proof.
  intros fixed x bs. induction bs as [|b rest IH]; intros lvl st st' evs oc Hrun Hx Hev Hok Hwf.
  - cbn in Hrun. inversion Hrun; subst. split; [apply all_sloteq_refl|split; reflexivity].
  - cbn [run_blocks_gen] in Hrun.
    pose proof (Forall_inv Hok) as Hb. pose proof (Forall_inv_tail Hok) as Hrest.
    destruct (to_module (cfg_of b true) (b_params b) (b_target b) st) as [st1 memo1 swap0|st1 e] eqn:Et.
    2:{ inversion Hrun; subst. inversion Hev as [|? ? He _]; subst. cbn in He. discriminate. }
    destruct (sd_enter b st st1 memo1 swap0 Hb Et) as [Hq|(eq & Hq)]; rewrite Hq in Hrun.
    2:{ inversion Hrun; subst. inversion Hev as [|? ? He _]; subst. cbn in He. discriminate. }
    pose proof Hb as (_ & _ & Hman & _). rewrite Hman in Hrun.
    destruct (run_blocks_gen fixed x rest (S lvl) st1) as [[st2 evs_i] oc_i] eqn:Er.
    destruct (enter_facts b st st1 memo1 swap0 Hb Et) as (P1 & _).
    destruct P1 as (B1 & B2 & B3 & B4 & B5 & B6 & B7 & B8).
    destruct (exit_block_gen fixed b swap0 (match oc_i with OOk => body_raise x lvl | ORaise _ => oc_i end) st2)
      as [st3 oc'] eqn:Ex.
    inversion Hrun; subst st' evs oc. clear Hrun.
    inversion Hev as [|? ? _ Hev']; subst. apply Forall_app in Hev'. destruct Hev' as (Hev_i & Hev_x).
    destruct (IH (S lvl) st1 st2 evs_i oc_i Er Hx Hev_i) as (I1 & I2 & I3).
    { eapply Forall_impl; [|exact Hrest]. intros b' Hb'. eapply block_ok_mono; eauto. }
    { now apply B7. }
    subst oc_i. unfold body_raise in Ex. rewrite Hx in Ex. cbn in Ex.
    destruct (block_restore b st st1 memo1 swap0 st2 Hb Hwf Et I1) as (st3' & r & Hr & Hall & Hv).
    rewrite Hr in Ex. inversion Ex; subst st3' r.
    inversion Hev_x as [|? ? Ho _]; subst. cbn in Ho.
    split; [exact Hall|]. split; [congruence|exact Ho].
Qed.

(* a BaseException (KeyboardInterrupt ...) raised in the body of a single block: the current __exit__ does invert *)
Theorem restore_base_single : forall b st st' evs oc,
  run_blocks_gen false (mkExc XBase 0 true) [b] 0 st = (st', evs, oc) ->
  block_ok (t_heap st) b -> wf_heap (t_heap st) -> enters_ok evs ->
  all_sloteq st' st /\ t_vals st' = t_vals st.
Proof.
  intros b st st' evs oc Hrun Hb Hwf Hen. cbn [run_blocks_gen] in Hrun.
  destruct (to_module (cfg_of b true) (b_params b) (b_target b) st) as [st1 memo1 swap0|st1 e] eqn:Et.
  2:{ inversion Hrun; subst. inversion Hen as [|? ? He _]; subst. cbn in He. specialize (He eq_refl). discriminate. }
  destruct (sd_enter b st st1 memo1 swap0 Hb Et) as [Hq|(eq & Hq)]; rewrite Hq in Hrun.
  2:{ inversion Hrun; subst. inversion Hen as [|? ? He _]; subst. cbn in He. specialize (He eq_refl). discriminate. }
  pose proof Hb as (_ & _ & Hman & _). rewrite Hman in Hrun.
  destruct (enter_facts b st st1 memo1 swap0 Hb Et) as (P1 & _).
  destruct P1 as (B1 & B2 & B3 & B4 & B5 & B6 & B7 & B8).
  destruct (block_restore b st st1 memo1 swap0 st1 Hb Hwf Et (all_sloteq_refl st1)) as (st3' & r & Hr & Hall & Hv).
  cbn in Hrun. rewrite Hr in Hrun. inversion Hrun; subst. split; [exact Hall|congruence].
Qed.

(* ------------------------------------------------------------------ boolean twins of the hypotheses *)
Lemma wfcb_ok cu s : wfcb cu s = true -> wfc cu s.
Proof.
  unfold wfcb, wfc, wf3b, wf3, thd3. destruct s as [[p b] a]. destruct cu; cbn.
  - destruct a; congruence.
  - destruct p as [[o|]|]; destruct b as [[o2|]|]; destruct a as [o3|]; try congruence; auto;
      intros H; try (now apply negb_true_iff in H).
Qed.

Lemma z_get_In {V} (d : list (Z * V)) k v : z_get d k = Some v -> In (k, v) d.
Proof.
  induction d as [|[k' v'] r IH]; cbn; [discriminate|].
  destruct (Z.eqb k k') eqn:E; [apply Z.eqb_eq in E; subst; intros H; inversion H; auto|auto].
Qed.

Lemma wf_heapb_ok h : wf_heapb h = true -> wf_heap h.
Proof.
  intros H c n Hn k. unfold wf_heapb in H. rewrite forallb_forall in H.
  specialize (H (c, n) (z_get_In _ _ _ Hn)). cbn in H. unfold wf_nodeb in H. rewrite forallb_forall in H.
  destruct (in_dec string_dec k (node_keys n)) as [Hi|Hni].
  - apply wfcb_ok. now apply H.
  - unfold node_keys in Hni. rewrite !in_app_iff in Hni.
    unfold slot3. rewrite !d_get_notin by tauto. unfold wfc, thd3, wf3. destruct (m_custom n); cbn; auto.
Qed.

Lemma ok3b_ok cu s x : ok3b cu s x = true -> ok3 cu s x.
Proof.
  unfold ok3b, ok3, fst3, snd3. destruct s as [[p b] a]. destruct cu; cbn.
  - destruct p as [[o|]|]; destruct b as [[o2|]|]; cbn; intros H; try discriminate; split; congruence.
  - auto.
Qed.

Lemma leaf_of_leaves : forall t k x, leaf_of t k x -> In (k, x) (leaves t).
Proof.
  induction t as [ents HF] using ptd_ind2. intros k x. rewrite leaf_of_PTD.
  change (leaves (PTD ents)) with (leavesL ents).
  induction ents as [|[k' [o|t']] r IHr]; cbn; [tauto| |].
  - intros [[-> ->]|H]; [cbn; auto|]. specialize (IHr (Forall_inv_tail HF) H). destruct o; cbn; auto.
  - intros [H|H]; apply in_or_app; [left|right].
    + exact (Forall_inv HF k x H).
    + exact (IHr (Forall_inv_tail HF) H).
Qed.

Lemma scopeb_ok h t : scopeb h t = true -> scope h t.
Proof.
  intros H k x Hl c n Hn. unfold scopeb in H. rewrite forallb_forall in H.
  assert (Hl' : leaf_of t k x) by (destruct t; rewrite leaf_of_PTD; exact Hl).
  specialize (H (k, x) (leaf_of_leaves t k x Hl')). cbn in H. rewrite forallb_forall in H.
  apply ok3b_ok. exact (H (c, n) (z_get_In _ _ _ Hn)).
Qed.

Lemma nodupb_ok l : nodupb l = true -> NoDup l.
Proof.
  induction l as [|a r IH]; cbn; [constructor|]. intros H. apply andb_true_iff in H. destruct H as (H1 & H2).
  constructor; [|auto]. intros Hi. apply negb_true_iff in H1.
  assert (existsb (String.eqb a) r = true) by (apply existsb_exists; exists a; split; [exact Hi|apply String.eqb_refl]).
  congruence.
Qed.

Lemma keys_nodupb_ok : forall t, keys_nodupb t = true -> keys_nodup t.
Proof.
  induction t as [ents HF] using ptd_ind2. cbn [keys_nodupb]. intros H. apply andb_true_iff in H. destruct H as (H1 & H2).
  rewrite keys_nodup_PTD. split; [now apply nodupb_ok|].
  induction ents as [|[k' [o|t']] r IHr]; cbn; [exact I| |].
  - apply IHr; [exact (Forall_inv_tail HF)| |exact H2]. cbn in H1. apply andb_true_iff in H1. tauto.
  - cbn in H2. apply andb_true_iff in H2. destruct H2 as (H2 & H3). split.
    + exact (Forall_inv HF H2).
    + apply IHr; [exact (Forall_inv_tail HF)| |exact H3]. cbn in H1. apply andb_true_iff in H1. tauto.
Qed.

Lemma block_okb_ok h b : block_okb h b = true -> block_ok h b.
Proof.
  unfold block_okb, block_ok. rewrite !andb_true_iff. intros ((((H1 & H2) & H4) & H5) & H6).
  repeat split.
  - now apply negb_true_iff in H1.
  - destruct (b_inplace b) as [[|]|]; auto; discriminate.
  - now apply negb_true_iff in H4.
  - now apply keys_nodupb_ok.
  - now apply scopeb_ok.
Qed.

(* ------------------------------------------------------------------ concrete instances (non-vacuity, refutations) *)
Definition oP (i : Z) := mkObj i KParam i.
Definition oT (i : Z) := mkObj i KPlain i.

(* root 0: parameter w, buffer r, children a and b (one shared submodule 1), c (module 2, custom __setattr__, whose
   parameter w is the root's w: tied) *)
Definition ex_heap : heap :=
  [ (0%Z, mkNode false [("w", Some (oP 1))] [("r", Some (oT 2))] [] [("a", Some 1%Z); ("b", Some 1%Z); ("c", Some 2%Z)]);
    (1%Z, mkNode false [("w", Some (oP 3)); ("bias", None)] [] [] []);
    (2%Z, mkNode true [("w", Some (oP 1))] [] [] []) ].
Definition ex_vals : list (Z * Z) := [(1, 10); (2, 20); (3, 30); (11, 1); (12, 2); (13, 3); (14, 4); (15, 5); (21, 7)]%Z.
Definition ex_st : tstate := mkSt ex_heap ex_vals FRESH_BASE [].
Definition ex_td1 : ptd :=
  PTD [("w", PLeaf (Some (oT 11))); ("r", PLeaf (Some (oT 12))); ("a", PSub (PTD [("w", PLeaf (Some (oP 13)))]));
       ("b", PSub (PTD [("w", PLeaf (Some (oP 14)))])); ("c", PSub (PTD [("w", PLeaf (Some (oT 15)))]))].
Definition ex_td2 : ptd := PTD [("w", PLeaf (Some (oP 21)))].
Definition ex_b1 := mkBlock 0 None false false false true ex_td1.
Definition ex_b2 := mkBlock 0 (Some false) false false false false ex_td2.   (* a temporary source *)

Lemma ex_hyps : Forall (block_ok (t_heap ex_st)) [ex_b1; ex_b2] /\ wf_heap (t_heap ex_st).
Proof.
  split; [|apply wf_heapb_ok; vm_compute; reflexivity].
  constructor; [apply block_okb_ok; vm_compute; reflexivity|].
  constructor; [apply block_okb_ok; vm_compute; reflexivity|constructor].
Qed.

(* the case that exhibited D6 (two nested blocks, an Exception raised in the inner body): every block is entered *)
Lemma ex_exception_run :
  let '(st', evs, oc) := run_blocks (mkExc XExc 1 true) [ex_b1; ex_b2] 0 ex_st in
  enters_ok evs /\ oc = ORaise EInject /\ List.length evs = 4%nat.
Proof.
  vm_compute run_blocks. split; [repeat constructor; cbn; congruence|split; reflexivity].
Qed.

(* D131 (repaired): a buffer name given an nn.Parameter, normal exit: inside the block the Parameter sits in _buffers,
   afterwards the buffer is back in _buffers *)
Definition ex_td3 : ptd := PTD [("r", PLeaf (Some (oP 12)))].
Definition ex_b3 := mkBlock 0 None false false false true ex_td3.
Lemma ex_D131_repaired :
  let '(st', evs, oc) := run_blocks (mkExc XNone 0 false) [ex_b3] 0 ex_st in
  Forall (fun e => ev_out e = OOk) evs /\ List.length evs = 2%nat /\ all_sloteq st' ex_st
  /\ match evs with e :: _ => option_map (fun n => slot3 n "r") (hg (ev_state e) 0%Z) = Some (None, Some (Some (oP 12)), None)
      | [] => False end.
Proof.
  destruct (run_blocks (mkExc XNone 0 false) [ex_b3] 0 ex_st) as [[st' evs] oc] eqn:E.
  assert (Hev : Forall (fun e => ev_out e = OOk) evs /\ List.length evs = 2%nat
                /\ match evs with e :: _ => option_map (fun n => slot3 n "r") (hg (ev_state e) 0%Z) = Some (None, Some (Some (oP 12)), None)
                   | [] => False end).
  { vm_compute in E. inversion E; subst. split; [repeat constructor|split; reflexivity]. }
  destruct Hev as (H1 & H2 & H3). split; [exact H1|]. split; [exact H2|]. split; [|exact H3].
  refine (proj1 (restore_normal _ _ _ _ _ _ _ _ E eq_refl H1 _ _)).
  - constructor; [apply block_okb_ok; vm_compute; reflexivity|constructor].
  - apply wf_heapb_ok; vm_compute; reflexivity.
Qed.

(* the witness of D131 on the code before the repair (f131 = false): the Parameter goes to _parameters, and the way back
   finds the name in no buffer dict: the buffer ends in __dict__ *)
Definition ex_root : mnode := mkNode false [("w", Some (oP 1))] [("r", Some (oT 2))] [] [].
Definition there_and_back (f131 : bool) : option slot3_t :=
  let '(n1, out, st1) := set_tensor_dict_gen f131 false ex_root "r" (oP 12) false ex_st in
  match out with
  | Some o => let '(n2, _, _) := set_tensor_dict_gen f131 false n1 "r" o false st1 in Some (slot3 n2 "r")
  | None => None
  end.
Lemma unrepaired_D131 :
  there_and_back false = Some (None, None, Some (oT 2)) /\ there_and_back true = Some (slot3 ex_root "r")
  /\ slot3 ex_root "r" = (None, Some (Some (oT 2)), None).
Proof. vm_compute. repeat split. Qed.

(* D134 (repaired): inplace=True with a tied tensor: same objects, the content inside the block is the last supplied
   value, and the original content is back after the exit *)
Definition ex_b4 := mkBlock 0 (Some true) false false false true
  (PTD [("w", PLeaf (Some (oT 11))); ("c", PSub (PTD [("w", PLeaf (Some (oT 15)))]))]).
Definition ex_heap4 : heap :=
  [ (0%Z, mkNode false [("w", Some (oP 1))] [] [] [("c", Some 2%Z)]); (2%Z, mkNode false [("w", Some (oP 1))] [] [] []) ].
Lemma ex_D134_repaired :
  let '(st', evs, oc) := run_blocks (mkExc XNone 0 false) [ex_b4] 0 (mkSt ex_heap4 ex_vals FRESH_BASE []) in
  Forall (fun e => ev_out e = OOk) evs /\ t_heap st' = ex_heap4
  /\ z_get (t_vals st') 1%Z = Some 10%Z /\ z_get ex_vals 1%Z = Some 10%Z
  /\ match evs with e :: _ => z_get (t_vals (ev_state e)) 1%Z = Some 5%Z | [] => False end.
Proof.
  vm_compute run_blocks. split; [repeat constructor|]. repeat split; reflexivity.
Qed.

(* the witness of D134 on the code before the repair (f134 = false): one node holding one Parameter under two names;
   in-place swap of both names, then the saved values back in the same order: the tensor ends with the first supplied
   value (1) instead of its own (10) *)
Definition ex_tied : mnode := mkNode false [("w", Some (oP 1)); ("v", Some (oP 1))] [] [] [].
Definition tied_roundtrip (f134 : bool) : option (Z * option Z) :=
  let st0 := mkSt [] ex_vals FRESH_BASE [] in
  let '(n1, o1, st1) := set_tensor_dict_gen true f134 ex_tied "w" (oT 11) true st0 in
  let '(n2, o2, st2) := set_tensor_dict_gen true f134 n1 "v" (oT 15) true st1 in
  match o1, o2 with
  | Some c1, Some c2 =>
      let '(n3, _, st3) := set_tensor_dict_gen true f134 n2 "w" c1 true (clear_saved st2) in
      let '(n4, _, st4) := set_tensor_dict_gen true f134 n3 "v" c2 true st3 in
      match z_get (t_vals st2) 1%Z with Some inside => Some (inside, z_get (t_vals st4) 1%Z) | None => None end
  | _, _ => None
  end.
Lemma unrepaired_D134 :
  tied_roundtrip false = Some (5%Z, Some 1%Z) /\ tied_roundtrip true = Some (5%Z, Some 10%Z) /\ z_get ex_vals 1%Z = Some 10%Z.
Proof. vm_compute. repeat split. Qed.

(* ------------------------------------------------------------------ statements used by Props/C13.v *)
(* one block, no inner blocks: applying the returned swap puts every slot back, whatever _quick_set then does *)
Theorem swap_then_swap_back b st st1 memo1 swap :
  block_ok (t_heap st) b -> wf_heap (t_heap st) ->
  to_module (cfg_of b true) (b_params b) (b_target b) st = TmOk st1 memo1 swap ->
  exists st2 memo2 sw2, to_module (cfg_of b true) swap (b_target b) st1 = TmOk st2 memo2 sw2
    /\ all_sloteq st2 st /\ t_vals st2 = t_vals st.
Proof.
  intros Hb Hwf Ht. destruct (enter_facts b st st1 memo1 swap Hb Ht) as (P1 & P2).
  destruct P1 as (B1 & B2 & B3 & B4 & B5 & B6 & B7 & B8).
  destruct (P2 Hwf (clear_saved st1) []) as (stY & memoY & sw' & Q1 & Q2 & Q3 & Q4 & Q5 & Q6).
  { intros c. tauto. }
  { intros c _. apply osloteq_refl. }
  { exact B6. }
  exists stY, memoY, sw'. split; [exact Q1|]. split; [|exact (eq_trans Q5 B1)].
  intros c. destruct (touched_dec [] memo1 c) as [Ht'|Hnt]; [now apply Q3|].
  rewrite (Q4 c Hnt). change (osloteq (hg st1 c) (hg st c)). rewrite (B5 c Hnt). apply osloteq_refl.
Qed.

Definition restore_on_exception_statement : Prop :=
  forall x bs lvl st st' evs oc,
    run_blocks x bs lvl st = (st', evs, oc) ->
    Forall (block_ok (t_heap st)) bs -> wf_heap (t_heap st) -> enters_ok evs -> all_sloteq st' st.

Theorem restore_on_exception : restore_on_exception_statement.
Proof.
  intros x bs lvl st st' evs oc Hrun Hok Hwf Hen. unfold run_blocks in Hrun.
  exact (proj1 (restore_fixed x bs lvl st st' evs oc Hrun Hok Hwf Hen)).
Qed.

(* and on the example: the program that used to leave the module swapped *)
Lemma ex_exception_restored :
  let '(st', evs, oc) := run_blocks (mkExc XExc 1 true) [ex_b1; ex_b2] 0 ex_st in all_sloteq st' ex_st.
Proof.
  pose proof ex_exception_run as HD. destruct ex_hyps as (Hok & Hwf).
  destruct (run_blocks (mkExc XExc 1 true) [ex_b1; ex_b2] 0 ex_st) as [[st' evs] oc] eqn:E.
  destruct HD as (Hen & _). exact (restore_on_exception _ _ _ _ _ _ _ E Hok Hwf Hen).
Qed.

(* a normal two-level program over the example heap (shared submodule, tied parameter, custom __setattr__ module) *)
Lemma ex_normal_run :
  let '(st', evs, oc) := run_blocks (mkExc XNone 0 false) [ex_b1; ex_b2] 0 ex_st in
  Forall (fun e => ev_out e = OOk) evs /\ List.length evs = 4%nat /\ oc = OOk.
Proof. vm_compute. split; [repeat constructor|split; reflexivity]. Qed.

(* inplace=True: a regular module keeps, under every name, the very object it held (the content is what changes) *)
Lemma std_slot_inplace_gen f134 n k x st :
  let '(n', out, st') := set_tensor_dict_gen true f134 n k x true st in
  wf3 (slot3 n k) -> out <> None ->
  slot3 n' k = slot3 n k /\ (forall k', k' <> k -> slot3 n' k' = slot3 n k') /\ m_custom n' = m_custom n /\ m_subs n' = m_subs n.
Proof.
  unfold set_tensor_dict_gen, slot3, wf3. cbn [andb].
  destruct n as [cu ps bs ats subs]; node_cbn.
  destruct (d_get ps k) as [[o|]|] eqn:Ep; node_cbn;
    destruct (d_get bs k) as [[o2|]|] eqn:Eb; node_cbn; repeat (use_get; node_cbn);
      destruct (d_get ats k) as [o3|] eqn:Ea; node_cbn; repeat (use_get; node_cbn);
        try match goal with
        | |- context [z_get (t_saved st) (oid ?o)] =>
            destruct (if f134 then z_get (t_saved st) (oid o) else None) as [c0|]; [|destruct (fresh_clone st o) as [c st1]]
        end; cbv beta iota zeta;
        try (intros []; fail); try (intros _ H; congruence);
        intros Hw _; try rewrite Hw; try (apply negb_true_iff in Hw); node_cbn;
        try (rewrite Hw; node_cbn);
        (repeat split; intros; dsimp; reflexivity).
Qed.

Lemma std_slot_inplace n k x st :
  let '(n', out, st') := set_tensor_dict n k x true st in
  wf3 (slot3 n k) -> out <> None ->
  slot3 n' k = slot3 n k /\ (forall k', k' <> k -> slot3 n' k' = slot3 n k') /\ m_custom n' = m_custom n /\ m_subs n' = m_subs n.
Proof. exact (std_slot_inplace_gen fixed_D134 n k x st). Qed.

(* use_state_dict=True (D132 repaired) and swap_dest= (D133 repaired) on the example heap: normal exit, the heap is back *)
Definition ex_b5 := mkBlock 0 None true false false false (PTD [("w", PLeaf (Some (oT 11)))]).
Definition ex_b6 := mkBlock 0 None false true false true (PTD [("w", PLeaf (Some (oT 11)))]).
Lemma ex_usd_swap_dest_run :
  (let '(st', evs, oc) := run_blocks (mkExc XNone 0 false) [ex_b5] 0 (mkSt ex_heap4 ex_vals FRESH_BASE []) in
   oc = OOk /\ t_heap st' = ex_heap4)
  /\ (let '(st', evs, oc) := run_blocks (mkExc XNone 0 false) [ex_b6] 0 (mkSt ex_heap4 ex_vals FRESH_BASE []) in
      oc = OOk /\ t_heap st' = ex_heap4).
Proof. split; vm_compute; split; reflexivity. Qed.

(* isolation of one plain to_module call: no tensor content is written, no module outside the visited ones (memo) is
   touched, _modules and module types never change *)
Theorem swap_isolated b st st1 memo1 swap :
  block_ok (t_heap st) b ->
  to_module (cfg_of b true) (b_params b) (b_target b) st = TmOk st1 memo1 swap ->
  t_vals st1 = t_vals st /\ t_next st1 = t_next st /\ struct_same (t_heap st) (t_heap st1)
  /\ (forall c, z_get memo1 c = None -> hg st1 c = hg st c) /\ (wf_heap (t_heap st) -> wf_heap (t_heap st1)).
Proof.
  intros Hb Ht. destruct (enter_facts b st st1 memo1 swap Hb Ht) as (P1 & _).
  destruct P1 as (B1 & B2 & B3 & B4 & B5 & B6 & B7 & B8).
  repeat split; auto. intros c Hc. apply B5. intros (T1 & T2). congruence.
Qed.

(* the state the inverse leaves does not depend on whether the source tensordict is still alive at exit time: what is
   re-installed comes from the swap (the object the with-statement holds); the source is only the swap destination *)
Definition with_live (b : block) (l : bool) : block :=
  mkBlock (b_target b) (b_inplace b) (b_usd b) (b_swap_dest b) (b_manual b) l (b_params b).
Lemma reverse_state_live_irrelevant b swap st l1 l2 :
  fst (reverse_to_module (with_live b l1) swap st) = fst (reverse_to_module (with_live b l2) swap st).
Proof.
  unfold reverse_to_module, with_live, cfg_of.
  cbn [b_target b_inplace b_usd b_swap_dest b_manual b_live b_params].
  destruct (b_swap_dest b && negb fixed_D133); [reflexivity|].
  match goal with |- context [to_module ?c swap ?m st] => destruct (to_module c swap m st) as [st' mm sw'|st' e] end; [|reflexivity].
  destruct l1, l2; try destruct (quick_set sw' (b_params b)); reflexivity.
Qed.
