(* C01 — the names setter, refine_names and the batch-size setter keep a tree coherent (ok and raising outcomes). *)
From Coq Require Import List String Bool Arith Lia.
Import ListNotations.
From TD Require Import Model.C01_Tree Model.C01_Ops Proofs.C01_TreeP.
Open Scope string_scope.
Open Scope list_scope.

(* ---- the sequential traversal ---- *)
Lemma seq_children_cons : forall f key c r,
  seq_children f ((key, c) :: r) =
  let '(c', okc) := f c in
  if okc then let '(r', ok) := seq_children f r in ((key, c') :: r', ok) else ((key, c') :: r, false).
Proof. reflexivity. Qed.

Lemma seq_children_Forall : forall f (P Q : tree -> Prop) es,
  (forall c, P c -> Q c) ->
  Forall (fun kv => P (snd kv)) es ->
  Forall (fun kv => P (snd kv) -> Q (fst (f (snd kv)))) es ->
  Forall (fun kv => Q (snd kv)) (fst (seq_children f es)).
Proof.
  intros f P Q es HPQ. induction es as [|[key c] r IH]; intros HP HF; [constructor|].
  inversion HP as [|? ? Hc Hr]; subst. inversion HF as [|? ? Hfc Hfr]; subst. cbn [snd] in *.
  rewrite seq_children_cons. destruct (f c) as [c' okc] eqn:E. cbn [fst] in Hfc.
  destruct okc.
  - specialize (IH Hr Hfr). destruct (seq_children f r) as [r' ok]. cbn [fst] in *. constructor; auto.
  - cbn [fst]. constructor; [auto|]. eapply Forall_impl; [|exact Hr]. cbn. auto.
Qed.

Lemma seq_children_coh : forall f bs dv es,
  coh_ents bs dv es = true ->
  Forall (fun kv => coh bs dv (snd kv) = true -> coh bs dv (fst (f (snd kv))) = true) es ->
  coh_ents bs dv (fst (seq_children f es)) = true.
Proof.
  intros f bs dv es H HF. apply coh_ents_forall.
  apply (seq_children_Forall f (fun c => coh bs dv c = true) (fun c => coh bs dv c = true)); auto.
  now apply coh_ents_forall.
Qed.

(* when the traversal succeeds every entry went through f, successfully *)
Lemma seq_children_ok : forall f es es',
  seq_children f es = (es', true) ->
  Forall2 (fun a b => fst b = fst a /\ f (snd a) = (snd b, true)) es es'.
Proof.
  intros f. induction es as [|[key c] r IH]; intros es' H.
  - cbn in H. injection H as <-. constructor.
  - rewrite seq_children_cons in H. destruct (f c) as [c' okc] eqn:E. destruct okc; [|discriminate].
    destruct (seq_children f r) as [r' ok] eqn:Er. injection H as <- ->. constructor; [cbn; auto|]. now apply IH.
Qed.

(* ---- erasing names ---- *)
Lemma erase1_coh : forall p d c, coh p d c = true -> coh p d (erase1 c) = true.
Proof.
  intros p d [sh dd|k bs dv nm es] H; [exact H|]. cbn [erase1].
  apply coh_node_iff in H as (H1 & H2 & _ & H4). apply coh_node_iff. auto.
Qed.

Lemma erase_children_coh : forall bs dv es, coh_ents bs dv es = true -> coh_ents bs dv (erase_children es) = true.
Proof.
  intros bs dv es H. apply coh_ents_forall in H. apply coh_ents_forall. unfold erase_children.
  rewrite Forall_map. eapply Forall_impl; [|exact H]. cbn. intros [k c]. cbn. apply erase1_coh.
Qed.

(* ---- names setter ---- *)
Lemma set_names_coh : forall t v p d, coh p d t = true -> coh p d (fst (set_names t v)) = true.
Proof.
  induction t as [sh dd|k bs dv nm es IH] using tree_ind2; intros v p d H; [exact H|].
  pose proof H as Hall. apply coh_node_iff in H as (H1 & H2 & H3 & H4).
  assert (Herase : coh p d (Node k bs dv None (erase_children es)) = true).
  { apply coh_node_iff. repeat split; auto using erase_children_coh. }
  cbn [set_names]. destruct v as [l|]; [|exact Herase].
  destruct (Nat.eqb (count_none l) (List.length bs)); [exact Herase|].
  destruct (names_unique l); cbn [negb]; [|exact Hall].
  destruct (Nat.eqb (List.length l) (List.length bs)) eqn:E3; cbn [negb]; [|exact Hall].
  match goal with |- context [seq_children ?g es] => set (g0 := g) end.
  assert (Hes : coh_ents bs dv (fst (seq_children g0 es)) = true).
  { apply seq_children_coh; [exact H4|]. eapply Forall_impl; [|exact IH]. intros [key c] IHc Hc. cbn [snd] in *.
    subst g0. cbn beta. destruct c as [sh dd|ck cbs cdv cnm ces]; [exact Hc|].
    destruct (l ++ skipn (List.length l) (names_of (Node ck cbs cdv cnm ces))) as [|[n|] [|n2 tl]].
    - destruct (Nat.eqb (List.length cbs) 0); [apply IHc; exact Hc|exact Hc].
    - apply IHc; exact Hc.
    - apply IHc; exact Hc.
    - cbn [fst]. apply coh_node_iff in Hc as (C1 & C2 & _ & C4). apply coh_node_iff. repeat split; auto using erase_children_coh.
    - apply IHc; exact Hc. }
  destruct (seq_children g0 es) as [es' ok]. cbn [fst] in Hes.
  destruct ok; cbn [fst]; apply coh_node_iff; repeat split; auto.
Qed.

Lemma refine_coh : forall t ns p d, coh p d t = true -> coh p d (fst (refine t ns)) = true.
Proof.
  intros t ns p d H. unfold refine.
  destruct (refine_loop _ _); [now apply set_names_coh|exact H].
Qed.

(* the shape of the node is not touched by the names setter *)
Lemma set_names_shape : forall t v, tshape (fst (set_names t v)) = tshape t.
Proof.
  intros [sh d|k bs dv nm es] v; [reflexivity|]. cbn [set_names].
  destruct v as [l|]; [|reflexivity].
  destruct (Nat.eqb (count_none l) (List.length bs)); [reflexivity|].
  destruct (names_unique l); cbn [negb]; [|reflexivity].
  destruct (Nat.eqb (List.length l) (List.length bs)); cbn [negb]; [|reflexivity].
  destruct (seq_children _ es) as [es' ok]. destruct ok; reflexivity.
Qed.

Lemma set_names_is_node : forall t v, is_node (fst (set_names t v)) = is_node t.
Proof.
  intros [sh d|k bs dv nm es] v; [reflexivity|]. cbn [set_names].
  destruct v as [l|]; [|reflexivity].
  destruct (Nat.eqb (count_none l) (List.length bs)); [reflexivity|].
  destruct (names_unique l); cbn [negb]; [|reflexivity].
  destruct (Nat.eqb (List.length l) (List.length bs)); cbn [negb]; [|reflexivity].
  destruct (seq_children _ es) as [es' ok]. destruct ok; reflexivity.
Qed.

(* ---- names and batch-size bookkeeping never touches the tensors ---- *)
Lemma seq_children_holds : forall f es,
  Forall (fun kv => holds_tensor (fst (f (snd kv))) = holds_tensor (snd kv)) es ->
  existsb (fun kv => holds_tensor (snd kv)) (fst (seq_children f es)) = existsb (fun kv => holds_tensor (snd kv)) es.
Proof.
  intros f. induction es as [|[key c] r IH]; intros HF; [reflexivity|].
  inversion HF as [|? ? Hc Hr]; subst. cbn [snd] in Hc. rewrite seq_children_cons.
  destruct (f c) as [c' okc]. cbn [fst] in Hc. destruct okc.
  - specialize (IH Hr). destruct (seq_children f r) as [r' ok]. cbn [fst] in *. cbn. now rewrite Hc, IH.
  - cbn. now rewrite Hc.
Qed.

Lemma erase_children_holds : forall es,
  existsb (fun kv => holds_tensor (snd kv)) (erase_children es) = existsb (fun kv => holds_tensor (snd kv)) es.
Proof.
  unfold erase_children. induction es as [|[key c] r IH]; [reflexivity|].
  cbn [map existsb fst snd]. rewrite IH. f_equal. destruct c; reflexivity.
Qed.

Lemma set_names_holds : forall t v, holds_tensor (fst (set_names t v)) = holds_tensor t.
Proof.
  induction t as [sh dd|k bs dv nm es IH] using tree_ind2; intros v; [reflexivity|].
  cbn [set_names]. destruct v as [l|]; [|cbn; apply erase_children_holds].
  destruct (Nat.eqb (count_none l) (List.length bs)); [cbn; apply erase_children_holds|].
  destruct (names_unique l); cbn [negb]; [|reflexivity].
  destruct (Nat.eqb (List.length l) (List.length bs)); cbn [negb]; [|reflexivity].
  match goal with |- context [seq_children ?g es] => set (g0 := g) end.
  assert (Hes : existsb (fun kv => holds_tensor (snd kv)) (fst (seq_children g0 es)) = existsb (fun kv => holds_tensor (snd kv)) es).
  { apply seq_children_holds. eapply Forall_impl; [|exact IH]. intros [key c] IHc. cbn [snd] in *.
    subst g0. cbn beta. destruct c as [sh dd|ck cbs cdv cnm ces]; [reflexivity|].
    destruct (l ++ skipn (List.length l) (names_of (Node ck cbs cdv cnm ces))) as [|[n|] [|n2 tl]]; try apply IHc.
    - destruct (Nat.eqb (List.length cbs) 0); [apply IHc|reflexivity].
    - cbn. apply erase_children_holds. }
  destruct (seq_children g0 es) as [es' ok]. cbn [fst] in Hes. destruct ok; cbn; exact Hes.
Qed.

Lemma Forall2_in_r : forall (A B : Type) (R : A -> B -> Prop) l l', Forall2 R l l' -> forall b, In b l' -> exists a, In a l /\ R a b.
Proof.
  intros A B R l l' H. induction H as [|a b l l' Hab H IH]; intros x Hin; [contradiction|].
  destruct Hin as [<-|Hin]; [exists a; split; [now left|exact Hab]|].
  destruct (IH _ Hin) as (a' & Ha & Hr). exists a'. split; [now right|exact Hr].
Qed.
