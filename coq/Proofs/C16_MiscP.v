(* C16 proofs, part 5: NonTensorStack.data (get_non_tensor), torch.cat of NonTensorData, to_dict: what holds, and the
   witnesses of what does not (findings C16-a, C16-d, D20). *)
From Coq Require Import ZArith List Bool Lia.
Import ListNotations.
From TD Require Import Spec.PySlice Spec.C16_ObjArray Model.C16_NonTensor Proofs.C16_BasicsP Proofs.C16_StackP.
Open Scope nat_scope.

(* ---------------- .data *)
(* a stack of NonTensorData members: the unique value iff all members hold it *)
Lemma stack_unique_flat f l p0 sh0 r :
  l = Shared p0 sh0 :: r -> forallb is_shared l = true ->
  stack_unique (S f) l = if all_same_shared p0 r then Some p0 else None.
Proof.
  intros -> Hs. cbn [stack_unique].
  cbn [forallb is_shared andb] in Hs.
  (* the loop, started after the first member *)
  assert (G : forall l' , forallb is_shared l' = true ->
     (fix loop (l : list nt) (firstdata : option payload) {struct l} : option payload :=
        match l with
        | [] => Some p0
        | Shared p _ :: r0 =>
            match firstdata with
            | Some q => if (p =? q)%Z then loop r0 firstdata else None
            | None => loop r0 (Some p)
            end
        | (Stack _ _ as m) :: r0 =>
            match unbind 0 m with
            | Ok slices =>
                match stack_unique f slices with
                | Some p =>
                    if fixed_C16a
                    then match firstdata with
                         | Some q => if (p =? q)%Z then loop r0 firstdata else None
                         | None => loop r0 (Some p)
                         end
                    else Some p0
                | None => None
                end
            | _ => None
            end
        end) l' (Some p0) = if all_same_shared p0 l' then Some p0 else None).
  { induction l' as [|m l' IHl]; intros Hl; [reflexivity|].
    destruct m as [p sh|]; [|discriminate]. cbn [forallb is_shared andb] in Hl. cbn [all_same_shared].
    destruct (p =? p0)%Z; [cbn [andb]; now apply IHl|reflexivity]. }
  exact (G r Hs).
Qed.

Theorem data_flat d p0 sh0 r p :
  forallb is_shared r = true ->
  (data_prop (Stack d (Shared p0 sh0 :: r)) = Some p <-> p = p0 /\ Forall (fun m => exists sh, m = Shared p sh) (Shared p0 sh0 :: r)).
Proof.
  intros Hs. unfold data_prop. rewrite (stack_unique_flat _ _ p0 sh0 r eq_refl) by (cbn [forallb is_shared andb]; exact Hs).
  split.
  - destruct (all_same_shared p0 r) eqn:E; [|discriminate]. intros H; injection H as <-. split; [reflexivity|].
    constructor; [eauto|]. now apply all_same_shared_spec.
  - intros [-> H]. inversion H as [|? ? _ Hr]; subst.
    replace (all_same_shared p0 r) with true; [reflexivity|]. symmetry.
    clear -Hr. induction r as [|m r IH]; [reflexivity|]. inversion Hr as [|? ? [sh ->] Hr']; subst.
    cbn [all_same_shared]. rewrite Z.eqb_refl. cbn [andb]. now apply IH.
Qed.

(* with a stack among the members the code answers with the first member's value (C16-a) *)
Theorem data_refuted :
  exists x p, wf x = true /\ data_prop x = Some p /\ exists I q, denote x I = Some q /\ q <> p.
Proof.
  exists (Stack 0 [Stack 0 [Shared 1%Z []; Shared 1%Z []]; Stack 0 [Shared 2%Z []; Shared 2%Z []]]), 1%Z.
  split; [reflexivity|]. split; [vm_compute; reflexivity|]. exists [1; 0], 2%Z. split; [reflexivity|discriminate].
Qed.

(* ---------------- torch.cat of NonTensorData entries keeps the first payload (C16-d) *)
Theorem cat_refuted :
  exists a b y, cat_shared [a; b] 0 = Ok y /\ shape a = Some [1] /\ shape b = Some [1] /\ shape y = Some [2] /\
                denote y [1] <> denote b [0].
Proof.
  exists (Shared 1%Z [1]), (Shared 2%Z [1]), (Shared 1%Z [2]). repeat split; try reflexivity. cbn. discriminate.
Qed.

Theorem cat_partial p l dim y :
  Forall (fun m => exists sh, m = Shared p sh) l -> cat_shared l dim = Ok y -> exists sh, y = Shared p sh.
Proof.
  intros H E. destruct l as [|m r]; [discriminate|]. inversion H as [|? ? [sh ->] Hr]; subst. cbn [cat_shared] in E.
  destruct (forallb is_shared r); [|discriminate]. destruct (nth_error sh dim); [|discriminate]. injection E as <-. eauto.
Qed.

(* ---------------- to_dict (D20) *)
Theorem to_dict_refuted : fixed_D20 = false -> exists x, wf x = true /\ to_dict x = Raised.
Proof. intros _. exists (Stack 0 [Shared 1%Z []; Shared 2%Z []]). split; reflexivity. Qed.
Theorem to_dict_shared p sh : to_dict (Shared p sh) = Ok (GOne p).
Proof. reflexivity. Qed.
