(* C16 proofs, part 8: NonTensorStack.data (get_non_tensor), torch.cat of non-tensor entries, to_dict, after the repairs of
   C16-a, C16-d, D20 (the model switches fixed_* are true). *)
From Coq Require Import ZArith List Bool Lia.
Import ListNotations.
From TD Require Import Spec.PySlice Spec.C16_ObjArray Model.C16_NonTensor Proofs.C16_BasicsP Proofs.C16_StackP Proofs.C16_SpecP Proofs.C16_IndexP Proofs.C16_TolistP Proofs.C16_AssignP.
Open Scope nat_scope.

(* ---------------- .data *)
(* a stack of NonTensorData members: the unique value iff all members hold it *)
Lemma stack_unique_flat f l p0 sh0 r :
  l = Shared p0 sh0 :: r -> forallb is_shared l = true ->
  stack_unique (S f) l = if all_same_shared p0 r then Some p0 else None.
Proof.
  intros -> Hs. cbn [stack_unique].
  cbn [forallb is_shared andb] in Hs.
  (* the loop, started after the first member *)
  assert (G : forall l' , forallb is_shared l' = true ->
     (fix loop (l : list nt) (firstdata : option payload) {struct l} : option payload :=
        match l with
        | [] => Some p0
        | Shared p _ :: r0 =>
            match firstdata with
            | Some q => if (p =? q)%Z then loop r0 firstdata else None
            | None => loop r0 (Some p)
            end
        | (Stack _ _ as m) :: r0 =>
            match unbind 0 m with
            | Ok slices =>
                match stack_unique f slices with
                | Some p =>
                    if fixed_C16a
                    then match firstdata with
                         | Some q => if (p =? q)%Z then loop r0 firstdata else None
                         | None => loop r0 (Some p)
                         end
                    else Some p0
                | None => None
                end
            | _ => None
            end
        end) l' (Some p0) = if all_same_shared p0 l' then Some p0 else None).
  { induction l' as [|m l' IHl]; intros Hl; [reflexivity|].
    destruct m as [p sh|]; [|discriminate]. cbn [forallb is_shared andb] in Hl. cbn [all_same_shared].
    destruct (p =? p0)%Z; [cbn [andb]; now apply IHl|reflexivity]. }
  exact (G r Hs).
Qed.

Theorem data_flat d p0 sh0 r p :
  forallb is_shared r = true ->
  (data_prop (Stack d (Shared p0 sh0 :: r)) = Some p <-> p = p0 /\ Forall (fun m => exists sh, m = Shared p sh) (Shared p0 sh0 :: r)).
Proof.
  intros Hs. unfold data_prop. rewrite (stack_unique_flat _ _ p0 sh0 r eq_refl) by (cbn [forallb is_shared andb]; exact Hs).
  split.
  - destruct (all_same_shared p0 r) eqn:E; [|discriminate]. intros H; injection H as <-. split; [reflexivity|].
    constructor; [eauto|]. now apply all_same_shared_spec.
  - intros [-> H]. inversion H as [|? ? _ Hr]; subst.
    replace (all_same_shared p0 r) with true; [reflexivity|]. symmetry.
    clear -Hr. induction r as [|m r IH]; [reflexivity|]. inversion Hr as [|? ? [sh ->] Hr']; subst.
    cbn [all_same_shared]. rewrite Z.eqb_refl. cbn [andb]. now apply IH.
Qed.

(* ---------------- torch.cat of the non-tensor entries of two tensordicts *)
Lemma shape_split_at (sa : list nat) dim N : dim < length sa ->
  firstn dim sa ++ N :: skipn (S dim) sa = insert_at dim N (remove_at dim sa).
Proof.
  intros H. unfold insert_at, remove_at.
  rewrite firstn_app, firstn_firstn, Nat.min_id, firstn_length, Nat.min_l, Nat.sub_diag by lia. cbn [firstn]. rewrite app_nil_r.
  rewrite skipn_app, firstn_length, Nat.min_l, Nat.sub_diag by lia. cbn [skipn].
  now rewrite (skipn_all2 (firstn dim sa)) by (rewrite firstn_length; lia).
Qed.

Theorem cat_denote a b dim y sa sb na nb :
  wf a = true -> wf b = true -> shape a = Some sa -> shape b = Some sb ->
  nth_error sa dim = Some na -> nth_error sb dim = Some nb -> remove_at dim sa = remove_at dim sb ->
  cat_nt [a; b] dim = Ok y ->
  forall I k, nth_error I dim = Some k ->
    denote y I = if k <? na then denote a I else denote b (insert_at dim (k - na) (remove_at dim I)).
Proof.
  intros Hwa Hwb Hsa Hsb Hna Hnb Hrem H I k Hk.
  assert (HdI : dim < length I) by (apply nth_error_Some; congruence).
  assert (Hda : dim < length sa) by (apply nth_error_Some; congruence).
  assert (Hdb : dim < length sb) by (apply nth_error_Some; congruence).
  assert (LI : dim <= length (remove_at dim I)) by (rewrite length_remove_at; lia).
  unfold cat_nt in H. change fixed_C16d with true in H. cbv iota in H.
  destruct (same_shared [a; b]) eqn:Es.
  - (* one and the same value *)
    destruct a as [p sha|]; [|discriminate]. cbn [same_shared all_same_shared] in Es.
    destruct b as [q shb|]; [|discriminate]. apply andb_true_iff in Es as [Eq _]. apply Z.eqb_eq in Eq. subst q.
    cbn [shape] in Hsa, Hsb. injection Hsa as ->. injection Hsb as ->.
    cbn [cat_shared forallb is_shared andb] in H. rewrite Hna in H. injection H as <-.
    cbn [fold_right]. rewrite (nth_error_nth _ _ 0 Hna), (nth_error_nth _ _ 0 Hnb).
    rewrite shape_split_at by assumption. cbn [denote].
    rewrite in_range_insert by (rewrite length_remove_at; lia). rewrite Hk.
    destruct (k <? na) eqn:Ek.
    + apply Nat.ltb_lt in Ek. rewrite <- (insert_remove_at I dim k Hk) at 2.
      rewrite (in_range_insert_coord sa dim na k _ Hna LI).
      replace (k <? na + (nb + 0)) with true by (symmetry; apply Nat.ltb_lt; lia).
      replace (k <? na) with true by (symmetry; now apply Nat.ltb_lt). reflexivity.
    + apply Nat.ltb_ge in Ek. rewrite (in_range_insert_coord sb dim nb (k - na) _ Hnb LI), <- Hrem.
      replace (k - na <? nb) with (k <? na + (nb + 0)); [reflexivity|].
      destruct (k <? na + (nb + 0)) eqn:E1; symmetry; [apply Nat.ltb_lt in E1; apply Nat.ltb_lt|apply Nat.ltb_ge in E1; apply Nat.ltb_ge]; lia.
  - (* a stack of the slices of the operands *)
    cbn [rmap] in H.
    destruct (unbind dim a) as [pa| |] eqn:Ea; cbn [rbind] in H; try discriminate.
    destruct (unbind dim b) as [pb| |] eqn:Eb; cbn [rbind] in H; try discriminate.
    cbn [concat] in H. rewrite app_nil_r in H.
    destruct (unbind_spec a dim sa na pa Hwa Hsa Hna Ea) as [La Ha].
    destruct (unbind_spec b dim sb nb pb Hwb Hsb Hnb Eb) as [Lb Hb].
    destruct (pa ++ pb) as [|y0 ys] eqn:Ep; [discriminate|]. injection H as <-. rewrite <- Ep.
    rewrite denote_stack, Hk.
    destruct (k <? na) eqn:Ek.
    + apply Nat.ltb_lt in Ek. rewrite nth_error_app1 by lia.
      destruct (nth_error pa k) as [pk|] eqn:Epk; [|apply nth_error_None in Epk; lia].
      destruct (Ha k pk Epk) as (_ & _ & Dk). rewrite (Dk _ LI). now rewrite (insert_remove_at I dim k Hk).
    + apply Nat.ltb_ge in Ek. rewrite nth_error_app2, La by lia.
      destruct (nth_error pb (k - na)) as [pk|] eqn:Epk.
      * destruct (Hb _ pk Epk) as (_ & _ & Dk). now rewrite (Dk _ LI).
      * apply nth_error_None in Epk. symmetry. apply (denote_out_of_range b sb _ Hwb Hsb).
        rewrite (in_range_insert_coord sb dim nb (k - na) _ Hnb LI).
        replace (k - na <? nb) with false by (symmetry; apply Nat.ltb_ge; lia). reflexivity.
Qed.

(* ---------------- to_dict: the shared value, or the nested list in batch order *)
Theorem to_dict_stack d l sh t :
  wf (Stack d l) = true -> shape (Stack d l) = Some sh -> to_dict (Stack d l) = Ok (GList t) ->
  tree_of sh (denote (Stack d l)) = Some t.
Proof.
  intros Hw Hsh H. unfold to_dict in H. change fixed_D20 with true in H. cbv iota in H.
  destruct (tolist (Stack d l)) as [t'| |] eqn:E; cbn [rbind] in H; try discriminate. injection H as <-.
  eapply tolist_rowmajor; eauto.
Qed.
Theorem to_dict_shared p sh : to_dict (Shared p sh) = Ok (GOne p).
Proof. reflexivity. Qed.

(* ---------------- .data / get_non_tensor after the repair of C16-a: the value returned is held by EVERY position *)
Definition all_pos (m : nt) (p : payload) : Prop := forall I q, denote m I = Some q -> q = p.

Lemma denote_some_in_range x sh I q : wf x = true -> shape x = Some sh -> denote x I = Some q -> in_range sh I = true.
Proof.
  intros Hw Hs H. destruct (in_range sh I) eqn:E; [reflexivity|]. rewrite (denote_out_of_range x sh I Hw Hs E) in H. discriminate.
Qed.

Lemma denote_in_range_some x : forall sh I, wf x = true -> shape x = Some sh -> in_range sh I = true -> exists q, denote x I = Some q.
Proof.
  induction x as [p sh0|d l IH] using nt_ind'; intros sh I Hw Hsh Hr.
  - cbn [shape] in Hsh. injection Hsh as <-. cbn [denote]. rewrite Hr. eauto.
  - apply wf_stack in Hw as (m0 & r0 & s & El & Hwf & Hss & Hd).
    assert (Hshape : sh = insert_at d (length l) s).
    { subst l. inversion Hss; subst. rewrite (shape_stack d m0 r0 s) in Hsh by assumption. now injection Hsh as <-. }
    subst sh. rewrite in_range_insert in Hr by assumption. rewrite denote_stack.
    destruct (nth_error I d) as [j|]; [|discriminate]. apply andb_true_iff in Hr as [Hj Hr]. apply Nat.ltb_lt in Hj.
    destruct (nth_error l j) as [m|] eqn:Em; [|apply nth_error_None in Em; lia].
    exact (Forall_nth_error _ _ _ _ IH Em s _ (Forall_nth_error _ _ _ _ Hwf Em) (Forall_nth_error _ _ _ _ Hss Em) Hr).
Qed.

Lemma in_range_zeros sh : forallb (fun n => 0 <? n) sh = true -> in_range sh (repeat 0 (length sh)) = true.
Proof.
  induction sh as [|n sh IH]; cbn [forallb length repeat in_range]; [reflexivity|].
  intros H. apply andb_true_iff in H as [H1 H2]. now rewrite H1, IH.
Qed.
Lemma in_range_no_pos sh : forallb (fun n => 0 <? n) sh = false -> forall I, in_range sh I = false.
Proof.
  induction sh as [|n sh IH]; cbn [forallb]; [discriminate|]. intros H [|x I]; [reflexivity|]. cbn [in_range].
  destruct (0 <? n) eqn:E; cbn [andb] in H.
  - rewrite (IH H I). apply andb_false_r.
  - apply Nat.ltb_ge in E. replace (x <? n) with false by (symmetry; apply Nat.ltb_ge; lia). reflexivity.
Qed.

Lemma stack_members_pos d l p : (forall m, In m l -> all_pos m p) -> all_pos (Stack d l) p.
Proof.
  intros H I q E. rewrite denote_stack in E. destruct (nth_error I d) as [k|]; [|discriminate].
  destruct (nth_error l k) as [m|] eqn:Em; [|discriminate]. eapply H; eauto. eapply nth_error_In; eauto.
Qed.

Lemma slices_pos m n sh' slices p :
  wf m = true -> shape m = Some (n :: sh') -> unbind 0 m = Ok slices -> (forall s, In s slices -> all_pos s p) -> all_pos m p.
Proof.
  intros Hw Hs Eu H I q E. pose proof (denote_some_in_range m _ I q Hw Hs E) as Hr.
  destruct I as [|k I']; [discriminate|]. cbn [in_range] in Hr. apply andb_true_iff in Hr as [Hk _]. apply Nat.ltb_lt in Hk.
  destruct (unbind_spec m 0 (n :: sh') n slices Hw Hs eq_refl Eu) as [L Hsl].
  destruct (nth_error slices k) as [s|] eqn:Es; [|apply nth_error_None in Es; lia].
  destruct (Hsl k s Es) as (_ & _ & D). apply (H s (nth_error_In _ _ Es) I' q). rewrite (D I' ltac:(lia)). now rewrite insert_at_0.
Qed.

Definition su_loop (f : nat) (first_data : option payload) :=
  fix loop (l : list nt) (firstdata : option payload) : option payload :=
    match l with
    | [] => first_data
    | Shared p _ :: r =>
        match firstdata with
        | None => loop r (Some p)
        | Some q => if (p =? q)%Z then loop r firstdata else None
        end
    | (Stack _ _ as m) :: r =>
        match unbind 0 m with
        | Ok slices =>
            match stack_unique f slices with
            | Some p =>
                if fixed_C16a
                then match firstdata with
                     | None => loop r (Some p)
                     | Some q => if (p =? q)%Z then loop r firstdata else None
                     end
                else first_data
            | None => None
            end
        | _ => None
        end
    end.

Lemma su_unfold f first rest :
  stack_unique (S f) (first :: rest) =
  su_loop f (match first with Shared p _ => Some p | Stack _ l' => stack_unique f l' end) (first :: rest) None.
Proof. reflexivity. Qed.

Definition su_ok (f : nat) : Prop :=
  forall l p sh, Forall (fun m => wf m = true) l -> Forall (fun m => shape m = Some sh) l ->
    stack_unique f l = Some p -> forall m, In m l -> all_pos m p.

(* one member processed by the loop: all its positions hold the value it contributes *)
Lemma su_member f sh m :
  su_ok f -> wf m = true -> shape m = Some sh ->
  forall v, (match m with
             | Shared p _ => Some p
             | Stack _ _ => match unbind 0 m with Ok slices => stack_unique f slices | _ => None end
             end) = Some v -> all_pos m v.
Proof.
  intros IHf Hw Hs v H. destruct m as [p s0|d l0].
  - injection H as <-. intros I q E. cbn [denote] in E. destruct (in_range s0 I); [now injection E|discriminate].
  - destruct (unbind 0 (Stack d l0)) as [slices| |] eqn:Eu; try discriminate.
    destruct sh as [|n sh'].
    { unfold unbind in Eu. rewrite Hs in Eu. discriminate. }
    destruct (unbind_spec (Stack d l0) 0 (n :: sh') n slices Hw Hs eq_refl Eu) as [L Hsl].
    eapply slices_pos; eauto. intros s Hin.
    apply (IHf slices v (remove_at 0 (n :: sh'))); auto.
    + apply Forall_forall. intros s' Hs'. apply In_nth_error in Hs' as [k Hk]. now destruct (Hsl k s' Hk) as (_ & W & _).
    + apply Forall_forall. intros s' Hs'. apply In_nth_error in Hs' as [k Hk]. now destruct (Hsl k s' Hk) as (S' & _ & _).
Qed.

Lemma su_loop_some f fdata sh : su_ok f -> forall l q0 p,
  Forall (fun m => wf m = true) l -> Forall (fun m => shape m = Some sh) l ->
  su_loop f fdata l (Some q0) = Some p -> fdata = Some p /\ forall m, In m l -> all_pos m q0.
Proof.
  intros IHf. induction l as [|m r IH]; intros q0 p Hw Hs H.
  - cbn [su_loop] in H. split; [assumption|]. intros m [].
  - inversion Hw as [|? ? Wm Wr]; inversion Hs as [|? ? Sm Sr]; subst.
    assert (Hstep : exists v, (match m with
             | Shared p _ => Some p
             | Stack _ _ => match unbind 0 m with Ok slices => stack_unique f slices | _ => None end
             end) = Some v /\ v = q0 /\ su_loop f fdata r (Some q0) = Some p).
    { destruct m as [p1 s1|d1 l1]; cbn [su_loop] in H.
      - destruct (p1 =? q0)%Z eqn:E; [|discriminate]. apply Z.eqb_eq in E. subst. eauto.
      - destruct (unbind 0 (Stack d1 l1)) as [slices| |]; try discriminate.
        destruct (stack_unique f slices) as [v|]; [|discriminate]. change fixed_C16a with true in H. cbv iota in H.
        destruct (v =? q0)%Z eqn:E; [|discriminate]. apply Z.eqb_eq in E. subst. eauto. }
    destruct Hstep as (v & Hv & -> & Hr). destruct (IH q0 p Wr Sr Hr) as [A B]. split; [assumption|].
    intros m' [<-|Hin]; [eapply su_member; eauto|now apply B].
Qed.

Theorem su_ok_all f : su_ok f.
Proof.
  induction f as [|f IHf]; intros l p sh Hw Hs H m Hin; [discriminate|].
  destruct l as [|first rest]; [discriminate|]. rewrite su_unfold in H.
  inversion Hw as [|? ? Wf Wr]; inversion Hs as [|? ? Sf Sr]; subst.
  set (fdata := match first with Shared p _ => Some p | Stack _ l' => stack_unique f l' end) in *.
  (* the first member sets firstdata *)
  assert (Hstep : exists q0, (match first with
             | Shared p _ => Some p
             | Stack _ _ => match unbind 0 first with Ok slices => stack_unique f slices | _ => None end
             end) = Some q0 /\ su_loop f fdata rest (Some q0) = Some p).
  { destruct first as [p1 s1|d1 l1]; cbn [su_loop] in H; [eauto|].
    destruct (unbind 0 (Stack d1 l1)) as [slices| |]; try discriminate.
    destruct (stack_unique f slices) as [v|]; [|discriminate]. change fixed_C16a with true in H. cbv iota in H. eauto. }
  destruct Hstep as (q0 & Hq0 & Hr).
  destruct (su_loop_some f fdata sh IHf rest q0 p Wr Sr Hr) as [Hfd Hrest].
  pose proof (su_member f sh first IHf Wf Sf q0 Hq0) as Hfirst.
  assert (Hall : forall m', In m' (first :: rest) -> all_pos m' q0) by (intros m' [<-|Hm']; auto).
  (* the value returned is first.data: the same as q0 as soon as there is a position at all *)
  destruct (forallb (fun n => 0 <? n) sh) eqn:Epos.
  - assert (Hp : all_pos first p).
    { destruct first as [p1 s1|d1 l1]; unfold fdata in Hfd.
      - injection Hfd as <-. intros I q E. cbn [denote] in E. destruct (in_range s1 I); [now injection E|discriminate].
      - apply wf_stack in Wf as (m0 & r0 & s' & El & Hwf' & Hss' & Hd').
        apply stack_members_pos. intros m' Hm'. eapply (IHf l1 p s'); eauto. }
    destruct (denote_in_range_some first sh _ Wf Sf (in_range_zeros sh Epos)) as (v & Ev).
    assert (p = q0) by (rewrite <- (Hp _ _ Ev); exact (Hfirst _ _ Ev)). subst q0. now apply Hall.
  - intros I q E. exfalso.
    assert (Wm : wf m = true) by (rewrite Forall_forall in Hw; now apply Hw).
    assert (Sm : shape m = Some sh) by (rewrite Forall_forall in Hs; now apply Hs).
    pose proof (denote_some_in_range m sh I q Wm Sm E) as Hr'. rewrite (in_range_no_pos sh Epos I) in Hr'. discriminate.
Qed.

Theorem data_full x p : wf x = true -> data_prop x = Some p -> forall I q, denote x I = Some q -> q = p.
Proof.
  intros Hw H. destruct x as [p0 sh|d l].
  - injection H as <-. intros I q E. cbn [denote] in E. destruct (in_range sh I); [now injection E|discriminate].
  - unfold data_prop in H. pose proof Hw as Hw0. apply wf_stack in Hw as (m0 & r0 & s & El & Hwf & Hss & Hd).
    apply stack_members_pos. intros m Hm. eapply (su_ok_all _ l p s); eauto.
Qed.
