(* C09 — _maybe_broadcast_other / expand_as_right: the operand reaches torch broadcast against the batch dims from the left *)
From Coq Require Import ZArith List Bool Lia Arith.
Import ListNotations.
From TD Require Import Model.Dual Model.C09_Align Model.C09_Shape Spec.C09_TorchReduce.

Lemma zero_ones_spec s : forall l, zero_ones s l = map (fun p => if Nat.eqb (fst p) 1 then 0 else snd p) (combine s l).
Proof. induction s as [|d s IH]; intros [|x l]; cbn; try reflexivity. now rewrite IH. Qed.

Lemma bidx_spec s i : bidx s i = spec_bcast_index s i.
Proof. unfold bidx, spec_bcast_index. apply zero_ones_spec. Qed.

Lemma zero_ones_length s : forall l, List.length s = List.length l -> List.length (zero_ones s l) = List.length l.
Proof. induction s as [|d s IH]; intros [|x l] H; cbn in *; try discriminate; [reflexivity|]. rewrite IH; lia. Qed.

Lemma zero_ones_app a : forall b la lb, List.length a = List.length la ->
  zero_ones (a ++ b) (la ++ lb) = zero_ones a la ++ zero_ones b lb.
Proof. induction a as [|d a IH]; intros b [|x la] lb H; cbn in *; try discriminate; [reflexivity|]. rewrite IH; [reflexivity|lia]. Qed.

Lemma zero_ones_ones n : forall l, List.length l = n -> zero_ones (repeat 1 n) l = repeat 0 n.
Proof. induction n as [|n IH]; intros [|x l] H; cbn in *; try discriminate; [reflexivity|]. rewrite IH; [reflexivity|lia]. Qed.

Lemma zero_ones_nil_r s : zero_ones s [] = [].
Proof. now destruct s. Qed.
Lemma zero_ones_skipn k : forall s l, skipn k (zero_ones s l) = zero_ones (skipn k s) (skipn k l).
Proof.
  induction k as [|k IH]; intros s l; [reflexivity|]. destruct s as [|d s]; destruct l as [|x l]; cbn [skipn zero_ones].
  - reflexivity.
  - reflexivity.
  - now rewrite zero_ones_nil_r.
  - apply IH.
Qed.

(* removing the n trailing coordinates *)
Fixpoint removelast_n {A} (n : nat) (l : list A) : list A := match n with O => l | S n' => removelast_n n' (removelast l) end.
Lemma removelast_n_app {A} (a b : list A) : removelast_n (List.length b) (a ++ b) = a.
Proof.
  revert a. induction b as [|x b IH] using rev_ind; intros a; cbn; [now rewrite app_nil_r|].
  rewrite app_length. cbn. rewrite Nat.add_1_r. cbn. rewrite app_assoc, removelast_last. apply IH.
Qed.

Lemma unsqueeze_n_spec n : forall v,
  vshape (v_unsqueeze_n n v) = vshape v ++ repeat 1 n /\ forall i, vidx (v_unsqueeze_n n v) i = vidx v (removelast_n n i).
Proof.
  induction n as [|n IH]; intros v; cbn; [split; [now rewrite app_nil_r|reflexivity]|].
  destruct (IH (v_unsqueeze_last v)) as [H1 H2]. split.
  - rewrite H1. cbn. rewrite <- app_assoc. reflexivity.
  - intros i. rewrite H2. cbn. clear. revert i. induction n as [|n IHn]; intros i; cbn; [reflexivity|]. now rewrite IHn.
Qed.

Lemma all2_refl_prefix (B feat : list nat) :
  forallb (fun p => Nat.eqb (fst p) (snd p) || Nat.eqb (fst p) 1) (combine B (B ++ feat)) = true.
Proof. induction B as [|b B IH]; cbn; [reflexivity|]. now rewrite Nat.eqb_refl, IH. Qed.

Lemma all2_ones (B feat : list nat) :
  all2 (fun d b => Nat.eqb d b || Nat.eqb d 1) (B ++ repeat 1 (List.length feat)) (B ++ feat) = true.
Proof.
  induction B as [|b B IH]; cbn.
  - induction feat as [|f feat IH]; cbn; [reflexivity|]. now rewrite orb_true_r, IH.
  - now rewrite Nat.eqb_refl, IH.
Qed.

(* where the source dim is not 1, the target dim is the same: zeroing by the target's ones changes nothing *)
Lemma zero_ones_absorb : forall s B' l,
  all2 (fun d b => Nat.eqb d b || Nat.eqb d 1) s B' = true -> zero_ones s (zero_ones B' l) = zero_ones s l.
Proof.
  induction s as [|d s IH]; intros [|b B'] l H; cbn in *; try discriminate; try reflexivity.
  destruct l as [|x l]; cbn; [reflexivity|]. apply andb_true_iff in H. destruct H as [H1 H2]. rewrite (IH B' l H2). f_equal.
  destruct (Nat.eqb d 1) eqn:E1; [reflexivity|]. rewrite orb_false_r in H1. apply Nat.eqb_eq in H1. subst. now rewrite E1.
Qed.

Theorem operand_view_left (s B feat : shape) :
  expandable s B = true ->
  exists v, operand_view s B feat = Ok v /\ vshape v = B ++ feat /\
    forall ib jf, List.length ib = List.length B -> List.length jf = List.length feat ->
      vidx v (ib ++ jf) = spec_left_index s B (ib ++ jf).
Proof.
  intros He. unfold operand_view, v_expand. cbn [vshape base_view]. rewrite He. unfold expand_as_right. cbn [vshape vidx].
  replace (Nat.ltb (List.length (B ++ feat)) (List.length B)) with false
    by (symmetry; apply Nat.ltb_ge; rewrite app_length; lia).
  rewrite all2_refl_prefix. cbn [negb].
  replace (List.length (B ++ feat) - List.length B) with (List.length feat) by (rewrite app_length; lia).
  set (v1 := {| vshape := B; vidx := fun i => vidx (base_view s) (bidx s i) |}).
  destruct (unsqueeze_n_spec (List.length feat) v1) as [Hs Hi].
  unfold v_expand. rewrite Hs. unfold v1 at 1. cbn [vshape].
  assert (Hexp : expandable (B ++ repeat 1 (List.length feat)) (B ++ feat) = true).
  { unfold expandable. rewrite !app_length, repeat_length, Nat.leb_refl, Nat.sub_diag. cbn [skipn andb]. apply all2_ones. }
  rewrite Hexp. eexists. split; [reflexivity|]. split; [reflexivity|].
  intros ib jf Lb Lf. cbn [vidx]. rewrite Hi. unfold v1. cbn [vidx vshape base_view].
  unfold bidx at 2. rewrite !app_length, repeat_length, Lb, Lf, Nat.sub_diag. cbn [skipn].
  rewrite zero_ones_app by (symmetry; exact Lb). rewrite zero_ones_ones by exact Lf.
  rewrite <- (repeat_length 0 (List.length feat)) at 1. rewrite removelast_n_app.
  unfold spec_left_index. rewrite firstn_app, Lb, Nat.sub_diag, firstn_O, app_nil_r, <- Lb, firstn_all.
  rewrite <- bidx_spec. unfold bidx.
  rewrite zero_ones_length by (symmetry; exact Lb). rewrite zero_ones_skipn.
  unfold expandable in He. apply andb_true_iff in He. destruct He as [_ He]. rewrite <- Lb in He.
  now apply zero_ones_absorb.
Qed.

(* the decision taken by the wrapper for one tensor operand of rank >= 1: always the per-leaf path *)
Theorem maybe_broadcast_tensor (bs s B : shape) :
  List.length s <> 0 -> bcast_all [bs; s] = Some B -> maybe_broadcast bs [KTensor s] = BPerLeaf B.
Proof.
  intros Hn Hb. unfold maybe_broadcast. cbn [existsb needs_bcast orb negb].
  replace (Nat.eqb (List.length s) 0) with false by (symmetry; now apply Nat.eqb_neq). cbn. cbn in Hb. now rewrite Hb.
Qed.
(* scalars and 0-d tensors never trigger a broadcast *)
Theorem maybe_broadcast_scalar (bs : shape) : maybe_broadcast bs [KPy] = BDirect /\ maybe_broadcast bs [KTensor []] = BDirect.
Proof. split; reflexivity. Qed.
