From Coq Require Import ZArith List Bool Lia Arith Permutation.
Import ListNotations.
From TD Require Import Model.C12_Sched.
Open Scope nat_scope.

(* ------------------------------------------------------------------ consolidate: writes to disjoint ranges commute *)
Section Assign.
Context {B : Type}.
Definition wlen (w : nat * list B) : nat := List.length (snd w).
Definition disj (w1 w2 : nat * list B) : Prop := fst w1 + wlen w1 <= fst w2 \/ fst w2 + wlen w2 <= fst w1.
Definition inb (N : nat) (w : nat * list B) : Prop := fst w + wlen w <= N.

Lemma firstn_len_app' (a b : list B) : firstn (List.length a) (a ++ b) = a.
Proof. induction a as [|x a IH]; cbn [List.length firstn app]; [now destruct b|now rewrite IH]. Qed.
Lemma skipn_len_app' (a b : list B) : skipn (List.length a) (a ++ b) = b.
Proof. induction a as [|x a IH]; cbn [List.length skipn app]; [reflexivity|exact IH]. Qed.

Lemma store_at_mid (pre m rest rows : list B) start :
  start = List.length pre -> List.length m = List.length rows ->
  store_at (pre ++ m ++ rest) start rows = pre ++ rows ++ rest.
Proof.
  intros -> Hl. unfold store_at. rewrite firstn_len_app'. do 2 f_equal.
  rewrite <- Hl, <- app_length, app_assoc. apply skipn_len_app'.
Qed.

Lemma store_at_length (s : list B) a x : a + List.length x <= List.length s -> List.length (store_at s a x) = List.length s.
Proof. intro H. unfold store_at. rewrite !app_length, firstn_length, skipn_length. lia. Qed.

Lemma split3 (s : list B) a l : a + l <= List.length s ->
  exists s1 s2 s3, s = s1 ++ s2 ++ s3 /\ List.length s1 = a /\ List.length s2 = l.
Proof.
  intro H. exists (firstn a s), (firstn l (skipn a s)), (skipn l (skipn a s)).
  rewrite !firstn_skipn. split; [reflexivity|]. rewrite !firstn_length, skipn_length. lia.
Qed.

Lemma store_at_comm (s : list B) a x b y :
  a + List.length x <= b -> b + List.length y <= List.length s ->
  store_at (store_at s a x) b y = store_at (store_at s b y) a x.
Proof.
  intros H1 H2.
  destruct (split3 s a (List.length x) ltac:(lia)) as (s1 & s2 & r & -> & L1 & L2).
  rewrite !app_length in H2.
  destruct (split3 r (b - a - List.length x) (List.length y) ltac:(lia)) as (s3 & s4 & s5 & -> & L3 & L4).
  rewrite (store_at_mid s1 s2 _ x a) by congruence.
  replace (s1 ++ x ++ s3 ++ s4 ++ s5) with ((s1 ++ x ++ s3) ++ s4 ++ s5) by now rewrite <- !app_assoc.
  rewrite (store_at_mid (s1 ++ x ++ s3) s4 s5 y b) by (rewrite ?app_length; lia).
  replace (s1 ++ s2 ++ s3 ++ s4 ++ s5) with ((s1 ++ s2 ++ s3) ++ s4 ++ s5) by now rewrite <- !app_assoc.
  rewrite (store_at_mid (s1 ++ s2 ++ s3) s4 s5 y b) by (rewrite ?app_length; lia).
  replace ((s1 ++ s2 ++ s3) ++ y ++ s5) with (s1 ++ s2 ++ (s3 ++ y ++ s5)) by now rewrite <- !app_assoc.
  rewrite (store_at_mid s1 s2 _ x a) by congruence.
  now rewrite <- !app_assoc.
Qed.

Lemma run_assign_cons w ws (s : list B) : run_assign (w :: ws) s = run_assign ws (store_at s (fst w) (snd w)).
Proof. reflexivity. Qed.

Lemma disj_sym w1 w2 : disj w1 w2 -> disj w2 w1.
Proof. unfold disj. tauto. Qed.

Lemma assign_perm : forall ws1 ws2, Permutation ws1 ws2 ->
  forall s : list B, ForallOrdPairs disj ws1 -> Forall (inb (List.length s)) ws1 ->
  ForallOrdPairs disj ws2 /\ run_assign ws1 s = run_assign ws2 s.
Proof.
  induction 1 as [|w l l' P IH|x y l|l l' l'' P1 IH1 P2 IH2]; intros s Hd Hb.
  - split; [constructor|reflexivity].
  - inversion Hd as [|? ? Hw Hd']; subst. inversion Hb as [|? ? Hbw Hb']; subst.
    assert (Hlen : List.length (store_at s (fst w) (snd w)) = List.length s) by (apply store_at_length; exact Hbw).
    destruct (IH (store_at s (fst w) (snd w)) Hd' ltac:(now rewrite Hlen)) as [Hd2 He].
    split; [constructor; [eapply Permutation_Forall; eassumption|assumption]|].
    rewrite !run_assign_cons. exact He.
  - inversion Hd as [|? ? Hy Hd']; subst. inversion Hy as [|? ? Hyx Hyl]; subst.
    inversion Hd' as [|? ? Hxl Hdl]; subst.
    inversion Hb as [|? ? Hby Hb']; subst. inversion Hb' as [|? ? Hbx Hbl]; subst.
    split.
    + constructor; [constructor; [now apply disj_sym|assumption]|constructor; assumption].
    + rewrite !run_assign_cons. f_equal. unfold inb, wlen in Hbx, Hby.
      destruct Hyx as [Hyx|Hyx]; unfold wlen in Hyx.
      * apply store_at_comm; lia.
      * symmetry. apply store_at_comm; lia.
  - destruct (IH1 s Hd Hb) as [Hd2 He1].
    destruct (IH2 s Hd2 ltac:(eapply Permutation_Forall; eassumption)) as [Hd3 He2].
    split; [assumption|congruence].
Qed.

(* the layout of consolidate: chunk i lives at offsets[i] = sum of the sizes before it *)
Definition layout_writes (start : nat) (chunks : list (list B)) : list (nat * list B) :=
  combine (offsets_from start (map (@List.length B) chunks)) chunks.

Lemma layout_ge : forall chunks start w, In w (layout_writes start chunks) -> start <= fst w.
Proof.
  induction chunks as [|c r IH]; intros start w; cbn; [contradiction|].
  intros [<-|Hin]; [cbn; lia|]. apply IH in Hin. lia.
Qed.

Lemma layout_disjoint : forall chunks start, ForallOrdPairs disj (layout_writes start chunks).
Proof.
  induction chunks as [|c r IH]; intro start; cbn; constructor; [|apply IH].
  apply Forall_forall. intros w Hin. left. cbn. apply (layout_ge _ _ _ Hin).
Qed.

Lemma layout_inb : forall chunks start N, start + List.length (concat chunks) <= N -> Forall (inb N) (layout_writes start chunks).
Proof.
  induction chunks as [|c r IH]; intros start N H; cbn; constructor.
  - unfold inb, wlen. cbn in *. rewrite app_length in H. lia.
  - apply IH. cbn in H. rewrite app_length in H. lia.
Qed.

Lemma layout_seq : forall chunks pre mid suf,
  List.length mid = List.length (concat chunks) ->
  run_assign (layout_writes (List.length pre) chunks) (pre ++ mid ++ suf) = pre ++ concat chunks ++ suf.
Proof.
  induction chunks as [|c r IH]; intros pre mid suf Hl.
  - cbn in *. destruct mid; [reflexivity|discriminate].
  - cbn [concat] in *. rewrite app_length in Hl.
    change (layout_writes (List.length pre) (c :: r)) with ((List.length pre, c) :: layout_writes (List.length pre + List.length c) r).
    rewrite run_assign_cons. cbn [fst snd].
    rewrite <- (firstn_skipn (List.length c) mid), <- (app_assoc (firstn _ mid)).
    rewrite store_at_mid by (try reflexivity; rewrite firstn_length; lia).
    rewrite <- app_length.
    replace (pre ++ c ++ skipn (List.length c) mid ++ suf) with ((pre ++ c) ++ skipn (List.length c) mid ++ suf) by now rewrite <- app_assoc.
    rewrite IH by (rewrite skipn_length; lia). now rewrite <- !app_assoc.
Qed.

(* every completion order of consolidate's assign tasks fills the storage with the concatenation of the chunks *)
Theorem consolidate_order_free : forall (chunks : list (list B)) (storage : list B) ws,
  List.length storage = List.length (concat chunks) ->
  Permutation (layout_writes 0 chunks) ws ->
  run_assign ws storage = concat chunks.
Proof.
  intros chunks storage ws Hl P.
  destruct (assign_perm _ _ P storage (layout_disjoint chunks 0) (layout_inb chunks 0 (List.length storage) ltac:(lia))) as [_ <-].
  pose proof (layout_seq chunks [] storage [] Hl) as H. cbn [app List.length] in H. now rewrite !app_nil_r in H.
Qed.
End Assign.

(* ------------------------------------------------------------------ shared / memmap out=: the workers of map write their own
   slices in whatever order they finish *)
From TD Require Import Model.C12_Chunk Proofs.C12_ChunkP.

Lemma tiles_offsets {B} : forall bs (items : list (option (list B))) lo hi,
  tiles lo hi bs -> Forall2 fits bs items ->
  combine (map fst bs) (somes items) = layout_writes lo (somes items).
Proof.
  induction bs as [|[a b] r IH]; intros items lo hi Ht HF; inversion HF; subst; cbn [tiles] in Ht.
  - reflexivity.
  - destruct Ht as (-> & Hab & Hr).
    match goal with H : fits _ _ |- _ => destruct H as (rows & -> & Hrl) end. cbn [fst snd] in Hrl.
    cbn [map fst somes combine]. unfold layout_writes. cbn [map offsets_from combine]. f_equal.
    replace (lo + List.length rows) with b by lia. apply (IH _ b hi); assumption.
Qed.

Theorem shared_out_order_free {B} : forall n bs (items : list (option (list B))) out ws,
  tiles 0 n bs -> Forall2 fits bs items -> List.length out = n ->
  Permutation (combine (map fst bs) (somes items)) ws ->
  run_assign ws out = concat (somes items) /\ shared_out out bs items = Ok (concat (somes items)).
Proof.
  intros n bs items out ws Ht HF Hn P.
  rewrite (tiles_offsets bs items 0 n Ht HF) in P.
  pose proof (fits_somes_length _ _ _ _ Ht HF) as HL. rewrite Nat.sub_0_r in HL.
  split.
  - apply (consolidate_order_free (somes items) out ws); [lia|exact P].
  - destruct (reassembly_offsets bs items out 0 n Ht ltac:(lia) (fits_fitsn _ _ HF)) as [_ H].
    rewrite H, (seq_out_all_some n bs items out Ht Hn HF). reflexivity.
Qed.
