(* C01 — lemmas about the tree skeleton: prefixes, coherence under a context, the storage dict. *)
From Coq Require Import List String Bool Arith Lia.
Import ListNotations.
From TD Require Import Model.C01_Tree.
Open Scope string_scope.
Open Scope list_scope.

(* ---- induction over trees (nested in the entry list) ---- *)
Section tree_ind2.
  Variable P : tree -> Prop.
  Hypothesis HL : forall sh d, P (Leaf sh d).
  Hypothesis HN : forall k bs dv nm es, Forall (fun kv => P (snd kv)) es -> P (Node k bs dv nm es).
  Fixpoint tree_ind2 (t : tree) : P t :=
    match t with
    | Leaf sh d => HL sh d
    | Node k bs dv nm es =>
        HN k bs dv nm es
          ((fix go (es : ents) : Forall (fun kv => P (snd kv)) es :=
              match es with
              | [] => Forall_nil _
              | kv :: r => Forall_cons kv (tree_ind2 (snd kv)) (go r)
              end) es)
    end.
End tree_ind2.

(* ---- prefixes ---- *)
Lemma prefixb_nil : forall s, prefixb [] s = true.
Proof. destruct s; reflexivity. Qed.

Lemma prefixb_refl : forall s, prefixb s s = true.
Proof. induction s as [|x s IH]; cbn; [reflexivity|]. now rewrite Nat.eqb_refl, IH. Qed.

Lemma prefixb_trans : forall a b c, prefixb a b = true -> prefixb b c = true -> prefixb a c = true.
Proof.
  induction a as [|x a IH]; intros b c Hab Hbc; [apply prefixb_nil|].
  destruct b as [|y b]; [discriminate|]. destruct c as [|z c]; [discriminate|].
  cbn in *. apply andb_true_iff in Hab as [H1 H2]. apply andb_true_iff in Hbc as [H3 H4].
  apply Nat.eqb_eq in H1, H3. subst. rewrite Nat.eqb_refl. cbn. eauto.
Qed.

Lemma prefixb_length : forall a b, prefixb a b = true -> List.length a <= List.length b.
Proof.
  induction a as [|x a IH]; intros [|y b] H; cbn in *; try lia; try discriminate.
  apply andb_true_iff in H as [_ H]. apply IH in H. lia.
Qed.

(* two prefixes of the same list: the shorter one is a prefix of the longer one *)
Lemma prefixb_common : forall a b s, prefixb a s = true -> prefixb b s = true -> List.length a <= List.length b -> prefixb a b = true.
Proof.
  induction a as [|x a IH]; intros b s Ha Hb Hl; [apply prefixb_nil|].
  destruct b as [|y b]; [cbn in Hl; lia|]. destruct s as [|z s]; [discriminate|].
  cbn in *. apply andb_true_iff in Ha as [H1 H2]. apply andb_true_iff in Hb as [H3 H4].
  apply Nat.eqb_eq in H1, H3. subst. rewrite Nat.eqb_refl. cbn. eapply IH; eauto. lia.
Qed.

Lemma prefixb_app : forall a b, prefixb a (a ++ b) = true.
Proof. induction a as [|x a IH]; intros b; cbn; [reflexivity|]. now rewrite Nat.eqb_refl, IH. Qed.

Lemma prefixb_firstn : forall n s, prefixb (firstn n s) s = true.
Proof.
  induction n as [|n IH]; intros [|x s]; cbn; try reflexivity. now rewrite Nat.eqb_refl, IH.
Qed.

Lemma shape_eqb_eq : forall a b, shape_eqb a b = true <-> a = b.
Proof.
  induction a as [|x a IH]; intros [|y b]; cbn; split; intros H; try discriminate; try reflexivity.
  - apply andb_true_iff in H as [H1 H2]. apply Nat.eqb_eq in H1. apply IH in H2. now subst.
  - injection H as -> ->. rewrite Nat.eqb_refl. cbn. now apply IH.
Qed.

Lemma dev_eqb_eq : forall a b, dev_eqb a b = true <-> a = b.
Proof. intros [] []; cbn; split; intros H; try discriminate; reflexivity. Qed.

Lemma odev_eqb_eq : forall a b, odev_eqb a b = true <-> a = b.
Proof.
  intros [a|] [b|]; cbn; split; intros H; try discriminate; try reflexivity.
  - apply dev_eqb_eq in H. now subst.
  - injection H as ->. now apply dev_eqb_eq.
Qed.

(* ---- coherence under a context ---- *)
Lemma coh_node : forall pbs pdv k bs dv nm es,
  coh pbs pdv (Node k bs dv nm es) = prefixb pbs bs && dev_ok k pdv dv && names_ok nm bs && coh_ents bs dv es.
Proof. reflexivity. Qed.

Lemma coh_node_iff : forall pbs pdv k bs dv nm es,
  coh pbs pdv (Node k bs dv nm es) = true <->
  prefixb pbs bs = true /\ dev_ok k pdv dv = true /\ names_ok nm bs = true /\ coh_ents bs dv es = true.
Proof. intros. rewrite coh_node, !andb_true_iff. tauto. Qed.

Lemma coh_leaf_iff : forall pbs pdv sh d,
  coh pbs pdv (Leaf sh d) = true <-> prefixb pbs sh = true /\ dev_ok KTd pdv (Some d) = true.
Proof. intros. cbn [coh]. rewrite andb_true_iff. tauto. Qed.

Lemma coh_ents_cons : forall bs dv k c r, coh_ents bs dv ((k, c) :: r) = coh bs dv c && coh_ents bs dv r.
Proof. reflexivity. Qed.

Lemma coh_ents_forall : forall bs dv es, coh_ents bs dv es = true <-> Forall (fun kv => coh bs dv (snd kv) = true) es.
Proof. intros. unfold coh_ents. rewrite forallb_forall, Forall_forall. tauto. Qed.

(* the context only constrains the top of the entry: its shape prefix and its device *)
Lemma coh_reprefix : forall p p' d t, coh p d t = true -> prefixb p' (tshape t) = true -> coh p' d t = true.
Proof.
  intros p p' d [sh dd|k bs dv nm es] H Hp; cbn [tshape] in Hp.
  - apply coh_leaf_iff in H as [_ H]. apply coh_leaf_iff. auto.
  - apply coh_node_iff in H as (_ & H2 & H3 & H4). apply coh_node_iff. auto.
Qed.

Lemma dev_ok_none : forall k d, dev_ok k None d = true.
Proof. reflexivity. Qed.

Lemma coh_nodev : forall p d t, coh p d t = true -> coh p None t = true.
Proof.
  intros p d [sh dd|k bs dv nm es] H.
  - apply coh_leaf_iff in H as [H _]. apply coh_leaf_iff. auto.
  - apply coh_node_iff in H as (H1 & _ & H3 & H4). apply coh_node_iff. auto.
Qed.

Lemma coh_weaken : forall p p' d t, coh p d t = true -> prefixb p' p = true -> coh p' d t = true.
Proof.
  intros p p' d t H Hp. eapply coh_reprefix; eauto.
  destruct t as [sh dd|k bs dv nm es].
  - apply coh_leaf_iff in H as [H _]. cbn. eapply prefixb_trans; eauto.
  - apply coh_node_iff in H as (H & _). cbn. eapply prefixb_trans; eauto.
Qed.

(* an entry that is coherent in a nested context is coherent in the context of an ancestor *)
Lemma dev_ok_up : forall k pdv dv kc d,
  dev_ok k pdv dv = true -> dev_ok kc dv d = true -> (k = KTd \/ dv <> None) -> dev_ok kc pdv d = true.
Proof.
  intros k [x|] [y|] kc d H1 H2 Hk; cbn in *; try reflexivity.
  - apply dev_eqb_eq in H1. now subst.
  - destruct Hk as [->|Hk]; [discriminate|congruence].
Qed.

Lemma coh_up : forall pbs pdv bs dv t,
  prefixb pbs bs = true -> dev_ok KTd pdv dv = true -> coh bs dv t = true -> coh pbs pdv t = true.
Proof.
  intros pbs pdv bs dv t Hp Hd H.
  destruct t as [sh dd|k cbs cdv nm es].
  - apply coh_leaf_iff in H as [H1 H2]. apply coh_leaf_iff. split; [eapply prefixb_trans; eauto|].
    eapply dev_ok_up; eauto.
  - apply coh_node_iff in H as (H1 & H2 & H3 & H4). apply coh_node_iff. repeat split; auto.
    + eapply prefixb_trans; eauto.
    + eapply dev_ok_up; eauto.
Qed.

(* ---- the storage dict ---- *)
Lemma aget_in : forall k es c, aget k es = Some c -> In (k, c) es.
Proof.
  induction es as [|[k' v] r IH]; intros c H; cbn in *; [discriminate|].
  destruct (String.eqb k k') eqn:E.
  - apply String.eqb_eq in E. injection H as ->. subst. now left.
  - right. auto.
Qed.

Lemma coh_ents_aget : forall bs dv es k c, coh_ents bs dv es = true -> aget k es = Some c -> coh bs dv c = true.
Proof.
  intros bs dv es k c H Hg. apply coh_ents_forall in H. rewrite Forall_forall in H.
  apply aget_in in Hg. apply (H _ Hg).
Qed.

Lemma coh_ents_aset : forall bs dv es k c, coh_ents bs dv es = true -> coh bs dv c = true -> coh_ents bs dv (aset k c es) = true.
Proof.
  induction es as [|[k' v] r IH]; intros k c H Hc; cbn [aset].
  - rewrite coh_ents_cons, Hc. reflexivity.
  - rewrite coh_ents_cons in H. apply andb_true_iff in H as [H1 H2].
    destruct (String.eqb k k'); rewrite coh_ents_cons.
    + now rewrite Hc, H2.
    + rewrite H1. cbn. auto.
Qed.

Lemma coh_ents_adel : forall bs dv es k, coh_ents bs dv es = true -> coh_ents bs dv (adel k es) = true.
Proof.
  induction es as [|[k' v] r IH]; intros k H; cbn [adel]; [reflexivity|].
  rewrite coh_ents_cons in H. apply andb_true_iff in H as [H1 H2].
  destruct (String.eqb k k'); [exact H2|]. rewrite coh_ents_cons, H1. cbn. auto.
Qed.

Lemma coh_ents_removelast : forall bs dv es, coh_ents bs dv es = true -> coh_ents bs dv (removelast es) = true.
Proof.
  induction es as [|[k v] r IH]; intros H; [reflexivity|].
  rewrite coh_ents_cons in H. apply andb_true_iff in H as [H1 H2].
  destruct r as [|kv r']; [reflexivity|]. change (removelast ((k, v) :: kv :: r')) with ((k, v) :: removelast (kv :: r')).
  rewrite coh_ents_cons, H1. cbn. auto.
Qed.

Lemma coh_ents_nil : forall bs dv, coh_ents bs dv [] = true.
Proof. reflexivity. Qed.

(* a fresh empty node with the metadata of its parent is a coherent entry of that parent *)
Lemma dev_ok_self : forall k dv, dev_ok k dv dv = true.
Proof. intros k [d|]; cbn; [now apply dev_eqb_eq|reflexivity]. Qed.

Lemma coh_fresh : forall k bs dv nm, names_ok nm bs = true -> coh bs dv (Node k bs dv nm []) = true.
Proof. intros. apply coh_node_iff. repeat split; auto using prefixb_refl, dev_ok_self. Qed.

(* ---- hollow nodes ---- *)
Lemma is_empty_no_tensor : forall t, is_empty t = true -> holds_tensor t = false.
Proof.
  induction t as [sh d|k bs dv nm es IH] using tree_ind2; intros H; cbn in *; [discriminate|].
  destruct k; [|discriminate].
  induction es as [|[key c] r IHr]; cbn in *; [reflexivity|].
  apply andb_true_iff in H as [H1 H2]. inversion IH as [|? ? Hc Hr]; subst. cbn in Hc.
  rewrite (Hc H1). cbn. auto.
Qed.

(* every tensor below has the given leading dims *)
Fixpoint leaves_pref (p : list nat) (t : tree) : bool :=
  match t with
  | Leaf sh _ => prefixb p sh
  | Node _ _ _ _ es => forallb (fun kv => leaves_pref p (snd kv)) es
  end.

Lemma coh_leaves_pref : forall t p d, coh p d t = true -> leaves_pref p t = true.
Proof.
  induction t as [sh dd|k bs dv nm es IH] using tree_ind2; intros p d H.
  - apply coh_leaf_iff in H as [H _]. exact H.
  - apply coh_node_iff in H as (H1 & _ & _ & H4). cbn. apply forallb_forall. intros kv Hin.
    rewrite Forall_forall in IH. apply coh_ents_forall in H4. rewrite Forall_forall in H4.
    eapply IH; eauto. eapply coh_weaken; [apply (H4 _ Hin)|exact H1].
Qed.

Lemma leaves_pref_common : forall t a b,
  holds_tensor t = true -> leaves_pref a t = true -> leaves_pref b t = true -> List.length a <= List.length b -> prefixb a b = true.
Proof.
  induction t as [sh dd|k bs dv nm es IH] using tree_ind2; intros a b Hh Ha Hb Hl; cbn in *.
  - eapply prefixb_common; eauto.
  - apply existsb_exists in Hh as (kv & Hin & Hh). rewrite forallb_forall in Ha, Hb. rewrite Forall_forall in IH.
    eapply IH; eauto.
Qed.
