(* C02 proofs, part 5: torch.stack / torch.cat over a list of tensordicts (without out=).
   The operands have the same keys; for stack the same shapes, for cat the same shapes off the concatenation dim. *)
From Coq Require Import ZArith List Bool Lia ZifyBool String.
Import ListNotations.
From TD Require Import Spec.PySlice Spec.C02_TorchShape Model.C02_ShapeOps Proofs.C02_FrameP Proofs.C02_OpsP.
Open Scope Z_scope.
Ltac Zify.zify_post_hook ::= Z.to_euclidean_division_equations.

(* keys are unique inside every node (a Python dict) *)
Inductive ukeys : tree -> Prop :=
| uk_leaf sh : ukeys (Leaf sh)
| uk_node bs nm ents : NoDup (map fst ents) -> Forall (fun e => ukeys (snd e)) ents -> ukeys (Node bs nm ents).

(* t2 has the keys of t1 (same order) and, entry by entry, shapes related by R *)
Section cong.
  Variable R : list Z -> list Z -> Prop.
  Inductive cong : tree -> tree -> Prop :=
  | cg_leaf a b : R a b -> cong (Leaf a) (Leaf b)
  | cg_node b1 n1 e1 b2 n2 e2 : R b1 b2 ->
      Forall2 (fun x y => fst x = fst y /\ cong (snd x) (snd y)) e1 e2 -> cong (Node b1 n1 e1) (Node b2 n2 e2).
End cong.

Lemma lookup_forall2 {R} k c (e1 e2 : list (string * tree)) :
  Forall2 (fun x y => fst x = fst y /\ cong R (snd x) (snd y)) e1 e2 ->
  NoDup (map fst e1) -> In (k, c) e1 ->
  exists c2, lookup k e2 = Some c2 /\ cong R c c2.
Proof.
  intros HF. induction HF as [|[k1 c1] [k2 c2] l1 l2 [Hk Hc] _ IH]; intros Hnd Hin; [destruct Hin|].
  cbn [fst snd] in *. subst k2. cbn [map fst] in Hnd. inversion Hnd as [|? ? Hni Hnd']; subst.
  cbn [lookup]. destruct Hin as [Heq|Hin].
  - injection Heq as -> ->. rewrite String.eqb_refl. eauto.
  - destruct (String.eqb k k1) eqn:E.
    + apply String.eqb_eq in E. subst. exfalso. apply Hni. apply in_map_iff. exists (k1, c). split; [reflexivity|exact Hin].
    + apply IH; assumption.
Qed.

Lemma collect_cong {R} k c e1 bs nm (others : list tree) :
  Forall (cong R (Node bs nm e1)) others -> NoDup (map fst e1) -> In (k, c) e1 ->
  exists cs, collect k others = Some cs /\ Forall (cong R c) cs /\ List.length cs = List.length others.
Proof.
  intros HF Hnd Hin. induction HF as [|o os Ho _ IH]; [exists []; repeat split; constructor|].
  inversion Ho as [|? ? ? b2 n2 e2 _ HF2]; subst. cbn [collect].
  destruct (lookup_forall2 k c e1 e2 HF2 Hnd Hin) as [c2 [Hl Hc]]. rewrite Hl.
  destruct IH as [cs [Hcs [Hall Hlen]]]. rewrite Hcs. exists (c2 :: cs). split; [reflexivity|]. split; [constructor; assumption|cbn; lia].
Qed.

Lemma all_leaves_cong {R} sh (cs : list tree) : Forall (cong R (Leaf sh)) cs ->
  exists shs, all_leaves cs = Some shs /\ Forall (R sh) shs /\ List.length shs = List.length cs.
Proof.
  intros HF. induction HF as [|c cs Hc _ IH]; [exists []; repeat split; constructor|].
  inversion Hc; subst. destruct IH as [shs [Ha [Hr Hl]]]. cbn [all_leaves fold_right]. cbn [all_leaves] in Ha. unfold all_leaves in Ha.
  rewrite Ha. exists (b :: shs). split; [reflexivity|]. split; [constructor; assumption|cbn; lia].
Qed.

Lemma forallb_list_eqb_same sh shs : Forall (eq sh) shs -> forallb (list_eqb sh) shs = true.
Proof. intros H. apply forallb_forall. intros x Hx. rewrite Forall_forall in H. rewrite <- (H x Hx). apply list_eqb_refl. Qed.

Lemma depth_child k c bs nm ents : In (k, c) ents -> (depth c < depth (Node bs nm ents))%nat.
Proof.
  intros Hin. cbn [depth]. induction ents as [|[k' c'] l IH]; [destruct Hin|]. cbn [fold_right snd].
  destruct Hin as [Heq|Hin]; [injection Heq as -> ->; lia|]. specialize (IH Hin). lia.
Qed.

(* ------------------------------------------------------------------ stack *)
Theorem stack_lifts : forall fuel t others i bs tl,
  wf t -> ukeys t -> top_shape t = bs ++ tl -> Forall (cong eq t) others -> (i <= List.length bs)%nat ->
  (depth t <= fuel)%nat ->
  exists t', stack_at fuel t others (Z.of_nat i) = Done t' /\
             rel bs (insert_nth i (Z.of_nat (S (List.length others))) bs) t t' /\ wf t'.
Proof.
  induction fuel as [|fuel IHf]; intros t others i bs tl Hw Hu Ht Hc Hi Hd.
  { destruct t; cbn in Hd; lia. }
  destruct t as [sh|b nm ents]; cbn [top_shape] in Ht; subst; cbn [stack_at].
  - inversion Hw as [? Hn|]; subst.
    destruct (all_leaves_cong (bs ++ tl) others Hc) as [shs [Ha [Hr Hl]]]. rewrite Ha.
    unfold t_stack. rewrite (forallb_list_eqb_same _ _ Hr).
    rewrite wrap_dim_nat by (rewrite app_length; lia). cbn [bind lift bindo].
    rewrite insert_nth_app_l by lia. cbn [List.length]. rewrite <- Hl.
    eexists. split; [reflexivity|]. split; [constructor|]. constructor.
    apply nonneg_app in Hn. apply nonneg_app. split; [apply nonneg_insert; [lia|tauto]|tauto].
  - inversion Hw as [|? ? ? Hnn Hnm HF]; subst. inversion Hu as [|? ? ? Hnd HFu]; subst.
    destruct (Z.of_nat i <? 0) eqn:E0; [lia|].
    assert (Hbs : forallb (fun t => match t with Node b _ _ => list_eqb b (bs ++ tl) | Leaf _ => false end) others = true).
    { apply forallb_forall. intros o Ho. rewrite Forall_forall in Hc. specialize (Hc o Ho). inversion Hc; subst. apply list_eqb_refl. }
    rewrite Hbs. cbn [negb]. change fixed_D22 with true. cbn [andb].
    destruct (Z.of_nat (List.length (bs ++ tl)) <? Z.of_nat i) eqn:E00; [rewrite app_length in E00; lia|]. rewrite ?E0. cbn [orb].
    assert (Hents : forall l, (forall k c, In (k, c) l -> In (k, c) ents) -> exists ents',
      (fix go (l : list (string * tree)) : out (list (string * tree)) :=
         match l with
         | [] => Done []
         | (k, c) :: r =>
             match collect k others with
             | None => Raised EKey
             | Some cs =>
                 if negb (forallb (fun t => list_eqb (top_shape t) (top_shape c)) cs) then Raised ERuntime
                 else let* c' := stack_at fuel c cs (Z.of_nat i) in let* r' := go r in Done ((k, c') :: r')
             end
         end) l = Done ents' /\
      Forall2 (fun e e' => fst e = fst e' /\ rel bs (insert_nth i (Z.of_nat (S (List.length others))) bs) (snd e) (snd e')) l ents' /\
      Forall (fun e => wf (snd e) /\ exists tl2, top_shape (snd e) = (insert_nth i (Z.of_nat (S (List.length others))) bs ++ tl) ++ tl2) ents').
    { intros l. induction l as [|[k c] l IHl]; intros Hsub.
      - exists []. split; [reflexivity|split; constructor].
      - assert (Hin : In (k, c) ents) by (apply Hsub; left; reflexivity).
        destruct (collect_cong k c ents (bs ++ tl) nm others Hc Hnd Hin) as [cs [Hcs [Hall Hlen]]]. rewrite Hcs.
        assert (Hsh : forallb (fun t => list_eqb (top_shape t) (top_shape c)) cs = true).
        { apply forallb_forall. intros x Hx. rewrite Forall_forall in Hall. specialize (Hall x Hx).
          inversion Hall; subst; cbn [top_shape]; apply list_eqb_refl. }
        rewrite Hsh. cbn [negb].
        rewrite Forall_forall in HF, HFu. destruct (HF _ Hin) as [Hwc [tl2 Hcsh]]. specialize (HFu _ Hin). cbn [snd] in *.
        pose proof (depth_child k c (bs ++ tl) nm ents Hin) as Hdc.
        destruct (IHf c cs i (bs ++ tl) tl2 Hwc HFu Hcsh Hall ltac:(rewrite app_length; lia) ltac:(lia)) as [c' [Hc' [Hr' Hw']]].
        rewrite Hc'. cbn [bindo]. rewrite Hlen in Hr'. rewrite insert_nth_app_l in Hr' by lia.
        destruct (IHl ltac:(intros k0 c0 H0; apply Hsub; right; exact H0)) as [l' [Hl' [HF2 HF3]]].
        rewrite Hl'. cbn [bindo]. exists ((k, c') :: l'). split; [reflexivity|]. split; constructor; try assumption; cbn [fst snd].
        + split; [reflexivity|]. eapply rel_weaken. exact Hr'.
        + split; [exact Hw'|]. destruct (rel_top _ _ _ _ Hr') as [tl3 [_ E2]]. exists tl3. exact E2. }
    destruct (Hents ents ltac:(auto)) as [ents' [He [HF2 HF3]]]. rewrite He. cbn [bindo].
    rewrite py_insert_in by (rewrite app_length; lia). rewrite insert_nth_app_l by lia.
    eexists. split; [reflexivity|]. split; [constructor; exact HF2|].
    constructor; [|exact I|exact HF3].
    apply nonneg_app in Hnn. apply nonneg_app. split; [apply nonneg_insert; [lia|tauto]|tauto].
Qed.

(* the call as the user makes it: any dim torch accepts for the common batch shape *)
Theorem stack_acts_on_batch_dims : forall t others d bs',
  wf t -> ukeys t -> is_node t -> Forall (cong eq t) others ->
  t_stack (map top_shape (t :: others)) d = Ok bs' ->
  exists t', td_stack (t :: others) d = Done t' /\ top_shape t' = bs' /\ rel (top_shape t) bs' t t' /\ wf t'.
Proof.
  intros t others d bs' Hw Hu Hn Hc Ht. destruct t as [sh|bs nm ents]; [contradiction|]. cbn [top_shape map] in *.
  unfold t_stack in Ht. destruct (forallb _ _); [|discriminate].
  destruct (wrap_dim d (S (List.length bs))) as [i|] eqn:Ei; [|discriminate]. cbn [bind] in Ht. injection Ht as <-.
  pose proof (wrap_dim_ok _ _ _ Ei) as [Hi1 Hi2].
  cbn [td_stack]. cbn [List.length]. rewrite map_length.
  destruct (stack_lifts (S (depth (Node bs nm ents))) (Node bs nm ents) others i bs [] Hw Hu
              ltac:(cbn; rewrite app_nil_r; reflexivity) Hc ltac:(lia) ltac:(lia)) as [t' [Hs [Hr Hw']]].
  (* the raw dim and the normalised one give the same computation at the root: dd is computed from d there *)
  assert (Hraw : stack_at (S (depth (Node bs nm ents))) (Node bs nm ents) others d
                 = stack_at (S (depth (Node bs nm ents))) (Node bs nm ents) others (Z.of_nat i)).
  { cbn [stack_at]. destruct (d <? 0) eqn:E1; destruct (Z.of_nat i <? 0) eqn:E2; try lia.
    - replace (Z.of_nat (List.length bs) + d + 1) with (Z.of_nat i) by lia. reflexivity.
    - replace d with (Z.of_nat i) by lia. reflexivity. }
  rewrite Hraw, Hs. exists t'. split; [reflexivity|]. split; [|split; assumption].
  destruct (rel_top _ _ _ _ Hr) as [tl [E1 E2]]. cbn [top_shape] in E1.
  rewrite <- (app_nil_r bs) in E1 at 1. apply app_inv_head in E1. subst tl. rewrite app_nil_r in E2. exact E2.
Qed.

(* ------------------------------------------------------------------ boolean twins for examples *)
Fixpoint ukeysb (t : tree) : bool :=
  match t with
  | Leaf _ => true
  | Node _ _ ents =>
      (fix nd (l : list (string * tree)) : bool :=
         match l with [] => true | (k, _) :: r => negb (existsb (fun e => String.eqb k (fst e)) r) && nd r end) ents &&
      (fix go (l : list (string * tree)) : bool := match l with [] => true | (_, c) :: r => ukeysb c && go r end) ents
  end.

Lemma existsb_keys_false k (l : list (string * tree)) : existsb (fun e => String.eqb k (fst e)) l = false -> ~ In k (map fst l).
Proof.
  induction l as [|[k' c] l IH]; cbn; intros H; [tauto|]. apply orb_false_iff in H. destruct H as [H1 H2].
  intros [Heq|Hin]; [subst; rewrite String.eqb_refl in H1; discriminate|]. exact (IH H2 Hin).
Qed.

Lemma ukeysb_ukeys t : ukeysb t = true -> ukeys t.
Proof.
  induction t as [sh|bs nm ents IH] using tree_ind'; intros H; [constructor|]. cbn [ukeysb] in H.
  apply andb_true_iff in H. destruct H as [H1 H2]. constructor.
  - clear H2 IH. induction ents as [|[k c] l IHl]; [constructor|]. apply andb_true_iff in H1. destruct H1 as [Hk Hr].
    cbn [map fst]. constructor; [apply existsb_keys_false; apply negb_true_iff; exact Hk|exact (IHl Hr)].
  - clear H1. induction ents as [|[k c] l IHl]; constructor.
    + apply andb_true_iff in H2. destruct H2 as [Hc _]. exact (Forall_inv IH Hc).
    + apply andb_true_iff in H2. destruct H2 as [_ Hr]. exact (IHl (Forall_inv_tail IH) Hr).
Qed.

Lemma cong_refl t : cong eq t t.
Proof.
  induction t as [sh|bs nm ents IH] using tree_ind'; constructor; try reflexivity.
  induction ents as [|e l IHl]; constructor; [split; [reflexivity|exact (Forall_inv IH)]|exact (IHl (Forall_inv_tail IH))].
Qed.

Lemma ex_tree_ukeys : ukeys ex_tree_P.
Proof. apply ukeysb_ukeys. vm_compute. reflexivity. Qed.
Lemma ex_tree_cong : cong eq ex_tree_P ex_tree_P.
Proof. apply cong_refl. Qed.

(* ------------------------------------------------------------------ cat *)
Lemma sumZ_nonneg' l : nonneg l -> 0 <= sumZ l.
Proof. unfold sumZ. induction l as [|y l IH]; cbn; intros Hn; [lia|]. apply nonneg_cons in Hn. destruct Hn as [Hy Hn]. specialize (IH Hn). lia. Qed.

(* shapes of two operands of cat along position i: same rank, equal off position i *)
Definition cat_R (i : nat) (a b : list Z) : Prop := List.length a = List.length b /\ remove_nth i a = remove_nth i b.

Definition ents_of (t : tree) : list (string * tree) := match t with Node _ _ e => e | Leaf _ => [] end.

Lemma lookup_In k (l : list (string * tree)) c : lookup k l = Some c -> In (k, c) l.
Proof.
  induction l as [|[k' c'] l IH]; cbn [lookup]; intros H; [discriminate|].
  destruct (String.eqb k k') eqn:E; [apply String.eqb_eq in E; subst; injection H as ->; left; reflexivity|right; exact (IH H)].
Qed.

Lemma collect_In k others cs : collect k others = Some cs -> Forall2 (fun o c' => In (k, c') (ents_of o)) others cs.
Proof.
  revert cs. induction others as [|o os IH]; intros cs H; cbn [collect] in H; [injection H as <-; constructor|].
  destruct o as [sh|b n e]; [discriminate|]. destruct (lookup k e) as [v|] eqn:E1; [|discriminate].
  destruct (collect k os) as [vs|] eqn:E2; [|discriminate]. injection H as <-.
  constructor; [apply lookup_In; exact E1|apply IH; reflexivity].
Qed.

Lemma wf_child b n e k c : wf (Node b n e) -> In (k, c) e -> wf c /\ exists tl, top_shape c = b ++ tl.
Proof. intros Hw Hin. inversion Hw as [|? ? ? _ _ HF]; subst. rewrite Forall_forall in HF. exact (HF _ Hin). Qed.

Lemma remove_nth_inj_tail (a b ta tb : list Z) i :
  (i < List.length a)%nat -> List.length a = List.length b ->
  remove_nth i (a ++ ta) = remove_nth i (b ++ tb) -> remove_nth i a = remove_nth i b /\ ta = tb.
Proof.
  intros Hi Hl H. rewrite !remove_nth_app_l in H by lia.
  assert (Hl2 : List.length (remove_nth i a) = List.length (remove_nth i b)) by (rewrite !remove_nth_length; lia).
  split.
  - apply (f_equal (firstn (List.length (remove_nth i a)))) in H. rewrite firstn_app_l, firstn_all in H by lia.
    rewrite Hl2, firstn_app_l, firstn_all in H by lia. exact H.
  - apply (f_equal (skipn (List.length (remove_nth i a)))) in H. rewrite skipn_app_exact in H.
    rewrite Hl2, skipn_app_exact in H. exact H.
Qed.

Lemma set_nth_remove (a : list Z) i x : (i < List.length a)%nat -> set_nth i x a = firstn i a ++ x :: skipn (S i) a.
Proof. reflexivity. Qed.

Lemma eq_off_R i a b : (i < List.length a)%nat -> cat_R i a b -> Nat.eqb (List.length b) (List.length a) && eq_off i a b = true.
Proof.
  intros Hi [Hl Hr]. apply andb_true_iff. split; [apply Nat.eqb_eq; lia|]. unfold eq_off. rewrite Hr. apply list_eqb_refl.
Qed.

Lemma all_leaves_shapes l shs : all_leaves l = Some shs -> map top_shape l = shs.
Proof.
  revert shs. induction l as [|o os IH]; intros shs H.
  - cbn in H. injection H as <-. reflexivity.
  - unfold all_leaves in H. cbn [fold_right] in H. fold (all_leaves os) in H.
    destruct o as [s|b n e]; [|discriminate]. destruct (all_leaves os) as [r|] eqn:E; [|discriminate].
    injection H as <-. cbn [map top_shape]. f_equal. apply IH. reflexivity.
Qed.

Theorem cat_lifts : forall fuel t others i bs tl,
  wf t -> ukeys t -> top_shape t = bs ++ tl -> (i < List.length bs)%nat ->
  Forall (cong (cat_R i) t) others -> Forall wf others ->
  nonneg (map (fun o => nthZ (top_shape o) i) others) ->
  (depth t <= fuel)%nat ->
  exists t', cat_at fuel t others (Z.of_nat i) = Done t' /\
             rel bs (set_nth i (nthZ bs i + sumZ (map (fun o => nthZ (top_shape o) i) others)) bs) t t' /\ wf t'.
Proof.
  induction fuel as [|fuel IHf]; intros t others i bs tl Hw Hu Ht Hi Hc Hwo Hnn Hd.
  { destruct t; cbn in Hd; lia. }
  set (sizes := map (fun o => nthZ (top_shape o) i) others) in *.
  assert (Hsz : map (fun o => nthZ (top_shape o) i) others = sizes) by reflexivity.
  destruct t as [sh|b nm ents]; cbn [top_shape] in Ht; subst b || subst sh; cbn [cat_at].
  - inversion Hw as [? Hn|]; subst.
    destruct (all_leaves_cong (bs ++ tl) others Hc) as [shs [Ha [Hr Hl]]]. rewrite Ha.
    assert (Hsizes : map (fun s => nthZ s i) shs = map (fun o => nthZ (top_shape o) i) others)
      by (rewrite <- (all_leaves_shapes _ _ Ha), map_map; reflexivity).
    unfold t_cat. destruct (bs ++ tl) as [|x0 r0] eqn:E; [destruct bs; cbn in *; [lia|discriminate]|]. rewrite <- E in *.
    rewrite wrap_dim_nat by (rewrite app_length; lia). cbn [bind].
    assert (Hchk : forallb (fun t0 => Nat.eqb (List.length t0) (List.length (bs ++ tl)) && eq_off i (bs ++ tl) t0) shs = true).
    { apply forallb_forall. intros s Hs. rewrite Forall_forall in Hr. apply eq_off_R; [rewrite app_length; lia|exact (Hr s Hs)]. }
    rewrite Hchk. cbn [lift bindo map sumZ fold_right]. fold (sumZ (map (fun t0 => nthZ t0 i) shs)).
    rewrite Hsizes, nthZ_app_l, set_nth_app_l by lia.
    eexists. split; [reflexivity|]. split; [constructor|]. constructor.
    apply nonneg_app in Hn. apply nonneg_app. split; [|tauto]. apply nonneg_set; [|tauto].
    pose proof (nonneg_nth bs i ltac:(tauto)). pose proof (sumZ_nonneg' _ Hnn). subst sizes. lia.
  - inversion Hw as [|? ? ? Hnn0 Hnm HF]; subst. inversion Hu as [|? ? ? Hnd HFu]; subst.
    destruct (Z.of_nat i <? 0) eqn:E0; [lia|]. rewrite app_length.
    destruct (Z.of_nat (List.length bs + List.length tl) <=? Z.of_nat i) eqn:E1; [lia|].
    change fixed_D22 with true. cbn [andb]. rewrite ?E0.
    destruct (Z.of_nat i <? - Z.of_nat (List.length bs + List.length tl)) eqn:E2; [lia|].
    (* every other operand is a node of the same rank *)
    assert (Hnodes : forallb (fun t => match t with Node _ _ _ => true | Leaf _ => false end) others = true).
    { apply forallb_forall. intros o Ho. rewrite Forall_forall in Hc. specialize (Hc o Ho). inversion Hc; subst. reflexivity. }
    rewrite Hnodes.
    assert (Hranks : forallb (fun b => (- len b <=? Z.of_nat i) && (Z.of_nat i <? len b)) (map top_shape others) = true).
    { apply forallb_forall. intros b Hb. apply in_map_iff in Hb. destruct Hb as [o [<- Ho]].
      rewrite Forall_forall in Hc. specialize (Hc o Ho). inversion Hc as [|? ? ? b2 n2 e2 [HRl _] _]; subst. cbn [top_shape].
      unfold len. rewrite <- HRl, app_length. apply andb_true_iff. split; lia. }
    rewrite Hranks. cbn [negb].
    assert (Hpos : forall b : list Z, py_pos b (Z.of_nat i) = i) by (intros; unfold py_pos; rewrite E0; apply Nat2Z.id).
    rewrite Hpos. cbn [map sumZ fold_right]. rewrite Hpos.
    assert (Hmm : map (fun b => nthZ b (py_pos b (Z.of_nat i))) (map top_shape others) = sizes).
    { rewrite map_map. rewrite <- Hsz. apply map_ext. intros o. rewrite Hpos. reflexivity. }
    fold (sumZ (map (fun b => nthZ b (py_pos b (Z.of_nat i))) (map top_shape others))). rewrite Hmm.
    rewrite nthZ_app_l, set_nth_app_l by lia.
    set (bs' := set_nth i (nthZ bs i + sumZ sizes) bs).
    assert (Hents : forall l, (forall k c, In (k, c) l -> In (k, c) ents) -> exists ents',
      (fix go (l : list (string * tree)) : out (list (string * tree)) :=
         match l with
         | [] => Done []
         | (k, c) :: r =>
             match collect k others with
             | None => Raised EKey
             | Some cs => let* c' := cat_at fuel c cs (Z.of_nat i) in let* r' := go r in Done ((k, c') :: r')
             end
         end) l = Done ents' /\
      Forall2 (fun e e' => fst e = fst e' /\ rel bs bs' (snd e) (snd e')) l ents' /\
      Forall (fun e => wf (snd e) /\ exists tl2, top_shape (snd e) = (bs' ++ tl) ++ tl2) ents').
    { intros l. induction l as [|[k c] l IHl]; intros Hsub.
      - exists []. split; [reflexivity|split; constructor].
      - assert (Hin : In (k, c) ents) by (apply Hsub; left; reflexivity).
        destruct (collect_cong k c ents (bs ++ tl) nm others Hc Hnd Hin) as [cs [Hcs [Hall Hlen]]]. rewrite Hcs.
        pose proof (collect_In k others cs Hcs) as HIn.
        rewrite Forall_forall in HF, HFu. destruct (HF _ Hin) as [Hwc [tl2 Hcsh]]. specialize (HFu _ Hin). cbn [snd] in *.
        pose proof (depth_child k c (bs ++ tl) nm ents Hin) as Hdc.
        (* the operands' entries are well formed and have the operands' sizes at position i *)
        assert (Hcs_wf : Forall wf cs /\ map (fun o => nthZ (top_shape o) i) cs = sizes).
        { rewrite <- Hsz. clear - HIn Hwo Hc Hi. revert Hwo Hc. induction HIn as [|o c' os cs' Hino _ IH]; intros Hwo Hc; [split; constructor|].
          pose proof (Forall_inv Hwo) as Hwo1. pose proof (Forall_inv Hc) as Hc1.
          destruct (IH (Forall_inv_tail Hwo) (Forall_inv_tail Hc)) as [I1 I2].
          inversion Hc1 as [|? ? ? b2 n2 e2 [HRl _] _]; subst. cbn [ents_of] in Hino.
          destruct (wf_child _ _ _ _ _ Hwo1 Hino) as [Hwc' [tl' Hts]].
          split; [constructor; assumption|]. cbn [map top_shape]. rewrite I2. f_equal.
          rewrite Hts. apply nthZ_app_l. rewrite <- HRl, app_length. lia. }
        destruct Hcs_wf as [Hcw Hcsz].
        destruct (IHf c cs i (bs ++ tl) tl2 Hwc HFu Hcsh ltac:(rewrite app_length; lia) Hall Hcw ltac:(rewrite Hcsz; exact Hnn) ltac:(lia))
          as [c' [Hc' [Hr' Hw']]]. rewrite Hcsz in Hr'.
        rewrite Hc'. cbn [bindo]. rewrite nthZ_app_l, set_nth_app_l in Hr' by lia. fold bs' in Hr'.
        destruct (IHl ltac:(intros k0 c0 H0; apply Hsub; right; exact H0)) as [l' [Hl' [HF2 HF3]]].
        rewrite Hl'. cbn [bindo]. exists ((k, c') :: l'). split; [reflexivity|]. split; constructor; try assumption; cbn [fst snd].
        + split; [reflexivity|]. eapply rel_weaken. exact Hr'.
        + split; [exact Hw'|]. destruct (rel_top _ _ _ _ Hr') as [tl3 [_ E3]]. exists tl3. exact E3. }
    destruct (Hents ents ltac:(auto)) as [ents' [He [HF2 HF3]]]. rewrite He. cbn [bindo].
    eexists. split; [reflexivity|]. split; [constructor; exact HF2|].
    constructor; [| |exact HF3].
    + apply nonneg_app in Hnn0. apply nonneg_app. split; [|tauto]. unfold bs'. apply nonneg_set; [|tauto].
      pose proof (nonneg_nth bs i ltac:(tauto)). pose proof (sumZ_nonneg' _ Hnn). subst sizes. lia.
    + destruct nm as [ln|]; cbn [has_names names_wf] in *; [|exact I]. rewrite Hnm. unfold bs'.
      rewrite !app_length, set_nth_length by lia. reflexivity.
Qed.

Lemma wf_top_nonneg t : wf t -> nonneg (top_shape t).
Proof. intros H. inversion H; subst; assumption. Qed.

(* the call as the user makes it: any dim torch accepts; the operands have the keys of the first one and, entry by
   entry, its shapes off the concatenation dim *)
Theorem cat_acts_on_batch_dims : forall t others d bs' i,
  wf t -> ukeys t -> is_node t -> Forall wf others ->
  wrap_dim d (List.length (top_shape t)) = Ok i -> Forall (cong (cat_R i) t) others ->
  t_cat (map top_shape (t :: others)) d = Ok bs' ->
  exists t', td_cat (t :: others) d = Done t' /\ top_shape t' = bs' /\ rel (top_shape t) bs' t t' /\ wf t'.
Proof.
  intros t others d bs' i Hw Hu Hn Hwo Hi Hc Ht. destruct t as [sh|bs nm ents]; [contradiction|]. cbn [top_shape map] in *.
  pose proof (wrap_dim_ok _ _ _ Hi) as [Hi1 Hi2].
  unfold t_cat in Ht. destruct bs as [|b0 bs0] eqn:Eb; [cbn in Hi1; lia|]. rewrite <- Eb in *.
  rewrite Hi in Ht. cbn [bind] in Ht. destruct (forallb _ _); [|discriminate]. injection Ht as <-.
  assert (Hnn : nonneg (map (fun o => nthZ (top_shape o) i) others)).
  { unfold nonneg. rewrite Forall_forall. intros x Hx. apply in_map_iff in Hx. destruct Hx as [o [<- Ho]].
    apply nonneg_nth. apply wf_top_nonneg. rewrite Forall_forall in Hwo. exact (Hwo o Ho). }
  destruct (cat_lifts (S (depth (Node bs nm ents))) (Node bs nm ents) others i bs [] Hw Hu
              ltac:(cbn; rewrite app_nil_r; reflexivity) Hi1 Hc Hwo Hnn ltac:(lia)) as [t' [Hs [Hr Hw']]].
  assert (Hraw : cat_at (S (depth (Node bs nm ents))) (Node bs nm ents) others d
                 = cat_at (S (depth (Node bs nm ents))) (Node bs nm ents) others (Z.of_nat i)).
  { cbn [cat_at]. destruct (d <? 0) eqn:E1; destruct (Z.of_nat i <? 0) eqn:E2; try lia.
    - replace (Z.of_nat (List.length bs) + d) with (Z.of_nat i) by lia. reflexivity.
    - replace d with (Z.of_nat i) by lia. reflexivity. }
  cbn [td_cat]. rewrite Hraw, Hs. exists t'. split; [reflexivity|].
  rewrite map_map. split; [|split; assumption].
  destruct (rel_top _ _ _ _ Hr) as [tl [E1 E2]]. cbn [top_shape] in E1.
  rewrite <- (app_nil_r bs) in E1 at 1. apply app_inv_head in E1. subst tl. rewrite app_nil_r in E2. exact E2.
Qed.

Lemma cong_refl_R (R : list Z -> list Z -> Prop) : (forall a, R a a) -> forall t, cong R t t.
Proof.
  intros HR. induction t as [sh|bs nm ents IH] using tree_ind'; constructor; try apply HR.
  induction ents as [|e l IHl]; constructor; [split; [reflexivity|exact (Forall_inv IH)]|exact (IHl (Forall_inv_tail IH))].
Qed.
Lemma ex_tree_cong_cat : cong (cat_R 2) ex_tree_P ex_tree_P.
Proof. apply cong_refl_R. intros a. split; reflexivity. Qed.
