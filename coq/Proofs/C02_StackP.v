(* C02 proofs, part 5: torch.stack / torch.cat over a list of tensordicts (without out=).
   The operands have the same keys; for stack the same shapes, for cat the same shapes off the concatenation dim. *)
From Coq Require Import ZArith List Bool Lia ZifyBool String.
Import ListNotations.
From TD Require Import Spec.PySlice Spec.C02_TorchShape Model.C02_ShapeOps Proofs.C02_FrameP Proofs.C02_OpsP.
Open Scope Z_scope.
Ltac Zify.zify_post_hook ::= Z.to_euclidean_division_equations.

(* keys are unique inside every node (a Python dict) *)
Inductive ukeys : tree -> Prop :=
| uk_leaf sh : ukeys (Leaf sh)
| uk_node bs nm ents : NoDup (map fst ents) -> Forall (fun e => ukeys (snd e)) ents -> ukeys (Node bs nm ents).

(* t2 has the keys of t1 (same order) and, entry by entry, shapes related by R *)
Section cong.
  Variable R : list Z -> list Z -> Prop.
  Inductive cong : tree -> tree -> Prop :=
  | cg_leaf a b : R a b -> cong (Leaf a) (Leaf b)
  | cg_node b1 n1 e1 b2 n2 e2 : R b1 b2 ->
      Forall2 (fun x y => fst x = fst y /\ cong (snd x) (snd y)) e1 e2 -> cong (Node b1 n1 e1) (Node b2 n2 e2).
End cong.

Lemma lookup_forall2 {R} k c (e1 e2 : list (string * tree)) :
  Forall2 (fun x y => fst x = fst y /\ cong R (snd x) (snd y)) e1 e2 ->
  NoDup (map fst e1) -> In (k, c) e1 ->
  exists c2, lookup k e2 = Some c2 /\ cong R c c2.
Proof.
  intros HF. induction HF as [|[k1 c1] [k2 c2] l1 l2 [Hk Hc] _ IH]; intros Hnd Hin; [destruct Hin|].
  cbn [fst snd] in *. subst k2. cbn [map fst] in Hnd. inversion Hnd as [|? ? Hni Hnd']; subst.
  cbn [lookup]. destruct Hin as [Heq|Hin].
  - injection Heq as -> ->. rewrite String.eqb_refl. eauto.
  - destruct (String.eqb k k1) eqn:E.
    + apply String.eqb_eq in E. subst. exfalso. apply Hni. apply in_map_iff. exists (k1, c). split; [reflexivity|exact Hin].
    + apply IH; assumption.
Qed.

Lemma collect_cong {R} k c e1 bs nm (others : list tree) :
  Forall (cong R (Node bs nm e1)) others -> NoDup (map fst e1) -> In (k, c) e1 ->
  exists cs, collect k others = Some cs /\ Forall (cong R c) cs /\ List.length cs = List.length others.
Proof.
  intros HF Hnd Hin. induction HF as [|o os Ho _ IH]; [exists []; repeat split; constructor|].
  inversion Ho as [|? ? ? b2 n2 e2 _ HF2]; subst. cbn [collect].
  destruct (lookup_forall2 k c e1 e2 HF2 Hnd Hin) as [c2 [Hl Hc]]. rewrite Hl.
  destruct IH as [cs [Hcs [Hall Hlen]]]. rewrite Hcs. exists (c2 :: cs). split; [reflexivity|]. split; [constructor; assumption|cbn; lia].
Qed.

Lemma all_leaves_cong {R} sh (cs : list tree) : Forall (cong R (Leaf sh)) cs ->
  exists shs, all_leaves cs = Some shs /\ Forall (R sh) shs /\ List.length shs = List.length cs.
Proof.
  intros HF. induction HF as [|c cs Hc _ IH]; [exists []; repeat split; constructor|].
  inversion Hc; subst. destruct IH as [shs [Ha [Hr Hl]]]. cbn [all_leaves fold_right]. cbn [all_leaves] in Ha. unfold all_leaves in Ha.
  rewrite Ha. exists (b :: shs). split; [reflexivity|]. split; [constructor; assumption|cbn; lia].
Qed.

Lemma forallb_list_eqb_same sh shs : Forall (eq sh) shs -> forallb (list_eqb sh) shs = true.
Proof. intros H. apply forallb_forall. intros x Hx. rewrite Forall_forall in H. rewrite <- (H x Hx). apply list_eqb_refl. Qed.

Lemma depth_child k c bs nm ents : In (k, c) ents -> (depth c < depth (Node bs nm ents))%nat.
Proof.
  intros Hin. cbn [depth]. induction ents as [|[k' c'] l IH]; [destruct Hin|]. cbn [fold_right snd].
  destruct Hin as [Heq|Hin]; [injection Heq as -> ->; lia|]. specialize (IH Hin). lia.
Qed.

(* ------------------------------------------------------------------ stack *)
Theorem stack_lifts : forall fuel t others i bs tl,
  wf t -> ukeys t -> top_shape t = bs ++ tl -> Forall (cong eq t) others -> (i <= List.length bs)%nat ->
  (depth t <= fuel)%nat ->
  exists t', stack_at fuel t others (Z.of_nat i) = Done t' /\
             rel bs (insert_nth i (Z.of_nat (S (List.length others))) bs) t t' /\ wf t'.
Proof.
  induction fuel as [|fuel IHf]; intros t others i bs tl Hw Hu Ht Hc Hi Hd.
  { destruct t; cbn in Hd; lia. }
  destruct t as [sh|b nm ents]; cbn [top_shape] in Ht; subst; cbn [stack_at].
  - inversion Hw as [? Hn|]; subst.
    destruct (all_leaves_cong (bs ++ tl) others Hc) as [shs [Ha [Hr Hl]]]. rewrite Ha.
    unfold t_stack. rewrite (forallb_list_eqb_same _ _ Hr).
    rewrite wrap_dim_nat by (rewrite app_length; lia). cbn [bind lift bindo].
    rewrite insert_nth_app_l by lia. cbn [List.length]. rewrite <- Hl.
    eexists. split; [reflexivity|]. split; [constructor|]. constructor.
    apply nonneg_app in Hn. apply nonneg_app. split; [apply nonneg_insert; [lia|tauto]|tauto].
  - inversion Hw as [|? ? ? Hnn Hnm HF]; subst. inversion Hu as [|? ? ? Hnd HFu]; subst.
    destruct (Z.of_nat i <? 0) eqn:E0; [lia|].
    assert (Hbs : forallb (fun t => match t with Node b _ _ => list_eqb b (bs ++ tl) | Leaf _ => false end) others = true).
    { apply forallb_forall. intros o Ho. rewrite Forall_forall in Hc. specialize (Hc o Ho). inversion Hc; subst. apply list_eqb_refl. }
    rewrite Hbs. cbn [negb]. change fixed_D22 with false. cbn [andb].
    assert (Hents : forall l, (forall k c, In (k, c) l -> In (k, c) ents) -> exists ents',
      (fix go (l : list (string * tree)) : out (list (string * tree)) :=
         match l with
         | [] => Done []
         | (k, c) :: r =>
             match collect k others with
             | None => Raised EKey
             | Some cs =>
                 if negb (forallb (fun t => list_eqb (top_shape t) (top_shape c)) cs) then Raised ERuntime
                 else let* c' := stack_at fuel c cs (Z.of_nat i) in let* r' := go r in Done ((k, c') :: r')
             end
         end) l = Done ents' /\
      Forall2 (fun e e' => fst e = fst e' /\ rel bs (insert_nth i (Z.of_nat (S (List.length others))) bs) (snd e) (snd e')) l ents' /\
      Forall (fun e => wf (snd e) /\ exists tl2, top_shape (snd e) = (insert_nth i (Z.of_nat (S (List.length others))) bs ++ tl) ++ tl2) ents').
    { intros l. induction l as [|[k c] l IHl]; intros Hsub.
      - exists []. split; [reflexivity|split; constructor].
      - assert (Hin : In (k, c) ents) by (apply Hsub; left; reflexivity).
        destruct (collect_cong k c ents (bs ++ tl) nm others Hc Hnd Hin) as [cs [Hcs [Hall Hlen]]]. rewrite Hcs.
        assert (Hsh : forallb (fun t => list_eqb (top_shape t) (top_shape c)) cs = true).
        { apply forallb_forall. intros x Hx. rewrite Forall_forall in Hall. specialize (Hall x Hx).
          inversion Hall; subst; cbn [top_shape]; apply list_eqb_refl. }
        rewrite Hsh. cbn [negb].
        rewrite Forall_forall in HF, HFu. destruct (HF _ Hin) as [Hwc [tl2 Hcsh]]. specialize (HFu _ Hin). cbn [snd] in *.
        pose proof (depth_child k c (bs ++ tl) nm ents Hin) as Hdc.
        destruct (IHf c cs i (bs ++ tl) tl2 Hwc HFu Hcsh Hall ltac:(rewrite app_length; lia) ltac:(lia)) as [c' [Hc' [Hr' Hw']]].
        rewrite Hc'. cbn [bindo]. rewrite Hlen in Hr'. rewrite insert_nth_app_l in Hr' by lia.
        destruct (IHl ltac:(intros k0 c0 H0; apply Hsub; right; exact H0)) as [l' [Hl' [HF2 HF3]]].
        rewrite Hl'. cbn [bindo]. exists ((k, c') :: l'). split; [reflexivity|]. split; constructor; try assumption; cbn [fst snd].
        + split; [reflexivity|]. eapply rel_weaken. exact Hr'.
        + split; [exact Hw'|]. destruct (rel_top _ _ _ _ Hr') as [tl3 [_ E2]]. exists tl3. exact E2. }
    destruct (Hents ents ltac:(auto)) as [ents' [He [HF2 HF3]]]. rewrite He. cbn [bindo].
    rewrite py_insert_in by (rewrite app_length; lia). rewrite insert_nth_app_l by lia.
    eexists. split; [reflexivity|]. split; [constructor; exact HF2|].
    constructor; [|exact I|exact HF3].
    apply nonneg_app in Hnn. apply nonneg_app. split; [apply nonneg_insert; [lia|tauto]|tauto].
Qed.

(* the call as the user makes it: any dim torch accepts for the common batch shape *)
Theorem stack_acts_on_batch_dims : forall t others d bs',
  wf t -> ukeys t -> is_node t -> Forall (cong eq t) others ->
  t_stack (map top_shape (t :: others)) d = Ok bs' ->
  exists t', td_stack (t :: others) d = Done t' /\ top_shape t' = bs' /\ rel (top_shape t) bs' t t' /\ wf t'.
Proof.
  intros t others d bs' Hw Hu Hn Hc Ht. destruct t as [sh|bs nm ents]; [contradiction|]. cbn [top_shape map] in *.
  unfold t_stack in Ht. destruct (forallb _ _); [|discriminate].
  destruct (wrap_dim d (S (List.length bs))) as [i|] eqn:Ei; [|discriminate]. cbn [bind] in Ht. injection Ht as <-.
  pose proof (wrap_dim_ok _ _ _ Ei) as [Hi1 Hi2].
  cbn [td_stack]. cbn [List.length]. rewrite map_length.
  destruct (stack_lifts (S (depth (Node bs nm ents))) (Node bs nm ents) others i bs [] Hw Hu
              ltac:(cbn; rewrite app_nil_r; reflexivity) Hc ltac:(lia) ltac:(lia)) as [t' [Hs [Hr Hw']]].
  (* the raw dim and the normalised one give the same computation at the root: dd is computed from d there *)
  assert (Hraw : stack_at (S (depth (Node bs nm ents))) (Node bs nm ents) others d
                 = stack_at (S (depth (Node bs nm ents))) (Node bs nm ents) others (Z.of_nat i)).
  { cbn [stack_at]. destruct (d <? 0) eqn:E1; destruct (Z.of_nat i <? 0) eqn:E2; try lia.
    - replace (Z.of_nat (List.length bs) + d + 1) with (Z.of_nat i) by lia. reflexivity.
    - replace d with (Z.of_nat i) by lia. reflexivity. }
  rewrite Hraw, Hs. exists t'. split; [reflexivity|]. split; [|split; assumption].
  destruct (rel_top _ _ _ _ Hr) as [tl [E1 E2]]. cbn [top_shape] in E1.
  rewrite <- (app_nil_r bs) in E1 at 1. apply app_inv_head in E1. subst tl. rewrite app_nil_r in E2. exact E2.
Qed.

(* ------------------------------------------------------------------ boolean twins for examples *)
Fixpoint ukeysb (t : tree) : bool :=
  match t with
  | Leaf _ => true
  | Node _ _ ents =>
      (fix nd (l : list (string * tree)) : bool :=
         match l with [] => true | (k, _) :: r => negb (existsb (fun e => String.eqb k (fst e)) r) && nd r end) ents &&
      (fix go (l : list (string * tree)) : bool := match l with [] => true | (_, c) :: r => ukeysb c && go r end) ents
  end.

Lemma existsb_keys_false k (l : list (string * tree)) : existsb (fun e => String.eqb k (fst e)) l = false -> ~ In k (map fst l).
Proof.
  induction l as [|[k' c] l IH]; cbn; intros H; [tauto|]. apply orb_false_iff in H. destruct H as [H1 H2].
  intros [Heq|Hin]; [subst; rewrite String.eqb_refl in H1; discriminate|]. exact (IH H2 Hin).
Qed.

Lemma ukeysb_ukeys t : ukeysb t = true -> ukeys t.
Proof.
  induction t as [sh|bs nm ents IH] using tree_ind'; intros H; [constructor|]. cbn [ukeysb] in H.
  apply andb_true_iff in H. destruct H as [H1 H2]. constructor.
  - clear H2 IH. induction ents as [|[k c] l IHl]; [constructor|]. apply andb_true_iff in H1. destruct H1 as [Hk Hr].
    cbn [map fst]. constructor; [apply existsb_keys_false; apply negb_true_iff; exact Hk|exact (IHl Hr)].
  - clear H1. induction ents as [|[k c] l IHl]; constructor.
    + apply andb_true_iff in H2. destruct H2 as [Hc _]. exact (Forall_inv IH Hc).
    + apply andb_true_iff in H2. destruct H2 as [_ Hr]. exact (IHl (Forall_inv_tail IH) Hr).
Qed.

Lemma cong_refl t : cong eq t t.
Proof.
  induction t as [sh|bs nm ents IH] using tree_ind'; constructor; try reflexivity.
  induction ents as [|e l IHl]; constructor; [split; [reflexivity|exact (Forall_inv IH)]|exact (IHl (Forall_inv_tail IH))].
Qed.

Lemma ex_tree_ukeys : ukeys ex_tree_P.
Proof. apply ukeysb_ukeys. vm_compute. reflexivity. Qed.
Lemma ex_tree_cong : cong eq ex_tree_P ex_tree_P.
Proof. apply cong_refl. Qed.
