From Coq Require Import ZArith List Bool Arith Lia String.
Import ListNotations.
From TD Require Import Model.C11_Layout Model.C11_Tree Proofs.C11_LayoutP Proofs.C11_TreeP.
Open Scope nat_scope.
Open Scope string_scope.

(* ------------------------------------------------------------------ consolidate() keeps everything but the lock state *)
Lemma unview_consolidated A np :
  (forall t s, unview_t (outmeta_t false (fst (mark_t A np t s))) = setlock_t false (unview_t t)) /\
  (forall f s, unview_f (outmeta_f false (fst (mark_f A np f s))) = setlock_f false (unview_f f)).
Proof.
  apply tree_forest_ind; cbn [mark_t mark_f].
  - intros m f IH s. specialize (IH s). destruct (mark_f A np f s) as [f' e]. cbn [fst outmeta_t unview_t setlock_t] in *.
    now rewrite IH.
  - reflexivity.
  - intros k l v r IH s. specialize (IH (s + flat_size A np (spec_of l))).
    destruct (mark_f A np r (s + flat_size A np (spec_of l))) as [r' e]. cbn [fst outmeta_f unview_f setlock_f] in *. now rewrite IH.
  - intros k p bs r IH s. specialize (IH s). destruct (mark_f A np r s) as [r' e]. cbn [fst outmeta_f unview_f setlock_f] in *. now rewrite IH.
  - intros k t IHt r IHr s. specialize (IHt s). destruct (mark_t A np t s) as [t' mid]. specialize (IHr mid).
    destruct (mark_f A np r mid) as [r' e]. cbn [fst outmeta_f unview_f setlock_f] in *. now rewrite IHt, IHr.
Qed.

(* the consolidated tensordict: same keys in the same order, same tensors (dtype, shape, bytes), same non-tensor data, same
   batch sizes / names / device at every node -- and NOT locked, whatever the source was (D110) *)
Theorem consolidate_content A np t st : tree_side A np t -> consolidate_tree A np false t = Ok st ->
  unview_t (cur st) = setlock_t false (unview_t t).
Proof.
  intros Hs Hc. rewrite (consolidate_ok _ _ _ _ Hs) in Hc. injection Hc as <-. cbn [cur].
  apply (proj1 (unview_consolidated A np)).
Qed.

(* ------------------------------------------------------------------ histories that never consolidate: __getstate__ path *)
Definition is_cons (o : op) : bool := match o with OConsolidate _ => true | _ => false end.

Lemma step_no_cons st o : snap st = None -> is_cons o = false -> snap (fst (step st o)) = None.
Proof.
  intros Hs Ho. unfold step.
  destruct o; try discriminate;
    (destruct (step_tree (cur st) _) as [[t' w]|]; [cbn [fst snap]; rewrite Hs; now destruct w|exact Hs]).
Qed.

Lemma run_no_cons : forall ops st, snap st = None -> existsb is_cons ops = false -> snap (run st ops) = None.
Proof.
  induction ops as [|o r IH]; intros st Hs Hn; cbn [run fold_left existsb] in *; [exact Hs|].
  apply orb_false_iff in Hn as [H1 H2]. apply IH; [now apply step_no_cons|exact H2].
Qed.

(* a locked node's descendants are locked *)
Fixpoint all_locked_t (t : tree) : bool := match t with Node m f => m_locked m && all_locked_f f end
with all_locked_f (f : forest) : bool :=
  match f with
  | FNil => true
  | FLeaf _ _ _ r | FNonT _ _ _ r => all_locked_f r
  | FSub _ t r => all_locked_t t && all_locked_f r
  end.
Fixpoint lock_closed_t (t : tree) : bool :=
  match t with Node m f => (if m_locked m then all_locked_f f else true) && lock_closed_f f end
with lock_closed_f (f : forest) : bool :=
  match f with
  | FNil => true
  | FLeaf _ _ _ r | FNonT _ _ _ r => lock_closed_f r
  | FSub _ t r => lock_closed_t t && lock_closed_f r
  end.

Lemma set_locked_same m : set_locked m (m_locked m) = m.
Proof. now destruct m. Qed.

Lemma relock_all_locked :
  (forall t, all_locked_t t = true -> relock_t true t = t) /\ (forall f, all_locked_f f = true -> relock_f true f = f).
Proof.
  apply tree_forest_ind; cbn [all_locked_t all_locked_f relock_t relock_f].
  - intros m f IH H. apply andb_true_iff in H as [H1 H2]. rewrite H1. cbn [orb]. rewrite (IH H2).
    rewrite <- H1 at 1. now rewrite set_locked_same.
  - reflexivity.
  - intros k l v r IH H. now rewrite (IH H).
  - intros k p bs r IH H. now rewrite (IH H).
  - intros k t IHt r IHr H. apply andb_true_iff in H as [H1 H2]. now rewrite (IHt H1), (IHr H2).
Qed.

Lemma relock_closed :
  (forall t, lock_closed_t t = true -> relock_t false t = t) /\ (forall f, lock_closed_f f = true -> relock_f false f = f).
Proof.
  apply tree_forest_ind; cbn [lock_closed_t lock_closed_f relock_t relock_f].
  - intros m f IH H. apply andb_true_iff in H as [H1 H2]. rewrite orb_false_r, set_locked_same.
    destruct (m_locked m); [now rewrite (proj2 relock_all_locked f H1)|now rewrite (IH H2)].
  - reflexivity.
  - intros k l v r IH H. now rewrite (IH H).
  - intros k p bs r IH H. now rewrite (IH H).
  - intros k t IHt r IHr H. apply andb_true_iff in H as [H1 H2]. now rewrite (IHt H1), (IHr H2).
Qed.

(* every history without consolidate(), from a tensordict that was never consolidated: pickle / deepcopy go through
   __getstate__ / __setstate__ and give back the object as it is at the moment of the call *)
Theorem pickle_unconsolidated t ops :
  existsb is_cons ops = false ->
  let st := run {| cur := t; snap := None |} ops in
  lock_closed_t (cur st) = true ->
  pickle_roundtrip st = Ok st.
Proof.
  intros Hn st Hl. pose proof (run_no_cons ops {| cur := t; snap := None |} eq_refl Hn) as Hs. fold st in Hs.
  unfold pickle_roundtrip. rewrite Hs, (proj1 relock_closed _ Hl). destruct st as [c s]. cbn in *. now subst.
Qed.

(* ------------------------------------------------------------------ witnesses (the defects of the code as it is) *)
Definition m0 : nmeta := {| m_bs := []; m_names := []; m_dev := None; m_locked := false |}.
Definition m3 (lk : bool) : nmeta := {| m_bs := [3]; m_names := [None]; m_dev := None; m_locked := lk |}.
Definition u8x8 : leaf := {| l_dt := 0; l_esz := 1; l_shape := [8]; l_bytes := [1; 2; 3; 4; 5; 6; 7; 8]%Z |}.
Definition c128 : leaf := {| l_dt := 11; l_esz := 16; l_shape := [1]; l_bytes := repeat 0%Z 16 |}.
Definition i32 (v : Z) : leaf := {| l_dt := 6; l_esz := 4; l_shape := [3]; l_bytes := [v; 0; 0; 0; v; 0; 0; 0; v; 0; 0; 0]%Z |}.

(* D11 at tree level *)
Definition t_d11 : tree := Node m0 (FLeaf "a" u8x8 None (FLeaf "b" c128 None FNil)).
Theorem consolidate_16byte_refuted :
  wf_t t_d11 = true /\ no_reserved_t t_d11 = true /\ sizes_ok 8 true (flat t_d11) = true /\
  consolidate_tree 8 true false t_d11 = Raised EView.
Proof. repeat split; reflexivity. Qed.

(* D12 *)
Definition t_d12 : tree := Node (m3 false) (FLeaf "a" (i32 0) None FNil).
Definition ops_d12 : list op := [OConsolidate false; OSet [] "a" (i32 1); OSet [] "c" (i32 1)].
Theorem pickle_after_mutation_refuted :
  exists t ops, tree_side 8 true t /\
    let st := run {| cur := t; snap := None |} ops in
    exists st', pickle_roundtrip st = Ok st' /\
      leaf_at (cur st) [] "a" = Some (i32 1) /\ leaf_at (cur st') [] "a" = Some (i32 0) /\
      leaf_at (cur st) [] "c" = Some (i32 1) /\ leaf_at (cur st') [] "c" = None.
Proof.
  exists t_d12, ops_d12. split; [repeat split; reflexivity|].
  cbv zeta. eexists. split; [vm_compute; reflexivity|]. repeat split; reflexivity.
Qed.

(* D110: a locked source; the consolidated tensordict is not locked; its pickled copy is locked again *)
Definition t_d110 : tree := Node (m3 true) (FLeaf "a" (i32 5) None FNil).
Theorem consolidate_lock_refuted :
  exists t, tree_side 8 true t /\ m_locked (meta t) = true /\
    exists st st', consolidate_tree 8 true false t = Ok st /\ m_locked (meta (cur st)) = false /\
                   pickle_roundtrip st = Ok st' /\ m_locked (meta (cur st')) = true.
Proof.
  exists t_d110. split; [repeat split; reflexivity|]. split; [reflexivity|].
  do 2 eexists. split; [vm_compute; reflexivity|]. split; [reflexivity|]. split; [vm_compute; reflexivity|reflexivity].
Qed.

(* D114: consolidate(filename): device cpu on the result, None in the snapshot *)
Theorem file_device_refuted :
  exists t, tree_side 8 true t /\ m_dev (meta t) = None /\
    exists st st', consolidate_tree 8 true true t = Ok st /\ m_dev (meta (cur st)) = Some 0 /\
                   pickle_roundtrip st = Ok st' /\ m_dev (meta (cur st')) = None.
Proof.
  exists t_d12. split; [repeat split; reflexivity|]. split; [reflexivity|].
  do 2 eexists. split; [vm_compute; reflexivity|]. split; [reflexivity|]. split; [vm_compute; reflexivity|reflexivity].
Qed.

(* D115: a nested tensordict called "size" disappears *)
Definition t_d115 : tree := Node (m3 false) (FSub "size" (Node (m3 false) (FLeaf "a" (i32 2) None FNil)) (FLeaf "b" (i32 1) None FNil)).
Theorem reserved_key_refuted :
  wf_t t_d115 = true /\ sizes_ok 8 true (flat t_d115) = true /\ aligned_at 8 true 0 (lspecs (flat t_d115)) = true /\
  exists st st', consolidate_tree 8 true false t_d115 = Ok st /\ pickle_roundtrip st = Ok st' /\
    leaf_at (cur st) ["size"] "a" = Some (i32 2) /\ sub_at (cur st') ["size"] = None.
Proof.
  repeat split; try reflexivity.
  do 2 eexists. split; [vm_compute; reflexivity|]. split; [vm_compute; reflexivity|]. split; reflexivity.
Qed.
