From Coq Require Import ZArith List Bool Arith Lia String.
Import ListNotations.
From TD Require Import Model.C11_Layout Model.C11_Tree Proofs.C11_LayoutP Proofs.C11_TreeP Proofs.C11_AuxP Proofs.C11_PickleP.
Open Scope nat_scope.
Open Scope string_scope.

(* ------------------------------------------------------------------ consolidate() keeps everything (fix: D110: the lock state too) *)
Lemma unview_mark A np :
  (forall t s, unview_t (fst (mark_t A np t s)) = unview_t t) /\
  (forall f s, unview_f (fst (mark_f A np f s)) = unview_f f).
Proof.
  apply tree_forest_ind; cbn [mark_t mark_f].
  - intros m f IH s. specialize (IH s). destruct (mark_f A np f s) as [f' e]. cbn [fst unview_t] in *. now rewrite IH.
  - reflexivity.
  - intros k l v r IH s. specialize (IH (s + flat_size A np (spec_of l))).
    destruct (mark_f A np r (s + flat_size A np (spec_of l))) as [r' e]. cbn [fst unview_f] in *. now rewrite IH.
  - intros k p bs r IH s. specialize (IH s). destruct (mark_f A np r s) as [r' e]. cbn [fst unview_f] in *. now rewrite IH.
  - intros k t IHt r IHr s. specialize (IHt s). destruct (mark_t A np t s) as [t' mid]. specialize (IHr mid).
    destruct (mark_f A np r mid) as [r' e]. cbn [fst unview_f] in *. now rewrite IHt, IHr.
Qed.

(* the consolidated tensordict: same keys in the same order, same tensors (dtype, shape, bytes), same non-tensor data, same
   batch sizes / names / device / lock state at every node *)
Theorem consolidate_content A np t st : tree_side A np t -> consolidate_tree A np false t = Ok st ->
  unview_t (cur st) = unview_t t.
Proof.
  intros Hs Hc. rewrite (consolidate_ok _ _ _ _ Hs) in Hc. injection Hc as <-. cbn [cur].
  rewrite (proj1 outmeta_id). apply (proj1 (unview_mark A np)).
Qed.

(* ------------------------------------------------------------------ histories that never consolidate: __getstate__ path *)
Definition is_cons (o : op) : bool := match o with OConsolidate _ => true | _ => false end.

Lemma step_no_cons st o : snap st = None -> is_cons o = false -> snap (fst (step st o)) = None.
Proof.
  intros Hs Ho. unfold step.
  destruct o; try discriminate;
    (destruct (step_tree (cur st) _) as [[t' w]|]; [cbn [fst snap]; rewrite Hs; now destruct w|exact Hs]).
Qed.

Lemma run_no_cons : forall ops st, snap st = None -> existsb is_cons ops = false -> snap (run st ops) = None.
Proof.
  induction ops as [|o r IH]; intros st Hs Hn; cbn [run fold_left existsb] in *; [exact Hs|].
  apply orb_false_iff in Hn as [H1 H2]. apply IH; [now apply step_no_cons|exact H2].
Qed.

(* every history without consolidate(), from a tensordict that was never consolidated: pickle / deepcopy go through
   __getstate__ / __setstate__ and give back the object as it is at the moment of the call *)
Theorem pickle_unconsolidated t ops :
  existsb is_cons ops = false ->
  let st := run {| cur := t; snap := None |} ops in
  lock_closed_t (cur st) = true ->
  pickle_roundtrip st = Ok st.
Proof.
  intros Hn st Hl. pose proof (run_no_cons ops {| cur := t; snap := None |} eq_refl Hn) as Hs. fold st in Hs.
  unfold pickle_roundtrip. rewrite Hs, (proj1 relock_closed _ Hl). destruct st as [c s]. cbn in *. now subst.
Qed.

(* ------------------------------------------------------------------ the former defect witnesses, now repaired *)
Definition m0 : nmeta := {| m_bs := []; m_names := []; m_dev := None; m_locked := false |}.
Definition m3 (lk : bool) : nmeta := {| m_bs := [3]; m_names := [None]; m_dev := None; m_locked := lk |}.
Definition u8x8 : leaf := {| l_dt := 0; l_esz := 1; l_shape := [8]; l_bytes := [1; 2; 3; 4; 5; 6; 7; 8]%Z |}.
Definition c128 : leaf := {| l_dt := 11; l_esz := 16; l_shape := [1]; l_bytes := repeat 0%Z 16 |}.
Definition i32 (v : Z) : leaf := {| l_dt := 6; l_esz := 4; l_shape := [3]; l_bytes := [v; 0; 0; 0; v; 0; 0; 0; v; 0; 0; 0]%Z |}.

(* D11: uint8[8] then complex128 consolidates and comes back (padding unit 16) *)
Definition t_d11 : tree := Node m0 (FLeaf "a" u8x8 None (FLeaf "b" c128 None FNil)).
Example d11_repaired : tree_side align_unit true t_d11 /\
  exists st st', consolidate_tree align_unit true false t_d11 = Ok st /\ pickle_roundtrip st = Ok st' /\
    leaf_at (cur st') [] "a" = Some u8x8 /\ leaf_at (cur st') [] "b" = Some c128.
Proof. split; [repeat split; reflexivity|]. do 2 eexists. split; [vm_compute; reflexivity|]. split; [vm_compute; reflexivity|split; reflexivity]. Qed.

(* D12: an out-of-place write and a new key after consolidate() are in the copy *)
Definition t_d12 : tree := Node (m3 false) (FLeaf "a" (i32 0) None FNil).
Definition ops_d12 : list op := [OConsolidate false; OSet [] "a" (i32 1); OSet [] "c" (i32 1)].
Example d12_repaired :
  let st := run {| cur := t_d12; snap := None |} ops_d12 in
  exists st', pickle_roundtrip st = Ok st' /\ snap st' = None /\
    leaf_at (cur st') [] "a" = Some (i32 1) /\ leaf_at (cur st') [] "c" = Some (i32 1).
Proof. cbv zeta. eexists. split; [vm_compute; reflexivity|]. repeat split; reflexivity. Qed.

(* D110: the consolidated copy of a locked tensordict is locked, and so is its pickled copy *)
Definition t_d110 : tree := Node (m3 true) (FLeaf "a" (i32 5) None FNil).
Example d110_repaired :
  exists st st', consolidate_tree align_unit true false t_d110 = Ok st /\ m_locked (meta (cur st)) = true /\
                 pickle_roundtrip st = Ok st' /\ m_locked (meta (cur st')) = true.
Proof. do 2 eexists. split; [vm_compute; reflexivity|]. split; [reflexivity|]. split; [vm_compute; reflexivity|reflexivity]. Qed.

(* D114 (pickle side): after consolidate(filename) the result has device cpu; the snapshot (device None) is not current,
   so the copy is made from the object and has device cpu too *)
Example d114_pickle_repaired :
  exists st st', consolidate_tree align_unit true true t_d12 = Ok st /\ m_dev (meta (cur st)) = Some 0 /\
                 pickle_roundtrip st = Ok st' /\ m_dev (meta (cur st')) = Some 0 /\ leaf_at (cur st') [] "a" = Some (i32 0).
Proof. do 2 eexists. split; [vm_compute; reflexivity|]. split; [reflexivity|]. split; [vm_compute; reflexivity|split; reflexivity]. Qed.

(* D115: a nested tensordict called "size" survives *)
Definition t_d115 : tree := Node (m3 false) (FSub "size" (Node (m3 false) (FLeaf "a" (i32 2) None FNil)) (FLeaf "b" (i32 1) None FNil)).
Example d115_repaired :
  exists st st', consolidate_tree align_unit true false t_d115 = Ok st /\ pickle_roundtrip st = Ok st' /\
    leaf_at (cur st') ["size"] "a" = Some (i32 2).
Proof. do 2 eexists. split; [vm_compute; reflexivity|]. split; [vm_compute; reflexivity|reflexivity]. Qed.
