(* C02 proofs, part 6: dimension names travel with their dimensions.
   For the operations for which tensordict computes names (permute, transpose, squeeze, unsqueeze, expand, flatten,
   unflatten) the names of the result are obtained from the names of the input by THE SAME rearrangement of positions
   that produces the result's batch size from the input's: a provenance list prov (for every result dim: the source
   dim it is, or None for a new dim) such that sizes and names are both read through prov; new dims are unnamed. *)
From Coq Require Import ZArith List Bool Lia ZifyBool String.
Import ListNotations.
From TD Require Import Spec.PySlice Spec.C02_TorchShape Model.C02_ShapeOps Proofs.C02_FrameP Proofs.C02_OpsP.
Open Scope Z_scope.
Ltac Zify.zify_post_hook ::= Z.to_euclidean_division_equations.

Definition via {A} (prov : list (option nat)) (l : list A) (fresh : A) : list A :=
  map (fun p => match p with Some j => nth j l fresh | None => fresh end) prov.

(* sizes of surviving dims and all names are read through prov *)
Definition travels (prov : list (option nat)) (bs bs' : list Z) (nl nl' : list (option string)) : Prop :=
  List.length prov = List.length bs' /\ nl' = via prov nl None /\
  forall k j, nth_error prov k = Some (Some j) -> nthZ bs' k = nthZ bs j.

Definition root_names (t : tree) : dimnames := match t with Node _ nm _ => nm | Leaf _ => None end.

Lemma apply_root bs nm ents o bs' nm' child t' :
  (forall d s, o <> OUnflatten d s) ->
  node_step o bs nm = Done (SStep bs' nm' child) -> apply (Node bs nm ents) o = Done t' ->
  top_shape t' = bs' /\ root_names t' = nm'.
Proof.
  intros Hnu Hs Ha. cbn [apply] in Ha. rewrite Hs in Ha. cbn [bindo] in Ha.
  match type of Ha with (let* ents' := ?g in _) = _ => destruct g as [ents'| | |] eqn:E; try discriminate end.
  cbn [bindo] in Ha. rewrite unflatten_check_other in Ha by exact Hnu. injection Ha as <-. split; reflexivity.
Qed.

Lemma map_nth_seq_id {A} (l : list A) x : map (fun i => nth i l x) (seq 0 (List.length l)) = l.
Proof.
  induction l as [|a l IH]; [reflexivity|]. cbn [List.length seq map nth]. f_equal.
  rewrite <- seq_shift, map_map. exact IH.
Qed.

Lemma nth_error_seq0 n k j : nth_error (seq 0 n) k = Some j -> j = k.
Proof.
  intros H. assert (Hk : (k < n)%nat) by (rewrite <- (seq_length n 0); apply nth_error_Some; congruence).
  apply nth_error_nth with (d := 0%nat) in H. rewrite seq_nth in H by exact Hk. lia.
Qed.

(* ---- permute: prov = the permutation *)
Theorem names_permute bs nm ents dims p t' :
  mapM (fun d => wrap_dim d (List.length bs)) dims = Ok p -> is_perm p -> List.length p = List.length bs ->
  names_wf nm bs -> has_names nm = true ->
  apply (Node bs nm ents) (OPermute dims) = Done t' ->
  exists nl', root_names t' = Some nl' /\
              travels (map Some p) bs (top_shape t') (names_list nm (List.length bs)) nl'.
Proof.
  intros Hm Hp Hl Hw Hh Ha. pose proof Hp as [Hn Hf].
  assert (Hvia : forall (A : Type) (l : list A) (x : A), via (map Some p) l x = map (fun i => nth i l x) p)
    by (intros; unfold via; rewrite map_map; reflexivity).
  assert (Hstep : node_step (OPermute dims) bs nm =
            if is_identity (map Z.of_nat p) then Done SSelf
            else Done (SStep (map (nthZ bs) p) (Some (map (fun i => nth i (names_list nm (List.length bs)) None) p))
                             (fun csh => OPermute (map Z.of_nat p ++ rangeZ (List.length p) (List.length csh))))).
  { rewrite (node_permute_raw _ _ _ _ Hm). cbn [node_step]. rewrite map_norm_nat.
    rewrite existsb_range_false by (rewrite <- Hl; exact Hf).
    rewrite map_to_nat_of_nat, forallb_lt_len, Hn by exact Hf. cbn [andb negb]. rewrite Hh, map_length, Hl, skipn_all.
    change fixed_C02k with true. cbv iota.
    rewrite (skipn_all2 (names_list nm (List.length bs))) by (rewrite names_list_length by exact Hw; lia).
    rewrite !app_nil_r. reflexivity. }
  destruct (is_identity (map Z.of_nat p)) eqn:E.
  - cbn [apply] in Ha. rewrite Hstep in Ha. cbn [bindo] in Ha. injection Ha as <-. cbn [root_names top_shape].
    destruct nm as [l|]; [|discriminate]. cbn [names_list] in *. cbn in Hw. exists l. split; [reflexivity|].
    apply is_identity_seq in E. split; [rewrite map_length; lia|]. split.
    + rewrite Hvia, E, Hl, <- Hw. symmetry. apply map_nth_seq_id.
    + intros k j Hk. rewrite E, Hl, nth_error_map in Hk.
      destruct (nth_error (seq 0 (List.length bs)) k) as [j'|] eqn:E2; [|discriminate]. injection Hk as <-.
      apply nth_error_seq0 in E2. subst. reflexivity.
  - destruct (apply_root bs nm ents (OPermute dims) _ _ _ t' ltac:(intros; discriminate) Hstep Ha) as [Ht Hr].
    eexists. split; [exact Hr|]. rewrite Ht. split; [rewrite !map_length; reflexivity|]. split; [rewrite Hvia; reflexivity|].
    intros k j Hk. rewrite nth_error_map in Hk. destruct (nth_error p k) as [j'|] eqn:E2; [|discriminate]. injection Hk as <-.
    unfold nthZ at 1. rewrite (nth_indep _ 0 (nthZ bs 0%nat)) by (rewrite map_length; apply nth_error_Some; congruence).
    rewrite map_nth. f_equal. apply nth_error_nth. exact E2.
Qed.

(* ---- a rearrangement with one fresh value: sizes and names both read through prov *)
Lemma via_id {A} (l : list A) x : via (map Some (seq 0 (List.length l))) l x = l.
Proof. unfold via. rewrite map_map. apply map_nth_seq_id. Qed.

Lemma via_app {A} p q (l : list A) x : via (p ++ q) l x = via p l x ++ via q l x.
Proof. unfold via. apply map_app. Qed.

Lemma via_firstn {A} p i (l : list A) x : via (firstn i p) l x = firstn i (via p l x).
Proof. unfold via. symmetry. apply firstn_map. Qed.
Lemma via_skipn {A} p i (l : list A) x : via (skipn i p) l x = skipn i (via p l x).
Proof. unfold via. symmetry. apply skipn_map. Qed.

Lemma via_insert {A} p i (l : list A) x : via (insert_nth i None p) l x = insert_nth i x (via p l x).
Proof. unfold insert_nth, via. rewrite map_app. cbn [map]. rewrite firstn_map, skipn_map. reflexivity. Qed.

Lemma via_remove {A} p i (l : list A) x : via (remove_nth i p) l x = remove_nth i (via p l x).
Proof. unfold remove_nth. rewrite via_app, via_firstn, via_skipn. reflexivity. Qed.

Definition id_prov (n : nat) : list (option nat) := map Some (seq 0 n).

(* sizes: a position that carries Some j holds the size of source dim j *)
Lemma sizes_via prov (bs : list Z) x : Forall (fun p => match p with Some j => (j < List.length bs)%nat | None => True end) prov ->
  forall k j, nth_error prov k = Some (Some j) -> nthZ (via prov bs x) k = nthZ bs j.
Proof.
  induction prov as [|p r IH]; intros HF k j Hk; [destruct k; discriminate|].
  destruct k as [|k]; cbn [nth_error] in Hk.
  - injection Hk as ->. unfold via, nthZ. cbn [map nth]. apply nth_indep. exact (Forall_inv HF).
  - unfold via, nthZ in *. cbn [map nth]. apply IH; [exact (Forall_inv_tail HF)|exact Hk].
Qed.

Lemma id_prov_ok n : Forall (fun p => match p with Some j => (j < n)%nat | None => True end) (id_prov n).
Proof. unfold id_prov. rewrite Forall_forall. intros p Hp. apply in_map_iff in Hp. destruct Hp as [j [<- Hj]]. apply in_seq in Hj. lia. Qed.

Lemma Forall_insert {A} (P : A -> Prop) i x l : P x -> Forall P l -> Forall P (insert_nth i x l).
Proof.
  intros Hx Hl. unfold insert_nth. apply Forall_app. split.
  - rewrite Forall_forall in *. intros y Hy. apply Hl. eapply In_firstn. exact Hy.
  - constructor; [exact Hx|]. rewrite Forall_forall in *. intros y Hy. apply Hl. eapply In_skipn. exact Hy.
Qed.
Lemma Forall_remove {A} (P : A -> Prop) i l : Forall P l -> Forall P (remove_nth i l).
Proof.
  intros Hl. unfold remove_nth. apply Forall_app. split; rewrite Forall_forall in *; intros y Hy; apply Hl.
  - eapply In_firstn. exact Hy.
  - eapply In_skipn. exact Hy.
Qed.

(* ---- unsqueeze: prov = the identity with None inserted at the new position *)
Theorem names_unsqueeze bs nm ents d i t' :
  wrap_dim d (S (List.length bs)) = Ok i -> names_wf nm bs -> has_names nm = true ->
  apply (Node bs nm ents) (OUnsqueeze d) = Done t' ->
  exists nl', root_names t' = Some nl' /\
              travels (insert_nth i None (id_prov (List.length bs))) bs (top_shape t') (names_list nm (List.length bs)) nl'.
Proof.
  intros Hi Hw Hh Ha. pose proof (wrap_dim_ok _ _ _ Hi) as [Hi1 _].
  assert (Hstep : node_step (OUnsqueeze d) bs nm =
            Done (SStep (insert_nth i 1 bs) (Some (insert_nth i None (names_list nm (List.length bs)))) (fun _ => OUnsqueeze (Z.of_nat i)))).
  { rewrite (node_unsqueeze_raw _ _ _ _ Hi). cbn [node_step]. destruct (Z.of_nat i <? 0) eqn:E1; [lia|].
    destruct ((Z.of_nat (List.length bs) <? Z.of_nat i) || (Z.of_nat i <? 0)) eqn:E2; [lia|]. rewrite Nat2Z.id, Hh. reflexivity. }
  destruct (apply_root bs nm ents (OUnsqueeze d) _ _ _ t' ltac:(intros; discriminate) Hstep Ha) as [Ht Hr].
  eexists. split; [exact Hr|]. rewrite Ht. destruct nm as [l|]; [|discriminate]. cbn [names_list] in *. cbn in Hw.
  split; [unfold id_prov; rewrite !insert_nth_length; rewrite ?map_length, ?seq_length; lia|]. split.
  - rewrite via_insert. unfold id_prov. rewrite <- Hw, via_id. reflexivity.
  - intros k j Hk. replace (insert_nth i 1 bs) with (via (insert_nth i None (id_prov (List.length bs))) bs 1)
      by (rewrite via_insert; unfold id_prov; rewrite via_id; reflexivity).
    apply sizes_via; [|exact Hk]. apply Forall_insert; [exact I|apply id_prov_ok].
Qed.

(* ---- squeeze(dim): prov = the identity without the squeezed position *)
Theorem names_squeeze bs nm ents d i t' :
  bs <> [] -> wrap_dim d (List.length bs) = Ok i -> nthZ bs i = 1 -> names_wf nm bs -> has_names nm = true ->
  apply (Node bs nm ents) (OSqueeze (Some d)) = Done t' ->
  exists nl', root_names t' = Some nl' /\
              travels (remove_nth i (id_prov (List.length bs))) bs (top_shape t') (names_list nm (List.length bs)) nl'.
Proof.
  intros Hne Hi H1 Hw Hh Ha. pose proof (wrap_dim_ok _ _ _ Hi) as [Hi1 _].
  assert (Hstep : node_step (OSqueeze (Some d)) bs nm =
            Done (SStep (remove_nth i bs) (Some (remove_nth i (names_list nm (List.length bs)))) (fun _ => OSqueeze (Some (Z.of_nat i))))).
  { cbn [node_step]. rewrite (correct_neg_dim_wrap _ _ _ Hi). cbn [bindo]. rewrite H1. cbn. rewrite Hh. reflexivity. }
  destruct (apply_root bs nm ents (OSqueeze (Some d)) _ _ _ t' ltac:(intros; discriminate) Hstep Ha) as [Ht Hr].
  eexists. split; [exact Hr|]. rewrite Ht. destruct nm as [l|]; [|discriminate]. cbn [names_list] in *. cbn in Hw.
  split; [unfold id_prov; rewrite !remove_nth_length; rewrite ?map_length, ?seq_length; lia|]. split.
  - rewrite via_remove. unfold id_prov. rewrite <- Hw, via_id. reflexivity.
  - intros k j Hk. replace (remove_nth i bs) with (via (remove_nth i (id_prov (List.length bs))) bs 0)
      by (rewrite via_remove; unfold id_prov; rewrite via_id; reflexivity).
    apply sizes_via; [|exact Hk]. apply Forall_remove. apply id_prov_ok.
Qed.

(* ---- expand: new leading dims are unnamed, the existing dims keep their names (a broadcast size-1 dim is the same dim) *)
Theorem names_expand bs nm ents shape t' :
  nonneg shape -> t_expand bs shape = Ok shape -> names_wf nm bs -> has_names nm = true ->
  apply (Node bs nm ents) (OExpand shape) = Done t' ->
  root_names t' = Some (repeat None (List.length shape - List.length bs) ++ names_list nm (List.length bs)) /\ top_shape t' = shape.
Proof.
  intros Hn He Hw Hh Ha. destruct (node_expand_ok bs shape nm (conj Hn He)) as [nm' [Hs _]].
  assert (Hnm : nm' = Some (repeat None (List.length shape - List.length bs) ++ names_list nm (List.length bs))).
  { pose proof He as He'. apply t_expand_inv in He'. destruct He' as [Hl _].
    cbn [node_step] in Hs. destruct (List.length shape <? List.length bs)%nat; [discriminate|].
    change fixed_C02f with true in Hs. cbv iota in Hs.
    rewrite resolve_id in Hs by (apply nonneg_skipn; exact Hn).
    rewrite map_snd_combine in Hs by (rewrite skipn_length; lia). rewrite firstn_skipn in Hs.
    destruct (existsb _ _); [discriminate|]. rewrite Hh in Hs. injection Hs as <-. reflexivity. }
  subst nm'. destruct (apply_root bs nm ents (OExpand shape) _ _ _ t' ltac:(intros; discriminate) Hs Ha) as [Ht Hr].
  split; assumption.
Qed.

(* ---- flatten: the dims before and after the flattened range keep their names, the merged dim is unnamed *)
Definition flatten_prov (n i j : nat) : list (option nat) :=
  firstn i (id_prov n) ++ None :: skipn (S j) (id_prov n).

Lemma Forall_firstn {A} (P : A -> Prop) i l : Forall P l -> Forall P (firstn i l).
Proof. intros H. rewrite Forall_forall in *. intros y Hy. apply H. eapply In_firstn. exact Hy. Qed.
Lemma Forall_skipn {A} (P : A -> Prop) i l : Forall P l -> Forall P (skipn i l).
Proof. intros H. rewrite Forall_forall in *. intros y Hy. apply H. eapply In_skipn. exact Hy. Qed.

Theorem names_flatten bs nm ents a b i j t' :
  bs <> [] -> wrap_dim a (List.length bs) = Ok i -> wrap_dim b (List.length bs) = Ok j -> (i < j)%nat ->
  names_wf nm bs -> has_names nm = true ->
  apply (Node bs nm ents) (OFlatten a b) = Done t' ->
  exists nl', root_names t' = Some nl' /\
              travels (flatten_prov (List.length bs) i j) bs (top_shape t') (names_list nm (List.length bs)) nl'.
Proof.
  intros Hne Hi Hj Hij Hw Hh Ha.
  pose proof (wrap_dim_ok _ _ _ Hi) as [Hi1 Hi2]. pose proof (wrap_dim_ok _ _ _ Hj) as [Hj1 Hj2].
  assert (Hstep : node_step (OFlatten a b) bs nm =
            Done (SStep (flat bs i j)
                        (Some (insert_nth i None (firstn i (names_list nm (List.length bs)) ++ skipn (S j) (names_list nm (List.length bs)))))
                        (fun _ => OFlatten (Z.of_nat i) (Z.of_nat j)))).
  { cbn [node_step].
    replace (if a <? 0 then Z.of_nat (List.length bs) + a else a) with (Z.of_nat i) by (destruct (a <? 0); lia).
    replace (if b <? 0 then Z.of_nat (List.length bs) + b else b) with (Z.of_nat j) by (destruct (b <? 0); lia).
    destruct (Z.of_nat i <? 0) eqn:E1; [lia|]. destruct (Z.of_nat j <? 0) eqn:E2; [lia|].
    destruct (Z.of_nat (List.length bs) <=? Z.of_nat i) eqn:E01; [lia|].
    destruct (Z.of_nat (List.length bs) <=? Z.of_nat j) eqn:E02; [lia|].
    cbn [andb orb]. rewrite ?andb_false_r. cbn [andb].
    destruct (Z.of_nat j <=? Z.of_nat i) eqn:E3; [lia|].
    replace (Z.of_nat j + 1) with (Z.of_nat (S j)) by lia.
    rewrite py_slice_in, py_from_in, py_upto_in by lia.
    assert (Hbs : (if 0 <? Z.of_nat i then firstn i bs ++ prodZ (firstn (S j - i) (skipn i bs)) :: skipn (S j) bs
                   else prodZ (firstn (S j - i) (skipn i bs)) :: skipn (S j) bs) = flat bs i j).
    { unfold flat. destruct (0 <? Z.of_nat i) eqn:E4; [reflexivity|]. assert (i = 0)%nat by lia. subst. reflexivity. }
    rewrite Hbs, Hh. destruct nm as [l|]; [|discriminate]. cbn [names_list] in *. cbn in Hw.
    replace (seq 0 (List.length bs)) with (seq 0 (List.length l)) by (rewrite Hw; reflexivity).
    rewrite filter_outside by lia. rewrite Nat.sub_0_r.
    rewrite py_insert_in by (rewrite app_length, firstn_length; lia). reflexivity. }
  destruct (apply_root bs nm ents (OFlatten a b) _ _ _ t' ltac:(intros; discriminate) Hstep Ha) as [Ht Hr].
  eexists. split; [exact Hr|]. rewrite Ht. destruct nm as [l|]; [|discriminate]. cbn [names_list] in *. cbn in Hw.
  assert (Hidl : List.length (id_prov (List.length bs)) = List.length bs) by (unfold id_prov; rewrite map_length, seq_length; reflexivity).
  split.
  - unfold flatten_prov. rewrite flat_length by lia. rewrite app_length. cbn [List.length]. rewrite firstn_length, skipn_length, Hidl. lia.
  - split.
    + unfold flatten_prov. rewrite via_app. cbn [via map]. fold (via (skipn (S j) (id_prov (List.length bs))) l None).
      fold (via (firstn i (id_prov (List.length bs))) l None). rewrite via_firstn, via_skipn. unfold id_prov. rewrite <- Hw, via_id.
      unfold insert_nth. rewrite firstn_app_l by (rewrite firstn_length; lia). rewrite firstn_firstn, Nat.min_id.
      rewrite skipn_app_l by (rewrite firstn_length; lia).
      replace (skipn i (firstn i l)) with (@nil (option string)) by (symmetry; apply skipn_all2; rewrite firstn_length; lia).
      reflexivity.
    + intros k j0 Hk.
      replace (flat bs i j) with (via (flatten_prov (List.length bs) i j) bs (prodZ (firstn (S j - i) (skipn i bs)))).
      * apply sizes_via; [|exact Hk]. unfold flatten_prov. apply Forall_app. split; [apply Forall_firstn, id_prov_ok|].
        constructor; [exact I|apply Forall_skipn, id_prov_ok].
      * unfold flatten_prov, flat. rewrite via_app. cbn [via map]. fold (via (skipn (S j) (id_prov (List.length bs))) bs (prodZ (firstn (S j - i) (skipn i bs)))).
        fold (via (firstn i (id_prov (List.length bs))) bs (prodZ (firstn (S j - i) (skipn i bs)))).
        rewrite via_firstn, via_skipn. unfold id_prov. rewrite via_id. reflexivity.
Qed.
