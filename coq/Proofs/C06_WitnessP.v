(* C06 — concrete states: non-vacuity of the invariant, and the witnesses of the refutations (each is a history of calls that
   /repo accepts under lock, replayed against the implementation by harness/c06.py `witnesses()`). *)
From Coq Require Import ZArith List String Bool Arith Lia.
Import ListNotations.
From TD Require Import Model.C06_Cache Proofs.C06_PathP Proofs.C06_ViewP Proofs.C06_KeyP Proofs.C06_CacheP Proofs.C06_ReadP Proofs.C06_StepP.
Open Scope string_scope.
Open Scope list_scope.

Definition mt3 : nmeta := {| m_bs := [3]; m_names := Some ["t"]; m_dev := 0 |}.
Definition lfT (uid stor : nat) : leaf :=
  {| l_uid := uid; l_kind := KTensor; l_stor := stor; l_payload := 0; l_dtype := 0; l_numel := 3; l_esize := 8; l_mm := false |}.
Definition lfND (uid : nat) (pay : Z) : leaf :=
  {| l_uid := uid; l_kind := KNonTensorData; l_stor := 0; l_payload := pay; l_dtype := 0; l_numel := 0; l_esize := 0; l_mm := false |}.
Definition lfNS (uid stor : nat) : leaf :=
  {| l_uid := uid; l_kind := KNonTensorStack; l_stor := stor; l_payload := 0; l_dtype := 0; l_numel := 0; l_esize := 0; l_mm := false |}.
Definition mknode (p : path) (uid : nat) (k : nkind) (fl : option bool) (pars : list path) (mm : bool) : node :=
  {| n_path := p; n_uid := uid; n_kind := k; n_flag := fl; n_parents := pars; n_memmap := mm; n_meta := mt3; n_cache := [] |}.

(* td = TensorDict({"a": tensor, "nt": NonTensorData, "n": {"c": tensor}}, [3], names=["t"]).lock_() *)
Definition w0 : state :=
  {| nodes := [mknode [] 1 NTD (Some true) [] false; mknode ["n"] 2 NTD (Some true) [[]] false];
     leaves := [(["a"], lfT 10 10); (["nt"], lfND 11 1); (["n"; "c"], lfT 12 12)];
     store := [(10, 1%Z); (12, 2%Z)] |}.
(* a tree locked by memmap_(): every node flagged, and (D7 repaired) the nested node registered under the root *)
Definition w_mm : state :=
  {| nodes := [mknode [] 1 NTD (Some true) [] true; mknode ["n"] 2 NTD (Some true) [[]] true];
     leaves := [(["a"], lfT 10 10); (["n"; "c"], lfT 12 12)];
     store := [(10, 1%Z); (12, 2%Z)] |}.
(* td = TensorDict({"a": tensor, "n": {"c": tensor}}, [3], names=["t"]): nothing locked, nothing registered *)
Definition w_plain : state :=
  {| nodes := [mknode [] 1 NTD (Some false) [] false; mknode ["n"] 2 NTD (Some false) [] false];
     leaves := [(["a"], lfT 10 10); (["n"; "c"], lfT 12 12)];
     store := [(10, 1%Z); (12, 2%Z)] |}.
(* ls = lazy_stack([TensorDict({"x": t0}, names..), TensorDict({"x": t1}, ...)]).lock_() *)
Definition w_lazy : state :=
  {| nodes := [mknode [] 1 NLAZY (Some true) [] false; mknode ["#0"] 2 NTD (Some true) [[]] false; mknode ["#1"] 3 NTD (Some true) [[]] false];
     leaves := [(["#0"; "x"], lfT 10 10); (["#1"; "x"], lfT 11 11)];
     store := [(10, 1%Z); (11, 2%Z)] |}.
(* the same stack built from members that were locked one by one: is_locked is derived *)
Definition w_lazy_members : state :=
  {| nodes := [mknode [] 1 NLAZY None [] false; mknode ["#0"] 2 NTD (Some true) [] false; mknode ["#1"] 3 NTD (Some true) [] false];
     leaves := [(["#0"; "x"], lfT 10 10); (["#1"; "x"], lfT 11 11)];
     store := [(10, 1%Z); (11, 2%Z)] |}.

Lemma w0_good : forall U, Good U w0.
Proof.
  intros U. constructor.
  - cbn. repeat constructor; cbn; intuition discriminate.
  - intros n [<-|[<-|[]]]; cbn; split; try reflexivity; discriminate.
  - intros n x [<-|[<-|[]]] [<-|[<-|[]]]; cbn; auto.
  - intros n x [<-|[<-|[]]] [<-|[<-|[]]]; cbn; intros; try discriminate; auto.
  - intros n [<-|[<-|[]]]; cbn; intros; try discriminate; reflexivity.
  - intros n e [<-|[<-|[]]] [].
Qed.

Fixpoint outcomes (fx : fixes) (hk : bool) (s : state) (ops : list op) : list outcome :=
  match ops with [] => [] | o :: r => snd (step fx hk s o) :: outcomes fx hk (fst (step fx hk s o)) r end.

(* a production read (hook off) that is a HIT and returns something a fresh call would not return — observably *)
Definition stale_hit (s : state) (p : path) (m : meth) (a : list arg) (k : list (string * arg)) : Prop :=
  exists v n, snd (read false s p m a k) = Some (Hit, v, None) /\ find_node s p = Some n
              /\ observe s p v <> observe s p (fresh s n m a k).

Ltac stale := eexists; eexists; split; [vm_compute; reflexivity|split; [vm_compute; reflexivity|vm_compute; congruence]].

(* non-vacuity of cache_sound_partial: a hit after an in-place write, sound and showing the new content *)
Example sound_hit_after_inplace :
  let s1 := run repo false w0 [ORead [] MFlattenKeys [] []; OInplace ["a"] 7%Z] in
  exists v n, snd (read false s1 [] MFlattenKeys [] []) = Some (Hit, v, None) /\ find_node s1 [] = Some n
              /\ v = fresh s1 n MFlattenKeys [] []
              /\ observe s1 [] v = ObsItems [([], mt3)] [(["a"], OTensor 7 0 3); (["nt"], ONonTensor KNonTensorData 1); (["n"; "c"], OTensor 2 0 3)].
Proof. eexists; eexists; repeat split; vm_compute; reflexivity. Qed.

(* ---------------------------------------------------------------- the repaired write paths: the next read is a MISS (the caches that
   could see the write were erased) and returns the fresh value *)
Definition fresh_miss (s : state) (p : path) (m : meth) (a : list arg) (k : list (string * arg)) : Prop :=
  exists v n, snd (read false s p m a k) = Some (Miss, v, Some v) /\ find_node s p = Some n /\ v = fresh s n m a k.
Ltac fresh_miss := eexists; eexists; split; [vm_compute; reflexivity|split; vm_compute; reflexivity].

Definition D19_ops : list op := [ORead [] MFlattenKeys [] []; OPromote ["nt"] (lfNS 20 20)].
Example repaired_nontensor_promotion :
  outcomes repo false w0 D19_ops = [Done; Done] /\ fresh_miss (run repo false w0 D19_ops) [] MFlattenKeys [] [].
Proof. split; [reflexivity|fresh_miss]. Qed.
(* the same history on the library before the repair: a stale hit (D19) *)
Example unrepaired_nontensor_promotion : stale_hit (run unrepaired false w0 D19_ops) [] MFlattenKeys [] [].
Proof. stale. Qed.

(* a nested entry is rebound: the caches of the nodes ABOVE the owner are erased too (lock parents) *)
Definition w0_nested : state :=
  {| nodes := [mknode [] 1 NTD (Some true) [] false; mknode ["n"] 2 NTD (Some true) [[]] false];
     leaves := [(["a"], lfT 10 10); (["n"; "nt"], lfND 11 1)];
     store := [(10, 1%Z)] |}.
Example repaired_promotion_erases_upwards :
  fresh_miss (run repo false w0_nested [ORead [] MFlattenKeys [] []; ORead ["n"] MFlattenKeys [] []; OPromote ["n"; "nt"] (lfNS 20 20)]) [] MFlattenKeys [] [].
Proof. fresh_miss. Qed.

Definition mm_leaf : leaf := {| l_uid := 30; l_kind := KTensor; l_stor := 30; l_payload := 0; l_dtype := 0; l_numel := 3; l_esize := 8; l_mm := true |}.
Definition make_memmap_ops : list op := [ORead [] MSortedKeys [] []; ORead [] MParamCount [] []; OMakeMemmap ["z"] mm_leaf].
Example repaired_make_memmap :
  outcomes repo false w_mm make_memmap_ops = [Done; Done; Done]
  /\ fresh_miss (run repo false w_mm make_memmap_ops) [] MSortedKeys [] []
  /\ fresh_miss (run repo false w_mm make_memmap_ops) [] MParamCount [] [].
Proof. split; [reflexivity|split; fresh_miss]. Qed.

Definition memmap_under_lock_ops : list op := [ORead [] MDetach [] []; OMemmap [] 100; OInplace ["a"] 7%Z].
Example repaired_memmap_on_locked :
  outcomes repo false w0 memmap_under_lock_ops = [Done; Done; Done] /\ fresh_miss (run repo false w0 memmap_under_lock_ops) [] MDetach [] [].
Proof. split; [reflexivity|fresh_miss]. Qed.

Example repaired_names_under_lock :
  fresh_miss (run repo false w0 [ORead [] MDetach [] []; OSetNames [] (Some ["u"])]) [] MDetach [] [].
Proof. fresh_miss. Qed.
Example repaired_batch_size_under_lock :
  fresh_miss (run repo false w0 [ORead [] MFlattenKeys [] []; OSetBatchSize [] []]) [] MFlattenKeys [] [].
Proof. fresh_miss. Qed.

(* D64 repaired: a lazy stack that is locked only through its members does not memoise *)
Example derived_lock_not_memoised :
  exists v, snd (read false w_lazy_members [] MKeyList [] []) = Some (Bypass, v, Some v)
            /\ nodes (fst (read false w_lazy_members [] MKeyList [] [])) = nodes w_lazy_members.
Proof. eexists; split; vm_compute; reflexivity. Qed.

(* ---------------------------------------------------------------- what is still refuted *)
(* ---------------------------------------------------------------- D62 (consequence of D7, owned by C05) — repaired *)
(* the lock state of a world: per node its flag, its registered parents, _is_memmap *)
Definition lock_graph (s : state) : list (path * option bool * list path * bool) :=
  map (fun n => (n_path n, n_flag n, n_parents n, n_memmap n)) (nodes s).

Lemma w_plain_good : forall U, Good U w_plain.
Proof.
  intros U. constructor.
  - cbn. repeat constructor; cbn; intuition discriminate.
  - intros n [<-|[<-|[]]]; cbn; split; try reflexivity; discriminate.
  - intros n x [<-|[<-|[]]] [<-|[<-|[]]]; cbn; auto.
  - intros n x [<-|[<-|[]]] [<-|[<-|[]]]; cbn; intros; try discriminate; auto.
  - intros n [<-|[<-|[]]]; cbn; intros; try discriminate; reflexivity.
  - intros n e [<-|[<-|[]]] [].
Qed.

(* td.memmap_() on the unlocked tree, then: read, n.unlock_(), n.set("new", ...), n.lock_() *)
Definition subtree_unlock_ops : list op := [ORead [] MFlattenKeys [] []; OUnlock ["n"]; OSet ["n"; "new"] (lfT 40 40); OLock ["n"]].
Definition memmap_then_subtree_unlock : list op := OMemmap [] 100 :: subtree_unlock_ops.

(* repaired: memmap_() builds the lock graph (every node flagged, the nested node registered under the root); the nested node
   cannot be unlocked alone — the call is REFUSED and the lock state is what it was (the flags, the parents, and — D68 repaired —
   _is_memmap of the node that tried) — the structural write is refused too, and the root's memoised flatten_keys is a sound hit *)
Theorem memmap_subtree_unlock_refused :
  let s1 := fst (step repo false w_plain (OMemmap [] 100)) in
  lock_graph s1 = [([], Some true, [], true); (["n"], Some true, [[]], true)]
  /\ snd (step repo false s1 (OUnlock ["n"])) = RaisedLock
  /\ lock_graph (fst (step repo false s1 (OUnlock ["n"]))) = lock_graph s1
  /\ outcomes repo false w_plain memmap_then_subtree_unlock = [Done; Done; RaisedLock; RaisedLock; Done]
  /\ exists v n, snd (read false (run repo false w_plain memmap_then_subtree_unlock) [] MFlattenKeys [] []) = Some (Hit, v, None)
                 /\ find_node (run repo false w_plain memmap_then_subtree_unlock) [] = Some n
                 /\ v = fresh (run repo false w_plain memmap_then_subtree_unlock) n MFlattenKeys [] [].
Proof.
  cbv zeta. split; [reflexivity|split; [reflexivity|split; [reflexivity|split; [reflexivity|]]]].
  eexists; eexists; split; [vm_compute; reflexivity|split; vm_compute; reflexivity].
Qed.

(* the library before the repair of D68 (everything else repaired): the refused unlock_ has cleared _is_memmap of the node that
   tried, and of that node only *)
Definition before_D68 : fixes :=
  {| fix_rebind := true; fix_meta := true; fix_memmap := true; fix_lockgraph := true; fix_lockflag := true; fix_unlockflags := false; fix_attach := true |}.
Example unrepaired_refused_unlock_clears_memmap :
  let s1 := fst (step before_D68 false w_plain (OMemmap [] 100)) in
  snd (step before_D68 false s1 (OUnlock ["n"])) = RaisedLock
  /\ lock_graph (fst (step before_D68 false s1 (OUnlock ["n"]))) = [([], Some true, [], true); (["n"], Some true, [[]], false)].
Proof. split; reflexivity. Qed.

(* the library before the repair of D7: memmap_() flags the nodes and registers nothing, the nested node unlocks alone, is
   written structurally, and the root answers from its memoised flatten_keys — a stale hit (what D62 recorded) *)
Theorem unrepaired_memmap_subtree_unlock :
  lock_graph (fst (step unrepaired false w_plain (OMemmap [] 100))) = [([], Some true, [], true); (["n"], Some true, [], true)]
  /\ outcomes unrepaired false w_plain memmap_then_subtree_unlock = [Done; Done; Done; Done; Done]
  /\ stale_hit (run unrepaired false w_plain memmap_then_subtree_unlock) [] MFlattenKeys [] [].
Proof. split; [reflexivity|split; [reflexivity|stale]]. Qed.

(* with the lock graph built by lock_ the same unlock is refused as well *)
Example subtree_unlock_refused_under_lock_ : outcomes repo false w0 [OUnlock ["n"]] = [RaisedLock].
Proof. reflexivity. Qed.

(* ---------------------------------------------------------------- D69 — repaired *)
(* td.memmap_(); td.flatten_keys(); td.make_memmap_from_tensor(("mn", "x"), t); td.flatten_keys(); td["mn"].set("y", ...) *)
Definition nested_make_memmap_ops : list op :=
  [ORead [] MFlattenKeys [] []; OMakeMemmapNested ["mn"] 50 "x" mm_leaf; ORead [] MFlattenKeys [] []; OSet ["mn"; "y"] (lfT 41 41)].
(* repaired: the nested tensordict bound under the locked root is flagged, registered under the root and memory-mapped; it is
   neither written structurally nor unlocked alone, and the root's memoised flatten_keys is a sound hit *)
Theorem nested_make_memmap_attached_locked :
  lock_graph (run repo false w_mm [OMakeMemmapNested ["mn"] 50 "x" mm_leaf])
  = [([], Some true, [], true); (["n"], Some true, [[]], true); (["mn"], Some true, [[]], true)]
  /\ outcomes repo false w_mm (nested_make_memmap_ops ++ [OUnlock ["mn"]]) = [Done; Done; Done; RaisedLock; RaisedLock]
  /\ exists v n, snd (read false (run repo false w_mm nested_make_memmap_ops) [] MFlattenKeys [] []) = Some (Hit, v, None)
                 /\ find_node (run repo false w_mm nested_make_memmap_ops) [] = Some n
                 /\ v = fresh (run repo false w_mm nested_make_memmap_ops) n MFlattenKeys [] [].
Proof.
  split; [reflexivity|split; [reflexivity|]]. eexists; eexists; split; [vm_compute; reflexivity|split; vm_compute; reflexivity].
Qed.
(* the library before the repair of D69 (everything else repaired): the new node is not locked, the write is accepted, stale hit *)
Definition before_D69 : fixes :=
  {| fix_rebind := true; fix_meta := true; fix_memmap := true; fix_lockgraph := true; fix_lockflag := true; fix_unlockflags := true; fix_attach := false |}.
Theorem unrepaired_nested_make_memmap :
  lock_graph (run before_D69 false w_mm [OMakeMemmapNested ["mn"] 50 "x" mm_leaf])
  = [([], Some true, [], true); (["n"], Some true, [[]], true); (["mn"], Some false, [], false)]
  /\ outcomes before_D69 false w_mm nested_make_memmap_ops = [Done; Done; Done; Done]
  /\ stale_hit (run before_D69 false w_mm nested_make_memmap_ops) [] MFlattenKeys [] [].
Proof. split; [reflexivity|split; [reflexivity|stale]]. Qed.

(* D65: a lazy stack holds stacked COPIES in its memoised flatten_keys: stale after a plain in-place write through a member *)
Theorem refuted_lazy_materialised :
  outcomes repo false w_lazy [ORead [] MFlattenKeys [] []; OInplace ["#0"; "x"] 9%Z] = [Done; Done]
  /\ stale_hit (run repo false w_lazy [ORead [] MFlattenKeys [] []; OInplace ["#0"; "x"] 9%Z]) [] MFlattenKeys [] [].
Proof. split; [reflexivity|stale]. Qed.

(* the key view and the flattened tensordict retain the callable; with D67 repaired EVERY entry retains its arguments, which is
   what discharges the hypothesis [objs_consistent] of the soundness theorems in the library (CPython: live objects have distinct ids) *)
Definition f_tensors : obj := {| o_addr := 50; o_uid := 1; o_sem := 1 |}.
Example view_retains_is_leaf :
  fresh w0 (mknode [] 1 NTD (Some true) [] false) MNestedKeys [] [("is_leaf", AObj f_tensors)] = VView false false 1 false [f_tensors]
  /\ exists meta l, fresh w0 (mknode [] 1 NTD (Some true) [] false) MFlattenKeys [] [("is_leaf", AObj f_tensors)] = VTd meta l [f_tensors].
Proof. split; [reflexivity|eexists; eexists; vm_compute; reflexivity]. Qed.
