(* C06 — concrete states: non-vacuity of the invariant, and the witnesses of the refutations (each is a history of calls that
   /repo accepts under lock, replayed against the implementation by harness/c06.py `witnesses()`). *)
From Coq Require Import ZArith List String Bool Arith Lia.
Import ListNotations.
From TD Require Import Model.C06_Cache Proofs.C06_PathP Proofs.C06_ViewP Proofs.C06_KeyP Proofs.C06_CacheP Proofs.C06_ReadP Proofs.C06_StepP.
Open Scope string_scope.
Open Scope list_scope.

Definition mt3 : nmeta := {| m_bs := [3]; m_names := Some ["t"]; m_dev := 0 |}.
Definition lfT (uid stor : nat) : leaf :=
  {| l_uid := uid; l_kind := KTensor; l_stor := stor; l_payload := 0; l_dtype := 0; l_numel := 3; l_esize := 8; l_mm := false |}.
Definition lfND (uid : nat) (pay : Z) : leaf :=
  {| l_uid := uid; l_kind := KNonTensorData; l_stor := 0; l_payload := pay; l_dtype := 0; l_numel := 0; l_esize := 0; l_mm := false |}.
Definition lfNS (uid stor : nat) : leaf :=
  {| l_uid := uid; l_kind := KNonTensorStack; l_stor := stor; l_payload := 0; l_dtype := 0; l_numel := 0; l_esize := 0; l_mm := false |}.
Definition mknode (p : path) (uid : nat) (k : nkind) (fl : option bool) (pars : list path) (mm : bool) : node :=
  {| n_path := p; n_uid := uid; n_kind := k; n_flag := fl; n_parents := pars; n_memmap := mm; n_meta := mt3; n_cache := [] |}.

(* td = TensorDict({"a": tensor, "nt": NonTensorData, "n": {"c": tensor}}, [3], names=["t"]).lock_() *)
Definition w0 : state :=
  {| nodes := [mknode [] 1 NTD (Some true) [] false; mknode ["n"] 2 NTD (Some true) [[]] false];
     leaves := [(["a"], lfT 10 10); (["nt"], lfND 11 1); (["n"; "c"], lfT 12 12)];
     store := [(10, 1%Z); (12, 2%Z)] |}.
(* the same tree locked by memmap_(): every node flagged, nothing registered (D7) *)
Definition w_mm : state :=
  {| nodes := [mknode [] 1 NTD (Some true) [] true; mknode ["n"] 2 NTD (Some true) [] true];
     leaves := [(["a"], lfT 10 10); (["n"; "c"], lfT 12 12)];
     store := [(10, 1%Z); (12, 2%Z)] |}.
(* ls = lazy_stack([TensorDict({"x": t0}, names..), TensorDict({"x": t1}, ...)]).lock_() *)
Definition w_lazy : state :=
  {| nodes := [mknode [] 1 NLAZY (Some true) [] false; mknode ["#0"] 2 NTD (Some true) [[]] false; mknode ["#1"] 3 NTD (Some true) [[]] false];
     leaves := [(["#0"; "x"], lfT 10 10); (["#1"; "x"], lfT 11 11)];
     store := [(10, 1%Z); (11, 2%Z)] |}.
(* the same stack built from members that were locked one by one: is_locked is derived *)
Definition w_lazy_members : state :=
  {| nodes := [mknode [] 1 NLAZY None [] false; mknode ["#0"] 2 NTD (Some true) [] false; mknode ["#1"] 3 NTD (Some true) [] false];
     leaves := [(["#0"; "x"], lfT 10 10); (["#1"; "x"], lfT 11 11)];
     store := [(10, 1%Z); (11, 2%Z)] |}.

Lemma w0_good : forall U, Good U w0.
Proof.
  intros U. constructor.
  - cbn. repeat constructor; cbn; intuition discriminate.
  - intros n [<-|[<-|[]]]; cbn; split; try reflexivity; discriminate.
  - intros n x [<-|[<-|[]]] [<-|[<-|[]]]; cbn; auto.
  - intros n x [<-|[<-|[]]] [<-|[<-|[]]]; cbn; intros; try discriminate; auto.
  - intros n [<-|[<-|[]]]; cbn; intros; try discriminate; reflexivity.
  - intros n e [<-|[<-|[]]] [].
Qed.

Fixpoint outcomes (fx : fixes) (hk : bool) (s : state) (ops : list op) : list outcome :=
  match ops with [] => [] | o :: r => snd (step fx hk s o) :: outcomes fx hk (fst (step fx hk s o)) r end.

(* a production read (hook off) that is a HIT and returns something a fresh call would not return — observably *)
Definition stale_hit (s : state) (p : path) (m : meth) (a : list arg) (k : list (string * arg)) : Prop :=
  exists v n, snd (read false s p m a k) = Some (Hit, v, None) /\ find_node s p = Some n
              /\ observe s p v <> observe s p (fresh s n m a k).

Ltac stale := eexists; eexists; split; [vm_compute; reflexivity|split; [vm_compute; reflexivity|vm_compute; congruence]].

(* non-vacuity of cache_sound_partial: a hit after an in-place write, sound and showing the new content *)
Example sound_hit_after_inplace :
  let s1 := run repo false w0 [ORead [] MFlattenKeys [] []; OInplace ["a"] 7%Z] in
  exists v n, snd (read false s1 [] MFlattenKeys [] []) = Some (Hit, v, None) /\ find_node s1 [] = Some n
              /\ v = fresh s1 n MFlattenKeys [] []
              /\ observe s1 [] v = ObsItems [([], mt3)] [(["a"], OTensor 7 0 3); (["nt"], ONonTensor KNonTensorData 1); (["n"; "c"], OTensor 2 0 3)].
Proof. eexists; eexists; repeat split; vm_compute; reflexivity. Qed.

Definition D19_ops : list op := [ORead [] MFlattenKeys [] []; OPromote ["nt"] (lfNS 20 20)].
Theorem refuted_nontensor_promotion :
  outcomes repo false w0 D19_ops = [Done; Done] /\ stale_hit (run repo false w0 D19_ops) [] MFlattenKeys [] [].
Proof. split; [reflexivity|stale]. Qed.

Theorem refuted_values_list_after_promotion :
  stale_hit (run repo false w0 [ORead [] MValuesList [] []; OPromote ["nt"] (lfNS 20 20)]) [] MValuesList [] [].
Proof. stale. Qed.

Definition mm_leaf : leaf := {| l_uid := 30; l_kind := KTensor; l_stor := 30; l_payload := 0; l_dtype := 0; l_numel := 3; l_esize := 8; l_mm := true |}.
Definition make_memmap_ops : list op := [ORead [] MSortedKeys [] []; ORead [] MParamCount [] []; OMakeMemmap ["z"] mm_leaf].
Theorem refuted_make_memmap :
  outcomes repo false w_mm make_memmap_ops = [Done; Done; Done]
  /\ stale_hit (run repo false w_mm make_memmap_ops) [] MSortedKeys [] []
  /\ stale_hit (run repo false w_mm make_memmap_ops) [] MParamCount [] [].
Proof. split; [reflexivity|split; stale]. Qed.

Definition memmap_under_lock_ops : list op := [ORead [] MDetach [] []; OMemmap [] 100; OInplace ["a"] 7%Z].
Theorem refuted_memmap_on_locked :
  outcomes repo false w0 memmap_under_lock_ops = [Done; Done; Done] /\ stale_hit (run repo false w0 memmap_under_lock_ops) [] MDetach [] [].
Proof. split; [reflexivity|stale]. Qed.

Definition subtree_unlock_ops : list op := [ORead [] MFlattenKeys [] []; OUnlock ["n"]; OSet ["n"; "new"] (lfT 40 40); OLock ["n"]].
Theorem refuted_memmap_subtree_unlock :
  outcomes repo false w_mm subtree_unlock_ops = [Done; Done; Done; Done] /\ stale_hit (run repo false w_mm subtree_unlock_ops) [] MFlattenKeys [] [].
Proof. split; [reflexivity|stale]. Qed.
(* with the lock graph built by lock_ the same unlock is refused: the witness needs memmap_'s graph-less lock *)
Example subtree_unlock_refused_under_lock_ : outcomes repo false w0 [OUnlock ["n"]] = [RaisedLock].
Proof. reflexivity. Qed.

Theorem refuted_names_under_lock :
  outcomes repo false w0 [ORead [] MDetach [] []; OSetNames [] (Some ["u"])] = [Done; Done]
  /\ stale_hit (run repo false w0 [ORead [] MDetach [] []; OSetNames [] (Some ["u"])]) [] MDetach [] [].
Proof. split; [reflexivity|stale]. Qed.

Theorem refuted_batch_size_under_lock :
  outcomes repo false w0 [ORead [] MFlattenKeys [] []; OSetBatchSize [] []] = [Done; Done]
  /\ stale_hit (run repo false w0 [ORead [] MFlattenKeys [] []; OSetBatchSize [] []]) [] MFlattenKeys [] [].
Proof. split; [reflexivity|stale]. Qed.

(* S11: the memoised names of a lazy stack after a member's names were assigned (the lazy stack's own setter erases) *)
Theorem refuted_lazy_member_names :
  outcomes repo false w_lazy [ORead [] MLazyNames [] []; OSetNames ["#0"] (Some ["u"])] = [Done; Done]
  /\ stale_hit (run repo false w_lazy [ORead [] MLazyNames [] []; OSetNames ["#0"] (Some ["u"])]) [] MLazyNames [] [].
Proof. split; [reflexivity|stale]. Qed.
Example lazy_names_setter_erases :
  let s1 := run repo false w_lazy [ORead [] MLazyNames [] []; OSetNames [] (Some ["u"])] in
  exists acc v, snd (read false s1 [] MLazyNames [] []) = Some (acc, v, Some v) /\ acc = Miss.
Proof. eexists; eexists; split; vm_compute; reflexivity. Qed.

(* a lazy stack holds stacked COPIES in its memoised flatten_keys: stale after a plain in-place write through a member *)
Theorem refuted_lazy_materialised :
  outcomes repo false w_lazy [ORead [] MFlattenKeys [] []; OInplace ["#0"; "x"] 9%Z] = [Done; Done]
  /\ stale_hit (run repo false w_lazy [ORead [] MFlattenKeys [] []; OInplace ["#0"; "x"] 9%Z]) [] MFlattenKeys [] [].
Proof. split; [reflexivity|stale]. Qed.

(* unlock_erases fails for a lazy stack whose lock is derived from its members: cycling the members never erases its cache *)
Definition member_cycle_ops : list op :=
  [ORead [] MKeyList [] []; OUnlock ["#0"]; OUnlock ["#1"]; OSet ["#0"; "y"] (lfT 50 50); OSet ["#1"; "y"] (lfT 51 51); OLock ["#0"]; OLock ["#1"]].
Theorem refuted_lazy_member_cycle :
  outcomes repo false w_lazy_members member_cycle_ops = [Done; Done; Done; Done; Done; Done; Done]
  /\ stale_hit (run repo false w_lazy_members member_cycle_ops) [] MKeyList [] [].
Proof. split; [reflexivity|stale]. Qed.

(* two is_leaf callables with different meaning at one address (the first one died): the memoised list does not retain it *)
Definition f_tensors : obj := {| o_addr := 50; o_uid := 1; o_sem := 1 |}.
Definition f_all : obj := {| o_addr := 50; o_uid := 2; o_sem := 7 |}.
Definition kw_collapse (o : obj) : list (string * arg) := [("collapse", ABool true); ("is_leaf", AObj o)].
Theorem refuted_address_reuse :
  stale_hit (run repo false w0 [ORead [] MValuesList [ABool true; ABool true] (kw_collapse f_tensors)])
            [] MValuesList [ABool true; ABool true] (kw_collapse f_all).
Proof. stale. Qed.
(* the key view and the flattened tensordict retain the callable (pins): CPython cannot hand its address to another object *)
Example view_retains_is_leaf :
  fresh w0 (mknode [] 1 NTD (Some true) [] false) MNestedKeys [] [("is_leaf", AObj f_tensors)] = VView false false 1 false [f_tensors]
  /\ exists meta l, fresh w0 (mknode [] 1 NTD (Some true) [] false) MFlattenKeys [] [("is_leaf", AObj f_tensors)] = VTd meta l [f_tensors].
Proof. split; [reflexivity|eexists; eexists; vm_compute; reflexivity]. Qed.
