(* C14 — select_subsequence: the backward slice computes the same terms for the retained out_keys. *)
From Coq Require Import List String Bool Arith Lia.
Import ListNotations.
From TD Require Import Model.C14_Flow Spec.C14_Fold Proofs.C14_FlowP.

Definition agree (L : key -> Prop) (e1 e2 : env) : Prop := forall k, L k -> e1 k = e2 k.

(* ------------------------------------------------------------------ liveness *)
Lemma live_mono : forall ls (L1 L2 : key -> Prop), (forall k, L1 k -> L2 k) -> forall k, live ls L1 k -> live ls L2 k.
Proof.
  induction ls as [|l r IH]; intros L1 L2 H k Hk; cbn in *; [now apply H|].
  destruct Hk as [Hk|[Hk Hn]]; [now left|right]. split; [|assumption]. eapply IH; eassumption.
Qed.
Lemma live_app : forall a b L k, live (a ++ b) L k <-> live a (live b L) k.
Proof.
  induction a as [|l r IH]; intros b L k; cbn; [tauto|]. rewrite IH. tauto.
Qed.

Lemma writes_app : forall a b, writes (a ++ b) = writes a ++ writes b.
Proof. intros. unfold writes. now rewrite flat_map_app, filter_app. Qed.
Lemma in_writes : forall ls k, List.In k (writes ls) <-> is_sink k = false /\ exists l, List.In l ls /\ List.In k (outs l).
Proof.
  intros ls k. unfold writes. rewrite filter_In, in_flat_map. split.
  - intros [[l [Hl Hk]] Hs]. split; [now destruct (is_sink k)|]. now exists l.
  - intros [Hs [l [Hl Hk]]]. split; [now exists l|now rewrite Hs].
Qed.

Lemma live_cases : forall ls L k, live ls L k -> (L k /\ ~ List.In k (writes ls)) \/ (exists l, List.In l ls /\ List.In k (ins l)).
Proof.
  induction ls as [|l r IH]; intros L k H; cbn in H.
  - left. split; [assumption|intros []].
  - destruct H as [H|[H Hn]]; [right; exists l; split; [now left|assumption]|].
    destruct (IH L k H) as [[HL Hw]|[l' [Hl' Hi]]].
    + left. split; [assumption|]. change (l :: r) with ([l] ++ r). rewrite writes_app. intro HI.
      apply in_app_or in HI as [HI|HI]; contradiction.
    + right. exists l'. split; [now right|assumption].
Qed.

(* ------------------------------------------------------------------ semantic steps *)
Lemma eread_agree : forall ks e1 e2, (forall k, List.In k ks -> e1 k = e2 k) -> eread ks e1 = eread ks e2.
Proof.
  induction ks as [|k r IH]; intros e1 e2 H; cbn; [reflexivity|].
  rewrite (H k (or_introl eq_refl)). rewrite (IH e1 e2); [reflexivity|]. intros; apply H; now right.
Qed.

Lemma step_kept : forall l L e1 e2 e1', agree (live [l] L) e1 e2 -> apply_leaf l e1 = Some e1' ->
  exists e2', apply_leaf l e2 = Some e2' /\ agree L e1' e2'.
Proof.
  intros l L e1 e2 e1' HA H. unfold apply_leaf in *.
  assert (E : eread (ins l) e1 = eread (ins l) e2).
  { apply eread_agree. intros k Hk. apply HA. cbn. now left. }
  rewrite <- E. destruct (eread (ins l) e1) as [args|]; [|discriminate]. inversion H; subst e1'.
  eexists. split; [reflexivity|]. intros k Hk. apply ewrite_agree.
  destruct (in_dec key_dec k (writes [l])) as [Hw|Hw].
  - left. apply in_writes in Hw as [Hs [l' [[<-|[]] Ho]]]. rewrite fst_leaf_vals. now split.
  - right. apply HA. cbn. right. now split.
Qed.

Lemma run_kept : forall ls L e1 e2 e1', agree (live ls L) e1 e2 -> spec_run ls e1 = Some e1' ->
  exists e2', spec_run ls e2 = Some e2' /\ agree L e1' e2'.
Proof.
  induction ls as [|l r IH]; intros L e1 e2 e1' HA H; cbn in H.
  - inversion H; subst. exists e2. split; [reflexivity|assumption].
  - destruct (apply_leaf l e1) as [e1m|] eqn:E1; [|discriminate].
    destruct (step_kept l (live r L) e1 e2 e1m) as [e2m [E2 HA2]]; [exact HA|exact E1|].
    destruct (IH L e1m e2m e1' HA2 H) as [e2' [H2 HA3]].
    exists e2'. split; [|assumption]. cbn. now rewrite E2.
Qed.

Lemma spec_run_frame_w : forall ls e e' k, spec_run ls e = Some e' -> ~ List.In k (writes ls) -> e' k = e k.
Proof.
  induction ls as [|l r IH]; intros e e' k H Hn; cbn in H; [now inversion H|].
  unfold apply_leaf in H. destruct (eread (ins l) e) as [args|]; [|discriminate].
  change (l :: r) with ([l] ++ r) in Hn. rewrite writes_app in Hn.
  rewrite (IH _ _ k H); [|intro HI; apply Hn; apply in_or_app; now right].
  apply ewrite_frame. rewrite fst_leaf_vals.
  destruct (is_sink k) eqn:Hs; [now right|left]. intro Ho. apply Hn. apply in_or_app. left.
  apply in_writes. split; [assumption|]. exists l. split; [now left|assumption].
Qed.

(* ------------------------------------------------------------------ advertised in_keys cover what is live *)
Lemma writes_in_out_keys : forall n, regular n = true -> forall k, List.In k (writes (leaves n)) -> List.In k (out_keys n).
Proof.
  intros n HR k Hk. apply in_writes in Hk as [_ [l [Hl Ho]]]. apply (out_keys_are_writes n HR). now exists l.
Qed.
Lemma out_not_written_is_sink : forall n, regular n = true -> forall k,
  List.In k (out_keys n) -> ~ List.In k (writes (leaves n)) -> k = sink.
Proof.
  intros n HR k Hk Hn. apply (out_keys_are_writes n HR) in Hk as [l [Hl Ho]].
  destruct (is_sink k) eqn:Hs; [unfold is_sink in Hs; now apply key_eqb_eq in Hs|].
  exfalso. apply Hn. apply in_writes. split; [assumption|]. now exists l.
Qed.
Lemma no_sink_read : forall ls, forallb (fun l => negb (memk sink (ins l))) ls = true ->
  forall l, List.In l ls -> ~ List.In sink (ins l).
Proof.
  intros ls H l Hl Hi. rewrite forallb_forall in H. specialize (H l Hl). apply memk_In in Hi. rewrite Hi in H. discriminate.
Qed.
Lemma live_sink : forall ls L, forallb (fun l => negb (memk sink (ins l))) ls = true -> live ls L sink -> L sink.
Proof.
  intros ls L H Hl. destruct (live_cases ls L sink Hl) as [[HL _]|[l [Hl' Hi]]]; [assumption|].
  exfalso. eapply no_sink_read; eassumption.
Qed.

Definition covers (n : node) : Prop :=
  forall (L : key -> Prop) k, live (leaves n) L k -> List.In k (in_keys n) \/ (L k /\ ~ List.In k (writes (leaves n))).

Lemma no_sink_in_children : forall c ms, no_sink_in (Seq c ms) = true -> forallb no_sink_in ms = true.
Proof.
  intros c ms HN. unfold no_sink_in in HN. cbn [leaves] in HN. rewrite forallb_forall in HN. apply forallb_forall. intros m Hm.
  unfold no_sink_in. apply forallb_forall. intros l Hl. apply HN. apply in_flat_map. now exists m.
Qed.
Lemma no_sink_in_flat : forall ms, forallb no_sink_in ms = true ->
  forallb (fun l => negb (memk sink (ins l))) (flat_map leaves ms) = true.
Proof.
  intros ms H. apply forallb_forall. intros l Hl. apply in_flat_map in Hl as [m [Hm Hl]].
  rewrite forallb_forall in H. specialize (H m Hm). unfold no_sink_in in H. rewrite forallb_forall in H. now apply H.
Qed.

Lemma covers_list : forall ms, Forall (fun n => regular n = true -> no_sink_in n = true -> covers n) ms ->
  forallb regular ms = true -> forallb no_sink_in ms = true ->
  forall (L : key -> Prop) acc k, live (flat_map leaves ms) L k ->
    List.In k (snd acc) \/ List.In k (fst (iofold ms acc)) \/ (L k /\ ~ List.In k (writes (flat_map leaves ms))).
Proof.
  induction ms as [|m r IH]; intros HF HR HN L acc k H.
  - cbn in *. right. right. split; [assumption|intros []].
  - cbn [forallb] in HR, HN. apply andb_true_iff in HR as [HRm HRr]. apply andb_true_iff in HN as [HNm HNr].
    inversion HF as [|? ? Hm Hr]; subst. specialize (Hm HRm HNm).
    cbn [flat_map] in H. apply live_app in H. set (acc1 := step_io acc (io m)).
    assert (E : iofold (m :: r) acc = iofold r acc1) by reflexivity. rewrite E.
    destruct (Hm _ k H) as [Hi|[HL Hw]].
    + destruct (add_ins_covers (snd acc) (in_keys m) (fst acc) k Hi) as [Hc|Hc]; [now left|].
      right. left. now apply iofold_ik_mono.
    + destruct (IH Hr HRr HNr L acc1 k HL) as [Ha|[Ha|[Ha Hb]]].
      * cbn in Ha. apply in_app_or in Ha as [Ha|Ha]; [now left|].
        pose proof (out_not_written_is_sink m HRm k Ha Hw) as Es. subst k.
        right. right. split.
        -- apply (live_sink (flat_map leaves r)); [now apply no_sink_in_flat|assumption].
        -- intro HI. apply in_writes in HI as [Hs _]. unfold is_sink in Hs. now rewrite key_eqb_refl in Hs.
      * right. now left.
      * right. right. split; [assumption|]. cbn [flat_map]. rewrite writes_app. intro HI.
        apply in_app_or in HI as [HI|HI]; contradiction.
Qed.

Lemma covers_node : forall n, regular n = true -> no_sink_in n = true -> covers n.
Proof.
  induction n as [l|c ms IH] using node_ind'; intros HR HN L k H.
  - cbn in H. destruct H as [H|[H Hn]]; [now left|right]. cbn [leaves]. now split.
  - pose proof (no_sink_in_children c ms HN) as HN'.
    cbn in HR. apply andb_true_iff in HR as [HR H4].
    cbn [leaves] in *.
    destruct (covers_list ms IH H4 HN' L ([], []) k H) as [[]|[Ha|Ha]]; [left|now right].
    exact Ha.
Qed.

(* ------------------------------------------------------------------ the backward pass *)
Definition good (n : node) : Prop := regular n = true /\ no_sink_in n = true.
(* the slice m' of m is sound for the key set S *)
Definition sound (m m' : node) (S : list key) : Prop :=
  forall (L : key -> Prop), (forall k, L k -> List.In k S) ->
  forall e1 e2 e1', agree (live (leaves m') L) e1 e2 -> spec_run (leaves m) e1 = Some e1' ->
    exists e2', spec_run (leaves m') e2 = Some e2' /\ agree L e1' e2'.

Lemma bpass_sound : forall rec ms,
  Forall good ms ->
  (forall m, List.In m ms -> forall S m', rec m None (Some S) = SOk m' -> good m' /\ sound m m' S) ->
  forall need kept nr, bpass rec ms need = Some (Some (kept, nr)) ->
    Forall good kept
    /\ (forall k, List.In k need -> List.In k nr)
    /\ (forall (L : key -> Prop), (forall k, L k -> List.In k need) -> forall k, live (flat_map leaves kept) L k -> List.In k nr)
    /\ (forall (L : key -> Prop), (forall k, L k -> List.In k need) ->
        forall e1 e2 e1', agree (live (flat_map leaves kept) L) e1 e2 -> spec_run (flat_map leaves ms) e1 = Some e1' ->
          exists e2', spec_run (flat_map leaves kept) e2 = Some e2' /\ agree L e1' e2').
Proof.
  intros rec. induction ms as [|m r IH]; intros HG HRec need kept nr H.
  - cbn in H. inversion H; subst. split; [constructor|]. split; [auto|]. split; [cbn; auto|].
    intros L HL e1 e2 e1' HA Hs. cbn in *. inversion Hs; subst. exists e2. split; [reflexivity|assumption].
  - cbn [bpass] in H. inversion HG as [|? ? Gm Gr]; subst.
    assert (HRec' : forall m0, List.In m0 r -> forall S m', rec m0 None (Some S) = SOk m' -> good m' /\ sound m0 m' S).
    { intros m0 Hm0. apply HRec. now right. }
    destruct (bpass rec r need) as [[[kr nrr]|]|] eqn:Er; try discriminate.
    destruct (IH Gr HRec' need kr nrr Er) as [I1 [I2 [I3 I4]]].
    destruct (existsb (fun k => memk k nrr) (out_keys m)) eqn:Ex.
    + (* kept *)
      assert (Hkeep : forall m', good m' -> sound m m' nrr -> kept = m' :: kr -> nr = nrr ++ in_keys m' ->
                Forall good kept
                /\ (forall k, List.In k need -> List.In k nr)
                /\ (forall (L : key -> Prop), (forall k, L k -> List.In k need) -> forall k, live (flat_map leaves kept) L k -> List.In k nr)
                /\ (forall (L : key -> Prop), (forall k, L k -> List.In k need) ->
                    forall e1 e2 e1', agree (live (flat_map leaves kept) L) e1 e2 -> spec_run (flat_map leaves (m :: r)) e1 = Some e1' ->
                      exists e2', spec_run (flat_map leaves kept) e2 = Some e2' /\ agree L e1' e2')).
      { intros m' Gm' Sm' -> ->. split; [now constructor|]. split; [intros k Hk; apply in_or_app; left; now apply I2|].
        assert (Hlive : forall (L : key -> Prop), (forall k, L k -> List.In k need) -> forall k, live (flat_map leaves kr) L k -> List.In k nrr)
          by exact I3.
        split.
        - intros L HL k Hk. cbn [flat_map] in Hk. apply live_app in Hk.
          destruct Gm' as [G1 G2]. destruct (covers_node m' G1 G2 _ k Hk) as [Hi|[Hl _]].
          + apply in_or_app. now right.
          + apply in_or_app. left. now apply (Hlive L HL).
        - intros L HL e1 e2 e1' HA Hs. cbn [flat_map] in *. rewrite spec_run_app in Hs.
          destruct (spec_run (leaves m) e1) as [e1m|] eqn:E1; [|discriminate].
          assert (HA' : agree (live (leaves m') (live (flat_map leaves kr) L)) e1 e2).
          { intros k Hk. apply HA. now apply live_app. }
          destruct (Sm' (live (flat_map leaves kr) L) (Hlive L HL) e1 e2 e1m HA' E1) as [e2m [E2 HA2]].
          destruct (I4 L HL e1m e2m e1' HA2 Hs) as [e2' [E3 HA3]].
          exists e2'. split; [|assumption]. now rewrite spec_run_app, E2. }
      destruct m as [l|c ms'].
      * inversion H; subst. apply (Hkeep (Leaf l)); try reflexivity; [assumption|].
        intros L HL e1 e2 e1' HA Hs. eapply run_kept; eassumption.
      * destruct (rec (Seq c ms') None (Some nrr)) as [m'| |] eqn:ERec; try discriminate. inversion H; subst.
        destruct (HRec (Seq c ms') (or_introl eq_refl) nrr m' ERec) as [Gm' Sm'].
        now apply (Hkeep m').
    + (* dropped: it writes nothing that is needed *)
      inversion H; subst. split; [assumption|]. split; [assumption|]. split; [assumption|].
      intros L HL e1 e2 e1' HA Hs. cbn [flat_map] in Hs. rewrite spec_run_app in Hs.
      destruct (spec_run (leaves m) e1) as [e1m|] eqn:E1; [|discriminate].
      apply (I4 L HL e1m e2 e1'); [|assumption].
      intros k Hk. rewrite (spec_run_frame_w _ _ _ k E1); [now apply HA|].
      intro Hw. destruct Gm as [G1 _]. apply (writes_in_out_keys m G1) in Hw.
      assert (Hn : List.In k nr) by now apply (I3 L HL).
      assert (Hc : existsb (fun k => memk k nr) (out_keys m) = true).
      { apply existsb_exists. exists k. split; [assumption|now apply memk_In]. }
      congruence.
Qed.

(* ------------------------------------------------------------------ the forward pass with the sequence's own in_keys keeps everything *)
Fixpoint rebuild (n : node) : node :=
  match n with Leaf l => Leaf l | Seq c ms => Seq (default_cfg (sdict c)) (map rebuild ms) end.
Fixpoint has_outs (n : node) : bool :=
  match n with
  | Leaf l => match outs l with [] => false | _ => true end
  | Seq c ms => match ms with [] => false | _ => true end && forallb has_outs ms
  end.

Lemma leaves_rebuild : forall n, leaves (rebuild n) = leaves n.
Proof.
  induction n as [l|c ms IH] using node_ind'; [reflexivity|]. cbn. induction IH as [|m r Hm Hr IHr]; cbn; [reflexivity|].
  now rewrite Hm, IHr.
Qed.
Lemma iofold_ext : forall ms acc, Forall (fun m => io (rebuild m) = io m) ms -> iofold (map rebuild ms) acc = iofold ms acc.
Proof.
  unfold iofold. induction ms as [|m r IH]; intros acc HF; cbn; [reflexivity|]. inversion HF; subst.
  rewrite H1. now apply IH.
Qed.
Lemma io_rebuild : forall n, regular n = true -> io (rebuild n) = io n.
Proof.
  induction n as [l|c ms IH] using node_ind'; intro HR; [reflexivity|].
  cbn in HR. apply andb_true_iff in HR as [HR H4]. apply andb_true_iff in HR as [HR H3]. apply andb_true_iff in HR as [H1 H2].
  destruct (ssel c) eqn:Es; [discriminate|].
  assert (HF : Forall (fun m => io (rebuild m) = io m) ms).
  { rewrite Forall_forall in *. rewrite forallb_forall in H4. intros m Hm. apply IH; [assumption|now apply H4]. }
  cbn [rebuild io]. fold (iofold (map rebuild ms) ([], [])). fold (iofold ms ([], [])). rewrite iofold_ext by assumption.
  cbn. now rewrite Es.
Qed.
Lemma forallb_map_rebuild : forall (p : node -> bool) ms, Forall (fun m => p m = true -> p (rebuild m) = true) ms ->
  forallb p ms = true -> forallb p (map rebuild ms) = true.
Proof.
  induction ms as [|m r IH]; intros HF H; cbn in *; [reflexivity|]. inversion HF; subst.
  apply andb_true_iff in H as [Ha Hb]. apply andb_true_iff. split; auto.
Qed.
Lemma regular_rebuild : forall n, regular n = true -> regular (rebuild n) = true.
Proof.
  induction n as [l|c ms IH] using node_ind'; intro HR; [assumption|].
  cbn in HR. apply andb_true_iff in HR as [HR H4]. cbn. now apply forallb_map_rebuild.
Qed.
Lemma has_outs_rebuild : forall n, has_outs n = true -> has_outs (rebuild n) = true.
Proof.
  induction n as [l|c ms IH] using node_ind'; intro HR; [assumption|].
  cbn in HR. apply andb_true_iff in HR as [H1 H2]. cbn. apply andb_true_iff. split; [now destruct ms|now apply forallb_map_rebuild].
Qed.
Lemma no_sink_in_rebuild : forall n, no_sink_in (rebuild n) = no_sink_in n.
Proof. intro n. unfold no_sink_in. now rewrite leaves_rebuild. Qed.
Lemma depth_rebuild : forall n, depth (rebuild n) = depth n.
Proof.
  induction n as [l|c ms IH] using node_ind'; [reflexivity|]. cbn. f_equal.
  induction IH as [|m r Hm Hr IHr]; cbn; [reflexivity|]. now rewrite Hm, IHr.
Qed.
Lemma rebuild_idem : forall n, rebuild (rebuild n) = rebuild n.
Proof.
  induction n as [l|c ms IH] using node_ind'; [reflexivity|]. cbn. f_equal. rewrite map_map.
  induction IH as [|m r Hm Hr IHr]; cbn; [reflexivity|]. now rewrite Hm, IHr.
Qed.

Lemma out_keys_nonempty : forall n, regular n = true -> has_outs n = true -> exists k, List.In k (out_keys n).
Proof.
  induction n as [l|c ms IH] using node_ind'; intros HR HO.
  - cbn in HR. apply andb_true_iff in HR as [_ HR]. unfold out_keys. cbn. unfold leaf_out. destruct (lsel l); [discriminate|].
    cbn in HO. destruct (outs l) as [|k r]; [discriminate|]. exists k. now left.
  - cbn in HR. apply andb_true_iff in HR as [HR H4]. apply andb_true_iff in HR as [HR H3]. apply andb_true_iff in HR as [H1 H2].
    destruct (ssel c) eqn:Es; [discriminate|].
    cbn in HO. apply andb_true_iff in HO as [O1 O2]. destruct ms as [|m r]; [discriminate|].
    inversion IH as [|? ? Hm Hr]; subst. cbn in H4, O2. apply andb_true_iff in H4 as [H4 _]. apply andb_true_iff in O2 as [O2 _].
    destruct (Hm H4 O2) as [k Hk]. exists k. unfold out_keys. cbn [io snd]. rewrite Es. apply dedup_last_In.
    fold (iofold (m :: r) ([], [])). rewrite iofold_ok. cbn. apply in_or_app. now left.
Qed.

Definition props (f : nat) (m : node) : Prop :=
  regular m = true /\ no_sink_in m = true /\ has_outs m = true /\ depth m <= f.

Definition keepall (f : nat) : Prop :=
  forall m, props f m -> forall I S,
    (forall I', I = Some I' -> forall k, List.In k (in_keys m) -> List.In k I') ->
    (forall S', S = Some S' -> forall k, List.In k (out_keys m) -> List.In k S') ->
    select_sub f m I S = SOk (rebuild m).

Lemma fpass_all : forall f, keepall f -> forall ms, Forall (props f) ms ->
  forall acc avail, (forall k, List.In k (fst (iofold ms acc)) -> List.In k avail) ->
    (forall k, List.In k (snd acc) -> List.In k avail) ->
    fpass (select_sub f) ms avail = Some (map rebuild ms).
Proof.
  intros f K. induction ms as [|m r IH]; intros HF acc avail Hik Hok; [reflexivity|].
  inversion HF as [|? ? Pm Pr]; subst. set (acc1 := step_io acc (io m)).
  assert (E : iofold (m :: r) acc = iofold r acc1) by reflexivity. rewrite E in Hik.
  assert (Hin : forall k, List.In k (in_keys m) -> List.In k avail).
  { intros k Hk. destruct (add_ins_covers (snd acc) (in_keys m) (fst acc) k Hk) as [H|H]; [now apply Hok|].
    apply Hik. now apply iofold_ik_mono. }
  assert (Hrec : fpass (select_sub f) r (avail ++ out_keys m) = Some (map rebuild r)).
  { apply (IH Pr acc1).
    - intros k Hk. apply in_or_app. left. now apply Hik.
    - intros k Hk. cbn in Hk. apply in_app_or in Hk as [Hk|Hk]; apply in_or_app; [left; now apply Hok|now right]. }
  destruct Pm as [P1 [P2 [P3 P5]]].
  destruct m as [l|c ms'].
  - cbn [fpass]. rewrite (proj2 (subk_spec _ _) Hin). rewrite Hrec. reflexivity.
  - cbn [fpass]. rewrite (K (Seq c ms')); [|repeat split; assumption| |].
    + unfold in_keys, out_keys. rewrite (io_rebuild _ P1). fold (in_keys (Seq c ms')) (out_keys (Seq c ms')).
      rewrite (proj2 (subk_spec _ _) Hin). rewrite Hrec. reflexivity.
    + intros I' EI k Hk. inversion EI; subst. now apply Hin.
    + intros S' ES. discriminate.
Qed.

Lemma bpass_all : forall f, keepall f -> forall ms, Forall (props f) ms ->
  forall need, (forall m k, List.In m ms -> List.In k (out_keys m) -> List.In k need) ->
  exists nr, bpass (select_sub f) ms need = Some (Some (map rebuild ms, nr)) /\ (forall k, List.In k need -> List.In k nr).
Proof.
  intros f K. induction ms as [|m r IH]; intros HF need Hn.
  - exists need. split; [reflexivity|auto].
  - inversion HF as [|? ? Pm Pr]; subst.
    destruct (IH Pr need) as [nrr [Hb Hsub]]; [intros; eapply Hn; [right|]; eassumption|].
    cbn [bpass]. rewrite Hb. destruct Pm as [P1 [P2 [P3 P5]]].
    destruct (out_keys_nonempty m P1 P3) as [k0 Hk0].
    assert (Ex : existsb (fun k => memk k nrr) (out_keys m) = true).
    { apply existsb_exists. exists k0. split; [assumption|]. apply memk_In. apply Hsub. eapply Hn; [now left|eassumption]. }
    rewrite Ex. destruct m as [l|c ms'].
    + eexists. split; [reflexivity|]. intros k Hk. apply in_or_app. left. now apply Hsub.
    + rewrite (K (Seq c ms')); [|repeat split; assumption| |].
      * eexists. split; [reflexivity|]. intros k Hk. apply in_or_app. left. now apply Hsub.
      * intros I' EI. discriminate.
      * intros S' ES k Hk. inversion ES; subst. apply Hsub. eapply Hn; [now left|eassumption].
Qed.

Lemma props_children : forall f c ms, props (S f) (Seq c ms) -> Forall (props f) ms.
Proof.
  intros f c ms [P1 [P2 [P3 P5]]]. apply Forall_forall. intros m Hm.
  cbn in P1. apply andb_true_iff in P1 as [_ P1]. rewrite forallb_forall in P1.
  pose proof (no_sink_in_children c ms P2) as P2'. rewrite forallb_forall in P2'.
  cbn in P3. apply andb_true_iff in P3 as [_ P3]. rewrite forallb_forall in P3.
  repeat split; auto.
  cbn in P5. apply le_S_n in P5.
  assert (D : forall l, List.In m l -> depth m <= fold_right (fun m d => Nat.max (depth m) d) 0 l).
  { induction l as [|x l IHl]; intros [];  cbn; [subst; lia|]. specialize (IHl H). lia. }
  specialize (D ms Hm). lia.
Qed.
Lemma props_rebuild : forall f m, props f m -> props f (rebuild m).
Proof.
  intros f m [P1 [P2 [P3 P5]]]. repeat split.
  - now apply regular_rebuild.
  - now rewrite no_sink_in_rebuild.
  - now apply has_outs_rebuild.
  - now rewrite depth_rebuild.
Qed.

Lemma keepall_all : forall f, keepall f.
Proof.
  induction f as [|f IH]; intros m P I S HI HS.
  - destruct P as [_ [_ [_ P5]]]. destruct m; cbn in P5; lia.
  - destruct m as [l|c ms]; [reflexivity|].
    pose proof (props_children f c ms P) as PC. destruct P as [P1 [P2 [P3 P5]]].
    cbn [select_sub].
    rewrite (fpass_all f IH ms PC ([], []) (match I with Some i => i | None => in_keys (Seq c ms) end)).
    2:{ intros k Hk. destruct I as [i|]; [now apply (HI i eq_refl)|exact Hk]. }
    2:{ intros k []. }
    assert (PC' : Forall (props f) (map rebuild ms)).
    { apply Forall_forall. intros m Hm. apply in_map_iff in Hm as [m0 [<- Hm0]]. apply props_rebuild.
      rewrite Forall_forall in PC. now apply PC. }
    destruct (bpass_all f IH (map rebuild ms) PC' (match S with Some s => s | None => out_keys (Seq c ms) end)) as [nr [Hb _]].
    { intros m k Hm Hk. apply in_map_iff in Hm as [m0 [<- Hm0]].
      assert (R0 : regular m0 = true) by (rewrite Forall_forall in PC; now destruct (PC m0 Hm0)).
      unfold out_keys in Hk. rewrite (io_rebuild _ R0) in Hk.
      assert (Hko : List.In k (out_keys (Seq c ms))).
      { cbn in P1. apply andb_true_iff in P1 as [P1 _]. apply andb_true_iff in P1 as [P1 _]. apply andb_true_iff in P1 as [_ P1].
        destruct (ssel c) eqn:Es; [discriminate|]. unfold out_keys. cbn [io snd]. rewrite Es.
        apply (out_keys_child ms m0 k Hm0 Hk). }
      destruct S as [s|]; [now apply (HS s eq_refl)|exact Hko]. }
    rewrite Hb. rewrite map_map. 
    assert (Em : map (fun x => rebuild (rebuild x)) ms = map rebuild ms).
    { apply map_ext. intro a. apply rebuild_idem. }
    rewrite Em. cbn in P3. apply andb_true_iff in P3 as [P3 _].
    destruct ms as [|m0 r]; [discriminate|]. reflexivity.
Qed.

(* ------------------------------------------------------------------ subsequence_sound *)
Lemma slice_sound_fuel : forall f n, props f n -> forall S n', select_sub f n None (Some S) = SOk n' -> good n' /\ sound n n' S.
Proof.
  induction f as [|f IH]; intros n P S n' H.
  - discriminate.
  - destruct n as [l|c ms].
    + cbn in H. inversion H; subst. destruct P as [P1 [P2 _]]. split; [now split|].
      intros L HL e1 e2 e1' HA Hs. eapply run_kept; eassumption.
    + pose proof (props_children f c ms P) as PC. destruct P as [P1 [P2 [P3 P5]]].
      cbn [select_sub] in H.
      rewrite (fpass_all f (keepall_all f) ms PC ([], []) (in_keys (Seq c ms))) in H; [|auto|intros k []].
      assert (PC' : Forall (props f) (map rebuild ms)).
      { apply Forall_forall. intros m Hm. apply in_map_iff in Hm as [m0 [<- Hm0]]. apply props_rebuild.
        rewrite Forall_forall in PC. now apply PC. }
      destruct (bpass (select_sub f) (map rebuild ms) S) as [[[k2 nr]|]|] eqn:Eb; try discriminate.
      destruct (bpass_sound (select_sub f) (map rebuild ms)) with (need := S) (kept := k2) (nr := nr) as [B1 [B2 [B3 B4]]].
      * apply Forall_forall. intros m Hm. rewrite Forall_forall in PC'. destruct (PC' m Hm) as [Q1 [Q2 _]]. now split.
      * intros m Hm S0 m' Hs. apply (IH m); [|assumption]. rewrite Forall_forall in PC'. now apply PC'.
      * exact Eb.
      * destruct k2 as [|m0 k2']; [discriminate|]. inversion H; subst n'.
        assert (G : good (Seq (default_cfg (sdict c)) (m0 :: k2'))).
        { split.
          - cbn [regular default_cfg sinpl ssel spt is_some negb andb]. apply forallb_forall. intros m Hm.
            rewrite Forall_forall in B1. now destruct (B1 m Hm).
          - unfold no_sink_in. cbn [leaves]. apply no_sink_in_flat. apply forallb_forall. intros m Hm.
            rewrite Forall_forall in B1. now destruct (B1 m Hm). }
        split; [exact G|].
        intros L HL e1 e2 e1' HA Hs. cbn [leaves] in *.
        assert (El : flat_map leaves (map rebuild ms) = flat_map leaves ms).
        { clear. induction ms as [|m r IHr]; cbn; [reflexivity|]. now rewrite leaves_rebuild, IHr. }
        rewrite <- El in Hs. exact (B4 L HL e1 e2 e1' HA Hs).
Qed.

Lemma subsequence_sound_partial : forall n S n',
  regular n = true -> no_sink_in n = true -> has_outs n = true ->
  select_sub (depth n + 1) n None (Some S) = SOk n' ->
  regular n' = true /\ no_sink_in n' = true
  /\ forall e e', spec_run (leaves n) e = Some e' ->
       exists e'', spec_run (leaves n') e = Some e'' /\ forall k, List.In k S -> e'' k = e' k.
Proof.
  intros n S n' H1 H2 H3 H.
  destruct (slice_sound_fuel (depth n + 1) n) with (S := S) (n' := n') as [[G1 G2] Sd].
  - repeat split; try assumption. lia.
  - exact H.
  - split; [assumption|]. split; [assumption|]. intros e e' Hs.
    destruct (Sd (fun k => List.In k S) (fun k Hk => Hk) e e e') as [e'' [H5 H6]]; [intros k _; reflexivity|exact Hs|].
    exists e''. split; [assumption|]. intros k Hk. symmetry. now apply H6.
Qed.

(* the former witness of D144 (a ModuleDict-based nested sequence that itself contains a sequence) is sliced soundly *)
Definition kd : key := ["d"%string].
Definition d144_node : node :=
  Seq dcfg [Leaf (mk 1 [ka] [kc]);
            Seq {| sinpl := None; ssel := None; spt := false; sdict := true |}
                [Seq dcfg [Leaf (mk 2 [ka] [kb])]; Leaf (mk 3 [kb] [kd])]].
Lemma subsequence_D144_repaired :
  select_sub (depth d144_node + 1) d144_node None (Some [kd])
  = SOk (Seq dcfg [Seq (default_cfg true) [Seq dcfg [Leaf (mk 2 [ka] [kb])]; Leaf (mk 3 [kb] [kd])]]).
Proof. vm_compute. reflexivity. Qed.
