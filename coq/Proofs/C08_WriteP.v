(* C08: writes through the lazy stack -- the plan of member writes __setitem__ performs. *)
From Coq Require Import ZArith List Bool Lia ZifyBool.
Import ListNotations.
From TD Require Import Spec.PySlice Spec.C08_Dense Model.C08_Lazy Model.C08_Write
  Proofs.C08_CoordP Proofs.C08_IndexP.
Open Scope Z_scope.

(* one in-place write per selected member: member ms[k] gets, at sub-index [sub], the k-th slice of the value along dim ud *)
Definition write_plan_of (ms : list arr) (sub : list item) (ud : nat) (v : arr) : list wr :=
  map (fun mk => WSet (fst mk) sub (Index (select_idx ud (Z.of_nat (snd mk))) v)) (combine ms (seq 0 (List.length ms))).

Lemma zip_strict_ok {A B} (l : list A) : forall (m : list B) r, zip_strict l m = Ok r -> r = combine l m /\ List.length l = List.length m.
Proof.
  induction l as [|x l IH]; intros [|y m] r H; cbn in H; try discriminate.
  - inversion H. split; reflexivity.
  - apply rbind_ok in H. destruct H as [r' [Hr H]]. inversion H; subst. destruct (IH m r' Hr) as [E L]. subst. split; cbn; congruence.
Qed.

Lemma rmap_concat_plan LS f' parts sub ud v : forall (js : list Z) (k0 : nat) ws,
  Forall (fun p => is_stack p = false) parts -> sub <> [] ->
  rmap (fun p : (Z * list item) * arr => let '((i, sub), vi) := p in
          rbind (member parts i) (fun m => m_set_or_update LS f' m sub vi))
       (combine (map (fun j => (j, sub)) js) (map (fun k => Index (select_idx ud (Z.of_nat k)) v) (seq k0 (List.length js)))) = Ok ws ->
  exists ms, Forall2 (fun j m => member parts j = Ok m) js ms /\
             concat ws = map (fun mk => WSet (fst mk) sub (Index (select_idx ud (Z.of_nat (snd mk))) v)) (combine ms (seq k0 (List.length ms))).
Proof.
  induction js as [|j js IH]; intros k0 ws Hplain Hsub H.
  - cbn in H. inversion H. exists []. split; [constructor|reflexivity].
  - cbn [map List.length seq combine rmap] in H.
    apply rbind_ok in H. destruct H as [w [Hw H]]. apply rbind_ok in Hw. destruct Hw as [m [Em Hw]].
    apply rbind_ok in H. destruct H as [ws' [Hws H]]. inversion H; subst ws. clear H.
    destruct (IH (S k0) ws' Hplain Hsub Hws) as [ms [F E]].
    exists (m :: ms). split; [constructor; assumption|].
    unfold m_set_or_update in Hw. destruct sub as [|it sub]; [congruence|]. cbn [is_empty_idx] in Hw.
    unfold m_setitem in Hw. rewrite (proj1 (Forall_forall _ _) Hplain m (member_In _ _ _ Em)) in Hw.
    inversion Hw; subst w. cbn [concat map List.length seq combine fst snd app]. rewrite E. reflexivity.
Qed.

Lemma basic_one_adv idx : basic idx -> one_adv idx.
Proof.
  intros HB. unfold one_adv. assert (E : filter is_adv idx = []).
  { induction HB as [|it idx Hit _ IH]; [reflexivity|]. cbn. destruct it; cbn in Hit; try contradiction; cbn; exact IH. }
  rewrite E. reflexivity.
Qed.

(* lazy[pre, a:b:c, post] = V on a flat stack of plain members: one in-place write per selected member, the value slices
   taken along the dim where __getitem__ puts the stack dim; no member object is replaced *)
Theorem setitem_slice_plan fuel sd bs0 parts bs pre a b c post v vsh plan :
  parts <> [] -> Forall (fun p => shape_of p = Some bs /\ is_stack p = false) parts -> (sd <= List.length bs)%nat ->
  basic pre -> consumed pre = sd -> basic post -> pre ++ post <> [] -> (step_of c =? 0) = false ->
  shape_of v = Some vsh -> res_shape (pre ++ ISl a b c :: post) (insert_at sd (lenZ parts) bs) = Some vsh ->
  lz_setitem (S fuel) (Stack sd bs0 parts) (pre ++ ISl a b c :: post) v = Ok plan ->
  exists ms, Forall2 (fun j m => member parts j = Ok m) (range_elems (py_indices a b (step_of c) (lenZ parts))) ms /\
             plan = write_plan_of ms (pre ++ post) (rdims_l pre) v.
Proof.
  intros Hne Hparts Hsd HB HC HBp Hsub Hstep Hv Hlegal H.
  assert (Hsh : Forall (fun p => shape_of p = Some bs) parts) by (eapply Forall_impl; [|exact Hparts]; intros p [A _]; exact A).
  assert (Hpl : Forall (fun p => is_stack p = false) parts) by (eapply Forall_impl; [|exact Hparts]; intros p [_ A]; exact A).
  assert (HN : noell (pre ++ ISl a b c :: post)).
  { apply noell_app; [apply basic_noell; exact HB|constructor; [reflexivity|apply basic_noell; exact HBp]]. }
  cbn [lz_setitem] in H. rewrite (shape_of_stack sd bs0 parts bs Hne Hsh Hsd) in H.
  rewrite (convert_ellipsis_noell _ _ HN) in H. cbn [rbind] in H. rewrite Hlegal in H.
  unfold prep_value in H. rewrite Hv, list_eqb_refl, Hv in H.
  unfold setitem_body in H.
  assert (HA : one_adv (pre ++ ISl a b c :: post)).
  { apply basic_one_adv. apply basic_app; [exact HB|constructor; [exact I|exact HBp]]. }
  rewrite (split_index_slice sd (List.length parts) _ pre a b c post HB HC (basic_post _ HBp) HA Hstep) in H.
  cbn [rbind mk_split sp_has_bool sp_nd sp_kind sp_isint sp_num_single sp_num_none sp_num_squash negb] in H.
  change (Z.of_nat (List.length parts)) with (lenZ parts) in H.
  rewrite Z.sub_0_r in H. rewrite <- HC in H at 1. rewrite (nsd_basic pre HB) in H.
  unfold nonneg_nat in H. replace (Z.of_nat (rdims_l pre) <? 0) with false in H by lia. cbn [rbind] in H.
  rewrite Nat2Z.id in H.
  apply rbind_ok in H. destruct H as [vs [Hvs H]].
  apply rbind_ok in H. destruct H as [ev [Hev H]].
  apply rbind_ok in H. destruct H as [ws [Hws H]]. inversion H as [Hplan]. clear H.
  unfold v_unbind in Hvs. rewrite Hv in Hvs. destruct (nth_error vsh (rdims_l pre)) as [s|]; [|discriminate].
  inversion Hvs; subst vs. clear Hvs.
  apply zip_strict_ok in Hev. destruct Hev as [Eev Lev]. subst ev.
  rewrite !map_length, seq_length in Lev. rewrite <- Lev in Hws.
  destruct (rmap_concat_plan _ _ parts (pre ++ post) (rdims_l pre) v _ 0%nat ws Hpl Hsub Hws) as [ms [F E]].
  exists ms. split; [exact F|]. exact E.
Qed.

(* the former D23 region (fix C08-D23): lazy[T] = V with an integer tensor T of rank 1 as the whole index on stack dim 0
   now performs ONE in-place update per addressed member, member vals[i] receiving V[i]; nothing is replaced *)
Definition tensor_plan_of (ms : list arr) (v : arr) : list wr :=
  map (fun mk => WSet (fst mk) [] (Index (select_idx 0 (Z.of_nat (snd mk))) v)) (combine ms (seq 0 (List.length ms))).

Lemma assign_leaves LS f' parts v vs : forall (vals : list Z) (i : nat) ws,
  Forall (fun p => is_stack p = false) parts ->
  (fix go (l : list nest) (i : nat) : res (list wr) :=
     match l with
     | [] => Ok []
     | NLeaf j :: r =>
         rbind (of_opt (nth_error vs i)) (fun vi =>
         rbind (if is_empty_idx []
                then (if fixed_D23 then rbind (member parts j) (fun m => m_update (S f') m vi)
                      else match norm_i j (lenZ parts) with Some j' => Ok [WReplace j' vi] | None => Raised end)
                else rbind (member parts j) (fun m => m_setitem LS m [] vi)) (fun w =>
         rbind (go r (S i)) (fun ws => Ok (w ++ ws))))
     | (NList _ as t') :: r =>
         rbind (of_opt (nth_error vs i)) (fun vi =>
         rbind (assign LS (S f') parts 0 [] vi t') (fun w => rbind (go r (S i)) (fun ws => Ok (w ++ ws))))
     end) (map NLeaf vals) i = Ok ws ->
  exists ms, Forall2 (fun j m => member parts j = Ok m) vals ms /\
             ws = map (fun mk => WSet (fst mk) [] (nth (snd mk) vs v)) (combine ms (seq i (List.length ms))).
Proof.
  induction vals as [|j vals IH]; intros i ws Hplain H.
  - cbn in H. inversion H. exists []. split; [constructor|reflexivity].
  - cbn [map] in H.
    apply rbind_ok in H. destruct H as [vi [Hvi H]]. apply rbind_ok in H. destruct H as [w [Hw H]].
    apply rbind_ok in H. destruct H as [ws' [Hws H]]. inversion H; subst ws. clear H.
    cbn [is_empty_idx] in Hw. unfold fixed_D23 in Hw. apply rbind_ok in Hw. destruct Hw as [m [Em Hw]].
    destruct (IH (S i) ws' Hplain Hws) as [ms [F E]].
    exists (m :: ms). split; [constructor; assumption|].
    assert (Hm : is_stack m = false) by (apply (proj1 (Forall_forall _ _) Hplain); eapply member_In; exact Em).
    destruct m; cbn in Hm; try discriminate; cbn [m_update] in Hw; inversion Hw; subst w;
      cbn [List.length seq combine map fst snd app]; rewrite E;
      (destruct (nth_error vs i) as [x|] eqn:En; cbn in Hvi; [|discriminate]); inversion Hvi; subst x;
      rewrite (nth_error_nth _ _ _ En); reflexivity.
Qed.

Theorem setitem_tensor_alone fuel bs0 parts bs k vals v vsh plan :
  parts <> [] -> Forall (fun p => shape_of p = Some bs /\ is_stack p = false) parts ->
  shape_of v = Some vsh -> res_shape [ITen [k] vals] (insert_at 0 (lenZ parts) bs) = Some vsh ->
  lz_setitem (S (S fuel)) (Stack 0 bs0 parts) [ITen [k] vals] v = Ok plan ->
  exists ms, Forall2 (fun j m => member parts j = Ok m) vals ms /\ plan = tensor_plan_of ms v.
Proof.
  intros Hne Hparts Hv Hlegal H.
  assert (Hsh : Forall (fun p => shape_of p = Some bs) parts) by (eapply Forall_impl; [|exact Hparts]; intros p [A _]; exact A).
  assert (Hpl : Forall (fun p => is_stack p = false) parts) by (eapply Forall_impl; [|exact Hparts]; intros p [_ A]; exact A).
  remember (S fuel) as f1 eqn:Ef1.
  cbn [lz_setitem] in H. rewrite (shape_of_stack 0 bs0 parts bs Hne Hsh ltac:(lia)) in H.
  rewrite convert_ellipsis_noell in H by (repeat constructor). cbn [rbind] in H. rewrite Hlegal in H.
  unfold prep_value in H. rewrite Hv, list_eqb_refl, Hv in H.
  (* legality gives the size facts about the tensor *)
  unfold insert_at in Hlegal. cbn [firstn skipn app res_shape] in Hlegal.
  destruct ((lenZ vals =? prodZ [k]) && vals_ok vals (lenZ parts) && forallb (fun x : Z => 0 <=? x) [k]) eqn:Ec; [|discriminate].
  cbn [option_map app] in Hlegal. inversion Hlegal; subst vsh. clear Hlegal.
  apply andb_prop in Ec. destruct Ec as [Ec Ek]. apply andb_prop in Ec. destruct Ec as [El _].
  unfold setitem_body, split_index in H.
  rewrite convert_ellipsis_noell in H by (repeat constructor). cbn [rbind filter is_adv List.length Nat.ltb Nat.leb] in H.
  cbn [split_loop] in H. unfold split_step in H. cbn [as_number st_cursor Nat.eqb rbind st_has_bool st_out rmap st_sel] in H.
  rewrite El in H. cbn [rbind sp_kind sp_isint to_nest sp_num_single sp_num_none sp_num_squash st_num_single st_num_none st_num_squash st_enc] in H.
  apply rbind_ok in H. destruct H as [ud [Hud H]]. cbn in Hud. inversion Hud; subst ud. clear Hud.
  cbn [assign] in H. apply rbind_ok in H. destruct H as [vs [Hvs H]].
  unfold v_unbind in Hvs. rewrite Hv in Hvs. cbn [nth_error] in Hvs. inversion Hvs; subst vs. clear Hvs.
  subst f1.
  destruct (assign_leaves _ fuel parts v _ vals 0%nat plan Hpl H) as [ms [F E]].
  exists ms. split; [exact F|]. rewrite E. unfold tensor_plan_of. apply map_ext_in.
  intros [m i] Hin. cbn [fst snd]. f_equal.
  apply in_combine_r in Hin. apply in_seq in Hin.
  assert (Hlen : List.length ms = Z.to_nat k).
  { rewrite <- (Forall2_length _ _ _ F). cbn [prodZ fold_right] in El. unfold lenZ in El. lia. }
  apply nth_error_nth. rewrite nth_error_map, nth_error_seq.
  replace (i <? Z.to_nat k)%nat with true by (symmetry; apply Nat.ltb_lt; lia). reflexivity.
Qed.
