From Coq Require Import ZArith List Bool Lia ZifyBool.
From TD Require Import Spec.PySlice Model.SliceM.
Open Scope Z_scope.
Ltac Zify.zify_post_hook ::= Z.to_euclidean_division_equations.

(* the Python re-implementation returns CPython's triple for every slice, every length *)
Theorem slice_indices_eq start stop step len :
  0 <= len -> step <> 0 -> slice_indices_core start stop step len = py_indices start stop step len.
Proof.
  intros Hl Hs. unfold slice_indices_core, py_indices, adjust.
  assert (A : forall v : option Z,
    match v with
    | None => if step >? 0 then (if step >? 0 then 0 else -1) else (if step >? 0 then len else len - 1)
    | Some s => if s <? 0 then Z.max (s + len) (if step >? 0 then 0 else -1)
                else Z.min s (if step >? 0 then len else len - 1)
    end =
    match v with
    | None => if step <? 0 then len - 1 else 0
    | Some x => if x <? 0 then (let y := x + len in if y <? 0 then (if step <? 0 then -1 else 0) else y)
                else if x >=? len then (if step <? 0 then len - 1 else len) else x
    end).
  { intros [s|]; cbv zeta.
    - destruct (s <? 0) eqn:?, (step >? 0) eqn:?, (step <? 0) eqn:?, (s + len <? 0) eqn:?, (s >=? len) eqn:?; lia.
    - destruct (step >? 0) eqn:?, (step <? 0) eqn:?; lia. }
  assert (B : forall v : option Z,
    match v with
    | None => if step >? 0 then (if step >? 0 then len else len - 1) else (if step >? 0 then 0 else -1)
    | Some s => if s <? 0 then Z.max (s + len) (if step >? 0 then 0 else -1)
                else Z.min s (if step >? 0 then len else len - 1)
    end =
    match v with
    | None => if step <? 0 then -1 else len
    | Some x => if x <? 0 then (let y := x + len in if y <? 0 then (if step <? 0 then -1 else 0) else y)
                else if x >=? len then (if step <? 0 then len - 1 else len) else x
    end).
  { intros [s|]; cbv zeta.
    - destruct (s <? 0) eqn:?, (step >? 0) eqn:?, (step <? 0) eqn:?, (s + len <? 0) eqn:?, (s >=? len) eqn:?; lia.
    - destruct (step >? 0) eqn:?, (step <? 0) eqn:?; lia. }
  cbv zeta. rewrite (A start), (B stop). reflexivity.
Qed.

Theorem slice_indices_opt_eq start stop step len :
  0 <= len ->
  slice_indices_opt start stop step len =
  (let st := match step with None => 1 | Some s => s end in
   if st =? 0 then None else Some (py_indices start stop st len)).
Proof.
  intros Hl. unfold slice_indices_opt. cbv zeta.
  destruct (match step with None => 1 | Some s => s end =? 0) eqn:E; [reflexivity|].
  f_equal. apply slice_indices_eq; lia.
Qed.

(* semantic sanity of the spec itself: every element of the range is a valid position *)
Theorem py_indices_in_bounds start stop step len k :
  0 <= len -> step <> 0 -> 0 <= k < range_len (py_indices start stop step len) ->
  0 <= range_nth (py_indices start stop step len) k < len.
Proof.
  intros Hl Hs. unfold py_indices, range_len, range_nth, adjust.
  destruct start as [a|], stop as [b|];
  repeat match goal with |- context [if ?c then _ else _] => destruct c eqn:? end; nia.
Qed.
