(* C02 proofs, part 12: the spellings that were covered by the correspondence only --
   repeat_interleave(dim=None) on a batch of rank >= 1 (a chain reshape(-1); repeat_interleave(dim 0)),
   the names under transpose, and gather with its index-shape rule (_torch_func._gather: the index has the batch's
   number of dims, is expanded over each entry's trailing dims, the result has the index's shape). *)
From Coq Require Import ZArith List Bool Lia ZifyBool String.
Import ListNotations.
From TD Require Import Spec.PySlice Spec.C02_TorchShape Model.C02_ShapeOps Proofs.C02_FrameP Proofs.C02_OpsP Proofs.C02_MultiP
                       Proofs.C02_NamesP.
Open Scope Z_scope.
Ltac Zify.zify_post_hook ::= Z.to_euclidean_division_equations.

(* ------------------------------------------------------------------ repeat_interleave(r) without a dim *)
Lemma top_of_rel a b t t' : rel a b t t' -> top_shape t = a -> top_shape t' = b.
Proof.
  intros R E. destruct (rel_top _ _ _ _ R) as [tl [E1 E2]]. rewrite E in E1. rewrite <- (app_nil_r a) in E1 at 1.
  apply app_inv_head in E1. subst tl. rewrite app_nil_r in E2. exact E2.
Qed.

Theorem repeat_interleave_none : forall t r,
  wf t -> is_node t -> top_shape t <> [] -> 0 <= r ->
  t_repeat_interleave (top_shape t) r None = Ok [numel (top_shape t) * r] /\
  exists t', td_repeat_interleave t r None = Done t' /\ top_shape t' = [numel (top_shape t) * r] /\
             rel (top_shape t) [numel (top_shape t) * r] t t' /\ wf t'.
Proof.
  intros t r Hw Hn Hne Hr. split.
  { unfold t_repeat_interleave. destruct (r <? 0) eqn:E; [lia|reflexivity]. }
  destruct t as [sh|bs nm ents]; [contradiction|]. cbn [top_shape] in *. unfold numel.
  assert (Hnb : nonneg bs) by (inversion Hw; assumption).
  assert (Hri : forall b t1, wf t1 -> top_shape t1 = [b] ->
            exists t2, apply t1 (ORepInt r 0) = Done t2 /\ rel [b] [b * r] t1 t2 /\ wf t2).
  { intros b t1 W1 E1.
    assert (Hts : torch_shape (ORepInt r 0) (top_shape t1) = Ok [b * r]).
    { rewrite E1. cbn [torch_shape]. unfold t_repeat_interleave. destruct (r <? 0) eqn:E; [lia|]. reflexivity. }
    destruct (shape_ops_act_on_batch_dims t1 (ORepInt r 0) [b * r] W1 ltac:(rewrite E1; discriminate) Hts) as [t2 [H2 [R2 W2]]].
    exists t2. rewrite E1 in R2. auto. }
  destruct bs as [|b0 [|b1 bs]]; [congruence| |].
  - (* rank 1 *)
    cbn [td_repeat_interleave]. destruct (Hri b0 _ Hw eq_refl) as [t2 [H2 [R2 W2]]].
    exists t2. replace (prodZ [b0] * r) with (b0 * r) by (cbn; lia).
    split; [exact H2|]. split; [eapply top_of_rel; [exact R2|reflexivity]|]. split; assumption.
  - (* rank >= 2: reshape(-1) first *)
    cbn [td_repeat_interleave]. set (B := b0 :: b1 :: bs) in *.
    assert (Hts : torch_shape (OReshape [-1]) (top_shape (Node B nm ents)) = Ok [prodZ B]).
    { cbn [torch_shape top_shape]. unfold t_reshape, t_view, infer_size, numel, count_neg1. cbn [forallb filter Z.eqb negb List.length map].
      change (-1 <=? -1) with true. change (-1 =? -1) with true. cbn [andb negb filter List.length map prodZ fold_right].
      change (0 <? 1) with true. rewrite Z.mod_1_r. cbn [andb Z.eqb]. rewrite Z.div_1_r. reflexivity. }
    destruct (shape_ops_act_on_batch_dims (Node B nm ents) (OReshape [-1]) [prodZ B] Hw I Hts) as [t1 [H1 [R1 W1]]].
    rewrite H1. cbn [bindo]. cbn [top_shape] in R1.
    assert (E1 : top_shape t1 = [prodZ B]) by (eapply top_of_rel; [exact R1|reflexivity]).
    destruct (Hri (prodZ B) t1 W1 E1) as [t2 [H2 [R2 W2]]].
    exists t2. split; [exact H2|]. split; [eapply top_of_rel; [exact R2|exact E1]|]. split; [eapply rel_trans; eassumption|exact W2].
Qed.

(* ------------------------------------------------------------------ names under transpose: swapped exactly as the sizes *)
Definition tr (i j k : nat) : nat := if Nat.eqb k i then j else if Nat.eqb k j then i else k.

Theorem names_transpose bs nm ents a b i j t' :
  wrap_dim a (List.length bs) = Ok i -> wrap_dim b (List.length bs) = Ok j -> i <> j ->
  names_wf nm bs -> has_names nm = true ->
  apply (Node bs nm ents) (OTranspose a b) = Done t' ->
  exists nl', root_names t' = Some nl' /\ List.length nl' = List.length bs /\ List.length (top_shape t') = List.length bs /\
    forall k, (k < List.length bs)%nat ->
      nth k nl' None = nth (tr i j k) (names_list nm (List.length bs)) None /\ nthZ (top_shape t') k = nthZ bs (tr i j k).
Proof.
  intros Hi Hj Hij Hw Hh Ha.
  pose proof (wrap_dim_ok _ _ _ Hi) as [Hi1 Hi2]. pose proof (wrap_dim_ok _ _ _ Hj) as [Hj1 Hj2].
  set (nl := names_list nm (List.length bs)) in *.
  assert (Hnl : List.length nl = List.length bs) by (apply names_list_length; exact Hw).
  set (lo := Nat.min i j). set (hi := Nat.max i j).
  assert (Hstep : node_step (OTranspose a b) bs nm =
            Done (SStep (swap_nth bs lo hi) (Some (set_nth hi (nth lo nl None) (set_nth lo (nth hi nl None) nl)))
                        (fun _ => OTranspose (Z.of_nat lo) (Z.of_nat hi)))).
  { cbn [node_step].
    replace (if a <? 0 then Z.of_nat (List.length bs) + a else a) with (Z.of_nat i) by (destruct (a <? 0); lia).
    replace (if b <? 0 then Z.of_nat (List.length bs) + b else b) with (Z.of_nat j) by (destruct (b <? 0); lia).
    destruct ((Z.of_nat i <? 0) || (Z.of_nat j <? 0) || (Z.of_nat (List.length bs) <=? Z.of_nat i)
              || (Z.of_nat (List.length bs) <=? Z.of_nat j)) eqn:E3; [lia|].
    replace (Z.to_nat (Z.min (Z.of_nat i) (Z.of_nat j))) with lo by (unfold lo; lia).
    replace (Z.to_nat (Z.max (Z.of_nat i) (Z.of_nat j))) with hi by (unfold hi; lia).
    destruct (Nat.eqb lo hi) eqn:E4; [apply Nat.eqb_eq in E4; unfold lo, hi in E4; lia|]. rewrite Hh. reflexivity. }
  destruct (apply_root bs nm ents (OTranspose a b) _ _ _ t' ltac:(intros; discriminate) Hstep Ha) as [Ht Hr].
  eexists. split; [exact Hr|]. rewrite Ht.
  assert (Hlo : (lo < List.length bs)%nat) by (unfold lo; lia). assert (Hhi : (hi < List.length bs)%nat) by (unfold hi; lia).
  split; [rewrite !set_nth_length; rewrite ?set_nth_length; lia|].
  split; [unfold swap_nth; rewrite !set_nth_length; rewrite ?set_nth_length; lia|].
  intros k Hk. unfold swap_nth, nthZ. rewrite !set_nth_nth_default by (rewrite ?set_nth_length; lia).
  unfold tr. destruct (Nat.eqb k hi) eqn:E1; destruct (Nat.eqb k lo) eqn:E2; destruct (Nat.eqb k i) eqn:E3; destruct (Nat.eqb k j) eqn:E4;
    unfold lo, hi in *; first [exfalso; lia | split; f_equal; lia].
Qed.

(* ------------------------------------------------------------------ gather *)
(* the index (shape ish, one dim per batch dim) is legal for the batch shape bs along dim i *)
Definition gather_ok (bs ish : list Z) (i : nat) : Prop :=
  List.length ish = List.length bs /\ (i < List.length bs)%nat /\ nonneg ish /\ nthZ ish 0 <> 0 /\
  (prodZ ish = 0 \/ (le_off i ish bs = true /\ nthZ bs i <> 0)).

Lemma le_all_refl l : le_all l l = true.
Proof. induction l as [|x l IH]; cbn; [reflexivity|]. rewrite IH. destruct (x <=? x) eqn:E; [reflexivity|lia]. Qed.

Lemma le_all_app a b tl : le_all a b = true -> le_all (a ++ tl) (b ++ tl) = true.
Proof.
  revert b. induction a as [|x a IH]; intros [|y b] H; cbn in H; try discriminate; [apply le_all_refl|].
  apply andb_true_iff in H. destruct H as [H1 H2]. cbn. rewrite H1, (IH _ H2). reflexivity.
Qed.

Lemma le_off_app i a b tl : le_off i a b = true -> le_off i (a ++ tl) (b ++ tl) = true.
Proof.
  revert i b. induction a as [|x a IH]; intros i [|y b] H; try (destruct i; discriminate).
  - cbn [app]. clear H. revert i. induction tl as [|z tl IHt]; intros i; [destruct i; reflexivity|].
    destruct i; cbn [le_off]; [apply le_all_refl|]. rewrite IHt. destruct (z <=? z) eqn:E; [reflexivity|lia].
  - cbn [app]. destruct i; cbn [le_off] in *; [apply le_all_app; exact H|].
    apply andb_true_iff in H. destruct H as [H1 H2]. rewrite H1, (IH _ _ H2). reflexivity.
Qed.

Lemma expand_ones a tl : nonneg a -> nonneg tl -> t_expand (a ++ repeat 1 (List.length tl)) (a ++ tl) = Ok (a ++ tl).
Proof.
  intros Ha Ht. unfold t_expand. rewrite !app_length, repeat_length, Nat.ltb_irrefl, Nat.sub_diag. cbn [firstn forallb skipn].
  assert (H : expand_tail (a ++ repeat 1 (List.length tl)) (a ++ tl) = Ok (a ++ tl)).
  { clear Ha. induction a as [|x a IH].
    - cbn [app]. induction tl as [|z tl IHt]; [reflexivity|]. apply nonneg_cons in Ht. destruct Ht as [Hz Ht].
      cbn [List.length repeat expand_tail]. rewrite (IHt Ht). cbn [bind]. destruct (z =? -1) eqn:E1; [lia|].
      destruct (z =? 1) eqn:E2; [apply Z.eqb_eq in E2; subst; reflexivity|]. cbn [Z.eqb andb]. destruct (0 <=? z) eqn:E3; [reflexivity|lia].
    - cbn [app expand_tail]. rewrite IH. cbn [bind]. destruct (x =? -1); [reflexivity|]. rewrite Z.eqb_refl. reflexivity. }
  rewrite H. reflexivity.
Qed.

Lemma nthZ0_app (a tl : list Z) : a <> [] -> nthZ (a ++ tl) 0 = nthZ a 0.
Proof. destruct a; [congruence|reflexivity]. Qed.

Theorem gather_lifts : forall t i bs ish tl,
  gather_ok bs ish i -> wf t -> top_shape t = bs ++ tl ->
  exists t', gather_at t (Z.of_nat i) (ish ++ tl) = Done t' /\ rel bs ish t t' /\ wf t'.
Proof.
  induction t as [sh|b nm ents IH] using tree_ind'; intros i bs ish tl HG Hw Ht; cbn [top_shape] in Ht; subst;
    destruct HG as (Hl & Hi & Hni & H0 & Hok).
  - (* a tensor *)
    inversion Hw as [? Hn|]; subst. apply nonneg_app in Hn. destruct Hn as [Hnb Hnt].
    assert (Hne : bs <> []) by (destruct bs; [cbn in Hi; lia|discriminate]).
    assert (Hnei : ish <> []) by (destruct ish; [cbn in Hl; destruct bs; [congruence|discriminate]|discriminate]).
    assert (Hg : t_gather (bs ++ tl) (Z.of_nat i) (ish ++ tl) = Ok (ish ++ tl)).
    { unfold t_gather. assert (E1 : nonempty (bs ++ tl) = bs ++ tl) by (destruct bs; [congruence|reflexivity]).
      assert (E2 : nonempty (ish ++ tl) = ish ++ tl) by (destruct ish; [congruence|reflexivity]). rewrite E1, E2.
      rewrite wrap_dim_nat by (rewrite app_length; lia). cbn [bind].
      destruct (numel (ish ++ tl) =? 0) eqn:En; [reflexivity|].
      rewrite !app_length, Hl, Nat.eqb_refl. cbn [negb]. unfold numel in *. rewrite prodZ_app in En.
      destruct Hok as [Hz|[Hle Hnz]]; [rewrite Hz in En; lia|].
      rewrite nthZ_app_l by exact Hi. destruct (nthZ bs i =? 0) eqn:E3; [lia|]. rewrite andb_false_r.
      rewrite (le_off_app _ _ _ _ Hle). reflexivity. }
    exists (Leaf (ish ++ tl)). cbn [gather_at]. rewrite Hg. split; [reflexivity|]. split; [constructor|].
    constructor. apply nonneg_app. tauto.
  - (* a (nested) tensordict *)
    inversion Hw as [|? ? ? Hnn Hnm HF]; subst. apply nonneg_app in Hnn. destruct Hnn as [Hnb Hnt].
    assert (Hnei : ish <> []) by (destruct ish; [cbn in Hl; destruct bs; [cbn in Hi; lia|discriminate]|discriminate]).
    cbn [gather_at]. destruct (ish ++ tl) as [|i0 rest] eqn:Eit; [destruct ish; [congruence|discriminate]|].
    assert (Hi0 : i0 = nthZ ish 0) by (destruct ish; [congruence|cbn in Eit; injection Eit as -> _; reflexivity]).
    destruct (i0 =? 0) eqn:E0; [lia|]. rewrite <- Eit. clear Hi0 E0.
    destruct (Z.of_nat i <? 0) eqn:E1; [lia|].
    assert (Hlen : List.length (ish ++ tl) = List.length (bs ++ tl)) by (rewrite !app_length; lia).
    destruct ((Z.of_nat (List.length (bs ++ tl)) - 1 <? Z.of_nat i) || (Z.of_nat i <? 0)) eqn:E2; [rewrite app_length in E2; lia|].
    change fixed_C02ij with true. cbn [andb]. rewrite Hlen, Nat.eqb_refl. cbn [negb].
    assert (Hents : exists ents',
      (fix go (l : list (string * tree)) : out (list (string * tree)) :=
         match l with
         | [] => Done []
         | (k, c) :: r =>
             let csh := top_shape c in
             let m := List.length csh in
             let idx0 := (ish ++ tl) ++ repeat 1 (m - List.length (bs ++ tl)) in
             let target := (ish ++ tl) ++ skipn (List.length (bs ++ tl)) csh in
             let* _e := lift ERuntime (t_expand idx0 target) in
             let* c' := gather_at c (Z.of_nat i) target in
             let* r' := go r in
             Done ((k, c') :: r')
         end) ents = Done ents' /\
      Forall2 (fun e e' => fst e = fst e' /\ rel bs ish (snd e) (snd e')) ents ents' /\
      Forall (fun e => wf (snd e) /\ exists tl2, top_shape (snd e) = (ish ++ tl) ++ tl2) ents').
    { clear Hw. induction ents as [|[k c] l IHl].
      - exists []. split; [reflexivity|split; constructor].
      - pose proof (Forall_inv IH) as IHc. pose proof (Forall_inv_tail IH) as IHr.
        pose proof (Forall_inv HF) as [Hwc [tl2 Hcs]]. pose proof (Forall_inv_tail HF) as HFr. cbn [snd] in *.
        assert (Hnn2 : nonneg tl2).
        { assert (Hn : nonneg (top_shape c)) by (inversion Hwc; subst; assumption).
          rewrite Hcs in Hn. apply nonneg_app in Hn. tauto. }
        cbv zeta. rewrite Hcs. rewrite skipn_app_exact. rewrite app_length.
        replace (List.length (bs ++ tl) + List.length tl2 - List.length (bs ++ tl))%nat with (List.length tl2) by lia.
        rewrite expand_ones by (try apply nonneg_app; tauto). cbn [lift bindo].
        destruct (IHc i bs ish (tl ++ tl2)) as [c' [Hc' [Hr' Hwc']]].
        { repeat split; assumption. } { exact Hwc. } { rewrite Hcs, app_assoc. reflexivity. }
        rewrite <- app_assoc. rewrite Hc'. cbn [bindo].
        destruct (IHl IHr HFr) as [l' [Hl' [HF2 HF3]]]. rewrite Hl'. cbn [bindo].
        exists ((k, c') :: l'). split; [reflexivity|]. split.
        + constructor; [|exact HF2]. split; [reflexivity|exact Hr'].
        + constructor; [|exact HF3]. cbn [snd]. split; [exact Hwc'|].
          destruct (rel_top _ _ _ _ Hr') as [tl3 [E3 E4]]. rewrite Hcs, <- app_assoc in E3. apply app_inv_head in E3. subst tl3.
          exists tl2. rewrite E4, app_assoc. reflexivity. }
    destruct Hents as [ents' [He [HF2 HF3]]].
    match goal with |- exists t', (let* ents0 := ?G in _) = Done t' /\ _ => assert (HG : G = Done ents') by exact He end.
    rewrite HG. cbn [bindo]. eexists. split; [reflexivity|]. split; [constructor; exact HF2|].
    constructor; [apply nonneg_app; tauto| |exact HF3].
    destruct nm as [l|]; [|exact I]. cbn in *. lia.
Qed.

Theorem gather_acts_on_batch_dims : forall t d ish i,
  wf t -> is_node t -> wrap_dim d (List.length (top_shape t)) = Ok i -> gather_ok (top_shape t) ish i ->
  t_gather (top_shape t) d ish = Ok ish /\
  exists t', gather_at t d ish = Done t' /\ top_shape t' = ish /\ rel (top_shape t) ish t t' /\ wf t'.
Proof.
  intros t d ish i Hw Hn Hi HG. destruct t as [sh|bs nm ents]; [contradiction|]. cbn [top_shape] in *.
  pose proof (wrap_dim_ok _ _ _ Hi) as [Hi1 Hi2]. destruct HG as (Hl & Hib & Hni & H0 & Hok).
  assert (Hne : bs <> []) by (destruct bs; [cbn in Hi1; lia|discriminate]).
  assert (Hnei : ish <> []) by (destruct ish; [cbn in Hl; destruct bs; [congruence|discriminate]|discriminate]).
  split.
  - unfold t_gather. assert (E1 : nonempty bs = bs) by (destruct bs; [congruence|reflexivity]).
    assert (E2 : nonempty ish = ish) by (destruct ish; [congruence|reflexivity]). rewrite E1, E2, Hi. cbn [bind].
    destruct (numel ish =? 0) eqn:En; [reflexivity|]. rewrite Hl, Nat.eqb_refl. cbn [negb]. unfold numel in En.
    destruct Hok as [Hz|[Hle Hnz]]; [lia|]. destruct (nthZ bs i =? 0) eqn:E3; [lia|]. rewrite andb_false_r, Hle. reflexivity.
  - (* the user's spelling of the dim and the normalised one give the same call *)
    assert (Hsame : gather_at (Node bs nm ents) d ish = gather_at (Node bs nm ents) (Z.of_nat i) ish).
    { assert (Hd : (if d <? 0 then Z.of_nat (List.length bs) + d else d)
                   = (if Z.of_nat i <? 0 then Z.of_nat (List.length bs) + Z.of_nat i else Z.of_nat i))
        by (destruct (d <? 0); destruct (Z.of_nat i <? 0) eqn:E; lia).
      cbn [gather_at]. rewrite Hd. reflexivity. }
    rewrite Hsame.
    destruct (gather_lifts (Node bs nm ents) i bs ish [] ltac:(repeat split; assumption) Hw ltac:(cbn; rewrite app_nil_r; reflexivity))
      as [t' [Hg [Hr Hw']]].
    rewrite app_nil_r in Hg. exists t'. split; [exact Hg|]. split; [eapply top_of_rel; [exact Hr|reflexivity]|]. split; assumption.
Qed.
