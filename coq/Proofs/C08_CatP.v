(* C08: _lazy_cat(out=lazy) running offset, insert / append. *)
From Coq Require Import ZArith List Bool Lia ZifyBool.
Import ListNotations.
From TD Require Import Spec.PySlice Spec.C08_Dense Model.C08_Lazy Proofs.C08_CoordP Proofs.C08_ShapeP.
Open Scope Z_scope.

Definition sumZ (l : list Z) : Z := fold_right Z.add 0 l.

Lemma sumZ_cons s l : sumZ (s :: l) = s + sumZ l. Proof. reflexivity. Qed.
Lemma sumZ_nonneg l : Forall (fun s => 0 <= s) l -> 0 <= sumZ l.
Proof. induction 1 as [|s l Hs _ IH]; [cbn; lia|]. rewrite sumZ_cons. lia. Qed.

(* with the one-token fix (init_idx += n) operand k is written to members [sum_{i<k} n_i, sum_{i<=k} n_i) *)
Theorem cat_offsets_fixed sizes : forall n_out init,
  Forall (fun s => 0 <= s) sizes -> 0 <= init -> init + sumZ sizes <= n_out ->
  cat_out_slices_gen true n_out init sizes = offsets init sizes.
Proof.
  induction sizes as [|s sizes IH]; intros n_out init HF Hi Hs; [reflexivity|].
  inversion HF as [|? ? H0 HF']; subst. rewrite sumZ_cons in Hs.
  pose proof (sumZ_nonneg _ HF').
  cbn [cat_out_slices_gen offsets]. rewrite IH by (assumption || lia).
  rewrite !Z.min_l by lia. reflexivity.
Qed.

(* today's code (init_idx += init_idx + n): right for at most two operands *)
Theorem cat_offsets_partial sizes n_out :
  (List.length sizes <= 2)%nat -> Forall (fun s => 0 <= s) sizes -> sumZ sizes <= n_out ->
  cat_out_slices_gen false n_out 0 sizes = cat_spec_slices sizes.
Proof.
  intros HL HF Hs. unfold cat_spec_slices.
  destruct sizes as [|s0 [|s1 [|s2 r]]]; cbn [List.length] in HL; try lia.
  - reflexivity.
  - inversion HF; subst. rewrite sumZ_cons in Hs. cbn [sumZ fold_right] in Hs.
    cbn [cat_out_slices_gen offsets]. rewrite !Z.min_l by lia. reflexivity.
  - inversion HF as [|? ? H0 HF']; subst. inversion HF' as [|? ? H1 _]; subst.
    rewrite !sumZ_cons in Hs. cbn [sumZ fold_right] in Hs.
    cbn [cat_out_slices_gen offsets]. rewrite !Z.min_l by lia. rewrite !Z.add_0_l. reflexivity.
Qed.

(* ... and wrong from the third operand on (D13) *)
Theorem cat_offsets_refuted :
  exists sizes n_out, Forall (fun s => 0 < s) sizes /\ sumZ sizes = n_out /\
                      cat_out_slices_gen false n_out 0 sizes <> cat_spec_slices sizes.
Proof.
  exists [1; 1; 1], 3. split; [repeat constructor; lia|]. split; [reflexivity|]. vm_compute. discriminate.
Qed.

Lemma in_firstn {A} n (l : list A) y : In y (firstn n l) -> In y l.
Proof. intros H. rewrite <- (firstn_skipn n l). apply in_or_app. left. exact H. Qed.
Lemma in_skipn {A} n (l : list A) y : In y (skipn n l) -> In y l.
Proof. intros H. rewrite <- (firstn_skipn n l). apply in_or_app. right. exact H. Qed.

(* insert / append: list.insert on the members, batch size recomputed with the new count *)
Theorem insert_shape sd bs0 parts bs i x a' :
  parts <> [] -> Forall (fun p => shape_of p = Some bs) parts -> shape_of x = Some bs -> (sd <= List.length bs)%nat ->
  lz_insert (Stack sd bs0 parts) i x = Ok a' ->
  a' = Stack sd bs0 (py_list_insert parts i x) /\
  shape_of a' = Some (compute_batch_size bs sd (lenZ parts + 1)).
Proof.
  intros Hne HF Hx Hsd H. unfold lz_insert in H. destruct parts as [|p0 parts]; [congruence|].
  inversion HF as [|? ? Hp0 HF']; subst. rewrite Hp0, Hx, list_eqb_refl in H. inversion H; subst a'. split; [reflexivity|].
  unfold compute_batch_size, py_list_insert.
  set (i' := if i <? 0 then Z.max 0 (i + lenZ (p0 :: parts)) else Z.min i (lenZ (p0 :: parts))).
  assert (Hi : (Z.to_nat i' <= List.length (p0 :: parts))%nat) by (subst i'; unfold lenZ; destruct (i <? 0) eqn:?; lia).
  assert (Hlen : lenZ (insert_at (Z.to_nat i') x (p0 :: parts)) = lenZ (p0 :: parts) + 1).
  { unfold lenZ. rewrite insert_at_length by exact Hi. lia. }
  rewrite <- Hlen. apply shape_of_stack; [| |exact Hsd].
  - unfold insert_at. destruct (firstn (Z.to_nat i') (p0 :: parts)); discriminate.
  - unfold insert_at. apply Forall_app. split.
    + apply Forall_forall. intros y Hy. apply (proj1 (Forall_forall _ _) HF). eapply in_firstn; exact Hy.
    + constructor; [exact Hx|]. apply Forall_forall. intros y Hy. apply (proj1 (Forall_forall _ _) HF). eapply in_skipn; exact Hy.
Qed.

(* the code after fix C08-D13 *)
Corollary cat_offsets sizes n_out :
  Forall (fun s => 0 <= s) sizes -> sumZ sizes <= n_out -> cat_out_slices n_out 0 sizes = cat_spec_slices sizes.
Proof. intros HF Hs. unfold cat_out_slices, fixed_D13, cat_spec_slices. apply cat_offsets_fixed; [exact HF|lia|lia]. Qed.
