(* C17 — lock state reverted by nested lock_/unlock_ blocks (normal and exceptional exit), queue discipline for arbitrary
   nesting of blocks over several objects. *)
From Coq Require Import Arith List String Bool Lia.
Import ListNotations.
From TD Require Import Model.C17_Inverse Proofs.C17_InverseP Model.C17_Ctx.
Open Scope list_scope.

Lemma rev_snoc {X} (l : list X) x : rev (l ++ [x]) = x :: rev l.
Proof. rewrite rev_app_distr. reflexivity. Qed.

(* one block: whatever the body did to _last_op, if it kept the lock flag and the queue, the exit restores the flag *)
Lemma exit_lock_block o o2 e :
  locked o2 = true -> queue o2 = queue o ++ [last_op (call_lock o)] ->
  exists o3 ran, exit_ true o2 e = ExitOk o3 ran /\ locked o3 = locked o /\ queue o3 = queue o.
Proof.
  intros HL HQ. unfold exit_. rewrite HQ, rev_snoc. cbn [call_lock last_op].
  destruct (locked o) eqn:E.
  - eexists _, _. split; [reflexivity|]. cbn. now rewrite rev_involutive.
  - cbn [rec_of o_op state_op andb negb]. rewrite andb_false_r.
    eexists _, _. split; [reflexivity|]. cbn. now rewrite rev_involutive.
Qed.

Lemma exit_unlock_block o o2 e :
  locked o2 = false -> queue o2 = queue o ++ [last_op (call_unlock o)] ->
  exists o3 ran, exit_ true o2 e = ExitOk o3 ran /\ locked o3 = locked o /\ queue o3 = queue o.
Proof.
  intros HL HQ. unfold exit_. rewrite HQ, rev_snoc. cbn [call_unlock last_op].
  destruct (locked o) eqn:E.
  - cbn [rec_of o_op state_op andb negb]. rewrite andb_false_r.
    eexists _, _. split; [reflexivity|]. cbn. now rewrite rev_involutive.
  - eexists _, _. split; [reflexivity|]. cbn. now rewrite rev_involutive.
Qed.

Lemma exit_bare_block o o2 e :
  locked o2 = locked o -> queue o2 = queue o ++ [last_op o] ->
  (forall rc, last_op o = Some rc -> o_op rc = OpLock \/ o_op rc = OpUnlock -> False) ->
  (forall rc, last_op o = Some rc -> o_alive rc = true) ->
  exists o3 ran, exit_ true o2 e = ExitOk o3 ran /\ locked o3 = locked o /\ queue o3 = queue o.
Proof.
  intros HL HQ HN HA. unfold exit_. rewrite HQ, rev_snoc.
  destruct (last_op o) as [rc|] eqn:E.
  - specialize (HN rc eq_refl). specialize (HA rc eq_refl).
    destruct (is_exception e && negb (true && state_op (o_op rc))).
    + eexists _, _. split; [reflexivity|]. cbn. now rewrite rev_involutive.
    + destruct (o_op rc) eqn:Eo; try (exfalso; apply HN; auto; fail).
      * eexists _, _. split; [reflexivity|]. cbn. now rewrite rev_involutive.
      * rewrite HA. eexists _, _. split; [reflexivity|]. cbn. now rewrite rev_involutive.
  - eexists _, _. split; [reflexivity|]. cbn. now rewrite rev_involutive.
Qed.

(* programs without a bare re-entry: any nesting of lock_/unlock_ blocks, sequences and raises *)
Fixpoint no_bare (p : prog) : bool :=
  match p with
  | PSkip | PRaise _ => true
  | PSeq a b => no_bare a && no_bare b
  | PLock b | PUnlock b => no_bare b
  | PBare _ => false
  end.

Theorem lock_reverted : forall p o, no_bare p = true ->
  exists o' e, run true p o = Some (o', e) /\ locked o' = locked o /\ queue o' = queue o.
Proof.
  induction p as [|e|a IHa b IHb|body IH|body IH|body IH]; intros o NB; cbn [no_bare] in NB; cbn [run].
  - eauto.
  - eauto.
  - apply andb_prop in NB. destruct NB as [Na Nb].
    destruct (IHa o Na) as [o1 [e1 [R1 [L1 Q1]]]]. rewrite R1. destruct e1; eauto.
    destruct (IHb o1 Nb) as [o2 [e2 [R2 [L2 Q2]]]]. rewrite R2. exists o2, e2. repeat split; congruence.
  - destruct (IH (enter_ (call_lock o)) NB) as [o2 [e [R [L Q]]]]. rewrite R.
    destruct (exit_lock_block o o2 e) as [o3 [ran [X [L3 Q3]]]]; [exact L|exact Q|]. rewrite X. eauto.
  - destruct (IH (enter_ (call_unlock o)) NB) as [o2 [e [R [L Q]]]]. rewrite R.
    destruct (exit_unlock_block o o2 e) as [o3 [ran [X [L3 Q3]]]]; [exact L|exact Q|]. rewrite X. eauto.
  - discriminate.
Qed.

(* an exception raised anywhere inside is still pending after the outermost block (the exits return False) *)
Theorem raise_propagates : forall p o o' e, run true p o = Some (o', e) -> e <> ExcNone ->
  forall q, run true (PSeq p q) o = Some (o', e).
Proof. intros p o o' e R Ne q. cbn [run]. rewrite R. destruct e; congruence. Qed.

(* before the repair (the inverse of lock_/unlock_ skipped when the body raised) the flag leaked *)
Theorem lock_reverted_without_repair_refuted :
  exists p o o' e, no_bare p = true /\ run false p o = Some (o', e) /\ locked o' <> locked o.
Proof.
  exists (PLock (PRaise ExcException)), {| locked := false; last_op := None; queue := [] |}.
  eexists _, _. split; [reflexivity|]. split; [reflexivity|]. cbn. discriminate.
Qed.

(* ------------------------------------------------------------------ several objects, arbitrary nesting *)
Definition same_queues (h h' : heap) : Prop :=
  List.length h' = List.length h /\ forall i, queue (nth i h' dflt) = queue (nth i h dflt).

Lemma same_queues_refl h : same_queues h h.
Proof. split; auto. Qed.

Lemma same_queues_trans a b c : same_queues a b -> same_queues b c -> same_queues a c.
Proof. intros [L1 Q1] [L2 Q2]. split; [congruence|]. intros i. now rewrite Q2, Q1. Qed.

Lemma run_ev_app a : forall b h log,
  run_ev (a ++ b) h log = match run_ev a h log with Some (h1, log1) => run_ev b h1 log1 | None => None end.
Proof.
  induction a as [|x a IH]; intros b h log; [reflexivity|]. cbn [app run_ev].
  destruct x as [i|i e|i v]; try apply IH.
  destruct (exit_ true (nth i h dflt) e); try apply IH. reflexivity.
Qed.

Definition in_heap (h : heap) (l : list ev) : Prop := Forall (fun x => ev_obj x < List.length h) l.

Lemma exit_pops o e x q : queue o = q ++ [x] ->
  exists o', (exit_ true o e = ExitOk o' (match exit_ true o e with ExitOk _ r => r | _ => None end) \/ exit_ true o e = ExitRaise o')
             /\ queue o' = q.
Proof.
  intros HQ. unfold exit_. rewrite HQ, rev_snoc.
  destruct x as [rc|].
  - destruct (is_exception e && negb (true && state_op (o_op rc))).
    + eexists. split; [left; reflexivity|]. cbn. apply rev_involutive.
    + destruct (o_op rc).
      * eexists. split; [left; reflexivity|]. cbn. apply rev_involutive.
      * eexists. split; [left; reflexivity|]. cbn. apply rev_involutive.
      * eexists. split; [left; reflexivity|]. cbn. apply rev_involutive.
      * destruct (o_alive rc); eexists; (split; [(left; reflexivity) || (right; reflexivity)|]); cbn; apply rev_involutive.
  - eexists. split; [left; reflexivity|]. cbn. apply rev_involutive.
Qed.

Lemma last_snoc {X} (l : list X) x d : last (l ++ [x]) d = x.
Proof. apply last_last. Qed.

Lemma nth_set_nth_eq {X} (l : list X) i j x d : (i < List.length l)%nat ->
  nth j (set_nth l i x) d = if Nat.eqb j i then x else nth j l d.
Proof.
  intros H. destruct (Nat.eqb j i) eqn:E.
  - apply Nat.eqb_eq in E. subst. now apply nth_set_nth_same.
  - apply Nat.eqb_neq in E. apply nth_set_nth_other. congruence.
Qed.

(* any balanced sequence — arbitrary depth, re-entering the same object, entering yielded objects of yielded objects,
   decorated calls overwriting _last_op in between — runs to the end, leaves every queue as it was, and each exit pops
   exactly the entry pushed by its own enter *)
Theorem queues_restored : forall l, balanced l -> forall h log, in_heap h l ->
  exists h' log', run_ev l h log = Some (h', log') /\ same_queues h h'.
Proof.
  induction 1 as [|i v|i e body Hb IH|a b Ha IHa Hb IHb]; intros h log Hin.
  - exists h, log. split; [reflexivity|apply same_queues_refl].
  - inversion Hin as [|? ? Hi _]; subst. cbn in Hi. cbn [run_ev]. eexists _, _. split; [reflexivity|].
    split; [apply set_nth_length|]. intros j. rewrite nth_set_nth_eq by assumption.
    destruct (Nat.eqb j i) eqn:E; [apply Nat.eqb_eq in E; subst; reflexivity|reflexivity].
  - inversion Hin as [|? ? Hi Hrest]; subst. cbn in Hi. apply Forall_app in Hrest. destruct Hrest as [Hbody _].
    cbn [run_ev]. set (h1 := set_nth h i (enter_ (nth i h dflt))).
    assert (L1 : List.length h1 = List.length h) by apply set_nth_length.
    destruct (IH h1 log) as [h2 [log2 [R2 [L2 Q2]]]]; [unfold in_heap in *; now rewrite L1|].
    rewrite run_ev_app, R2. cbn [run_ev].
    assert (Qi : queue (nth i h2 dflt) = queue (nth i h dflt) ++ [last_op (nth i h dflt)]).
    { rewrite Q2. unfold h1. rewrite nth_set_nth_same by assumption. reflexivity. }
    destruct (exit_pops (nth i h2 dflt) e _ _ Qi) as [o' [Hx Qo]].
    assert (Hfin : same_queues h (set_nth h2 i o')).
    { split; [rewrite set_nth_length; congruence|]. intros j. rewrite nth_set_nth_eq by lia.
      destruct (Nat.eqb j i) eqn:E; [apply Nat.eqb_eq in E; subst; exact Qo|].
      rewrite Q2. unfold h1. apply Nat.eqb_neq in E. now rewrite nth_set_nth_other by congruence. }
    destruct Hx as [Hx|Hx]; rewrite Hx; eexists _, _; (split; [reflexivity|exact Hfin]).
  - apply Forall_app in Hin. destruct Hin as [Hina Hinb].
    destruct (IHa h log Hina) as [h1 [log1 [R1 S1]]]. rewrite run_ev_app, R1.
    destruct (IHb h1 log1) as [h2 [log2 [R2 S2]]]; [unfold in_heap in *; destruct S1 as [L1 _]; now rewrite L1|].
    exists h2, log2. split; [exact R2|]. eapply same_queues_trans; eassumption.
Qed.

(* the entry popped by the exit of a block is the _last_op the object had when the block was entered — whatever
   happened inside (LIFO at any depth) *)
Theorem block_pops_own_entry : forall i e body, balanced body -> forall h log, in_heap h (EEnter i :: body ++ [EExit i e]) ->
  exists h' log', run_ev (EEnter i :: body ++ [EExit i e]) h log = Some (h', log' ++ [(i, last_op (nth i h dflt))]).
Proof.
  intros i e body Hb h log Hin. inversion Hin as [|? ? Hi Hrest]; subst. cbn in Hi. apply Forall_app in Hrest. destruct Hrest as [Hbody _].
  cbn [run_ev]. set (h1 := set_nth h i (enter_ (nth i h dflt))).
  assert (L1 : List.length h1 = List.length h) by apply set_nth_length.
  destruct (queues_restored body Hb h1 log) as [h2 [log2 [R2 [L2 Q2]]]]; [unfold in_heap in *; now rewrite L1|].
  rewrite run_ev_app, R2. cbn [run_ev].
  assert (Qi : queue (nth i h2 dflt) = queue (nth i h dflt) ++ [last_op (nth i h dflt)]).
  { rewrite Q2. unfold h1. rewrite nth_set_nth_same by assumption. reflexivity. }
  destruct (exit_pops (nth i h2 dflt) e _ _ Qi) as [o' [Hx Qo]]. rewrite Qi, last_snoc.
  destruct Hx as [Hx|Hx]; rewrite Hx; eexists _, _; reflexivity.
Qed.

(* the seeded breakage C17-2 in the model's terms: an __enter__ that clears _last_op after pushing makes the second
   entry of the same stored object push None, so the second exit runs no inverse *)
Definition enter_clearing (o : tdobj) : tdobj :=
  {| locked := locked o; last_op := None; queue := queue o ++ [last_op o] |}.

(* a stored context-manager object entered twice in a row (`cm = td.transpose(0, 1)`; `with cm: ...; with cm: ...`, or a
   cache hit of unflatten_keys on a locked original): both exits run the recorded inverse *)
Theorem reenter_same_object : forall o n rc, last_op o = Some rc -> o_op rc = OpShape n -> o_alive rc = true ->
  forall e1, is_exception e1 = false ->
  exists o1, exit_ true (enter_ o) e1 = ExitOk o1 (Some (OpShape n))
    /\ queue o1 = queue o /\ last_op o1 = Some rc
    /\ exists o2, exit_ true (enter_ o1) ExcNone = ExitOk o2 (Some (OpShape n)) /\ queue o2 = queue o.
Proof.
  intros o n rc H Ho Ha e1 He.
  assert (X : forall o', last_op o' = Some rc -> forall e, is_exception e = false ->
            exit_ true (enter_ o') e = ExitOk {| locked := locked o'; last_op := last_op o'; queue := queue o' |} (Some (OpShape n))).
  { intros o' H' e Hne. unfold exit_, enter_. cbn [queue locked last_op]. rewrite rev_snoc, H', Hne, Ho, Ha. cbn. now rewrite rev_involutive. }
  eexists. split; [apply X; assumption|]. cbn [queue last_op]. split; [reflexivity|]. split; [exact H|].
  eexists. split; [apply X; [exact H|reflexivity]|]. reflexivity.
Qed.

Theorem reenter_with_clearing_enter_refuted : exists o rc o1 o2,
  last_op o = Some rc /\ o_op rc = OpShape "transpose" /\ o_alive rc = true
  /\ exit_ true (enter_clearing o) ExcNone = ExitOk o1 (Some (OpShape "transpose"))
  /\ exit_ true (enter_clearing o1) ExcNone = ExitOk o2 None.
Proof.
  exists {| locked := false; last_op := Some (rec_of (OpShape "transpose")); queue := [] |}, (rec_of (OpShape "transpose")).
  eexists _, _. repeat split; reflexivity.
Qed.
