(* C04 — lazy stacks: the stack's operations are its members' operations (delegation), its reads stack the members'
   entries, its key views are the intersection of the members' keys.  Lifted to histories. *)
From Coq Require Import ZArith List String Bool Lia Sorting.Permutation.
Import ListNotations.
From TD Require Import Model.Keys Model.C04_Tree Model.C04_Ops Model.C04_Views Model.C04_Step Model.C04_Lazy
     Spec.C04_NestedDict Proofs.C04_AssocP Proofs.C04_CoreP Proofs.C04_ViewsP Proofs.C04_UnflattenP Proofs.C04_HistP.
Open Scope string_scope.
Open Scope list_scope.

(* ------------------------------------------------------------------------------------------------ generic *)
Fixpoint mapi_from {A B} (f : nat -> A -> B) (i : nat) (l : list A) : list B :=
  match l with [] => [] | x :: r => f i x :: mapi_from f (S i) r end.

Lemma mapi_from_length {A B} (f : nat -> A -> B) l : forall i, List.length (mapi_from f i l) = List.length l.
Proof. induction l as [|x r IH]; intro i; cbn; [reflexivity|now rewrite IH]. Qed.

Lemma mapi_from_comp {A B C} (f : nat -> A -> B) (g : nat -> B -> C) l :
  forall i, mapi_from g i (mapi_from f i l) = mapi_from (fun j x => g j (f j x)) i l.
Proof. induction l as [|x r IH]; intro i; cbn; [reflexivity|now rewrite IH]. Qed.

Lemma mapi_from_ext {A B} (f g : nat -> A -> B) l :
  forall i, (forall j x, nth_error l j = Some x -> f (i + j) x = g (i + j) x) -> mapi_from f i l = mapi_from g i l.
Proof.
  induction l as [|x r IH]; intros i H; cbn; [reflexivity|].
  f_equal.
  - specialize (H 0 x eq_refl). now rewrite Nat.add_0_r in H.
  - apply IH. intros j y Hj. specialize (H (S j) y Hj). now rewrite Nat.add_succ_r in H.
Qed.

Lemma Forall2_nth_error_l {A B} (P : A -> B -> Prop) l l' i a :
  Forall2 P l l' -> nth_error l i = Some a -> exists b, nth_error l' i = Some b /\ P a b.
Proof.
  intro F. revert i. induction F as [|x y l l' Pxy F IH]; intros [|i] H; cbn in *; try discriminate.
  - inversion H; subst. now exists y.
  - now apply IH.
Qed.

(* the delegation loop: either every member's call succeeds and the stack holds the members' new states, or the call
   of some member raises, all the members before it having succeeded *)
Lemma lz_each_ok f : forall ms i ms', lz_each f i ms = (ms', None) ->
  ms' = mapi_from (fun j m => fst (f j m)) i ms /\ (forall j m, nth_error ms j = Some m -> snd (f (i + j) m) = None).
Proof.
  induction ms as [|m r IH]; intros i ms' H; cbn in *.
  - inversion H. split; [reflexivity|]. intros [|j] m0 Hj; discriminate.
  - destruct (f i m) as [m' [e|]] eqn:F; [discriminate|].
    destruct (lz_each f (S i) r) as [r' e'] eqn:R. inversion H; subst. destruct (IH _ _ R) as [E N].
    split; [now rewrite E|].
    intros [|j] m0 Hj; cbn in Hj.
    + inversion Hj; subst. now rewrite Nat.add_0_r, F.
    + rewrite Nat.add_succ_r. exact (N j m0 Hj).
Qed.

Lemma lz_each_err f : forall ms i ms' e, lz_each f i ms = (ms', Some e) ->
  exists j m, nth_error ms j = Some m /\ snd (f (i + j) m) = Some e
    /\ (forall j' m', j' < j -> nth_error ms j' = Some m' -> snd (f (i + j') m') = None)
    /\ List.length ms' = List.length ms.
Proof.
  induction ms as [|m r IH]; intros i ms' e H; cbn in *; [discriminate|].
  destruct (f i m) as [m' [e0|]] eqn:F.
  - inversion H; subst. exists 0, m. rewrite Nat.add_0_r, F. repeat split; try reflexivity. intros j' m'0 L; lia.
  - destruct (lz_each f (S i) r) as [r' e'] eqn:R. inversion H; subst.
    destruct (IH _ _ _ R) as (j & m0 & Hj & Fj & B & Len). exists (S j), m0.
    rewrite Nat.add_succ_r. repeat split; try assumption.
    + intros [|j'] m'0 L Hj'; cbn in Hj'.
      * inversion Hj'; subst. now rewrite Nat.add_0_r, F.
      * rewrite Nat.add_succ_r. apply (B j' m'0); [lia|assumption].
    + cbn. now rewrite Len.
Qed.

Lemma lz_map_res_ok f : forall ms ms' outs, lz_map_res f ms = (ms', Ok outs) ->
  ms' = map (fun m => fst (f m)) ms /\ Forall2 (fun m out => snd (f m) = Ok out) ms outs.
Proof.
  induction ms as [|m r IH]; intros ms' outs H; cbn in *.
  - inversion H. split; constructor.
  - destruct (f m) as [m' [out|e]] eqn:F; [|discriminate].
    destruct (lz_map_res f r) as [r' [outs'|e']] eqn:R; [|discriminate]. inversion H; subst.
    destruct (IH _ _ eq_refl) as [E F2]. split; [now rewrite E|]. constructor; [now rewrite F|assumption].
Qed.

Lemma lz_map_res_err f : forall ms ms' e, lz_map_res f ms = (ms', Raise e) ->
  exists j m, nth_error ms j = Some m /\ snd (f m) = Raise e
    /\ (forall j' m', j' < j -> nth_error ms j' = Some m' -> exists out, snd (f m') = Ok out).
Proof.
  induction ms as [|m r IH]; intros ms' e H; cbn in *; [discriminate|].
  destruct (f m) as [m' [out|e0]] eqn:F.
  - destruct (lz_map_res f r) as [r' [outs'|e']] eqn:R; [discriminate|]. inversion H; subst.
    destruct (IH _ _ eq_refl) as (j & m0 & Hj & Fj & B). exists (S j), m0. repeat split; try assumption.
    intros [|j'] m'0 L Hj'; cbn in Hj'.
    + inversion Hj'; subst. exists out. now rewrite F.
    + apply (B j' m'0); [lia|assumption].
  - inversion H; subst. exists 0, m. rewrite F. repeat split; try reflexivity. intros j' m'0 L; lia.
Qed.

(* ------------------------------------------------------------------------------------------------ delegation *)
(* the i-th member's share of an operation on the stack: same keys, the i-th slice of the value *)
Definition member_op (i : nat) (o : lop) : op :=
  match o with
  | LSet k v => OSet k (unbind1 i v)
  | LSetItem k v => OSetItem k (unbind1 i v)
  | LRename k1 k2 safe => ORename k1 k2 safe
  | LSelect ks inplace strict cont => OSelect ks inplace strict cont
  | LExclude ks inplace cont => OExclude ks inplace cont
  | LFlatten sep inplace cont => OFlatten sep inplace cont
  | _ => ONop
  end.

Definition delegating (ms : lstack) (o : lop) : Prop :=
  match o with
  | LNop | LSet _ _ | LSetItem _ _ | LRename _ _ _ | LSelect _ _ _ _ | LExclude _ _ _ => True
  | LFlatten _ inplace _ => inplace = true /\ has_exclusive ms = false   (* guard _fails_exclusive_keys *)
  | _ => False
  end.

Definition members_ok (ms : lstack) (o : lop) : Prop :=
  forall i m, nth_error ms i = Some m -> sr_err (step m (member_op i o)) = None.

Definition member_raises (ms : lstack) (o : lop) (e : err) : Prop :=
  exists i m, nth_error ms i = Some m /\ sr_err (step m (member_op i o)) = Some e
    /\ forall i' m', i' < i -> nth_error ms i' = Some m' -> sr_err (step m' (member_op i' o)) = None.

Lemma mapi_from_id {A} (l : list A) : forall i, l = mapi_from (fun _ x => x) i l.
Proof. induction l as [|x r IH]; intro i; cbn; [reflexivity|now rewrite <- IH]. Qed.

Lemma mapi_from_map {A B} (f : A -> B) l : forall i, mapi_from (fun _ x => f x) i l = map f l.
Proof. induction l as [|x r IH]; intro i; cbn; [reflexivity|now rewrite IH]. Qed.

Lemma each_delegates (f : nat -> ents -> ents * option err) (g : nat -> op) ms :
  (forall i m, fst (f i m) = sr_cont (step m (g i)) /\ fst (f i m) = sr_self (step m (g i))
               /\ snd (f i m) = sr_err (step m (g i))) ->
  match lz_each f 0 ms with
  | (ms', None) => ms' = mapi_from (fun i m => sr_cont (step m (g i))) 0 ms
                   /\ ms' = mapi_from (fun i m => sr_self (step m (g i))) 0 ms
                   /\ (forall i m, nth_error ms i = Some m -> sr_err (step m (g i)) = None)
  | (ms', Some e) => exists i m, nth_error ms i = Some m /\ sr_err (step m (g i)) = Some e
                     /\ forall i' m', i' < i -> nth_error ms i' = Some m' -> sr_err (step m' (g i')) = None
  end.
Proof.
  intro H. destruct (lz_each f 0 ms) as [ms' [e|]] eqn:E.
  - destruct (lz_each_err _ _ _ _ _ E) as (j & m & Hj & Fj & B & _). exists j, m. cbn in Fj.
    split; [assumption|]. split; [now rewrite <- (proj2 (proj2 (H j m)))|].
    intros i' m' L Hi'. rewrite <- (proj2 (proj2 (H i' m'))). exact (B i' m' L Hi').
  - destruct (lz_each_ok _ _ _ _ E) as [E1 N]. repeat split.
    + rewrite E1. apply mapi_from_ext. intros j x _. apply H.
    + rewrite E1. apply mapi_from_ext. intros j x _. apply H.
    + intros i m Hi. rewrite <- (proj2 (proj2 (H i m))). exact (N i m Hi).
Qed.

(* THE STACK'S STEP IS THE MEMBERS' STEPS: for set / __setitem__ / rename_key_ / select / exclude / flatten_keys(inplace),
   either every member's own step succeeds and the stack continues with (and holds) exactly the members' results, or
   the stack raises the exception of the first member whose step raises. *)
Theorem lz_step_delegates ms o : ms <> [] -> delegating ms o ->
  match lr_err (lz_step ms o) with
  | None => lr_cont (lz_step ms o) = mapi_from (fun i m => sr_cont (step m (member_op i o))) 0 ms
            /\ lr_self (lz_step ms o) = mapi_from (fun i m => sr_self (step m (member_op i o))) 0 ms
            /\ members_ok ms o
  | Some e => member_raises ms o e
  end.
Proof.
  intros NE D. destruct o; cbn [delegating] in D; try contradiction.
  - (* nop *) cbn. split; [apply mapi_from_id|]. split; [apply mapi_from_id|]. intros i m _. reflexivity.
  - (* set *)
    cbn [lz_step member_op]. unfold lz_set, lz_set_path.
    pose proof (each_delegates (fun i m => of_res_pair m (set_tuple (cpp_unravel_to_tuple k) (unbind1 i v) m))
                  (fun i => OSet k (unbind1 i v)) ms) as H.
    destruct (lz_each _ 0 ms) as [ms' [e|]]; cbn; apply H; intros i m; cbn; unfold set_;
      destruct (set_tuple _ _ m); cbn; auto.
  - (* setitem *)
    cbn [lz_step member_op]. destruct (cpp_unravel_to_tuple k) as [|s p] eqn:U.
    + cbn. destruct ms as [|m r]; [contradiction|]. exists 0, m. cbn. rewrite U. cbn. repeat split. intros; lia.
    + unfold lz_set_path.
      pose proof (each_delegates (fun i m => of_res_pair m (set_tuple (s :: p) (unbind1 i v) m))
                    (fun i => OSetItem k (unbind1 i v)) ms) as H.
      destruct (lz_each _ 0 ms) as [ms' [e|]]; cbn; apply H; intros i m; cbn [step]; rewrite U; cbv iota;
        destruct (set_tuple (s :: p) (unbind1 i v) m); cbn; auto.
  - (* rename *)
    cbn [lz_step member_op]. unfold lz_rename.
    pose proof (each_delegates (fun _ m => rename k1 k2 safe m) (fun _ => ORename k1 k2 safe) ms) as H.
    destruct (lz_each _ 0 ms) as [ms' [e|]]; cbn; apply H; intros i m; cbn; destruct (rename k1 k2 safe m); cbn; auto.
  - (* select *)
    cbn [lz_step member_op]. unfold lz_select.
    destruct (cpp_unravel_key_list ks) as [rs|] eqn:U.
    + destruct (lz_map_res (select ks strict inplace) ms) as [ms' [outs|e]] eqn:E.
      * destruct (lz_map_res_ok _ _ _ _ E) as [E1 F2]. cbn [lone_result].
        assert (OK : members_ok ms (LSelect ks inplace strict cont)).
        { intros i m Hi. cbn. destruct (Forall2_nth_error_l _ _ _ _ _ F2 Hi) as (out & _ & Ho).
          destruct (select ks strict inplace m) as [s r0]; cbn in Ho; subst r0. cbn. now destruct inplace. }
        destruct inplace; cbn.
        -- repeat split; try assumption; rewrite E1, <- mapi_from_map with (i := 0); apply mapi_from_ext; intros j x Hj;
             destruct (Forall2_nth_error_l _ _ _ _ _ F2 Hj) as (out & _ & Ho);
             destruct (select ks strict true x) as [s r0]; cbn in Ho; subst r0; reflexivity.
        -- repeat split; try assumption.
           ++ destruct cont.
              ** clear E OK NE E1. revert outs F2. generalize 0. induction ms as [|m r IH]; intros i outs F2; inversion F2; subst; cbn.
                 { reflexivity. }
                 destruct (select ks strict false m) as [s r0]; cbn in *; subst r0. cbn. f_equal. now apply IH.
              ** rewrite E1, <- mapi_from_map with (i := 0). apply mapi_from_ext. intros j x Hj.
                 destruct (Forall2_nth_error_l _ _ _ _ _ F2 Hj) as (out & _ & Ho).
                 destruct (select ks strict false x) as [s r0]; cbn in Ho; subst r0; reflexivity.
           ++ rewrite E1, <- mapi_from_map with (i := 0). apply mapi_from_ext. intros j x Hj.
              destruct (Forall2_nth_error_l _ _ _ _ _ F2 Hj) as (out & _ & Ho).
              destruct (select ks strict false x) as [s r0]; cbn in Ho; subst r0; reflexivity.
      * cbn. destruct (lz_map_res_err _ _ _ _ E) as (j & m & Hj & Fj & B). exists j, m. split; [assumption|]. split.
        -- cbn. destruct (select ks strict inplace m) as [s r0]; cbn in Fj; subst r0. reflexivity.
        -- intros i' m' L Hi'. destruct (B i' m' L Hi') as [out Ho]. cbn.
           destruct (select ks strict inplace m') as [s r0]; cbn in Ho; subst r0. cbn. now destruct inplace.
    + cbn. destruct ms as [|m r]; [contradiction|]. exists 0, m. cbn. unfold select. rewrite U. cbn. repeat split. intros; lia.
  - (* exclude *)
    cbn [lz_step member_op]. unfold lz_exclude.
    destruct (cpp_unravel_key_list ks) as [rs|] eqn:U.
    + destruct (lz_map_res (exclude ks inplace) ms) as [ms' [outs|e]] eqn:E.
      * destruct (lz_map_res_ok _ _ _ _ E) as [E1 F2]. cbn [lone_result].
        assert (OK : members_ok ms (LExclude ks inplace cont)).
        { intros i m Hi. cbn. destruct (Forall2_nth_error_l _ _ _ _ _ F2 Hi) as (out & _ & Ho).
          destruct (exclude ks inplace m) as [s r0]; cbn in Ho; subst r0. cbn. now destruct inplace. }
        destruct inplace; cbn.
        -- repeat split; try assumption; rewrite E1, <- mapi_from_map with (i := 0); apply mapi_from_ext; intros j x Hj;
             destruct (Forall2_nth_error_l _ _ _ _ _ F2 Hj) as (out & _ & Ho);
             destruct (exclude ks true x) as [s r0]; cbn in Ho; subst r0; reflexivity.
        -- repeat split; try assumption.
           ++ destruct cont.
              ** clear E OK NE E1. revert outs F2. generalize 0. induction ms as [|m r IH]; intros i outs F2; inversion F2; subst; cbn.
                 { reflexivity. }
                 destruct (exclude ks false m) as [s r0]; cbn in *; subst r0. cbn. f_equal. now apply IH.
              ** rewrite E1, <- mapi_from_map with (i := 0). apply mapi_from_ext. intros j x Hj.
                 destruct (Forall2_nth_error_l _ _ _ _ _ F2 Hj) as (out & _ & Ho).
                 destruct (exclude ks false x) as [s r0]; cbn in Ho; subst r0; reflexivity.
           ++ rewrite E1, <- mapi_from_map with (i := 0). apply mapi_from_ext. intros j x Hj.
              destruct (Forall2_nth_error_l _ _ _ _ _ F2 Hj) as (out & _ & Ho).
              destruct (exclude ks false x) as [s r0]; cbn in Ho; subst r0; reflexivity.
      * cbn. destruct (lz_map_res_err _ _ _ _ E) as (j & m & Hj & Fj & B). exists j, m. split; [assumption|]. split.
        -- cbn. destruct (exclude ks inplace m) as [s r0]; cbn in Fj; subst r0. reflexivity.
        -- intros i' m' L Hi'. destruct (B i' m' L Hi') as [out Ho]. cbn.
           destruct (exclude ks inplace m') as [s r0]; cbn in Ho; subst r0. cbn. now destruct inplace.
    + cbn. destruct ms as [|m r]; [contradiction|]. exists 0, m. cbn. unfold exclude. rewrite U. cbn. repeat split. intros; lia.
  - (* flatten in place *)
    destruct D as [-> X]. cbn [lz_step member_op]. unfold lz_flatten_in. rewrite X.
    pose proof (each_delegates (fun _ m => flatten_in sep m) (fun _ => OFlatten sep true cont) ms) as H.
    destruct (lz_each _ 0 ms) as [ms' [e|]]; cbn; apply H; intros i m; cbn; destruct (flatten_in sep m); cbn; auto.
Qed.

(* histories of delegating operations that succeed: the stack's history is every member's own history *)
Fixpoint lz_ok (ms : lstack) (ops : list lop) : Prop :=
  match ops with
  | [] => True
  | o :: r => delegating ms o /\ lr_err (lz_step ms o) = None /\ lz_ok (lr_cont (lz_step ms o)) r
  end.

Theorem lazy_history : forall ops ms, ms <> [] -> lz_ok ms ops ->
  lz_run ms ops = mapi_from (fun i m => run m (map (member_op i) ops)) 0 ms.
Proof.
  induction ops as [|o r IH]; intros ms NE OK.
  - cbn. apply mapi_from_id.
  - cbn [lz_run lz_ok] in *. destruct OK as (D & E & OK). pose proof (lz_step_delegates ms o NE D) as S. rewrite E in S.
    destruct S as (C & _ & _).
    assert (NE' : lr_cont (lz_step ms o) <> []).
    { rewrite C. destruct ms; [contradiction|]. cbn. discriminate. }
    rewrite (IH _ NE' OK), C, mapi_from_comp. apply mapi_from_ext. intros j x _. reflexivity.
Qed.

(* ... and therefore refines, member by member, the replay on the plain nested dict (C04_refine_step per member) *)
Theorem lazy_refine_step ms o : ms <> [] -> delegating ms o -> Forall wfE ms ->
  (forall i, exists so, abs_op (member_op i o) = Some so /\ in_scope (member_op i o)) ->
  match lr_err (lz_step ms o) with
  | None => forall i m, nth_error ms i = Some m ->
              exists so r m', abs_op (member_op i o) = Some so /\ nd_step py_split (absE m) so = Some r
                              /\ nth_error (lr_cont (lz_step ms o)) i = Some m' /\ absE m' = s_cont r
  | Some _ => exists i m so, nth_error ms i = Some m /\ abs_op (member_op i o) = Some so
                             /\ nd_step py_split (absE m) so = None
  end.
Proof.
  intros NE D W SC. pose proof (lz_step_delegates ms o NE D) as S.
  destruct (lr_err (lz_step ms o)) as [e|].
  - destruct S as (i & m & Hi & Ei & _). destruct (SC i) as (so & A & IS). exists i, m, so. repeat split; try assumption.
    assert (Wm : wfE m) by (rewrite Forall_forall in W; apply W; eapply nth_error_In; eauto).
    pose proof (refine_step m _ so Wm A IS) as R. destruct (nd_step py_split (absE m) so) eqn:N; [|reflexivity].
    destruct R as [R _]. congruence.
  - destruct S as (C & _ & OK). intros i m Hi. destruct (SC i) as (so & A & IS).
    assert (Wm : wfE m) by (rewrite Forall_forall in W; apply W; eapply nth_error_In; eauto).
    pose proof (refine_step m _ so Wm A IS) as R. specialize (OK i m Hi).
    destruct (nd_step py_split (absE m) so) as [r|] eqn:N.
    + destruct R as [_ R]. exists so, r, (sr_cont (step m (member_op i o))). split; [assumption|]. split; [exact N|]. split.
      * rewrite C. clear - Hi. change i with (0 + i) at 2. revert i Hi. generalize 0.
        induction ms as [|x r0 IH]; intros n i Hi; [destruct i; discriminate|]. destruct i as [|i]; cbn in *.
        -- inversion Hi; subst. now rewrite Nat.add_0_r.
        -- rewrite Nat.add_succ_r. apply (IH (S n) i Hi).
      * rewrite <- R. reflexivity.
    + destruct R as [R _]. contradiction.
Qed.

(* ------------------------------------------------------------------------------------------------ reads *)
Lemma collect_spec k : forall ms vs, collect k ms = Some vs <-> Forall2 (fun m v => aget k m = Some v) ms vs.
Proof.
  induction ms as [|m r IH]; intros vs; cbn.
  - split; intro H; [inversion H; constructor|inversion H; reflexivity].
  - destruct (aget k m) as [v|] eqn:A.
    + destruct (collect k r) as [l|] eqn:C.
      * split; intro H.
        -- inversion H; subst. constructor; [assumption|now apply IH].
        -- inversion H; subst. apply IH in H4. rewrite A in H2. inversion H2; subst. congruence.
      * split; intro H; [discriminate|]. inversion H; subst. apply IH in H4. discriminate.
    + split; intro H; [discriminate|]. inversion H; subst. congruence.
Qed.

Lemma all_nodes_spec : forall vs subs, all_nodes vs = Some subs <-> vs = map Node subs.
Proof.
  induction vs as [|v r IH]; intros subs; cbn.
  - split; intro H; [inversion H; reflexivity|destruct subs; [reflexivity|discriminate]].
  - destruct v as [k z|es].
    + split; intro H; [discriminate|]. destruct subs; discriminate.
    + destruct (all_nodes r) as [l|] eqn:A.
      * split; intro H.
        -- inversion H; subst. cbn. f_equal. now apply IH.
        -- destruct subs as [|s subs]; [discriminate|]. cbn in H. inversion H; subst. f_equal. f_equal.
           assert (Some l = Some subs) by now apply IH. congruence.
      * split; intro H; [discriminate|]. destruct subs as [|s subs]; [discriminate|]. cbn in H. inversion H; subst.
        assert (None = Some subs) by now apply IH. discriminate.
Qed.

(* get STACKS THE MEMBERS' ENTRIES: a stacked leaf is the list of the members' own leaves under that key, a nested
   result is the lazy stack of the members' own nested nodes under that key — for every key path *)
Theorem lz_get_members : forall p ms hd v, lz_get_tuple p ms hd = LGVal v ->
  match v with
  | LVLeaf vs => Forall2 (fun m w => get_tuple p m hd = GVal w /\ is_nodeb w = false) ms vs
  | LVStack subs => Forall2 (fun m s => get_tuple p m hd = GVal (Node s)) ms subs
  end.
Proof.
  induction p as [|k rest IH]; intros ms hd v H; [discriminate|].
  cbn [lz_get_tuple] in H. unfold lz_get_str in H.
  destruct (collect k ms) as [vs|] eqn:C; [|destruct hd; discriminate].
  apply collect_spec in C. unfold stack_vals in H.
  destruct vs as [|v0 vr]; [discriminate|].
  destruct (forallb is_leaf_tree (v0 :: vr)) eqn:FL.
  - (* stacked leaves *)
    destruct rest as [|k1 rest]; [|discriminate]. inversion H; subst. clear H IH.
    rewrite forallb_forall in FL. revert FL. induction C as [|m w ms' vs' A C IHC]; intro FL; constructor.
    + cbn. rewrite A. split; [reflexivity|]. specialize (FL w (or_introl eq_refl)). unfold is_leaf_tree in FL.
      now destruct (is_nodeb w).
    + apply IHC. intros x Hx. apply FL. now right.
  - destruct (all_nodes (v0 :: vr)) as [subs|] eqn:AN; [|discriminate].
    apply all_nodes_spec in AN. rewrite AN in C.
    destruct rest as [|k1 rest].
    + inversion H; subst. clear - C. remember (map Node subs) as l. revert subs Heql.
      induction C as [|m w ms' vs' A C IHC]; intros subs E; destruct subs; try discriminate; constructor.
      * cbn in E. inversion E; subst. cbn. now rewrite A.
      * cbn in E. inversion E; subst. now apply IHC.
    + specialize (IH subs hd v H). clear H FL.
      assert (G : forall m s, aget k m = Some (Node s) -> get_tuple (k :: k1 :: rest) m hd = get_tuple (k1 :: rest) s hd).
      { intros m s A. cbn. now rewrite A. }
      clear AN. remember (map Node subs) as l.
      destruct v as [ws|ss].
      * revert subs Heql ws IH. induction C as [|m w ms' vs' A C IHC]; intros subs E ws IH; destruct subs; try discriminate.
        -- inversion IH; constructor.
        -- cbn in E. inversion E; subst. inversion IH; subst. constructor; [now rewrite (G _ _ A)|now apply (IHC subs)].
      * revert subs Heql ss IH. induction C as [|m w ms' vs' A C IHC]; intros subs E ss IH; destruct subs; try discriminate.
        -- inversion IH; constructor.
        -- cbn in E. inversion E; subst. inversion IH; subst. constructor; [now rewrite (G _ _ A)|now apply (IHC subs)].
Qed.

(* ------------------------------------------------------------------------------------------------ key views *)
Lemma mem_str_In k l : mem_str k l = true <-> In k l.
Proof.
  unfold mem_str. rewrite existsb_exists. split.
  - intros (x & I & E). apply String.eqb_eq in E. now subst.
  - intro I. exists k. split; [assumption|apply String.eqb_refl].
Qed.

(* THE KEYS OF A STACK ARE THE KEYS COMMON TO ALL ITS MEMBERS *)
Theorem lz_key_list_spec m0 r k :
  In k (lz_key_list (m0 :: r)) <-> (In k (map fst m0) /\ forall m, In m r -> amem k m = true).
Proof.
  unfold lz_key_list. split.
  - intro I. apply (Permutation_in _ (sort_by_perm _ _)) in I. cbn in I. apply filter_In in I.
    destruct I as [I F]. split; [assumption|]. now rewrite forallb_forall in F.
  - intros [I F]. apply (Permutation_in _ (Permutation_sym (sort_by_perm _ _))). cbn. apply filter_In.
    split; [assumption|]. now rewrite forallb_forall.
Qed.

Theorem lz_key_list_sorted ms : names_sorted (lz_key_list ms).
Proof.
  unfold lz_key_list. pose proof (sort_by_sorted (fun s : string => s) (common_keys ms)) as S. now rewrite map_id in S.
Qed.

Lemma in_map_single (k : string) l : In [k] (map (fun k => [k]) l) <-> In k l.
Proof.
  rewrite in_map_iff. split; [intros (x & E & I); inversion E; now subst|intro I; now exists k].
Qed.

(* root level: `key in keys(...)` agrees with iterating the same view, whatever leaves_only / sort (D45 repaired) *)
Theorem lz_root_contains_iff_listed inc lo so k ms l :
  lz_keys_view false lo so ms = Ok l -> (lz_view_contains inc lo [k] ms = Ok true <-> In [k] l).
Proof.
  unfold lz_keys_view, lz_keys_stream, lz_view_contains. destruct ms as [|m0 others].
  - cbn. intro H. destruct so; inversion H; subst; cbn; (split; [discriminate|contradiction]).
  - cbn [negb]. set (KL := lz_key_list (m0 :: others)). intro H.
    assert (P : forall x, In x l <-> In x (if lo then map (fun k => [k]) (filter (fun k => first_is_leaf k (m0 :: others)) KL)
                                         else map (fun k => [k]) KL)).
    { destruct lo; cbn in H; destruct so; inversion H; subst; intro x; try reflexivity;
        split; apply Permutation_in; try apply sort_by_perm; apply Permutation_sym, sort_by_perm. }
    rewrite P. destruct (mem_str k KL) eqn:M.
    + apply mem_str_In in M. destruct lo.
      * rewrite in_map_single, filter_In. split; [intro E; inversion E; now split|intros [_ E]; now rewrite E].
      * rewrite in_map_single. split; auto.
    + assert (N : ~ In k KL) by (intro I; apply mem_str_In in I; congruence).
      split; [discriminate|]. destruct lo; rewrite in_map_single; [rewrite filter_In|]; tauto.
Qed.

(* len(view) counts what the view iterates, for every flag combination (D44 repaired) *)
Theorem lz_len_spec inc lo so ms l : lz_keys_view inc lo so ms = Ok l -> lz_len_view inc lo so ms = Ok (List.length l).
Proof.
  unfold lz_len_view. intro H. destruct (inc || lo) eqn:F; [now rewrite H|].
  apply orb_false_iff in F. destruct F; subst. unfold lz_keys_view, lz_keys_stream in H.
  destruct ms as [|m0 others]; cbv iota beta in H.
  - destruct so; inversion H; reflexivity.
  - f_equal. destruct so; inversion H; subst; [rewrite (Permutation_length (sort_by_perm _ _))|]; now rewrite map_length.
Qed.

(* values are the values of the items *)
Theorem lz_values_spec inc lo so ms :
  lz_values_view inc lo so ms = match lz_items_view inc lo so ms with Ok l => Ok (map snd l) | Raise e => Raise e end.
Proof. reflexivity. Qed.

(* is_empty = the leaves-only nested view lists nothing *)
Theorem lz_is_empty_spec so ms l : lz_keys_view true true so ms = Ok l -> lz_is_empty ms = Ok (is_nilb l).
Proof.
  unfold lz_keys_view, lz_is_empty. destruct (lz_keys_stream true true ms) as [s [e|]]; [discriminate|].
  intro H. inversion H; subst. destruct s as [|x s]; [now destruct so|].
  destruct so; [|reflexivity].
  destruct (sort_by sort_name (x :: s)) eqn:E; [|reflexivity].
  pose proof (Permutation_length (sort_by_perm sort_name (x :: s))) as L. rewrite E in L. discriminate.
Qed.

(* ------------------------------------------------------------------------------------------------ deviations *)
(* D401 (known finding): the first member holds a nested node that another member lacks.  The stack denotes the empty
   dict (no common key; items, membership and get say so) but iterating keys(include_nested=True), len and is_empty
   raise KeyError. *)
Definition d401_stack : lstack := [[("x", Node [])]; []].

Theorem lazy_keys_nested_refuted :
  common_keys d401_stack = [] /\ lz_items_view true false false d401_stack = Ok []
  /\ lz_td_contains (KS "x") d401_stack = Ok false /\ lz_get (KS "x") d401_stack = LGDef
  /\ lz_keys_view true false false d401_stack = Raise EKey /\ lz_len_view true false false d401_stack = Raise EKey
  /\ lz_is_empty d401_stack = Raise EKey.
Proof. repeat split. Qed.

(* ... and never without include_nested: those views cannot raise *)
Theorem lazy_keys_root_partial lo so ms : exists l, lz_keys_view false lo so ms = Ok l.
Proof.
  unfold lz_keys_view, lz_keys_stream. destruct ms as [|m0 r]; [eexists; reflexivity|]. destruct lo; eexists; reflexivity.
Qed.

(* D47 (known finding): update() with prefix-related items is NOT the members' update: the input is merged into one
   tensordict first, so the later item replaces what the earlier one wrote *)
Definition d47_items : list (pykey * sval) :=
  [(KT [KS "a"; KS "b"], SLeaf [1%Z]); (KS "a", SNode [("c", SLeaf [2%Z])])].

Theorem lazy_update_refuted :
  fst (lz_update d47_items [[]]) = [[("a", Node [("c", Leaf LT 2%Z)])]]
  /\ fst (update (map (fun kv => (fst kv, unbind1 0 (snd kv))) d47_items) [])
     = [("a", Node [("b", Leaf LT 1%Z); ("c", Leaf LT 2%Z)])].
Proof. split; reflexivity. Qed.

(* one item under a string key: the members' update *)
Theorem lazy_update_single_partial s v ms :
  lz_update [(KS s, v)] ms = lz_each (fun i m => update [(KS s, unbind1 i v)] m) 0 ms.
Proof. reflexivity. Qed.

(* non-vacuity: a two-member stack with different insertion orders and different leaf values *)
Definition ex_stack : lstack :=
  [[("b", Leaf LT 1%Z); ("a", Node [("c", Leaf LT 2%Z)])]; [("a", Node [("c", Leaf LT 5%Z)]); ("b", Leaf LT 6%Z)]].
Definition ex_lops : list lop :=
  [LSet (KT [KS "a"; KT [KS "d"]]) (SLeaf [7%Z; 8%Z]); LRename (KS "b") (KT [KS "a"; KS "e"]) false;
   LSelect [KT [KS "a"; KS "d"]; KT [KT [KS "a"]; KS "e"]] false true true; LFlatten "." true false].
