(* C04 — flatten_keys out of place: one entry per leaf, named by the joined path; colliding names raise. *)
From Coq Require Import ZArith List String Bool Lia.
Import ListNotations.
From TD Require Import Model.Keys Model.C04_Tree Model.C04_Ops Model.C04_Views Spec.C04_NestedDict
     Proofs.C04_AssocP Proofs.C04_CoreP Proofs.C04_ViewsP.
Open Scope string_scope.
Open Scope list_scope.

(* the fast path of TensorDict.items(True, True) lists what the generic traversal lists *)
Lemma leaves_items_pre : forall nt v prefix, leaves nt prefix v = items_pre true nt prefix v.
Proof.
  intros nt. induction v as [k z|es IH] using tree_ind2; intros prefix; [reflexivity|].
  cbn [leaves items_pre]. induction IH as [|[k w] r Hw Hr IHr]; [reflexivity|].
  rewrite IHr. cbn [negb orb]. destruct w as [lk z|sub].
  - destruct (is_leafb nt (Leaf lk z)); cbn [app]; reflexivity.
  - cbn [is_leafb app]. f_equal. exact (Hw (prefix ++ [k])).
Qed.

Lemma has_dup_eq l : has_dup l = s_has_dup l.
Proof. induction l as [|x r IH]; [reflexivity|]. cbn. now rewrite IH. Qed.

Lemma absE_combine : forall (names : list string) (vals : list tree),
  absE (combine names vals) = combine names (map abs vals).
Proof.
  induction names as [|n r IH]; intros [|v vs]; try reflexivity. cbn. now rewrite IH.
Qed.

Theorem flatten_out_refines sep es :
  match flatten_out sep es with
  | Ok out => nd_flatten sep (absE es) = Some (absE out)
  | Raise _ => nd_flatten sep (absE es) = None
  end.
Proof.
  unfold flatten_out, nd_flatten, nd_view. rewrite leaves_items_pre.
  change (ND (absE es)) with (abs (Node es)). rewrite <- items_pre_refines.
  set (lv := items_pre true true [] (Node es)). clearbody lv.
  rewrite !map_map. unfold absI, join. cbn [fst snd]. rewrite has_dup_eq.
  destruct (s_has_dup (map (fun x : list string * tree => String.concat sep (fst x)) lv)); [reflexivity|].
  rewrite absE_combine, map_map. reflexivity.
Qed.

Lemma has_dup_false_NoDup l : has_dup l = false -> NoDup l.
Proof.
  induction l as [|x r IH]; [constructor|]. cbn. destruct (in_dec string_dec x r); [discriminate|].
  cbn. intros H. constructor; [assumption|now apply IH].
Qed.

Lemma items_pre_leaves_wf : forall nt v prefix, wf v -> Forall (fun pv => wf (snd pv)) (items_pre true nt prefix v).
Proof.
  intros nt. induction v as [k z|es IH] using tree_ind2; intros prefix W; [constructor|].
  inversion W as [|es0 ND F]; subst. clear W ND. cbn [items_pre].
  induction IH as [|[k w] r Hw Hr IHr]; [constructor|]. inversion F; subst.
  apply Forall_app. split; [|apply Forall_app; split; [|now apply IHr]].
  - destruct (negb true || is_leafb nt w); repeat constructor. assumption.
  - destruct w as [lk z|sub]; [constructor|]. cbn in *. now apply Hw.
Qed.

Lemma flatten_out_wf sep es out : wfE es -> flatten_out sep es = Ok out -> wfE out.
Proof.
  unfold flatten_out. rewrite leaves_items_pre. intros W.
  pose proof (items_pre_leaves_wf true (Node es) [] W) as F.
  set (lv := items_pre true true [] (Node es)) in *. clearbody lv.
  destruct (has_dup (map (fun pv : list string * tree => join sep (fst pv)) lv)) eqn:D; [discriminate|].
  intros E; injection E as <-. apply has_dup_false_NoDup in D.
  constructor.
  - replace (map fst (combine (map (fun pv : list string * tree => join sep (fst pv)) lv) (map snd lv)))
      with (map (fun pv : list string * tree => join sep (fst pv)) lv); [exact D|].
    clear. induction lv as [|a l IH]; [reflexivity|]. cbn [map combine fst]. now rewrite <- IH.
  - clear D. induction F as [|a l Ha Hl IH]; [constructor|]. cbn [map combine]. constructor; [exact Ha|exact IH].
Qed.

(* ---- flatten_keys in place (after the fix of D24 / D24b): the same mapping, bound into the emptied storage ---- *)
Lemma adel_all_nil (es : ents) : fold_left (fun acc k => adel k acc) (map fst es) es = [].
Proof. induction es as [|[k v] r IH]; [reflexivity|]. cbn. now rewrite String.eqb_refl. Qed.

Lemma aset_fresh k v (acc : ents) : ~ In k (map fst acc) -> aset k v acc = acc ++ [(k, v)].
Proof.
  induction acc as [|[k' w] r IH]; intros N; [reflexivity|]. cbn in *.
  destruct (String.eqb_spec k k') as [->|Nk]; [exfalso; apply N; now left|]. rewrite IH; [reflexivity|tauto].
Qed.

Lemma fold_aset_fresh : forall (l acc : ents), NoDup (map fst l) ->
  (forall k, In k (map fst l) -> ~ In k (map fst acc)) ->
  fold_left (fun a nv => aset (fst nv) (snd nv) a) l acc = acc ++ l.
Proof.
  induction l as [|[k v] r IH]; intros acc ND F; [now rewrite app_nil_r|].
  inversion ND as [|? ? NI ND']; subst. cbn [fold_left fst snd].
  rewrite aset_fresh by (apply F; now left). rewrite IH; [now rewrite <- app_assoc|exact ND'|].
  intros k' I. rewrite map_app, in_app_iff. cbn. intros [I2|[E|[]]]; [exact (F k' (or_intror I) I2)|subst; contradiction].
Qed.

Theorem flatten_in_eq sep es :
  flatten_in sep es = match flatten_out sep es with Ok out => (out, None) | Raise e => (es, Some e) end.
Proof.
  unfold flatten_in, flatten_out.
  set (lv := leaves true [] (Node es)). clearbody lv.
  destruct (has_dup (map (fun pv : list string * tree => join sep (fst pv)) lv)) eqn:D; [reflexivity|].
  rewrite adel_all_nil. f_equal. rewrite fold_aset_fresh; [reflexivity| |intros k _ []].
  apply has_dup_false_NoDup in D.
  replace (map fst (combine (map (fun pv : list string * tree => join sep (fst pv)) lv) (map snd lv)))
    with (map (fun pv : list string * tree => join sep (fst pv)) lv); [exact D|].
  clear. induction lv as [|a l IH]; [reflexivity|]. cbn [map combine fst]. now rewrite <- IH.
Qed.
