From Coq Require Import ZArith List Bool Lia ZifyBool.
Import ListNotations.
From TD Require Import Model.C19_Vmap Model.C19_Content Model.C19_Memo.
Open Scope nat_scope.

Lemma vkey_eqb_eq a b : vkey_eqb a b = true <-> a = b.
Proof.
  destruct a as [d1 l1], b as [d2 l2]. unfold vkey_eqb. cbn [fst snd]. split.
  - intros H. apply andb_true_iff in H. destruct H as [H1 H2].
    apply Z.eqb_eq in H1. apply Nat.eqb_eq in H2. now subst.
  - intros H. injection H as -> ->. now rewrite Z.eqb_refl, Nat.eqb_refl.
Qed.

Lemma find_view_In k c v : find_view k c = Some v -> In (k, v) c.
Proof.
  induction c as [|[k' v'] c IH]; cbn; [discriminate|].
  destruct (vkey_eqb k k') eqn:E.
  - intros H. injection H as ->. apply vkey_eqb_eq in E. subst. now left.
  - intros H. right. now apply IH.
Qed.

(* two calls share an entry iff they have the same (in_dim, vmap_level) *)
Theorem memo_hit_iff n d1 l1 d2 l2 :
  locked n = true -> vcache n = [] ->
  find_view (d2, l2) (vcache (fst (mstep repo_cfg n (MVmap d1 l1)))) <> None <-> (d1, l1) = (d2, l2).
Proof.
  intros Hl Hc. cbn. rewrite Hl, Hc. cbn.
  destruct (vkey_eqb (d2, l2) (d1, l1)) eqn:E.
  - apply vkey_eqb_eq in E. split; [intros _; now symmetry|intros _; discriminate].
  - split; [intros H; now contradiction H|].
    intros H. assert (E2 : vkey_eqb (d2, l2) (d1, l1) = true) by (apply vkey_eqb_eq; now symmetry). congruence.
Qed.

Lemma fresh_leaves n n' d l : leaves n' = leaves n -> fresh n' d l = fresh n d l.
Proof. intros H. unfold fresh. now rewrite H. Qed.

(* the invariant is kept by every operation of the tree as it is today *)
Theorem mstep_inv n op : cache_inv n -> cache_inv (fst (mstep repo_cfg n op)).
Proof.
  intros Hi. pose proof Hi as [Hc Hu]. destruct op as [d l|k z|k id z|k id z| |]; cbn.
  - destruct (locked n) eqn:El; [|exact Hi].
    destruct (find_view (d, l) (vcache n)) eqn:Ef; [exact Hi|].
    cbn. split.
    + intros k v [H|H].
      * injection H as <- <-. reflexivity.
      * rewrite (Hc k v H). reflexivity.
    + discriminate.
  - destruct (sid_of (leaves n) k); [|exact Hi]. cbn. split; [exact Hc|exact Hu].
  - destruct (locked n) eqn:El; cbn.
    + split; [intros k0 v []|reflexivity].
    + rewrite (Hu eq_refl). split; [intros k0 v []|reflexivity].
  - exact Hi.
  - split; [intros k v []|reflexivity].
  - split; [exact Hc|discriminate].
Qed.

(* what a call hands to the function: for a batched call exactly the view a fresh computation gives (right dim, right level,
   the CURRENT leaf objects); for an un-batched argument the current leaf objects *)
Theorem mstep_view n op v :
  cache_inv n -> snd (mstep repo_cfg n op) = Some v ->
  v_leaves v = leaves n /\ (forall d l, op = MVmap d l -> v = fresh n d l).
Proof.
  intros [Hc Hu]. destruct op as [d l|k z|k id z|k id z| |]; cbn.
  - destruct (locked n) eqn:El.
    + destruct (find_view (d, l) (vcache n)) eqn:Ef; cbn; intros H; injection H as <-.
      * apply find_view_In in Ef. rewrite (Hc _ _ Ef). cbn. split; [reflexivity|].
        intros d' l' E. injection E as <- <-. reflexivity.
      * split; [reflexivity|]. intros d' l' E. injection E as <- <-. reflexivity.
    + cbn. intros H. injection H as <-. split; [reflexivity|]. intros d' l' E. injection E as <- <-. reflexivity.
  - destruct (sid_of (leaves n) k); discriminate.
  - discriminate.
  - intros H. injection H as <-. split; [reflexivity|discriminate].
  - discriminate.
  - discriminate.
Qed.

(* every call of every history sees the current content: what the function reads through the (possibly memoised) view is
   what the per-sample loop reads from the tensordict — in-place writes, rebinding writes, unlock / lock, un-batched passes in
   between, any (in_dim, level) *)
Theorem memo_current ops : forall n, cache_inv n -> Forall (fun p => fst p = snd p) (mrun repo_cfg n ops).
Proof.
  induction ops as [|op ops IH]; intros n Hi; cbn; [constructor|].
  pose proof (mstep_inv n op Hi) as Hi'. pose proof (mstep_view n op) as Hv.
  destruct (mstep repo_cfg n op) as [n' [v|]]; cbn in Hi', Hv.
  - constructor; [|apply IH; exact Hi']. cbn.
    destruct (Hv v Hi eq_refl) as [Hl _]. unfold see. rewrite Hl. reflexivity.
  - apply IH. exact Hi'.
Qed.

Definition w_node : node := {| leaves := [(0, 1)]; store := [(1, 3%Z)]; locked := true; vcache := []; ncopy := None |}.

Example memo_current_nonvacuous : cache_inv w_node /\
  mrun repo_cfg w_node [MVmap 0 1; MWrite 0 8; MVmap 0 1; MRebind 0 7 5; MVmap 0 1; MVmap 0 2]
  = [([(0, 3%Z)], [(0, 3%Z)]); ([(0, 8%Z)], [(0, 8%Z)]); ([(0, 5%Z)], [(0, 5%Z)]); ([(0, 5%Z)], [(0, 5%Z)])].
Proof. split; [split; [intros k v []|reflexivity]|reflexivity]. Qed.

(* without the erasure at the rebinding site (the tree before the repair of D19 / D60) a memoised view goes stale *)
Theorem memo_rebind_unrepaired_refuted :
  exists ops seen cur, In (seen, cur) (mrun {| fix_rebind := false; memo_none := false |} w_node ops) /\ seen <> cur.
Proof.
  exists [MVmap 0 1; MRebind 0 7 5; MVmap 0 1], [(0, 3%Z)], [(0, 5%Z)].
  split; [vm_compute; right; left; reflexivity|discriminate].
Qed.

(* the seeded variant C19-1 (the shallow copy of an in_dim = None argument memoised while locked) is inside the model: the
   second call sees the entry the first call's function wrote *)
Theorem memo_none_copy_refuted :
  exists ops seen cur, In (seen, cur) (mrun {| fix_rebind := true; memo_none := true |} w_node ops) /\ seen <> cur.
Proof.
  exists [MPass 9 7 5; MPass 8 6 4], [(0, 3%Z); (9, 5%Z)], [(0, 3%Z)].
  split; [vm_compute; right; left; reflexivity|discriminate].
Qed.

(* names lists are fresh per result: however often, and with whatever out_dims, a (memoised / multiply returned) view is
   un-batched, every result gets the names of the view with None at ITS out_dim, and the view keeps its names *)
Theorem unbatch_seq_fresh vn os :
  unbatch_seq true vn os = (map (names_remove vn) os, vn).
Proof.
  induction os as [|o r IH]; cbn; [reflexivity|]. rewrite IH. reflexivity.
Qed.

(* the seeded variant C19-3 (no copy): the second un-batching of the same view gets one name too many, the view is changed *)
Theorem unbatch_shared_list_refuted :
  exists vn o1 o2, unbatch_seq false vn [o1; o2] <> (map (names_remove vn) [o1; o2], vn).
Proof. exists (Some [Some 1]), 0%Z, 1%Z. vm_compute. discriminate. Qed.
