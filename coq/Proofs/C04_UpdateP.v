(* C04 — update: the code's loop (merge nested nodes in place, _set_tuple everything else) refines the nested dict's
   recursive merge. *)
From Coq Require Import ZArith List String Bool Lia.
Import ListNotations.
From TD Require Import Model.Keys Proofs.KeysP Model.C04_Tree Model.C04_Ops Spec.C04_NestedDict Proofs.C04_AssocP Proofs.C04_CoreP.
Open Scope string_scope.
Open Scope list_scope.

Fixpoint upd_items (vs : ents) (acc : ents) : ents * option err :=
  match vs with
  | [] => (acc, None)
  | (k', v') :: r =>
      match upd_item v' [k'] acc with
      | (acc', None) => upd_items r acc'
      | (acc', Some e) => (acc', Some e)
      end
  end.

Lemma upd_item_nil v es : upd_item v [] es = (es, Some EOther).
Proof. destruct v; reflexivity. Qed.

Lemma upd_item_cons v k sub es : upd_item v (k :: sub) es =
  match aget k es, v with
  | Some (Node tsub), Node vs =>
      match sub with
      | _ :: _ => let '(t', e) := upd_item v sub tsub in (aset k (Node t') es, e)
      | [] => let '(t', e) := upd_items vs tsub in (aset k (Node t') es, e)
      end
  | _, _ => match set_tuple (k :: sub) v es with Ok es' => (es', None) | Raise e => (es, Some e) end
  end.
Proof. destruct v; reflexivity. Qed.

Fixpoint nd_items (l : dict) (acc : dict) : option dict :=
  match l with
  | [] => Some acc
  | (k', v') :: r => match nd_assign v' [k'] acc with Some acc' => nd_items r acc' | None => None end
  end.

Lemma nd_assign_nil v d : nd_assign v [] d = None.
Proof. destruct v; reflexivity. Qed.

Lemma nd_assign_1 v k d : nd_assign v [k] d =
  match d_get k d, v with
  | Some (ND sub), ND vs => option_map (fun s => d_put k (ND s) d) (nd_items vs sub)
  | _, _ => Some (d_put k v d)
  end.
Proof. destruct v; reflexivity. Qed.

Lemma nd_assign_2 v k k2 r2 d : nd_assign v (k :: k2 :: r2) d =
  match d_get k d with
  | None => option_map (fun s => d_put k (ND s) d) (nd_assign v (k2 :: r2) [])
  | Some (ND sub) => option_map (fun s => d_put k (ND s) d) (nd_assign v (k2 :: r2) sub)
  | Some _ => None
  end.
Proof. destruct v; reflexivity. Qed.

(* into an empty dict, or with a leaf value, assigning is plain setting *)
Lemma nd_assign_empty : forall p v, nd_assign v p [] = nd_set p v [].
Proof.
  induction p as [|k rest IH]; intros v; [now rewrite nd_assign_nil|].
  destruct rest as [|k2 r2]; [rewrite nd_assign_1, nd_set_1; cbn; destruct v; reflexivity|].
  rewrite nd_assign_2, nd_set_2. cbn [d_get]. now rewrite IH.
Qed.

Lemma nd_assign_leaf : forall p v d, (forall vs, v <> ND vs) -> nd_assign v p d = nd_set p v d.
Proof.
  induction p as [|k rest IH]; intros v d L; [now rewrite nd_assign_nil|].
  destruct rest as [|k2 r2].
  - rewrite nd_assign_1, nd_set_1. destruct (d_get k d) as [[z|z|sub]|]; try reflexivity.
    destruct v; try reflexivity. exfalso. exact (L _ eq_refl).
  - rewrite nd_assign_2, nd_set_2. destruct (d_get k d) as [[z|z|sub]|]; try reflexivity; now rewrite IH.
Qed.

Lemma upd_item_refines : forall v p es,
  match upd_item v p es with
  | (es', None) => nd_assign (abs v) p (absE es) = Some (absE es')
  | (_, Some _) => nd_assign (abs v) p (absE es) = None
  end.
Proof.
  induction v as [lk z|vs IHv] using tree_ind2.
  - (* a leaf value: always _set_tuple *)
    intros p es. assert (L : forall vs, abs (Leaf lk z) <> ND vs) by (destruct lk; discriminate).
    rewrite (nd_assign_leaf p _ _ L). pose proof (set_tuple_refines p (Leaf lk z) es) as S.
    destruct p as [|k sub]; [reflexivity|]. rewrite upd_item_cons.
    destruct (aget k es) as [[lk' z'|tsub]|]; destruct (set_tuple (k :: sub) (Leaf lk z) es); exact S.
  - (* a nested value *)
    assert (ITEMS : forall acc, match upd_items vs acc with
                                | (acc', None) => nd_items (absE vs) (absE acc) = Some (absE acc')
                                | (_, Some _) => nd_items (absE vs) (absE acc) = None end).
    { induction IHv as [|[k' v'] r Hv Hr IHr]; intros acc; [reflexivity|].
      cbn [upd_items absE nd_items]. cbn in Hv. specialize (Hv [k'] acc).
      destruct (upd_item v' [k'] acc) as [acc' [e|]]; rewrite Hv; [reflexivity|]. apply IHr. }
    induction p as [|k sub IHp]; intros es; [reflexivity|].
    rewrite upd_item_cons. rewrite abs_Node.
    destruct sub as [|k2 r2].
    + rewrite nd_assign_1, d_get_abs.
      destruct (aget k es) as [[lk' z'|tsub]|]; cbn [option_map].
      * rewrite set_tuple_1. destruct lk'; cbn [abs]; rewrite <- abs_Node, d_put_abs; reflexivity.
      * rewrite abs_Node. specialize (ITEMS tsub). destruct (upd_items vs tsub) as [t' [e|]]; rewrite ITEMS; [reflexivity|].
        cbn [option_map]. now rewrite d_put_abs_node.
      * rewrite set_tuple_1. rewrite <- abs_Node, d_put_abs. reflexivity.
    + rewrite nd_assign_2, d_get_abs.
      destruct (aget k es) as [[lk' z'|tsub]|] eqn:G; cbn [option_map].
      * rewrite set_tuple_2, G. destruct lk'; reflexivity.
      * rewrite abs_Node. specialize (IHp tsub). rewrite abs_Node in IHp.
        destruct (upd_item (Node vs) (k2 :: r2) tsub) as [t' [e|]]; rewrite IHp; [reflexivity|].
        cbn [option_map]. now rewrite d_put_abs_node.
      * rewrite nd_assign_empty. pose proof (set_tuple_refines (k2 :: r2) (Node vs) []) as S. rewrite abs_Node in S.
        change (absE []) with (@nil (string * nd)) in S.
        rewrite set_tuple_2, G. destruct (set_tuple (k2 :: r2) (Node vs) []) as [s|e]; rewrite S; [|reflexivity].
        cbn [option_map]. now rewrite d_put_abs_node.
Qed.

Fixpoint update_paths (items : list (list string * tree)) (es : ents) : ents * option err :=
  match items with
  | [] => (es, None)
  | (p, v) :: r =>
      match upd_item v p es with
      | (es', None) => update_paths r es'
      | (es', Some e) => (es', Some e)
      end
  end.

Theorem update_refines : forall items es,
  match update_paths items es with
  | (es', None) => nd_update (map (fun pv => (fst pv, abs (snd pv))) items) (absE es) = Some (absE es')
  | (_, Some _) => nd_update (map (fun pv => (fst pv, abs (snd pv))) items) (absE es) = None
  end.
Proof.
  induction items as [|[p v] r IH]; intros es; [reflexivity|].
  cbn [update_paths map nd_update fst snd]. pose proof (upd_item_refines v p es) as U.
  destruct (upd_item v p es) as [es' [e|]]; rewrite U; [reflexivity|]. apply IH.
Qed.

(* well-formedness *)
Lemma upd_item_wf : forall v p es, wf v -> wfE es -> wfE (fst (upd_item v p es)).
Proof.
  induction v as [lk z|vs IHv] using tree_ind2.
  - intros p es Wv W. destruct p as [|k sub]; [exact W|]. rewrite upd_item_cons.
    destruct (aget k es) as [[lk' z'|tsub]|]; destruct (set_tuple (k :: sub) (Leaf lk z) es) as [es'|e] eqn:S;
      cbn [fst]; try exact W; exact (set_tuple_wf _ _ _ _ W Wv S).
  - intros p es Wv. inversion Wv as [|vs0 NDv Fv]; subst.
    assert (ITEMS : forall acc, wfE acc -> wfE (fst (upd_items vs acc))).
    { clear NDv Wv. induction IHv as [|[k' v'] r Hv Hr IHr]; intros acc Wa; [exact Wa|].
      inversion Fv; subst. cbn [upd_items]. cbn in Hv. specialize (Hv [k'] acc ltac:(assumption) Wa).
      destruct (upd_item v' [k'] acc) as [acc' [e|]]; cbn [fst] in *; [exact Hv|]. now apply IHr. }
    revert es. induction p as [|k sub IHp]; intros es W; [exact W|].
    rewrite upd_item_cons.
    destruct (aget k es) as [[lk' z'|tsub]|] eqn:G.
    + destruct (set_tuple (k :: sub) (Node vs) es) as [es'|e] eqn:S; cbn [fst]; [exact (set_tuple_wf _ _ _ _ W Wv S)|exact W].
    + destruct sub as [|k2 r2].
      * specialize (ITEMS tsub (wfE_sub _ _ _ W G)). destruct (upd_items vs tsub) as [t' e]. cbn [fst] in *.
        now apply wfE_aset.
      * specialize (IHp tsub (wfE_sub _ _ _ W G)). destruct (upd_item (Node vs) (k2 :: r2) tsub) as [t' e]. cbn [fst] in *.
        now apply wfE_aset.
    + destruct (set_tuple (k :: sub) (Node vs) es) as [es'|e] eqn:S; cbn [fst]; [exact (set_tuple_wf _ _ _ _ W Wv S)|exact W].
Qed.
