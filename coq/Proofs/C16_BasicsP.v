(* C16 proofs, part 1: induction principle, denote / shape / wf unfolding, list helpers. *)
From Coq Require Import ZArith List Bool Lia.
Import ListNotations.
From TD Require Import Spec.PySlice Spec.C16_ObjArray Model.C16_NonTensor.
Open Scope nat_scope.

(* ---------------- induction over nt with the members of a stack *)
Section NtInd.
  Variable P : nt -> Prop.
  Hypothesis Hs : forall p sh, P (Shared p sh).
  Hypothesis Hk : forall d l, Forall P l -> P (Stack d l).
  Fixpoint nt_ind' (x : nt) : P x :=
    match x with
    | Shared p sh => Hs p sh
    | Stack d l =>
        Hk d l ((fix go (l : list nt) : Forall P l :=
                   match l with [] => Forall_nil P | m :: r => Forall_cons m (nt_ind' m) (go r) end) l)
    end.
End NtInd.

(* ---------------- unfolding lemmas for the nested fixpoints *)
Lemma denote_stack d l I :
  denote (Stack d l) I =
  match nth_error I d with
  | Some k => match nth_error l k with Some m => denote m (remove_at d I) | None => None end
  | None => None
  end.
Proof.
  cbn [denote]. destruct (nth_error I d) as [k|]; [|reflexivity].
  revert k. induction l as [|m r IH]; intros k.
  - now destruct k.
  - destruct k; cbn [nth_error]; [reflexivity|apply IH].
Qed.

Definition all_wf := fix all (l : list nt) : bool := match l with [] => true | y :: r => wf y && all r end.
Lemma all_wf_forall l : all_wf l = true <-> Forall (fun y => wf y = true) l.
Proof.
  induction l as [|m r IH]; cbn [all_wf]; [split; [constructor|reflexivity]|].
  rewrite andb_true_iff, IH. split.
  - intros [A B]; now constructor.
  - intros H; inversion H; subst; now split.
Qed.

Lemma shape_eqb_eq a : forall b, shape_eqb a b = true <-> a = b.
Proof.
  induction a as [|x a IH]; intros [|y b]; cbn [shape_eqb]; try (split; [discriminate|discriminate]); [split; reflexivity|].
  rewrite andb_true_iff, Nat.eqb_eq, IH. split; [intros [-> ->]; reflexivity|intros E; injection E; auto].
Qed.
Lemma shape_eqb_refl a : shape_eqb a a = true.
Proof. now apply shape_eqb_eq. Qed.

Lemma wf_cons_unfold d m r :
  wf (Stack d (m :: r)) =
  all_wf (m :: r) &&
  match shape m with
  | Some s => (d <=? length s) && forallb (fun y => match shape y with Some s' => shape_eqb s s' | None => false end) r
  | None => false
  end.
Proof. reflexivity. Qed.

(* wf of a stack, spelled out *)
Lemma wf_stack d l :
  wf (Stack d l) = true <->
  exists m r s, l = m :: r /\ Forall (fun y => wf y = true) l /\ Forall (fun y => shape y = Some s) l /\ d <= length s.
Proof.
  destruct l as [|m r].
  - cbn [wf]. split; [discriminate|]. intros (m & r & s & E & _); discriminate.
  - rewrite wf_cons_unfold, andb_true_iff, all_wf_forall. split.
    + intros [Hw Hs]. destruct (shape m) as [s|] eqn:Em; [|discriminate].
      apply andb_true_iff in Hs as [Hd Hr]. apply Nat.leb_le in Hd.
      exists m, r, s. repeat split; auto.
      constructor; [assumption|]. rewrite forallb_forall in Hr. apply Forall_forall. intros y Hy.
      specialize (Hr y Hy). destruct (shape y) as [s'|]; [|discriminate]. apply shape_eqb_eq in Hr. now subst.
    + intros (m' & r' & s & E & Hw & Hs & Hd). injection E as <- <-. split; [assumption|].
      inversion Hs as [|? ? Hm Hr]; subst. rewrite Hm. apply andb_true_iff. split; [now apply Nat.leb_le|].
      apply forallb_forall. intros y Hy. rewrite Forall_forall in Hr. rewrite (Hr y Hy). apply shape_eqb_refl.
Qed.

Lemma shape_stack d m r s :
  shape m = Some s -> d <= length s -> shape (Stack d (m :: r)) = Some (insert_at d (S (length r)) s).
Proof.
  intros Hm Hd. cbn [shape]. rewrite Hm. destruct (d <=? length s) eqn:E; [reflexivity|]. apply Nat.leb_gt in E. lia.
Qed.

(* ---------------- list helpers *)
Lemma nth_error_insert_at {A} (l : list A) k (x : A) : k <= length l -> nth_error (insert_at k x l) k = Some x.
Proof.
  intros H. unfold insert_at. rewrite nth_error_app2 by (rewrite firstn_length; lia).
  rewrite firstn_length, Nat.min_l by lia. now rewrite Nat.sub_diag.
Qed.

Lemma remove_insert_at {A} (l : list A) k (x : A) : k <= length l -> remove_at k (insert_at k x l) = l.
Proof.
  intros H.
  unfold remove_at, insert_at. rewrite firstn_app, firstn_length, Nat.min_l, Nat.sub_diag by lia.
  cbn [firstn]. rewrite app_nil_r, firstn_firstn, Nat.min_id.
  replace (S k) with (length (firstn k l) + 1) by (rewrite firstn_length; lia).
  rewrite skipn_app, firstn_length, Nat.min_l by lia.
  replace (k + 1 - k) with 1 by lia. rewrite (skipn_all2 (firstn k l)) by (rewrite firstn_length; lia).
  cbn [skipn app]. apply firstn_skipn.
Qed.

Lemma insert_remove_at {A} (l : list A) k (x : A) : nth_error l k = Some x -> insert_at k x (remove_at k l) = l.
Proof.
  intros H. assert (Hk : k < length l) by (apply nth_error_Some; congruence).
  unfold insert_at, remove_at.
  rewrite firstn_app, firstn_firstn, Nat.min_id, firstn_length, Nat.min_l, Nat.sub_diag by lia. cbn [firstn].
  rewrite app_nil_r.
  rewrite skipn_app, firstn_length, Nat.min_l, Nat.sub_diag by lia. cbn [skipn].
  rewrite (skipn_all2 (firstn k l)) by (rewrite firstn_length; lia). cbn [app].
  rewrite <- (firstn_skipn k l) at 3. f_equal.
  clear Hk. revert k H. induction l as [|y l IH]; intros [|k] H; cbn in *; try discriminate.
  - now injection H as ->.
  - now apply IH.
Qed.

Lemma length_insert_at {A} (l : list A) k (x : A) : length (insert_at k x l) = S (length l).
Proof.
  unfold insert_at. rewrite app_length. cbn [length]. rewrite firstn_length, skipn_length. lia.
Qed.

Lemma length_remove_at {A} (l : list A) k : k < length l -> length (remove_at k l) = length l - 1.
Proof.
  intros H. unfold remove_at. rewrite app_length, firstn_length, skipn_length. lia.
Qed.

(* in_range through coordinate insertion / removal *)
Lemma in_range_length sh : forall r, in_range sh r = true -> length r = length sh.
Proof.
  induction sh as [|n sh IH]; intros [|x r]; cbn [in_range]; try discriminate; [reflexivity|].
  intros H. apply andb_true_iff in H as [_ H]. cbn [length]. now rewrite (IH _ H).
Qed.

Lemma in_range_app a : forall b r,
  in_range (a ++ b) r = in_range a (firstn (length a) r) && in_range b (skipn (length a) r).
Proof.
  induction a as [|n a IH]; intros b r; cbn [app length firstn skipn in_range]; [reflexivity|].
  destruct r as [|x r]; cbn [firstn skipn in_range].
  - reflexivity.
  - rewrite IH. now rewrite andb_assoc.
Qed.

Lemma in_range_insert sh : forall k n I,
  k <= length sh ->
  in_range (insert_at k n sh) I =
  match nth_error I k with
  | Some j => (j <? n) && in_range sh (remove_at k I)
  | None => false
  end.
Proof.
  induction sh as [|m sh IH]; intros k n I Hk.
  - cbn in Hk. assert (k = 0) by lia. subst. unfold insert_at, remove_at. cbn.
    destruct I as [|j I]; [reflexivity|]. cbn. reflexivity.
  - destruct k as [|k].
    + unfold insert_at, remove_at. cbn. destruct I as [|j I]; reflexivity.
    + cbn in Hk. unfold insert_at in *. cbn [firstn skipn app in_range].
      destruct I as [|j I]; [reflexivity|]. cbn [nth_error].
      unfold remove_at in *. cbn [firstn skipn app in_range].
      rewrite IH by lia. destruct (nth_error I k) as [j'|].
      * now rewrite !andb_assoc, (andb_comm (j <? m)).
      * now rewrite andb_false_r.
Qed.

Lemma Forall_nth_error {A} (P : A -> Prop) l k x : Forall P l -> nth_error l k = Some x -> P x.
Proof. intros H E. rewrite Forall_forall in H. apply H. eapply nth_error_In; eauto. Qed.

(* rmap over members *)
Lemma rmap_ok_length {A B} (f : A -> res B) l : forall ys, rmap f l = Ok ys -> length ys = length l.
Proof.
  induction l as [|x l IH]; cbn [rmap]; intros ys H.
  - now injection H as <-.
  - destruct (f x) as [y| |]; cbn [rbind] in H; try discriminate.
    destruct (rmap f l) as [ys'| |]; cbn [rbind] in H; try discriminate. injection H as <-. cbn. now rewrite (IH _ eq_refl).
Qed.
Lemma rmap_ok_nth {A B} (f : A -> res B) l : forall ys k x,
  rmap f l = Ok ys -> nth_error l k = Some x -> exists y, nth_error ys k = Some y /\ f x = Ok y.
Proof.
  induction l as [|a l IH]; cbn [rmap]; intros ys k x H E; [now destruct k|].
  destruct (f a) as [y| |] eqn:Ea; cbn [rbind] in H; try discriminate.
  destruct (rmap f l) as [ys'| |] eqn:El; cbn [rbind] in H; try discriminate. injection H as <-.
  destruct k; cbn [nth_error] in *.
  - injection E as <-. eauto.
  - eapply IH; eauto.
Qed.
Lemma rmap_ok_nth_inv {A B} (f : A -> res B) l : forall ys k y,
  rmap f l = Ok ys -> nth_error ys k = Some y -> exists x, nth_error l k = Some x /\ f x = Ok y.
Proof.
  induction l as [|a l IH]; cbn [rmap]; intros ys k y H E.
  - injection H as <-. now destruct k.
  - destruct (f a) as [y0| |] eqn:Ea; cbn [rbind] in H; try discriminate.
    destruct (rmap f l) as [ys'| |] eqn:El; cbn [rbind] in H; try discriminate. injection H as <-.
    destruct k; cbn [nth_error] in *.
    + injection E as <-. eauto.
    + eapply IH; eauto.
Qed.

(* the nested "map with result" fixpoints of the model are rmap *)
Lemma select_stack_mp k sub l :
  (fix mp (l : list nt) : res (list nt) :=
     match l with
     | [] => Ok []
     | m :: r => rbind (select k sub m) (fun y => rbind (mp r) (fun ys => Ok (y :: ys)))
     end) l = rmap (select k sub) l.
Proof. induction l as [|m r IH]; cbn [rmap]; [reflexivity|]. now rewrite IH. Qed.

Lemma to_stack_mp l :
  (fix mp (l : list nt) : res (list nt) :=
     match l with
     | [] => Ok []
     | m :: r => rbind (maybe_to_stack m) (fun y => rbind (mp r) (fun ys => Ok (y :: ys)))
     end) l = rmap maybe_to_stack l.
Proof. induction l as [|m r IH]; cbn [rmap]; [reflexivity|]. now rewrite IH. Qed.

Lemma index_mp sub l :
  (fix mp (l : list nt) : res (list nt) :=
     match l with
     | [] => Ok []
     | m :: r => rbind (index m sub) (fun y => rbind (mp r) (fun ys => Ok (y :: ys)))
     end) l = rmap (fun m => index m sub) l.
Proof. induction l as [|m r IH]; cbn [rmap]; [reflexivity|]. now rewrite IH. Qed.
