(* C09 — comparisons dispatched through the right operand compute the same relation *)
From Coq Require Import ZArith Bool Lia.
From TD Require Import Model.C09_Align.
Local Open Scope Z_scope.

Lemma converse_sem c a b : cmp_sem (converse c) b a = cmp_sem c a b.
Proof. destruct c; cbn; try reflexivity; try (now rewrite Z.eqb_sym). Qed.

Theorem tc_dispatch_sound c a b : cmp_sem (tc_dispatch c) b a = cmp_sem c a b.
Proof. destruct c; cbn; try reflexivity; now rewrite Z.eqb_sym. Qed.
Theorem lazy_dispatch_sound c a b : cmp_sem (lazy_dispatch c) b a = cmp_sem c a b.
Proof. destruct c; cbn; try reflexivity; now rewrite Z.eqb_sym. Qed.
Theorem tc_dispatch_is_converse c : tc_dispatch c = converse c /\ lazy_dispatch c = converse c.
Proof. destruct c; split; reflexivity. Qed.

(* dispatching to the negation instead (the confusion "not <" = ">=") is wrong exactly on ties *)
Theorem negation_differs_on_ties c a : cmp_sem (negation c) a a <> cmp_sem c a a \/ c = CEq \/ c = CNe.
Proof.
  destruct c; cbn; rewrite ?Z.ltb_irrefl, ?Z.leb_refl, ?Z.eqb_refl; cbn; try (left; discriminate); tauto.
Qed.
Theorem negation_dispatch_refuted : forall c, c <> CEq -> c <> CNe ->
  exists a b, cmp_sem (negation c) b a <> cmp_sem c a b.
Proof.
  intros c H1 H2. exists 1, 1. destruct c; cbn; try discriminate; congruence.
Qed.
