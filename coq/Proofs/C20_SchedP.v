(* C20 — the thread-pool form: order-freedom and agreement with the single-threaded form. *)
From Coq Require Import ZArith List String Bool Lia Arith Permutation.
Import ListNotations.
From TD Require Import Model.C20_Apply Model.C20_Sched Proofs.C20_EraseP.
Open Scope string_scope.

Section SchedP.
Variable A : Type.
Variable o : opts.
Variable fn : option (list string) -> tree A -> list (option (tree A)) -> option A.
Notation tree := (tree A).
Notation forest := (forest A).
Notation racc := (racc A).

Ltac inv H := inversion H; subst; clear H.

Lemma bind_ok' {X Y} (r : res X) (f : X -> res Y) y : bind r f = Ok y -> exists x, r = Ok x /\ f x = Ok y.
Proof. destruct r; cbn [bind]; [eauto|discriminate|discriminate]. Qed.

(* ------------------------------------------------------------------ the completion log *)
Lemma log_get_run tasks : forall pi id,
  log_get A (run_tasks A fn tasks pi) id =
  match nth_error tasks id with
  | Some t => if existsb (Nat.eqb id) pi then Some (exec A fn t) else None
  | None => None
  end.
Proof.
  induction pi as [|j pi IH]; intro id; cbn [run_tasks flat_map existsb].
  - cbn. now destruct (nth_error tasks id).
  - fold (run_tasks A fn tasks pi).
    destruct (nth_error tasks j) as [tj|] eqn:Ej; cbn [app log_get].
    + destruct (Nat.eqb j id) eqn:E.
      * apply Nat.eqb_eq in E. subst j. rewrite Ej, Nat.eqb_refl. reflexivity.
      * rewrite IH. rewrite Nat.eqb_sym, E. reflexivity.
    + rewrite IH. destruct (Nat.eqb id j) eqn:E; [|reflexivity].
      apply Nat.eqb_eq in E. subst j. rewrite Ej. reflexivity.
Qed.

Lemma existsb_eqb_in id pi : existsb (Nat.eqb id) pi = true <-> In id pi.
Proof.
  rewrite existsb_exists. split.
  - intros (x & Hin & E). apply Nat.eqb_eq in E. now subst.
  - intro H. exists id. split; [assumption|apply Nat.eqb_refl].
Qed.

Lemma log_get_same tasks pi1 pi2 :
  (forall id, In id pi1 <-> In id pi2) ->
  forall id, log_get A (run_tasks A fn tasks pi1) id = log_get A (run_tasks A fn tasks pi2) id.
Proof.
  intros H id. rewrite !log_get_run. destruct (nth_error tasks id); [|reflexivity].
  destruct (existsb (Nat.eqb id) pi1) eqn:E1, (existsb (Nat.eqb id) pi2) eqn:E2; try reflexivity.
  - apply existsb_eqb_in, H, existsb_eqb_in in E1. congruence.
  - apply existsb_eqb_in, H, existsb_eqb_in in E2. congruence.
Qed.

(* the rebuild looks at the log only through log_get *)
Lemma rebuild_ext l1 l2 :
  (forall id, log_get A l1 id = log_get A l2 id) ->
  forall items out sf lfs acc any, rebuild_items A o l1 out sf items lfs acc any = rebuild_items A o l2 out sf items lfs acc any.
Proof.
  intro H.
  apply (forest_mind A
           (fun t => match t with Node _ _ g => forall out sf lfs acc any, rebuild_items A o l1 out sf g lfs acc any = rebuild_items A o l2 out sf g lfs acc any | _ => True end)
           (fun f => forall out sf lfs acc any, rebuild_items A o l1 out sf f lfs acc any = rebuild_items A o l2 out sf f lfs acc any)).
  - intros; exact I.
  - intros; exact I.
  - intros _ _ f IH. exact IH.
  - intros out sf lfs acc any. destruct lfs; reflexivity.
  - intros k t IHt rest IHr out sf lfs acc any. cbn [rebuild_items].
    destruct lfs as [|l lrest]; [reflexivity|].
    destruct l as [id|sub].
    + rewrite H. destruct (log_get A l2 id) as [[a|]|]; [|apply IHr|reflexivity].
      destruct (of_res (set_item_mt A o acc k (Leaf New (VNew a)))); cbn [mbind]; try reflexivity. apply IHr.
    + match goal with |- mbind ?x _ = mbind ?x _ => destruct x as [out_k| | | |] end; cbn [mbind]; try reflexivity.
      destruct t as [s v|io d im|io im g]; [reflexivity| |].
      * destruct (of_res (set_item_mt A o acc k (nont_apply A o d im out_k))); cbn [mbind]; try reflexivity. apply IHr.
      * destruct (of_res (rebuild_init A o io im g out_k None)) as [init| | | |]; cbn [mbind]; try reflexivity.
        rewrite IHt.
        destruct (rebuild_items A o l2 out_k g g sub init false) as [[acc' any']| | | |]; cbn [mbind]; try reflexivity.
        cbn [fst snd].
        destruct (level_finish A o im g None (Some acc') any') as [v|]; [|apply IHr].
        destruct (of_res (set_item_mt A o acc k v)); cbn [mbind]; try reflexivity. apply IHr.
Qed.

(* mt_order_free: two completion orders that complete the same tasks give the same answer; in particular every
   permutation of a completion order *)
Theorem mt_same_completed con propagate self others out names pi1 pi2 :
  (forall id, In id pi1 <-> In id pi2) ->
  mt_front A o fn con propagate self others out names pi1 = mt_front A o fn con propagate self others out names pi2.
Proof.
  intro H. unfold mt_front. destruct self as [| |so sm sf]; try reflexivity.
  destruct (of_res (flat_items A o (o_default o) con [] sm sf others sf 0)) as [[tasks lfs]| | | |]; cbn [mbind]; try reflexivity.
  cbn [fst snd].
  destruct (of_res (rebuild_init A o so sm sf out names)) as [init| | | |]; cbn [mbind]; try reflexivity.
  rewrite (rebuild_ext _ _ (log_get_same tasks pi1 pi2 H)). reflexivity.
Qed.

Theorem mt_order_free con propagate self others out names pi1 pi2 :
  Permutation pi1 pi2 ->
  mt_front A o fn con propagate self others out names pi1 = mt_front A o fn con propagate self others out names pi2.
Proof.
  intro P. apply mt_same_completed. intro id. split; apply Permutation_in; [assumption|now apply Permutation_sym].
Qed.

(* ------------------------------------------------------------------ thread-pool form = single-threaded form
   for every point of the option lattice (out=, default=, filter_empty None / True / False, names=, overrides, checked,
   call_on_nested, named ...), non-tensor entries, in-place calls and out= included (since the repair of C20-g). *)
Section Fusion.

Definition unopt (sm : meta) (names : option dnames) (acc : option racc) : racc :=
  match acc with Some a => a | None => make_result A o sm names end.

Definition log_ok (log : list (nat * option A)) (base : nat) (tasks : list (task A)) : Prop :=
  forall i t, nth_error tasks i = Some t -> log_get A log (base + i) = Some (exec A fn t).

Lemma log_ok_app log base t1 t2 : log_ok log base (t1 ++ t2) -> log_ok log base t1 /\ log_ok log (base + List.length t1) t2.
Proof.
  intro H. split; intros i t Hi.
  - apply H. rewrite nth_error_app1; [assumption|]. apply nth_error_Some. congruence.
  - rewrite <- Nat.add_assoc. apply H. rewrite nth_error_app2 by lia.
    now replace (List.length t1 + i - List.length t1) with i by lia.
Qed.

(* no non-tensor entry at any depth *)
Fixpoint nont_free (f : forest) : bool :=
  match f with
  | FNil => true
  | FCons _ t r => match t with Leaf _ _ => true | NonT _ _ _ => false | Node _ _ g => nont_free g end && nont_free r
  end.

(* the same outcome, the thread-pool form holding the eagerly created result *)
Definition same_outcome (sm : meta) (names : option dnames) (st : res (option racc * bool)) (mt : mres (racc * bool)) : Prop :=
  match st with
  | Ok (r, a) => mt = MOk (unopt sm names r, a)
  | Raised e => mt = MRaised e
  | Unmodelled => mt = MUnmodelled
  end.

Lemma set_item_meta r k v r' : o_checked o = true -> set_item A o r k v = Ok r' -> r_meta A r' = r_meta A r.
Proof.
  unfold set_item. intros Hc. rewrite Hc. cbn [bind].
  destruct (if o_inplace o then fget A (r_f A r) k else None) as [d|].
  - destruct d as [s x|od dp dm|od dm df]; destruct v as [s1 x1|ov vp vm|ov vm vf]; try discriminate.
    + intro H. now inv H.
    + destruct s1; discriminate.
    + destruct (match ov, od with New, _ => true | Old b, Old a => Z.eqb a b | _, _ => false end); [intro H; now inv H|].
      destruct (m_lock dm); [discriminate|]. intro H. now inv H.
    + destruct od; [|discriminate]. destruct ov; [|discriminate]. destruct (Z.eqb z z0); [|discriminate]. intro H. now inv H.
  - destruct (m_lock (r_meta A r)); [discriminate|]. intro H. now inv H.
Qed.

(* the invariant on the result under construction: when it is written without validation (and not in place) it is not locked *)
Definition lock_inv (r : racc) : Prop := o_inplace o = false -> o_checked o = true -> m_lock (r_meta A r) = false.

Lemma set_item_mt_eq r k v : lock_inv r -> set_item_mt A o r k v = set_item A o r k v.
Proof.
  intro Hl. unfold set_item_mt. destruct (o_checked o) eqn:Ec; [|reflexivity].
  destruct (o_inplace o) eqn:Ei; [reflexivity|]. cbn [andb negb].
  unfold set_item. rewrite Ec, Ei. cbn [bind]. now rewrite (Hl Ei Ec).
Qed.

Lemma level_finish_unopt sm sf names res any :
  level_finish A o sm sf names res any = level_finish A o sm sf names (Some (unopt sm names res)) any.
Proof. unfold level_finish, unopt. destruct res; reflexivity. Qed.

Lemma level_init_props so sm sf out init :
  level_init A o so sm sf out = Ok init ->
  (out <> None -> init <> None) /\ (o_inplace o = true -> init <> None) /\ (forall names, lock_inv (unopt sm names init)).
Proof.
  unfold level_init, lock_inv. destruct (o_inplace o) eqn:Ei.
  - intro H. inv H. repeat split; try discriminate.
  - destruct out as [[| |oo om og]|]; try discriminate.
    + destruct (m_lock om) eqn:El; [discriminate|].
      destruct (match o_bs o with Some b => negb (list_eqb Nat.eqb b (m_bs om)) | None => false end); [discriminate|].
      destruct (o_dev o) as [d|].
      * destruct (odev_eqb d (m_dev om)). { intro H. inv H. repeat split; try discriminate. intros; exact El. }
        destruct (o_checked o); [|discriminate]. destruct d; [|discriminate]. intro H. inv H.
        repeat split; try discriminate. intros; exact El.
      * intro H. inv H. repeat split; try discriminate. intros; exact El.
    + intro H. inv H. repeat split; try congruence; intros; try reflexivity; auto.
Qed.

Definition fusion_at (items : forest) : Prop :=
  forall con prefix sm sf others out names base acc any,
    (o_inplace o = true -> acc <> None) ->
    (out <> None -> acc <> None) ->
    lock_inv (unopt sm names acc) ->
    match flat_items A o (o_default o) con prefix sm sf others items base with
    | Ok (tasks, lfs) =>
        forall log, log_ok log base tasks ->
        same_outcome sm names (apply_items A o fn con prefix sm sf others out names items acc any)
                     (rebuild_items A o log out sf items lfs (unopt sm names acc) any)
        /\ (forall r a, apply_items A o fn con prefix sm sf others out names items acc any = Ok (r, a) ->
               lock_inv (unopt sm names r) /\ (acc <> None -> r <> None))
    | _ => forall x, apply_items A o fn con prefix sm sf others out names items acc any <> Ok x
    end.

(* once the contribution [t] of an item is known, both forms write it and go on with the rest *)
Definition st_step con prefix sm sf others out names k rest acc any (t : option tree) : res (option racc * bool) :=
  match t with
  | Some v => bind (set_item A o (unopt sm names acc) k v) (fun acc' =>
              apply_items A o fn con prefix sm sf others out names rest (Some acc') true)
  | None => apply_items A o fn con prefix sm sf others out names rest acc any
  end.
Definition mt_step log out sf k rest lr sm names acc any (t : option tree) : mres (racc * bool) :=
  match t with
  | Some v => mbind (of_res (set_item_mt A o (unopt sm names acc) k v)) (fun acc' => rebuild_items A o log out sf rest lr acc' true)
  | None => rebuild_items A o log out sf rest lr (unopt sm names acc) any
  end.

Lemma step_fusion con prefix sm sf others out names k rest acc any base' t :
  fusion_at rest ->
  (o_inplace o = true -> acc <> None) ->
  (out <> None -> acc <> None) ->
  lock_inv (unopt sm names acc) ->
  match flat_items A o (o_default o) con prefix sm sf others rest base' with
  | Ok (tr, lr) =>
      forall log, log_ok log base' tr ->
      same_outcome sm names (st_step con prefix sm sf others out names k rest acc any t) (mt_step log out sf k rest lr sm names acc any t)
      /\ (forall r a, st_step con prefix sm sf others out names k rest acc any t = Ok (r, a) ->
             lock_inv (unopt sm names r) /\ (acc <> None -> r <> None))
  | _ => forall x, st_step con prefix sm sf others out names k rest acc any t <> Ok x
  end.
Proof.
  intros IHr Hip Hop Hl. destruct t as [v|]; cbn [st_step mt_step].
  - destruct (set_item A o (unopt sm names acc) k v) as [acc'| |] eqn:Eset; cbn [bind].
    + assert (Hl' : lock_inv (unopt sm names (Some acc'))).
      { intros Hi Hc. cbn [unopt]. rewrite (set_item_meta _ _ _ _ Hc Eset). now apply Hl. }
      assert (Hip2 : o_inplace o = true -> Some acc' <> None) by discriminate.
      assert (Hop2 : out <> None -> Some acc' <> None) by discriminate.
      specialize (IHr con prefix sm sf others out names base' (Some acc') true Hip2 Hop2 Hl').
      destruct (flat_items A o (o_default o) con prefix sm sf others rest base') as [[tr lr]| |]; [|exact IHr|exact IHr].
      intros log Hlog. destruct (IHr log Hlog) as [S1 S2].
      rewrite set_item_mt_eq, Eset by exact Hl. cbn [of_res mbind]. split; [exact S1|].
      intros r a Hra. destruct (S2 r a Hra) as [L1 L2]. split; [exact L1|]. intros _. apply L2. discriminate.
    + destruct (flat_items A o (o_default o) con prefix sm sf others rest base') as [[tr lr]| |]; try (intros x; discriminate).
      intros log _. rewrite set_item_mt_eq, Eset by exact Hl. cbn [of_res mbind same_outcome]. split; [reflexivity|discriminate].
    + destruct (flat_items A o (o_default o) con prefix sm sf others rest base') as [[tr lr]| |]; try (intros x; discriminate).
      intros log _. rewrite set_item_mt_eq, Eset by exact Hl. cbn [of_res mbind same_outcome]. split; [reflexivity|discriminate].
  - specialize (IHr con prefix sm sf others out names base' acc any Hip Hop Hl).
    destruct (flat_items A o (o_default o) con prefix sm sf others rest base') as [[tr lr]| |]; exact IHr.
Qed.


Ltac dflat :=
  cbn [bind fst snd];
  match goal with
  | |- context [flat_items A o (o_default o) ?c ?p ?m ?f ?ot ?it ?b] =>
      destruct (flat_items A o (o_default o) c p m f ot it b) as [[? ?]| |]
  end; cbn [bind fst snd]; try (intros ?x; discriminate).

Lemma fusion : forall items, fusion_at items.
Proof.
  apply (forest_mind A (fun t => match t with Node _ _ g => fusion_at g | _ => True end) fusion_at).
  - intros; exact I.
  - intros; exact I.
  - intros _ _ f IH. exact IH.
  - intros con prefix sm sf others out names base acc any _ _ Hl. cbn [flat_items]. intros log _. cbn [apply_items same_outcome rebuild_items].
    split; [reflexivity|]. intros r a H. inv H. split; [exact Hl|auto].
  - intros k item IHt rest IHr con prefix sm sf others out names base acc any Hip Hop Hl.
    pose proof Hip as Hip'. pose proof Hop as Hop'.
    cbn [flat_items apply_items].
    change (fun t : option tree =>
              match t with
              | Some v => bind (set_item A o match acc with Some a => a | None => make_result A o sm names end k v)
                            (fun acc' => apply_items A o fn con prefix sm sf others out names rest (Some acc') true)
              | None => apply_items A o fn con prefix sm sf others out names rest acc any
              end) with (st_step con prefix sm sf others out names k rest acc any).
    destruct (negb con && negb (o_is_leaf o (kind_of A item))) eqn:Edisp.
    + (* nested dispatch: the operands of the nested level are the same in both forms *)
      destruct (others_node A (o_default o) (stand_in A item) others k) as [others'| |]; cbn [bind]; try (intros x; discriminate).
      (* out[key]: read from the object being written, in both forms *)
      assert (Eout : match out, acc with Some _, Some a => if o_inplace o then out else Some (acc_tree A a) | _, _ => out end
                     = match out with Some _ => if o_inplace o then out else Some (acc_tree A (unopt sm names acc)) | None => None end).
      { destruct out as [X|]; [|reflexivity]. destruct acc as [a|]; [reflexivity|]. exfalso. now apply (Hop ltac:(discriminate)). }
      destruct item as [s v|io d im|io im g].
      * intros x Hx. destruct (out_child A _ k); discriminate.
      * (* a non-tensor entry: no task; both forms write the same copy of self's entry *)
        cbn [bind fst snd List.length app]. rewrite Nat.add_0_r.
        rewrite Eout. clear Eout.
        set (out_now := match out with Some _ => if o_inplace o then out else Some (acc_tree A (unopt sm names acc)) | None => None end).
        destruct (out_child A out_now k) as [out_k| |] eqn:Eok; cbn [bind].
        2:{ dflat. intros log _. split; [|discriminate]. cbn [rebuild_items same_outcome]. fold out_now. rewrite Eok. reflexivity. }
        2:{ dflat. intros log _. split; [|discriminate]. cbn [rebuild_items same_outcome]. fold out_now. rewrite Eok. reflexivity. }
        pose proof (step_fusion con prefix sm sf others out names k rest acc any base (Some (nont_apply A o d im out_k)) IHr Hip' Hop' Hl) as S.
        destruct (flat_items A o (o_default o) con prefix sm sf others rest base) as [[tr lr]| |]; cbn [bind]; [|exact S|exact S].
        intros log Hlog. cbn [fst snd app] in Hlog. destruct (S log Hlog) as [S1 S2]. split; [|exact S2].
        cbn [rebuild_items]. fold out_now. rewrite Eok. cbn [of_res mbind]. exact S1.
      * (* a nested tensordict *)
        rewrite Eout. clear Eout.
        set (out_now := match out with Some _ => if o_inplace o then out else Some (acc_tree A (unopt sm names acc)) | None => None end).
        destruct (out_child A out_now k) as [out_k| |] eqn:Eok; cbn [bind].
        2:{ dflat. dflat. intros log _. split; [|discriminate]. cbn [rebuild_items same_outcome]. fold out_now. rewrite Eok. reflexivity. }
        2:{ dflat. dflat. intros log _. split; [|discriminate]. cbn [rebuild_items same_outcome]. fold out_now. rewrite Eok. reflexivity. }
        assert (Hokn : out_k <> None -> out <> None).
        { intros Hk Ho. subst out. unfold out_now in Eok. cbn [out_child] in Eok. inv Eok. now apply Hk. }
        destruct (level_init A o io im g out_k) as [init| |] eqn:Einit; cbn [bind].
        2:{ dflat. dflat. intros log _. split; [|discriminate]. cbn [rebuild_items same_outcome]. fold out_now. rewrite Eok. cbn [of_res mbind].
            unfold rebuild_init. rewrite Einit. reflexivity. }
        2:{ dflat. dflat. intros log _. split; [|discriminate]. cbn [rebuild_items same_outcome]. fold out_now. rewrite Eok. cbn [of_res mbind].
            unfold rebuild_init. rewrite Einit. reflexivity. }
        destruct (level_init_props io im g out_k init Einit) as (P1 & P2 & P3).
        assert (Hipg : o_inplace o = true -> init <> None) by exact P2.
        assert (Hopg : out_k <> None -> init <> None) by exact P1.
        specialize (IHt false (prefix ++ [k])%list im g others' out_k None base init false Hipg Hopg (P3 None)).
        destruct (flat_items A o (o_default o) false (prefix ++ [k]) im g others' g base) as [[tg lg]| |]; cbn [bind fst snd].
        2:{ intros x Hx. apply bind_ok' in Hx. destruct Hx as (y & Hy & _). apply bind_ok' in Hy. destruct Hy as (z & Hz & _). exact (IHt z Hz). }
        2:{ intros x Hx. apply bind_ok' in Hx. destruct Hx as (y & Hy & _). apply bind_ok' in Hy. destruct Hy as (z & Hz & _). exact (IHt z Hz). }
        assert (Hri : rebuild_init A o io im g out_k None = Ok (unopt im None init)).
        { unfold rebuild_init. rewrite Einit. reflexivity. }
        destruct (apply_items A o fn false (prefix ++ [k]) im g others' out_k None g init false) as [[resn anyn]| |] eqn:Enest; cbn [bind fst snd].
        -- pose proof (step_fusion con prefix sm sf others out names k rest acc any (base + List.length tg)
                         (level_finish A o im g None resn anyn) IHr Hip' Hop' Hl) as S.
           destruct (flat_items A o (o_default o) con prefix sm sf others rest (base + List.length tg)) as [[tr lr]| |]; cbn [bind]; [|exact S|exact S].
           intros log Hlog. cbn [fst snd] in Hlog. apply log_ok_app in Hlog. destruct Hlog as [Hlg1 Hlg2].
           destruct (IHt log Hlg1) as [N1 _]. cbn [same_outcome] in N1.
           destruct (S log Hlg2) as [S1 S2]. split; [|exact S2].
           cbn [rebuild_items]. fold out_now. rewrite Eok. cbn [of_res mbind]. rewrite Hri. cbn [of_res mbind]. rewrite N1. cbn [mbind fst snd].
           rewrite <- level_finish_unopt. unfold mt_step in S1.
           destruct (level_finish A o im g None resn anyn); exact S1.
        -- destruct (flat_items A o (o_default o) con prefix sm sf others rest (base + List.length tg)) as [[tr lr]| |]; cbn [bind];
             try (intros x; discriminate).
           intros log Hlog. cbn [fst snd] in Hlog. apply log_ok_app in Hlog. destruct Hlog as [Hlg1 Hlg2].
           destruct (IHt log Hlg1) as [N1 _]. cbn [same_outcome] in N1. split; [|discriminate].
           cbn [rebuild_items same_outcome]. fold out_now. rewrite Eok. cbn [of_res mbind]. rewrite Hri. cbn [of_res mbind]. rewrite N1. reflexivity.
        -- destruct (flat_items A o (o_default o) con prefix sm sf others rest (base + List.length tg)) as [[tr lr]| |]; cbn [bind];
             try (intros x; discriminate).
           intros log Hlog. cbn [fst snd] in Hlog. apply log_ok_app in Hlog. destruct Hlog as [Hlg1 Hlg2].
           destruct (IHt log Hlg1) as [N1 _]. cbn [same_outcome] in N1. split; [|discriminate].
           cbn [rebuild_items same_outcome]. fold out_now. rewrite Eok. cbn [of_res mbind]. rewrite Hri. cbn [of_res mbind]. rewrite N1. reflexivity.
    + (* fn is called on the item: one task *)
      destruct (others_leaf A (o_default o) others k) as [args| |]; cbn [bind fst snd List.length]; try (intros x; discriminate).
      pose proof (step_fusion con prefix sm sf others out names k rest acc any (base + 1)
                    (option_map (fun a => Leaf New (VNew a)) (fn (keyarg o prefix k) item args)) IHr Hip' Hop' Hl) as S.
      destruct (flat_items A o (o_default o) con prefix sm sf others rest (base + 1)) as [[tr lr]| |]; cbn [bind]; [|exact S|exact S].
      intros log Hlog. cbn [fst snd] in Hlog.
      apply (log_ok_app log base [_] tr) in Hlog. destruct Hlog as [H1 H2]. cbn [List.length] in H2.
      destruct (S log H2) as [S1 S2]. split; [|exact S2].
      cbn [rebuild_items]. specialize (H1 0 _ eq_refl). rewrite Nat.add_0_r in H1. rewrite H1. unfold exec. cbn [tk_key tk_item tk_args].
      destruct (fn (keyarg o prefix k) item args); exact S1.
Qed.


(* mt_equals_st: with every task completed — in whatever order — the thread-pool form returns exactly what the
   single-threaded form returns (result or exception class) whenever all operand lookups succeed; when a lookup fails
   neither form returns. *)
Theorem mt_equals_st : forall con propagate so sm sf others out names pi,
  (forall tasks lfs, flat_items A o (o_default o) con [] sm sf others sf 0 = Ok (tasks, lfs) ->
                     forall id, id < List.length tasks -> In id pi) ->
  match flat_items A o (o_default o) con [] sm sf others sf 0 with
  | Ok _ => mt_front A o fn con propagate (Node so sm sf) others out names pi
            = st_front A o fn con propagate (Node so sm sf) others out names
  | _ => forall r, st_front A o fn con propagate (Node so sm sf) others out names <> MOk r
                   /\ mt_front A o fn con propagate (Node so sm sf) others out names pi <> MOk r
  end.
Proof.
  intros con propagate so sm sf others out names pi Hall.
  unfold mt_front, st_front, front, apply_nest.
  destruct (level_init A o so sm sf out) as [init| |] eqn:Einit.
  - destruct (level_init_props so sm sf out init Einit) as (P1 & P2 & P3).
    pose proof (fusion sf con [] sm sf others out names 0 init false P2 P1 (P3 names)) as F.
    cbn [bind].
    destruct (flat_items A o (o_default o) con [] sm sf others sf 0) as [[tasks lfs]|e|] eqn:Efl.
    + specialize (Hall tasks lfs eq_refl). cbn [of_res mbind fst snd].
      assert (Hri : rebuild_init A o so sm sf out names = Ok (unopt sm names init)).
      { unfold rebuild_init. rewrite Einit. reflexivity. }
      rewrite Hri. cbn [of_res mbind].
      destruct (F (run_tasks A fn tasks pi)) as [S1 _].
      { intros i t Hi. cbn [Nat.add]. rewrite log_get_run, Hi.
        assert (Hin : In i pi) by (apply Hall; apply nth_error_Some; congruence).
        apply existsb_eqb_in in Hin. rewrite Hin. reflexivity. }
      destruct (apply_items A o fn con [] sm sf others out names sf init false) as [[res any']| |]; cbn [same_outcome] in S1;
        rewrite S1; cbn [bind mbind of_res fst snd]; try reflexivity; try (rewrite <- level_finish_unopt; reflexivity).
    + intro r. cbn [of_res mbind]. split; [|discriminate].
      intro H. destruct (apply_items A o fn con [] sm sf others out names sf init false) as [x| |] eqn:Ea; cbn [bind of_res] in H; try discriminate.
      exact (F x eq_refl).
    + intro r. cbn [of_res mbind]. split; [|discriminate].
      intro H. destruct (apply_items A o fn con [] sm sf others out names sf init false) as [x| |] eqn:Ea; cbn [bind of_res] in H; try discriminate.
      exact (F x eq_refl).
  - cbn [bind of_res].
    destruct (flat_items A o (o_default o) con [] sm sf others sf 0) as [[tasks lfs]|e'|]; cbn [of_res mbind].
    + unfold rebuild_init. rewrite Einit. reflexivity.
    + intro r. split; discriminate.
    + intro r. split; discriminate.
  - cbn [bind of_res].
    destruct (flat_items A o (o_default o) con [] sm sf others sf 0) as [[tasks lfs]|e'|]; cbn [of_res mbind].
    + unfold rebuild_init. rewrite Einit. reflexivity.
    + intro r. split; discriminate.
    + intro r. split; discriminate.
Qed.

End Fusion.
End SchedP.
