(* C20 — the thread-pool form: order-freedom and agreement with the single-threaded form. *)
From Coq Require Import ZArith List String Bool Lia Arith Permutation.
Import ListNotations.
From TD Require Import Model.C20_Apply Model.C20_Sched Proofs.C20_EraseP.
Open Scope string_scope.

Section SchedP.
Variable A : Type.
Variable o : opts.
Variable fn : option (list string) -> tree A -> list (option (tree A)) -> option A.
Notation tree := (tree A).
Notation forest := (forest A).
Notation racc := (racc A).

Ltac inv H := inversion H; subst; clear H.

Lemma bind_ok' {X Y} (r : res X) (f : X -> res Y) y : bind r f = Ok y -> exists x, r = Ok x /\ f x = Ok y.
Proof. destruct r; cbn [bind]; [eauto|discriminate|discriminate]. Qed.

(* ------------------------------------------------------------------ the completion log *)
Lemma log_get_run tasks : forall pi id,
  log_get A (run_tasks A fn tasks pi) id =
  match nth_error tasks id with
  | Some t => if existsb (Nat.eqb id) pi then Some (exec A fn t) else None
  | None => None
  end.
Proof.
  induction pi as [|j pi IH]; intro id; cbn [run_tasks flat_map existsb].
  - cbn. now destruct (nth_error tasks id).
  - fold (run_tasks A fn tasks pi).
    destruct (nth_error tasks j) as [tj|] eqn:Ej; cbn [app log_get].
    + destruct (Nat.eqb j id) eqn:E.
      * apply Nat.eqb_eq in E. subst j. rewrite Ej, Nat.eqb_refl. reflexivity.
      * rewrite IH. rewrite Nat.eqb_sym, E. reflexivity.
    + rewrite IH. destruct (Nat.eqb id j) eqn:E; [|reflexivity].
      apply Nat.eqb_eq in E. subst j. rewrite Ej. reflexivity.
Qed.

Lemma existsb_eqb_in id pi : existsb (Nat.eqb id) pi = true <-> In id pi.
Proof.
  rewrite existsb_exists. split.
  - intros (x & Hin & E). apply Nat.eqb_eq in E. now subst.
  - intro H. exists id. split; [assumption|apply Nat.eqb_refl].
Qed.

Lemma log_get_same tasks pi1 pi2 :
  (forall id, In id pi1 <-> In id pi2) ->
  forall id, log_get A (run_tasks A fn tasks pi1) id = log_get A (run_tasks A fn tasks pi2) id.
Proof.
  intros H id. rewrite !log_get_run. destruct (nth_error tasks id); [|reflexivity].
  destruct (existsb (Nat.eqb id) pi1) eqn:E1, (existsb (Nat.eqb id) pi2) eqn:E2; try reflexivity.
  - apply existsb_eqb_in, H, existsb_eqb_in in E1. congruence.
  - apply existsb_eqb_in, H, existsb_eqb_in in E2. congruence.
Qed.

(* the rebuild looks at the log only through log_get *)
Lemma rebuild_ext l1 l2 names om :
  (forall id, log_get A l1 id = log_get A l2 id) ->
  forall items lfs acc any, rebuild_items A o l1 names om items lfs acc any = rebuild_items A o l2 names om items lfs acc any.
Proof.
  intro H.
  apply (forest_mind A
           (fun t => match t with Node _ _ g => forall lfs acc any, rebuild_items A o l1 names om g lfs acc any = rebuild_items A o l2 names om g lfs acc any | _ => True end)
           (fun f => forall lfs acc any, rebuild_items A o l1 names om f lfs acc any = rebuild_items A o l2 names om f lfs acc any)).
  - intros; exact I.
  - intros; exact I.
  - intros _ _ f IH. exact IH.
  - intros lfs acc any. destruct lfs; reflexivity.
  - intros k t IHt rest IHr lfs acc any. cbn [rebuild_items].
    destruct lfs as [|l lrest]; [reflexivity|].
    destruct l as [id|sub].
    + rewrite H. destruct (log_get A l2 id) as [[a|]|]; [|apply IHr|reflexivity].
      destruct (of_res (set_item_mt A o acc k (Leaf New (VNew a)))); cbn [mbind]; try reflexivity. apply IHr.
    + destruct t as [s v|io d im|io im g]; [reflexivity| |].
      * destruct (o_inplace o).
        -- destruct (of_res (set_item_mt A o acc k (NonT io d im))); cbn [mbind]; try reflexivity. apply IHr.
        -- destruct om; [reflexivity|].
           destruct (of_res (set_item_mt A o acc k (NonT New d (result_meta o im names)))); cbn [mbind]; try reflexivity. apply IHr.
      * destruct (of_res (rebuild_init A o names io im g (if om then Some acc else None))) as [init| | | |]; cbn [mbind]; try reflexivity.
        rewrite IHt.
        destruct (rebuild_items A o l2 names om g sub init false) as [[acc' any']| | | |]; cbn [mbind]; try reflexivity.
        cbn [fst snd].
        destruct (om && negb (o_inplace o)).
        -- destruct (negb (fe_true o && negb any')); [reflexivity|apply IHr].
        -- destruct (negb (fe_true o && negb any')); [|apply IHr].
           destruct (of_res (set_item_mt A o acc k (acc_tree A acc'))); cbn [mbind]; try reflexivity. apply IHr.
Qed.

(* mt_order_free: two completion orders that complete the same tasks give the same answer; in particular every
   permutation of a completion order *)
Theorem mt_same_completed con propagate self others out names pi1 pi2 :
  (forall id, In id pi1 <-> In id pi2) ->
  mt_front A o fn con propagate self others out names pi1 = mt_front A o fn con propagate self others out names pi2.
Proof.
  intro H. unfold mt_front. destruct self as [| |so sm sf]; try reflexivity.
  destruct (of_res (flat_items A o (o_default o) con [] sm sf others sf 0)) as [[tasks lfs]| | | |]; cbn [mbind]; try reflexivity.
  cbn [fst snd].
  destruct (of_res match out with
                   | Some (Leaf _ _) => Raised EAttr
                   | Some (NonT _ _ _) => Unmodelled
                   | Some (Node oo om og) => Ok (Some (mkAcc A oo om og))
                   | None => Ok None
                   end) as [oa| | | |]; cbn [mbind]; try reflexivity.
  destruct (of_res (rebuild_init A o names so sm sf oa)) as [init| | | |]; cbn [mbind]; try reflexivity.
  rewrite (rebuild_ext _ _ names _ (log_get_same tasks pi1 pi2 H)). reflexivity.
Qed.

Theorem mt_order_free con propagate self others out names pi1 pi2 :
  Permutation pi1 pi2 ->
  mt_front A o fn con propagate self others out names pi1 = mt_front A o fn con propagate self others out names pi2.
Proof.
  intro P. apply mt_same_completed. intro id. split; apply Permutation_in; [assumption|now apply Permutation_sym].
Qed.


(* ------------------------------------------------------------------ thread-pool form = single-threaded form
   domain: no out= (S16, C20-d), no default= (S15), filter_empty is True or False (C12-b), no names= (C12-c),
   and — in place — no non-tensor entry (the thread-pool form re-sets the entry itself, the other form a copy of it). *)
Section Fusion.
Variable b : bool.
Hypothesis Hfe : o_fe o = Some b.
Hypothesis Hdef : o_default o = false.

Definition unopt (sm : meta) (acc : option racc) : racc :=
  match acc with Some a => a | None => make_result A o sm None end.

Definition log_ok (log : list (nat * option A)) (base : nat) (tasks : list (task A)) : Prop :=
  forall i t, nth_error tasks i = Some t -> log_get A log (base + i) = Some (exec A fn t).

Lemma log_ok_app log base t1 t2 : log_ok log base (t1 ++ t2) -> log_ok log base t1 /\ log_ok log (base + List.length t1) t2.
Proof.
  intro H. split; intros i t Hi.
  - apply H. rewrite nth_error_app1; [assumption|]. apply nth_error_Some. congruence.
  - rewrite <- Nat.add_assoc. apply H. rewrite nth_error_app2 by lia.
    now replace (List.length t1 + i - List.length t1) with i by lia.
Qed.

(* no non-tensor entry at any depth *)
Fixpoint nont_free (f : forest) : bool :=
  match f with
  | FNil => true
  | FCons _ t r => match t with Leaf _ _ => true | NonT _ _ _ => false | Node _ _ g => nont_free g end && nont_free r
  end.

(* the same outcome, the thread-pool form holding the eagerly created result *)
Definition same_outcome (sm : meta) (st : res (option racc * bool)) (mt : mres (racc * bool)) : Prop :=
  match st with
  | Ok (r, a) => mt = MOk (unopt sm r, a)
  | Raised e => mt = MRaised e
  | Unmodelled => mt = MUnmodelled
  end.

Lemma set_item_meta r k v r' : o_checked o = true -> set_item A o r k v = Ok r' -> r_meta A r' = r_meta A r.
Proof.
  unfold set_item. intros Hc. rewrite Hc. cbn [bind].
  destruct (if o_inplace o then fget A (r_f A r) k else None) as [d|].
  - destruct d as [s x|od dp dm|od dm df]; destruct v as [s1 x1|ov vp vm|ov vm vf]; try discriminate.
    + intro H. now inv H.
    + destruct s1; discriminate.
    + destruct (m_lock dm); [discriminate|]. intro H. now inv H.
    + destruct od; [|discriminate]. destruct ov; [|discriminate]. destruct (Z.eqb z z0); [|discriminate]. intro H. now inv H.
  - destruct (m_lock (r_meta A r)); [discriminate|]. intro H. now inv H.
Qed.

(* the invariant on the result under construction: when it is a new object written without validation it is not locked *)
Definition lock_inv (r : racc) : Prop := o_inplace o = false -> o_checked o = true -> m_lock (r_meta A r) = false.

Lemma set_item_mt_eq r k v : lock_inv r -> set_item_mt A o r k v = set_item A o r k v.
Proof.
  intro Hl. unfold set_item_mt. destruct (o_checked o) eqn:Ec; [|reflexivity].
  destruct (o_inplace o) eqn:Ei; [reflexivity|]. cbn [andb negb].
  unfold set_item. rewrite Ec, Ei. cbn [bind]. now rewrite (Hl Ei Ec).
Qed.

Lemma others_node_nodflt cm cf cm' cf' others k :
  others_node A false cm cf others k = others_node A false cm' cf' others k.
Proof.
  induction others as [|ot r IH]; cbn [others_node]; [reflexivity|].
  destruct (oget A ot k) as [[t|]| |]; cbn [bind]; try reflexivity. now rewrite IH.
Qed.

Definition fusion_at (items : forest) : Prop :=
  forall con prefix sm sf others base acc any,
    (o_inplace o = true -> nont_free items = true /\ acc <> None) ->
    lock_inv (unopt sm acc) ->
    match flat_items A o false con prefix sm sf others items base with
    | Ok (tasks, lfs) =>
        forall log, log_ok log base tasks ->
        same_outcome sm (apply_items A o fn con prefix sm sf others None None items acc any)
                     (rebuild_items A o log None false items lfs (unopt sm acc) any)
        /\ (forall r a, apply_items A o fn con prefix sm sf others None None items acc any = Ok (r, a) ->
               lock_inv (unopt sm r) /\ (acc <> None -> r <> None))
    | _ => forall x, apply_items A o fn con prefix sm sf others None None items acc any <> Ok x
    end.

Lemma level_finish_fe im g resn anyn :
  level_finish A o im g None resn anyn = if fe_true o && negb anyn then None else Some (acc_tree A (unopt im resn)).
Proof. unfold level_finish, fe_true, unopt. rewrite Hfe. destruct b, anyn; reflexivity. Qed.

(* once the contribution [t] of an item is known, both forms write it and go on with the rest *)
Definition st_step con prefix sm sf others k rest acc any (t : option tree) : res (option racc * bool) :=
  match t with
  | Some v => bind (set_item A o (unopt sm acc) k v) (fun acc' =>
              apply_items A o fn con prefix sm sf others None None rest (Some acc') true)
  | None => apply_items A o fn con prefix sm sf others None None rest acc any
  end.
Definition mt_step log k rest lr sm acc any (t : option tree) : mres (racc * bool) :=
  match t with
  | Some v => mbind (of_res (set_item_mt A o (unopt sm acc) k v)) (fun acc' => rebuild_items A o log None false rest lr acc' true)
  | None => rebuild_items A o log None false rest lr (unopt sm acc) any
  end.

Lemma step_fusion con prefix sm sf others k rest acc any base' t :
  fusion_at rest ->
  (o_inplace o = true -> nont_free rest = true /\ acc <> None) ->
  lock_inv (unopt sm acc) ->
  match flat_items A o false con prefix sm sf others rest base' with
  | Ok (tr, lr) =>
      forall log, log_ok log base' tr ->
      same_outcome sm (st_step con prefix sm sf others k rest acc any t) (mt_step log k rest lr sm acc any t)
      /\ (forall r a, st_step con prefix sm sf others k rest acc any t = Ok (r, a) ->
             lock_inv (unopt sm r) /\ (acc <> None -> r <> None))
  | _ => forall x, st_step con prefix sm sf others k rest acc any t <> Ok x
  end.
Proof.
  intros IHr Hip Hl. destruct t as [v|]; cbn [st_step mt_step].
  - destruct (set_item A o (unopt sm acc) k v) as [acc'| |] eqn:Eset; cbn [bind].
    + assert (Hl' : lock_inv (unopt sm (Some acc'))).
      { intros Hi Hc. cbn [unopt]. rewrite (set_item_meta _ _ _ _ Hc Eset). now apply Hl. }
      assert (Hip2 : o_inplace o = true -> nont_free rest = true /\ Some acc' <> None).
      { intro Hi. split; [apply (Hip Hi)|discriminate]. }
      specialize (IHr con prefix sm sf others base' (Some acc') true Hip2 Hl').
      destruct (flat_items A o false con prefix sm sf others rest base') as [[tr lr]| |]; [|exact IHr|exact IHr].
      intros log Hlog. destruct (IHr log Hlog) as [S1 S2].
      rewrite set_item_mt_eq, Eset by exact Hl. cbn [of_res mbind]. split; [exact S1|].
      intros r a Hra. destruct (S2 r a Hra) as [L1 L2]. split; [exact L1|]. intros _. apply L2. discriminate.
    + destruct (flat_items A o false con prefix sm sf others rest base') as [[tr lr]| |]; try (intros x; discriminate).
      intros log _. rewrite set_item_mt_eq, Eset by exact Hl. cbn [of_res mbind same_outcome]. split; [reflexivity|discriminate].
    + destruct (flat_items A o false con prefix sm sf others rest base') as [[tr lr]| |]; try (intros x; discriminate).
      intros log _. rewrite set_item_mt_eq, Eset by exact Hl. cbn [of_res mbind same_outcome]. split; [reflexivity|discriminate].
  - specialize (IHr con prefix sm sf others base' acc any Hip Hl).
    destruct (flat_items A o false con prefix sm sf others rest base') as [[tr lr]| |]; exact IHr.
Qed.

Lemma fusion : forall items, fusion_at items.
Proof.
  apply (forest_mind A (fun t => match t with Node _ _ g => fusion_at g | _ => True end) fusion_at).
  - intros; exact I.
  - intros; exact I.
  - intros _ _ f IH. exact IH.
  - intros con prefix sm sf others base acc any _ Hl. cbn [flat_items]. intros log _. cbn [apply_items same_outcome rebuild_items].
    split; [reflexivity|]. intros r a H. inv H. split; [exact Hl|auto].
  - intros k item IHt rest IHr con prefix sm sf others base acc any Hip Hl.
    assert (Hip' : o_inplace o = true -> nont_free rest = true /\ acc <> None).
    { intro Hi. destruct (Hip Hi) as [Hnf Ha]. cbn [nont_free] in Hnf. apply andb_true_iff in Hnf. tauto. }
    cbn [flat_items apply_items]. rewrite Hdef.
    change (fun t : option tree =>
              match t with
              | Some v => bind (set_item A o match acc with Some a => a | None => make_result A o sm None end k v)
                            (fun acc' => apply_items A o fn con prefix sm sf others None None rest (Some acc') true)
              | None => apply_items A o fn con prefix sm sf others None None rest acc any
              end) with (st_step con prefix sm sf others k rest acc any).
    destruct (negb con && negb (o_is_leaf o (kind_of A item))) eqn:Edisp.
    + (* nested dispatch *)
      match goal with |- context [others_node A false (r_meta A ?c) (r_f A ?c) others k] =>
        rewrite (others_node_nodflt (r_meta A c) (r_f A c) sm sf others k) end.
      destruct (others_node A false sm sf others k) as [others'| |]; cbn [bind]; try (intros x; discriminate).
      destruct item as [s v|io d im|io im g].
      * intros x; discriminate.
      * (* a non-tensor entry: no task *)
        cbn [out_child bind fst snd List.length app]. rewrite Nat.add_0_r.
        pose proof (step_fusion con prefix sm sf others k rest acc any base (Some (nont_apply A o d im None)) IHr Hip' Hl) as S.
        destruct (flat_items A o false con prefix sm sf others rest base) as [[tr lr]| |]; cbn [bind]; [|exact S|exact S].
        intros log Hlog. cbn [fst snd app] in Hlog. destruct (S log Hlog) as [S1 S2]. split; [|exact S2].
        cbn [rebuild_items].
        destruct (o_inplace o) eqn:Ei.
        { exfalso. destruct (Hip eq_refl) as [Hnf _]. cbn [nont_free] in Hnf. discriminate. }
        exact S1.
      * (* a nested tensordict *)
        assert (Hipg : o_inplace o = true -> nont_free g = true /\ (if o_inplace o then Some (mkAcc A io im g) else None) <> None).
        { intro Hi. destruct (Hip Hi) as [Hnf _]. cbn [nont_free] in Hnf. apply andb_true_iff in Hnf. rewrite Hi. split; [tauto|discriminate]. }
        assert (Hinit : level_init A o io im g None = Ok (if o_inplace o then Some (mkAcc A io im g) else None)).
        { unfold level_init. destruct (o_inplace o); reflexivity. }
        assert (Hlg : lock_inv (unopt im (if o_inplace o then Some (mkAcc A io im g) else None))).
        { intros Hi _. rewrite Hi. reflexivity. }
        specialize (IHt false (prefix ++ [k])%list im g others' base (if o_inplace o then Some (mkAcc A io im g) else None) false Hipg Hlg).
        cbn [out_child bind]. rewrite Hinit. cbn [bind].
        destruct (flat_items A o false false (prefix ++ [k]) im g others' g base) as [[tg lg]| |]; cbn [bind fst snd].
        2:{ intros x Hx. apply bind_ok' in Hx. destruct Hx as (y & Hy & _). apply bind_ok' in Hy. destruct Hy as (z & Hz & _). exact (IHt z Hz). }
        2:{ intros x Hx. apply bind_ok' in Hx. destruct Hx as (y & Hy & _). apply bind_ok' in Hy. destruct Hy as (z & Hz & _). exact (IHt z Hz). }
        destruct (apply_items A o fn false (prefix ++ [k]) im g others' None None g (if o_inplace o then Some (mkAcc A io im g) else None) false)
          as [[resn anyn]| |] eqn:Enest; cbn [bind fst snd].
        -- pose proof (step_fusion con prefix sm sf others k rest acc any (base + List.length tg)
                         (level_finish A o im g None resn anyn) IHr Hip' Hl) as S.
           destruct (flat_items A o false con prefix sm sf others rest (base + List.length tg)) as [[tr lr]| |]; cbn [bind]; [|exact S|exact S].
           intros log Hlog. cbn [fst snd] in Hlog. apply log_ok_app in Hlog. destruct Hlog as [Hlg1 Hlg2].
           destruct (IHt log Hlg1) as [N1 _]. cbn [same_outcome] in N1.
           destruct (S log Hlg2) as [S1 S2]. split; [|exact S2].
           cbn [rebuild_items].
           assert (Hri : rebuild_init A o None io im g None = Ok (unopt im (if o_inplace o then Some (mkAcc A io im g) else None))).
           { unfold rebuild_init. destruct (o_inplace o); reflexivity. }
           rewrite Hri. cbn [of_res mbind]. rewrite N1. cbn [mbind fst snd andb].
           rewrite level_finish_fe in S1 |- *.
           destruct (fe_true o && negb anyn); cbn [negb] in *; exact S1.
        -- destruct (flat_items A o false con prefix sm sf others rest (base + List.length tg)) as [[tr lr]| |]; cbn [bind];
             try (intros x; discriminate).
           intros log Hlog. cbn [fst snd] in Hlog. apply log_ok_app in Hlog. destruct Hlog as [Hlg1 Hlg2].
           destruct (IHt log Hlg1) as [N1 _]. cbn [same_outcome] in N1. split; [|discriminate].
           cbn [rebuild_items same_outcome].
           assert (Hri : rebuild_init A o None io im g None = Ok (unopt im (if o_inplace o then Some (mkAcc A io im g) else None))).
           { unfold rebuild_init. destruct (o_inplace o); reflexivity. }
           rewrite Hri. cbn [of_res mbind]. rewrite N1. reflexivity.
        -- destruct (flat_items A o false con prefix sm sf others rest (base + List.length tg)) as [[tr lr]| |]; cbn [bind];
             try (intros x; discriminate).
           intros log Hlog. cbn [fst snd] in Hlog. apply log_ok_app in Hlog. destruct Hlog as [Hlg1 Hlg2].
           destruct (IHt log Hlg1) as [N1 _]. cbn [same_outcome] in N1. split; [|discriminate].
           cbn [rebuild_items same_outcome].
           assert (Hri : rebuild_init A o None io im g None = Ok (unopt im (if o_inplace o then Some (mkAcc A io im g) else None))).
           { unfold rebuild_init. destruct (o_inplace o); reflexivity. }
           rewrite Hri. cbn [of_res mbind]. rewrite N1. reflexivity.
    + (* fn is called on the item: one task *)
      destruct (others_leaf A false others k) as [args| |]; cbn [bind fst snd List.length]; try (intros x; discriminate).
      pose proof (step_fusion con prefix sm sf others k rest acc any (base + 1)
                    (option_map (fun a => Leaf New (VNew a)) (fn (keyarg o prefix k) item args)) IHr Hip' Hl) as S.
      destruct (flat_items A o false con prefix sm sf others rest (base + 1)) as [[tr lr]| |]; cbn [bind]; [|exact S|exact S].
      intros log Hlog. cbn [fst snd] in Hlog.
      apply (log_ok_app log base [_] tr) in Hlog. destruct Hlog as [H1 H2]. cbn [List.length] in H2.
      destruct (S log H2) as [S1 S2]. split; [|exact S2].
      cbn [rebuild_items]. specialize (H1 0 _ eq_refl). rewrite Nat.add_0_r in H1. rewrite H1. unfold exec. cbn [tk_key tk_item tk_args].
      destruct (fn (keyarg o prefix k) item args); exact S1.
Qed.


(* mt_equals_st: with every task completed — in whatever order — the thread-pool form returns exactly what the
   single-threaded form returns (result, exception class) whenever all operand lookups succeed; when a lookup fails
   neither form returns. *)
Theorem mt_equals_st : forall con propagate so sm sf others pi,
  (o_inplace o = true -> nont_free sf = true) ->
  (forall tasks lfs, flat_items A o false con [] sm sf others sf 0 = Ok (tasks, lfs) ->
                     forall id, id < List.length tasks -> In id pi) ->
  match flat_items A o false con [] sm sf others sf 0 with
  | Ok _ => mt_front A o fn con propagate (Node so sm sf) others None None pi
            = st_front A o fn con propagate (Node so sm sf) others None None
  | _ => forall r, st_front A o fn con propagate (Node so sm sf) others None None <> MOk r
                   /\ mt_front A o fn con propagate (Node so sm sf) others None None pi <> MOk r
  end.
Proof.
  intros con propagate so sm sf others pi Hnf Hall.
  set (init := if o_inplace o then Some (mkAcc A so sm sf) else None).
  assert (Hip : o_inplace o = true -> nont_free sf = true /\ init <> None).
  { intro Hi. split; [now apply Hnf|]. unfold init. rewrite Hi. discriminate. }
  assert (Hl : lock_inv (unopt sm init)).
  { intros Hi _. unfold init. rewrite Hi. reflexivity. }
  pose proof (fusion sf con [] sm sf others 0 init false Hip Hl) as F.
  unfold mt_front, st_front, front, apply_nest. rewrite Hdef.
  assert (Hinit : level_init A o so sm sf None = Ok init).
  { unfold level_init, init. destruct (o_inplace o); reflexivity. }
  rewrite Hinit. cbn [bind].
  destruct (flat_items A o false con [] sm sf others sf 0) as [[tasks lfs]|e|] eqn:Efl.
  - specialize (Hall tasks lfs eq_refl). cbn [of_res mbind fst snd].
    assert (Hri : rebuild_init A o None so sm sf None = Ok (unopt sm init)).
    { unfold rebuild_init, init. destruct (o_inplace o); reflexivity. }
    rewrite Hri. cbn [of_res mbind is_none negb].
    destruct (F (run_tasks A fn tasks pi)) as [S1 _].
    { intros i t Hi. cbn [Nat.add]. rewrite log_get_run, Hi.
      assert (Hin : In i pi) by (apply Hall; apply nth_error_Some; congruence).
      apply existsb_eqb_in in Hin. rewrite Hin. reflexivity. }
    destruct (apply_items A o fn con [] sm sf others None None sf init false) as [[res any']| |]; cbn [same_outcome] in S1;
      rewrite S1; cbn [bind mbind of_res fst snd]; try reflexivity.
    rewrite orb_false_r, level_finish_fe. reflexivity.
  - intro r. cbn [of_res mbind]. split; [|discriminate].
    intro H. destruct (apply_items A o fn con [] sm sf others None None sf init false) as [x| |] eqn:Ea; cbn [bind of_res] in H; try discriminate.
    exact (F x eq_refl).
  - intro r. cbn [of_res mbind]. split; [|discriminate].
    intro H. destruct (apply_items A o fn con [] sm sf others None None sf init false) as [x| |] eqn:Ea; cbn [bind of_res] in H; try discriminate.
    exact (F x eq_refl).
Qed.

End Fusion.
End SchedP.
