(* C04 — the key / item / value views of the model list exactly the entries of the plain nested dict, for every
   include_nested x leaves_only x sort x is_leaf combination; membership, length, emptiness, to_dict. *)
From Coq Require Import ZArith List String Bool Lia Sorting.Permutation.
Import ListNotations.
From TD Require Import Model.Keys Proofs.KeysP Model.C04_Tree Model.C04_Ops Model.C04_Views Spec.C04_NestedDict
     Proofs.C04_AssocP Proofs.C04_CoreP.
Open Scope string_scope.
Open Scope list_scope.

Definition absI (pv : list string * tree) : path * nd := (fst pv, abs (snd pv)).

Lemma is_leaf_abs nt v : nd_is_leaf nt (abs v) = is_leafb nt v.
Proof. destruct v as [[|] z|es]; reflexivity. Qed.

(* ---- items: the model's traversal is the spec's document order ---- *)
Lemma items_pre_refines : forall lo nt v prefix,
  map absI (items_pre lo nt prefix v) = nd_entries true lo nt prefix (abs v).
Proof.
  intros lo nt. induction v as [k z|es IH] using tree_ind2; intros prefix; [destruct k; reflexivity|].
  rewrite abs_Node. cbn [items_pre nd_entries]. induction IH as [|[k w] r Hw Hr IHr]; [reflexivity|].
  cbn [absE]. rewrite !map_app, IHr. cbn in Hw. rewrite is_leaf_abs. f_equal; [|f_equal].
  - destruct (negb lo || is_leafb nt w); reflexivity.
  - destruct w as [lk z|sub]; [destruct lk; reflexivity|]. exact (Hw (prefix ++ [k])).
Qed.

Lemma items_flat_refines : forall (lo nt : bool) (es : ents) (prefix : list string),
  map absI (map (fun kv : string * tree => (app prefix (cons (fst kv) nil), snd kv)) (if lo then filter (fun kv => is_leafb nt (snd kv)) es else es))
  = nd_entries false lo nt prefix (ND (absE es)).
Proof.
  intros lo nt es prefix. cbn [nd_entries]. induction es as [|[k w] r IH]; [destruct lo; reflexivity|].
  cbn [absE]. rewrite is_leaf_abs. destruct lo; cbn [filter negb orb fst snd].
  - destruct (is_leafb nt w); cbn [map app]; [f_equal; exact IH|exact IH].
  - cbn [map app]. f_equal. exact IH.
Qed.

Theorem items_unsorted_refines inc lo nt es :
  map absI (items_unsorted inc lo nt es) = nd_view inc lo nt (absE es).
Proof.
  unfold items_unsorted, nd_view. destruct inc.
  - rewrite items_pre_refines. now rewrite abs_Node.
  - rewrite <- (items_flat_refines lo nt es []). reflexivity.
Qed.

(* ---- keys: same entries, children before their node ---- *)
Lemma iter_helper_perm : forall lo nt v prefix,
  Permutation (iter_helper lo nt prefix v) (map fst (items_pre lo nt prefix v)).
Proof.
  intros lo nt. induction v as [k z|es IH] using tree_ind2; intros prefix; [constructor|].
  cbn [iter_helper items_pre]. induction IH as [|[k w] r Hw Hr IHr]; [constructor|].
  rewrite !map_app. rewrite app_assoc. rewrite (app_assoc (map fst _)). apply Permutation_app; [|exact IHr].
  etransitivity; [apply Permutation_app_comm|]. apply Permutation_app.
  - destruct (negb lo || is_leafb nt w); constructor. constructor.
  - destruct w as [lk z|sub]; [constructor|]. exact (Hw (prefix ++ [k])).
Qed.

Theorem keys_unsorted_perm inc lo nt es :
  Permutation (keys_unsorted inc lo nt es) (map fst (items_unsorted inc lo nt es)).
Proof.
  unfold keys_unsorted, items_unsorted. destruct inc; [apply iter_helper_perm|].
  rewrite map_map. cbn [fst]. apply Permutation_refl.
Qed.

(* ---- sort=True: a permutation whose names are non-decreasing ---- *)
Lemma insert_by_perm {A} (name : A -> string) x l : Permutation (insert_by name x l) (x :: l).
Proof.
  induction l as [|y r IH]; [apply Permutation_refl|]. cbn. destruct (String.leb (name x) (name y)); [apply Permutation_refl|].
  etransitivity; [apply perm_skip; exact IH|apply perm_swap].
Qed.

Lemma sort_by_perm {A} (name : A -> string) l : Permutation (sort_by name l) l.
Proof.
  induction l as [|x r IH]; [constructor|]. cbn. etransitivity; [apply insert_by_perm|]. now apply perm_skip.
Qed.

Lemma insert_by_sorted {A} (name : A -> string) x l :
  names_sorted (map name l) -> names_sorted (map name (insert_by name x l)).
Proof.
  induction l as [|y r IH]; intros S; [cbn; auto|]. cbn [insert_by].
  destruct (String.leb (name x) (name y)) eqn:E.
  - cbn [map names_sorted]. split; [exact E|exact S].
  - cbn [map names_sorted] in S. destruct S as [S1 S2]. cbn [map]. specialize (IH S2).
    cbn [names_sorted]. split; [|exact IH].
    destruct r as [|z r2]; cbn [insert_by map].
    + destruct (String.leb_total (name x) (name y)) as [H|H]; [congruence|exact H].
    + destruct (String.leb (name x) (name z)).
      * destruct (String.leb_total (name x) (name y)) as [H|H]; [congruence|exact H].
      * exact S1.
Qed.

Lemma sort_by_sorted {A} (name : A -> string) l : names_sorted (map name (sort_by name l)).
Proof. induction l as [|x r IH]; [exact I|]. cbn. now apply insert_by_sorted. Qed.

Lemma sort_name_dotted p : sort_name p = dotted p.
Proof. reflexivity. Qed.

(* ---- every flag combination at once ---- *)
Theorem items_view_spec inc lo so nt es :
  Permutation (map absI (items_view inc lo so nt es)) (nd_view inc lo nt (absE es))
  /\ (so = false -> map absI (items_view inc lo so nt es) = nd_view inc lo nt (absE es))
  /\ (so = true -> names_sorted (map (fun pv => dotted (fst pv)) (items_view inc lo so nt es))).
Proof.
  unfold items_view. rewrite <- items_unsorted_refines. destruct so; repeat split; try discriminate; try reflexivity.
  - apply Permutation_map. apply sort_by_perm.
  - intros _. exact (sort_by_sorted (fun kv => sort_name (fst kv)) _).
Qed.

Theorem keys_view_spec inc lo so nt es :
  Permutation (keys_view inc lo so nt es) (map fst (nd_view inc lo nt (absE es)))
  /\ (so = true -> names_sorted (map dotted (keys_view inc lo so nt es))).
Proof.
  assert (P : Permutation (keys_unsorted inc lo nt es) (map fst (nd_view inc lo nt (absE es)))).
  { rewrite <- items_unsorted_refines. rewrite map_map. cbn [absI fst]. apply keys_unsorted_perm. }
  unfold keys_view. destruct so; split; try discriminate; try exact P.
  - etransitivity; [apply sort_by_perm|exact P].
  - intros _. exact (sort_by_sorted sort_name _).
Qed.

Theorem len_view_spec inc lo so nt es :
  len_view inc lo so nt es = List.length (nd_view inc lo nt (absE es)).
Proof.
  unfold len_view. destruct (keys_view_spec inc lo so nt es) as [P _].
  rewrite (Permutation_length P). now rewrite map_length.
Qed.

(* values: the values of the items *)
Theorem values_view_spec inc lo so nt es :
  values_view inc lo so nt es = Ok (map snd (items_view inc lo so nt es)).
Proof. reflexivity. Qed.

(* emptiness and to_dict *)
Theorem is_empty_spec es : is_empty es = negb (nd_has_leaf (ND (absE es))).
Proof. unfold is_empty. rewrite <- abs_Node. now rewrite has_leaf_abs. Qed.

Theorem to_dict_spec es : absE (to_dict es) = absE es.
Proof. reflexivity. Qed.

(* ---- membership: an entry is listed by the nested, non-leaves-only view iff get finds it ---- *)
Lemma items_pre_cons lo nt prefix k w r :
  items_pre lo nt prefix (Node ((k, w) :: r)) =
  (if negb lo || is_leafb nt w then [(prefix ++ [k], w)] else [])
  ++ (match w with Node _ => items_pre lo nt (prefix ++ [k]) w | Leaf _ _ => [] end)
  ++ items_pre lo nt prefix (Node r).
Proof. reflexivity. Qed.

Lemma get_tuple_head_in : forall a p es d v, get_tuple (a :: p) es d = GVal v -> In a (map fst es).
Proof.
  intros a p es d v G. destruct (aget a es) as [w|] eqn:A.
  - apply aget_Some_in in A. apply (in_map fst) in A. exact A.
  - destruct p; [rewrite get_tuple_1 in G|rewrite get_tuple_2 in G]; rewrite A in G; destruct d; discriminate.
Qed.

Lemma get_tuple_skip : forall a p k w r d, a <> k -> get_tuple (a :: p) ((k, w) :: r) d = get_tuple (a :: p) r d.
Proof.
  intros a p k w r d N. destruct p; [rewrite !get_tuple_1|rewrite !get_tuple_2]; cbn [aget];
    destruct (String.eqb_spec a k); try contradiction; reflexivity.
Qed.

Lemma items_pre_in : forall lo nt v0,
  match v0 with
  | Leaf _ _ => True
  | Node es => wfE es -> forall pre q v,
      In (q, v) (items_pre lo nt pre (Node es)) <->
      exists p, p <> [] /\ q = pre ++ p /\ get_tuple p es true = GVal v /\ (negb lo || is_leafb nt v = true)
  end.
Proof.
  intros lo nt. induction v0 as [k z|es IH] using tree_ind2; [exact I|].
  induction IH as [|[k w] r Hw Hr IHr]; intros W pre q v.
  - cbn. split; [tauto|]. intros [p [N [_ [G _]]]]. destruct p as [|a p]; [congruence|].
    destruct p; [rewrite get_tuple_1 in G|rewrite get_tuple_2 in G]; discriminate.
  - apply wfE_inv in W. destruct W as [ND F]. inversion ND as [|? ? NI ND']; subst. inversion F as [|? ? Fw Fr]; subst.
    assert (Wr : wfE r) by (constructor; assumption).
    specialize (IHr Wr pre q v). cbn in Hw, Fw.
    rewrite items_pre_cons. rewrite !in_app_iff. split.
    + intros [I|[I|I]].
      * destruct (negb lo || is_leafb nt w) eqn:C; [|contradiction]. destruct I as [E|[]].
        injection E as <- <-. exists [k]. split; [discriminate|]. split; [reflexivity|]. split; [|exact C].
        rewrite get_tuple_1. cbn [aget]. now rewrite String.eqb_refl.
      * destruct w as [lk z|sub]; [contradiction|]. specialize (Hw Fw (pre ++ [k]) q v).
        apply Hw in I. destruct I as [p' [N' [-> [G' C]]]]. exists (k :: p'). split; [discriminate|].
        split; [now rewrite <- app_assoc|]. split; [|exact C]. destruct p' as [|a2 p2]; [congruence|].
        rewrite get_tuple_2. cbn [aget]. rewrite String.eqb_refl. exact G'.
      * apply IHr in I. destruct I as [p [N [-> [G C]]]]. exists p. split; [assumption|]. split; [reflexivity|]. split; [|exact C].
        destruct p as [|a p]; [congruence|]. rewrite get_tuple_skip; [exact G|].
        intros ->. apply NI. exact (get_tuple_head_in _ _ _ _ _ G).
    + intros [p [N [-> [G C]]]]. destruct p as [|a p]; [congruence|].
      destruct (string_dec a k) as [->|Nak].
      * destruct p as [|a2 p2].
        -- rewrite get_tuple_1 in G. cbn [aget] in G. rewrite String.eqb_refl in G. injection G as <-. left. rewrite C. now left.
        -- rewrite get_tuple_2 in G. cbn [aget] in G. rewrite String.eqb_refl in G.
           destruct w as [[|] z|sub]; try discriminate. right. left.
           apply (Hw Fw (pre ++ [k]) (pre ++ k :: a2 :: p2) v). exists (a2 :: p2). split; [discriminate|].
           split; [now rewrite <- app_assoc|]. split; [exact G|exact C].
      * right. right. apply IHr. exists (a :: p). split; [discriminate|]. split; [reflexivity|].
        split; [now rewrite get_tuple_skip in G|exact C].
Qed.

(* what any view lists, in terms of get *)
Lemma keys_view_in inc lo so nt p es : wfE es ->
  In p (keys_view inc lo so nt es) <->
  exists v, (inc = true \/ List.length p = 1) /\ p <> [] /\ get_tuple p es true = GVal v /\ (negb lo || is_leafb nt v = true).
Proof.
  intros W.
  assert (K : In p (keys_view inc lo so nt es) <-> In p (map fst (items_unsorted inc lo nt es))).
  { unfold keys_view. pose proof (keys_unsorted_perm inc lo nt es) as P.
    destruct so.
    - split; intros H.
      + eapply Permutation_in; [exact P|]. eapply Permutation_in; [apply sort_by_perm|exact H].
      + eapply Permutation_in; [apply Permutation_sym; apply sort_by_perm|].
        eapply Permutation_in; [apply Permutation_sym; exact P|exact H].
    - split; intros H; [eapply Permutation_in; [exact P|exact H]|eapply Permutation_in; [apply Permutation_sym; exact P|exact H]]. }
  rewrite K. unfold items_unsorted. destruct inc.
  - pose proof (items_pre_in lo nt (Node es) W []) as M. cbn [app] in M. split.
    + intros I. apply in_map_iff in I. destruct I as [[q v] [E I]]. cbn in E. subst q. apply M in I.
      destruct I as [p' [N [-> [G C]]]]. exists v. auto.
    + intros [v [_ [N [G C]]]]. apply in_map_iff. exists (p, v). split; [reflexivity|]. apply M. exists p. auto.
  - (* the flat view *)
    rewrite map_map. cbn [fst].
    assert (FL : forall l : ents, NoDup (map fst l) -> forall k v, In (k, v) l <-> aget k l = Some v).
    { induction l as [|[k' w] r IHl]; intros ND k v; [cbn; split; [tauto|discriminate]|].
      inversion ND as [|? ? NI ND']; subst. cbn [In aget]. destruct (String.eqb_spec k k') as [->|Nk].
      - split; [intros [E|I]; [congruence|exfalso; apply NI; exact (in_map fst _ _ I)]|intros E; left; congruence].
      - rewrite <- (IHl ND'). split; [intros [E|I]; [congruence|exact I]|intros I; now right]. }
    apply wfE_inv in W. destruct W as [ND _]. split.
    + intros I. apply in_map_iff in I. destruct I as [[k v] [E I]]. cbn in E. subst p.
      assert (I2 : In (k, v) es /\ (negb lo || is_leafb nt v = true)).
      { destruct lo; [apply filter_In in I; cbn in I; exact I|split; [exact I|reflexivity]]. }
      destruct I2 as [I2 C]. exists v. split; [now right|]. split; [discriminate|]. split; [|exact C].
      rewrite get_tuple_1. apply (FL es ND) in I2. now rewrite I2.
    + intros [v [[D|L] [N [G C]]]]; [discriminate|]. destruct p as [|k [|k2 r]]; try discriminate.
      rewrite get_tuple_1 in G. destruct (aget k es) as [w|] eqn:A; [|discriminate]. injection G as <-.
      apply in_map_iff. exists (k, w). split; [reflexivity|]. apply (FL es ND) in A.
      destruct lo; [apply filter_In; split; [exact A|exact C]|exact A].
Qed.

(* the walk of __contains__ in terms of get *)
Lemma get_tuple_snoc : forall mid l es, mid <> [] ->
  get_tuple (mid ++ [l]) es true =
  match get_tuple mid es true with
  | GVal (Node s) => get_tuple [l] s true
  | GVal (Leaf LT _) => GRaise EOther
  | GVal (Leaf LS _) => GRaise EUnmodelled
  | GDef => GDef
  | GRaise e => GRaise e
  end.
Proof.
  induction mid as [|k rest IH]; intros l es N; [congruence|].
  destruct rest as [|k2 r2].
  - cbn [app]. rewrite get_tuple_2, get_tuple_1. destruct (aget k es) as [[[|] z|sub]|]; reflexivity.
  - change ((k :: k2 :: r2) ++ [l]) with (k :: k2 :: (r2 ++ [l])). rewrite !get_tuple_2.
    destruct (aget k es) as [[[|] z|sub]|]; try reflexivity.
    change (k2 :: r2 ++ [l]) with ((k2 :: r2) ++ [l]). apply IH. discriminate.
Qed.

Definition listedb (lo nt : bool) (g : gres) : bool :=
  match g with GVal v => negb lo || is_leafb nt v | _ => false end.

Lemma entry_listed_get lo nt k es : entry_listed lo nt k es = listedb lo nt (get_tuple [k] es true).
Proof. unfold entry_listed. rewrite get_tuple_1. destruct (aget k es); reflexivity. Qed.

Lemma view_contains_lo_get : forall lo nt p es b, p <> [] ->
  view_contains_lo true lo nt p es = Ok b -> b = listedb lo nt (get_tuple p es true).
Proof.
  intros lo nt p es b N C. destruct p as [|k rest]; [congruence|]. destruct rest as [|k1 r1].
  - cbn in C. injection C as <-. apply entry_listed_get.
  - destruct r1 as [|k2 r2].
    + cbn in C. rewrite get_tuple_2. destruct (aget k es) as [[[|] z|sub]|]; try (injection C as <-; reflexivity); try discriminate.
      injection C as <-. apply entry_listed_get.
    + assert (NE : k1 :: k2 :: r2 <> []) by discriminate.
      assert (NM : removelast (k1 :: k2 :: r2) <> []) by (cbn; destruct r2; discriminate).
      rewrite get_tuple_2.
      change (view_contains_lo true lo nt (k :: k1 :: k2 :: r2) es) with
        (match aget k es with
         | None => Ok false | Some (Leaf LT _) => Ok false | Some (Leaf LS _) => Raise EUnmodelled
         | Some (Node sub) =>
             match get_tuple (removelast (k1 :: k2 :: r2)) sub true with
             | GDef => Ok false
             | GVal (Node s2) => Ok (entry_listed lo nt (last (k1 :: k2 :: r2) "") s2)
             | GVal (Leaf LT _) => Ok false
             | GVal (Leaf LS _) => Raise EUnmodelled
             | GRaise e => Raise e
             end
         end) in C.
      destruct (aget k es) as [[[|] z|sub]|]; try (injection C as <-; reflexivity); try discriminate.
      replace (get_tuple (k1 :: k2 :: r2) sub true)
        with (get_tuple (removelast (k1 :: k2 :: r2) ++ [last (k1 :: k2 :: r2) ""]) sub true)
        by (now rewrite <- app_removelast_last).
      rewrite (get_tuple_snoc _ _ _ NM).
      destruct (get_tuple (removelast (k1 :: k2 :: r2)) sub true) as [[[|] z|s2]| |e];
        try (injection C as <-; reflexivity); try discriminate.
      injection C as <-. apply entry_listed_get.
Qed.

(* `key in td.keys(include_nested, leaves_only, is_leaf, sort=...)` answers what iterating that view lists, for EVERY
   flag combination (S7 fixed) *)
Theorem contains_iff_listed inc lo so nt k es b : wfE es -> wfb k = true ->
  keys_contains inc lo nt k es = Ok b -> (b = true <-> In (strings k) (keys_view inc lo so nt es)).
Proof.
  intros W Wk C. destruct (wf_key_tuple k Wk) as [U N].
  rewrite (keys_view_in inc lo so nt (strings k) es W).
  unfold keys_contains in C.
  destruct (negb inc && negb lo && negb nt) eqn:FP.
  - (* _StringKeys *)
    destruct inc, lo, nt; try discriminate.
    assert (P : exists s, strings k = [s] /\ b = amem s es).
    { destruct k as [s|l|]; [cbn in C; injection C as <-; eauto| |discriminate].
      cbn [skeys_contains] in C. rewrite U in C. destruct (strings (KT l)) as [|s [|s2 r]]; try discriminate.
      injection C as <-. eauto. }
    destruct P as [s [S ->]]. rewrite S. unfold amem. rewrite get_tuple_1. split.
    + destruct (aget s es) as [v|]; [|discriminate]. intros _. exists v. repeat split; auto; discriminate.
    + intros [v [_ [_ [G _]]]]. destruct (aget s es); [reflexivity|discriminate].
  - rewrite U in C. destruct inc.
    + pose proof (view_contains_lo_get lo nt (strings k) es b N C) as B. subst b. unfold listedb. split.
      * destruct (get_tuple (strings k) es true) as [v| |e]; try discriminate. intros C2. exists v. auto.
      * intros [v [_ [_ [G C2]]]]. rewrite G. exact C2.
    + (* not nested: only a length-one key gets an answer *)
      destruct (strings k) as [|s [|s2 r]] eqn:S; [congruence| |cbn in C; discriminate].
      cbn in C. injection C as <-. rewrite entry_listed_get. unfold listedb. split.
      * destruct (get_tuple [s] es true) as [v| |e]; try discriminate. intros C2. exists v. repeat split; auto; discriminate.
      * intros [v [_ [_ [G C2]]]]. rewrite G. exact C2.
Qed.
