(* C06 — paths, prefixes, and what a node's view depends on. *)
From Coq Require Import ZArith List String Bool Arith Lia.
Import ListNotations.
From TD Require Import Model.C06_Cache.
Open Scope string_scope.
Open Scope list_scope.

Lemma path_eqb_eq : forall a b, path_eqb a b = true <-> a = b.
Proof.
  induction a as [|x a IH]; intros [|y b]; cbn; split; intros E; try discriminate; try reflexivity.
  - apply andb_prop in E. destruct E as [E1 E2]. apply String.eqb_eq in E1. apply IH in E2. now subst.
  - inversion E; subst. rewrite String.eqb_refl. cbn. now apply IH.
Qed.

Lemma path_eqb_refl : forall a, path_eqb a a = true.
Proof. intros a. now apply path_eqb_eq. Qed.

Lemma path_eqb_neq : forall a b, path_eqb a b = false <-> a <> b.
Proof.
  intros a b. split.
  - intros E ->. rewrite path_eqb_refl in E. discriminate.
  - intros N. destruct (path_eqb a b) eqn:E; [|reflexivity]. apply path_eqb_eq in E. contradiction.
Qed.

Lemma strip_some : forall p q r, strip p q = Some r <-> q = p ++ r.
Proof.
  induction p as [|x p IH]; intros q r; cbn.
  - split; intros E; [now inversion E|now subst].
  - destruct q as [|y q]; [split; intros E; discriminate|].
    destruct (String.eqb x y) eqn:Exy.
    + apply String.eqb_eq in Exy. subst y. rewrite IH. split; intros E; [now subst|now inversion E].
    + split; intros E; [discriminate|]. inversion E; subst. rewrite String.eqb_refl in Exy. discriminate.
Qed.

Lemma strip_app : forall p r, strip p (p ++ r) = Some r.
Proof. intros. now apply strip_some. Qed.

Lemma strip_self : forall p, strip p p = Some [].
Proof. intros p. apply strip_some. now rewrite app_nil_r. Qed.

Lemma is_prefix_iff : forall p q, is_prefix p q = true <-> exists r, q = p ++ r.
Proof.
  intros p q. unfold is_prefix. destruct (strip p q) as [r|] eqn:E.
  - apply strip_some in E. split; [now exists r|reflexivity].
  - split; [discriminate|]. intros [r ->]. rewrite strip_app in E. discriminate.
Qed.

Lemma is_prefix_refl : forall p, is_prefix p p = true.
Proof. intros p. apply is_prefix_iff. exists []. now rewrite app_nil_r. Qed.

Lemma is_prefix_nil : forall p, is_prefix [] p = true.
Proof. intros p. apply is_prefix_iff. now exists p. Qed.

Lemma is_prefix_trans : forall a b c, is_prefix a b = true -> is_prefix b c = true -> is_prefix a c = true.
Proof.
  intros a b c H1 H2. apply is_prefix_iff in H1, H2. destruct H1 as [r ->], H2 as [r' ->].
  apply is_prefix_iff. exists (r ++ r'). now rewrite app_assoc.
Qed.

Lemma proper_prefix_iff : forall p q, proper_prefix p q = true <-> exists x r, q = p ++ x :: r.
Proof.
  intros p q. unfold proper_prefix. destruct (strip p q) as [[|x r]|] eqn:E.
  - apply strip_some in E. split; [discriminate|]. intros [x [r E']]. rewrite E' in E.
    apply app_inv_head in E. discriminate.
  - apply strip_some in E. split; [now exists x, r|reflexivity].
  - split; [discriminate|]. intros [x [r ->]]. rewrite strip_app in E. discriminate.
Qed.

Lemma proper_is_prefix : forall p q, proper_prefix p q = true -> is_prefix p q = true.
Proof. intros p q H. apply proper_prefix_iff in H. destruct H as [x [r ->]]. apply is_prefix_iff. now exists (x :: r). Qed.

Lemma proper_prefix_irrefl : forall p, proper_prefix p p = false.
Proof. intros p. unfold proper_prefix. now rewrite strip_self. Qed.

Lemma prefix_split : forall p q, is_prefix p q = true -> p = q \/ proper_prefix p q = true.
Proof.
  intros p q H. apply is_prefix_iff in H. destruct H as [[|x r] ->]; [left; now rewrite app_nil_r|right].
  apply proper_prefix_iff. now exists x, r.
Qed.

(* two prefixes of one path are comparable *)
Lemma prefix_comparable : forall a b q, is_prefix a q = true -> is_prefix b q = true -> is_prefix a b = true \/ is_prefix b a = true.
Proof.
  induction a as [|x a IH]; intros b q Ha Hb; [left; apply is_prefix_nil|].
  destruct b as [|y b]; [right; apply is_prefix_nil|].
  apply is_prefix_iff in Ha, Hb. destruct Ha as [r ->], Hb as [r' E]. cbn in E. inversion E; subst.
  destruct (IH b (a ++ r)) as [H|H].
  - apply is_prefix_iff. now exists r.
  - apply is_prefix_iff. now exists r'.
  - left. apply is_prefix_iff in H. destruct H as [t ->]. apply is_prefix_iff. now exists t.
  - right. apply is_prefix_iff in H. destruct H as [t ->]. apply is_prefix_iff. now exists t.
Qed.

Lemma strip_none_incomparable : forall x p q,
  is_prefix x p = false -> is_prefix p x = false -> is_prefix p q = true -> strip x q = None.
Proof.
  intros x p q H1 H2 H3. destruct (strip x q) as [r|] eqn:E; [|reflexivity].
  assert (Hx : is_prefix x q = true) by (unfold is_prefix; now rewrite E).
  destruct (prefix_comparable x p q Hx H3) as [H|H]; congruence.
Qed.

Lemma removelast_app_one : forall (p : path) k, removelast (p ++ [k]) = p.
Proof. intros. apply removelast_last. Qed.

Lemma parent_prefix : forall p, is_prefix (parent_of p) p = true.
Proof.
  intros p. unfold parent_of. destruct p as [|x p]; [apply is_prefix_refl|].
  destruct (@exists_last _ (x :: p)) as [q [k E]]; [discriminate|]. rewrite E. rewrite removelast_last.
  apply is_prefix_iff. now exists [k].
Qed.
