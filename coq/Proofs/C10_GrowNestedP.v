(* C10 — make_memmap under a NESTED key of a saved tensordict (_make_memmap_subtd: intermediate nodes created on the way,
   each registered in its parent's meta.json by a read-modify-write) and what a later load / a refreshed second mapping
   sees.  Lemmas. *)
From Coq Require Import ZArith List String Bool Lia.
Import ListNotations.
From TD Require Import Model.C10_Meta Model.C10_Refresh Proofs.C10_MetaP Proofs.C10_GrowP Proofs.C10_RefreshP.
Open Scope string_scope.
Open Scope list_scope.

(* what is left of entry_ok / saved_ok once the directory of a sub-collection is no longer the literal output of a save
   (after make_memmap its meta.json lists the new record after "shape" / "device" / "_type"): it LOADS as the sub-collection *)
Definition entry_okw (o : opts) (kv : string * td) : Prop :=
  match snd kv with Leaf l => leaf_ok o l = true | _ => True end.
Definition loads_as (c : td) (d : dir) : Prop := decode d = Ok (norm c).
Definition subs_rel (P : td -> dir -> Prop) (kv : string * td) (kd : string * dir) : Prop :=
  fst kv = fst kd /\ P (snd kv) (snd kd).
Definition tail3 (bs : list nat) : list (string * json) :=
  [("shape", jshape bs); ("device", JStr "cpu"); ("_type", JStr "TensorDict")].

Lemma entry_ok_w : forall o es, Forall (entry_ok o) es -> Forall (entry_okw o) es.
Proof.
  intros o es H. induction H as [|[k x] es Hx _ IH]; constructor; auto.
  unfold entry_ok, entry_okw in *. cbn [snd] in *. destruct x; auto.
Qed.

Lemma load_records_app_w : forall o es files rest,
  NoDup (map fst es) -> Forall (entry_okw o) es ->
  (forall k l, In (k, Leaf l) es -> leaf_file_spec files k l) ->
  load_records files (recs es ++ rest)
  = bind (load_records files rest) (fun acc =>
      Ok (filter (fun kv => is_leaf (snd kv)) (norm_ents es) ++ fst acc, map fst (filter nonleaf es) ++ snd acc)).
Proof.
  intros o es files rest. induction es as [|[k x] es IH]; intros Hnd Hok Hf.
  - cbn. destruct (load_records files rest) as [[a b]|]; reflexivity.
  - inversion Hnd; subst. inversion Hok as [|? ? Hx Hok']; subst.
    change (recs ((k, x) :: es)) with ((k, entry_record x) :: recs es).
    rewrite <- app_comm_cons, load_records_cons.
    assert (IH' := IH H2 Hok' (fun k l Hin => Hf k l (or_intror Hin))).
    destruct (is_leaf x) eqn:Ex.
    + destruct x as [l| | | | |]; try discriminate. cbn [entry_record].
      rewrite (load_record_leaf o files k l Hx (Hf k l (or_introl eq_refl))). cbn [bind]. rewrite IH'.
      destruct (load_records files rest) as [[a b]|]; reflexivity.
    + rewrite (load_record_coll files k x Ex). cbn [bind]. rewrite IH'.
      destruct (load_records files rest) as [[a b]|]; cbn [bind fst snd]; [|reflexivity].
      destruct x; try discriminate; reflexivity.
Qed.

Lemma load_subs_w : forall bs paths es sl,
  Forall2 (subs_rel loads_as) (filter nonleaf es) sl ->
  (forall kv, In kv (filter nonleaf es) -> In (fst kv) paths) ->
  Forall (bs_ok bs) es ->
  load_subs bs paths (decode_subs sl) = Ok (filter (fun kv => negb (is_leaf (snd kv))) (norm_ents es)).
Proof.
  intros bs paths es. induction es as [|[k x] es IH]; intros sl F2 Hp Hb.
  - cbn in F2. inversion F2; subst. reflexivity.
  - inversion Hb as [|? ? Hbx Hb']; subst. cbn [norm_ents filter snd].
    destruct (is_leaf x) eqn:Ex.
    + assert (is_leaf (norm x) = true) by (destruct x; try discriminate; reflexivity). rewrite H. cbn [negb].
      cbn in F2, Hp. unfold nonleaf in F2, Hp. cbn in F2, Hp. rewrite Ex in F2, Hp. cbn in F2, Hp. apply IH; auto.
    + assert (is_leaf (norm x) = false) by (destruct x; try discriminate; reflexivity). rewrite H. cbn [negb].
      cbn in F2, Hp. unfold nonleaf in F2, Hp. cbn in F2, Hp. rewrite Ex in F2, Hp. cbn in F2, Hp.
      inversion F2 as [|? [k' d] ? sl' [Hk Hdec] F2']; subst. cbn in Hk. subst k'.
      cbn [decode_subs load_subs].
      assert (existsb (String.eqb k) paths = true).
      { apply existsb_exists. exists k. split; [apply (Hp (k, x)); now left|apply String.eqb_refl]. }
      rewrite H0. unfold loads_as in Hdec. cbn in Hdec. rewrite Hdec. cbn [bind]. fold decode_subs.
      rewrite (IH sl' F2'); auto. cbn [bind]. rewrite adopt_norm; auto.
Qed.

Lemma Forall_app_l : forall {A} (P : A -> Prop) a b, Forall P (a ++ b) -> Forall P a.
Proof. intros A P a b H. apply Forall_forall. intros x Hx. rewrite Forall_forall in H. apply H, in_or_app. now left. Qed.
Lemma Forall_app_r : forall {A} (P : A -> Prop) a b, Forall P (a ++ b) -> Forall P b.
Proof. intros A P a b H. apply Forall_forall. intros x Hx. rewrite Forall_forall in H. apply H, in_or_app. now right. Qed.

Lemma NoDup_app_parts : forall {A} (a b : list A), NoDup (a ++ b) -> NoDup a /\ NoDup b.
Proof.
  intros A a b. induction a as [|x a IH]; cbn; intro H; [split; [constructor|exact H]|].
  inversion H; subst. destruct (IH H3) as [Ha Hb]. split; auto. constructor; auto.
  intro Hin. apply H2, in_or_app. now left.
Qed.

(* a TensorDict directory whose meta.json lists the records of e1, then "shape" / "device" / "_type", then the records
   of e2 (what make_memmap appended), whose tensor files are in place and whose sub-directories load as the
   sub-collections, loads as the node *)
Lemma decode_node_gen : forall o bs e1 e2 files sl,
  keys_ok (e1 ++ e2) -> Forall (entry_okw o) (e1 ++ e2) -> Forall (bs_ok bs) (e1 ++ e2) ->
  fget FMeta files = Some (CJson (JObj (recs e1 ++ tail3 bs ++ recs e2))) ->
  (forall k l, In (k, Leaf l) (e1 ++ e2) -> leaf_file_spec files k l) ->
  Forall2 (subs_rel loads_as) (filter nonleaf (e1 ++ e2)) sl ->
  decode (Dir files sl) = Ok (norm (Node bs (e1 ++ e2))).
Proof.
  intros o bs e1 e2 files sl [Hnd Hres] Hok Hbs Hm Hf F2.
  assert (Hres1 := Forall_app_l _ _ _ Hres).
  assert (Hnd12 : NoDup (map fst e1) /\ NoDup (map fst e2)). { rewrite map_app in Hnd. now apply NoDup_app_parts. }
  destruct Hnd12 as [Hnd1 Hnd2].
  rewrite decode_dir. unfold load_top. rewrite Hm.
  assert (Et : sget "_type" (recs e1 ++ tail3 bs ++ recs e2) = Some (JStr "TensorDict")).
  { rewrite sget_app_none by (now apply sget_recs_reserved). reflexivity. }
  assert (Es : sget "shape" (recs e1 ++ tail3 bs ++ recs e2) = Some (jshape bs)).
  { rewrite sget_app_none by (now apply sget_recs_reserved). reflexivity. }
  assert (Ed : jdel "device" (jdel "shape" (recs e1 ++ tail3 bs ++ recs e2))
               = recs e1 ++ ("_type", JStr "TensorDict") :: recs e2).
  { rewrite jdel_app_none by (now apply sget_recs_reserved). cbn [tail3 List.app jdel String.eqb Ascii.eqb Bool.eqb].
    rewrite jdel_app_none by (now apply sget_recs_reserved). reflexivity. }
  rewrite Et. cbn [String.eqb Ascii.eqb Bool.eqb]. cbv beta iota. unfold load_node. rewrite Es, jshape_of_jshape, Ed.
  rewrite (load_records_app_w o e1 files); auto.
  2:{ now apply Forall_app_l in Hok. }
  2:{ intros k l Hin. apply Hf, in_or_app. now left. }
  rewrite load_records_cons. cbn [load_record]. cbv beta iota. cbn [bind].
  rewrite <- (app_nil_r (recs e2)).
  rewrite (load_records_app_w o e2 files); auto.
  2:{ now apply Forall_app_r in Hok. }
  2:{ intros k l Hin. apply Hf, in_or_app. now right. }
  cbn [load_records bind fst snd]. rewrite !app_nil_r.
  rewrite (load_subs_w bs _ (e1 ++ e2) sl F2); auto.
  2:{ intros kv Hin. rewrite filter_app in Hin. apply in_app_or in Hin. apply in_or_app.
      destruct Hin as [Hin|Hin]; [left|right]; now apply in_map. }
  cbn [bind]. rewrite norm_node, norm_ents_app, !filter_app, <- app_assoc. reflexivity.
Qed.

(* ------------------------------------------------------------------ the sub-directories of a saved node *)
Lemma F2_get : forall (P : td -> dir -> Prop) es sl k c,
  Forall2 (subs_rel P) (filter nonleaf es) sl -> sget k es = Some c -> is_leaf c = false ->
  exists dc, sget k sl = Some dc /\ P c dc.
Proof.
  intros P es. induction es as [|[k' x] es IH]; intros sl k c F2 Hg Hc; [discriminate|].
  cbn [sget] in Hg. cbn [filter] in F2. unfold nonleaf at 1 in F2. cbn [snd] in F2.
  destruct (String.eqb k k') eqn:E.
  - inversion Hg; subst x. rewrite Hc in F2. cbn [negb] in F2.
    inversion F2 as [|? [k2 d] ? sl' [Hk Hp] F2']; subst. cbn [fst snd] in *. subst k2.
    exists d. cbn [sget]. rewrite E. auto.
  - destruct (is_leaf x); cbn [negb] in F2.
    + eauto.
    + inversion F2 as [|? [k2 d] ? sl' [Hk Hp] F2']; subst. cbn [fst snd] in *. subst k2.
      cbn [sget]. rewrite E. eauto.
Qed.

Lemma F2_set : forall (P : td -> dir -> Prop) es sl k c c' dc',
  Forall2 (subs_rel P) (filter nonleaf es) sl -> sget k es = Some c -> is_leaf c = false -> is_leaf c' = false ->
  P c' dc' -> Forall2 (subs_rel P) (filter nonleaf (jset k c' es)) (jset k dc' sl).
Proof.
  intros P es. induction es as [|[k' x] es IH]; intros sl k c c' dc' F2 Hg Hc Hc' Hp; [discriminate|].
  cbn [sget] in Hg. cbn [filter] in F2. unfold nonleaf at 1 in F2. cbn [snd] in F2. cbn [jset].
  destruct (String.eqb k k') eqn:E.
  - inversion Hg; subst x. rewrite Hc in F2. cbn [negb] in F2.
    inversion F2 as [|? [k2 d] ? sl' [Hk Hp0] F2']; subst. cbn [fst snd] in *. subst k2.
    cbn [filter]. unfold nonleaf at 1. cbn [snd]. rewrite Hc'. cbn [negb jset]. rewrite E.
    constructor; auto. split; auto.
  - cbn [filter]. unfold nonleaf at 1. cbn [snd]. destruct (is_leaf x); cbn [negb] in F2 |- *.
    + eauto.
    + inversion F2 as [|? [k2 d] ? sl' [Hk Hp0] F2']; subst. cbn [fst snd] in *. subst k2.
      cbn [jset]. rewrite E. constructor; [split; auto|eauto].
Qed.

Lemma F2_keys_none : forall (P : td -> dir -> Prop) es sl k,
  Forall2 (subs_rel P) (filter nonleaf es) sl -> sget k es = None -> sget k sl = None.
Proof.
  intros P es. induction es as [|[k' x] es IH]; intros sl k F2 Hg.
  - inversion F2. reflexivity.
  - cbn [sget] in Hg. cbn [filter] in F2. unfold nonleaf at 1 in F2. cbn [snd] in F2.
    destruct (String.eqb k k') eqn:E; [discriminate|].
    destruct (is_leaf x); cbn [negb] in F2; [eauto|].
    inversion F2 as [|? [k2 d] ? sl' [Hk Hp0] F2']; subst. cbn [fst snd] in *. subst k2.
    cbn [sget]. rewrite E. eauto.
Qed.

Lemma F2_weaken : forall (P Q : td -> dir -> Prop) l sl, (forall c d, P c d -> Q c d) ->
  Forall2 (subs_rel P) l sl -> Forall2 (subs_rel Q) l sl.
Proof. intros P Q l sl H F. induction F as [|? ? ? ? [A B] _ IH]; constructor; auto. split; auto. Qed.

Lemma map_fst_jset_some : forall {A} k (v c : A) l, sget k l = Some c -> map fst (jset k v l) = map fst l.
Proof.
  intros A k v c l. induction l as [|[k' x] l IH]; [discriminate|]. cbn [sget jset].
  destruct (String.eqb k k'); cbn [map fst]; auto. intro H. now rewrite IH.
Qed.

Lemma Forall_jset : forall {A} (P : string * A -> Prop) k v l, Forall P l -> (forall k', P (k', v)) -> Forall P (jset k v l).
Proof.
  intros A P k v l H Hv. induction H as [|[k' x] l Hx Hl IH]; cbn [jset]; [constructor; [apply Hv|constructor]|].
  destruct (String.eqb k k'); constructor; auto.
Qed.

Lemma in_jset : forall {A} k (v : A) l kv, In kv (jset k v l) -> In kv l \/ snd kv = v.
Proof.
  intros A k v l kv. induction l as [|[k' x] l IH]; cbn [jset].
  - intros [H|[]]. subst. now right.
  - destruct (String.eqb k k').
    + intros [H|H]; [subst; now right|left; now right].
    + intros [H|H]; [left; now left|]. destruct (IH H); [left; now right|now right].
Qed.

Lemma recs_jset : forall k c c' es, sget k es = Some c -> entry_record c' = entry_record c -> recs (jset k c' es) = recs es.
Proof.
  intros k c c' es. induction es as [|[k' x] es IH]; [discriminate|]. cbn [sget jset].
  destruct (String.eqb k k') eqn:E.
  - intros H He. inversion H; subst x. unfold recs. cbn [map fst snd]. now rewrite He.
  - intros H He. unfold recs in *. cbn [map fst snd]. now rewrite IH.
Qed.

(* the directory a valid node was saved into *)
Lemma encode_node_shape : forall o bs ents d,
  like o = false -> valid o (Node bs ents) = true -> encode o (Node bs ents) = Ok d ->
  keys_ok ents /\ Forall (entry_ok o) ents /\ Forall (bs_ok bs) ents /\
  exists sl, d = Dir (leaf_files ents ++ [(FMeta, CJson (JObj (recs ents ++ tail3 bs)))]) sl
             /\ Forall2 (subs_rel (saved_ok o)) (filter nonleaf ents) sl.
Proof.
  intros o bs ents d Hlike Hv Henc.
  destruct (valid_entries_ok o bs ents Hlike Hv) as ([Hnd Hrsv] & Hok & Hbs).
  destruct (save_ents_spec o ents [] [] Hlike Hnd Hrsv) as (sl & E & F2); auto.
  unfold encode, empty_dir in Henc. rewrite save_over_node, E in Henc. cbn [bind fst snd List.app] in Henc.
  rewrite fset_fresh in Henc by apply fget_meta_leaf_files. inversion Henc; subst d. clear Henc.
  rewrite node_meta_ok by (split; auto).
  repeat split; auto. exists sl. split; [reflexivity|exact F2].
Qed.

Lemma grow_at_node : forall ks k l bs ents d t' d',
  grow_at ks k l (Node bs ents) d = Ok (t', d') -> exists ents', t' = Node bs ents'.
Proof.
  intros ks k l bs ents [files subs] t' d'. destruct ks as [|k0 rest]; cbn [grow_at].
  - destruct (smem k ents); [discriminate|]. destruct (reserved k); [discriminate|].
    destruct (load_meta files); cbn [bind]; [|discriminate]. intro H. inversion H. eauto.
  - destruct (sget k0 ents) as [[| bs0 ents0| | | |]|]; try discriminate.
    + destruct (grow_at rest k l (Node bs0 ents0) (sub_dir k0 subs)) as [[a b]|]; cbn [bind]; [|discriminate].
      intro H. inversion H. eauto.
    + destruct (reserved k0); [discriminate|].
      destruct (save_over default_opts (Node bs []) (sub_dir k0 subs)); cbn [bind]; [|discriminate].
      destruct (load_meta files); cbn [bind]; [|discriminate].
      destruct (grow_at rest k l (Node bs []) a) as [[x y]|]; cbn [bind]; [|discriminate].
      intro H. inversion H. eauto.
Qed.

Lemma saved_loads : forall o c d, saved_ok o c d -> loads_as c d.
Proof. intros o c d [_ H]. exact H. Qed.

Lemma encode_empty_node : forall o bs, encode o (Node bs []) = Ok (Dir [(FMeta, CJson (JObj (tail3 bs)))] []).
Proof. reflexivity. Qed.

Lemma keys_ok_jset : forall k (c c' : td) es, keys_ok es -> sget k es = Some c -> keys_ok (jset k c' es).
Proof.
  intros k c c' es [Hnd Hr] Hg. split.
  - now rewrite (map_fst_jset_some k c' c es Hg).
  - apply Forall_forall. intros kv Hin. apply (in_map fst) in Hin. rewrite (map_fst_jset_some k c' c es Hg) in Hin.
    apply in_map_iff in Hin as (kv' & E & Hin'). rewrite Forall_forall in Hr. rewrite <- E. now apply Hr.
Qed.

Lemma NoDup_snoc : forall {A} (l : list A) x, NoDup l -> ~ In x l -> NoDup (l ++ [x]).
Proof.
  intros A l x H. induction H as [|y l Hy Hl IH]; cbn; intro Hx.
  - constructor; [intros []|constructor].
  - constructor.
    + intro Hin. apply in_app_or in Hin as [Hin|[Hin|[]]]; [now apply Hy|]. subst. apply Hx. now left.
    + apply IH. intro. apply Hx. now right.
Qed.

Lemma Forall_snoc : forall {A} (P : A -> Prop) l x, Forall P l -> P x -> Forall P (l ++ [x]).
Proof. intros A P l x H Hx. induction H; cbn; constructor; auto. Qed.

Lemma keys_ok_snoc : forall k (c : td) es, keys_ok es -> sget k es = None -> reserved k = false -> keys_ok (es ++ [(k, c)]).
Proof.
  intros k c es [Hnd Hr] Hg Hk. split.
  - rewrite map_app. cbn [map fst]. apply NoDup_snoc; auto. now apply sget_none_notin.
  - apply Forall_snoc; auto.
Qed.

Lemma valid_sget : forall o bs ents k c, valid o (Node bs ents) = true -> sget k ents = Some c -> valid o c = true.
Proof.
  intros o bs ents k c Hv. rewrite valid_node in Hv. apply andb_true_iff in Hv as [_ Hv].
  induction ents as [|[k' x] ents IH]; [discriminate|].
  change (valid_ents o bs ((k', x) :: ents)) with (valid o x && match x with NData b _ => is_prefix bs b | _ => true end && valid_ents o bs ents) in Hv.
  apply andb_true_iff in Hv as [Hx Hr]. apply andb_true_iff in Hx as [Hx _].
  cbn [sget]. destruct (String.eqb k k'); [intro H; inversion H; now subst|auto].
Qed.

Lemma resave_meta_fresh : forall bs ents k r,
  Forall (fun kv => reserved (fst kv) = false) ents -> reserved k = false -> sget k ents = None ->
  resave_meta bs (jset k r (recs ents ++ tail3 bs)) = JObj (recs ents ++ tail3 bs ++ [(k, r)]).
Proof.
  intros bs ents k r Hrsv Hres Hkf.
  assert (Hkn : ~ In k (map fst ents)) by now apply sget_none_notin.
  assert (Hmk : sget k (recs ents ++ tail3 bs) = None).
  { rewrite sget_app_none by (apply sget_none_notin; now rewrite recs_keys).
    destruct (reserved_false k Hres) as (N1 & N2 & N3). cbn.
    destruct (String.eqb k "shape") eqn:E1; [apply String.eqb_eq in E1; contradiction|].
    destruct (String.eqb k "device") eqn:E2; [apply String.eqb_eq in E2; contradiction|].
    destruct (String.eqb k "_type") eqn:E3; [apply String.eqb_eq in E3; contradiction|]. reflexivity. }
  unfold resave_meta. rewrite (jset_fresh k) by exact Hmk. rewrite <- app_assoc. f_equal.
  assert (R : forall key, reserved key = true -> sget key (recs ents) = None) by (intros; now apply sget_recs_reserved).
  assert (J : forall key v (tl : list (string * json)), reserved key = true ->
              jset key v (recs ents ++ tl) = recs ents ++ jset key v tl).
  { intros key v tl Hr. specialize (R key Hr). revert R. generalize (recs ents) as rl.
    induction rl as [|[k' v'] rl IHr]; cbn; auto. destruct (String.eqb key k'); [discriminate|]. intro. now rewrite IHr. }
  rewrite (J "shape" _ _ eq_refl). rewrite (J "device" _ _ eq_refl). rewrite (J "_type" _ _ eq_refl).
  reflexivity.
Qed.

(* make_memmap under a key of any depth: the directory afterwards loads as the grown tensordict *)
Lemma grow_decode : forall ks o k l bs ents d t' d',
  like o = false -> valid o (Node bs ents) = true -> leaf_ok o l = true ->
  encode o (Node bs ents) = Ok d -> grow_at ks k l (Node bs ents) d = Ok (t', d') ->
  decode d' = Ok (norm t').
Proof.
  induction ks as [|k0 rest IH]; intros o k l bs ents d t' d' Hlike Hv Hl Henc Hg.
  - assert (Hk : smem k ents = false /\ reserved k = false).
    { destruct d as [files subs]. cbn [grow_at] in Hg. destruct (smem k ents); [discriminate|].
      destruct (reserved k); [discriminate|]. auto. }
    destruct Hk as [Hk Hr].
    assert (Hvr : valid_root o (Node bs ents) = true).
    { unfold valid_root. rewrite Hv, Hlike. reflexivity. }
    destruct (make_memmap_merge_lemma o bs ents k l d Hvr Hl Hr Hk Henc) as (d'' & G & D).
    rewrite G in Hg. inversion Hg; subst. exact D.
  - destruct (encode_node_shape o bs ents d Hlike Hv Henc) as (Hkeys & Hok & Hbs & sl & Hd & F2). subst d.
    assert (Hokw := entry_ok_w _ _ Hok).
    assert (F2w := F2_weaken _ _ _ _ (saved_loads o) F2).
    destruct Hkeys as [Hnd Hrsv].
    set (files := leaf_files ents ++ [(FMeta, CJson (JObj (recs ents ++ tail3 bs)))]) in *.
    assert (Hfm : fget FMeta files = Some (CJson (JObj (recs ents ++ tail3 bs)))).
    { unfold files. rewrite fget_app_none by apply fget_meta_leaf_files. reflexivity. }
    assert (Hfl : forall k1 l1, In (k1, Leaf l1) ents -> leaf_file_spec files k1 l1).
    { intros k1 l1 Hin. unfold files. apply leaf_file_spec_app. now apply fget_leaf_files_spec. }
    cbn [grow_at] in Hg.
    destruct (sget k0 ents) as [c|] eqn:Ec.
    + destruct c as [| bs0 ents0| | | |]; try discriminate.
      destruct (F2_get (saved_ok o) ents sl k0 (Node bs0 ents0) F2 Ec eq_refl) as (dc & Hdc & [Hsv Hld]).
      unfold sub_dir in Hg. rewrite Hdc in Hg.
      destruct (grow_at rest k l (Node bs0 ents0) dc) as [[t0' d0']|] eqn:Eg; cbn [bind] in Hg; [|discriminate].
      inversion Hg; subst t' d'. clear Hg. cbn [fst snd].
      assert (Hv0 : valid o (Node bs0 ents0) = true) by (eapply valid_sget; eauto).
      assert (D0 := IH o k l bs0 ents0 dc t0' d0' Hlike Hv0 Hl Hsv Eg).
      destruct (grow_at_node _ _ _ _ _ _ _ _ Eg) as [ents0' ->].
      rewrite <- (app_nil_r (jset k0 (Node bs0 ents0') ents)).
      apply (decode_node_gen o); rewrite ?app_nil_r.
      * eapply keys_ok_jset; eauto. split; auto.
      * apply Forall_jset; auto. intro. exact I.
      * apply Forall_jset; auto. intro. exact I.
      * rewrite (recs_jset k0 (Node bs0 ents0) (Node bs0 ents0') ents Ec eq_refl). exact Hfm.
      * intros k1 l1 Hin. apply in_jset in Hin as [Hin|Hin]; [auto|discriminate].
      * eapply F2_set; eauto.
    + destruct (reserved k0) eqn:Er0; [discriminate|].
      assert (Hs0 : sget k0 sl = None) by (eapply F2_keys_none; eauto).
      unfold sub_dir in Hg. rewrite Hs0 in Hg.
      change (save_over default_opts (Node bs []) empty_dir) with (encode default_opts (Node bs [])) in Hg.
      rewrite encode_empty_node in Hg. cbn [bind] in Hg.
      unfold load_meta in Hg. rewrite Hfm in Hg. cbn [bind] in Hg.
      destruct (grow_at rest k l (Node bs []) (Dir [(FMeta, CJson (JObj (tail3 bs)))] [])) as [[t0' d0']|] eqn:Eg;
        cbn [bind] in Hg; [|discriminate].
      inversion Hg; subst t' d'. clear Hg. cbn [fst snd].
      assert (D0 := IH o k l bs [] _ t0' d0' Hlike eq_refl Hl (encode_empty_node o bs) Eg).
      destruct (grow_at_node _ _ _ _ _ _ _ _ Eg) as [ents0' ->].
      rewrite (resave_meta_fresh bs ents k0 _ Hrsv Er0 Ec).
      rewrite (jset_fresh k0 d0' sl Hs0).
      apply (decode_node_gen o).
      * apply keys_ok_snoc; auto. split; auto.
      * apply Forall_snoc; auto. exact I.
      * apply Forall_snoc; auto. exact I.
      * rewrite fget_fset_same. reflexivity.
      * intros k1 l1 Hin. apply in_app_or in Hin as [Hin|[Hin|[]]]; [|discriminate].
        apply leaf_file_spec_fset_meta. auto.
      * rewrite filter_app. apply Forall2_app; [exact F2w|]. cbn. constructor; [split; auto|constructor].
Qed.

Lemma make_memmap_merge_nested_lemma : forall o t ks k l d t' d',
  valid_root o t = true -> leaf_ok o l = true -> encode o t = Ok d -> grow_at ks k l t d = Ok (t', d') ->
  decode d' = Ok (norm t').
Proof.
  intros o t ks k l d t' d' Hv Hl He Hg.
  unfold valid_root in Hv. apply andb_true_iff in Hv as [Hv _]. apply andb_true_iff in Hv as [Hv Hlike].
  apply negb_true_iff in Hlike.
  destruct t as [|bs ents| | | |]; try (destruct ks; cbn [grow_at] in Hg; discriminate).
  eapply grow_decode; eauto.
Qed.

(* when does the call return: every key on the way that exists is a TensorDict, the last key is new, and no key is a
   field name of meta.json *)
Fixpoint path_free (ks : list string) (k : string) (t : td) {struct ks} : bool :=
  match t with
  | Node bs ents =>
      match ks with
      | [] => negb (smem k ents) && negb (reserved k)
      | k0 :: rest =>
          match sget k0 ents with
          | Some (Node b e) => path_free rest k (Node b e)
          | Some _ => false
          | None => negb (reserved k0) && path_free rest k (Node bs [])
          end
      end
  | _ => false
  end.

Lemma grow_returns : forall ks o k l bs ents d,
  like o = false -> valid o (Node bs ents) = true -> encode o (Node bs ents) = Ok d ->
  path_free ks k (Node bs ents) = true -> exists t' d', grow_at ks k l (Node bs ents) d = Ok (t', d').
Proof.
  induction ks as [|k0 rest IH]; intros o k l bs ents d Hlike Hv Henc Hp;
    destruct (encode_node_shape o bs ents d Hlike Hv Henc) as (Hkeys & Hok & Hbs & sl & Hd & F2); subst d;
    assert (Hfm : fget FMeta (leaf_files ents ++ [(FMeta, CJson (JObj (recs ents ++ tail3 bs)))])
                  = Some (CJson (JObj (recs ents ++ tail3 bs))))
      by (rewrite fget_app_none by apply fget_meta_leaf_files; reflexivity).
  - cbn [path_free] in Hp. apply andb_true_iff in Hp as [H1 H2]. apply negb_true_iff in H1, H2.
    cbn [grow_at]. rewrite H1, H2. unfold load_meta. rewrite Hfm. cbn [bind]. eauto.
  - cbn [path_free] in Hp. cbn [grow_at].
    destruct (sget k0 ents) as [c|] eqn:Ec.
    + destruct c as [| bs0 ents0| | | |]; try discriminate.
      destruct (F2_get (saved_ok o) ents sl k0 (Node bs0 ents0) F2 Ec eq_refl) as (dc & Hdc & [Hsv Hld]).
      unfold sub_dir. rewrite Hdc.
      assert (Hv0 : valid o (Node bs0 ents0) = true) by (eapply valid_sget; eauto).
      destruct (IH o k l bs0 ents0 dc Hlike Hv0 Hsv Hp) as (t0 & d0 & G). rewrite G. cbn [bind]. eauto.
    + apply andb_true_iff in Hp as [H1 H2]. apply negb_true_iff in H1. rewrite H1.
      assert (Hs0 : sget k0 sl = None) by (eapply F2_keys_none; eauto).
      unfold sub_dir. rewrite Hs0.
      change (save_over default_opts (Node bs []) empty_dir) with (encode default_opts (Node bs [])).
      rewrite encode_empty_node. cbn [bind]. unfold load_meta. rewrite Hfm. cbn [bind].
      destruct (IH o k l bs [] _ Hlike eq_refl (encode_empty_node o bs) H2) as (t0 & d0 & G). rewrite G. cbn [bind]. eauto.
Qed.

Lemma make_memmap_nested_returns_lemma : forall o t ks k l d,
  valid_root o t = true -> encode o t = Ok d -> path_free ks k t = true ->
  exists t' d', grow_at ks k l t d = Ok (t', d').
Proof.
  intros o t ks k l d Hv He Hp.
  unfold valid_root in Hv. apply andb_true_iff in Hv as [Hv _]. apply andb_true_iff in Hv as [Hv Hlike].
  apply negb_true_iff in Hlike.
  destruct t as [|bs ents| | | |]; try (destruct ks; cbn [path_free] in Hp; discriminate).
  eapply grow_returns; eauto.
Qed.
