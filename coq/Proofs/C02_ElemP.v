(* C02 proofs, part 13: the ELEMENT level.  "Each entry equals the same operation applied to that entry's batch dims
   with its trailing feature dims untouched": for every torch call (o', bs ++ feat) that tensordict's method o makes on
   a tensor of a well-formed tree with batch size bs, the element map of that call is (element map of o on a tensor of
   the batch shape) (x) (identity on feat):   e_src o' (bs ++ feat) (r ++ f) = e_src o bs r ++ f.
   Proved for the order-preserving family (view, reshape, flatten, unflatten, squeeze, unsqueeze) from the
   ravel / unravel lemma, and for expand, repeat, repeat_interleave(dim) dim by dim; any depth of nesting. *)
From Coq Require Import ZArith List Bool Lia ZifyBool String.
Import ListNotations.
From TD Require Import Spec.PySlice Spec.C02_TorchShape Spec.C02_TorchElem Model.C02_ShapeOps Model.C02_Elem
                       Proofs.C02_FrameP Proofs.C02_OpsP Proofs.C02_InferP Proofs.C02_RejLiftP Proofs.C02_RejOpsP.
Open Scope Z_scope.

Definition inb (idx s : list Z) : Prop := Forall2 (fun i n => 0 <= i < n) idx s.

Lemma inb_length r s : inb r s -> List.length r = List.length s.
Proof. induction 1 as [|i n r s _ _ IH]; [reflexivity|]. cbn [List.length]. rewrite IH. reflexivity. Qed.

Lemma prodZ_cons n s : prodZ (n :: s) = n * prodZ s.
Proof. reflexivity. Qed.

(* ------------------------------------------------------------------ ravel / unravel *)
Lemma ravel_app r f bs tl : List.length r = List.length bs ->
  ravel (r ++ f) (bs ++ tl) = ravel r bs * prodZ tl + ravel f tl.
Proof.
  revert bs. induction r as [|i r IH]; intros [|n bs] H; cbn [List.length] in H; try discriminate.
  - cbn [app ravel]. lia.
  - cbn [app ravel]. rewrite IH by lia. rewrite prodZ_app. ring.
Qed.

Lemma ravel_bound f tl : inb f tl -> 0 <= ravel f tl < prodZ tl.
Proof.
  induction 1 as [|i n f tl Hi HF IH]; [cbn; lia|]. cbn [ravel]. rewrite prodZ_cons. nia.
Qed.

Lemma unravel_ravel f tl : inb f tl -> unravel (ravel f tl) tl = f.
Proof.
  induction 1 as [|i n f tl Hi HF IH]; [reflexivity|]. cbn [ravel unravel].
  pose proof (ravel_bound f tl HF) as [B1 B2].
  rewrite Z.div_add_l by lia. rewrite (Z.div_small (ravel f tl)) by lia. rewrite Z.add_0_r.
  rewrite Z.add_comm, Z.mod_add by lia. rewrite Z.mod_small by lia. rewrite IH. reflexivity.
Qed.

Lemma unravel_app a b bs tl : nonneg bs -> 0 <= a < prodZ bs -> 0 <= b < prodZ tl ->
  unravel (a * prodZ tl + b) (bs ++ tl) = unravel a bs ++ unravel b tl.
Proof.
  revert a. induction bs as [|n bs IH]; intros a Hn Ha Hb.
  - cbn in Ha. assert (a = 0) by lia. subst. cbn [app unravel]. f_equal; lia.
  - apply nonneg_cons in Hn. destruct Hn as [Hn0 Hn]. rewrite prodZ_cons in Ha.
    pose proof (prodZ_nonneg bs Hn) as HS.
    assert (HS' : 0 < prodZ bs) by nia. assert (HT : 0 < prodZ tl) by lia.
    cbn [app unravel]. rewrite prodZ_app.
    assert (E1 : (a * prodZ tl + b) / (prodZ bs * prodZ tl) = a / prodZ bs).
    { rewrite (Z.mul_comm (prodZ bs)), <- Z.div_div by lia. rewrite Z.div_add_l by lia.
      rewrite (Z.div_small b) by lia. rewrite Z.add_0_r. reflexivity. }
    assert (E2 : (a * prodZ tl + b) mod (prodZ bs * prodZ tl) = (a mod prodZ bs) * prodZ tl + b).
    { rewrite (Z.mul_comm (prodZ bs)), Z.rem_mul_r by lia. rewrite Z.div_add_l by lia.
      rewrite (Z.div_small b) by lia. rewrite Z.add_0_r.
      rewrite (Z.add_comm (a * prodZ tl)), Z.mod_add by lia. rewrite (Z.mod_small b) by lia. ring. }
    rewrite E1, E2. rewrite IH; [reflexivity|exact Hn|apply Z.mod_pos_bound; lia|exact Hb].
Qed.

(* the lemma of the reshaping family: keeping the row-major order of batch ++ feat = keeping it on the batch, for every feat *)
Lemma reshape_tensor s s' tl r f : nonneg s -> prodZ s = prodZ s' -> inb r s' -> inb f tl ->
  e_reshape (s ++ tl) (s' ++ tl) (r ++ f) = e_reshape s s' r ++ f.
Proof.
  intros Hn Hp Hr Hf. unfold e_reshape. rewrite ravel_app by (apply inb_length; exact Hr).
  rewrite unravel_app; [rewrite (unravel_ravel f tl Hf); reflexivity|exact Hn|rewrite Hp; apply ravel_bound; exact Hr|apply ravel_bound; exact Hf].
Qed.

(* ------------------------------------------------------------------ dim-wise maps *)
Lemma map2_app {A B C} (g : A -> B -> C) a1 a2 b1 b2 : List.length a1 = List.length b1 ->
  map2 g (a1 ++ a2) (b1 ++ b2) = map2 g a1 b1 ++ map2 g a2 b2.
Proof.
  revert b1. induction a1 as [|x a1 IH]; intros [|y b1] H; cbn [List.length] in H; try discriminate; [reflexivity|].
  cbn [app map2]. rewrite IH by lia. reflexivity.
Qed.

Lemma map2_expand_id f tl : inb f tl -> map2 (fun n x => if n =? 1 then 0 else x) tl f = f.
Proof.
  induction 1 as [|i n f tl Hi HF IH]; [reflexivity|]. cbn [map2]. rewrite IH. destruct (n =? 1) eqn:E; f_equal; lia.
Qed.

Lemma map2_mod_id f tl : inb f tl -> map2 (fun n x => x mod n) tl f = f.
Proof.
  induction 1 as [|i n f tl Hi HF IH]; [reflexivity|]. cbn [map2]. rewrite IH. rewrite Z.mod_small by lia. reflexivity.
Qed.

Lemma inb_app r f a b : inb r a -> inb f b -> inb (r ++ f) (a ++ b).
Proof. apply Forall2_app. Qed.

(* ------------------------------------------------------------------ families of calls *)
Definition fam (o : sop) : nat :=
  match o with OPermute _ => 0 | OTranspose _ _ => 1 | OExpand _ => 3 | ORepeat _ => 4 | ORepInt _ _ => 5 | _ => 2 end%nat.

Lemma node_step_child_fam o bs nm bs' nm' child : node_step o bs nm = Done (SStep bs' nm' child) ->
  forall csh, fam (child csh) = fam o.
Proof.
  intros H csh.
  destruct o as [dims|d0 d1|d|d|sh|sh|sh|sh|a b|d sizes|reps|r d|ds|bs1 n1 ds]; cbn [node_step] in H.
  - destruct (existsb _ _); [discriminate|]. destruct (negb _); [discriminate|]. destruct (is_identity _); [discriminate|].
    injection H as _ _ <-. reflexivity.
  - destruct (_ || _); [discriminate|]. destruct (Nat.eqb _ _); [discriminate|]. injection H as _ _ <-. reflexivity.
  - destruct d as [d|].
    + destruct (correct_neg_dim _ _); try discriminate. cbn [bindo] in H. destruct (negb _); [discriminate|].
      injection H as _ _ <-. reflexivity.
    + destruct (list_eqb _ _); [discriminate|]. injection H as _ _ <-. reflexivity.
  - destruct (_ || _); [discriminate|]. injection H as _ _ <-. reflexivity.
  - destruct (_ <? _)%nat; [discriminate|]. destruct (existsb _ _); [discriminate|]. injection H as _ _ <-. reflexivity.
  - destruct (if existsb _ _ then _ else _); try discriminate. cbn [bindo] in H. destruct (list_eqb _ _); [discriminate|].
    injection H as _ _ <-. reflexivity.
  - destruct (if existsb _ _ then _ else _); try discriminate. cbn [bindo] in H. destruct (list_eqb _ _); [discriminate|].
    injection H as _ _ <-. reflexivity.
  - destruct (if existsb _ _ then _ else _); try discriminate. cbn [bindo] in H. destruct (list_eqb _ _); [discriminate|].
    injection H as _ _ <-. reflexivity.
  - destruct (fixed_S5 && _); [discriminate|]. destruct (_ && _); [discriminate|]. destruct (_ <=? _); [discriminate|].
    injection H as _ _ <-. reflexivity.
  - destruct (correct_neg_dim _ _); try discriminate. cbn [bindo] in H.
    destruct (if fixed_C02g && _ then _ else _); try discriminate. cbn [bindo] in H. injection H as _ _ <-. reflexivity.
  - destruct (negb _); [discriminate|]. injection H as _ _ <-. reflexivity.
  - destruct bs; [discriminate|]. destruct (_ <? 0); [discriminate|]. destruct (fixed_S5 && _); [discriminate|].
    injection H as _ _ <-. reflexivity.
  - destruct (squeeze_chain _ _ _ _) as [[[b l] sq]| | |]; try discriminate. cbn [bindo] in H. destruct sq; [discriminate|].
    injection H as _ _ <-. reflexivity.
  - destruct (squeeze_chain _ _ _ _) as [[[b l] sq]| | |]; try discriminate. cbn [bindo] in H. destruct sq; [discriminate|].
    injection H as _ _ <-. reflexivity.
Qed.

Lemma e_src_reshape o s r : fam o = 2%nat -> e_src o s r = match leaf_op o s with Done s' => Some (e_reshape s s' r) | _ => None end.
Proof. destruct o; cbn [fam]; intros H; try discriminate; reflexivity. Qed.

(* ------------------------------------------------------------------ one step: the call made on an entry vs the call
   made on the node that holds it *)
Lemma step_reshape o oc B B' tl2 r f :
  fam o = 2%nat -> fam oc = 2%nat -> leaf_op o B = Done B' -> leaf_op oc (B ++ tl2) = Done (B' ++ tl2) ->
  nonneg B -> prodZ B = prodZ B' -> inb r B' -> inb f tl2 ->
  e_src o B r = Some (e_reshape B B' r) /\ e_src oc (B ++ tl2) (r ++ f) = Some (e_reshape B B' r ++ f).
Proof.
  intros Ho Hoc Hl Hlc Hn Hp Hr Hf. rewrite !e_src_reshape by assumption. rewrite Hl, Hlc.
  rewrite reshape_tensor by assumption. split; reflexivity.
Qed.

Lemma step_expand tgt B B' nm nm' child tl2 r f :
  node_step (OExpand tgt) B nm = Done (SStep B' nm' child) -> inb r B' -> inb f tl2 ->
  e_src (child (B ++ tl2)) (B ++ tl2) (r ++ f) = Some (e_expand B (List.length tgt) r ++ f).
Proof.
  intros Hs Hr Hf.
  assert (Hl : (List.length B <= List.length tgt)%nat).
  { cbn [node_step] in Hs. destruct (_ <? _)%nat eqn:E; [discriminate|]. apply Nat.ltb_ge in E. exact E. }
  destruct (node_expand_any tgt B nm Hl) as [H|[_ [nm0 H]]]; [congruence|]. cbv zeta in H.
  rewrite Hs in H. injection H as HB _ Hc. subst child.
  set (k := (List.length tgt - List.length B)%nat) in *.
  assert (HlB' : List.length B' = List.length tgt).
  { rewrite HB, app_length, map_length, combine_length, firstn_length, skipn_length. lia. }
  cbv beta. rewrite app_length. replace (List.length B + List.length tl2 - List.length B)%nat with (List.length tl2) by lia.
  assert (Hchild : OExpand (match List.length tl2 with O => B' | S _ => B' ++ lastn (List.length tl2) (B ++ tl2) end) = OExpand (B' ++ tl2)).
  { destruct tl2 as [|x tl2]; [cbn; rewrite app_nil_r; reflexivity|]. rewrite lastn_app. reflexivity. }
  rewrite <- HB. rewrite Hchild. cbn [e_src]. f_equal. unfold e_expand. rewrite !app_length, HlB'.
  replace (List.length tgt + List.length tl2 - (List.length B + List.length tl2))%nat with k by lia. fold k.
  pose proof (inb_length _ _ Hr) as Hlr. rewrite skipn_app_l by lia.
  rewrite map2_app by (rewrite skipn_length; lia). rewrite (map2_expand_id f tl2 Hf). reflexivity.
Qed.

Lemma step_repeat reps B B' nm nm' child tl2 r f :
  node_step (ORepeat reps) B nm = Done (SStep B' nm' child) -> inb r B' -> inb f tl2 ->
  e_src (child (B ++ tl2)) (B ++ tl2) (r ++ f) = Some (e_repeat B (List.length reps) r ++ f).
Proof.
  intros Hs Hr Hf. cbn [node_step] in Hs. destruct (Nat.eqb (List.length reps) (List.length B)) eqn:E; [|discriminate].
  apply Nat.eqb_eq in E. cbn [negb] in Hs. injection Hs as HB _ Hc. subst child. cbv beta. cbn [e_src]. f_equal.
  pose proof (inb_length _ _ Hr) as Hlr.
  assert (HlB' : List.length B' = List.length B).
  { rewrite <- HB. clear - E. revert reps E. induction B as [|x B IH]; intros [|y reps] E; cbn in *; try lia. rewrite (IH reps); lia. }
  unfold e_repeat. rewrite !app_length, repeat_length.
  replace (List.length reps + (List.length B + List.length tl2 - List.length B) - (List.length B + List.length tl2))%nat with 0%nat by lia.
  replace (List.length reps - List.length B)%nat with 0%nat by lia. cbn [skipn].
  rewrite map2_app by lia. rewrite (map2_mod_id f tl2 Hf). reflexivity.
Qed.

Lemma step_repint rep d B B' nm nm' child tl2 r f :
  node_step (ORepInt rep d) B nm = Done (SStep B' nm' child) -> inb r B' -> inb f tl2 ->
  exists i, wrap_dim d (List.length B) = Ok i /\
            e_src (child (B ++ tl2)) (B ++ tl2) (r ++ f) = Some (e_repint rep i r ++ f).
Proof.
  intros Hs Hr Hf. cbn [node_step] in Hs. destruct B as [|b0 B0] eqn:EB; [discriminate|]. rewrite <- EB in *.
  set (dc := if 0 <=? d then d else Z.of_nat (List.length B) + d) in *.
  destruct (dc <? 0) eqn:E1; [discriminate|]. change fixed_S5 with true in Hs. cbn [andb] in Hs.
  destruct (Z.of_nat (List.length B) <=? dc) eqn:E2; [discriminate|]. injection Hs as HB _ Hc. subst child. cbv beta.
  assert (HlB' : List.length B' = List.length B).
  { rewrite <- HB, map_length, combine_length, seq_length. lia. }
  pose proof (inb_length _ _ Hr) as Hlr.
  exists (Z.to_nat dc). split.
  - unfold wrap_dim. destruct ((d <? - Z.of_nat (List.length B)) || (Z.of_nat (List.length B) <=? d)) eqn:E;
      [unfold dc in *; destruct (0 <=? d) eqn:E0; lia|]. f_equal. unfold dc. destruct (0 <=? d) eqn:E0; destruct (d <? 0) eqn:E3; lia.
  - cbn [e_src]. unfold wrap_dim. rewrite app_length.
    destruct ((dc <? - Z.of_nat (List.length B + List.length tl2)) || (Z.of_nat (List.length B + List.length tl2) <=? dc)) eqn:E; [lia|].
    destruct (dc <? 0) eqn:E3; [lia|]. f_equal. unfold e_repint.
    rewrite nthZ_app_l by lia. rewrite set_nth_app_l by lia. reflexivity.
Qed.

(* ------------------------------------------------------------------ the numbers of elements of the reshaping family *)
Lemma prodZ_split (s : list Z) i : (i < List.length s)%nat -> prodZ s = prodZ (firstn i s) * nthZ s i * prodZ (skipn (S i) s).
Proof.
  revert i. induction s as [|x s IH]; intros i H; cbn [List.length] in H; [lia|]. destruct i.
  - unfold nthZ. cbn [firstn skipn nth]. rewrite prodZ_cons. change (prodZ []) with 1. lia.
  - cbn [firstn]. change (skipn (S (S i)) (x :: s)) with (skipn (S i) s). rewrite !prodZ_cons. unfold nthZ in *. cbn [nth]. rewrite (IH i) by lia. ring.
Qed.

Lemma skipn_add {A} (l : list A) a b : skipn a (skipn b l) = skipn (b + a) l.
Proof.
  revert l. induction b as [|b IH]; intros l; [reflexivity|]. destruct l as [|x l]; [cbn [skipn Nat.add]; apply skipn_nil|].
  cbn [skipn Nat.add]. apply IH.
Qed.

Lemma reshape_numel o bs bs' : fam o = 2%nat -> nonneg bs -> torch_shape o bs = Ok bs' -> prodZ bs' = prodZ bs.
Proof.
  intros Hf Hn Ht.
  destruct o as [dims|d0 d1|d|d|sh|sh|sh|sh|a b|d sizes|reps|r d|ds|bs1 n1 ds]; cbn [fam torch_shape] in *; try discriminate.
  - destruct d as [d|].
    + unfold t_squeeze_dim in Ht. destruct (wrap_dim_scalar d _) as [i|] eqn:Ei; [|discriminate]. cbn [bind] in Ht.
      destruct bs as [|b0 bs0] eqn:Eb; [injection Ht as <-; reflexivity|]. rewrite <- Eb in *.
      rewrite wrap_dim_scalar_pos in Ei by (rewrite Eb; cbn; lia). apply wrap_dim_ok in Ei. destruct Ei as [Hi _].
      destruct (nthZ bs i =? 1) eqn:E1; injection Ht as <-; [|reflexivity].
      unfold remove_nth. rewrite prodZ_app. rewrite (prodZ_split bs i Hi). lia.
    + unfold t_squeeze_all in Ht. injection Ht as <-. apply prodZ_filter1.
  - unfold t_unsqueeze in Ht. destruct (wrap_dim d _) as [i|] eqn:Ei; [|discriminate]. cbn [bind] in Ht. injection Ht as <-.
    unfold insert_nth. rewrite prodZ_app, prodZ_cons. rewrite <- (firstn_skipn i bs) at 3. rewrite prodZ_app. lia.
  - unfold t_view, numel in Ht. apply infer_size_ok in Ht; [tauto|apply prodZ_nonneg; exact Hn].
  - unfold t_view, numel in Ht. apply infer_size_ok in Ht; [tauto|apply prodZ_nonneg; exact Hn].
  - unfold t_reshape, t_view, numel in Ht. apply infer_size_ok in Ht; [tauto|apply prodZ_nonneg; exact Hn].
  - unfold t_flatten in Ht. destruct (wrap_dim_scalar a _) as [i|] eqn:Ei; [|discriminate].
    destruct (wrap_dim_scalar b _) as [j|] eqn:Ej; [|discriminate]. cbn [bind] in Ht.
    destruct bs as [|b0 bs0] eqn:Eb; [injection Ht as <-; reflexivity|]. rewrite <- Eb in *.
    rewrite wrap_dim_scalar_pos in Ei, Ej by (rewrite Eb; cbn; lia). apply wrap_dim_ok in Ei, Ej. destruct Ei as [Hi _]. destruct Ej as [Hj _].
    destruct (j <? i)%nat eqn:E1; [discriminate|]. apply Nat.ltb_ge in E1.
    destruct (Nat.eqb i j); injection Ht as <-; [reflexivity|].
    rewrite prodZ_app, prodZ_cons. rewrite <- (firstn_skipn i bs) at 4. rewrite prodZ_app. f_equal.
    rewrite <- (firstn_skipn (S j - i) (skipn i bs)) at 2. rewrite prodZ_app. f_equal. rewrite skipn_add. replace (i + (S j - i))%nat with (S j) by lia. reflexivity.
  - unfold t_unflatten in Ht. destruct (wrap_dim d _) as [i|] eqn:Ei; [|discriminate]. cbn [bind] in Ht.
    destruct sizes as [|z sizes]; [discriminate|]. destruct (infer_size (z :: sizes) (nthZ bs i)) as [sz|] eqn:Es; [|discriminate].
    cbn [bind] in Ht. injection Ht as <-. apply wrap_dim_ok in Ei. destruct Ei as [Hi _].
    apply infer_size_ok in Es; [|apply nonneg_nth; exact Hn]. destruct Es as [_ [Hp _]].
    rewrite !prodZ_app, Hp. rewrite (prodZ_split bs i Hi).
    change (match bs with [] => [] | _ :: l => skipn i l end) with (skipn (S i) bs). ring.
Qed.

(* ------------------------------------------------------------------ the theorem *)
Definition elem_prop (o : sop) (B B' : list Z) (c : sop * list Z) : Prop :=
  exists feat, snd c = B ++ feat /\
    forall r f, inb r B' -> inb f feat ->
      exists v, e_src o B r = Some v /\ e_src (fst c) (snd c) (r ++ f) = Some (v ++ f).

Lemma inb_app_inv f a b : inb f (a ++ b) -> exists f1 f2, f = f1 ++ f2 /\ inb f1 a /\ inb f2 b.
Proof. intros H. apply Forall2_app_inv_r in H. destruct H as [f1 [f2 [H1 [H2 E]]]]. eauto. Qed.

Lemma e_src_defined o bs bs' tl r : K o bs bs' tl -> (2 <= fam o)%nat -> nonneg (bs ++ tl) -> exists v, e_src o (bs ++ tl) r = Some v.
Proof.
  intros HK Hf Hn. destruct (Nat.eq_dec (fam o) 2) as [E2|N2].
  - rewrite e_src_reshape by exact E2. rewrite (K_is_leaf _ _ _ _ HK Hn). eauto.
  - destruct HK; cbn [fam] in *; try lia; cbn [e_src]; eauto.
    + (* repeat_interleave, root call *)
      rewrite app_nil_r. unfold t_repeat_interleave in *.
      match goal with H : (if ?r <? 0 then _ else _) = Ok _ |- _ => destruct (r <? 0); [discriminate|] end.
      destruct bs as [|b0 bs0]; [congruence|]. match goal with H : bind (wrap_dim ?d ?n) _ = Ok _ |- _ => destruct (wrap_dim d n); [eauto|discriminate] end.
    + rewrite wrap_dim_nat by (rewrite app_length; lia). eauto.
Qed.

Theorem elem_lifts : forall t o bs bs' tl,
  K o bs bs' tl -> (2 <= fam o)%nat -> (fam o = 2%nat -> prodZ bs = prodZ bs') -> wf t -> top_shape t = bs ++ tl ->
  Forall (elem_prop o (bs ++ tl) (bs' ++ tl)) (leaf_calls t o).
Proof.
  induction t as [sh|b nm ents IH] using tree_ind'; intros o bs bs' tl HK Hf Hp Hw Ht; cbn [top_shape] in Ht; subst.
  - inversion Hw as [? Hn|]; subst. cbn [leaf_calls]. constructor; [|constructor]. exists []. cbn [fst snd].
    split; [rewrite app_nil_r; reflexivity|]. intros r f Hr Hfe. inversion Hfe; subst. rewrite !app_nil_r.
    destruct (e_src_defined o bs bs' tl r HK Hf Hn) as [v Hv]. exists v. rewrite Hv, app_nil_r. split; reflexivity.
  - inversion Hw as [|? ? ? Hnn Hnm HF]; subst. cbn [leaf_calls].
    destruct (K_is_node _ _ _ _ nm HK Hnn Hnm) as [[Hs Heq]|(nm' & child & Hs & Hc & Hu)]; rewrite Hs; [constructor|].
    pose proof (K_is_nonneg _ _ _ _ HK) as Hnn'.
    clear Hw. induction ents as [|[k c] l IHl]; [constructor|].
    pose proof (Forall_inv IH) as IHc. pose proof (Forall_inv_tail IH) as IHr.
    pose proof (Forall_inv HF) as [Hwc [tl2 Hcs]]. pose proof (Forall_inv_tail HF) as HFr. cbn [snd] in *.
    apply Forall_app. split; [|apply IHl; [exact IHr|exact HFr]].
    assert (Hnn2 : nonneg tl2).
    { assert (Hn : nonneg (top_shape c)) by (inversion Hwc; subst; assumption).
      rewrite Hcs in Hn. apply nonneg_app in Hn. tauto. }
    pose proof (Hc tl2 Hnn2) as HKc. rewrite <- app_assoc in Hcs. rewrite <- Hcs in HKc.
    assert (Hfc : fam (child (top_shape c)) = fam o) by (eapply node_step_child_fam; exact Hs).
    assert (IHc' := IHc (child (top_shape c)) (bs ++ tl) (bs' ++ tl) tl2 HKc ltac:(lia)
                      ltac:(intros E; rewrite !prodZ_app; rewrite Hp by (rewrite <- Hfc; exact E); reflexivity) Hwc ltac:(rewrite Hcs, app_assoc; reflexivity)).
    rewrite Forall_forall in *. intros call Hin. specialize (IHc' call Hin).
    destruct IHc' as [feat [Esh Hmap]]. exists (tl2 ++ feat). split; [rewrite Esh, <- app_assoc; reflexivity|].
    intros r f Hr Hfe. apply inb_app_inv in Hfe. destruct Hfe as [f2 [f' [-> [Hf2 Hf']]]].
    destruct (Hmap (r ++ f2) f' (inb_app _ _ _ _ Hr Hf2) Hf') as [v' [Hv' Hleaf]].
    (* the step: the call on the entry against the call on this node *)
    assert (Hstep : exists v, e_src o (bs ++ tl) r = Some v /\ e_src (child (top_shape c)) ((bs ++ tl) ++ tl2) (r ++ f2) = Some (v ++ f2)).
    { destruct (Nat.eq_dec (fam o) 2) as [E2|N2].
      - exists (e_reshape (bs ++ tl) (bs' ++ tl) r).
        apply (step_reshape o (child (top_shape c)) (bs ++ tl) (bs' ++ tl) tl2 r f2);
          [exact E2|rewrite Hfc; exact E2|apply (K_is_leaf _ _ _ _ HK Hnn)| |exact Hnn|rewrite !prodZ_app, (Hp E2); reflexivity|exact Hr|exact Hf2].
        pose proof (K_is_leaf _ _ _ _ HKc) as HL. apply HL. apply nonneg_app. tauto.
      - rewrite Hcs, app_assoc.
        destruct o as [dims|d0 d1|d|d|sh|sh|sh|sh|a b|d sizes|reps|rep d|ds|bs1 n1 ds]; cbn [fam] in *; try lia.
        + eexists. split; [reflexivity|]. eapply step_expand; eassumption.
        + eexists. split; [reflexivity|]. eapply step_repeat; eassumption.
        + destruct (step_repint rep d _ _ _ _ _ tl2 r f2 Hs Hr Hf2) as [i [Hi He]]. eexists. cbn [e_src]. rewrite Hi. split; [reflexivity|exact He]. }
    destruct Hstep as [v [Hv Hchild]]. exists v. split; [exact Hv|].
    rewrite Hchild in Hv'. injection Hv' as <-.
    rewrite <- app_assoc in Hleaf. rewrite Hleaf, <- app_assoc. reflexivity.
Qed.

Definition elem_domain (o : sop) : Prop := (2 <= fam o)%nat.

(* For every well-formed tree, every one-result operation of the families above and every argument torch accepts
   for the batch shape: EVERY torch call tensordict makes on a tensor of the tree (at any depth) is made on a tensor of
   shape bs ++ feat and has the element map  (element map of o on the batch shape) (x) id_feat. *)
Theorem elements_follow_batch_dims : forall t o bs',
  wf t -> is_node t -> in_domain o (top_shape t) -> elem_domain o -> torch_shape o (top_shape t) = Ok bs' ->
  Forall (fun c => exists feat, snd c = top_shape t ++ feat /\
            forall r f, inb r bs' -> inb f feat ->
              exists v, e_src o (top_shape t) r = Some v /\ e_src (fst c) (snd c) (r ++ f) = Some (v ++ f))
         (leaf_calls t o).
Proof.
  intros t o bs' Hw Hn Hd He Ht.
  assert (Hnb : nonneg (top_shape t)) by (destruct t; inversion Hw; assumption).
  pose proof (elem_lifts t o (top_shape t) bs' [] (legal_in_K _ _ _ Hd Ht) He
                ltac:(intros E; symmetry; apply (reshape_numel o); assumption) Hw ltac:(rewrite app_nil_r; reflexivity)) as H.
  rewrite !app_nil_r in H. exact H.
Qed.
