(* C20 — exception classes: which option points are refused at the root and with which class; KeyError only without default=. *)
From Coq Require Import ZArith List String Bool Lia.
Import ListNotations.
From TD Require Import Model.C20_Apply Model.C20_Spec Proofs.C20_EraseP Proofs.C20_SpecP.
Open Scope string_scope.

Section RaiseP.
Variable A : Type.
Variable o : opts.
Variable fn : option (list string) -> tree A -> list (option (tree A)) -> option A.
Notation tree := (tree A).
Notation forest := (forest A).
Notation racc := (racc A).

Ltac inv H := inversion H; subst; clear H.

(* ------------------------------------------------------------------ the precondition on (options, out=), stated on its own *)
(* not in place, out= must be an unlocked tensordict whose batch size is the requested one (when one is requested) and
   whose device is the requested one (when one is requested) — a device mismatch is tolerated by _fast_apply(checked=True),
   which rewrites out's device, except for device=None *)
Definition root_refusal (out : option tree) : option err :=
  if o_inplace o then None
  else match out with
       | None => None
       | Some (Leaf _ _) => Some EAttr
       | Some (NonT _ _ _) => None
       | Some (Node _ om _) =>
           if m_lock om then Some ERuntime
           else match o_bs o with
                | Some b => if list_eqb Nat.eqb b (m_bs om) then None else Some ERuntime
                | None => None
                end
       end.
Definition device_refusal (out : option tree) : option err :=
  if o_inplace o then None
  else match out, o_dev o with
       | Some (Node _ om _), Some d =>
           if odev_eqb d (m_dev om) then None
           else if o_checked o then match d with None => Some EType | Some _ => None end
           else Some ERuntime
       | _, _ => None
       end.
Definition refusal (out : option tree) : option err :=
  match root_refusal out with Some e => Some e | None => device_refusal out end.

Lemma level_init_raises so sm sf out e :
  (forall ob d m, out <> Some (NonT ob d m)) ->
  (level_init A o so sm sf out = Raised e <-> refusal out = Some e).
Proof.
  intro Hn. unfold level_init, refusal, root_refusal, device_refusal.
  destruct (o_inplace o). { split; discriminate. }
  destruct out as [[s v|ob d m|oo om og]|].
  - split; intro H; now inv H.
  - exfalso. now apply (Hn ob d m).
  - destruct (m_lock om). { split; intro H; now inv H. }
    destruct (o_bs o) as [b|]; cbn [negb].
    + destruct (list_eqb Nat.eqb b (m_bs om)); cbn [negb]. 2:{ split; intro H; now inv H. }
      destruct (o_dev o) as [d|]; [|split; discriminate].
      destruct (odev_eqb d (m_dev om)); [split; discriminate|].
      destruct (o_checked o); [|split; intro H; now inv H]. destruct d; split; try discriminate; intro H; now inv H.
    + destruct (o_dev o) as [d|]; [|split; discriminate].
      destruct (odev_eqb d (m_dev om)); [split; discriminate|].
      destruct (o_checked o); [|split; intro H; now inv H]. destruct d; split; try discriminate; intro H; now inv H.
  - split; discriminate.
Qed.

(* raises_iff at the root: a refused (options, out=) pair raises the class of the refusal whatever the operands hold, and a
   call that raises with an admissible pair raises from below (an operand lookup, a nested out=, a write) *)
Theorem raises_root : forall con propagate so sm sf others out names,
  (forall ob d m, out <> Some (NonT ob d m)) ->
  (forall e, refusal out = Some e -> front A o fn con propagate (Node so sm sf) others out names = Raised e)
  /\ (forall r, front A o fn con propagate (Node so sm sf) others out names = Ok r -> refusal out = None)
  /\ (forall e, front A o fn con propagate (Node so sm sf) others out names = Raised e -> refusal out = None ->
        exists init, level_init A o so sm sf out = Ok init
                     /\ apply_items A o fn con [] sm sf others out names sf init false = Raised e).
Proof.
  intros con propagate so sm sf others out names Hn. unfold front, apply_nest. split; [|split].
  - intros e He. apply (level_init_raises so sm sf out e Hn) in He. now rewrite He.
  - intros r H. destruct (level_init A o so sm sf out) as [init|e|] eqn:Ei; try discriminate.
    destruct (refusal out) as [e|] eqn:Er; [|reflexivity].
    apply (level_init_raises so sm sf out e Hn) in Er. congruence.
  - intros e H Hr. destruct (level_init A o so sm sf out) as [init|e'|] eqn:Ei.
    + exists init. split; [reflexivity|]. cbn [bind] in H.
      destruct (apply_items A o fn con [] sm sf others out names sf init false) as [ra|e''|]; cbn [bind] in H; try discriminate. now inv H.
    + apply (level_init_raises so sm sf out e' Hn) in Ei. congruence.
    + discriminate.
Qed.

(* ------------------------------------------------------------------ KeyError only without default= *)
Lemma others_leaf_key dflt : forall others k, others_leaf A dflt others k = Raised EKey -> dflt = false.
Proof.
  induction others as [|ot r IH]; intros k H; cbn [others_leaf] in H; [discriminate|].
  destruct ot as [s v|ob d m|ob m f]; cbn [oget bind] in H; try discriminate.
  destruct (fget A f k).
  - destruct (others_leaf A dflt r k) eqn:E; cbn [bind] in H; try discriminate. inv H. now apply (IH k).
  - destruct dflt; [|reflexivity]. destruct (others_leaf A true r k) eqn:E; cbn [bind] in H; try discriminate. inv H. now apply (IH k).
Qed.
Lemma others_node_key dflt sub : forall others k, others_node A dflt sub others k = Raised EKey -> dflt = false.
Proof.
  induction others as [|ot r IH]; intros k H; cbn [others_node] in H; [discriminate|].
  destruct ot as [s v|ob d m|ob m f]; cbn [oget bind] in H; try discriminate.
  destruct (fget A f k).
  - destruct (others_node A dflt sub r k) eqn:E; cbn [bind] in H; try discriminate. inv H. now apply (IH k).
  - destruct dflt; [|reflexivity]. destruct (others_node A true sub r k) eqn:E; cbn [bind] in H; try discriminate. inv H. now apply (IH k).
Qed.
Lemma level_init_no_key so sm sf out : level_init A o so sm sf out <> Raised EKey.
Proof.
  unfold level_init. destruct (o_inplace o); [discriminate|].
  destruct out as [[| |oo om og]|]; try discriminate.
  destruct (m_lock om); [discriminate|].
  destruct (match o_bs o with Some b => negb (list_eqb Nat.eqb b (m_bs om)) | None => false end); [discriminate|].
  destruct (o_dev o) as [d|]; [|discriminate].
  destruct (odev_eqb d (m_dev om)); [discriminate|]. destruct (o_checked o); [|discriminate]. destruct d; discriminate.
Qed.
Lemma validate_no_key (r : racc) (v : tree) : validate A r v <> Raised EKey.
Proof.
  unfold validate. destruct (meta_of A v) as [vm0|]; [|discriminate].
  destruct (nil_b (m_bs (r_meta A r)) || list_eqb Nat.eqb (firstn (List.length (m_bs (r_meta A r))) (m_bs vm0)) (m_bs (r_meta A r))).
  - cbn [bind]. destruct (nil_b (m_bs (r_meta A r))); [discriminate|].
    match goal with |- context [meta_of A ?x] => destruct (meta_of A x) as [vm|] end; [|discriminate].
    destruct (m_names (r_meta A r)) as [pn|].
    + destruct (list_eqb ostr_eqb (firstn_names (List.length (m_bs (r_meta A r))) vm) pn); [discriminate|].
      destruct (negb (refine_ok (names_list vm) pn)); [discriminate|].
      destruct (negb (Nat.eqb (List.length pn) (List.length (m_bs vm)))); discriminate.
    + destruct (m_names vm); discriminate.
  - destruct v as [s x|ob p m|ob m g]; cbn [bind]; try discriminate.
    destruct (nil_b (m_bs (r_meta A r))); [discriminate|].
    match goal with |- context [meta_of A ?x] => destruct (meta_of A x) as [vm|] end; [|discriminate].
    destruct (m_names (r_meta A r)) as [pn|].
    + destruct (list_eqb ostr_eqb (firstn_names (List.length (m_bs (r_meta A r))) vm) pn); [discriminate|].
      destruct (negb (refine_ok (names_list vm) pn)); [discriminate|].
      destruct (negb (Nat.eqb (List.length pn) (List.length (m_bs vm)))); discriminate.
    + destruct (m_names vm); discriminate.
Qed.
Lemma set_item_no_key (r : racc) k (v : tree) : set_item A o r k v <> Raised EKey.
Proof.
  unfold set_item.
  assert (Hv : (if o_checked o then Ok (r, v) else validate A r v) <> Raised EKey).
  { destruct (o_checked o); [discriminate|apply validate_no_key]. }
  destruct (if o_checked o then Ok (r, v) else validate A r v) as [[r1 v1]|e|]; cbn [bind]; [|congruence|discriminate].
  destruct (if o_inplace o then fget A (r_f A r) k else None) as [d|].
  - destruct d as [s x|od dp dm|od dm df]; destruct v1 as [s1 x1|ov vp vm|ov vm vf]; try discriminate.
    + destruct s1; discriminate.
    + destruct (match ov, od with New, _ => true | Old b, Old a => Z.eqb a b | _, _ => false end); [discriminate|].
      destruct (m_lock dm); discriminate.
    + destruct od; [|discriminate]. destruct ov; [|discriminate]. destruct (Z.eqb z z0); discriminate.
  - destruct (m_lock (r_meta A r1)); discriminate.
Qed.

Definition K_items (items : forest) : Prop :=
  forall con prefix sm sf others out names acc any,
    apply_items A o fn con prefix sm sf others out names items acc any = Raised EKey -> o_default o = false.

Lemma key_items : forall items, K_items items.
Proof.
  apply (forest_mind A (fun t => match t with Node _ _ g => K_items g | _ => True end) K_items).
  - intros; exact I.
  - intros; exact I.
  - intros _ _ f IH. exact IH.
  - intros con prefix sm sf others out names acc any H. discriminate.
  - intros k item IHt rest IHr con prefix sm sf others out names acc any H. cbn [apply_items] in H.
    match type of H with bind ?T _ = _ => destruct T as [t|e|] eqn:Etr end; cbn [bind] in H; [| |discriminate].
    + (* the item's contribution is known: the write or the rest raises *)
      destruct t as [v|]; [|now apply (IHr _ _ _ _ _ _ _ _ _ H)].
      destruct (set_item A o match acc with Some a => a | None => make_result A o sm names end k v) as [acc'|e|] eqn:Es;
        cbn [bind] in H; [now apply (IHr _ _ _ _ _ _ _ _ _ H)| |discriminate].
      inv H. exfalso. now apply (set_item_no_key _ _ _ Es).
    + inv H. destruct (negb con && negb (o_is_leaf o (kind_of A item))).
      * destruct (others_node A (o_default o) (stand_in A item) others k) as [others'|e|] eqn:Eo; cbn [bind] in Etr; [| |discriminate].
        2:{ inv Etr. now apply others_node_key in Eo. }
        match type of Etr with bind ?T _ = _ => destruct T as [out_k|e|] eqn:Eok end; cbn [bind] in Etr; [| |discriminate].
        2:{ inv Etr. exfalso. unfold out_child in Eok.
            match type of Eok with match ?X with _ => _ end = _ => destruct X as [[| |]|] end; cbn [oget] in Eok; discriminate. }
        destruct item as [s v|io d im|io im g]; [discriminate|discriminate|].
        destruct (level_init A o io im g out_k) as [init|e|] eqn:Ei; cbn [bind] in Etr; [| |discriminate].
        2:{ inv Etr. exfalso. now apply (level_init_no_key _ _ _ _ Ei). }
        destruct (apply_items A o fn false (prefix ++ [k]) im g others' out_k None g init false) as [ra|e|] eqn:En; cbn [bind] in Etr; try discriminate.
        inv Etr. now apply (IHt _ _ _ _ _ _ _ _ _ En).
      * destruct (others_leaf A (o_default o) others k) as [args|e|] eqn:Eo; cbn [bind] in Etr; try discriminate.
        inv Etr. now apply others_leaf_key in Eo.
Qed.

Theorem keyerror_only_without_default : forall con propagate self others out names,
  front A o fn con propagate self others out names = Raised EKey -> o_default o = false.
Proof.
  intros con propagate self others out names H. destruct self as [| |so sm sf]; try discriminate.
  unfold front, apply_nest in H.
  destruct (level_init A o so sm sf out) as [init|e|] eqn:Ei; cbn [bind] in H; [| |discriminate].
  2:{ inv H. exfalso. now apply (level_init_no_key _ _ _ _ Ei). }
  destruct (apply_items A o fn con [] sm sf others out names sf init false) as [ra|e|] eqn:Ea; cbn [bind] in H; try discriminate.
  inv H. now apply (key_items sf _ _ _ _ _ _ _ _ _ Ea).
Qed.

(* and where the reference says KeyError (a key of self missing in an operand, no default=) the call does not return *)
Theorem keyerror_when_reference_says : forall con propagate so sm sf others out names,
  wf_keys A sf = true ->
  ref_apply A o fn con (Node so sm sf) others out = RKey ->
  forall r, front A o fn con propagate (Node so sm sf) others out names <> Ok r.
Proof.
  intros con propagate so sm sf others out names Hwf Hk r H.
  apply (apply_spec A o fn) in H; [|exact Hwf]. congruence.
Qed.

End RaiseP.
