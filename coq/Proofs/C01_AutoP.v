(* C01 — auto_batch_size_ (utils._set_max_batch_size) keeps a tree coherent in the growing regime: no batch_dims limit,
   or a limit that is not below the rank of any node of the subtree, when no node below carries dim names (the batch
   size assignments it performs then cannot fail half-way).  The shrinking regime is covered by the oracle only. *)
From Coq Require Import List String Bool Arith Lia.
Import ListNotations.
From TD Require Import Model.C01_Tree Model.C01_Ops Model.C01_Scope Proofs.C01_TreeP Proofs.C01_NamesP Proofs.C01_BatchP.
Open Scope string_scope.
Open Scope list_scope.

(* ---- the loop of _set_max_batch_size ---- *)
Lemma maxbs_acc : forall s0 rest k acc, prefixb acc (maxbs s0 rest k acc) = true.
Proof.
  induction s0 as [|x s0 IH]; intros rest k acc; cbn [maxbs]; [apply prefixb_refl|].
  destruct (forallb _ rest); [|apply prefixb_refl].
  eapply prefixb_trans; [|apply IH].
  destruct k as [kk|]; [destruct (Nat.ltb (List.length acc) kk)|]; try apply prefixb_app; apply prefixb_refl.
Qed.

Lemma prefixb_split : forall p s, prefixb p s = true -> exists s', s = p ++ s'.
Proof.
  induction p as [|x p IH]; intros s H; [now exists s|].
  destruct s as [|y s]; [discriminate|]. cbn in H. apply andb_true_iff in H as [H1 H2].
  apply Nat.eqb_eq in H1. subst. destruct (IH _ H2) as [s' ->]. now exists s'.
Qed.

Lemma maxbs_common : forall p s0 rest k acc,
  (match k with None => True | Some kk => List.length acc + List.length p <= kk end) ->
  maxbs (p ++ s0) (map (app p) rest) k acc = maxbs s0 rest k (acc ++ p).
Proof.
  induction p as [|x p IH]; intros s0 rest k acc Hk.
  - cbn [app]. rewrite app_nil_r. f_equal. induction rest; cbn; congruence.
  - change ((x :: p) ++ s0) with (x :: (p ++ s0)). cbn [maxbs].
    assert (Hall : forallb (fun sh => match sh with [] => false | y :: _ => Nat.eqb y x end) (map (app (x :: p)) rest) = true).
    { apply forallb_forall. intros sh Hin. apply in_map_iff in Hin as (r & <- & _). cbn. apply Nat.eqb_refl. }
    rewrite Hall.
    assert (Htl : map (@tl nat) (map (app (x :: p)) rest) = map (app p) rest).
    { rewrite map_map. apply map_ext. reflexivity. }
    rewrite Htl.
    assert (Hacc : (match k with None => acc ++ [x] | Some kk => if Nat.ltb (List.length acc) kk then acc ++ [x] else acc end) = acc ++ [x]).
    { destruct k as [kk|]; [|reflexivity]. cbn [List.length] in Hk.
      destruct (Nat.ltb (List.length acc) kk) eqn:E; [reflexivity|]. apply Nat.ltb_ge in E. lia. }
    rewrite Hacc, IH.
    + now rewrite <- app_assoc.
    + destruct k as [kk|]; [|exact I]. rewrite app_length. cbn [List.length] in *. lia.
Qed.

Lemma maxbs_prefix : forall p s0 rest k,
  prefixb p s0 = true -> Forall (fun sh => prefixb p sh = true) rest ->
  (match k with None => True | Some kk => List.length p <= kk end) ->
  prefixb p (maxbs s0 rest k []) = true.
Proof.
  intros p s0 rest k H0 Hr Hk.
  destruct (prefixb_split _ _ H0) as [s0' ->].
  assert (Hrest : exists rest', rest = map (app p) rest').
  { induction rest as [|sh r IH]; [now exists []|]. inversion Hr as [|? ? Hsh Hr']; subst.
    destruct (prefixb_split _ _ Hsh) as [sh' ->]. destruct (IH Hr') as [r' ->]. now exists (sh' :: r'). }
  destruct Hrest as [rest' ->].
  rewrite maxbs_common; [|destruct k; [exact Hk|exact I]]. cbn [app]. apply maxbs_acc.
Qed.

(* ---- ranks of the nodes of a subtree (Model/C01_Scope.max_rank) ---- *)
Lemma max_rank_child : forall k bs dv nm es kv, In kv es -> max_rank (snd kv) <= max_rank (Node k bs dv nm es).
Proof.
  intros k bs dv nm es kv Hin. cbn [max_rank]. etransitivity; [|apply Nat.le_max_r].
  induction es as [|x r IH]; [contradiction|]. cbn [fold_right]. destruct Hin as [->|Hin]; [apply Nat.le_max_l|].
  etransitivity; [apply IH; exact Hin|apply Nat.le_max_r].
Qed.

Definition auto_scope (k : option nat) (p : list nat) (t : tree) : Prop :=
  match k with None => True | Some kk => List.length p <= kk /\ max_rank t <= kk end.

Lemma auto_bs_no_names : forall t k, no_names t = true -> no_names (fst (auto_bs t k)) = true.
Proof.
  induction t as [sh dd|kd bs dv nm es IH] using tree_ind2; intros k Hn; [reflexivity|].
  cbn [auto_bs].
  match goal with |- context [seq_children ?g es] => set (g0 := g) end.
  pose proof Hn as Hn0. cbn [no_names] in Hn. apply andb_true_iff in Hn as [Hnm Hnn].
  assert (Hes : forallb (fun kv => no_names (snd kv)) (fst (seq_children g0 es)) = true).
  { apply forallb_forall. apply Forall_forall.
    apply (seq_children_Forall g0 (fun c => no_names c = true) (fun c => no_names c = true)); auto.
    - apply Forall_forall. now apply forallb_forall.
    - eapply Forall_impl; [|exact IH]. intros [key c] IHc Hc. cbn [snd] in *. subst g0. cbn beta.
      destruct c as [|ck cbs cdv cnm ces]; [reflexivity|]. destruct (is_data _); [now apply IHc|exact Hc]. }
  destruct (seq_children g0 es) as [es1 ok1]. cbn [fst] in Hes.
  assert (H1 : no_names (Node kd bs dv nm es1) = true) by (cbn [no_names]; now rewrite Hnm, Hes).
  destruct ok1; cbn [negb]; [|exact H1].
  destruct (filter is_data (map snd es1)) as [|d0 rest].
  - destruct k as [[|kk]|]; try exact H1. now apply set_bs_no_names.
  - now apply set_bs_no_names.
Qed.

Lemma prefixb_firstn_le : forall p s n, prefixb p s = true -> List.length p <= n -> prefixb p (firstn n s) = true.
Proof.
  induction p as [|x p IH]; intros s n H Hl; [apply prefixb_nil|].
  destruct s as [|y s]; [discriminate|]. destruct n as [|n]; [cbn in Hl; lia|].
  cbn in *. apply andb_true_iff in H as [H1 H2]. rewrite H1. cbn. apply IH; [exact H2|lia].
Qed.

Lemma auto_bs_coh : forall t k p d,
  coh p d t = true -> no_names_below t = true -> auto_scope k p t -> coh p d (fst (auto_bs t k)) = true.
Proof.
  induction t as [sh dd|kd bs dv nm es IH] using tree_ind2; intros k p d Hc Hf Hs; [exact Hc|].
  pose proof Hc as Hall. apply coh_node_iff in Hc as (H1 & H2 & H3 & H4).
  cbn [auto_bs]. cbn [no_names_below] in Hf.
  match goal with |- context [seq_children ?g es] => set (g0 := g) end.
  assert (Hnb : forall kv, In kv es -> no_names_below (snd kv) = true).
  { intros [key c] Hin. rewrite forallb_forall in Hf. specialize (Hf _ Hin). cbn [snd] in *.
    destruct c as [|ck cbs cdv cnm ces]; [reflexivity|]. cbn [no_names] in Hf. apply andb_true_iff in Hf as [_ Hf]. exact Hf. }
  assert (Hes1 : coh_ents bs dv (fst (seq_children g0 es)) = true).
  { apply seq_children_coh; [exact H4|]. rewrite Forall_forall in IH. apply Forall_forall. intros [key c] Hin Hcc.
    cbn [snd] in *. subst g0. cbn beta. destruct c as [|ck cbs cdv cnm ces]; [exact Hcc|].
    destruct (is_data _); [|exact Hcc].
    apply (IH _ Hin); [exact Hcc|apply (Hnb _ Hin)|].
    destruct k as [kk|]; [|exact I]. destruct Hs as [Hs1 Hs2]. cbn [max_rank] in Hs2. split.
    - etransitivity; [|exact Hs2]. apply Nat.le_max_l.
    - etransitivity; [apply (max_rank_child kd bs dv nm es _ Hin)|exact Hs2]. }
  assert (Hhf : forallb (fun kv => no_names (snd kv)) (fst (seq_children g0 es)) = true).
  { apply forallb_forall. apply Forall_forall.
    apply (seq_children_Forall g0 (fun c => no_names c = true) (fun c => no_names c = true)); auto.
    - apply Forall_forall. now apply forallb_forall.
    - apply Forall_forall. intros [key c] Hin Hcn. cbn [snd] in *. subst g0. cbn beta.
      destruct c as [|ck cbs cdv cnm ces]; [reflexivity|]. destruct (is_data _); [now apply auto_bs_no_names|exact Hcn]. }
  destruct (seq_children g0 es) as [es1 ok1]. cbn [fst] in *.
  assert (Ht1 : coh p d (Node kd bs dv nm es1) = true) by (apply coh_node_iff; auto).
  destruct ok1; cbn [negb]; [|exact Ht1].
  destruct (filter is_data (map snd es1)) as [|d0 rest] eqn:Ed.
  - destruct k as [[|kk]|]; try exact Ht1.
    apply set_bs_coh; [exact Ht1|exact Hhf|]. destruct Hs as [Hs1 _]. now apply prefixb_firstn_le.
  - apply set_bs_coh; [exact Ht1|exact Hhf|].
    assert (Hdata : forall c, In c (filter is_data (map snd es1)) -> prefixb p (tshape c) = true).
    { intros c Hin. apply filter_In in Hin as [Hin _]. apply in_map_iff in Hin as ([key c0] & <- & Hin). cbn [snd].
      apply coh_ents_forall in Hes1. rewrite Forall_forall in Hes1. specialize (Hes1 _ Hin). cbn [snd] in Hes1.
      eapply prefixb_trans; [exact H1|]. destruct c0; [now apply coh_leaf_iff in Hes1 as [? _]|now apply coh_node_iff in Hes1 as [? _]]. }
    rewrite Ed in Hdata. apply maxbs_prefix.
    + apply Hdata. now left.
    + apply Forall_forall. intros sh Hin. apply in_map_iff in Hin as (c & <- & Hin). apply filter_In in Hin as [Hin _].
      apply Hdata. now right.
    + destruct k as [kk|]; [apply Hs|exact I].
Qed.
