(* C17 — write-back on trees: locked => same keys, same leaf objects, contents replaced where the yielded object has the
   leaf; unlocked => old keys kept in place, new keys admitted after them, untouched entries are the same objects. *)
From Coq Require Import ZArith List String Bool Lia.
Import ListNotations.
From TD Require Import Model.C17_Tree.
Open Scope string_scope.
Open Scope list_scope.

(* induction over trees with the list of entries *)
Lemma ktree_ind' (P : ktree -> Prop) :
  (forall s c, P (KLeaf s c)) ->
  (forall es, Forall (fun kv => P (snd kv)) es -> P (KNode es)) ->
  forall t, P t.
Proof.
  intros HL HN. fix IH 1. intros [s c|es]; [apply HL|]. apply HN.
  induction es as [|[k w] r IHr]; constructor; [apply IH|exact IHr].
Qed.

Lemma copy_es_nil inv prefix : copy_es inv prefix [] = [].
Proof. reflexivity. Qed.
Lemma copy_es_cons inv prefix k w r :
  copy_es inv prefix ((k, w) :: r) = (k, copy_in inv (prefix ++ [k]) w) :: copy_es inv prefix r.
Proof. reflexivity. Qed.
Lemma copy_in_node inv prefix es : copy_in inv prefix (KNode es) = KNode (copy_es inv prefix es).
Proof. reflexivity. Qed.

Lemma skel_es_nil : skel_es [] = [].
Proof. reflexivity. Qed.
Lemma skel_es_cons k w r : skel_es ((k, w) :: r) = (k, skel w) :: skel_es r.
Proof. reflexivity. Qed.
Lemma skel_node es : skel (KNode es) = KNode (skel_es es).
Proof. reflexivity. Qed.

(* ------------------------------------------------------------------ locked *)
Lemma copy_in_skel inv : forall t prefix, skel (copy_in inv prefix t) = skel t.
Proof.
  induction t as [s c|es IH] using ktree_ind'; intros prefix; [reflexivity|].
  rewrite copy_in_node, !skel_node. f_equal.
  induction es as [|[k w] r IHr]; [reflexivity|].
  inversion IH as [|? ? Hw Hr]; subst. rewrite copy_es_cons, !skel_es_cons. cbn [snd] in Hw. rewrite Hw. f_equal. now apply IHr.
Qed.

Lemma kget_copy_es inv prefix k : forall es,
  kget k (copy_es inv prefix es) = option_map (copy_in inv (prefix ++ [k])) (kget k es).
Proof.
  induction es as [|[k' w] r IH]; [reflexivity|]. rewrite copy_es_cons. cbn [kget].
  destruct (String.eqb k' k) eqn:E; [apply String.eqb_eq in E; subst; reflexivity|exact IH].
Qed.

Lemma kfind_copy_es inv : forall p prefix es,
  kfind p (copy_es inv prefix es)
  = match kfind p es with
    | Some (s, c0) => Some (s, match kfind (prefix ++ p) inv with Some (_, c') => c' | None => c0 end)
    | None => None
    end.
Proof.
  induction p as [|k rest IH]; intros prefix es; [reflexivity|]. cbn [kfind]. rewrite kget_copy_es.
  destruct (kget k es) as [[s c|sub]|]; cbn [option_map]; [| |reflexivity].
  - cbn [copy_in]. destruct rest; [reflexivity|reflexivity].
  - rewrite copy_in_node. destruct rest as [|k2 rest2]; [reflexivity|].
    rewrite IH. now rewrite <- app_assoc.
Qed.

(* locked original: the structure (keys, order, nesting) and every leaf OBJECT are those of the original; the content of a
   leaf is the yielded object's where it has a leaf at the same path, and unchanged elsewhere *)
Theorem writeback_t_locked out inv r :
  writeback_t true out inv = Some r ->
  skel_es r = skel_es out
  /\ forall p, kfind p r = match kfind p out with
                           | Some (s, c0) => Some (s, match kfind p inv with Some (_, c') => c' | None => c0 end)
                           | None => None
                           end.
Proof.
  unfold writeback_t, update_inplace_t. destruct (existsb _ _ || _); [|discriminate]. intros H. injection H as <-. split.
  - pose proof (copy_in_skel inv (KNode out) []) as H. rewrite copy_in_node, !skel_node in H. now injection H.
  - intros p. now rewrite kfind_copy_es.
Qed.

(* a leaf the yielded object has and the locked original has not is never created *)
Corollary writeback_t_locked_no_new_leaf out inv r p :
  writeback_t true out inv = Some r -> kfind p out = None -> kfind p r = None.
Proof. intros H Hn. destruct (writeback_t_locked _ _ _ H) as [_ F]. now rewrite F, Hn. Qed.

Lemma kleaves_nonempty_or : forall (l : list (list string * (nat * Z))), l = [] \/ l <> [].
Proof. destruct l; [now left|right; discriminate]. Qed.

(* no leaf in common (and something to write): KeyError *)
Theorem writeback_t_locked_disjoint out inv :
  kleaves_es inv <> [] -> (forall pl, In pl (kleaves_es inv) -> kfind (fst pl) out = None) ->
  writeback_t true out inv = None.
Proof.
  intros Hne H. unfold writeback_t, update_inplace_t.
  replace (existsb (fun pl => has_leaf_at out (fst pl)) (kleaves_es inv)) with false.
  - destruct (kleaves_es inv); [congruence|reflexivity].
  - symmetry. apply not_true_iff_false. intros F. apply existsb_exists in F. destruct F as [pl [Hin F]].
    unfold has_leaf_at in F. now rewrite (H pl Hin) in F.
Qed.

(* ------------------------------------------------------------------ unlocked *)
Lemma kget_kset_same k v : forall es, kget k (kset k v es) = Some v.
Proof.
  induction es as [|[k' w] r IH]; cbn; [now rewrite String.eqb_refl|].
  destruct (String.eqb k' k) eqn:E; cbn; now rewrite E.
Qed.

Lemma kget_kset_other k k2 v : k <> k2 -> forall es, kget k2 (kset k v es) = kget k2 es.
Proof.
  intros Hne. induction es as [|[k' w] r IH]; cbn.
  - destruct (String.eqb k k2) eqn:E; [apply String.eqb_eq in E; congruence|reflexivity].
  - destruct (String.eqb k' k) eqn:E; cbn.
    + apply String.eqb_eq in E. subst. destruct (String.eqb k k2) eqn:E2; [apply String.eqb_eq in E2; congruence|reflexivity].
    + destruct (String.eqb k' k2); [reflexivity|exact IH].
Qed.

Lemma keys_kset k v : forall es,
  map fst (kset k v es) = if existsb (String.eqb k) (map fst es) then map fst es else map fst es ++ [k].
Proof.
  induction es as [|[k' w] r IH]; [reflexivity|]. cbn [kset map fst existsb].
  rewrite (String.eqb_sym k k'). destruct (String.eqb k' k) eqn:E; cbn [map fst orb]; [reflexivity|].
  rewrite IH. destruct (existsb (String.eqb k) (map fst r)); reflexivity.
Qed.

Lemma update_t_fold out inv : update_t out inv = fold_left upd_step inv out.
Proof.
  unfold update_t. cbn [upd_node]. revert out. induction inv as [|[k w] r IH]; intros out; [reflexivity|].
  cbn [fold_left]. rewrite <- IH. unfold upd_step. cbn [fst snd]. reflexivity.
Qed.

Lemma keys_upd_step acc kw : map fst (upd_step acc kw)
  = if existsb (String.eqb (fst kw)) (map fst acc) then map fst acc else map fst acc ++ [fst kw].
Proof. unfold upd_step. destruct (snd kw) as [s c|sub]; [|destruct (kget (fst kw) acc) as [[?|?]|]]; apply keys_kset. Qed.

Lemma kget_upd_step_other acc kw k : fst kw <> k -> kget k (upd_step acc kw) = kget k acc.
Proof.
  intros Hne. unfold upd_step. destruct (snd kw) as [s c|sub]; [|destruct (kget (fst kw) acc) as [[?|?]|]];
    now apply kget_kset_other.
Qed.

(* frame: an entry whose key the yielded object does not have is the same object afterwards *)
Theorem update_t_frame : forall inv out k, ~ In k (map fst inv) -> kget k (update_t out inv) = kget k out.
Proof.
  intros inv out k. rewrite update_t_fold. revert out. induction inv as [|kw r IH]; intros out Hn; [reflexivity|].
  cbn [fold_left]. cbn [map In] in Hn. rewrite IH by tauto. apply kget_upd_step_other. tauto.
Qed.

(* an entry the yielded object has (keys of a tensordict are distinct): both nodes -> the nested update of the original's
   node (the node object stays); otherwise the original is rebound to the yielded object's entry *)
Theorem update_t_entry : forall inv out k w, NoDup (map fst inv) -> In (k, w) inv ->
  kget k (update_t out inv)
  = match w, kget k out with
    | KNode sub, Some (KNode tsub) => Some (KNode (update_t tsub sub))
    | _, _ => Some w
    end.
Proof.
  intros inv out k w. rewrite update_t_fold. revert out. induction inv as [|[k' w'] r IH]; intros out ND Hin; [destruct Hin|].
  cbn [map fst] in ND. inversion ND as [|? ? Hnin ND']; subst. cbn [fold_left]. destruct Hin as [E|Hin].
  - injection E as -> ->. rewrite <- update_t_fold, update_t_frame by exact Hnin.
    unfold upd_step. cbn [fst snd]. destruct w as [s c|sub].
    + apply kget_kset_same.
    + destruct (kget k out) as [[?|tsub]|]; apply kget_kset_same.
  - assert (Hne : k' <> k). { intros ->. apply Hnin. change k with (fst (k, w)). now apply in_map. }
    rewrite (IH _ ND' Hin). rewrite (kget_upd_step_other out (k', w') k Hne). reflexivity.
Qed.

(* the keys: the original's, in their order, then the new ones of the yielded object in its order *)
Theorem update_t_keys : forall inv out, NoDup (map fst inv) ->
  map fst (update_t out inv)
  = map fst out ++ filter (fun k => negb (existsb (String.eqb k) (map fst out))) (map fst inv).
Proof.
  intros inv out. rewrite update_t_fold. revert out. induction inv as [|[k w] r IH]; intros out ND.
  - cbn. now rewrite app_nil_r.
  - cbn [map fst] in ND. inversion ND as [|? ? Hnin ND']; subst. cbn [fold_left]. rewrite (IH _ ND').
    rewrite keys_upd_step. cbn [fst map filter].
    destruct (existsb (String.eqb k) (map fst out)) eqn:E; cbn [negb].
    + reflexivity.
    + rewrite <- app_assoc. cbn [app]. f_equal. f_equal.
      apply filter_ext_in. intros k2 Hk2. rewrite existsb_app. cbn [existsb]. rewrite orb_false_r.
      destruct (String.eqb k2 k) eqn:E2; [apply String.eqb_eq in E2; subst; contradiction|]. now rewrite orb_false_r.
Qed.
