(* C01 — index writes (td[idx] = value, set_at_, update_at_) keep a tree coherent, for ok and raising outcomes alike:
   existing entries are written in place (no shape / device / name changes); an auto-created entry is pre-allocated with
   the batch size of its container followed by the feature dims of the value. *)
From Coq Require Import ZArith List String Bool Arith Lia.
Import ListNotations.
From TD Require Import Model.C01_Tree Model.C01_Ops Model.C01_Scope Model.C01_Index.
From TD Require Import Proofs.C01_TreeP Proofs.C01_NamesP Proofs.C01_BatchP Proofs.C01_SetP Proofs.C01_StepP Proofs.C01_AutoP Proofs.C01_MainP.
From TD Require Model.C03_Index.
Open Scope string_scope.
Open Scope list_scope.
Open Scope nat_scope.

(* ---- prefixes under skipn / a common front ---- *)
Lemma prefixb_skipn : forall n a b, prefixb a b = true -> prefixb (skipn n a) (skipn n b) = true.
Proof.
  induction n as [|n IH]; intros a b H; [exact H|].
  destruct a as [|x a]; [apply prefixb_nil|]. destruct b as [|y b]; [discriminate|].
  cbn in H. apply andb_true_iff in H as [_ H]. cbn [skipn]. now apply IH.
Qed.

Lemma prefixb_app_l : forall p a b, prefixb a b = true -> prefixb (p ++ a) (p ++ b) = true.
Proof.
  induction p as [|x p IH]; intros a b H; [exact H|]. cbn. rewrite Nat.eqb_refl. now apply IH.
Qed.

Lemma prefixb_front : forall p n a b, prefixb a b = true -> prefixb (p ++ skipn n a) (p ++ skipn n b) = true.
Proof. intros. now apply prefixb_app_l, prefixb_skipn. Qed.

Lemma dev_ok_td_default : forall dv, dev_ok KTd dv (Some (match dv with Some d => d | None => CPU end)) = true.
Proof. intros [[]|]; reflexivity. Qed.

(* ---- pre-allocated entries ---- *)
Lemma expand_entry_coh : forall bs n dv vbs vdv c c',
  coh vbs vdv c = true -> expand_entry bs n dv c = Some c' -> coh (bs ++ skipn n vbs) dv c' = true.
Proof.
  intros bs n dv vbs vdv [sh dd|[] cbs cdv cnm ces] c' Hc He; cbn [expand_entry] in He; try discriminate.
  - injection He as <-. apply coh_leaf_iff in Hc as [Hp _]. apply coh_leaf_iff. split; [now apply prefixb_front|apply dev_ok_td_default].
  - injection He as <-. apply coh_node_iff in Hc as (Hp & _ & Hn & _). apply coh_node_iff. repeat split.
    + now apply prefixb_front.
    + apply dev_ok_self.
    + destruct cnm as [l|]; [|reflexivity].
      destruct (Nat.eqb (List.length (bs ++ skipn n cbs)) (List.length cbs)) eqn:E; [|reflexivity].
      cbn [names_ok] in *. apply Nat.eqb_eq in E, Hn. apply Nat.eqb_eq. congruence.
Qed.

Lemma map_opt_coh : forall bs n dv vbs vdv (ves : ents) ces,
  coh_ents vbs vdv ves = true ->
  map_opt (fun kv => option_map (pair (fst kv)) (expand_entry bs n dv (snd kv))) ves = Some ces ->
  coh_ents (bs ++ skipn n vbs) dv ces = true.
Proof.
  intros bs n dv vbs vdv. induction ves as [|[k c] r IH]; intros ces Hc Hm; cbn [map_opt] in Hm.
  - injection Hm as <-. reflexivity.
  - rewrite coh_ents_cons in Hc. apply andb_true_iff in Hc as [Hc1 Hc2]. cbn [fst snd] in Hm.
    destruct (expand_entry bs n dv c) as [c'|] eqn:Ee; cbn [option_map] in Hm; [|discriminate].
    destruct (map_opt _ r) as [r'|] eqn:Er; [|discriminate]. injection Hm as <-.
    rewrite coh_ents_cons. rewrite (expand_entry_coh _ _ _ _ _ _ _ Hc1 Ee). cbn [andb]. now apply IH.
Qed.

(* ---- value.expand ---- *)
Lemma retarget_coh : forall k T t p d, coh p d t = true -> coh (T ++ skipn k p) d (retarget k T t) = true.
Proof.
  intros k T. induction t as [sh dd|kd b dv nm es IH] using tree_ind2; intros p d H.
  - apply coh_leaf_iff in H as [H1 H2]. cbn [retarget]. apply coh_leaf_iff. split; [now apply prefixb_front|exact H2].
  - apply coh_node_iff in H as (H1 & H2 & _ & H4). cbn [retarget]. apply coh_node_iff. repeat split; auto.
    + now apply prefixb_front.
    + apply coh_ents_forall. rewrite Forall_map. apply coh_ents_forall in H4. rewrite Forall_forall in *.
      intros kv Hin. cbn [snd]. apply (IH _ Hin). apply (H4 _ Hin).
Qed.

Lemma retarget_value : forall k T t, coh [] None t = true -> coh [] None (retarget k T t) = true.
Proof.
  intros k T t H. eapply coh_weaken; [apply (retarget_coh k T t [] None H)|apply prefixb_nil].
Qed.

(* a coherent entry is a value that is coherent by itself *)
Lemma coh_value : forall p d t, coh p d t = true -> coh [] None t = true.
Proof. intros p d t H. eapply coh_nodev. eapply coh_weaken; [exact H|apply prefixb_nil]. Qed.

Lemma cast_value : forall dv t, coh [] None t = true ->
  coh [] None (match dv with Some d => if odev_eqb (tdev t) (Some d) then t else to_dev d t | None => t end) = true.
Proof.
  intros [d|] t H; [|exact H]. destruct (odev_eqb (tdev t) (Some d)); [exact H|].
  eapply coh_nodev. now apply to_dev_coh.
Qed.

Section with_rec.
  Variable rec : idx -> tree -> tree -> tree * outcome.
  Hypothesis Hrec : forall ix v s p d, coh [] None v = true -> coh p d s = true -> coh p d (fst (rec ix v s)) = true.

  Lemma at_str_coh : forall k item ix self p d,
    coh [] None item = true -> coh p d self = true -> coh p d (fst (at_str rec k item ix self)) = true.
  Proof.
    intros k item ix self p d Hi Hc. destruct self as [|[] bs dv nm es]; try exact Hc. cbn [at_str].
    destruct (aget k es) as [[dsh dd|[] cb cd cn ce]|] eqn:Eg; try exact Hc.
    - destruct item as [|[] ? ? ? ?]; exact Hc.
    - destruct item as [vsh vd|[] vb vdv vn ve]; try exact Hc.
      pose proof Hc as Hall. apply coh_node_iff in Hc as (_ & _ & _ & H4).
      pose proof (coh_ents_aget _ _ _ _ _ H4 Eg) as Hcc.
      pose proof (Hrec ix (Node KTd vb vdv vn ve) (Node KTd cb cd cn ce) bs dv Hi Hcc) as Hr.
      destruct (rec ix (Node KTd vb vdv vn ve) (Node KTd cb cd cn ce)) as [c' o]. cbn [fst] in *. now apply rebuild_coh.
  Qed.

  Lemma sub_set_coh : forall k item ix ibs self p d,
    coh [] None item = true -> coh p d self = true -> coh p d (fst (sub_set rec k item ix ibs self)) = true.
  Proof.
    intros k item ix ibs self p d Hi Hc. destruct self as [|[] bs dv nm es]; try exact Hc. cbn [sub_set]. cbv zeta.
    destruct (negb (Nat.eqb (List.length ibs) 0) && is_node item && (has_names (Node KTd bs dv nm es) || has_names item)); [exact Hc|].
    destruct (validate_tree (Node KTd ibs dv None []) item) as [s' r] eqn:Ev. cbn [snd].
    assert (Hps : coh [] None (Node KTd ibs dv None []) = true).
    { apply coh_node_iff. repeat split; auto using prefixb_nil. }
    destruct (validate_tree_coh _ _ _ _ _ _ _ _ _ _ Hps Hi Ev) as (_ & _ & Hr).
    destruct r as [v2| |]; try exact Hc. specialize (Hr v2 eq_refl).
    match goal with |- context [match ?c with Some _ => _ | None => _ end] => destruct c as [cr|] eqn:Ecr end; [|exact Hc].
    apply at_str_coh; [now apply (coh_value ibs dv)|].
    apply rebuild_coh; [exact Hc|].
    destruct v2 as [vsh vd|[] vbs vdv vnm ves]; try discriminate.
    - cbn [expand_entry] in Ecr. injection Ecr as <-. apply coh_leaf_iff. split; [apply prefixb_app|apply dev_ok_td_default].
    - destruct (Nat.eqb (List.length bs) 0 && Nat.eqb (List.length ibs) 1); [discriminate|].
      pose proof Hr as Hr'. apply coh_node_iff in Hr' as (_ & _ & Hn & H4).
      destruct (expand_entry bs (List.length ibs) dv (Node KTd vbs vdv vnm ves)) as [[|ek nb ndv nnm ees]|] eqn:Ee; try discriminate.
      destruct (map_opt _ ves) as [ces|] eqn:Em; [|discriminate]. injection Ecr as <-.
      pose proof (expand_entry_coh _ _ _ _ _ _ _ Hr Ee) as Hce.
      cbn [expand_entry] in Ee. injection Ee as <- <- <- <- <-.
      apply coh_node_iff in Hce as (_ & _ & Hn' & _).
      apply coh_node_iff. repeat split.
        * apply prefixb_app.
        * apply dev_ok_self.
        * exact Hn'.
        * eapply map_opt_coh; [exact H4|exact Em].
  Qed.
End with_rec.

(* ---- node[ix] = tensordict ---- *)
Lemma write_td_coh : forall fuel ix v self p d,
  coh [] None v = true -> coh p d self = true -> coh p d (fst (write_td fuel ix v self)) = true.
Proof.
  induction fuel as [|f IH]; intros ix v self p d Hv Hc; [exact Hc|].
  cbn [write_td]. destruct self as [|[] bs dv nm es]; try exact Hc.
  destruct v as [|[] vbs vdv vnm ves]; try exact Hc.
  destruct (C03_Index.convert_ellipsis ix bs) as [ix1|]; [|exact Hc].
  destruct (idx_unm ix1); [exact Hc|].
  destruct (C03_Index.gbs bs ix1) as [ibs|]; [|exact Hc]. cbv zeta.
  match goal with |- context [if ?c then (_, Raised) else _] => destruct c end; [exact Hc|].
  pose proof (cast_value dv _ Hv) as Hv1. cbn [tdev] in Hv1.
  set (v1 := match dv with Some d0 => if odev_eqb vdv (Some d0) then Node KTd vbs vdv vnm ves else to_dev d0 (Node KTd vbs vdv vnm ves) | None => Node KTd vbs vdv vnm ves end) in *.
  assert (Hr2 : forall v2,
    (if shape_eqb (tshape v1) ibs then Ok v1
     else if C03_Index.is_suffix (tshape v1) ibs then (if no_names v1 then Ok (retarget (List.length (tshape v1)) ibs v1) else Unm)
     else let '(v', ok) := set_bs true v1 ibs in if ok then Ok v' else Err) = Ok v2 -> coh [] None v2 = true).
  { intros v2 E. destruct (shape_eqb (tshape v1) ibs); [now injection E as <-|].
    destruct (C03_Index.is_suffix (tshape v1) ibs).
    - destruct (no_names v1); [|discriminate]. injection E as <-. now apply retarget_value.
    - destruct (set_bs true v1 ibs) as [v' ok] eqn:Es. destruct ok; [|discriminate]. injection E as <-.
      eapply set_bs_ok_coh; [exact Hv1|exact Es|apply prefixb_nil]. }
  destruct (if shape_eqb (tshape v1) ibs then Ok v1
            else if C03_Index.is_suffix (tshape v1) ibs then (if no_names v1 then Ok (retarget (List.length (tshape v1)) ibs v1) else Unm)
            else let '(v', ok) := set_bs true v1 ibs in if ok then Ok v' else Err) as [v2| |]; try exact Hc.
  specialize (Hr2 v2 eq_refl).
  apply (seq_steps_inv _ _ (fun s => coh p d s = true)); [exact Hc|].
  intros [k c] s Hin Hs. cbn [fst snd].
  assert (Hci : coh [] None c = true).
  { destruct v2 as [|k2 b2 d2 n2 e2]; [destruct Hin|]. cbn [node_ents] in Hin. eapply entry_value_ok; eauto. }
  destruct (smem k (map fst es)).
  - apply at_str_coh; auto; intros; now apply IH.
  - apply sub_set_coh; auto; intros; now apply IH.
Qed.

(* ---- td[ix] = value ---- *)
Lemma setitem_idx_coh : forall ix v self p d,
  value_okb v = true -> coh p d self = true -> coh p d (fst (setitem_idx ix v self)) = true.
Proof.
  intros ix v self p d Hv Hc. destruct self as [|[] bs dv nm es]; try exact Hc. cbn [setitem_idx].
  destruct v as [[vsh vd|[] vb vd vn ve]|items|]; try exact Hc.
  - destruct (idx_unm ix); exact Hc.
  - cbn [value_okb] in Hv. now apply write_td_coh.
  - destruct (negb (all_vtree items)); [exact Hc|].
    destruct (C03_Index.convert_ellipsis ix bs) as [ix1|]; [|exact Hc].
    destruct (idx_unm ix1); [exact Hc|].
    destruct (C03_Index.gbs bs ix1) as [ibs|]; [|exact Hc].
    destruct (conv (VDict items) (Node KTd [] dv None [])) as [t0| |] eqn:Ec; try exact Hc.
    assert (Hs0 : self_coh [] dv (Node KTd [] dv None [])).
    { split; [|reflexivity]. apply coh_node_iff. repeat split; auto using dev_ok_self. }
    pose proof (conv_coh _ _ _ _ _ Hv Hs0 Ec) as [Ht0 _]. cbn beta iota in Ht0.
    destruct (set_bs true t0 ibs) as [t1 ok] eqn:Es. destruct ok; [|exact Hc].
    apply write_td_coh; [|exact Hc].
    eapply set_bs_ok_coh; [apply (coh_value [] dv); exact Ht0|exact Es|apply prefixb_nil].
Qed.

Lemma at_str_unvalidated_coh : forall k v ix self p d,
  value_okb v = true -> coh p d self = true -> coh p d (fst (at_str_unvalidated k v ix self)) = true.
Proof.
  intros k v ix self p d Hv Hc. destruct self as [|[] bs dv nm es]; try exact Hc. cbn [at_str_unvalidated].
  destruct v as [t|items|]; try exact Hc. cbv zeta. cbn [value_okb] in Hv.
  destruct (idx_unm ix); [exact Hc|].
  match goal with |- context [if ?c then (_, Raised) else _] => destruct c end; [exact Hc|].
  apply at_str_coh; [|now apply cast_value|exact Hc].
  intros; now apply write_td_coh.
Qed.

Lemma set_at_coh : forall path v ix self p d,
  value_okb v = true -> coh p d self = true -> coh p d (fst (set_at path v ix self)) = true.
Proof.
  induction path as [|k rest IH]; intros v ix self p d Hv Hc.
  - destruct self as [|[] ? ? ? ?]; exact Hc.
  - destruct self as [|[] bs dv nm es]; try exact Hc. cbn [set_at].
    destruct rest as [|k2 rest']; [now apply at_str_unvalidated_coh|].
    pose proof Hc as Hall. apply coh_node_iff in Hc as (_ & _ & _ & H4).
    destruct (aget k es) as [[|[] cb cd cn ce]|] eqn:Eg; try exact Hall.
    pose proof (coh_ents_aget _ _ _ _ _ H4 Eg) as Hcc.
    specialize (IH v ix (Node KTd cb cd cn ce) bs dv Hv Hcc).
    destruct (set_at (k2 :: rest') v ix (Node KTd cb cd cn ce)) as [c' o]. cbn [fst] in *. now apply rebuild_coh.
Qed.

Lemma update_at_coh : forall v ix self p d,
  value_okb v = true -> coh p d self = true -> coh p d (fst (update_at v ix self)) = true.
Proof.
  intros v ix self p d Hv Hc. unfold update_at. destruct ix as [|i0 ix']; [exact Hc|].
  destruct v as [[|[] vb vd vn ve]|items|]; try exact Hc.
  - apply (seq_steps_inv _ _ (fun s => coh p d s = true)); [exact Hc|].
    intros [k c] s Hin Hs. cbn [fst snd]. apply set_at_coh; [|exact Hs]. cbn [value_okb] in *. eapply entry_value_ok; eauto.
  - apply (seq_steps_inv _ _ (fun s => coh p d s = true)); [exact Hc|].
    intros [k vi] s Hin Hs. cbn [fst snd]. cbn [value_okb] in Hv. rewrite forallb_forall in Hv. specialize (Hv _ Hin). cbn [snd] in Hv.
    destruct vi as [t| |]; try exact Hs. now apply set_at_coh.
Qed.

Lemma inode_step_coh : forall o self p d,
  value_okb (iop_value o) = true -> coh p d self = true -> coh p d (fst (inode_step o self)) = true.
Proof.
  intros [ix v|key ix v|v ix] self p d Hv Hc; cbn [inode_step iop_value] in *.
  - now apply setitem_idx_coh.
  - destruct (through_nt key self); [exact Hc|]. now apply set_at_coh.
  - now apply update_at_coh.
Qed.

(* ---- what an index write can and cannot change ---- *)
(* a tensor / scalar value never changes the structure: td[ix] = tensor leaves every shape, device and name as it was *)
Lemma setitem_tensor_state : forall ix vsh vd self, fst (setitem_idx ix (VTree (Leaf vsh vd)) self) = self.
Proof.
  intros ix vsh vd [|[] bs dv nm es]; try reflexivity. cbn [setitem_idx]. destruct (idx_unm ix); reflexivity.
Qed.

(* an index that the batch size does not admit is rejected before anything is written *)
Lemma setitem_td_bad_index : forall fuel ix v bs dv nm es ix1,
  C03_Index.convert_ellipsis ix bs = C03_Index.Ok ix1 -> idx_unm ix1 = false -> C03_Index.gbs bs ix1 = C03_Index.Reject ->
  is_td v = true ->
  write_td (S fuel) ix v (Node KTd bs dv nm es) = (Node KTd bs dv nm es, Raised).
Proof.
  intros fuel ix v bs dv nm es ix1 H1 H2 H3 Hv. destruct v as [|[] ? ? ? ?]; try discriminate.
  cbn [write_td]. now rewrite H1, H2, H3.
Qed.

(* the auto-created tensor entry: batch size of the container ++ feature dims of the value, on the container's device *)
Lemma autocreated_leaf_shape : forall rec k vsh vd ix ibs bs dv nm es self' o c,
  aget k es = None ->
  sub_set rec k (Leaf vsh vd) ix ibs (Node KTd bs dv nm es) = (self', o) -> o <> Unmodelled ->
  (o = Raised /\ self' = Node KTd bs dv nm es) \/
  (aget k (node_ents self') = Some c -> c = Leaf (bs ++ skipn (List.length ibs) vsh) (match dv with Some d => d | None => CPU end)).
Proof.
  intros rec k vsh vd ix ibs bs dv nm es self' o c Hk Hs Ho. cbn [sub_set] in Hs. cbv zeta in Hs.
  cbn [is_node] in Hs. rewrite andb_false_r in Hs. cbn [andb] in Hs.
  destruct (validate_tree (Node KTd ibs dv None []) (Leaf vsh vd)) as [s' r] eqn:Ev. cbn [snd] in Hs.
  rewrite validate_leaf in Ev. injection Ev as _ Er.
  destruct r as [v2| |].
  - right. intros Hg.
    assert (Hv2 : exists d2, v2 = Leaf vsh d2).
    { destruct (negb (Nat.eqb (List.length ibs) 0) && negb (prefixb ibs vsh)); [discriminate|].
      destruct dv as [[]|]; [destruct (dev_eqb vd META); [discriminate|]| |]; injection Er as <-; eauto. }
    destruct Hv2 as [d2 ->]. cbn [expand_entry] in Hs. cbn [at_str] in Hs.
    assert (Hga : forall v, aget k (aset k v es) = Some v).
    { intros v. clear -Hk. induction es as [|[k' v'] r IH]; cbn in *; [now rewrite String.eqb_refl|].
      destruct (String.eqb k k') eqn:E; [discriminate|]. cbn. rewrite E. now apply IH. }
    rewrite Hga in Hs. injection Hs as <- _. cbn [node_ents] in Hg. rewrite Hga in Hg. now injection Hg as <-.
  - left. injection Hs as <- <-. split; reflexivity.
  - injection Hs as _ <-. congruence.
Qed.
