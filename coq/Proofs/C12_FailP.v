From Coq Require Import ZArith List String Bool Permutation.
Import ListNotations.
From TD Require Import Model.C12_Sched Proofs.C12_SchedP.

Lemma run_writes_st_spec : forall ops d,
  run_writes_st ops d = match first_failure ops with Some e => WRaised e | None => WDone (run_writes (oks ops) d) end.
Proof.
  induction ops as [|[p [v|e]] r IH]; intro d; cbn [run_writes_st first_failure]; [reflexivity| |reflexivity].
  rewrite IH. destruct (first_failure r); reflexivity.
Qed.

Lemma oks_all : forall ops, first_failure ops = None -> map fst (oks ops) = map fst ops.
Proof.
  induction ops as [|[p [v|e]] r IH]; cbn [first_failure]; intro H; [reflexivity| |discriminate].
  unfold oks. cbn [flat_map snd fst app map]. f_equal. apply IH, H.
Qed.

(* a failing writer task fails the threaded call exactly as it fails the single-threaded one — the SAME exception (the first
   failing task in submission order), for every completion order; and without a failure every completion order leaves the
   values of the single-threaded form *)
Theorem writers_failure_as_sequential : forall submitted completed d0,
  Permutation submitted completed -> NoDup (map fst submitted) ->
  match run_writes_st submitted d0 with
  | WRaised e => run_writes_mt submitted completed d0 = WRaised e
  | WDone d1 => exists d2, run_writes_mt submitted completed d0 = WDone d2 /\ forall q, aget d2 q = aget d1 q
  end.
Proof.
  intros submitted completed d0 P Hnd. rewrite run_writes_st_spec. unfold run_writes_mt.
  destruct (first_failure submitted) as [e|] eqn:E; [reflexivity|].
  eexists. split; [reflexivity|]. intro q. symmetry.
  apply writers_order_free.
  - unfold oks. apply Permutation_flat_map. exact P.
  - rewrite (oks_all _ E). exact Hnd.
Qed.

Theorem writers_mt_raises_iff : forall submitted completed d0 e,
  run_writes_mt submitted completed d0 = WRaised e <-> run_writes_st submitted d0 = WRaised e.
Proof.
  intros submitted completed d0 e. rewrite run_writes_st_spec. unfold run_writes_mt.
  destruct (first_failure submitted); split; intro H; try exact H; discriminate.
Qed.
