(* C11 — the pickle reducer after fix: D12: the consolidated rebuild is used only while the snapshot is current *)
From Coq Require Import ZArith List Bool Arith Lia String.
Import ListNotations.
From TD Require Import Model.C11_Layout Model.C11_Tree Proofs.C11_LayoutP Proofs.C11_TreeP Proofs.C11_AuxP.
Open Scope nat_scope.

Notation AU := align_unit.

(* the snapshot is stale: the __getstate__ path, without the snapshot *)
Theorem pickle_stale_snapshot st sn : snap st = Some sn -> snapshot_current st sn = false ->
  pickle_roundtrip st = Ok {| cur := unview_t (relock_t false (cur st)); snap := None |}.
Proof. intros Hs Hv. unfold pickle_roundtrip. rewrite Hs, Hv. reflexivity. Qed.

(* the snapshot is current and the storage holds the bytes of the current leaves (they are views of it): the rebuild is
   the object itself, keys regrouped *)
Theorem pickle_current_snapshot st sn : snap st = Some sn -> snapshot_current st sn = true ->
  sn_storage sn = encode AU true (flat (cur st)) -> tree_side AU true (cur st) -> lock_closed_t (cur st) = true ->
  pickle_roundtrip st = Ok {| cur := reorder_t (cur st); snap := snap st |}.
Proof.
  intros Hs Hv Hst (H1 & H2 & H3 & H4) Hl. unfold pickle_roundtrip. rewrite Hs, Hv. cbn [negb orb].
  unfold snapshot_current in Hv. apply andb_true_iff in Hv as [Hm Hk].
  destruct (mtree_eq_dec (fst (meta_t AU true (cur st) 0)) (sn_meta sn)) as [Em|]; [|discriminate].
  rewrite <- Em, Hst.
  pose proof (proj1 (rebuild_ok AU true) (cur st) [] [] false (Forall_nil _) H2) as H.
  cbn [app lspecs map] in H. rewrite app_nil_r in H. change (total AU true []) with 0 in H.
  rewrite H by (split; [now apply wf_flat|split; assumption]).
  rewrite (proj1 (vok_sound AU true) (cur st) 0 Hk). cbn [fst].
  now rewrite (proj1 relock_closed _ Hl).
Qed.

(* a consolidated object whose content is the tree t (every tensor the view at its layout offset) *)
Definition consolidated_as (t : tree) (st : cstate) : Prop :=
  tree_side AU true t /\ cur st = fst (mark_t AU true t 0) /\
  snap st = Some {| sn_meta := fst (meta_t AU true t 0); sn_storage := encode AU true (flat t) |}.

Lemma tree_side_shape A np t t2 : shape_t t2 = shape_t t -> Forall wf_leaf (flat t2) -> tree_side A np t -> tree_side A np t2.
Proof.
  intros Hs Hwf (H1 & H2 & H3 & H4).
  assert (Hsp : lspecs (flat t2) = lspecs (flat t)) by (rewrite <- (proj1 shape_specs t2), <- (proj1 shape_specs t), Hs; reflexivity).
  repeat split.
  - clear - Hwf. revert Hwf. generalize t2. clear t2.
    assert (H : (forall t, Forall wf_leaf (flat t) -> wf_t t = true) /\ (forall f, Forall wf_leaf (flat_f f) -> wf_f f = true)).
    { apply tree_forest_ind; cbn [flat flat_f wf_t wf_f]; intros; auto.
      - apply Forall_cons_iff in H0 as [Ha Hb]. rewrite (proj2 (wf_leafb_iff l) Ha). cbn. auto.
      - apply Forall_app in H1 as [Ha Hb]. rewrite (H Ha), (H0 Hb). reflexivity. }
    apply H.
  - rewrite <- (proj1 shape_reserved t2), Hs, (proj1 shape_reserved t). exact H2.
  - rewrite (sizes_ok_specs A np _ _ Hsp). exact H3.
  - rewrite Hsp. exact H4.
Qed.

Theorem pickle_consolidated_as t st : consolidated_as t st -> lock_closed_t t = true ->
  pickle_roundtrip st = Ok {| cur := reorder_t (cur st); snap := snap st |}.
Proof.
  intros (Hs & Hc & Hn) Hl.
  pose proof (proj1 (shape_mark AU true) t 0) as Hsh.
  assert (Hfl : flat (cur st) = flat t) by (rewrite Hc; apply (proj1 (mark_stop AU true))).
  apply (pickle_current_snapshot st _ Hn).
  - unfold snapshot_current. cbn [sn_meta]. rewrite Hc.
    rewrite (meta_of_shape AU true t _ 0 Hsh).
    destruct (mtree_eq_dec _ _) as [_|N]; [|now elim N].
    now rewrite (proj1 (vok_mark AU true) t 0).
  - cbn [sn_storage]. now rewrite Hfl.
  - rewrite Hc. apply (tree_side_shape AU true t); [exact Hsh| |exact Hs].
    rewrite <- Hc, Hfl. apply wf_flat, Hs.
  - rewrite Hc. now rewrite (lock_closed_of_shape t _ Hsh).
Qed.

Lemma consolidate_mem t st : tree_side AU true t -> consolidate_tree AU true false t = Ok st -> consolidated_as t st.
Proof.
  intros Hs Hc. rewrite (consolidate_ok _ _ _ _ Hs) in Hc. injection Hc as <-. cbn [cur snap].
  split; [exact Hs|]. rewrite (proj1 outmeta_id). split; [reflexivity|].
  now rewrite (meta_of_shape AU true t _ 0 (proj1 (shape_mark AU true) t 0)).
Qed.

(* consolidate(), then pickle: the copy IS the consolidated tensordict (lock state included, fix: D110), keys regrouped *)
Theorem pickle_fresh t st : tree_side AU true t -> lock_closed_t t = true ->
  consolidate_tree AU true false t = Ok st ->
  pickle_roundtrip st = Ok {| cur := reorder_t (cur st); snap := snap st |}.
Proof.
  intros Hs Hl Hc. apply (pickle_consolidated_as t); [now apply consolidate_mem|exact Hl].
Qed.

(* ------------------------------------------------------------------ the offset clause of the guard is necessary *)
(* a weaker guard: the recomputed metadata equals the stored one and every tensor is SOME view of the storage *)
Fixpoint allviews_t (t : tree) : bool := match t with Node _ f => allviews_f f end
with allviews_f (f : forest) : bool :=
  match f with
  | FNil => true
  | FLeaf _ _ v r => (match v with Some _ => true | None => false end) && allviews_f r
  | FNonT _ _ _ r => allviews_f r
  | FSub _ t r => allviews_t t && allviews_f r
  end.
Definition snapshot_current_weak (st : cstate) (sn : snapshot) : bool :=
  (if mtree_eq_dec (fst (meta_t AU true (cur st) 0)) (sn_meta sn) then true else false) && allviews_t (cur st).

Local Open Scope string_scope.
Definition f32 (v : Z) : leaf := {| l_dt := 7; l_esz := 4; l_shape := [3]; l_bytes := [v; 0; 0; 0; v; 0; 0; 0; v; 0; 0; 0]%Z |}.
Definition t_swap : tree :=
  Node {| m_bs := [3]; m_names := [None]; m_dev := None; m_locked := false |} (FLeaf "a" (f32 1) None (FLeaf "b" (f32 2) None FNil)).

(* consolidate(); a, b = td["a"], td["b"]; td.set("a", b); td.set("b", a): two tensors of one dtype and shape trade places.
   The metadata recomputed now is the stored one and both tensors are still views of the storage -- yet the rebuild of the
   snapshot has them un-swapped.  Only the clause "every view at ITS layout offset" (vok_t) rejects the snapshot. *)
Theorem guard_offsets_necessary :
  let st := run {| cur := t_swap; snap := None |} [OConsolidate false; OSwap [] "a" "b"] in
  exists sn t', snap st = Some sn /\ snapshot_current_weak st sn = true /\ snapshot_current st sn = false /\
    rebuild_t (sn_storage sn) false (sn_meta sn) = Ok t' /\
    leaf_at (cur st) [] "a" = Some (f32 2) /\ leaf_at t' [] "a" = Some (f32 1) /\
    exists st', pickle_roundtrip st = Ok st' /\ leaf_at (cur st') [] "a" = Some (f32 2) /\ leaf_at (cur st') [] "b" = Some (f32 1).
Proof.
  cbv zeta. do 2 eexists. split; [vm_compute; reflexivity|]. split; [vm_compute; reflexivity|]. split; [vm_compute; reflexivity|].
  split; [vm_compute; reflexivity|]. split; [reflexivity|]. split; [reflexivity|].
  eexists. split; [vm_compute; reflexivity|]. split; reflexivity.
Qed.
