(* C13 — in-place blocks: exits by an exception, and the tensor CONTENTS.
   1. An exit by an exception leaves exactly the state of a normal exit (any program of with-blocks: plain, swap_dest,
      inplace=True, use_state_dict; D6 repaired), so every restore theorem for normal exits carries over.
   2. inplace=True, contents: memo["inplace"] (t_saved, D134 repaired) keeps, for every tensor object of the module tree
      overwritten by the call, a clone holding the ORIGINAL content (any DAG, tied parameters, any memo); nothing but
      the storages of overwritten module tensors and fresh storages is written.
   3. There and back over the leaves of one module (tied names included): every tensor holds its original content. *)
From Coq Require Import ZArith List String Bool Lia.
Import ListNotations.
From TD Require Import Model.C13_Swap Model.C13_Scope Proofs.C13_SwapP Proofs.C13_VariantsP.
Open Scope string_scope.
Open Scope list_scope.
Open Scope Z_scope.

(* ------------------------------------------------------------------ 1. exceptional exits *)
Lemma exit_state_any_outcome b swap oc st :
  fst (exit_block_gen true b swap oc st) = fst (reverse_to_module b swap st).
Proof.
  unfold exit_block_gen. destruct oc as [|e]; [reflexivity|].
  destruct (is_Exception e); destruct (reverse_to_module b swap st) as [s r]; reflexivity.
Qed.

Definition no_manual (bs : list block) : Prop := Forall (fun b => b_manual b = false) bs.

Theorem run_state_exc_irrelevant : forall x x0 bs lvl st, no_manual bs ->
  fst (fst (run_blocks_gen true x bs lvl st)) = fst (fst (run_blocks_gen true x0 bs lvl st)).
Proof.
  intros x x0 bs. induction bs as [|b rest IH]; intros lvl st Hm; [reflexivity|].
  cbn [run_blocks_gen]. inversion Hm as [|? ? Hb Hrest]; subst.
  destruct (to_module (cfg_of b true) (b_params b) (b_target b) st) as [st1 memo1 swap0|st1 e]; [|reflexivity].
  destruct (if b_swap_dest b then quick_set swap0 (PTD []) else QOk swap0) as [swap|eq]; [|reflexivity].
  rewrite Hb. specialize (IH (S lvl) st1 Hrest).
  destruct (run_blocks_gen true x rest (S lvl) st1) as [[s2 e2] o2].
  destruct (run_blocks_gen true x0 rest (S lvl) st1) as [[s2' e2'] o2']. cbn in IH. subst s2'.
  match goal with |- context [exit_block_gen true b swap ?oc1 s2] =>
    pose proof (exit_state_any_outcome b swap oc1 s2) as H1; destruct (exit_block_gen true b swap oc1 s2) as [s3 r3] end.
  match goal with |- context [exit_block_gen true b swap ?oc2 s2] =>
    pose proof (exit_state_any_outcome b swap oc2 s2) as H2; destruct (exit_block_gen true b swap oc2 s2) as [s4 r4] end.
  cbn in *. congruence.
Qed.

Lemma block_ok2_no_manual h bs : Forall (block_ok2 h) bs -> no_manual bs.
Proof.
  intros H. eapply Forall_impl; [|exact H]. intros b [Hb|Hb]; [now destruct Hb as (_ & _ & Hm & _)|now destruct Hb as (_ & _ & Hm)].
Qed.

Definition x_none : excspec := mkExc XNone 0 false.

(* programs mixing plain / swap_dest / in-place blocks, an exception injected anywhere: every slot is back *)
Theorem restore_mixed_on_exception : forall x bs lvl st st' evs oc,
  run_blocks_gen true x bs lvl st = (st', evs, oc) ->
  Forall (block_ok2 (t_heap st)) bs -> wf_heap (t_heap st) ->
  Forall (fun e => ev_out e = OOk) (snd (fst (run_blocks_gen true x_none bs lvl st))) ->
  st' = fst (fst (run_blocks_gen true x_none bs lvl st)) /\ all_sloteq st' st.
Proof.
  intros x bs lvl st st' evs oc Hrun Hok Hwf Hn.
  pose proof (run_state_exc_irrelevant x x_none bs lvl st (block_ok2_no_manual _ _ Hok)) as He.
  rewrite Hrun in He. cbn in He. split; [exact He|].
  destruct (run_blocks_gen true x_none bs lvl st) as [[sn en] on] eqn:En. cbn in *. subst sn.
  exact (proj1 (restore_normal_mixed true x_none bs lvl st st' en on En eq_refl Hn Hok Hwf)).
Qed.

(* ------------------------------------------------------------------ 2. contents: what one in-place leaf does to the store *)
Definition slot_obj (s : slot3_t) : option obj :=
  match s with
  | (Some (Some o), _, _) => Some o
  | (_, Some (Some o), _) => Some o
  | (_, _, Some o) => Some o
  | _ => None
  end.

Definition inpl_eff (st : tstate) (out x : obj) : obj * tstate :=
  match z_get (t_saved st) (oid out) with
  | Some c => (c, copy_into st out x)
  | None => let '(c, st1) := fresh_clone st out in (c, copy_into (save_clone st1 out c) out x)
  end.

Lemma std_inplace_eff n k x st :
  let '(n', out, st') := set_tensor_dict n k x true st in
  match slot_obj (slot3 n k) with
  | Some o => out = Some (fst (inpl_eff st o x)) /\ st' = snd (inpl_eff st o x)
  | None => out = None
  end.
Proof.
  unfold set_tensor_dict, set_tensor_dict_gen, fixed_D131, fixed_D134, slot3, slot_obj. cbn [andb].
  destruct n as [cu ps bs ats subs]; node_cbn.
  destruct (d_get ps k) as [[o|]|] eqn:Ep; node_cbn;
    destruct (d_get bs k) as [[o2|]|] eqn:Eb; node_cbn; repeat (use_get; node_cbn);
      destruct (d_get ats k) as [o3|] eqn:Ea; node_cbn; repeat (use_get; node_cbn);
        try match goal with
        | |- context [z_get (t_saved st) (oid ?o)] =>
            destruct (z_get (t_saved st) (oid o)) as [c0|] eqn:Ez; [|destruct (fresh_clone st o) as [c1 st1] eqn:Ef]
        end; cbv beta iota zeta; try reflexivity;
        unfold inpl_eff; rewrite Ez; try rewrite Ef; split; reflexivity.
Qed.

(* tensor objects held by the modules *)
Definition mobj (st : tstate) (o : obj) : Prop := exists c n k, hg st c = Some n /\ slot_obj (slot3 n k) = Some o.

(* no two distinct tensor objects of the module tree share an identity or a storage (D137 is the complement), the
   allocator hands out unused storages *)
Definition tidy (st : tstate) : Prop :=
  (forall a b, mobj st a -> mobj st b -> oid a = oid b \/ ostor a = ostor b -> a = b)
  /\ (forall o, mobj st o -> ostor o < t_next st)
  /\ (forall k, t_next st <= k -> z_get (t_vals st) k = None)
  /\ (forall o, mobj st o -> val_of st o <> None).

(* the store during an in-place pass started in st0 *)
Definition K (st0 s : tstate) : Prop :=
  t_next st0 <= t_next s
  /\ (forall k, t_next s <= k -> z_get (t_vals s) k = None)
  /\ (forall o, mobj st0 o ->
        match z_get (t_saved s) (oid o) with
        | None => val_of s o = val_of st0 o
        | Some c => (t_next st0 <= ostor c < t_next s) /\ val_of s c = val_of st0 o
        end)
  /\ (forall k, k < t_next st0 -> (forall o, mobj st0 o -> ostor o <> k) -> z_get (t_vals s) k = z_get (t_vals st0) k)
  /\ (forall o, mobj st0 o -> val_of s o <> None).

Lemma K_init st : tidy st -> K (clear_saved st) (clear_saved st).
Proof.
  intros (_ & _ & T3 & T4). unfold K, clear_saved. cbn. split; [lia|]. split; [exact T3|]. split; [auto|]. split; [auto|exact T4].
Qed.

Lemma copy_into_other s d x k : k <> ostor d -> z_get (t_vals (copy_into s d x)) k = z_get (t_vals s) k.
Proof. intros H. unfold copy_into. destruct (val_of s x); cbn; [apply z_get_set_other; exact H|reflexivity]. Qed.
Lemma copy_into_next s d x : t_next (copy_into s d x) = t_next s.
Proof. unfold copy_into. destruct (val_of s x); reflexivity. Qed.
Lemma copy_into_saved s d x : t_saved (copy_into s d x) = t_saved s.
Proof. unfold copy_into. destruct (val_of s x); reflexivity. Qed.

Lemma fresh_clone_spec s o c s1 :
  fresh_clone s o = (c, s1) -> z_get (t_vals s) (t_next s) = None ->
  ostor c = t_next s /\ t_next s1 = t_next s + 1 /\ t_saved s1 = t_saved s /\ t_heap s1 = t_heap s
  /\ val_of s1 c = val_of s o /\ forall k, k <> t_next s -> z_get (t_vals s1) k = z_get (t_vals s) k.
Proof.
  unfold fresh_clone. intros H Hn. inversion H; subst; clear H. cbn. repeat split.
  - destruct (val_of s o) eqn:E; unfold val_of; cbn [t_vals ostor]; [apply z_get_set_same|exact Hn].
  - intros k Hk. destruct (val_of s o); [apply z_get_set_other; exact Hk|reflexivity].
Qed.

Lemma copy_into_nonnone s d x k : z_get (t_vals s) k <> None -> z_get (t_vals (copy_into s d x)) k <> None.
Proof.
  intros H. unfold copy_into. destruct (val_of s x); cbn; [|exact H].
  rewrite z_get_set_cases. destruct (Z.eqb k (ostor d)); [discriminate|exact H].
Qed.

Lemma inpl_eff_K st0 s o x c s' :
  tidy st0 -> K st0 s -> mobj st0 o -> inpl_eff s o x = (c, s') ->
  K st0 s' /\ t_heap s' = t_heap s /\ z_get (t_saved s') (oid o) = Some c
  /\ (forall key v, z_get (t_saved s) key = Some v -> z_get (t_saved s') key = Some v)
  /\ (forall key, key <> oid o -> z_get (t_saved s') key = z_get (t_saved s) key).
Proof.
  intros (T1 & T2 & T3 & _) (K1 & K2 & K3 & K4 & K5) Ho He. unfold inpl_eff in He.
  pose proof (T2 o Ho) as Hso.
  destruct (z_get (t_saved s) (oid o)) as [c0|] eqn:Es.
  - inversion He; subst c0 s'; clear He.
    split; [|split; [apply copy_into_heap|split; [now rewrite copy_into_saved|split; intros; now rewrite copy_into_saved]]].
    unfold K. rewrite copy_into_next, copy_into_saved. repeat split.
    + exact K1.
    + intros k Hk. rewrite copy_into_other by lia. now apply K2.
    + intros o' Ho'. pose proof (K3 o' Ho') as H3. pose proof (T2 o' Ho') as Hso'.
      destruct (z_get (t_saved s) (oid o')) as [c'|] eqn:Es'.
      * destruct H3 as (Hb & Hv). split; [exact Hb|]. unfold val_of in *. rewrite copy_into_other by lia. exact Hv.
      * assert (Hne : ostor o' <> ostor o).
        { intros Heq. assert (o' = o) by (apply T1; auto). subst o'. congruence. }
        unfold val_of in *. rewrite copy_into_other by exact Hne. exact H3.
    + intros k Hk Hnm. rewrite copy_into_other by (intros ->; exact (Hnm o Ho eq_refl)). now apply K4.
    + intros o' Ho'. unfold val_of. apply copy_into_nonnone. exact (K5 o' Ho').
  - destruct (fresh_clone s o) as [c1 s1] eqn:Ef. inversion He; subst c1 s'; clear He.
    destruct (fresh_clone_spec s o c s1 Ef (K2 _ (Z.le_refl _))) as (F1 & F2 & F3 & F4 & F5 & F6).
    split; [|split; [rewrite copy_into_heap; exact F4|split; [|split]]].
    2:{ rewrite copy_into_saved. cbn. apply z_get_set_same. }
    2:{ intros key v Hk. rewrite copy_into_saved. cbn. rewrite F3.
        destruct (Z.eq_dec key (oid o)) as [->|Hne]; [congruence|]. now rewrite z_get_set_other. }
    2:{ intros key Hne. rewrite copy_into_saved. cbn. rewrite F3. now rewrite z_get_set_other. }
    unfold K. rewrite copy_into_next, copy_into_saved. cbn [save_clone t_next t_saved t_vals t_heap]. rewrite F2, F3.
    repeat split.
    + lia.
    + intros k Hk. rewrite copy_into_other by (cbn; lia). cbn. rewrite F6 by lia. apply K2. lia.
    + intros o' Ho'. pose proof (K3 o' Ho') as H3. pose proof (T2 o' Ho') as Hso'.
      destruct (Z.eq_dec (oid o') (oid o)) as [Heq|Hne].
      * assert (o' = o) by (apply T1; auto). subst o'. rewrite z_get_set_same.
        rewrite Es in H3. split; [lia|].
        unfold val_of in *. rewrite copy_into_other by lia. cbn. rewrite F1 in *. rewrite F5. exact H3.
      * rewrite z_get_set_other by exact Hne.
        destruct (z_get (t_saved s) (oid o')) as [c'|] eqn:Es'.
        -- destruct H3 as (Hb & Hv). split; [lia|]. unfold val_of in *. rewrite copy_into_other by lia. cbn.
           rewrite F6 by lia. exact Hv.
        -- assert (Hns : ostor o' <> ostor o).
           { intros Heq. assert (o' = o) by (apply T1; auto). subst o'. congruence. }
           unfold val_of in *. rewrite copy_into_other by exact Hns. cbn. rewrite F6 by lia. exact H3.
    + intros k Hk Hnm. rewrite copy_into_other by (intros ->; exact (Hnm o Ho eq_refl)). cbn.
      rewrite F6 by lia. now apply K4.
    + intros o' Ho'. pose proof (T2 o' Ho'). unfold val_of. apply copy_into_nonnone. cbn. rewrite F6 by lia. exact (K5 o' Ho').
Qed.

(* ------------------------------------------------------------------ the way back: the store while the swap is re-applied *)
Definition ext (S S' : list (Z * obj)) : Prop := forall key v, z_get S key = Some v -> z_get S' key = Some v.
Lemma ext_refl S : ext S S. Proof. intros k v H; exact H. Qed.
Lemma ext_trans a b c : ext a b -> ext b c -> ext a c. Proof. intros H1 H2 k v H. auto. Qed.

(* S: memo["inplace"] at the end of the way there; s: a state of the way back *)
Definition R (st0 : tstate) (S : list (Z * obj)) (s : tstate) : Prop :=
  t_next st0 <= t_next s
  /\ (forall k, t_next s <= k -> z_get (t_vals s) k = None)
  /\ (forall o c, mobj st0 o -> z_get S (oid o) = Some c -> (t_next st0 <= ostor c < t_next s) /\ val_of s c = val_of st0 o)
  /\ (forall o, mobj st0 o -> z_get (t_saved s) (oid o) <> None -> val_of s o = val_of st0 o)
  /\ (forall o, mobj st0 o -> z_get S (oid o) = None -> val_of s o = val_of st0 o)
  /\ (forall k, k < t_next st0 -> (forall o, mobj st0 o -> ostor o <> k) -> z_get (t_vals s) k = z_get (t_vals st0) k).

Lemma copy_into_same s d x v : val_of s x = Some v -> z_get (t_vals (copy_into s d x)) (ostor d) = Some v.
Proof. intros H. unfold copy_into. rewrite H. cbn. apply z_get_set_same. Qed.

Lemma inpl_eff_R st0 S s o c c2 s' :
  tidy st0 -> R st0 S s -> mobj st0 o -> z_get S (oid o) = Some c -> inpl_eff s o c = (c2, s') ->
  R st0 S s' /\ z_get (t_saved s') (oid o) = Some c2 /\ ext (t_saved s) (t_saved s').
Proof.
  intros (T1 & T2 & T3 & T4) (R0 & R1 & R2 & R3 & R4 & R5) Ho HS He. unfold inpl_eff in He.
  pose proof (T2 o Ho) as Hso. destruct (R2 o c Ho HS) as (Hcb & Hcv).
  destruct (val_of st0 o) as [v|] eqn:Ev; [|exfalso; exact (T4 o Ho Ev)].
  destruct (z_get (t_saved s) (oid o)) as [c0|] eqn:Es.
  - inversion He; subst c0 s'; clear He.
    split; [|split; [now rewrite copy_into_saved|intros ? ? ?; now rewrite copy_into_saved]].
    unfold R. rewrite copy_into_next, copy_into_saved. split; [exact R0|]. split; [|split; [|split; [|split]]].
    + intros k Hk. rewrite copy_into_other by lia. now apply R1.
    + intros o' c' Ho' HS'. destruct (R2 o' c' Ho' HS') as (Hb' & Hv'). split; [exact Hb'|].
      unfold val_of in *. rewrite copy_into_other by lia. exact Hv'.
    + intros o' Ho' Hs'. destruct (Z.eq_dec (ostor o') (ostor o)) as [Heq|Hne].
      * assert (o' = o) by (apply T1; auto). subst o'. unfold val_of at 1. rewrite (copy_into_same s o c v Hcv). now rewrite Ev.
      * unfold val_of in *. rewrite copy_into_other by exact Hne. now apply R3.
    + intros o' Ho' HS'. assert (Hne : ostor o' <> ostor o).
      { intros Heq. assert (o' = o) by (apply T1; auto). subst o'. congruence. }
      unfold val_of in *. rewrite copy_into_other by exact Hne. now apply R4.
    + intros k Hk Hnm. rewrite copy_into_other by (intros ->; exact (Hnm o Ho eq_refl)). now apply R5.
  - destruct (fresh_clone s o) as [c1 s1] eqn:Ef. inversion He; subst c1 s'; clear He.
    destruct (fresh_clone_spec s o c2 s1 Ef (R1 _ (Z.le_refl _))) as (F1 & F2 & F3 & F4 & F5 & F6).
    assert (Hcv1 : val_of (save_clone s1 o c2) c = Some v).
    { unfold val_of in *. cbn. rewrite F6 by lia. exact Hcv. }
    split; [|split].
    2:{ rewrite copy_into_saved. cbn. apply z_get_set_same. }
    2:{ intros key w Hk. rewrite copy_into_saved. cbn. rewrite F3.
        destruct (Z.eq_dec key (oid o)) as [->|Hne]; [congruence|]. now rewrite z_get_set_other. }
    unfold R. rewrite copy_into_next, copy_into_saved. cbn [save_clone t_next t_saved t_vals t_heap]. rewrite F2, F3.
    split; [lia|]. split; [|split; [|split; [|split]]].
    + intros k Hk. rewrite copy_into_other by (cbn; lia). cbn. rewrite F6 by lia. apply R1. lia.
    + intros o' c' Ho' HS'. destruct (R2 o' c' Ho' HS') as (Hb' & Hv'). split; [lia|].
      unfold val_of in *. rewrite copy_into_other by lia. cbn. rewrite F6 by lia. exact Hv'.
    + intros o' Ho' Hs'. destruct (Z.eq_dec (ostor o') (ostor o)) as [Heq|Hne].
      * assert (o' = o) by (apply T1; auto). subst o'. unfold val_of at 1. rewrite (copy_into_same _ o c v Hcv1). now rewrite Ev.
      * assert (Hno : oid o' <> oid o).
        { intros Heq. assert (o' = o) by (apply T1; auto). subst o'. congruence. }
        rewrite z_get_set_other in Hs' by exact Hno. pose proof (T2 o' Ho').
        unfold val_of in *. rewrite copy_into_other by exact Hne. cbn. rewrite F6 by lia. now apply R3.
    + intros o' Ho' HS'. assert (Hne : ostor o' <> ostor o).
      { intros Heq. assert (o' = o) by (apply T1; auto). subst o'. congruence. }
      pose proof (T2 o' Ho'). unfold val_of in *. rewrite copy_into_other by exact Hne. cbn. rewrite F6 by lia. now apply R4.
    + intros k Hk Hnm. rewrite copy_into_other by (intros ->; exact (Hnm o Ho eq_refl)). cbn.
      rewrite F6 by lia. now apply R5.
Qed.

(* ------------------------------------------------------------------ one leaf of an in-place pass *)
Definition inplT (cfg : tmcfg) : Prop := inpl cfg /\ c_return_swap cfg = true.

Lemma leaf_step_inpl cfg m k x st n :
  inpl cfg -> hg st m = Some n ->
  match (if m_custom n then None else slot_obj (slot3 n k)) with
  | Some o => exists st', leaf_step cfg m k x st = (st', inl (Some (fst (inpl_eff st o x))))
       /\ t_vals st' = t_vals (snd (inpl_eff st o x)) /\ t_next st' = t_next (snd (inpl_eff st o x))
       /\ t_saved st' = t_saved (snd (inpl_eff st o x))
  | None => exists st' e, leaf_step cfg m k x st = (st', inr e)
  end.
Proof.
  intros (Husd & Hinp) Hn. unfold leaf_step. unfold hg in Hn. rewrite Hn, Hinp, Husd.
  destruct (m_custom n); [eexists _, _; reflexivity|].
  pose proof (std_inplace_eff n k x st) as Hs.
  destruct (set_tensor_dict n k x true st) as [[n' out] st2].
  destruct (slot_obj (slot3 n k)) as [o|].
  - destruct Hs as (-> & ->). eexists. split; [reflexivity|]. cbn. repeat split.
  - subst out. eexists _, _. reflexivity.
Qed.

Lemma K_fields st0 s s' : t_vals s' = t_vals s -> t_next s' = t_next s -> t_saved s' = t_saved s -> K st0 s -> K st0 s'.
Proof. unfold K, val_of. intros H1 H2 H3. rewrite H1, H2, H3. trivial. Qed.
Lemma R_fields st0 S s s' : t_vals s' = t_vals s -> t_next s' = t_next s -> t_saved s' = t_saved s -> R st0 S s -> R st0 S s'.
Proof. unfold R, val_of. intros H1 H2 H3. rewrite H1, H2, H3. trivial. Qed.

Lemma sloteq_at st st0 m n0 : all_sloteq st st0 -> hg st0 m = Some n0 -> exists n, hg st m = Some n /\ sloteq n n0.
Proof. intros H Hn. specialize (H m). rewrite Hn in H. destruct (hg st m) as [n|]; cbn in H; [eauto|tauto]. Qed.
Lemma sloteq_at' st st0 m n : all_sloteq st st0 -> hg st m = Some n -> exists n0, hg st0 m = Some n0 /\ sloteq n n0.
Proof. intros H Hn. specialize (H m). rewrite Hn in H. destruct (hg st0 m) as [n0|]; cbn in H; [eauto|tauto]. Qed.

Lemma to_mod_inpl cfg ents m st memo :
  inplT cfg ->
  to_mod cfg (PTD ents) m st memo =
  match h_get (t_heap st) m with
  | None => TmErr st EOther
  | Some n0 =>
      match tm_go (to_mod cfg) cfg m (m_custom n0) (m_subs n0) true ents st (z_set memo m (PTD [])) [] with
      | (st2, memo2, acc2, Some e) => TmErr st2 e
      | (st2, memo2, acc2, None) => TmOk st2 (z_set memo2 m (PTD acc2)) (PTD acc2)
      end
  end.
Proof.
  intros ((Husd & Hinp) & Hrs). cbn [to_mod]. destruct (h_get (t_heap st) m); [|reflexivity].
  rewrite Husd, Hrs. cbn. reflexivity.
Qed.

(* ------------------------------------------------------------------ the way there and the way back, any DAG *)
Definition covers (st0 st st1 stY : tstate) : Prop :=
  forall o, mobj st0 o -> z_get (t_saved st) (oid o) = None -> z_get (t_saved st1) (oid o) <> None ->
            z_get (t_saved stY) (oid o) <> None.

Definition replay_go (cfg : tmcfg) (st0 : tstate) (m : Z) (n0 : mnode) (swl : list (string * pent))
           (st st1 : tstate) (memo memo1 : memo_t) : Prop :=
  forall S stX memoX accX, ext (t_saved st1) S -> dom_eq memoX memo -> all_sloteq stX st0 -> R st0 S stX ->
    exists stY memoY swl',
      tm_go (to_mod cfg) cfg m (m_custom n0) (m_subs n0) true swl stX memoX accX = (stY, memoY, accX ++ swl', None)
      /\ dom_eq memoY memo1 /\ all_sloteq stY st0 /\ R st0 S stY /\ ext (t_saved stX) (t_saved stY)
      /\ covers st0 st st1 stY.

Definition replay (cfg : tmcfg) (st0 : tstate) (m : Z) (sw : ptd) (st st1 : tstate) (memo memo1 : memo_t) : Prop :=
  forall S stX memoX, ext (t_saved st1) S -> dom_eq memoX memo -> all_sloteq stX st0 -> R st0 S stX ->
    exists stY memoY sw',
      to_mod cfg sw m stX memoX = TmOk stY memoY sw'
      /\ dom_eq memoY memo1 /\ all_sloteq stY st0 /\ R st0 S stY /\ ext (t_saved stX) (t_saved stY)
      /\ covers st0 st st1 stY.

Definition W_stmt (t : ptd) : Prop :=
  forall cfg, inplT cfg -> forall st0, tidy st0 -> wf_heap (t_heap st0) -> forall m st memo st1 memo1 sw,
    to_mod cfg t m st memo = TmOk st1 memo1 sw -> K st0 st -> all_sloteq st st0 ->
    K st0 st1 /\ all_sloteq st1 st0 /\ ext (t_saved st) (t_saved st1) /\ replay cfg st0 m sw st st1 memo memo1.

Lemma push_T cfg acc k v : inplT cfg -> push cfg acc k v = acc ++ [(k, v)].
Proof. intros (_ & Hr). unfold push. now rewrite Hr. Qed.

Lemma WL : forall l,
  Forall (fun e : string * pent => match snd e with PSub t => W_stmt t | PLeaf _ => True end) l ->
  forall cfg, inplT cfg -> forall st0, tidy st0 -> wf_heap (t_heap st0) -> forall m n0, hg st0 m = Some n0 ->
  forall st memo acc st1 memo1 acc1,
    tm_go (to_mod cfg) cfg m (m_custom n0) (m_subs n0) true l st memo acc = (st1, memo1, acc1, None) ->
    K st0 st -> all_sloteq st st0 ->
    K st0 st1 /\ all_sloteq st1 st0 /\ ext (t_saved st) (t_saved st1)
    /\ exists swl, acc1 = acc ++ swl /\ replay_go cfg st0 m n0 swl st st1 memo memo1.
Proof.
  induction l as [|e r IH]; [|destruct e as [k pe]; destruct pe as [o|t']; [destruct o as [x|]|]];
    intros HF cfg HT st0 Htidy Hwf0 m n0 Hn0 st memo acc st1 memo1 acc1 Hgo HK Hall;
    pose proof HT as (Hi & Hrs); pose proof Hi as (Husd & Hinp).
  - rewrite tm_go_nil in Hgo. inversion Hgo; subst. split; [exact HK|split; [exact Hall|split; [apply ext_refl|]]].
    exists []. split; [now rewrite app_nil_r|].
    intros S stX memoX accX HS Hd HX HR. exists stX, memoX, []. rewrite tm_go_nil, app_nil_r.
    split; [reflexivity|split; [exact Hd|split; [exact HX|split; [exact HR|split; [apply ext_refl|]]]]].
    intros o' _ H1 H2. contradiction.
  - (* a leaf *)
    rewrite tm_go_leaf, Husd in Hgo. cbn [andb negb] in Hgo.
    destruct (sloteq_at st st0 m n0 Hall Hn0) as (n & Hn & Hcu & Hsubs & Hslots).
    pose proof (leaf_step_inpl cfg m k x st n Hi Hn) as HL. rewrite Hcu, Hslots in HL.
    assert (Ecu0 : m_custom n0 = false).
    { destruct (m_custom n0) eqn:E; [|reflexivity]. exfalso. destruct HL as (s & e & He). rewrite He in Hgo. discriminate. }
    rewrite Ecu0 in HL.
    destruct (slot_obj (slot3 n0 k)) as [o|] eqn:Eo.
    2:{ destruct HL as (s & e & He). rewrite He in Hgo. discriminate. }
    destruct HL as (st' & He & V1 & V2 & V3). rewrite He in Hgo.
    assert (Hmo : mobj st0 o) by (exists m, n0, k; auto).
    destruct (inpl_eff st o x) as [c s'] eqn:Ee. cbn [fst snd] in *.
    destruct (inpl_eff_K st0 st o x c s' Htidy HK Hmo Ee) as (HK' & _ & Hsc & Hext & Hoth).
    assert (HK1 : K st0 st') by (eapply K_fields; eauto).
    assert (Hwf : wf_heap (t_heap st)) by (eapply all_sloteq_wf; eauto).
    assert (Hall1 : all_sloteq st' st0).
    { eapply all_sloteq_trans; [|exact Hall]. eapply leaf_step_inplace; eauto. }
    rewrite (push_T cfg _ _ _ HT) in Hgo.
    destruct (IH (Forall_inv_tail HF) cfg HT st0 Htidy Hwf0 m n0 Hn0 _ _ _ _ _ _ Hgo HK1 Hall1)
      as (HKf & Hallf & Hextf & swl & Hacc & Hrep).
    split; [exact HKf|]. split; [exact Hallf|]. split.
    { eapply ext_trans; [|exact Hextf]. rewrite V3. exact Hext. }
    exists ((k, PLeaf (Some c)) :: swl). split; [rewrite Hacc, <- app_assoc; reflexivity|].
    intros S stX memoX accX HS Hd HX HR.
    rewrite tm_go_leaf, Husd. cbn [andb negb].
    destruct (sloteq_at stX st0 m n0 HX Hn0) as (nX & HnX & HcuX & HsubsX & HslotsX).
    pose proof (leaf_step_inpl cfg m k c stX nX Hi HnX) as HL2. rewrite HcuX, HslotsX, Ecu0, Eo in HL2.
    destruct HL2 as (stX' & HeX & X1 & X2 & X3). rewrite HeX.
    destruct (inpl_eff stX o c) as [c2 sX'] eqn:EeX. cbn [fst snd] in *.
    assert (HSo : z_get S (oid o) = Some c).
    { apply HS. apply Hextf. rewrite V3. exact Hsc. }
    destruct (inpl_eff_R st0 S stX o c c2 sX' Htidy HR Hmo HSo EeX) as (HR' & Hsc2 & HextX).
    assert (HR1 : R st0 S stX') by (eapply R_fields; eauto).
    assert (HwfX : wf_heap (t_heap stX)) by (eapply all_sloteq_wf; eauto).
    assert (HallX1 : all_sloteq stX' st0).
    { eapply all_sloteq_trans; [|exact HX]. eapply leaf_step_inplace; eauto. }
    rewrite (push_T cfg _ _ _ HT).
    destruct (Hrep S stX' memoX (accX ++ [(k, PLeaf (Some c2))]) HS Hd HallX1 HR1)
      as (stY & memoY & swl' & Hgo2 & Hd2 & HallY & HRY & HextY & Hcov).
    exists stY, memoY, ((k, PLeaf (Some c2)) :: swl'). rewrite Hgo2, <- app_assoc.
    split; [reflexivity|]. split; [exact Hd2|]. split; [exact HallY|]. split; [exact HRY|]. split.
    { eapply ext_trans; [|exact HextY]. rewrite X3. exact HextX. }
    intros o' Ho' H1 H2.
    destruct (z_get (t_saved st') (oid o')) as [w|] eqn:Ew; [|now apply Hcov].
    destruct (Z.eq_dec (oid o') (oid o)) as [Heq|Hne].
    + rewrite Heq. rewrite <- X3 in Hsc2. rewrite (HextY _ _ Hsc2). discriminate.
    + rewrite V3, (Hoth _ Hne) in Ew. congruence.
  - rewrite tm_go_none, Husd in Hgo. destruct (m_custom n0); [discriminate|]. destruct (d_mem (m_subs n0) k); discriminate.
  - (* a sub-module entry *)
    rewrite tm_go_sub, Husd in Hgo. cbn [andb] in Hgo.
    destruct (d_get (m_subs n0) k) as [[child|]|] eqn:Ed; try discriminate.
    destruct (z_get memo child) as [swc|] eqn:Em.
    + rewrite (push_T cfg _ _ _ HT) in Hgo.
      destruct (IH (Forall_inv_tail HF) cfg HT st0 Htidy Hwf0 m n0 Hn0 _ _ _ _ _ _ Hgo HK Hall)
        as (HKf & Hallf & Hextf & swl & Hacc & Hrep).
      repeat (split; [assumption|]).
      exists ((k, PSub swc) :: swl). split; [rewrite Hacc, <- app_assoc; reflexivity|].
      intros S stX memoX accX HS Hd HX HR.
      rewrite tm_go_sub, Husd, Ed. cbn [andb].
      destruct (z_get memoX child) as [swx|] eqn:Emx.
      2:{ apply Hd in Emx. congruence. }
      rewrite (push_T cfg _ _ _ HT).
      destruct (Hrep S stX memoX (accX ++ [(k, PSub swx)]) HS Hd HX HR)
        as (stY & memoY & swl' & Hgo2 & Hd2 & HallY & HRY & HextY & Hcov).
      exists stY, memoY, ((k, PSub swx) :: swl'). rewrite Hgo2, <- app_assoc. repeat (split; [solve [auto]|]). exact Hcov.
    + destruct (to_mod cfg t' child st memo) as [st' memo' s|] eqn:Et; [|discriminate].
      pose proof (Forall_inv HF) as HS0. cbn in HS0.
      destruct (HS0 cfg HT st0 Htidy Hwf0 child st memo st' memo' s Et HK Hall) as (HK1 & Hall1 & Hext1 & Hrep1).
      rewrite (push_T cfg _ _ _ HT) in Hgo.
      destruct (IH (Forall_inv_tail HF) cfg HT st0 Htidy Hwf0 m n0 Hn0 _ _ _ _ _ _ Hgo HK1 Hall1)
        as (HKf & Hallf & Hextf & swl & Hacc & Hrep).
      split; [exact HKf|]. split; [exact Hallf|]. split; [eapply ext_trans; eauto|].
      exists ((k, PSub s) :: swl). split; [rewrite Hacc, <- app_assoc; reflexivity|].
      intros S stX memoX accX HS Hd HX HR.
      rewrite tm_go_sub, Husd, Ed. cbn [andb].
      destruct (z_get memoX child) as [swx|] eqn:Emx.
      { assert (z_get memoX child = None) by (apply Hd; exact Em). congruence. }
      destruct (Hrep1 S stX memoX (ext_trans _ _ _ Hextf HS) Hd HX HR)
        as (stY1 & memoY1 & sw1 & Ht1 & Hd1 & HallY1 & HRY1 & HextY1 & Hcov1).
      rewrite Ht1, (push_T cfg _ _ _ HT).
      destruct (Hrep S stY1 memoY1 (accX ++ [(k, PSub sw1)]) HS Hd1 HallY1 HRY1)
        as (stY & memoY & swl' & Hgo2 & Hd2 & HallY & HRY & HextY & Hcov).
      exists stY, memoY, ((k, PSub sw1) :: swl'). rewrite Hgo2, <- app_assoc.
      split; [reflexivity|]. split; [exact Hd2|]. split; [exact HallY|]. split; [exact HRY|]. split; [eapply ext_trans; eauto|].
      intros o' Ho' H1 H2.
      destruct (z_get (t_saved st') (oid o')) as [w|] eqn:Ew; [|now apply Hcov].
      assert (Hy : z_get (t_saved stY1) (oid o') <> None) by (apply Hcov1; auto; congruence).
      destruct (z_get (t_saved stY1) (oid o')) as [w1|] eqn:Ew1; [|congruence].
      rewrite (HextY _ _ Ew1). discriminate.
Qed.

Theorem W_all : forall t, W_stmt t.
Proof.
  induction t as [ents HF] using ptd_ind2.
  intros cfg HT st0 Htidy Hwf0 m st memo st1 memo1 sw Htm HK Hall.
  rewrite (to_mod_inpl cfg ents m st memo HT) in Htm.
  destruct (h_get (t_heap st) m) as [n|] eqn:En; [|discriminate].
  destruct (sloteq_at' st st0 m n Hall En) as (n0 & Hn0 & Hcu & Hsubs & _). rewrite Hcu, Hsubs in Htm.
  destruct (tm_go (to_mod cfg) cfg m (m_custom n0) (m_subs n0) true ents st (z_set memo m (PTD [])) [])
    as [[[st2 memo2] acc2] [e|]] eqn:Eg; [discriminate|].
  inversion Htm; subst st2 memo1 sw. clear Htm.
  destruct (WL ents HF cfg HT st0 Htidy Hwf0 m n0 Hn0 _ _ _ _ _ _ Eg HK Hall) as (HKf & Hallf & Hextf & swl & Hacc & Hrep).
  cbn [app] in Hacc. subst acc2.
  split; [exact HKf|]. split; [exact Hallf|]. split; [exact Hextf|].
  intros S stX memoX HS Hd HX HR.
  rewrite (to_mod_inpl cfg swl m stX memoX HT).
  destruct (sloteq_at stX st0 m n0 HX Hn0) as (nX & HnX & HcuX & HsubsX & _).
  unfold hg in HnX. rewrite HnX, HcuX, HsubsX.
  destruct (Hrep S stX (z_set memoX m (PTD [])) [] HS (dom_eq_set _ _ _ _ _ Hd) HX HR)
    as (stY & memoY & swl' & Hgo2 & Hd2 & HallY & HRY & HextY & Hcov).
  rewrite Hgo2. cbn [app].
  exists stY, (z_set memoY m (PTD swl')), (PTD swl').
  split; [reflexivity|]. split; [apply dom_eq_set; exact Hd2|]. auto.
Qed.

(* ------------------------------------------------------------------ 3. there and back: objects and contents *)
(* the store of [s] holds, for every tensor of the module tree and every other storage that existed in [st], what [st] held *)
Definition vals_back (st s : tstate) : Prop :=
  (forall o, mobj st o -> val_of s o = val_of st o)
  /\ (forall k, k < t_next st -> (forall o, mobj st o -> ostor o <> k) -> z_get (t_vals s) k = z_get (t_vals st) k).

Theorem inplace_there_and_back cfg t m st st1 memo1 sw :
  inplT cfg -> tidy st -> wf_heap (t_heap st) ->
  to_module cfg t m st = TmOk st1 memo1 sw ->
  exists st2 memo2 sw2, to_module cfg sw m st1 = TmOk st2 memo2 sw2 /\ all_sloteq st2 st /\ vals_back st st2.
Proof.
  intros HT Htidy Hwf Htm. unfold to_module in *.
  assert (Htidy0 : tidy (clear_saved st)) by exact Htidy.
  destruct (W_all t cfg HT (clear_saved st) Htidy0 Hwf m (clear_saved st) [] st1 memo1 sw Htm (K_init st Htidy)
              (all_sloteq_refl _)) as (HK1 & Hall1 & _ & Hrep).
  destruct HK1 as (K1 & K2 & K3 & K4 & K5).
  destruct (Hrep (t_saved st1) (clear_saved st1) [] (ext_refl _) (fun c => conj (fun H => H) (fun H => H)) Hall1)
    as (st2 & memo2 & sw2 & Ht2 & _ & Hall2 & HR2 & _ & Hcov).
  { unfold R. cbn [clear_saved t_vals t_next t_saved]. split; [exact K1|]. split; [exact K2|]. split; [|split; [|split]].
    - intros o c Ho Hs. pose proof (K3 o Ho) as H3. rewrite Hs in H3. exact H3.
    - intros o _ H. cbn in H. congruence.
    - intros o Ho Hs. pose proof (K3 o Ho) as H3. rewrite Hs in H3. exact H3.
    - exact K4. }
  exists st2, memo2, sw2. split; [exact Ht2|]. split; [exact Hall2|].
  destruct HR2 as (_ & _ & _ & R3 & R4 & R5). split; [|exact R5].
  intros o Ho. change (val_of st o) with (val_of (clear_saved st) o).
  destruct (z_get (t_saved st1) (oid o)) as [c|] eqn:Es; [|now apply R4].
  apply R3; [exact Ho|]. apply Hcov; [exact Ho|reflexivity|congruence].
Qed.

(* a with-block with inplace=True, left normally or by an exception raised in the body (any class): every slot holds
   its object, every tensor its original content *)
Theorem inplace_block_restores : forall x b lvl st st' evs oc,
  run_blocks_gen true x [b] lvl st = (st', evs, oc) ->
  inplace_ok b -> b_swap_dest b = false -> tidy st -> wf_heap (t_heap st) -> enters_ok evs ->
  all_sloteq st' st /\ vals_back st st'.
Proof.
  intros x b lvl st st' evs oc Hrun Hb Hsd Htidy Hwf Hen. cbn [run_blocks_gen] in Hrun. rewrite Hsd in Hrun.
  destruct (to_module (cfg_of b true) (b_params b) (b_target b) st) as [st1 memo1 swap|st1 e] eqn:Et.
  2:{ inversion Hrun; subst. inversion Hen as [|? ? He _]; subst. cbn in He. specialize (He eq_refl). discriminate. }
  pose proof Hb as (_ & _ & Hman). rewrite Hman in Hrun.
  assert (HT : inplT (cfg_of b true)) by (split; [apply inplace_ok_inpl; exact Hb|reflexivity]).
  destruct (inplace_there_and_back _ _ _ _ _ _ _ HT Htidy Hwf Et) as (st2 & memo2 & sw2 & Ht2 & Hall & Hv).
  match type of Hrun with context [exit_block_gen true b swap ?o st1] =>
    pose proof (exit_state_any_outcome b swap o st1) as Hx; destruct (exit_block_gen true b swap o st1) as [st3 oc'] end.
  inversion Hrun; subst st' evs oc. cbn [fst] in Hx. subst st3.
  unfold reverse_to_module, fixed_D133. rewrite andb_false_r, Ht2.
  assert (Hs : forall r : tstate * outcome, fst r = st2 -> all_sloteq (fst r) st /\ vals_back st (fst r)) by (intros r ->; auto).
  apply Hs. destruct (b_live b); [destruct (quick_set sw2 (b_params b))|]; reflexivity.
Qed.

(* ------------------------------------------------------------------ the executable domain checks are sound *)
Lemma d_get_In {V} (d : list (string * V)) k v : d_get d k = Some v -> exists k', In (k', v) d.
Proof.
  induction d as [|[k0 v0] r IH]; cbn; [discriminate|].
  destruct (String.eqb k k0); [intros [= <-]; eauto|]. intros H. destruct (IH H) as (k' & Hk). eauto.
Qed.

Lemma opt_objs_In d k o : In (k, Some o) d -> In o (opt_objs d).
Proof. intros H. unfold opt_objs. apply in_flat_map. exists (k, Some o). split; [exact H|now left]. Qed.

Lemma mobj_In st o : mobj st o -> In o (heap_objs (t_heap st)).
Proof.
  intros (c & n & k & Hn & Ho). unfold heap_objs. apply in_flat_map. exists (c, n). split; [apply z_get_In; exact Hn|].
  cbn [snd]. unfold node_objs, slot3, slot_obj in *. rewrite !in_app_iff.
  destruct (d_get (m_params n) k) as [[p|]|] eqn:Ep.
  - inversion Ho; subst. destruct (d_get_In _ _ _ Ep) as (k' & Hk). left. eapply opt_objs_In; eauto.
  - destruct (d_get (m_bufs n) k) as [[b|]|] eqn:Eb.
    + inversion Ho; subst. destruct (d_get_In _ _ _ Eb) as (k' & Hk). right; left. eapply opt_objs_In; eauto.
    + destruct (d_get (m_attrs n) k) as [a|] eqn:Ea; [|discriminate]. inversion Ho; subst.
      destruct (d_get_In _ _ _ Ea) as (k' & Hk). right; right. apply in_map_iff. exists (k', o). auto.
    + destruct (d_get (m_attrs n) k) as [a|] eqn:Ea; [|discriminate]. inversion Ho; subst.
      destruct (d_get_In _ _ _ Ea) as (k' & Hk). right; right. apply in_map_iff. exists (k', o). auto.
  - destruct (d_get (m_bufs n) k) as [[b|]|] eqn:Eb.
    + inversion Ho; subst. destruct (d_get_In _ _ _ Eb) as (k' & Hk). right; left. eapply opt_objs_In; eauto.
    + destruct (d_get (m_attrs n) k) as [a|] eqn:Ea; [|discriminate]. inversion Ho; subst.
      destruct (d_get_In _ _ _ Ea) as (k' & Hk). right; right. apply in_map_iff. exists (k', o). auto.
    + destruct (d_get (m_attrs n) k) as [a|] eqn:Ea; [|discriminate]. inversion Ho; subst.
      destruct (d_get_In _ _ _ Ea) as (k' & Hk). right; right. apply in_map_iff. exists (k', o). auto.
Qed.

Lemma obj_eqb_eq a b : obj_eqb a b = true -> a = b.
Proof.
  destruct a as [i1 k1 s1], b as [i2 k2 s2]. unfold obj_eqb. cbn. rewrite !andb_true_iff, !Z.eqb_eq.
  intros ((-> & Hk) & ->). destruct k1, k2; cbn in Hk; try discriminate; reflexivity.
Qed.

Lemma z_get_above (d : list (Z * Z)) b k : forallb (fun e => fst e <? b) d = true -> b <= k -> z_get d k = None.
Proof.
  induction d as [|[k0 v0] r IH]; cbn; [reflexivity|]. rewrite andb_true_iff, Z.ltb_lt. intros (H1 & H2) Hk.
  destruct (Z.eqb k k0) eqn:E; [apply Z.eqb_eq in E; lia|]. now apply IH.
Qed.

Lemma tidyb_ok st : tidyb st = true -> tidy st.
Proof.
  unfold tidyb. rewrite !andb_true_iff, !forallb_forall. intros ((H1 & H2) & H3).
  split; [|split; [|split]].
  - intros a b Ha Hb Hor. apply mobj_In in Ha. apply mobj_In in Hb.
    specialize (H1 a Ha). rewrite forallb_forall in H1. specialize (H1 b Hb).
    apply obj_eqb_eq. destruct (obj_eqb a b); [reflexivity|]. exfalso.
    destruct Hor as [Hor|Hor]; rewrite <- Z.eqb_eq in Hor; rewrite Hor in H1; cbn in H1; rewrite ?orb_true_r in H1; discriminate.
  - intros o Ho. apply mobj_In in Ho. specialize (H2 o Ho). rewrite andb_true_iff, Z.ltb_lt in H2. tauto.
  - intros k Hk. eapply z_get_above; [|exact Hk]. apply forallb_forall. exact H3.
  - intros o Ho. apply mobj_In in Ho. specialize (H2 o Ho). rewrite andb_true_iff in H2. destruct H2 as (_ & H2).
    destruct (val_of st o); [discriminate|discriminate].
Qed.

Lemma inplace_okb_ok b : inplace_okb b = true -> inplace_ok b.
Proof.
  unfold inplace_okb, inplace_ok. rewrite !andb_true_iff, !negb_true_iff. intros ((H1 & H2) & H3).
  repeat split; auto. destruct (b_inplace b) as [[|]|]; try discriminate; reflexivity.
Qed.

(* ------------------------------------------------------------------ inside the block: the supplied value *)
Lemma inpl_eff_inside st0 s o x c s' v :
  tidy st0 -> K st0 s -> mobj st0 o -> inpl_eff s o x = (c, s') ->
  val_of s x = Some v -> ostor x < t_next s ->
  val_of s' o = Some v.
Proof.
  intros Htidy (K1 & K2 & K3 & K4 & _) Ho He Hv Hx. unfold inpl_eff in He.
  destruct (z_get (t_saved s) (oid o)) as [c0|].
  - inversion He; subst. unfold val_of at 1. now apply copy_into_same.
  - destruct (fresh_clone s o) as [c1 s1] eqn:Ef. inversion He; subst c1 s'; clear He.
    destruct (fresh_clone_spec s o c s1 Ef (K2 _ (Z.le_refl _))) as (F1 & F2 & F3 & F4 & F5 & F6).
    unfold val_of at 1. apply copy_into_same. unfold val_of in *. cbn. rewrite F6 by lia. exact Hv.
Qed.

(* ------------------------------------------------------------------ non-vacuity: a tied parameter across two modules *)
Definition ex_st4 : tstate := mkSt ex_heap4 ex_vals FRESH_BASE [].
Lemma ex_inplace_domain :
  inplace_ok ex_b4 /\ b_swap_dest ex_b4 = false /\ tidy ex_st4 /\ wf_heap (t_heap ex_st4)
  /\ inplT (cfg_of ex_b4 true) /\ inplace_block_domainb ex_st4 [ex_b4] = true.
Proof.
  split; [apply inplace_okb_ok; reflexivity|]. split; [reflexivity|].
  split; [apply tidyb_ok; vm_compute; reflexivity|]. split; [apply wf_heapb_ok; vm_compute; reflexivity|].
  split; [repeat split|vm_compute; reflexivity].
Qed.
(* an Exception and a BaseException raised in the body of the in-place block on the tied tree: entered, inside the block
   the tied tensor holds the last supplied value (5), afterwards its own (10) *)
Lemma ex_inplace_exception_run :
  (let '(st', evs, oc) := run_blocks_gen true (mkExc XExc 0 true) [ex_b4] 0 ex_st4 in
   enters_ok evs /\ oc = ORaise EInject /\ z_get (t_vals st') 1 = Some 10
   /\ match evs with e :: _ => z_get (t_vals (ev_state e)) 1 = Some 5 | [] => False end)
  /\ (let '(st', evs, oc) := run_blocks_gen true (mkExc XBase 0 true) [ex_b4] 0 ex_st4 in
      enters_ok evs /\ z_get (t_vals st') 1 = Some 10).
Proof.
  split; vm_compute; (split; [repeat constructor; intros; try reflexivity; discriminate|]); repeat split; reflexivity.
Qed.
(* the refuted complement (D137): two distinct Parameter objects on one storage under two names are outside [tidy], and
   there and back leaves the first supplied value in the shared storage *)
Definition ex_heap_alias : heap :=
  [ (0, mkNode false [("w", Some (mkObj 1 KParam 1)); ("v", Some (mkObj 2 KParam 1))] [] [] []) ].
Definition ex_b_alias := mkBlock 0 (Some true) false false false true
  (PTD [("w", PLeaf (Some (oT 11))); ("v", PLeaf (Some (oT 15)))]).
Lemma ex_D137 :
  tidyb (mkSt ex_heap_alias ex_vals FRESH_BASE []) = false /\ inplace_ok ex_b_alias /\ wf_heap ex_heap_alias
  /\ ~ tidy (mkSt ex_heap_alias ex_vals FRESH_BASE [])
  /\ (let '(st', evs, oc) := run_blocks_gen true x_none [ex_b_alias] 0 (mkSt ex_heap_alias ex_vals FRESH_BASE []) in
      Forall (fun e => ev_out e = OOk) evs /\ z_get (t_vals st') 1 = Some 1 /\ z_get ex_vals 1 = Some 10).
Proof.
  split; [vm_compute; reflexivity|]. split; [apply inplace_okb_ok; reflexivity|].
  split; [apply wf_heapb_ok; vm_compute; reflexivity|]. split.
  - intros (T1 & _).
    assert (H : mkObj 1 KParam 1 = mkObj 2 KParam 1).
    { apply T1; [exists 0, (mkNode false [("w", Some (mkObj 1 KParam 1)); ("v", Some (mkObj 2 KParam 1))] [] [] []), "w"
               |exists 0, (mkNode false [("w", Some (mkObj 1 KParam 1)); ("v", Some (mkObj 2 KParam 1))] [] [] []), "v"
               |right]; (split; reflexivity) || reflexivity. }
    discriminate.
  - vm_compute. split; [repeat constructor|split; reflexivity].
Qed.

(* the statement without [tidy] (any module, storage-level aliasing included) and its refutation *)
Definition inplace_contents_full_statement : Prop :=
  forall x b lvl st st' evs oc,
    run_blocks_gen true x [b] lvl st = (st', evs, oc) ->
    inplace_ok b -> b_swap_dest b = false -> wf_heap (t_heap st) -> enters_ok evs ->
    forall o, mobj st o -> val_of st' o = val_of st o.

Lemma inplace_contents_refuted : ~ inplace_contents_full_statement.
Proof.
  intros H. set (st := mkSt ex_heap_alias ex_vals FRESH_BASE []).
  remember (run_blocks_gen true x_none [ex_b_alias] 0 st) as r eqn:Er. destruct r as [[st' evs] oc]. symmetry in Er.
  assert (Hwf : wf_heap (t_heap st)) by (apply wf_heapb_ok; vm_compute; reflexivity).
  pose proof (H x_none ex_b_alias 0%nat st st' evs oc Er (inplace_okb_ok ex_b_alias eq_refl) eq_refl Hwf) as H'.
  vm_compute in Er. inversion Er; subst st' evs oc. clear Er.
  match type of H' with enters_ok ?l -> _ => assert (Hen : enters_ok l) by (repeat constructor; intros; try reflexivity; discriminate) end.
  specialize (H' Hen (mkObj 1 KParam 1)).
  assert (Hm : mobj st (mkObj 1 KParam 1)).
  { exists 0, (mkNode false [("w", Some (mkObj 1 KParam 1)); ("v", Some (mkObj 2 KParam 1))] [] [] []), "w". split; reflexivity. }
  specialize (H' Hm). vm_compute in H'. discriminate.
Qed.

(* the way there alone, any DAG: memo["inplace"] holds a clone with the original content for every overwritten tensor *)
Theorem inplace_saves_originals cfg t m st st1 memo1 sw :
  inplT cfg -> tidy st -> wf_heap (t_heap st) ->
  to_module cfg t m st = TmOk st1 memo1 sw -> K (clear_saved st) st1 /\ all_sloteq st1 st.
Proof.
  intros HT Htidy Hwf Htm. unfold to_module in Htm.
  destruct (W_all t cfg HT (clear_saved st) Htidy Hwf m (clear_saved st) [] st1 memo1 sw Htm (K_init st Htidy)
              (all_sloteq_refl _)) as (HK1 & Hall1 & _). split; assumption.
Qed.

(* ------------------------------------------------------------------ programs of in-place blocks, any nesting *)
Lemma mobj_sloteq a b o : all_sloteq a b -> mobj a o -> mobj b o.
Proof.
  intros H (c & n & k & Hn & Ho). destruct (sloteq_at' a b c n H Hn) as (n0 & Hn0 & _ & _ & Hs).
  exists c, n0, k. split; [exact Hn0|]. now rewrite <- Hs.
Qed.

(* what a program leaves: objects, contents, and an allocator state from which the next block can start *)
Definition back (st s : tstate) : Prop :=
  all_sloteq s st /\ vals_back st s /\ t_next st <= t_next s /\ (forall k, t_next s <= k -> z_get (t_vals s) k = None).

Definition inplace_ok' (b : block) : Prop := inplace_ok b /\ b_swap_dest b = false.

Theorem restore_inplace_programs : forall x bs lvl st st' evs oc,
  run_blocks_gen true x bs lvl st = (st', evs, oc) ->
  Forall inplace_ok' bs -> tidy st -> wf_heap (t_heap st) -> enters_ok evs ->
  back st st'.
Proof.
  intros x bs. induction bs as [|b rest IH]; intros lvl st st' evs oc Hrun Hok Htidy Hwf Hen.
  - cbn in Hrun. inversion Hrun; subst. destruct Htidy as (_ & _ & T3 & _).
    split; [apply all_sloteq_refl|]. split; [split; auto|]. split; [lia|exact T3].
  - cbn [run_blocks_gen] in Hrun.
    pose proof (Forall_inv Hok) as (Hb & Hsd). pose proof (Forall_inv_tail Hok) as Hrest. rewrite Hsd in Hrun.
    destruct (to_module (cfg_of b true) (b_params b) (b_target b) st) as [st1 memo1 swap|st1 e] eqn:Et.
    2:{ inversion Hrun; subst. inversion Hen as [|? ? He _]; subst. cbn in He. specialize (He eq_refl). discriminate. }
    pose proof Hb as (_ & _ & Hman). rewrite Hman in Hrun.
    assert (HT : inplT (cfg_of b true)) by (split; [apply inplace_ok_inpl; exact Hb|reflexivity]).
    unfold to_module in Et.
    assert (Htidy0 : tidy (clear_saved st)) by exact Htidy.
    destruct (W_all _ _ HT (clear_saved st) Htidy0 Hwf _ (clear_saved st) [] st1 memo1 swap Et (K_init st Htidy)
                (all_sloteq_refl _)) as (HK1 & Hall1 & _ & Hrep).
    pose proof HK1 as (K1 & K2 & K3 & K4 & K5).
    pose proof Htidy as (T1 & T2 & T3 & T4).
    assert (Htidy1 : tidy st1).
    { split; [|split; [|split]].
      - intros a c Ha Hc. apply T1; eapply mobj_sloteq; eauto.
      - intros o Ho. pose proof (T2 o (mobj_sloteq _ _ _ Hall1 Ho)). cbn in *. lia.
      - exact K2.
      - intros o Ho. apply K5. exact (mobj_sloteq _ _ _ Hall1 Ho). }
    assert (Hwf1 : wf_heap (t_heap st1)) by (eapply all_sloteq_wf; eauto).
    destruct (run_blocks_gen true x rest (S lvl) st1) as [[st2 evs_i] oc_i] eqn:Er.
    match type of Hrun with context [exit_block_gen true b swap ?o st2] =>
      pose proof (exit_state_any_outcome b swap o st2) as Hx; destruct (exit_block_gen true b swap o st2) as [st3 oc'] end.
    inversion Hrun; subst st' evs oc. clear Hrun. cbn [fst] in Hx.
    destruct (IH (S lvl) st1 st2 evs_i oc_i Er Hrest Htidy1 Hwf1 (enters_ok_inner _ _ _ Hen)) as (I1 & (I2 & I3) & I4 & I5).
    assert (Hall2 : all_sloteq (clear_saved st2) (clear_saved st)).
    { eapply all_sloteq_trans; [exact I1|exact Hall1]. }
    assert (Hm1 : forall o, mobj (clear_saved st) o -> mobj st1 o).
    { intros o Ho. eapply mobj_sloteq; [|exact Ho]. intros c. apply osloteq_sym. apply Hall1. }
    destruct (Hrep (t_saved st1) (clear_saved st2) [] (ext_refl _) (fun c => conj (fun H => H) (fun H => H)) Hall2)
      as (stY & memoY & swY & HtY & _ & HallY & HRY & _ & Hcov).
    { unfold R. cbn [clear_saved t_vals t_next t_saved]. change (t_next (clear_saved st)) with (t_next st) in *. split; [lia|]. split; [exact I5|]. split; [|split; [|split]].
      - intros o c Ho Hs. pose proof (K3 o Ho) as H3. rewrite Hs in H3. destruct H3 as (Hb3 & Hv3). split; [lia|].
        unfold val_of in *. rewrite <- Hv3. apply I3; [lia|].
        intros o' Ho'. pose proof (T2 o' (mobj_sloteq _ _ _ Hall1 Ho')). cbn in *. lia.
      - intros o _ H. cbn in H. congruence.
      - intros o Ho Hs. pose proof (K3 o Ho) as H3. rewrite Hs in H3. rewrite <- H3. apply I2. exact (Hm1 o Ho).
      - intros k Hk Hnm. transitivity (z_get (t_vals st1) k); [|exact (K4 k Hk Hnm)]. apply I3; [lia|].
        intros o' Ho'. apply Hnm. exact (mobj_sloteq _ _ _ Hall1 Ho'). }
    assert (Hst3 : st3 = stY).
    { rewrite Hx. unfold reverse_to_module, fixed_D133. rewrite andb_false_r. unfold to_module. rewrite HtY.
      destruct (b_live b); [destruct (quick_set swY (b_params b))|]; reflexivity. }
    clear Hx. subst st3. destruct HRY as (R0 & R1 & _ & R3 & R4 & R5).
    split; [exact HallY|]. split; [|split; [exact R0|exact R1]]. split; [|exact R5].
    intros o Ho. change (val_of st o) with (val_of (clear_saved st) o).
    destruct (z_get (t_saved st1) (oid o)) as [c|] eqn:Es; [|now apply R4].
    apply R3; [exact Ho|]. apply Hcov; [exact Ho|reflexivity|congruence].
Qed.

(* non-vacuity: two nested in-place blocks on the tied tree (the outer one on the root, the inner one on module 2 whose
   w is the root's w), an exception raised in the inner body *)
Definition ex_b4i := mkBlock 2 (Some true) false false false false (PTD [("w", PLeaf (Some (oT 14)))]).
Lemma ex_inplace_nested :
  Forall inplace_ok' [ex_b4; ex_b4i] /\
  (let '(st', evs, oc) := run_blocks_gen true (mkExc XExc 1 true) [ex_b4; ex_b4i] 0 ex_st4 in
   enters_ok evs /\ List.length evs = 4%nat /\ oc = ORaise EInject /\ z_get (t_vals st') 1 = Some 10
   /\ match evs with _ :: e :: _ => z_get (t_vals (ev_state e)) 1 = Some 4 | _ => False end).
Proof.
  split; [repeat constructor; apply inplace_okb_ok; reflexivity|].
  vm_compute. split; [repeat constructor; intros; try reflexivity; discriminate|]. repeat split; reflexivity.
Qed.
