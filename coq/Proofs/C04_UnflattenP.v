(* C04 — unflatten_keys: every root key containing the separator is renamed (safely) to the tuple of its pieces; this
   refines the nested dict's "move the entry to the path of its pieces, an occupied or unreachable destination is an
   error".  Needs: the first piece of python's str.split is strictly shorter than the key, hence a different key. *)
From Coq Require Import ZArith List String Bool Lia.
Import ListNotations.
From TD Require Import Model.Keys Proofs.KeysP Model.C04_Tree Model.C04_Ops Spec.C04_NestedDict
     Proofs.C04_AssocP Proofs.C04_CoreP Proofs.C04_RenameP.
Open Scope string_scope.
Open Scope list_scope.

(* ---- strings ---- *)
Lemma rev_string_length : forall s acc, String.length (rev_string acc s) = String.length acc + String.length s.
Proof.
  induction s as [|c r IH]; intros acc; cbn.
  - lia.
  - rewrite IH. cbn. lia.
Qed.

Lemma split_go_nonempty : forall s sep skip cur, split_go sep skip cur s <> [].
Proof.
  induction s as [|c r IH]; intros sep skip cur; cbn [split_go]; [discriminate|].
  destruct skip; [|apply IH]. destruct (String.prefix sep (String c r)); [discriminate|apply IH].
Qed.

Lemma prefix_nonempty_of_empty sep : sep <> "" -> String.prefix sep "" = false.
Proof. destruct sep; [congruence|reflexivity]. Qed.

Lemma split_go_first : forall s sep cur, sep <> "" -> str_contains sep s = true ->
  exists t rest, split_go sep 0 cur s = t :: rest /\ rest <> [] /\ String.length t < String.length cur + String.length s.
Proof.
  induction s as [|c r IH]; intros sep cur N C.
  - destruct sep; [congruence|]. cbn in C. discriminate.
  - cbn [split_go]. cbn [str_contains] in C. destruct (String.prefix sep (String c r)) eqn:P.
    + eexists. eexists. split; [reflexivity|]. split; [apply split_go_nonempty|].
      rewrite rev_string_length. cbn. lia.
    + destruct (IH sep (String c cur) N C) as [t [rest [E [NR L]]]]. exists t, rest. split; [exact E|]. split; [exact NR|].
      cbn in *. lia.
Qed.

Theorem split_pieces sep k : sep <> "" -> str_contains sep k = true ->
  exists q0 q1 qs, split sep k = q0 :: q1 :: qs /\ q0 <> k.
Proof.
  intros N C. unfold split. destruct (split_go_first k sep "" N C) as [t [rest [E [NR L]]]].
  destruct rest as [|q1 qs]; [congruence|]. exists t, q1, qs. split; [exact E|].
  intros ->. cbn in L. lia.
Qed.

(* ---- one key ---- *)
Lemma d_get_d_rem_neq a k d : a <> k -> d_get a (d_rem k d) = d_get a d.
Proof.
  intros N. induction d as [|[k' w] r IH]; [reflexivity|]. cbn.
  destruct (String.eqb_spec k k'); cbn.
  - subst. destruct (String.eqb_spec a k'); [contradiction|reflexivity].
  - destruct (String.eqb a k'); [reflexivity|exact IH].
Qed.

Definition unflatten_one (k : string) (q : path) (d : dict) : option dict :=
  match d_get k d, nd_find q d with
  | Some v, Missing => nd_set q v (d_rem k d)
  | _, _ => None
  end.

Lemma nd_rename_unflatten k q0 q1 qs d :
  q0 <> k -> nd_rename [k] (q0 :: q1 :: qs) true d = unflatten_one k (q0 :: q1 :: qs) d.
Proof.
  intros N. unfold nd_rename, unflatten_one. rewrite nd_find_1. destruct (d_get k d) as [v|] eqn:G; [|reflexivity].
  destruct (list_eq_dec string_dec [k] (q0 :: q1 :: qs)) as [E|_]; [discriminate|].
  destruct (nd_find (q0 :: q1 :: qs) d) eqn:F; cbn [andb].
  - reflexivity.
  - rewrite nd_del_1, G. reflexivity.
  - rewrite nd_del_1, G.
    (* the destination runs through a leaf that is not the moved entry: still so after the entry is removed *)
    rewrite nd_find_2 in F. rewrite nd_set_2, (d_get_d_rem_neq q0 k d N).
    destruct (d_get q0 d) as [[z|z|sub]|]; try reflexivity; [|discriminate].
    now rewrite (nd_set_through_leaf (q1 :: qs) v sub F).
Qed.

Lemma unflatten_one_refines sep k es : wfE es -> sep <> "" -> str_contains sep k = true ->
  match rename_r (RStr k) (path_keyres (split sep k)) true es with
  | (es', None) => unflatten_one k (split sep k) (absE es) = Some (absE es') /\ wfE es'
  | (es', Some _) => unflatten_one k (split sep k) (absE es) = None /\ es' = es
  end.
Proof.
  intros W N C. destruct (split_pieces sep k N C) as [q0 [q1 [qs [E NE]]]]. rewrite E.
  change (RStr k) with (path_keyres [k]). rewrite rename_r_path by discriminate.
  rewrite <- (nd_rename_unflatten k q0 q1 qs (absE es) NE).
  assert (SF : strict_prefix [k] (q0 :: q1 :: qs) -> true = false).
  { intros [r [_ Er]]. cbn in Er. injection Er as Er _. congruence. }
  pose proof (rename_p_refines [k] (q0 :: q1 :: qs) true es ltac:(discriminate) ltac:(discriminate) W SF) as R.
  destruct (rename_p [k] (q0 :: q1 :: qs) true es) as [es' [e|]] eqn:RP; [exact R|].
  split; [exact R|]. exact (rename_p_wf _ _ _ _ _ _ W RP).
Qed.

(* ---- the loop over the root keys ---- *)
(* python's `sep in key` / key.split(sep), handed to the spec *)
Definition py_split (sep k : string) : option path := if str_contains sep k then Some (split sep k) else None.

Lemma nd_unflatten_cons split_key k r d :
  nd_unflatten split_key (k :: r) d =
  match split_key k with
  | None => nd_unflatten split_key r d
  | Some q => match unflatten_one k q d with Some d' => nd_unflatten split_key r d' | None => None end
  end.
Proof.
  cbn [nd_unflatten]. unfold unflatten_one. destruct (split_key k) as [q|]; [|reflexivity].
  destruct (d_get k d) as [v|]; [|reflexivity]. destruct (nd_find q d); reflexivity.
Qed.

Theorem unflatten_loop_refines sep : sep <> "" -> forall ks es, wfE es ->
  match unflatten_loop sep ks es with
  | (es', None) => nd_unflatten (py_split sep) ks (absE es) = Some (absE es') /\ wfE es'
  | (es', Some _) => nd_unflatten (py_split sep) ks (absE es) = None /\ wfE es'
  end.
Proof.
  intros N. induction ks as [|k r IH]; intros es W; [now split|].
  cbn [unflatten_loop]. rewrite nd_unflatten_cons. unfold py_split.
  destruct (str_contains sep k) eqn:C; [|apply IH; exact W].
  pose proof (unflatten_one_refines sep k es W N C) as R.
  destruct (rename_r (RStr k) (path_keyres (split sep k)) true es) as [es1 [e|]].
  - destruct R as [R ->]. rewrite R. now split.
  - destruct R as [R W1]. rewrite R. apply IH. exact W1.
Qed.
