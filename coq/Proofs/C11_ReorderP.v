(* C11 — regrouping the keys of every node (non-tensors, tensors, nested tensordicts) changes no lookup *)
From Coq Require Import ZArith List Bool Arith Lia String.
Import ListNotations.
From TD Require Import Model.C11_Layout Model.C11_Tree Model.C11_Formats Proofs.C11_TreeP Proofs.C11_FormatsP.
Open Scope nat_scope.

Definition bound (f : forest) (k : string) : bool := mem k (f_keys f).

Lemma bound_cons_leaf k k' l v r : bound (FLeaf k' l v r) k = String.eqb k k' || bound r k.
Proof. reflexivity. Qed.
Lemma bound_cons_nont k k' p bs r : bound (FNonT k' p bs r) k = String.eqb k k' || bound r k.
Proof. reflexivity. Qed.
Lemma bound_cons_sub k k' t r : bound (FSub k' t r) k = String.eqb k k' || bound r k.
Proof. reflexivity. Qed.

Lemma find_leaf_unbound : forall f k, bound f k = false -> find_leaf f k = None.
Proof.
  induction f as [|k' l v r IH|k' p bs r IH|k' t r IH]; intros k H; cbn [find_leaf]; [reflexivity| | |];
    (rewrite ?bound_cons_leaf, ?bound_cons_nont, ?bound_cons_sub in H; apply orb_false_iff in H as [H1 H2]; rewrite H1; auto).
Qed.
Lemma find_sub_unbound : forall f k, bound f k = false -> find_sub f k = None.
Proof.
  induction f as [|k' l v r IH|k' p bs r IH|k' t r IH]; intros k H; cbn [find_sub]; [reflexivity| | |];
    (rewrite ?bound_cons_leaf, ?bound_cons_nont, ?bound_cons_sub in H; apply orb_false_iff in H as [H1 H2]; rewrite H1; auto).
Qed.

Lemma find_leaf_fapp : forall a b k, find_leaf (fapp a b) k = if bound a k then find_leaf a k else find_leaf b k.
Proof.
  induction a as [|k' l v r IH|k' p bs r IH|k' t r IH]; intros b k; cbn [fapp find_leaf]; [reflexivity| | |];
    rewrite ?bound_cons_leaf, ?bound_cons_nont, ?bound_cons_sub; destruct (String.eqb k k'); cbn [orb]; auto.
Qed.
Lemma find_sub_fapp : forall a b k, find_sub (fapp a b) k = if bound a k then find_sub a k else find_sub b k.
Proof.
  induction a as [|k' l v r IH|k' p bs r IH|k' t r IH]; intros b k; cbn [fapp find_sub]; [reflexivity| | |];
    rewrite ?bound_cons_leaf, ?bound_cons_nont, ?bound_cons_sub; destruct (String.eqb k k'); cbn [orb]; auto.
Qed.

Lemma bound_part_n : forall f k, bound (part_n f) k = true -> bound f k = true.
Proof.
  induction f as [|k' l v r IH|k' p bs r IH|k' t r IH]; intros k; cbn [part_n]; rewrite ?bound_cons_leaf, ?bound_cons_nont, ?bound_cons_sub;
    try (intros H; apply IH in H; rewrite H; apply orb_true_r); [auto|].
  intros H. apply orb_true_iff in H as [H|H]; [now rewrite H|apply IH in H; rewrite H; apply orb_true_r].
Qed.
Lemma bound_part_l : forall f k, bound (part_l f) k = true -> bound f k = true.
Proof.
  induction f as [|k' l v r IH|k' p bs r IH|k' t r IH]; intros k; cbn [part_l]; rewrite ?bound_cons_leaf, ?bound_cons_nont, ?bound_cons_sub;
    try (intros H; apply IH in H; rewrite H; apply orb_true_r); [auto|].
  intros H. apply orb_true_iff in H as [H|H]; [now rewrite H|apply IH in H; rewrite H; apply orb_true_r].
Qed.
Lemma unbound_part_n f k : bound f k = false -> bound (part_n f) k = false.
Proof. intros H. destruct (bound (part_n f) k) eqn:E; [apply bound_part_n in E; congruence|reflexivity]. Qed.
Lemma unbound_part_l f k : bound f k = false -> bound (part_l f) k = false.
Proof. intros H. destruct (bound (part_l f) k) eqn:E; [apply bound_part_l in E; congruence|reflexivity]. Qed.

Lemma find_leaf_part_n : forall f k, find_leaf (part_n f) k = None.
Proof. induction f; intros; cbn [part_n find_leaf]; auto. destruct (String.eqb k0 k); auto. Qed.
Lemma find_leaf_reorder_s : forall f k, find_leaf (reorder_s f) k = None.
Proof. induction f; intros; cbn [reorder_s find_leaf]; auto. destruct (String.eqb k0 k); auto. Qed.
Lemma find_sub_part_n : forall f k, find_sub (part_n f) k = None.
Proof. induction f; intros; cbn [part_n find_sub]; auto. destruct (String.eqb k0 k); auto. Qed.
Lemma find_sub_part_l : forall f k, find_sub (part_l f) k = None.
Proof. induction f; intros; cbn [part_l find_sub]; auto. destruct (String.eqb k0 k); auto. Qed.

Lemma eqb_true_subst k k' : String.eqb k k' = true -> k = k'.
Proof. apply String.eqb_eq. Qed.

(* the unique binding decides *)
Lemma leaf_parts : forall f k, nodup_f f = true ->
  (if bound (part_n f) k then None else find_leaf (part_l f) k) = find_leaf f k.
Proof.
  induction f as [|k' l v r IH|k' p bs r IH|k' t r IH]; intros k Hn; cbn [part_n part_l find_leaf nodup_f] in *.
  - reflexivity.
  - apply andb_true_iff in Hn as [Hk Hn]. apply negb_true_iff in Hk.
    destruct (String.eqb k k') eqn:E.
    + apply eqb_true_subst in E. subst k'. now rewrite (unbound_part_n r k Hk).
    + now apply IH.
  - apply andb_true_iff in Hn as [Hk Hn]. apply negb_true_iff in Hk.
    rewrite bound_cons_nont. destruct (String.eqb k k') eqn:E; cbn [orb]; [reflexivity|now apply IH].
  - apply andb_true_iff in Hn as [Hn Hr]. apply andb_true_iff in Hn as [Hk Ht]. apply negb_true_iff in Hk.
    destruct (String.eqb k k') eqn:E.
    + apply eqb_true_subst in E. subst k'. rewrite (unbound_part_n r k Hk).
      now rewrite (find_leaf_unbound _ _ (unbound_part_l r k Hk)).
    + now apply IH.
Qed.

Lemma bound_reorder_s : forall f k, bound (reorder_s f) k = true -> bound f k = true.
Proof.
  induction f as [|k' l v r IH|k' p bs r IH|k' t r IH]; intros k; cbn [reorder_s]; rewrite ?bound_cons_leaf, ?bound_cons_nont, ?bound_cons_sub;
    try (intros H; apply IH in H; rewrite H; apply orb_true_r); [auto|].
  intros H. apply orb_true_iff in H as [H|H]; [now rewrite H|apply IH in H; rewrite H; apply orb_true_r].
Qed.

Lemma sub_parts : forall f k, nodup_f f = true ->
  (if bound (part_n f) k then None else if bound (part_l f) k then None else find_sub (reorder_s f) k)
  = option_map reorder_t (find_sub f k).
Proof.
  induction f as [|k' l v r IH|k' p bs r IH|k' t r IH]; intros k Hn; cbn [part_n part_l reorder_s find_sub nodup_f] in *.
  - reflexivity.
  - apply andb_true_iff in Hn as [Hk Hn]. apply negb_true_iff in Hk.
    rewrite bound_cons_leaf. destruct (String.eqb k k') eqn:E; cbn [orb].
    + now destruct (bound (part_n r) k).
    + now apply IH.
  - apply andb_true_iff in Hn as [Hk Hn]. apply negb_true_iff in Hk.
    rewrite bound_cons_nont. destruct (String.eqb k k') eqn:E; cbn [orb]; [reflexivity|now apply IH].
  - apply andb_true_iff in Hn as [Hn Hr]. apply andb_true_iff in Hn as [Hk Ht]. apply negb_true_iff in Hk.
    destruct (String.eqb k k') eqn:E.
    + apply eqb_true_subst in E. subst k'. now rewrite (unbound_part_n r k Hk), (unbound_part_l r k Hk).
    + now apply IH.
Qed.

Lemma find_leaf_reordered f k : nodup_f f = true ->
  find_leaf (fapp (part_n f) (fapp (part_l f) (reorder_s f))) k = find_leaf f k.
Proof.
  intros Hn. rewrite !find_leaf_fapp, find_leaf_part_n, find_leaf_reorder_s. rewrite <- (leaf_parts f k Hn).
  destruct (bound (part_n f) k); [reflexivity|].
  destruct (bound (part_l f) k) eqn:E; [reflexivity|]. now rewrite (find_leaf_unbound _ _ E).
Qed.

Lemma find_sub_reordered f k : nodup_f f = true ->
  find_sub (fapp (part_n f) (fapp (part_l f) (reorder_s f))) k = option_map reorder_t (find_sub f k).
Proof.
  intros Hn. rewrite !find_sub_fapp, find_sub_part_n, find_sub_part_l. apply (sub_parts f k Hn).
Qed.

Lemma nodup_find_sub : forall f k t, nodup_f f = true -> find_sub f k = Some t -> nodup_t t = true.
Proof.
  induction f as [|k' l v r IH|k' p bs r IH|k' t' r IH]; intros k t Hn Hf; cbn [find_sub nodup_f] in *; try discriminate.
  - apply andb_true_iff in Hn as [_ Hn]. destruct (String.eqb k k'); [discriminate|eauto].
  - apply andb_true_iff in Hn as [_ Hn]. destruct (String.eqb k k'); [discriminate|eauto].
  - apply andb_true_iff in Hn as [Hn Hr]. apply andb_true_iff in Hn as [_ Ht].
    destruct (String.eqb k k'); [injection Hf as <-; exact Ht|eauto].
Qed.

Lemma sub_at_reorder : forall path t, nodup_t t = true -> sub_at (reorder_t t) path = option_map reorder_t (sub_at t path).
Proof.
  induction path as [|k p IH]; intros [m f] Hn; cbn [sub_at reorder_t ents option_map]; [reflexivity|].
  cbn [nodup_t] in Hn. rewrite (find_sub_reordered f k Hn).
  destruct (find_sub f k) as [t'|] eqn:E; cbn [option_map]; [|reflexivity].
  apply IH. eapply nodup_find_sub; eassumption.
Qed.

Lemma nodup_sub_at : forall path t n, nodup_t t = true -> sub_at t path = Some n -> nodup_t n = true.
Proof.
  induction path as [|k p IH]; intros [m f] n Hn Hs; cbn [sub_at ents] in Hs.
  - now injection Hs as <-.
  - destruct (find_sub f k) as [t'|] eqn:E; [|discriminate]. eapply IH; [|exact Hs]. eapply nodup_find_sub; eassumption.
Qed.

Theorem reorder_lookup t : nodup_t t = true ->
  forall path k, leaf_at (reorder_t t) path k = leaf_at t path k
                 /\ option_map meta (sub_at (reorder_t t) path) = option_map meta (sub_at t path).
Proof.
  intros Hn path k. unfold leaf_at. rewrite (sub_at_reorder path t Hn).
  destruct (sub_at t path) as [[m f]|] eqn:E; cbn [option_map]; [|split; reflexivity].
  split; [|reflexivity]. cbn [reorder_t ents]. apply find_leaf_reordered.
  pose proof (nodup_sub_at path t _ Hn E) as H. exact H.
Qed.
