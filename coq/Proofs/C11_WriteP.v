(* C11 — in-place writes after consolidate() go through the storage: the snapshot follows them, for every history of writes *)
From Coq Require Import ZArith List Bool Arith Lia String.
Import ListNotations.
From TD Require Import Model.C11_Layout Model.C11_Tree Proofs.C11_LayoutP Proofs.C11_TreeP Proofs.C11_AuxP Proofs.C11_PickleP.
Open Scope nat_scope.

Definition is_write (o : op) : bool := match o with OWrite _ _ _ => true | _ => false end.

Section Write.
Variables (A : nat) (np : bool).

(* the consolidated form of a tree laid out from offset s: every tensor a view at its offset, nothing locked *)
Fixpoint W_t (t : tree) (s : nat) : tree := match t with Node m f => Node (out_meta false m) (W_f f s) end
with W_f (f : forest) (s : nat) : forest :=
  match f with
  | FNil => FNil
  | FLeaf k l _ r => FLeaf k l (Some s) (W_f r (s + flat_size A np (spec_of l)))
  | FNonT k p bs r => FNonT k p bs (W_f r s)
  | FSub k t r => FSub k (W_t t s) (W_f r (s + total A np (lspecs (flat t))))
  end.

Lemma W_eq :
  (forall t s, W_t t s = outmeta_t false (fst (mark_t A np t s))) /\
  (forall f s, W_f f s = outmeta_f false (fst (mark_f A np f s))).
Proof.
  apply tree_forest_ind; cbn [W_t W_f mark_t mark_f].
  - intros m f IH s. rewrite IH. destruct (mark_f A np f s). reflexivity.
  - reflexivity.
  - intros k l v r IH s. rewrite IH. destruct (mark_f A np r (s + flat_size A np (spec_of l))). reflexivity.
  - intros k p bs r IH s. rewrite IH. destruct (mark_f A np r s). reflexivity.
  - intros k t IHt r IHr s. rewrite IHt, IHr.
    pose proof (proj1 (proj1 (mark_stop A np) t s)) as Hs.
    destruct (mark_t A np t s) as [t' mid]. cbn [fst snd] in *. subst mid.
    destruct (mark_f A np r (s + total A np (lspecs (flat t)))). reflexivity.
Qed.

Lemma W_shape :
  (forall t t2 s, shape_t t2 = shape_t t -> W_t (shape_t t2) s = W_t (shape_t t) s) /\ True.
Proof. split; [intros t t2 s ->; reflexivity|exact I]. Qed.

Definition total_of (ls : list leaf) : nat := total A np (lspecs ls).

Lemma total_shape_t t t2 : shape_t t2 = shape_t t -> total_of (flat t2) = total_of (flat t).
Proof.
  intros H. unfold total_of. rewrite <- (proj1 shape_specs t2), <- (proj1 shape_specs t), H. reflexivity.
Qed.

Variable (k : string) (b : list Z).

Definition G : bool -> tree -> option (tree * option nat) :=
  fun _ t => match t with Node m f => match write_leaf f k b with Some (f', w) => Some (Node m f', w) | None => None end end.

Definition ctx_ok (pre : list leaf) : Prop := Forall wf_leaf pre.

(* writing the tensor bound to k in a consolidated forest *)
Lemma write_leaf_W : forall f pre post c' w,
  ctx_ok pre -> Forall wf_leaf (flat_f f) ->
  write_leaf (W_f f (total_of pre)) k b = Some (c', w) ->
  exists f2, c' = W_f f2 (total_of pre) /\ shape_f f2 = shape_f f /\ Forall wf_leaf (flat_f f2) /\
    exists s, w = Some s /\ splice (encode A np (pre ++ flat_f f ++ post)) s b = encode A np (pre ++ flat_f f2 ++ post).
Proof.
  induction f as [|k' l v r IH|k' p bs r IH|k' t r IH]; intros pre post c' w Hpre Hwf Hw; cbn [W_f write_leaf flat_f] in *.
  - discriminate.
  - apply Forall_cons_iff in Hwf as [Hl Hr].
    destruct (String.eqb k k') eqn:Ek.
    + destruct (List.length b =? List.length (l_bytes l)) eqn:Eb; [|discriminate]. apply Nat.eqb_eq in Eb.
      injection Hw as <- <-.
      exists (FLeaf k' (set_bytes l b) v r). cbn [W_f shape_f flat_f].
      change (spec_of (set_bytes l b)) with (spec_of l).
      split; [reflexivity|]. split; [reflexivity|].
      split.
      * constructor; [|exact Hr]. destruct Hl as [H1 H2]. split; [|exact H2]. cbn. unfold nbytes, spec_of in *. cbn in *. lia.
      * exists (total_of pre). split; [reflexivity|]. cbn [app]. unfold total_of, lspecs. now apply splice_encode.
    + destruct (write_leaf _ k b) as [[r' w']|] eqn:Er; [|discriminate]. injection Hw as <- <-.
      assert (HS : total_of (pre ++ [l]) = total_of pre + flat_size A np (spec_of l)).
      { unfold total_of, lspecs. rewrite map_app, total_app. cbn. lia. }
      rewrite <- HS in Er.
      destruct (IH (pre ++ [l]) post r' w' ltac:(apply Forall_app; split; [exact Hpre|now constructor]) Hr Er)
        as (f2 & E1 & E2 & E3 & s & E4 & E5).
      exists (FLeaf k' l v f2). cbn [W_f shape_f flat_f]. rewrite <- HS, E1, E2.
      split; [reflexivity|]. split; [reflexivity|]. split; [now constructor|].
      exists s. split; [exact E4|]. rewrite <- !app_assoc in E5. exact E5.
  - destruct (String.eqb k k'); [discriminate|].
    destruct (write_leaf _ k b) as [[r' w']|] eqn:Er; [|discriminate]. injection Hw as <- <-.
    destruct (IH pre post r' w' Hpre Hwf Er) as (f2 & E1 & E2 & E3 & s & E4 & E5).
    exists (FNonT k' p bs f2). cbn [W_f shape_f flat_f]. rewrite E1, E2. repeat split; try assumption. exists s. auto.
  - apply Forall_app in Hwf as [Ht Hr].
    destruct (String.eqb k k'); [discriminate|].
    destruct (write_leaf _ k b) as [[r' w']|] eqn:Er; [|discriminate]. injection Hw as <- <-.
    assert (HS : total_of (pre ++ flat t) = total_of pre + total A np (lspecs (flat t))).
    { unfold total_of, lspecs. now rewrite map_app, total_app. }
    rewrite <- HS in Er.
    destruct (IH (pre ++ flat t) post r' w' ltac:(apply Forall_app; split; assumption) Hr Er)
      as (f2 & E1 & E2 & E3 & s & E4 & E5).
    exists (FSub k' t f2). cbn [W_f shape_f flat_f]. rewrite <- HS, E1, E2.
    split; [reflexivity|]. split; [reflexivity|]. split; [apply Forall_app; split; assumption|].
    exists s. split; [exact E4|]. rewrite <- !app_assoc in E5. rewrite <- !app_assoc. exact E5.
Qed.

Definition good (t : tree) (pre post : list leaf) (c' : tree) (w : option nat) : Prop :=
  exists t2, c' = W_t t2 (total_of pre) /\ shape_t t2 = shape_t t /\ Forall wf_leaf (flat t2) /\
    exists s, w = Some s /\ splice (encode A np (pre ++ flat t ++ post)) s b = encode A np (pre ++ flat t2 ++ post).

Lemma at_path_W : forall path t pre post anc c' w,
  ctx_ok pre -> Forall wf_leaf (flat t) ->
  at_path path G anc (W_t t (total_of pre)) = Some (c', w) -> good t pre post c' w.
Proof.
  induction path as [|k0 p IHp]; intros [m f] pre post anc c' w Hpre Hwf Hw; cbn [at_path W_t flat] in *.
  - unfold G in Hw. destruct (write_leaf _ k b) as [[f' w']|] eqn:Ef; [|discriminate]. injection Hw as <- <-.
    destruct (write_leaf_W f pre post f' w' Hpre Hwf Ef) as (f2 & E1 & E2 & E3 & s & E4 & E5).
    exists (Node m f2). cbn [W_t shape_t flat]. rewrite E1, E2. repeat split; try assumption. exists s. auto.
  - destruct (at_path_f _ k0 _) as [[f' w']|] eqn:Ef; [|discriminate]. injection Hw as <- <-.
    set (anc' := anc || m_locked (out_meta false m)) in Ef. clearbody anc'.
    assert (Hf : exists f2, f' = W_f f2 (total_of pre) /\ shape_f f2 = shape_f f /\ Forall wf_leaf (flat_f f2) /\
              exists s, w' = Some s /\ splice (encode A np (pre ++ flat_f f ++ post)) s b = encode A np (pre ++ flat_f f2 ++ post)).
    { clear m. revert pre post f' w' Hpre Hwf Ef.
      induction f as [|k' l v r IH|k' q bs r IH|k' t r IH]; intros pre post f' w' Hpre Hwf Ef; cbn [W_f at_path_f flat_f] in *.
      - discriminate.
      - apply Forall_cons_iff in Hwf as [Hl Hr].
        destruct (String.eqb k0 k'); [discriminate|].
        destruct (at_path_f _ k0 _) as [[r' x]|] eqn:Er; [|discriminate]. injection Ef as <- <-.
        assert (HS : total_of (pre ++ [l]) = total_of pre + flat_size A np (spec_of l)).
        { unfold total_of, lspecs. rewrite map_app, total_app. cbn. lia. }
        rewrite <- HS in Er.
        destruct (IH (pre ++ [l]) post r' x ltac:(apply Forall_app; split; [exact Hpre|now constructor]) Hr Er)
          as (f2 & E1 & E2 & E3 & s & E4 & E5).
        exists (FLeaf k' l v f2). cbn [W_f shape_f flat_f]. rewrite <- HS, E1, E2.
        split; [reflexivity|]. split; [reflexivity|]. split; [now constructor|].
        exists s. split; [exact E4|]. rewrite <- !app_assoc in E5. exact E5.
      - destruct (String.eqb k0 k'); [discriminate|].
        destruct (at_path_f _ k0 _) as [[r' x]|] eqn:Er; [|discriminate]. injection Ef as <- <-.
        destruct (IH pre post r' x Hpre Hwf Er) as (f2 & E1 & E2 & E3 & s & E4 & E5).
        exists (FNonT k' q bs f2). cbn [W_f shape_f flat_f]. rewrite E1, E2. repeat split; try assumption. exists s. auto.
      - apply Forall_app in Hwf as [Ht Hr].
        destruct (String.eqb k0 k').
        + destruct (at_path p G anc' (W_t t (total_of pre))) as [[t' x]|] eqn:Et; [|discriminate]. injection Ef as <- <-.
          destruct (IHp t pre (flat_f r ++ post) anc' t' x Hpre Ht Et) as (t2 & E1 & E2 & E3 & s & E4 & E5).
          exists (FSub k' t2 r). cbn [W_f shape_f flat_f]. rewrite E1, E2.
          fold (total_of (flat t2)). fold (total_of (flat t)). rewrite (total_shape_t _ _ E2).
          split; [reflexivity|]. split; [reflexivity|]. split; [apply Forall_app; split; assumption|].
          exists s. split; [exact E4|]. rewrite <- !app_assoc. exact E5.
        + destruct (at_path_f _ k0 _) as [[r' x]|] eqn:Er; [|discriminate]. injection Ef as <- <-.
          assert (HS : total_of (pre ++ flat t) = total_of pre + total A np (lspecs (flat t))).
          { unfold total_of, lspecs. now rewrite map_app, total_app. }
          rewrite <- HS in Er.
          destruct (IH (pre ++ flat t) post r' x ltac:(apply Forall_app; split; assumption) Hr Er)
            as (f2 & E1 & E2 & E3 & s & E4 & E5).
          exists (FSub k' t f2). cbn [W_f shape_f flat_f]. rewrite <- HS, E1, E2.
          split; [reflexivity|]. split; [reflexivity|]. split; [apply Forall_app; split; assumption|].
          exists s. split; [exact E4|]. rewrite <- !app_assoc in E5. rewrite <- !app_assoc. exact E5. }
    destruct Hf as (f2 & E1 & E2 & E3 & s & E4 & E5).
    exists (Node m f2). cbn [W_t shape_t flat]. rewrite E1, E2. repeat split; try assumption. exists s. auto.
Qed.
End Write.

(* ------------------------------------------------------------------ the invariant of a consolidated object under writes *)
Lemma W_mark t s : W_t AU true t s = fst (mark_t AU true t s).
Proof. rewrite (proj1 (W_eq AU true)). apply (proj1 outmeta_id). Qed.

Lemma step_write t st o : is_write o = true -> consolidated_as t st ->
  exists t2, consolidated_as t2 (fst (step st o)) /\ shape_t t2 = shape_t t.
Proof.
  intros Ho (Hs & Hc & Hn). destruct o as [| path k b | | | | | | | | |]; try discriminate.
  unfold step. change (step_tree (cur st) (OWrite path k b)) with (at_path path (G k b) false (cur st)).
  destruct (at_path path (G k b) false (cur st)) as [[c' w]|] eqn:E.
  - rewrite Hc, <- W_mark in E. change 0 with (total_of AU true []) in E.
    destruct (at_path_W AU true k b path t [] [] false c' w (Forall_nil _) (proj1 wf_flat t (proj1 Hs)) E)
      as (t2 & E1 & E2 & E3 & s & E4 & E5).
    cbn [app] in E5. rewrite !app_nil_r in E5.
    exists t2. split; [|exact E2].
    split; [now apply (tree_side_shape AU true t t2)|]. cbn [fst cur snap]. split; [rewrite E1; apply W_mark|].
    rewrite Hn, E4. cbn [sn_meta sn_storage]. rewrite E5, (meta_of_shape AU true t t2 0 E2). reflexivity.
  - exists t. cbn [fst]. split; [split; [exact Hs|split; assumption]|reflexivity].
Qed.

Lemma run_writes : forall ws t st, forallb is_write ws = true -> consolidated_as t st ->
  exists t2, consolidated_as t2 (run st ws) /\ shape_t t2 = shape_t t.
Proof.
  induction ws as [|o r IH]; intros t st Hw Hinv; cbn [run fold_left forallb] in *.
  - exists t. auto.
  - apply andb_true_iff in Hw as [Ho Hr].
    destruct (step_write t st o Ho Hinv) as (t1 & H1 & U1).
    destruct (IH t1 _ Hr H1) as (t2 & H2 & U2). exists t2. split; [exact H2|congruence].
Qed.

(* consolidate, then any history of in-place writes: pickling gives the tensordict as it is *)
Theorem pickle_inplace_history t st0 ws : tree_side AU true t -> lock_closed_t t = true ->
  consolidate_tree AU true false t = Ok st0 -> forallb is_write ws = true ->
  let st := run st0 ws in
  pickle_roundtrip st = Ok {| cur := reorder_t (cur st); snap := snap st |}.
Proof.
  intros Hs Hl Hc Hw st.
  assert (Hinv : consolidated_as t st0) by now apply consolidate_mem.
  destruct (run_writes ws t st0 Hw Hinv) as (t2 & H2 & U2).
  apply (pickle_consolidated_as t2); [exact H2|]. now rewrite (lock_closed_of_shape t t2 U2).
Qed.
