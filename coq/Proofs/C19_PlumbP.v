From Coq Require Import ZArith List Bool Lia ZifyBool.
Import ListNotations.
From TD Require Import Model.C19_Vmap Model.C19_Content Model.C19_Plumb Proofs.C19_VmapP Proofs.C19_ContentP.
Open Scope nat_scope.

Section ptree_ind2.
  Variable A : Type.
  Variable P : ptree A -> Prop.
  Hypothesis HL : forall a, P (PLeaf a).
  Hypothesis HT : forall l, Forall P l -> P (PTup l).
  Hypothesis HS : forall l, Forall P l -> P (PLst l).
  Fixpoint ptree_ind2 (t : ptree A) : P t :=
    match t with
    | PLeaf a => HL a
    | PTup l => HT l ((fix go (l : list (ptree A)) : Forall P l :=
                         match l with [] => Forall_nil P | x :: r => Forall_cons x (ptree_ind2 x) (go r) end) l)
    | PLst l => HS l ((fix go (l : list (ptree A)) : Forall P l :=
                         match l with [] => Forall_nil P | x :: r => Forall_cons x (ptree_ind2 x) (go r) end) l)
    end.
End ptree_ind2.

Definition fl {A} := fix fl (l : list (ptree A)) : list A := match l with [] => [] | x :: r => flatten x ++ fl r end.
Definition go {A B} := fix go (ds : list (ptree A)) (ts : list (ptree B)) : option (list A) :=
  match ds, ts with
  | [], [] => Some []
  | d' :: ds', t' :: ts' => match bcast d' t', go ds' ts' with Some x, Some y => Some (x ++ y) | _, _ => None end
  | _, _ => None
  end.

Lemma go_length {A B} (ds : list (ptree A)) :
  Forall (fun d => forall (t : ptree B) l, bcast d t = Some l -> length l = length (flatten t)) ds ->
  forall (ts : list (ptree B)) l, go ds ts = Some l -> length l = length (fl ts).
Proof.
  induction 1 as [|d ds Hd _ IH]; intros [|t ts] l; cbn; try discriminate.
  - intros H. now injection H as <-.
  - destruct (bcast d t) as [x|] eqn:E1; [|discriminate].
    destruct (go ds ts) as [y|] eqn:E2; [|discriminate].
    intros H. injection H as <-. rewrite !app_length. rewrite (Hd _ _ E1), (IH _ _ E2). reflexivity.
Qed.

(* the broadcast in_dims / out_dims have one entry per flat leaf *)
Lemma bcast_length {A B} (d : ptree A) : forall (t : ptree B) l, bcast d t = Some l -> length l = length (flatten t).
Proof.
  induction d as [a|ds IH|ds IH] using ptree_ind2; intros t l.
  - cbn. intros H. injection H as <-. apply repeat_length.
  - destruct t as [b|ts|ts]; cbn; try discriminate. apply (go_length ds IH).
  - destruct t as [b|ts|ts]; cbn; try discriminate. apply (go_length ds IH).
Qed.

Lemma check_all_nth args : forall dims ks, check_all args dims = inr ks -> length dims = length args ->
  length ks = length args /\
  forall i a, nth_error args i = Some a ->
    exists d k, nth_error dims i = Some d /\ nth_error ks i = Some k /\ check1 a d = inr k.
Proof.
  induction args as [|a args IH]; intros [|d dims] ks; cbn; try discriminate.
  - intros H _. injection H as <-. split; [reflexivity|]. intros [|i] a; discriminate.
  - destruct (check1 a d) as [r|k] eqn:E1; [discriminate|].
    destruct (check_all args dims) as [r|ks'] eqn:E2; [discriminate|].
    intros H Hl. injection H as <-. destruct (IH dims ks' E2 ltac:(lia)) as [L N].
    split; [cbn; lia|]. intros [|i] a'; cbn.
    + intros H. injection H as <-. exists d, k. auto.
    + intros H. apply N. exact H.
Qed.

Lemma sizes_In args : forall ks i a k sh, nth_error args i = Some a -> nth_error ks i = Some (Some k) -> arg_shape a = Some sh ->
  In (nth k sh 0) (sizes args ks).
Proof.
  induction args as [|a0 args IH]; intros [|k0 ks] [|i] a k sh; cbn; try discriminate.
  - intros H1 H2 H3. injection H1 as ->. injection H2 as ->. rewrite H3. now left.
  - intros H1 H2 H3. destruct k0 as [k0|]; [destruct (arg_shape a0); [right|]|]; eapply IH; eauto.
Qed.

Lemma validate_all szs B : validate szs = inr B -> forall x, In x szs -> x = B.
Proof.
  destruct szs as [|b r]; cbn; [discriminate|].
  destruct (forallb (Nat.eqb b) r) eqn:E; [|discriminate].
  intros H. injection H as <-. intros x [<-|Hx]; [reflexivity|].
  rewrite forallb_forall in E. symmetry. apply Nat.eqb_eq. now apply E.
Qed.

(* (ii) two different sizes along mapped dims are always refused *)
Theorem validate_rejects szs x y : In x szs -> In y szs -> x <> y -> validate szs = inl RInconsistent.
Proof.
  intros Hx Hy Hne. destruct (validate szs) as [r|B] eqn:E.
  - destruct szs as [|b r0]; [contradiction|]. cbn in E. destruct (forallb (Nat.eqb b) r0); [discriminate|]. congruence.
  - pose proof (validate_all szs B E x Hx). pose proof (validate_all szs B E y Hy). congruence.
Qed.

Lemma create_nth flat : forall dims i a k, nth_error flat i = Some a -> nth_error dims i = Some k ->
  nth_error (create flat dims) i = Some (create1 a k).
Proof.
  induction flat as [|a0 flat IH]; intros [|k0 dims] [|i] a k; cbn; try discriminate.
  - intros H1 H2. injection H1 as ->. injection H2 as ->. reflexivity.
  - apply IH.
Qed.

Lemma check1_some a z k : check1 a (LInt z) = inr (Some k) ->
  exists sh, arg_shape a = Some sh /\ process_in_dim (length sh) z = Some k.
Proof.
  cbn. destruct (arg_shape a) as [sh|]; [|discriminate].
  destruct (process_in_dim (length sh) z) as [k'|] eqn:E; [|discriminate].
  intros H. injection H as <-. eauto.
Qed.

(* (i) when the inputs are accepted: every flat argument has its entry; an argument with an int in_dim is a tensor or a
   tensordict, the dim is inside its (batch) rank, its size along it is the common batch size B, and the function receives
   it batched exactly along that dim; an argument with in_dim None is handed over as it is (a tensordict: as a fresh shallow
   copy over the same leaves) *)
Theorem process_create in_dims args B dims flat :
  process in_dims args = POk B dims flat ->
  flat = flatten (PTup args) /\ length dims = length flat /\
  forall i a, nth_error flat i = Some a ->
    exists k, nth_error dims i = Some k /\ nth_error (create flat dims) i = Some (create1 a k) /\
      match k with
      | None => True
      | Some k' => exists sh, arg_shape a = Some sh /\ k' < length sh /\ nth k' sh 0 = B
      end.
Proof.
  unfold process.
  assert (Hmain : match args with
                  | [] => PRej RNoInputs
                  | _ => match bcast in_dims (PTup args) with
                         | None => PRej RStructure
                         | Some fdims =>
                             let flat := flatten (PTup args) in
                             match check_all flat fdims with
                             | inl r => PRej r
                             | inr ks => match validate (sizes flat ks) with inl r => PRej r | inr B => POk B ks flat end
                             end
                         end
                  end = POk B dims flat -> flat = flatten (PTup args) /\ length dims = length flat /\
          forall i a, nth_error flat i = Some a ->
            exists k, nth_error dims i = Some k /\ nth_error (create flat dims) i = Some (create1 a k) /\
              match k with None => True | Some k' => exists sh, arg_shape a = Some sh /\ k' < length sh /\ nth k' sh 0 = B end).
  { destruct args as [|a0 args']; [discriminate|]. set (args := a0 :: args').
    destruct (bcast in_dims (PTup args)) as [fdims|] eqn:Eb; [|discriminate].
    cbv zeta. destruct (check_all (flatten (PTup args)) fdims) as [r|ks] eqn:Ec; [discriminate|].
    destruct (validate (sizes (flatten (PTup args)) ks)) as [r|B'] eqn:Ev; [discriminate|].
    intros H. injection H as <- <- <-.
    pose proof (bcast_length _ _ _ Eb) as Lb.
    destruct (check_all_nth _ _ _ Ec Lb) as [Lk N].
    split; [reflexivity|]. split; [exact Lk|].
    intros i a Ha. destruct (N i a Ha) as [d [k [Hd [Hk Hc]]]].
    exists k. split; [exact Hk|]. split; [now apply create_nth|].
    destruct k as [k'|]; [|exact I].
    destruct d as [z| |]; cbn in Hc; try discriminate.
    destruct (check1_some a z k') as [sh [Hs Hp]]; [exact Hc|].
    exists sh. split; [exact Hs|]. split.
    - now destruct (process_in_dim_spec _ _ _ Hp).
    - apply (validate_all _ _ Ev). eapply sizes_In; eauto. }
  destruct in_dims as [[z| |]|l|l]; try discriminate; exact Hmain.
Qed.

(* what the function receives, case by case *)
Theorem create1_cases :
  (forall b k, create1 (ATd b) (Some k) = BTd (remove_nth b k)) /\
  (forall s k, create1 (ATen s) (Some k) = BTen (remove_nth s k)) /\
  (forall b, create1 (ATd b) None = BCopy b) /\
  (forall a, (forall b, a <> ATd b) -> create1 a None = BSame a).
Proof.
  repeat split; try reflexivity. intros [b|s|] H; try reflexivity. now contradiction (H b).
Qed.

(* (ii) as a statement about [process]: inconsistent sizes among the mapped arguments are rejected *)
Theorem process_rejects_inconsistent in_dims args B dims flat i j a1 a2 k1 k2 sh1 sh2 :
  process in_dims args = POk B dims flat ->
  nth_error flat i = Some a1 -> nth_error dims i = Some (Some k1) -> arg_shape a1 = Some sh1 ->
  nth_error flat j = Some a2 -> nth_error dims j = Some (Some k2) -> arg_shape a2 = Some sh2 ->
  nth k1 sh1 0 = nth k2 sh2 0.
Proof.
  intros Hp H1 D1 S1 H2 D2 S2. destruct (process_create _ _ _ _ _ Hp) as [_ [_ N]].
  destruct (N i a1 H1) as [k [Hk [_ M1]]]. rewrite D1 in Hk. injection Hk as <-.
  destruct (N j a2 H2) as [k [Hk [_ M2]]]. rewrite D2 in Hk. injection Hk as <-.
  destruct M1 as [s1 [E1 [_ B1]]]. destruct M2 as [s2 [E2 [_ B2]]]. congruence.
Qed.

(* non-vacuity + the error cases, on concrete calls *)
Example process_ex :
  process (PTup [PLeaf (LInt (-1)); PLeaf LNone; PTup [PLeaf (LInt 0); PLeaf LNone]])
          [PLeaf (ATd [2; 3]); PLeaf (ATd [5]); PTup [PLeaf (ATen [3; 4]); PLeaf AObj]]
  = POk 3 [Some 1; None; Some 0; None] [ATd [2; 3]; ATd [5]; ATen [3; 4]; AObj]
  /\ create [ATd [2; 3]; ATd [5]; ATen [3; 4]; AObj] [Some 1; None; Some 0; None] = [BTd [2]; BCopy [5]; BTen [4]; BSame AObj]
  /\ process (PTup [PLeaf (LInt 0); PLeaf (LInt 0)]) [PLeaf (ATd [2; 3]); PLeaf (ATen [3])] = PRej RInconsistent
  /\ process (PTup [PLeaf (LInt 2)]) [PLeaf (ATd [2; 3])] = PRej RRange
  /\ process (PTup [PLeaf (LInt 0); PLst [PLeaf LNone]]) [PLeaf (ATd [2]); PTup [PLeaf AObj]] = PRej RStructure
  /\ process (PLeaf LNone) [PLeaf (ATd [2])] = PRej RTop
  /\ process (PTup [PLeaf LNone]) [PLeaf (ATd [2])] = PRej RNoBatched.
Proof. repeat split; reflexivity. Qed.

(* outputs: a tensordict output comes back with B inserted at the position out_dim names (negative ones included), whatever
   its leaves; an out_dim that names no position is refused *)
Lemma remove_td_raw_ok B b fs o : o <= length b -> remove_td_raw b fs B (Z.of_nat o) = inr (RTd (insert_at b o B)).
Proof.
  intros Ho. unfold remove_td_raw.
  rewrite (all_some_map_some (fun f => insert_at (b ++ f) o B)).
  2:{ intros f _. rewrite torch_wrap_nonneg by lia. reflexivity. }
  rewrite py_insert_nonneg, length_insert_at.
  replace (forallb _ _) with true; [reflexivity|].
  symmetry. apply forallb_forall. intros sh Hin. apply in_map_iff in Hin. destruct Hin as [f [<- _]].
  rewrite firstn_insert_app by assumption. apply list_eqb_refl.
Qed.

Theorem unwrap_td_ok B b fs (o : Z) p :
  torch_wrap o (length b + 1) = Some p -> unwrap1 B (OTd b fs) (LInt o) = inr (RTd (insert_at b p B)).
Proof.
  intros Hw. cbn. unfold remove_td. rewrite Hw. apply remove_td_raw_ok. apply torch_wrap_spec in Hw. lia.
Qed.

Theorem unwrap_td_out_of_range B b fs (o : Z) :
  torch_wrap o (length b + 1) = None -> unwrap1 B (OTd b fs) (LInt o) = inl UIndex.
Proof. intros Hw. cbn. unfold remove_td. now rewrite Hw. Qed.
