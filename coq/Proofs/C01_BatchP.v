(* C01 — the batch-size setter (_batch_size_setter + _check_new_batch_size, as repaired by fixes/C01/D101_D102_D110.diff:
   pure recursive check first, then nested collections that do not extend the new size are resized).
   * success: the result is coherent in every context whose size is a prefix of the new one — no other hypothesis;
   * failure: the tree left behind is coherent when no node below carries dim names (then the only failure is the
     check, which modifies nothing); a failure of the names assignment of the node itself is covered too. *)
From Coq Require Import List String Bool Arith Lia.
Import ListNotations.
From TD Require Import Model.C01_Tree Model.C01_Ops Model.C01_Scope Proofs.C01_TreeP Proofs.C01_NamesP.
Open Scope string_scope.
Open Scope list_scope.

Definition grow (new : list nat) (c : tree) : tree * bool :=
  match c with
  | Leaf _ _ => (c, true)
  | Node _ cbs _ _ _ => if negb (prefixb new cbs) then set_bs true c new else (c, true)
  end.

Definition new_names (names : list (option string)) (new : list nat) : list (option string) :=
  if Nat.ltb (List.length names) (List.length new)
  then names ++ repeat None (List.length new - List.length names)
  else firstn (List.length new) names.

Lemma set_bs_node : forall sz k bs dv nm es new,
  set_bs sz (Node k bs dv nm es) new =
  if sz && shape_eqb new bs then (Node k bs dv nm es, true)
  else if negb (check_new_t new (Node k bs dv nm es)) then (Node k bs dv nm es, false)
  else
    let '(es1, ok1) := seq_children (grow new) es in
    if negb ok1 then (Node k bs dv nm es1, false)
    else match nm with
         | None => (Node k new dv None es1, true)
         | Some names => set_names (Node k new dv None es1) (Some (new_names names new))
         end.
Proof. reflexivity. Qed.

(* what the check says about one entry *)
Definition entry_ok (new : list nat) (c : tree) : bool :=
  match c with
  | Leaf sh _ => prefixb new sh
  | Node _ cbs _ _ _ =>
      if Nat.ltb (List.length cbs) (List.length new) || (negb (prefixb new cbs) && is_empty c)
      then check_new_t new c else prefixb new cbs
  end.

Lemma check_new_node : forall new k bs dv nm es,
  check_new_t new (Node k bs dv nm es) = forallb (fun kv => entry_ok new (snd kv)) es.
Proof.
  intros. cbn [check_new_t]. induction es as [|[key c] r IH]; [reflexivity|].
  cbn [forallb snd]. rewrite IH. destruct c; reflexivity.
Qed.

(* an entry that is resized passed the recursive check; an entry that is not has the new size as leading dims *)
Lemma entry_ok_cases : forall new c,
  entry_ok new c = true ->
  match c with
  | Leaf sh _ => prefixb new sh = true
  | Node _ cbs _ _ _ => if prefixb new cbs then True else check_new_t new c = true
  end.
Proof.
  intros new [sh d|k cbs dv nm es] H; cbn [entry_ok] in H; [exact H|].
  destruct (prefixb new cbs) eqn:Ep; [exact I|].
  destruct (Nat.ltb (List.length cbs) (List.length new) || (negb false && is_empty (Node k cbs dv nm es))); [exact H|discriminate].
Qed.

Lemma set_bs_ok_shape : forall sz t new t', set_bs sz t new = (t', true) -> is_node t = true -> tshape t' = new.
Proof.
  intros sz [sh d|k bs dv nm es] new t' H Hn; [discriminate|]. rewrite set_bs_node in H.
  destruct (sz && shape_eqb new bs) eqn:E0.
  - injection H as <-. apply andb_true_iff in E0 as [_ E0]. apply shape_eqb_eq in E0. now subst.
  - destruct (check_new_t new (Node k bs dv nm es)); cbn [negb] in H; [|discriminate].
    destruct (seq_children (grow new) es) as [es1 ok1]. destruct ok1; cbn [negb] in H; [|discriminate].
    destruct nm as [names|].
    + replace t' with (fst (set_names (Node k new dv None es1) (Some (new_names names new)))) by now rewrite H.
      now rewrite set_names_shape.
    + now injection H as <-.
Qed.

Lemma set_bs_is_node : forall sz t new, is_node (fst (set_bs sz t new)) = is_node t.
Proof.
  intros sz [sh d|k bs dv nm es] new; [reflexivity|]. rewrite set_bs_node.
  destruct (sz && shape_eqb new bs); [reflexivity|].
  destruct (check_new_t new (Node k bs dv nm es)); cbn [negb]; [|reflexivity].
  destruct (seq_children (grow new) es) as [es1 ok1]. destruct ok1; cbn [negb]; [|reflexivity].
  destruct nm; [|reflexivity]. now rewrite set_names_is_node.
Qed.

(* the entries after a successful resize loop are coherent under the NEW size *)
Lemma grown_entries_coh : forall new bs dv es es1,
  (forall kv, In kv es -> forall sz new t' p d, coh p d (snd kv) = true -> set_bs sz (snd kv) new = (t', true) -> prefixb p new = true -> coh p d t' = true) ->
  coh_ents bs dv es = true ->
  forallb (fun kv => entry_ok new (snd kv)) es = true ->
  seq_children (grow new) es = (es1, true) ->
  coh_ents new dv es1 = true.
Proof.
  intros new bs dv es es1 IH Hc Hchk Hseq.
  apply seq_children_ok in Hseq. apply coh_ents_forall. apply Forall_forall. intros [key' c'] Hin'.
  destruct (Forall2_in_r _ _ _ _ _ Hseq _ Hin') as ([key c] & Hin & Hk & Hg). cbn [fst snd] in *.
  apply coh_ents_forall in Hc. rewrite Forall_forall in Hc. pose proof (Hc _ Hin) as Hcc. cbn [snd] in Hcc.
  rewrite forallb_forall in Hchk. pose proof (Hchk _ Hin) as He. cbn [snd] in He. apply entry_ok_cases in He.
  destruct c as [sh dd|ck cbs cdv cnm ces].
  - cbn in Hg. injection Hg as <-. eapply coh_reprefix; eauto.
  - cbn [grow] in Hg. destruct (prefixb new cbs) eqn:Ep; cbn [negb] in Hg.
    + injection Hg as <-. eapply coh_reprefix; eauto.
    + pose proof (set_bs_ok_shape _ _ _ _ Hg eq_refl) as Hsh.
      eapply coh_reprefix; [|rewrite Hsh; apply prefixb_refl].
      apply (IH _ Hin true new c' [] dv); [|exact Hg|apply prefixb_nil]. cbn [snd].
      eapply coh_weaken; [exact Hcc|apply prefixb_nil].
Qed.

(* success: coherent wherever the context's size is a prefix of the new one *)
Lemma set_bs_ok_coh : forall t sz new t' p d,
  coh p d t = true -> set_bs sz t new = (t', true) -> prefixb p new = true -> coh p d t' = true.
Proof.
  induction t as [sh dd|k bs dv nm es IH] using tree_ind2; intros sz new t' p d Hc H Hp.
  - cbn in H. now injection H as <-.
  - rewrite set_bs_node in H.
    destruct (sz && shape_eqb new bs); [now injection H as <-|].
    destruct (check_new_t new (Node k bs dv nm es)) eqn:Echk; cbn [negb] in H; [|discriminate].
    rewrite check_new_node in Echk.
    destruct (seq_children (grow new) es) as [es1 ok1] eqn:Eseq. destruct ok1; cbn [negb] in H; [|discriminate].
    apply coh_node_iff in Hc as (H1 & H2 & H3 & H4).
    assert (Hes1 : coh_ents new dv es1 = true).
    { eapply grown_entries_coh; eauto. rewrite Forall_forall in IH. intros kv Hin. apply (IH _ Hin). }
    assert (Hnode : coh p d (Node k new dv None es1) = true) by (apply coh_node_iff; auto).
    destruct nm as [names|].
    + replace t' with (fst (set_names (Node k new dv None es1) (Some (new_names names new)))) by now rewrite H.
      now apply set_names_coh.
    + now injection H as <-.
Qed.

(* ---- without dim names below, a resize that passed the check cannot fail ---- *)
Lemma seq_children_all_ok : forall f es,
  (forall kv, In kv es -> snd (f (snd kv)) = true) -> snd (seq_children f es) = true.
Proof.
  intros f. induction es as [|[key c] r IH]; intros H; [reflexivity|].
  rewrite seq_children_cons. pose proof (H (key, c) (or_introl eq_refl)) as Hc. cbn [snd] in Hc.
  destruct (f c) as [c' okc]. cbn [snd] in Hc. subst okc.
  assert (Hr : snd (seq_children f r) = true) by (apply IH; intros kv Hin; apply H; now right).
  destruct (seq_children f r) as [r' ok]. exact Hr.
Qed.

Lemma set_bs_total : forall t new, no_names t = true -> check_new_t new t = true -> snd (set_bs true t new) = true.
Proof.
  induction t as [sh dd|k bs dv nm es IH] using tree_ind2; intros new Hn Hchk; [reflexivity|].
  rewrite set_bs_node. destruct (true && shape_eqb new bs); [reflexivity|].
  rewrite Hchk. cbn [negb]. cbn [no_names] in Hn. apply andb_true_iff in Hn as [Hnm Hnn].
  destruct nm; [discriminate|].
  assert (Hok : snd (seq_children (grow new) es) = true).
  { apply seq_children_all_ok. intros [key c] Hin. cbn [snd]. rewrite Forall_forall in IH.
    rewrite check_new_node, forallb_forall in Hchk. pose proof (Hchk _ Hin) as He. cbn [snd] in He. apply entry_ok_cases in He.
    rewrite forallb_forall in Hnn. pose proof (Hnn _ Hin) as Hcn. cbn [snd] in Hcn.
    destruct c as [|ck cbs cdv cnm ces]; [reflexivity|]. cbn [grow].
    destruct (prefixb new cbs); cbn [negb]; [reflexivity|]. apply (IH _ Hin); auto. }
  destruct (seq_children (grow new) es) as [es1 ok1]. cbn [snd] in Hok. subst ok1. reflexivity.
Qed.

(* both outcomes, for a node whose descendants carry no dim names *)
Lemma set_bs_coh : forall t sz new p d,
  coh p d t = true -> no_names_below t = true -> prefixb p new = true -> coh p d (fst (set_bs sz t new)) = true.
Proof.
  intros t sz new p d Hc Hn Hp. destruct (set_bs sz t new) as [t' ok] eqn:E. cbn [fst].
  destruct ok; [eapply set_bs_ok_coh; eauto|].
  destruct t as [sh dd|k bs dv nm es]; [cbn in E; discriminate|].
  rewrite set_bs_node in E.
  destruct (sz && shape_eqb new bs); [discriminate|].
  destruct (check_new_t new (Node k bs dv nm es)) eqn:Echk; cbn [negb] in E; [|now injection E as <-].
  assert (Hok : snd (seq_children (grow new) es) = true).
  { apply seq_children_all_ok. intros [key c] Hin. cbn [snd].
    rewrite check_new_node, forallb_forall in Echk. pose proof (Echk _ Hin) as He. cbn [snd] in He. apply entry_ok_cases in He.
    cbn [no_names_below] in Hn. rewrite forallb_forall in Hn. pose proof (Hn _ Hin) as Hcn. cbn [snd] in Hcn.
    destruct c as [|ck cbs cdv cnm ces]; [reflexivity|]. cbn [grow].
    destruct (prefixb new cbs); cbn [negb]; [reflexivity|]. now apply set_bs_total. }
  destruct (seq_children (grow new) es) as [es1 ok1] eqn:Eseq. cbn [snd] in Hok. subst ok1. cbn [negb] in E.
  (* only the names assignment of the node itself can have failed *)
  destruct nm as [names|]; [|discriminate].
  pose proof Hc as Hall. apply coh_node_iff in Hc as (H1 & H2 & H3 & H4). rewrite check_new_node in Echk.
  assert (Hes1 : coh_ents new dv es1 = true).
  { eapply grown_entries_coh; eauto. intros kv Hin sz0 new0 t0 p0 d0. apply set_bs_ok_coh. }
  replace t' with (fst (set_names (Node k new dv None es1) (Some (new_names names new)))) by now rewrite E.
  apply set_names_coh. apply coh_node_iff. auto.
Qed.

(* ---- no dim names: preserved ---- *)
Lemma set_bs_no_names : forall t sz new, no_names t = true -> no_names (fst (set_bs sz t new)) = true.
Proof.
  induction t as [sh dd|k bs dv nm es IH] using tree_ind2; intros sz new Hn; [reflexivity|].
  rewrite set_bs_node. destruct (sz && shape_eqb new bs); [exact Hn|].
  destruct (check_new_t new (Node k bs dv nm es)); cbn [negb]; [|exact Hn].
  cbn [no_names] in Hn. apply andb_true_iff in Hn as [Hnm Hnn]. destruct nm; [discriminate|].
  assert (Hes : forallb (fun kv => no_names (snd kv)) (fst (seq_children (grow new) es)) = true).
  { apply forallb_forall. apply Forall_forall.
    apply (seq_children_Forall (grow new) (fun c => no_names c = true) (fun c => no_names c = true)); auto.
    - apply Forall_forall. now apply forallb_forall.
    - eapply Forall_impl; [|exact IH]. intros [key c] IHc Hc. cbn [snd] in *.
      destruct c as [|ck cbs cdv cnm ces]; [reflexivity|]. cbn [grow].
      destruct (prefixb new cbs); cbn [negb]; [exact Hc|now apply IHc]. }
  destruct (seq_children (grow new) es) as [es1 ok1]. cbn [fst] in Hes.
  destruct ok1; cbn [negb fst no_names]; exact Hes.
Qed.
