(* C01 — the batch-size setter (_batch_size_setter + _check_new_batch_size) keeps a tree coherent, for ok and raising
   outcomes, as long as no hollow node (empty TensorDict / NonTensorData) lies below the node (findings D101, D102). *)
From Coq Require Import List String Bool Arith Lia.
Import ListNotations.
From TD Require Import Model.C01_Tree Model.C01_Ops Proofs.C01_TreeP Proofs.C01_NamesP.
Open Scope string_scope.
Open Scope list_scope.

Definition grow (new : list nat) (c : tree) : tree * bool :=
  match c with
  | Leaf _ _ => (c, true)
  | Node _ cbs _ _ _ => if Nat.ltb (List.length cbs) (List.length new) then set_bs true c new else (c, true)
  end.

Lemma set_bs_node : forall sz k bs dv nm es new,
  set_bs sz (Node k bs dv nm es) new =
  if sz && shape_eqb new bs then (Node k bs dv nm es, true)
  else
    let '(es1, ok1) := seq_children (grow new) es in
    if negb ok1 then (Node k bs dv nm es1, false)
    else if negb (check_new new es1) then (Node k bs dv nm es1, false)
    else match nm with
         | None => (Node k new dv None es1, true)
         | Some names =>
             set_names (Node k new dv None es1)
               (Some (if Nat.ltb (List.length names) (List.length new)
                      then names ++ repeat None (List.length new - List.length names)
                      else firstn (List.length new) names))
         end.
Proof. reflexivity. Qed.

Lemma leaves_pref_weaken : forall t a b, prefixb a b = true -> leaves_pref b t = true -> leaves_pref a t = true.
Proof.
  induction t as [sh dd|k bs dv nm es IH] using tree_ind2; intros a b Hab H; cbn in *.
  - eapply prefixb_trans; eauto.
  - rewrite forallb_forall in *. rewrite Forall_forall in IH. intros kv Hin. eapply IH; eauto.
Qed.

Lemma coh_leaves_pref_self : forall t p d, coh p d t = true -> leaves_pref (tshape t) t = true.
Proof.
  intros [sh dd|k bs dv nm es] p d H; cbn.
  - apply prefixb_refl.
  - apply coh_node_iff in H as (_ & _ & _ & H4). apply forallb_forall. intros kv Hin.
    apply coh_ents_forall in H4. rewrite Forall_forall in H4. eapply coh_leaves_pref. apply (H4 _ Hin).
Qed.

Lemma is_empty_leaves_pref : forall t a, is_empty t = true -> leaves_pref a t = true.
Proof.
  induction t as [sh dd|k bs dv nm es IH] using tree_ind2; intros a H; cbn in *; [discriminate|].
  destruct k; [|discriminate]. rewrite forallb_forall in *. rewrite Forall_forall in IH. intros kv Hin. eapply IH; eauto.
Qed.

(* success: the node has the new size *)
Lemma set_bs_ok_shape : forall sz t new t', set_bs sz t new = (t', true) -> is_node t = true -> tshape t' = new.
Proof.
  intros sz [sh d|k bs dv nm es] new t' H Hn; [discriminate|]. rewrite set_bs_node in H.
  destruct (sz && shape_eqb new bs) eqn:E0.
  - injection H as <-. apply andb_true_iff in E0 as [_ E0]. apply shape_eqb_eq in E0. now subst.
  - destruct (seq_children (grow new) es) as [es1 ok1]. destruct ok1; cbn [negb] in H; [|discriminate].
    destruct (check_new new es1); cbn [negb] in H; [|discriminate].
    destruct nm as [names|].
    + replace t' with (fst (set_names (Node k new dv None es1)
         (Some (if Nat.ltb (List.length names) (List.length new) then names ++ repeat None (List.length new - List.length names)
                else firstn (List.length new) names)))) by now rewrite H.
      now rewrite set_names_shape.
    + now injection H as <-.
Qed.

Lemma set_bs_is_node : forall sz t new, is_node (fst (set_bs sz t new)) = is_node t.
Proof.
  intros sz [sh d|k bs dv nm es] new; [reflexivity|]. rewrite set_bs_node.
  destruct (sz && shape_eqb new bs); [reflexivity|].
  destruct (seq_children (grow new) es) as [es1 ok1]. destruct ok1; cbn [negb]; [|reflexivity].
  destruct (check_new new es1); cbn [negb]; [|reflexivity].
  destruct nm; [|reflexivity]. now rewrite set_names_is_node.
Qed.

Lemma set_bs_holds : forall t sz new, holds_tensor (fst (set_bs sz t new)) = holds_tensor t.
Proof.
  induction t as [sh dd|k bs dv nm es IH] using tree_ind2; intros sz new; [reflexivity|].
  rewrite set_bs_node. destruct (sz && shape_eqb new bs); [reflexivity|].
  assert (Hes : existsb (fun kv => holds_tensor (snd kv)) (fst (seq_children (grow new) es)) = existsb (fun kv => holds_tensor (snd kv)) es).
  { apply seq_children_holds. eapply Forall_impl; [|exact IH]. intros [key c] IHc. cbn [snd] in *.
    destruct c as [sh dd|ck cbs cdv cnm ces]; [reflexivity|]. cbn [grow].
    destruct (Nat.ltb (List.length cbs) (List.length new)); [apply IHc|reflexivity]. }
  destruct (seq_children (grow new) es) as [es1 ok1]. cbn [fst] in Hes.
  destruct ok1; cbn [negb]; [|exact Hes].
  destruct (check_new new es1); cbn [negb]; [|exact Hes].
  destruct nm; [|exact Hes]. rewrite set_names_holds. exact Hes.
Qed.

(* if the result carries the new size, every tensor below has it as leading dims (or nothing had to change) *)
Lemma set_bs_leaves : forall t sz new p d,
  coh p d t = true -> is_node t = true -> tshape (fst (set_bs sz t new)) = new ->
  tshape t = new \/ leaves_pref new t = true.
Proof.
  induction t as [sh dd|k bs dv nm es IH] using tree_ind2; intros sz new p d Hc Hn Hs; [discriminate|].
  rewrite set_bs_node in Hs.
  destruct (sz && shape_eqb new bs) eqn:E0; [left; exact Hs|].
  destruct (seq_children (grow new) es) as [es1 ok1] eqn:E1.
  destruct ok1; cbn [negb] in Hs; [|left; exact Hs].
  destruct (check_new new es1) eqn:E2; cbn [negb] in Hs; [|left; exact Hs].
  right. clear Hs. apply coh_node_iff in Hc as (_ & _ & _ & H4).
  apply seq_children_ok in E1. unfold check_new in E2. rewrite forallb_forall in E2.
  apply coh_ents_forall in H4. cbn [leaves_pref]. apply forallb_forall.
  revert E1 E2 IH H4. generalize es1. clear. intros es1 E1.
  induction E1 as [|[key c] [key' c'] r r' [Hk Hg] HF2 IHF]; intros E2 IH H4 kv Hin; [contradiction|].
  cbn [fst snd] in *. inversion IH as [|? ? IHc IHr]; subst. inversion H4 as [|? ? Hc Hr]; subst. cbn [snd] in *.
  destruct Hin as [<-|Hin].
  2: { apply IHF; auto. intros x Hx. apply E2. now right. }
  cbn [snd]. specialize (E2 (key, c') (or_introl eq_refl)). cbn [snd] in E2.
  destruct c as [sh dd|ck cbs cdv cnm ces].
  - cbn in Hg. injection Hg as <-. cbn [tshape is_node andb] in E2. rewrite orb_false_r in E2. exact E2.
  - cbn [grow] in Hg. destruct (Nat.ltb (List.length cbs) (List.length new)) eqn:El.
    + pose proof (set_bs_ok_shape _ _ _ _ Hg eq_refl) as Hsh.
      destruct (IHc true new bs dv Hc eq_refl) as [Heq|Hl]; [now rewrite Hg| |exact Hl].
      cbn in Heq. subst. apply Nat.ltb_lt in El. lia.
    + injection Hg as <-. apply orb_true_iff in E2 as [E2|E2].
      * eapply leaves_pref_weaken; [exact E2|]. apply (coh_leaves_pref_self _ _ _ Hc).
      * apply andb_true_iff in E2 as [_ E2]. now apply is_empty_leaves_pref.
Qed.

(* a node that holds a tensor and ends up with the new size: the context's size is a prefix of the new one *)
Lemma set_bs_prefix : forall t sz new p d,
  coh p d t = true -> is_node t = true -> holds_tensor t = true -> List.length p <= List.length new ->
  tshape (fst (set_bs sz t new)) = new -> prefixb p new = true.
Proof.
  intros t sz new p d Hc Hn Hh Hl Hs.
  destruct (set_bs_leaves t sz new p d Hc Hn Hs) as [Heq|Hlv].
  - destruct t as [|k bs dv nm es]; [discriminate|]. cbn in Heq. subst. now apply coh_node_iff in Hc as (Hc & _).
  - eapply leaves_pref_common; eauto. eapply coh_leaves_pref; eauto.
Qed.

Lemma hollow_free_child : forall k bs dv nm es kv,
  hollow_free (Node k bs dv nm es) = true -> In kv es ->
  (is_node (snd kv) = true -> holds_tensor (snd kv) = true) /\ hollow_free (snd kv) = true.
Proof.
  intros k bs dv nm es kv H Hin. cbn in H. rewrite forallb_forall in H. specialize (H _ Hin).
  apply andb_true_iff in H as [H1 H2]. split; [|exact H2]. intros Hn. rewrite Hn in H1. exact H1.
Qed.

(* the main lemma: whatever the outcome, the tree left behind is coherent in its context; the context's size has to be
   a prefix of the new one only if the node really ends up with the new size *)
Lemma set_bs_coh : forall t sz new p d,
  coh p d t = true -> hollow_free t = true ->
  (tshape (fst (set_bs sz t new)) = new -> prefixb p new = true) ->
  coh p d (fst (set_bs sz t new)) = true.
Proof.
  induction t as [sh dd|k bs dv nm es IH] using tree_ind2; intros sz new p d Hc Hf Hp; [exact Hc|].
  pose proof Hc as Hall. apply coh_node_iff in Hc as (H1 & H2 & H3 & H4).
  rewrite set_bs_node in *.
  destruct (sz && shape_eqb new bs) eqn:E0; [exact Hall|].
  destruct (seq_children (grow new) es) as [es1 ok1] eqn:E1.
  (* the entries after the growth loop are coherent under the OLD size *)
  assert (Hes1 : coh_ents bs dv es1 = true).
  { replace es1 with (fst (seq_children (grow new) es)) by now rewrite E1.
    apply seq_children_coh; [exact H4|]. rewrite Forall_forall in IH. apply Forall_forall. intros [key c] Hin Hcc.
    cbn [snd] in *. destruct c as [sh dd|ck cbs cdv cnm ces]; [exact Hcc|]. cbn [grow].
    destruct (Nat.ltb (List.length cbs) (List.length new)) eqn:El; [|exact Hcc].
    destruct (hollow_free_child _ _ _ _ _ _ Hf Hin) as [Hh Hfc]. cbn [snd] in *.
    apply (IH _ Hin); auto. intros Hs. apply Nat.ltb_lt in El.
    eapply (set_bs_prefix (Node ck cbs cdv cnm ces)); eauto.
    apply coh_node_iff in Hcc as (Hcc & _). apply prefixb_length in Hcc. lia. }
  destruct ok1; cbn [negb] in *; [|apply coh_node_iff; auto].
  destruct (check_new new es1) eqn:E2; cbn [negb] in *; [|apply coh_node_iff; auto].
  (* the check passed: the entries are coherent under the NEW size *)
  assert (Hnew : coh_ents new dv es1 = true).
  { apply seq_children_ok in E1. unfold check_new in E2. rewrite forallb_forall in E2.
    apply coh_ents_forall. apply Forall_forall. intros [key' c'] Hin'.
    apply coh_ents_forall in Hes1. rewrite Forall_forall in Hes1. pose proof (Hes1 _ Hin') as Hc'. cbn [snd] in *.
    specialize (E2 _ Hin'). cbn [snd] in E2.
    apply orb_true_iff in E2 as [E2|E2]; [eapply coh_reprefix; eauto|].
    (* an empty nested node would be hollow *)
    exfalso. apply andb_true_iff in E2 as [En Ee].
    destruct (Forall2_in_r _ _ _ _ _ E1 _ Hin') as ([key c] & Hin & Hk & Hg). cbn [fst snd] in *.
    destruct (hollow_free_child _ _ _ _ _ _ Hf Hin) as [Hh _]. cbn [snd] in Hh.
    assert (Hn : is_node c = true).
    { destruct c; [cbn in Hg; injection Hg as <-; discriminate|reflexivity]. }
    specialize (Hh Hn). apply is_empty_no_tensor in Ee.
    assert (Hht : holds_tensor c' = holds_tensor c).
    { destruct c as [|ck cbs cdv cnm ces]; [discriminate|]. cbn [grow] in Hg.
      destruct (Nat.ltb (List.length cbs) (List.length new)); [|now injection Hg as <-].
      replace c' with (fst (set_bs true (Node ck cbs cdv cnm ces) new)) by now rewrite Hg.
      apply set_bs_holds. }
    congruence. }
  assert (Hnode : coh p d (Node k new dv None es1) = true).
  { apply coh_node_iff. repeat split; auto. apply Hp.
    destruct nm; [now rewrite set_names_shape|reflexivity]. }
  destruct nm as [names|]; [now apply set_names_coh|exact Hnode].
Qed.
