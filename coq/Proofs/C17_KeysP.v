(* C17 — flat names split back into the paths they were joined from: the exact side condition, its simple form for
   one-character separators, and what happens otherwise. *)
From Coq Require Import ZArith List String Bool Ascii Lia.
Import ListNotations.
From TD Require Import Model.C04_Tree Model.C04_Ops Model.C17_Tree Model.C17_Keys.
Open Scope string_scope.
Open Scope list_scope.

Lemma sapp_nil_r : forall s : string, (s ++ "")%string = s.
Proof. induction s as [|c s IH]; [reflexivity|]. cbn. now rewrite IH. Qed.

Lemma sapp_assoc : forall a b c : string, ((a ++ b) ++ c)%string = (a ++ (b ++ c))%string.
Proof. induction a as [|x a IH]; intros b c; [reflexivity|]. cbn. now rewrite IH. Qed.

Lemma prefix_app_self : forall s r : string, String.prefix s (s ++ r)%string = true.
Proof. induction s as [|c s IH]; intros r; [destruct r; reflexivity|]. cbn. destruct (ascii_dec c c); [apply IH|congruence]. Qed.

Lemma rev_string_rev : forall s acc, rev_string "" (rev_string acc s) = rev_string s acc.
Proof. induction s as [|c s IH]; intros acc; [reflexivity|]. cbn [rev_string]. rewrite IH. reflexivity. Qed.

Lemma rev_string_nil acc : rev_string acc "" = acc.
Proof. reflexivity. Qed.

(* no match inside a: the scan runs through a, pushing its characters on the current token *)
Lemma split_go_through sep : forall a rest cur, suffix_free sep a rest = true ->
  split_go sep 0 cur (a ++ rest)%string = split_go sep 0 (rev_string cur a) rest.
Proof.
  induction a as [|c a IH]; intros rest cur H; [reflexivity|].
  cbn [suffix_free] in H. apply andb_prop in H. destruct H as [H1 H2]. apply negb_true_iff in H1.
  change ((String c a ++ rest)%string) with (String c (a ++ rest)%string) in *.
  cbn [split_go]. rewrite H1. rewrite (IH rest (String c cur) H2). reflexivity.
Qed.

(* the characters of a matched separator are dropped *)
Lemma split_go_skip sep : forall x rest cur,
  split_go sep (String.length x) cur (x ++ rest)%string = split_go sep 0 cur rest.
Proof. induction x as [|c x IH]; intros rest cur; [reflexivity|]. cbn [String.length append split_go]. apply IH. Qed.

Lemma split_go_joint sep a rest : sep <> "" -> suffix_free sep a (sep ++ rest)%string = true ->
  split_go sep 0 "" (a ++ sep ++ rest)%string = a :: split_go sep 0 "" rest.
Proof.
  intros Hne H. rewrite (split_go_through sep a _ "" H).
  pose proof (prefix_app_self sep rest) as Hp.
  destruct sep as [|c0 sep']; [congruence|].
  change ((String c0 sep' ++ rest)%string) with (String c0 (sep' ++ rest)%string) in *.
  cbn [split_go]. rewrite Hp.
  rewrite rev_string_rev, rev_string_nil. f_equal.
  replace (String.length (String c0 sep') - 1) with (String.length sep') by (cbn; lia).
  apply split_go_skip.
Qed.

Lemma contains_false_suffix_free sep : forall x, str_contains sep x = false -> suffix_free sep x "" = true.
Proof.
  induction x as [|c x IH]; intros H; [reflexivity|]. cbn [suffix_free]. rewrite sapp_nil_r.
  cbn [str_contains] in H. destruct (String.prefix sep (String c x)) eqn:E; [discriminate|]. cbn. now apply IH.
Qed.

Lemma split_last sep x : str_contains sep x = false -> split_go sep 0 "" x = [x].
Proof.
  intros H. pose proof (split_go_through sep x "" "" (contains_false_suffix_free sep x H)) as E.
  rewrite sapp_nil_r in E. rewrite E. cbn [split_go]. now rewrite rev_string_rev.
Qed.

Lemma join_cons2 sep x y r : join sep (x :: y :: r) = (x ++ sep ++ join sep (y :: r))%string.
Proof. reflexivity. Qed.

(* key.split(sep) gives back the joined components — under the exact condition [clean_path] *)
Theorem split_join sep : sep <> "" -> forall p, clean_path sep p = true -> split sep (join sep p) = p.
Proof.
  intros Hne. unfold split. induction p as [|x r IH]; intros H; [discriminate|].
  destruct r as [|y r'].
  - cbn [clean_path] in H. apply negb_true_iff in H. cbn [join String.concat]. now apply split_last.
  - cbn [clean_path] in H. apply andb_prop in H. destruct H as [H1 H2].
    rewrite join_cons2. rewrite split_go_joint by assumption. f_equal. now apply IH.
Qed.

Lemma contains_joint sep : forall a rest, str_contains sep (a ++ sep ++ rest)%string = true.
Proof.
  induction a as [|c a IH]; intros rest.
  - cbn [append]. destruct (sep ++ rest)%string eqn:E.
    + cbn [str_contains]. rewrite <- E, prefix_app_self. reflexivity.
    + cbn [str_contains]. rewrite <- E, prefix_app_self. reflexivity.
  - change ((String c a ++ sep ++ rest)%string) with (String c (a ++ sep ++ rest)%string).
    cbn [str_contains]. rewrite IH. now destruct (String.prefix sep _).
Qed.

(* `sep in key` is true exactly for the names of nested leaves *)
Theorem key_path_join sep : sep <> "" -> forall p, clean_path sep p = true -> py_key_path sep (join sep p) = p.
Proof.
  intros Hne p H. unfold py_key_path. destruct p as [|x [|y r]]; [discriminate| |].
  - cbn [clean_path] in H. apply negb_true_iff in H. cbn [join String.concat]. now rewrite H.
  - rewrite join_cons2, contains_joint, <- join_cons2. now apply split_join.
Qed.

(* one-character separators: "no component contains the separator" is enough *)
Lemma suffix_free_char c : forall a rest, str_contains (String c "") a = false -> suffix_free (String c "") a rest = true.
Proof.
  induction a as [|c' a IH]; intros rest H; [reflexivity|]. cbn [suffix_free].
  cbn [str_contains] in H. destruct (String.prefix (String c "") (String c' a)) eqn:E; [discriminate|].
  change ((String c' a ++ rest)%string) with (String c' (a ++ rest)%string).
  cbn [String.prefix] in E |- *. destruct (ascii_dec c c'); [destruct a; discriminate|]. cbn. now apply IH.
Qed.

Theorem clean_path_char c : forall p, no_sep_inside (String c "") p = true -> clean_path (String c "") p = true.
Proof.
  induction p as [|x r IH]; intros H; [discriminate|]. cbn [no_sep_inside forallb] in H.
  apply andb_prop in H. destruct H as [Hx Hr]. destruct r as [|y r'].
  - cbn [clean_path]. exact Hx.
  - cbn [clean_path]. apply negb_true_iff in Hx. rewrite (suffix_free_char c x _ Hx). cbn. apply IH. exact Hr.
Qed.

(* every leaf of the flattened object splits back to exactly the path it had in the original, in the same order *)
Theorem paths_roundtrip sep es : sep <> "" ->
  (forall pv, In pv (leaves true [] (Node es)) -> clean_path sep (fst pv) = true) ->
  unflat_paths sep (flat_names sep es) = leaves true [] (Node es).
Proof.
  intros Hne H. unfold unflat_paths, flat_names. rewrite map_map. rewrite <- (map_id (leaves true [] (Node es))) at 2.
  apply map_ext_in. intros [p v] Hin. cbn [fst snd]. now rewrite (key_path_join sep Hne p (H _ Hin)).
Qed.

Corollary paths_roundtrip_char c es :
  (forall pv, In pv (leaves true [] (Node es)) -> no_sep_inside (String c "") (fst pv) = true) ->
  unflat_paths (String c "") (flat_names (String c "") es) = leaves true [] (Node es).
Proof. intros H. apply paths_roundtrip; [discriminate|]. intros pv Hin. apply clean_path_char. now apply H. Qed.

(* an entry added to the flattened object under the name "a<sep>b<sep>c" is the nested key (a, b, c) *)
Corollary added_key_path sep p : sep <> "" -> clean_path sep p = true -> py_key_path sep (join sep p) = p.
Proof. intros Hne H. now apply key_path_join. Qed.

(* ---- what happens otherwise ---- *)
(* a separator of several characters: no component contains it, yet the flat name splits elsewhere *)
Theorem split_join_multichar_refuted : exists sep p,
  sep <> "" /\ no_sep_inside sep p = true /\ split sep (join sep p) <> p /\ clean_path sep p = false.
Proof. exists "aa", ["a"; "b"]. repeat split; try discriminate; reflexivity. Qed.

Definition leafpaths (es : ents) : list (list string * tree) := leaves true [] (Node es).

(* ... and through the real functions: flatten_keys("aa") then unflatten_keys("aa") moves the leaf (a, b) to ("", "ab") *)
Theorem keys_roundtrip_multichar_refuted : exists sep es y inv,
  flatten_out sep es = Ok y /\ unflatten_in sep y = (inv, None)
  /\ leafpaths es = [(["a"; "b"], Leaf LT 1)] /\ leafpaths inv = [([""; "ab"], Leaf LT 1)].
Proof. exists "aa", [("a", Node [("b", Leaf LT 1)])]. eexists _, _. repeat split; reflexivity. Qed.

(* a key that already contains the separator is nested by the round trip *)
Theorem keys_roundtrip_key_with_sep_refuted : exists es y inv,
  flatten_out "." es = Ok y /\ unflatten_in "." y = (inv, None)
  /\ leafpaths es = [(["a.b"], Leaf LT 1)] /\ leafpaths inv = [(["a"; "b"], Leaf LT 1)].
Proof. exists [("a.b", Leaf LT 1)]. eexists _, _. repeat split; reflexivity. Qed.

(* an empty nested node has no leaf: it is not in the flattened object and does not come back *)
Theorem keys_roundtrip_empty_node_refuted : exists es y inv,
  flatten_out "." es = Ok y /\ unflatten_in "." y = (inv, None)
  /\ map fst es = ["a"; "n"] /\ map fst inv = ["a"].
Proof. exists [("a", Leaf LT 1); ("n", Node [])]. eexists _, _. repeat split; reflexivity. Qed.

(* the blocks on a concrete tree: the added "p.q.r" lands at (p, q, r) of an unlocked original and is dropped by a locked one *)
Example block_added_nested_unlocked :
  flatten_keys_block "." false [("a", Leaf LT 1); ("n", Node [("b", Leaf LT 2)])] [("p.q.r", Leaf LT 9)]
  = BOk [("a", KLeaf 1 1); ("n", KNode [("b", KLeaf 2 2)]); ("p", KNode [("q", KNode [("r", KLeaf 9 9)])])].
Proof. reflexivity. Qed.

Example block_added_nested_locked :
  flatten_keys_block "." true [("a", Leaf LT 1); ("n", Node [("b", Leaf LT 2)])] [("p.q.r", Leaf LT 9)]
  = BOk [("a", KLeaf 1 1); ("n", KNode [("b", KLeaf 2 2)])].
Proof. reflexivity. Qed.
