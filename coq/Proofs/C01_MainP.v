(* C01 — one public call issued on a node or through a handle keeps the whole tree coherent; induction over histories;
   witnesses of the defects; rejection of ill-shaped / ill-placed tensors. *)
From Coq Require Import List String Bool Arith Lia.
Import ListNotations.
From TD Require Import Model.C01_Tree Model.C01_Ops Model.C01_Scope Proofs.C01_TreeP Proofs.C01_NamesP Proofs.C01_BatchP Proofs.C01_SetP Proofs.C01_StepP Proofs.C01_AutoP.
From TD Require Model.C04_Tree.
Open Scope string_scope.
Open Scope list_scope.

Lemma node_step_coh : forall o self p d,
  coh p d self = true -> node_scope p o = true -> clean0 self o = true -> coh p d (fst (node_step o self)) = true.
Proof.
  intros o self p d Hc Hs Hk. destruct self as [|[] bs dv nm es]; try exact Hc.
  destruct o; cbn [node_step clean0 node_scope] in *; try discriminate.
  - destruct (through_nt key _); [exact Hc|]. now apply set_tuple_coh.
  - destruct (through_nt key _); [exact Hc|]. now apply set_tuple_coh.
  - destruct (through_nt key _); [exact Hc|]. destruct key; [exact Hc|].
    destruct (contains_path _ _); [exact Hc|]. now apply set_tuple_coh.
  - destruct (through_nt key _); [exact Hc|]. now apply set_non_tensor_coh.
  - now apply upd_v_coh.
  - destruct (through_nt key _); [exact Hc|]. now apply del_path_coh.
  - now apply pop_path_coh.
  - now apply popitem_coh.
  - now apply rename_key_coh.
  - unfold b2o. cbn [fst]. now apply set_bs_coh.
  - unfold b2o. cbn [fst]. now apply set_names_coh.
  - unfold b2o. cbn [fst]. now apply refine_coh.
  - unfold b2o. cbn [fst]. apply andb_true_iff in Hk as [Hk1 Hk2]. apply auto_bs_coh; auto.
    destruct k as [kk|]; [|exact I]. split; [now apply Nat.leb_le|now apply Nat.leb_le].
  - now apply flatten_in_coh.
  - now apply unflatten_in_coh.
  - now apply select_in_coh.
  - now apply exclude_in_coh.
  - destruct (through_nt key _); [exact Hc|]. now apply create_nested_coh.
  - cbn [fst]. apply coh_node_iff in Hc as (H1 & H2 & H3 & _). apply coh_node_iff. repeat split; auto.
Qed.

(* ---- handles ---- *)
Fixpoint ctx_at (path : list string) (pbs : list nat) (pdv : option dev) (t : tree) : option (list nat * option dev * tree) :=
  match path with
  | [] => Some (pbs, pdv, t)
  | k :: r =>
      match t with
      | Node KTd bs dv _ es => match aget k es with Some c => ctx_at r bs dv c | None => None end
      | _ => None
      end
  end.

Lemma at_path_coh : forall path f t pbs pdv,
  coh pbs pdv t = true ->
  (forall pbs' pdv' n, ctx_at path pbs pdv t = Some (pbs', pdv', n) -> coh pbs' pdv' n = true -> coh pbs' pdv' (fst (f n)) = true) ->
  coh pbs pdv (fst (at_path path f t)) = true.
Proof.
  induction path as [|k r IH]; intros f t pbs pdv Hc Hf.
  - cbn [at_path]. apply (Hf pbs pdv t eq_refl Hc).
  - cbn [at_path]. destruct t as [|[] bs dv nm es]; try exact Hc.
    destruct (aget k es) as [c|] eqn:Eg; [|exact Hc].
    pose proof Hc as Hall. apply coh_node_iff in Hc as (_ & _ & _ & H4).
    pose proof (coh_ents_aget _ _ _ _ _ H4 Eg) as Hcc.
    assert (H1 : coh bs dv (fst (at_path r f c)) = true).
    { apply IH; [exact Hcc|]. intros pbs' pdv' n Hctx. apply Hf. cbn [ctx_at]. now rewrite Eg. }
    destruct (at_path r f c) as [c' o]. cbn [fst] in *. now apply rebuild_coh.
Qed.

Lemma ctx_parent_bs : forall path pbs pdv t pbs' pdv' n,
  path <> [] -> ctx_at path pbs pdv t = Some (pbs', pdv', n) -> parent_bs path t = Some pbs'.
Proof.
  induction path as [|k r IH]; intros pbs pdv t pbs' pdv' n Hne Hctx; [congruence|].
  cbn [ctx_at] in Hctx. destruct t as [|[] bs dv nm es]; try discriminate.
  destruct (aget k es) as [c|] eqn:Eg; [|discriminate].
  destruct r as [|k2 r'].
  - cbn in Hctx. injection Hctx as <- <- <-. reflexivity.
  - cbn [parent_bs]. rewrite Eg. eapply IH; [discriminate|exact Hctx].
Qed.

Lemma ctx_subtree : forall path pbs pdv t pbs' pdv' n,
  ctx_at path pbs pdv t = Some (pbs', pdv', n) -> subtree path t = Some n.
Proof.
  induction path as [|k r IH]; intros pbs pdv t pbs' pdv' n H; cbn in *.
  - now injection H as <- <- <-.
  - destruct t as [|[] bs dv nm es]; try discriminate. destruct (aget k es); [|discriminate]. eapply IH; eauto.
Qed.

(* ---- one step, any handle, ok or raising ---- *)
Lemma step_coh : forall t o,
  Coherent t -> in_scopeb t o = true -> cleanb t o = true -> Coherent (fst (step t o)).
Proof.
  intros t [path o0] Hc Hs Hk. unfold Coherent, coherentb in *. cbn [step].
  apply at_path_coh; [exact Hc|]. intros pbs' pdv' n Hctx Hn'.
  apply node_step_coh; [exact Hn'| |].
  - destruct path as [|k r].
    + cbn in Hctx. injection Hctx as <- <- <-. destruct o0; try reflexivity. cbn. destruct k; reflexivity.
    + assert (Hp : parent_bs (k :: r) t = Some pbs') by (eapply ctx_parent_bs; [discriminate|exact Hctx]).
      cbn [in_scopeb] in Hs. rewrite Hp in Hs. destruct o0; try reflexivity; exact Hs.
  - cbn [cleanb] in Hk. now rewrite (ctx_subtree _ _ _ _ _ _ _ Hctx) in Hk.
Qed.

(* ---- histories ---- *)
Fixpoint trace_ok (t : tree) (ops : list op) : Prop :=
  match ops with
  | [] => True
  | o :: r => in_scopeb t o = true /\ cleanb t o = true /\ trace_ok (fst (step t o)) r
  end.

Lemma run_coh : forall ops t, Coherent t -> trace_ok t ops -> Coherent (run t ops).
Proof.
  induction ops as [|o r IH]; intros t Hc Ht; [exact Hc|].
  destruct Ht as (H1 & H2 & H3). unfold run. cbn [fold_left]. apply IH; [now apply step_coh|exact H3].
Qed.

(* every prefix of the history ends in a coherent state, not only the last one *)
Lemma run_coh_all : forall ops t, Coherent t -> trace_ok t ops ->
  forall n, Coherent (run t (firstn n ops)).
Proof.
  induction ops as [|o r IH]; intros t Hc Ht n.
  - destruct n; exact Hc.
  - destruct n as [|n]; [exact Hc|]. destruct Ht as (H1 & H2 & H3). cbn [firstn]. unfold run. cbn [fold_left].
    apply IH; [now apply step_coh|exact H3].
Qed.

(* ---- the former witnesses of D101, D102, D103 (false of the model before the repairs fixes/C01/*.diff) ---- *)
Definition w101_t : tree := Node KTd [3] None None [("n", Node KTd [3] None None [])].
Definition w101_o : op := OAt [] (OBatchSize false [4]).
Definition w102_t : tree := Node KTd [3] None None [("e", Node KTd [3] None None []); ("a", Leaf [3] CPU)].
Definition w102_o : op := OAt [] (OBatchSize false [4; 5]).
Definition w103_t : tree := Node KTd [3] None None [("a", Leaf [3] CPU); ("n", Node KTd [3; 4] None None [])].
Definition w103_o : op := OAt [] (ORename ["a"] ["n"; "a"] false).

(* D101: the empty nested node follows the new batch size; D102: the rejected assignment changes nothing;
   D103: the destination node refuses the ill-shaped entry (the old key is kept, nothing is stored) *)
Lemma repaired_D101 : step w101_t w101_o = (Node KTd [4] None None [("n", Node KTd [4] None None [])], Done).
Proof. vm_compute. reflexivity. Qed.
Lemma repaired_D102 : step w102_t w102_o = (w102_t, Raised).
Proof. vm_compute. reflexivity. Qed.
Lemma repaired_D103 : step w103_t w103_o = (w103_t, Raised).
Proof. vm_compute. reflexivity. Qed.

(* ---- rejection: a tensor whose leading dims are not the batch size is refused and nothing is stored ---- *)
Lemma validate_leaf : forall sk bs dv nm es sh d,
  validate_tree (Node sk bs dv nm es) (Leaf sh d) =
  (Node sk bs dv nm es,
   if negb (Nat.eqb (List.length bs) 0) && negb (prefixb bs sh) then Err
   else match dv with
        | Some CPU => if dev_eqb d META then Err else Ok (Leaf sh CPU)
        | Some META => Ok (Leaf sh META)
        | None => Ok (Leaf sh d)
        end).
Proof.
  intros sk bs dv nm es sh d. unfold validate_tree. cbv zeta. cbn [tshape].
  destruct (negb (Nat.eqb (List.length bs) 0)); cbn [andb].
  - destruct (negb (prefixb bs sh)); [reflexivity|]. destruct dv as [[]|]; destruct d; reflexivity.
  - destruct dv as [[]|]; destruct d; reflexivity.
Qed.

Lemma reject_shape : forall bs dv nm es k sh d ip,
  bs <> [] -> prefixb bs sh = false ->
  set_str (Node KTd bs dv nm es) k (VTree (Leaf sh d)) ip = (Node KTd bs dv nm es, Raised).
Proof.
  intros bs dv nm es k sh d ip Hne Hp. unfold set_str. cbn [prep]. rewrite validate_leaf, Hp.
  destruct bs; [congruence|]. cbn [List.length Nat.eqb negb andb]. destruct ip; destruct (amem k es); reflexivity.
Qed.

(* a stored tensor lives on the device of its container *)
Lemma stored_on_device : forall bs d0 nm es k sh d self',
  set_str (Node KTd bs (Some d0) nm es) k (VTree (Leaf sh d)) INo = (self', Done) ->
  self' = Node KTd bs (Some d0) nm (aset k (Leaf sh d0) es).
Proof.
  intros bs d0 nm es k sh d self' H. unfold set_str in H. cbn [prep] in H. rewrite validate_leaf in H.
  destruct (negb (Nat.eqb (List.length bs) 0) && negb (prefixb bs sh)); [cbn in H; discriminate|].
  destruct d0.
  - destruct (dev_eqb d META); cbn in H; [discriminate|]. now injection H as <-.
  - cbn in H. now injection H as <-.
Qed.

Lemma aget_aset_same : forall k v es, aget k (aset k v es) = Some v.
Proof.
  induction es as [|[k' v'] r IH]; cbn; [now rewrite String.eqb_refl|].
  destruct (String.eqb k k') eqn:E; cbn; rewrite E; auto.
Qed.

(* ---- one name per batch dim at every node of a coherent tree ---- *)
Fixpoint all_nodes (P : tree -> bool) (t : tree) : bool :=
  match t with
  | Leaf _ _ => true
  | Node _ _ _ _ es => P t && forallb (fun kv => all_nodes P (snd kv)) es
  end.

Definition names_lenb (t : tree) : bool :=
  match t with Node _ bs _ nm _ => names_ok nm bs | Leaf _ _ => true end.

Lemma coh_names_len : forall t p d, coh p d t = true -> all_nodes names_lenb t = true.
Proof.
  induction t as [sh dd|k bs dv nm es IH] using tree_ind2; intros p d H; [reflexivity|].
  apply coh_node_iff in H as (_ & _ & H3 & H4). cbn [all_nodes names_lenb]. rewrite H3. cbn.
  apply forallb_forall. intros kv Hin. rewrite Forall_forall in IH. apply coh_ents_forall in H4.
  rewrite Forall_forall in H4. eapply IH; eauto.
Qed.

(* the public `names` property returns exactly one entry per batch dim *)
Lemma names_of_length : forall k bs dv nm es, names_ok nm bs = true -> List.length (names_of (Node k bs dv nm es)) = List.length bs.
Proof.
  intros k bs dv [l|] es H; cbn in *; [now apply Nat.eqb_eq in H|apply repeat_length].
Qed.
