(* C20 — in place, the stored value under every key is fn's result, whether or not fn handed back its own argument. *)
From Coq Require Import ZArith List String Bool.
Import ListNotations.
From TD Require Import Model.C20_WriteBack.
Open Scope string_scope.

Ltac inv H := inversion H; subst; clear H.

Section WriteBackP.
Variable V : Type.
Notation store := (store V).

Lemma aget_aset_same : forall (st : store) k v, aget V (aset V st k v) k = Some v.
Proof.
  induction st as [|[k' v'] r IH]; intros k v; cbn [aset aget].
  - now rewrite String.eqb_refl.
  - destruct (String.eqb k k') eqn:E; cbn [aget]; rewrite E; [reflexivity|apply IH].
Qed.
Lemma aget_aset_other : forall (st : store) k k' v, k' <> k -> aget V (aset V st k v) k' = aget V st k'.
Proof.
  induction st as [|[k0 v0] r IH]; intros k k' v Hne; cbn [aset aget].
  - destruct (String.eqb k' k) eqn:E; [apply String.eqb_eq in E; congruence|reflexivity].
  - destruct (String.eqb k k0) eqn:E; cbn [aget].
    + apply String.eqb_eq in E. subst k0. destruct (String.eqb k' k) eqn:E'; [apply String.eqb_eq in E'; congruence|reflexivity].
    + destruct (String.eqb k' k0); [reflexivity|now apply IH].
Qed.
Lemma keys_aset : forall (st : store) k v, aget V st k <> None -> map fst (aset V st k v) = map fst st.
Proof.
  induction st as [|[k0 v0] r IH]; intros k v H; cbn [aset aget map fst] in *; [now elim H|].
  destruct (String.eqb k k0) eqn:E; cbn [map fst]; [reflexivity|]. f_equal. now apply IH.
Qed.

(* what one item leaves under its key, [cur] being what is stored there *)
Definition leaf_out (fast_path copies_items : bool) (r : fret V) (x : V) (cur : option V) : option V :=
  match r with
  | FFresh v => Some v
  | FSame => if fast_path then cur else Some x
  | FMut v => if fast_path then (if copies_items then cur else Some v) else Some v
  | FMutNone v => if copies_items then cur else Some v
  | FNone => cur
  end.

Lemma wb_loop_get fast copies fn : forall (items st : store) k,
  NoDup (map fst items) ->
  aget V (wb_loop V fast copies fn items st) k
  = match aget V items k with
    | Some x => leaf_out fast copies (fn k x) x (aget V st k)
    | None => aget V st k
    end.
Proof.
  induction items as [|[k0 x0] rest IH]; intros st k Hnd; cbn [wb_loop aget]; [reflexivity|].
  cbn [map fst] in Hnd. inv Hnd. rewrite IH by assumption.
  destruct (String.eqb k k0) eqn:E.
  - apply String.eqb_eq in E. subst k0.
    assert (Hn : aget V rest k = None).
    { clear - H1. induction rest as [|[k1 v1] r IHr]; cbn [aget]; [reflexivity|].
      cbn [map fst] in H1. destruct (String.eqb k k1) eqn:E1.
      - apply String.eqb_eq in E1. subst k1. exfalso. apply H1. now left.
      - apply IHr. intro Hin. apply H1. now right. }
    rewrite Hn. unfold leaf_out.
    destruct (fn k x0) as [v| |v|v|]; destruct fast, copies; rewrite ?aget_aset_same; reflexivity.
  - assert (Hne : k <> k0). { intro; subst. now rewrite String.eqb_refl in E. }
    assert (Hsame : forall st', (st' = st \/ (exists v, st' = aset V st k0 v) \/ (exists v w, st' = aset V (aset V st k0 v) k0 w)) ->
                                aget V st' k = aget V st k).
    { intros st' [->|[(v & ->)|(v & w & ->)]]; rewrite ?aget_aset_other by exact Hne; reflexivity. }
    assert (Hst : aget V (match fn k0 x0 with
                          | FFresh v => aset V (match fn k0 x0 with FMut v0 | FMutNone v0 => if copies then st else aset V st k0 v0 | _ => st end) k0 v
                          | FSame => if fast then (match fn k0 x0 with FMut v0 | FMutNone v0 => if copies then st else aset V st k0 v0 | _ => st end)
                                     else aset V (match fn k0 x0 with FMut v0 | FMutNone v0 => if copies then st else aset V st k0 v0 | _ => st end) k0 x0
                          | FMut v => if fast then (match fn k0 x0 with FMut v0 | FMutNone v0 => if copies then st else aset V st k0 v0 | _ => st end)
                                      else aset V (match fn k0 x0 with FMut v0 | FMutNone v0 => if copies then st else aset V st k0 v0 | _ => st end) k0 v
                          | _ => match fn k0 x0 with FMut v0 | FMutNone v0 => if copies then st else aset V st k0 v0 | _ => st end
                          end) k = aget V st k).
    { apply Hsame. destruct (fn k0 x0) as [v| |v|v|]; destruct fast, copies; eauto 6. }
    rewrite Hst. reflexivity.
Qed.

Lemma aget_in : forall (st : store) k x, NoDup (map fst st) -> In (k, x) st -> aget V st k = Some x.
Proof.
  induction st as [|[k0 x0] r IH]; intros k x Hnd Hin; [contradiction|]. cbn [map fst] in Hnd. inv Hnd. cbn [aget].
  destruct Hin as [E|Hin].
  - inv E. now rewrite String.eqb_refl.
  - destruct (String.eqb k k0) eqn:E; [|now apply IH]. apply String.eqb_eq in E. subst k0. exfalso. apply H1.
    change k with (fst (k, x)). now apply in_map.
Qed.

(* the contract of an in-place call at a level (no fast path — /repo): under every key the stored value is the value fn's
   result stands for — fresh, its own argument untouched, or its own argument updated in place — for both kinds of
   container; a None result leaves the entry to what fn did to the object it was handed *)
Theorem inplace_writeback : forall copies fn (st : store) k x,
  NoDup (map fst st) -> In (k, x) st ->
  aget V (apply_inplace V false copies fn st) k
  = match fval V (fn k x) x with
    | Some v => Some v
    | None => match fn k x with FMutNone v => if copies then Some x else Some v | _ => Some x end
    end.
Proof.
  intros copies fn st k x Hnd Hin. unfold apply_inplace. rewrite wb_loop_get by exact Hnd.
  rewrite (aget_in st k x Hnd Hin). unfold leaf_out, fval. destruct (fn k x); destruct copies; reflexivity.
Qed.

(* the fast path is harmless exactly where items() hands out the stored tensors … *)
Theorem fast_path_harmless_on_views : forall fn (st : store),
  NoDup (map fst st) ->
  forall k, aget V (apply_inplace V true false fn st) k = aget V (apply_inplace V false false fn st) k.
Proof.
  intros fn st Hnd k. unfold apply_inplace. rewrite !wb_loop_get by exact Hnd.
  destruct (aget V st k) as [x|] eqn:E; [|reflexivity]. unfold leaf_out. destruct (fn k x); reflexivity.
Qed.

(* keys and their order are those of self *)
Theorem inplace_keys : forall fast copies fn (st : store),
  NoDup (map fst st) -> map fst (apply_inplace V fast copies fn st) = map fst st.
Proof.
  intros fast copies fn st Hnd. unfold apply_inplace.
  assert (G : forall items (s : store), (forall k x, In (k, x) items -> aget V s k <> None) ->
                map fst (wb_loop V fast copies fn items s) = map fst s).
  { induction items as [|[k0 x0] rest IH]; intros s Hk; cbn [wb_loop]; [reflexivity|].
    assert (H0 : aget V s k0 <> None) by (apply (Hk k0 x0); now left).
    assert (Hks : forall v, map fst (aset V s k0 v) = map fst s) by (intro v; now apply keys_aset).
    assert (Hks2 : forall v w, map fst (aset V (aset V s k0 v) k0 w) = map fst s).
    { intros v w. rewrite keys_aset; [apply Hks|]. rewrite aget_aset_same. discriminate. }
    assert (Hpres : forall s', map fst s' = map fst s -> (forall k x, In (k, x) rest -> aget V s' k <> None) ->
                               map fst (wb_loop V fast copies fn rest s') = map fst s).
    { intros s' E Hk'. rewrite IH by exact Hk'. exact E. }
    assert (Hget : forall s', (s' = s \/ (exists v, s' = aset V s k0 v) \/ (exists v w, s' = aset V (aset V s k0 v) k0 w)) ->
                              map fst s' = map fst s /\ (forall k x, In (k, x) rest -> aget V s' k <> None)).
    { intros s' Hs'. split.
      - destruct Hs' as [->|[(v & ->)|(v & w & ->)]]; [reflexivity|apply Hks|apply Hks2].
      - intros k x Hin. assert (Hkk : aget V s k <> None) by (apply (Hk k x); now right).
        destruct Hs' as [->|[(v & ->)|(v & w & ->)]]; [exact Hkk| |].
        + destruct (String.eqb k k0) eqn:E; [apply String.eqb_eq in E; subst; rewrite aget_aset_same; discriminate|].
          rewrite aget_aset_other; [exact Hkk|]. intro; subst. now rewrite String.eqb_refl in E.
        + destruct (String.eqb k k0) eqn:E; [apply String.eqb_eq in E; subst; rewrite aget_aset_same; discriminate|].
          assert (k <> k0) by (intro; subst; now rewrite String.eqb_refl in E).
          rewrite !aget_aset_other by assumption. exact Hkk. }
    match goal with |- map fst (wb_loop V fast copies fn rest ?S) = _ => destruct (Hget S) as [E1 E2] end.
    { destruct (fn k0 x0) as [v| |v|v|]; destruct fast, copies; eauto 6. }
    now apply Hpres. }
  apply G. intros k x Hin. rewrite (aget_in st k x Hnd Hin). discriminate.
Qed.

End WriteBackP.

(* … and loses the result where they are copies: a _SubTensorDict under a list / tensor / mask index, fn = lambda x: x.mul_(2) *)
Lemma fast_path_refuted :
  exists (fn : string -> Z -> fret Z) (st : store Z) k x v,
    NoDup (map fst st) /\ In (k, x) st /\ fval Z (fn k x) x = Some v
    /\ aget Z (apply_inplace Z true true fn st) k = Some x /\ x <> v
    /\ aget Z (apply_inplace Z false true fn st) k = Some v.
Proof.
  exists (fun _ x => FMut (2 * x)%Z), [("a", 3%Z); ("b", 5%Z)], "b", 5%Z, 10%Z.
  split. { repeat constructor; cbn; intuition discriminate. }
  split; [right; left; reflexivity|]. split; [reflexivity|]. split; [reflexivity|]. split; [discriminate|reflexivity].
Qed.
