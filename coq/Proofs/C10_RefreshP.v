(* C10 — load_memmap_ / memmap_refresh_: lemmas. *)
From Coq Require Import ZArith List String Bool Lia.
Import ListNotations.
From TD Require Import Model.C10_Meta Model.C10_Refresh Proofs.C10_MetaP.
Open Scope string_scope.
Open Scope list_scope.

(* a NonTensorData refreshed from a directory that holds a NonTensorData takes the payload that is on disk (JSON or
   pickled) and keeps its own batch size — for every payload *)
Lemma refresh_ndata_lemma : forall o bs p bs' p' d,
  save_over o (NData bs p) empty_dir = Ok d -> load_into d (NData bs' p') = Ok (NData bs' p).
Proof.
  intros o bs p bs' p' d. unfold empty_dir. cbn [save_over]. unfold ndata_files.
  destruct (is_json_serializable p) eqn:Es.
  - destruct (plain_roundtrip p (ser_plain p Es)) as (j & Hj1 & Hj2). rewrite Hj1. cbn [bind fset fdel fname_eqb].
    intro H. inversion H; subst d. clear H.
    cbn [load_into fget fname_eqb sget String.eqb Ascii.eqb Bool.eqb]. cbv beta iota.
    unfold loaded_fields. cbn [fget fname_eqb jdel String.eqb Ascii.eqb Bool.eqb map fst snd bind sget]. cbv beta iota.
    cbn [sget String.eqb Ascii.eqb Bool.eqb]. now rewrite Hj2.
  - cbn [bind fset fname_eqb]. intro H. inversion H; subst d. clear H.
    cbn [load_into fget fname_eqb sget String.eqb Ascii.eqb Bool.eqb]. cbv beta iota.
    unfold loaded_fields, upd_fields. cbn [fget fname_eqb jdel String.eqb Ascii.eqb Bool.eqb map fst snd bind sget fold_left jset]. cbv beta iota.
    cbn [sget String.eqb Ascii.eqb Bool.eqb]. reflexivity.
Qed.

Lemma fget_fset_same : forall k v l, fget k (fset k v l) = Some v.
Proof.
  intros k v l. induction l as [|[k' v'] l IH]; cbn [fget fset].
  - now rewrite fname_eqb_refl.
  - destruct (fname_eqb k k') eqn:E; cbn [fget]; rewrite E; auto.
Qed.
Lemma sget_jset_same : forall {A} k (v : A) m, sget k (jset k v m) = Some v.
Proof.
  intros A k v m. induction m as [|[k' x] m IH]; cbn [sget jset].
  - now rewrite String.eqb_refl.
  - destruct (String.eqb k k') eqn:E; cbn [sget]; rewrite E; auto.
Qed.

(* loading into something of another kind than the directory describes is refused, never a silent mix *)
Lemma load_into_kind_mismatch : forall o bs ents d l,
  save_over o (Node bs ents) empty_dir = Ok d -> load_into d (Leaf l) = Raised EOther.
Proof.
  intros o bs ents d l. unfold empty_dir. rewrite save_over_node.
  destruct (save_ents o (save_over o) ents [] []) as [[f s]|e] eqn:E; cbn [bind]; [|discriminate].
  intro H. inversion H; subst d. clear H. cbn [fst snd].
  cbn [load_into].
  rewrite fget_fset_same. unfold node_meta. rewrite sget_jset_same. cbn [String.eqb Ascii.eqb Bool.eqb]. reflexivity.
Qed.
