(* C16 proofs, part 4: indexing.  The code's split of an index around the stack dim (_split_index with its counters),
   and index_denote: the entry the model returns denotes the array torch-style indexing gives. *)
From Coq Require Import ZArith List Bool Lia.
Import ListNotations.
From TD Require Import Spec.PySlice Spec.C16_ObjArray Model.C16_NonTensor.
From TD Require Import Proofs.C16_BasicsP Proofs.C16_StackP Proofs.C16_SpecP.
From TD Require Model.C03_Index Spec.C03_TorchIndex Proofs.C03_IndexP.
Open Scope nat_scope.

(* ---------------- _split_index *)
Lemma n_adv_app a b : n_adv (a ++ b) = n_adv a + n_adv b.
Proof. unfold n_adv. now rewrite filter_app, app_length. Qed.
Lemma n_adv_cons it a : n_adv (it :: a) = (if is_adv it then 1 else 0) + n_adv a.
Proof. unfold n_adv. cbn [filter]. destruct (is_adv it); reflexivity. Qed.

Definition sinv (d : nat) (s : sst) : Prop :=
  s_cur s = cons_n (s_pre s) /\ s_cur s <= d /\
  (Z.of_nat d - s_single s + s_none s - s_squash s = Z.of_nat d - Z.of_nat (cons_n (s_pre s)) + Z.of_nat (prod_n (s_pre s)))%Z /\
  (s_enc s = true -> 1 <= n_adv (s_pre s)).

Lemma sinv0 d : sinv d sst0.
Proof. unfold sinv, sst0; cbn. repeat split; try lia; try discriminate. Qed.

Lemma split_at_spec d : forall idx s s' at_ post,
  sinv d s -> n_adv (s_pre s ++ idx) <= 1 -> split_at d idx s = Ok (s', at_, post) ->
  sinv d s' /\ s_pre s ++ idx = s_pre s' ++ (match at_ with Some it => it :: post | None => [] end) /\
  match at_ with Some it => s_cur s' = d /\ it <> INone | None => post = [] end.
Proof.
  induction idx as [|it idx IH]; intros s s' at_ post Hi Hn H; cbn [split_at] in H.
  - injection H as <- <- <-. now rewrite app_nil_r.
  - destruct Hi as (I1 & I2 & I3 & I4).
    assert (Hstep : forall s1, sinv d s1 -> s_pre s1 = s_pre s ++ [it] ->
                    split_at d idx s1 = Ok (s', at_, post) ->
                    sinv d s' /\ s_pre s ++ it :: idx = s_pre s' ++ (match at_ with Some it => it :: post | None => [] end) /\
                    match at_ with Some it => s_cur s' = d /\ it <> INone | None => post = [] end).
    { intros s1 Hi1 Hp1 H1. assert (Hn1 : n_adv (s_pre s1 ++ idx) <= 1).
      { rewrite Hp1, <- app_assoc. exact Hn. }
      destruct (IH s1 s' at_ post Hi1 Hn1 H1) as (A & B & C). split; [exact A|split; [|exact C]].
      rewrite <- B, Hp1, <- app_assoc. reflexivity. }
    destruct it as [i|a b c| |tsh vals|msh bits].
    + (* int *)
      destruct (s_cur s =? d) eqn:Ec.
      * injection H as <- <- <-. apply Nat.eqb_eq in Ec.
        split; [unfold sinv; auto|split; [reflexivity|split; [assumption|discriminate]]].
      * apply Nat.eqb_neq in Ec. eapply Hstep; cycle 2; [exact H| |reflexivity].
        unfold sinv; cbn [s_pre s_cur s_single s_none s_squash s_enc];
          rewrite cons_n_app, prod_n_app, n_adv_app; cbn [cons_n prod_n fold_right consumes produces];
          repeat split; try lia; intros E; specialize (I4 E); lia.
    + (* slice *)
      destruct (s_cur s =? d) eqn:Ec.
      * injection H as <- <- <-. apply Nat.eqb_eq in Ec.
        split; [unfold sinv; auto|split; [reflexivity|split; [assumption|discriminate]]].
      * apply Nat.eqb_neq in Ec. eapply Hstep; cycle 2; [exact H| |reflexivity].
        unfold sinv; cbn [s_pre s_cur s_single s_none s_squash s_enc];
          rewrite cons_n_app, prod_n_app, n_adv_app; cbn [cons_n prod_n fold_right consumes produces];
          repeat split; try lia; intros E; specialize (I4 E); lia.
    + (* None *)
      eapply Hstep; cycle 2; [exact H| |reflexivity].
        unfold sinv; cbn [s_pre s_cur s_single s_none s_squash s_enc];
          rewrite cons_n_app, prod_n_app, n_adv_app; cbn [cons_n prod_n fold_right consumes produces];
          replace (s_cur s <=? d) with true by (symmetry; apply Nat.leb_le; lia);
          repeat split; try lia; intros E; specialize (I4 E); lia.
    + (* integer tensor *)
      destruct (s_cur s =? d) eqn:Ec.
      * injection H as <- <- <-. apply Nat.eqb_eq in Ec.
        split; [unfold sinv; auto|split; [reflexivity|split; [assumption|discriminate]]].
      * apply Nat.eqb_neq in Ec.
        assert (Henc : s_enc s = false).
        { destruct (s_enc s) eqn:E; [|reflexivity]. specialize (I4 eq_refl).
          rewrite n_adv_app, n_adv_cons in Hn. cbn [is_adv] in Hn. lia. }
        eapply Hstep; cycle 2; [exact H| |reflexivity].
        unfold sinv; cbn [s_pre s_cur s_single s_none s_squash s_enc]; rewrite Henc;
          rewrite cons_n_app, prod_n_app, n_adv_app; cbn [cons_n prod_n fold_right consumes produces n_adv filter is_adv length];
          repeat split; try lia.
    + (* mask *)
      destruct (s_cur s =? d) eqn:Ec.
      * injection H as <- <- <-. apply Nat.eqb_eq in Ec.
        split; [unfold sinv; auto|split; [reflexivity|split; [assumption|discriminate]]].
      * apply Nat.eqb_neq in Ec. destruct (d <? s_cur s + length msh) eqn:Em; [discriminate|]. apply Nat.ltb_ge in Em.
        eapply Hstep; cycle 2; [exact H| |reflexivity].
        unfold sinv; cbn [s_pre s_cur s_single s_none s_squash s_enc];
          rewrite cons_n_app, prod_n_app, n_adv_app; cbn [cons_n prod_n fold_right consumes produces];
          repeat split; try lia; intros E; specialize (I4 E); lia.
Qed.

Lemma split_at_top d idx s at_ post :
  n_adv idx <= 1 -> split_at d idx sst0 = Ok (s, at_, post) ->
  idx = s_pre s ++ (match at_ with Some it => it :: post | None => [] end) /\
  cons_n (s_pre s) <= d /\
  new_stack_dim d s = d - cons_n (s_pre s) + prod_n (s_pre s) /\
  match at_ with Some it => cons_n (s_pre s) = d /\ it <> INone | None => post = [] end.
Proof.
  intros Hn H. destruct (split_at_spec d idx sst0 s at_ post (sinv0 d) Hn H) as ((I1 & I2 & I3 & _) & B & C).
  cbn [sst0 s_pre app] in B. repeat split; auto; try lia.
  - unfold new_stack_dim. rewrite I3. lia.
  - destruct at_ as [it|]; [|assumption]. destruct C as [C1 C2]. split; [lia|assumption].
Qed.

(* ---------------- list helpers for coordinate insertion *)
Lemma firstn_insert_at_le {A} (l : list A) : forall c d (x : A), c <= d -> d <= length l -> firstn c (insert_at d x l) = firstn c l.
Proof.
  induction l as [|y l IH]; intros c d x Hc Hd; cbn [length] in Hd.
  - assert (d = 0) by lia. assert (c = 0) by lia. subst. reflexivity.
  - destruct d as [|d]; [assert (c = 0) by lia; subst; reflexivity|]. rewrite insert_at_S.
    destruct c as [|c]; [reflexivity|]. cbn [firstn]. f_equal. apply IH; lia.
Qed.
Lemma skipn_insert_at_le {A} (l : list A) : forall c d (x : A),
  c <= d -> d <= length l -> skipn c (insert_at d x l) = insert_at (d - c) x (skipn c l).
Proof.
  induction l as [|y l IH]; intros c d x Hc Hd; cbn [length] in Hd.
  - assert (d = 0) by lia. assert (c = 0) by lia. subst. reflexivity.
  - destruct c as [|c]; [now rewrite Nat.sub_0_r|]. destruct d as [|d]; [lia|]. rewrite insert_at_S. cbn [skipn Nat.sub].
    apply IH; lia.
Qed.
Lemma insert_at_app_r {A} (a b : list A) k (x : A) : insert_at (length a + k) x (a ++ b) = a ++ insert_at k x b.
Proof. induction a as [|y a IH]; cbn [length app Nat.add]; [reflexivity|]. rewrite insert_at_S. now f_equal. Qed.
Lemma remove_at_app_r {A} (a b : list A) k : remove_at (length a + k) (a ++ b) = a ++ remove_at k b.
Proof. induction a as [|y a IH]; cbn [length app Nat.add]; [reflexivity|]. rewrite remove_at_S. now f_equal. Qed.
Lemma nth_error_app_r {A} (a b : list A) k : nth_error (a ++ b) (length a + k) = nth_error b k.
Proof. rewrite nth_error_app2 by lia. f_equal. lia. Qed.
Lemma firstn_app_exact {A} (a b : list A) : firstn (length a) (a ++ b) = a.
Proof. rewrite firstn_app, Nat.sub_diag, firstn_all. cbn [firstn]. apply app_nil_r. Qed.
Lemma skipn_app_exact {A} (a b : list A) : skipn (length a) (a ++ b) = b.
Proof. rewrite skipn_app, Nat.sub_diag, skipn_all. reflexivity. Qed.
Lemma split_firstn_skipn {A} (l : list A) n : l = firstn n l ++ skipn n l.
Proof. symmetry. apply firstn_skipn. Qed.

(* ---------------- an index accepted by the spec maps positions of the result to positions of the source *)
Lemma item_src_result_range it dims o r s :
  item_shape it dims = Some o -> item_src it dims r = Some s -> in_range o r = true.
Proof.
  destruct it as [i|a b c| |tsh vals|msh bits]; cbn [item_shape item_src].
  - destruct dims as [|n [|? ?]]; try discriminate. destruct (norm i n); [|discriminate]. intros H; injection H as <-.
    destruct r; [reflexivity|discriminate].
  - destruct dims as [|n [|? ?]]; try discriminate. destruct (step_of c <=? 0)%Z; [discriminate|]. intros H; injection H as <-.
    destruct r as [|k [|? ?]]; try discriminate. destruct (k <? sl_len a b c n) eqn:E; [|discriminate]. intros _.
    cbn [in_range]. now rewrite E.
  - destruct dims; [|discriminate]. intros H; injection H as <-. destruct r as [|[|?] [|? ?]]; try discriminate. reflexivity.
  - destruct dims as [|n [|? ?]]; try discriminate.
    destruct (Nat.eqb (length vals) (prod tsh) && vals_ok vals n && negb (Nat.eqb (length tsh) 0)) eqn:E; [|discriminate].
    intros H; injection H as <-. cbn [andb]. destruct (in_range tsh r); [reflexivity|discriminate].
  - destruct (shape_eqb msh dims && Nat.eqb (length bits) (prod msh) && negb (Nat.eqb (length msh) 0)); [|discriminate].
    intros H; injection H as <-. destruct r as [|k [|? ?]]; try discriminate.
    destruct (nth_error (true_pos bits) k) eqn:E; cbn [option_map]; [|discriminate]. intros _.
    cbn [in_range]. assert (k < length (true_pos bits)) by (apply nth_error_Some; congruence).
    apply Nat.ltb_lt in H. now rewrite H.
Qed.

Lemma ix_src_result_range idx : forall sh r R I,
  ix_shape idx sh = Some r -> ix_src idx sh R = Some I -> in_range r R = true.
Proof.
  induction idx as [|it idx IH]; intros sh r R I Hs H; cbn [ix_shape ix_src] in *.
  - injection Hs as <-. destruct (in_range sh R); [reflexivity|discriminate].
  - destruct (length sh <? consumes it) eqn:El; [discriminate|]. cbn [orb] in H.
    destruct (length R <? produces it) eqn:El2; [discriminate|]. apply Nat.ltb_ge in El2.
    destruct (item_shape it (firstn (consumes it) sh)) as [o|] eqn:Eo; cbn [obind] in Hs; [|discriminate].
    destruct (ix_shape idx (skipn (consumes it) sh)) as [o'|] eqn:Eo'; cbn [obind] in Hs; [|discriminate].
    injection Hs as <-.
    destruct (item_src it (firstn (consumes it) sh) (firstn (produces it) R)) as [s1|] eqn:E1; cbn [obind] in H; [|discriminate].
    destruct (ix_src idx (skipn (consumes it) sh) (skipn (produces it) R)) as [s2|] eqn:E2; cbn [obind] in H; [|discriminate].
    rewrite in_range_app. destruct (item_shape_length _ _ _ Eo) as [Lo _]. rewrite Lo.
    rewrite (item_src_result_range _ _ _ _ _ Eo E1), (IH _ _ _ _ Eo' E2). reflexivity.
Qed.

(* ---------------- a NonTensorData is indexed through utils._getitem_batch_size: bridge to the C03 development *)
Module B.
Local Notation slots := C03_TorchIndex.slots.
Local Notation K := C03_TorchIndex.K.
Local Notation has_A := C03_TorchIndex.has_A.
Local Notation adjacent := C03_TorchIndex.adjacent.
Local Notation gap_after := C03_TorchIndex.gap_after.
Local Notation keeps := C03_TorchIndex.keeps.
Local Notation before_A := C03_TorchIndex.before_A.
Local Notation after_first_A := C03_TorchIndex.after_first_A.
Local Notation place := C03_TorchIndex.place.
Local Notation torch_shape := C03_TorchIndex.torch_shape.
Local Notation expand_ell := C03_TorchIndex.expand_ell.
Local Notation adv_shapes := C03_Index.adv_shapes.
Local Notation adv_shape := C03_Index.adv_shape.
Local Notation bcast_all := C03_Index.bcast_all.
Local Notation gbs := C03_Index.gbs.
Local Notation is_ell := C03_Index.is_ell.

Lemma no_ell idx : existsb is_ell (map to_c03 idx) = false.
Proof. induction idx as [|it idx IH]; [reflexivity|]. cbn [map existsb]. rewrite IH. now destruct it. Qed.
Lemma filter_no_ell idx : filter is_ell (map to_c03 idx) = [].
Proof. induction idx as [|it idx IH]; [reflexivity|]. cbn [map filter]. rewrite IH. now destruct it. Qed.

Lemma norm_bounds i n : (exists j, norm i n = Some j) <-> ((- Z.of_nat n <=? i) && (i <? Z.of_nat n))%Z = true.
Proof.
  unfold norm. destruct ((0 <=? i) && (i <? Z.of_nat n))%Z eqn:E1.
  - split; [intros _; lia|eauto].
  - destruct ((- Z.of_nat n <=? i) && (i <? 0))%Z eqn:E2.
    + split; [intros _; lia|eauto].
    + split; [intros [j H]; discriminate|intros H; lia].
Qed.

Lemma has_A_K l : has_A (map K l) = false.
Proof. induction l; cbn; auto. Qed.
Lemma gap_after_K l : gap_after (map K l) = false.
Proof. induction l as [|x l IH]; cbn [map C03_TorchIndex.gap_after]; [reflexivity|]. now rewrite has_A_K, IH. Qed.
Lemma keeps_K l : keeps (map K l) = l.
Proof. induction l as [|x l IH]; cbn [map C03_TorchIndex.keeps]; [reflexivity|]. now rewrite IH. Qed.
Lemma adv_shapes_cons it idx : adv_shapes (it :: idx) = (match adv_shape it with Some s => [s] | None => [] end) ++ adv_shapes idx.
Proof. reflexivity. Qed.

Lemma slots_noadv idx : forall sh r,
  n_adv idx = 0 -> ix_shape idx sh = Some r ->
  slots (map to_c03 idx) sh = Some (map K r) /\ adv_shapes (map to_c03 idx) = [].
Proof.
  induction idx as [|it idx IH]; intros sh r Hn H; cbn [ix_shape] in H.
  - injection H as <-. now split.
  - rewrite n_adv_cons in Hn. destruct (length sh <? consumes it) eqn:El; [discriminate|]. apply Nat.ltb_ge in El.
    destruct (item_shape it (firstn (consumes it) sh)) as [o|] eqn:Eo; cbn [obind] in H; [|discriminate].
    destruct (ix_shape idx (skipn (consumes it) sh)) as [o'|] eqn:Eo'; cbn [obind] in H; [|discriminate]. injection H as <-.
    destruct it as [i|a b c| |tsh vals|msh bits]; cbn [is_adv] in Hn; try lia; cbn [consumes] in *;
      destruct (IH _ _ ltac:(lia) Eo') as [IH1 IH2]; cbn [map to_c03 C03_TorchIndex.slots]; rewrite adv_shapes_cons; cbn [C03_Index.adv_shape app].
    + destruct sh as [|n sh]; [cbn in El; lia|]. cbn [firstn skipn item_shape] in *.
      destruct (norm i n) as [j|] eqn:Ej; [|discriminate]. injection Eo as <-.
      rewrite (proj1 (norm_bounds i n) (ex_intro _ j Ej)). now split.
    + destruct sh as [|n sh]; [cbn in El; lia|]. cbn [firstn skipn item_shape] in *.
      fold (step_of c). destruct (step_of c <=? 0)%Z; [discriminate|]. injection Eo as <-.
      rewrite IH1. now split.
    + cbn [firstn skipn item_shape] in *. injection Eo as <-. rewrite IH1. now split.
Qed.

Lemma slots_oneadv idx : forall sh r,
  n_adv idx = 1 -> ix_shape idx sh = Some r ->
  exists sl Bs, slots (map to_c03 idx) sh = Some sl /\ adv_shapes (map to_c03 idx) = [Bs] /\
                has_A sl = true /\ adjacent sl = true /\ before_A sl ++ Bs ++ after_first_A sl = r.
Proof.
  induction idx as [|it idx IH]; intros sh r Hn H; cbn [ix_shape] in H; [discriminate|].
  rewrite n_adv_cons in Hn. destruct (length sh <? consumes it) eqn:El; [discriminate|]. apply Nat.ltb_ge in El.
  destruct (item_shape it (firstn (consumes it) sh)) as [o|] eqn:Eo; cbn [obind] in H; [|discriminate].
  destruct (ix_shape idx (skipn (consumes it) sh)) as [o'|] eqn:Eo'; cbn [obind] in H; [|discriminate]. injection H as <-.
  destruct it as [i|a b c| |tsh vals|msh bits]; cbn [is_adv consumes] in *; cbn [map to_c03 C03_TorchIndex.slots]; rewrite adv_shapes_cons; cbn [C03_Index.adv_shape app].
  - destruct (IH _ _ ltac:(lia) Eo') as (sl & Bs & S1 & S2 & S3 & S4 & S5).
    destruct sh as [|n sh]; [cbn in El; lia|]. cbn [firstn skipn item_shape] in *.
    destruct (norm i n) as [j|] eqn:Ej; [|discriminate]. injection Eo as <-.
    rewrite (proj1 (norm_bounds i n) (ex_intro _ j Ej)). exists sl, Bs. now repeat split.
  - destruct (IH _ _ ltac:(lia) Eo') as (sl & Bs & S1 & S2 & S3 & S4 & S5).
    destruct sh as [|n sh]; [cbn in El; lia|]. cbn [firstn skipn item_shape] in *.
    fold (step_of c). destruct (step_of c <=? 0)%Z; [discriminate|]. injection Eo as <-.
    rewrite S1. cbn [option_map]. eexists _, Bs. repeat split; eauto; cbn [C03_TorchIndex.has_A C03_TorchIndex.adjacent C03_TorchIndex.before_A C03_TorchIndex.after_first_A app]; try assumption.
    now rewrite <- S5.
  - destruct (IH _ _ ltac:(lia) Eo') as (sl & Bs & S1 & S2 & S3 & S4 & S5).
    cbn [firstn skipn item_shape] in *. injection Eo as <-.
    rewrite S1. cbn [option_map]. eexists _, Bs. repeat split; eauto; cbn [C03_TorchIndex.has_A C03_TorchIndex.adjacent C03_TorchIndex.before_A C03_TorchIndex.after_first_A app]; try assumption.
    now rewrite <- S5.
  - destruct (slots_noadv idx _ _ ltac:(lia) Eo') as [S1 S2].
    destruct sh as [|n sh]; [cbn in El; lia|]. cbn [firstn skipn item_shape] in *.
    destruct (Nat.eqb (length vals) (prod tsh) && vals_ok vals n && negb (Nat.eqb (length tsh) 0)); [|discriminate]. injection Eo as <-.
    rewrite S1, S2. cbn [option_map]. eexists _, tsh. repeat split; cbn [C03_TorchIndex.has_A C03_TorchIndex.adjacent C03_TorchIndex.before_A C03_TorchIndex.after_first_A app]; auto.
    + now rewrite gap_after_K.
    + now rewrite keeps_K.
  - destruct (slots_noadv idx _ _ ltac:(lia) Eo') as [S1 S2].
    cbn [item_shape] in Eo.
    destruct (C16_ObjArray.shape_eqb msh (firstn (length msh) sh) && Nat.eqb (length bits) (prod msh) && negb (Nat.eqb (length msh) 0)) eqn:E;
      [|discriminate]. injection Eo as <-.
    apply andb_true_iff in E as [E E3]. apply andb_true_iff in E as [E1 E2].
    change (C03_TorchIndex.shape_eqb msh (firstn (length msh) sh)) with (C16_ObjArray.shape_eqb msh (firstn (length msh) sh)).
    rewrite E1, E3. replace (Nat.leb (length msh) (length sh)) with true by (symmetry; now apply Nat.leb_le).
    cbn [andb]. rewrite S1, S2. cbn [option_map]. eexists _, [length (true_pos bits)].
    repeat split; cbn [C03_TorchIndex.has_A C03_TorchIndex.adjacent C03_TorchIndex.before_A C03_TorchIndex.after_first_A app]; auto.
    + now rewrite gap_after_K.
    + now rewrite keeps_K.
Qed.

Theorem gbs_of_spec idx sh r :
  n_adv idx <= 1 -> ix_shape idx sh = Some r -> gbs sh (map to_c03 idx) = C03_Index.Ok r.
Proof.
  intros Hn H. apply C03_IndexP.gbs_eq_torch_shape; [apply no_ell|].
  unfold C03_TorchIndex.torch_shape, C03_TorchIndex.expand_ell. rewrite filter_no_ell. cbn [length].
  destruct (n_adv idx) as [|[|k]] eqn:En; [| |lia].
  - destruct (slots_noadv idx sh r En H) as [S1 S2]. rewrite S1, S2. cbn [C03_Index.bcast_all]. unfold C03_TorchIndex.place.
    rewrite has_A_K. cbn [negb]. now rewrite keeps_K.
  - destruct (slots_oneadv idx sh r En H) as (sl & Bs & S1 & S2 & S3 & S4 & S5). rewrite S1, S2. cbn [C03_Index.bcast_all]. unfold C03_TorchIndex.place.
    rewrite S3, S4. cbn [negb]. now rewrite S5.
Qed.
End B.

(* ---------------- unfolding index *)
Lemma index_nil x : index x [] = Ok x.
Proof. destruct x; reflexivity. Qed.

Definition index_at (l ys : list nt) (s : sst) (at_ : option item) (post : list item) (nd : nat) : res nt :=
  let n := length l in
  match at_ with
  | None => Ok (Stack nd ys)
  | Some (IInt i) => match norm i n with Some j => of_opt (nth_error ys j) | None => Raised end
  | Some (ISl a b c) =>
      if (step_of c =? 0)%Z then Raised
      else if (step_of c <? 0)%Z then OutOfModel
      else match range_sel a b c n with
           | [] => Raised
           | sel => rbind (all_nth ys sel) (fun ms => Ok (Stack nd ms))
           end
  | Some (ITen tsh vals) =>
      if negb (Nat.eqb (length vals) (prod tsh)) then Raised
      else rbind (norm_all vals n) (fun js => rbind (all_nth ys js) (fun ms => nest_stack nd tsh ms))
  | Some (IMask msh bits) =>
      match msh with
      | [k] =>
          if Nat.eqb k n && Nat.eqb (length bits) n
          then match true_pos bits with
               | [] => OutOfModel
               | sel => rbind (all_nth ys sel) (fun ms => Ok (Stack nd ms))
               end
          else OutOfModel
      | _ => OutOfModel
      end
  | Some INone => OutOfModel
  end.

Lemma index_stack d l it idx :
  index (Stack d l) (it :: idx) =
  match split_at d (it :: idx) sst0 with
  | Raised => Raised
  | OutOfModel => OutOfModel
  | Ok (s, at_, post) =>
      rbind (rmap (fun m => index m (s_pre s ++ post)) l) (fun ys => index_at l ys s at_ post (new_stack_dim d s))
  end.
Proof.
  cbn [index]. destruct (split_at d (it :: idx) sst0) as [[[s at_] post]| |]; [|reflexivity|reflexivity].
  rewrite index_mp. reflexivity.
Qed.

(* ---------------- all_nth / range_sel / norm_all *)
Lemma all_nth_spec {A} (l : list A) : forall ks ms,
  all_nth l ks = Ok ms -> length ms = length ks /\ forall k j, nth_error ks k = Some j -> nth_error ms k = nth_error l j.
Proof.
  induction ks as [|j0 ks IH]; intros ms H; cbn [all_nth] in H.
  - injection H as <-. split; [reflexivity|]. intros k j E. now destruct k.
  - destruct (nth_error l j0) as [x|] eqn:Ex; [|discriminate].
    destruct (all_nth l ks) as [xs| |]; cbn [rbind] in H; try discriminate. injection H as <-.
    destruct (IH xs eq_refl) as [A1 A2]. split; [cbn; lia|]. intros k j E. destruct k; cbn [nth_error] in *.
    + injection E as <-. now rewrite Ex.
    + now apply A2.
Qed.
Lemma all_nth_in {A} (l : list A) : forall ks ms, all_nth l ks = Ok ms -> forall m, In m ms -> In m l.
Proof.
  induction ks as [|j0 ks IH]; intros ms H m Hm; cbn [all_nth] in H.
  - injection H as <-. contradiction.
  - destruct (nth_error l j0) as [x|] eqn:Ex; [|discriminate].
    destruct (all_nth l ks) as [xs| |]; cbn [rbind] in H; try discriminate. injection H as <-.
    destruct Hm as [<-|Hm]; [eapply nth_error_In; eauto|eapply IH; eauto].
Qed.

Lemma range_sel_nth a b c n k : k < sl_len a b c n -> nth_error (range_sel a b c n) k = Some (sl_nth a b c n k).
Proof.
  intros H. unfold range_sel. rewrite nth_error_map, nth_error_nth' with (d := 0) by (rewrite seq_length; lia).
  rewrite seq_nth by lia. reflexivity.
Qed.
Lemma range_sel_length a b c n : length (range_sel a b c n) = sl_len a b c n.
Proof. unfold range_sel. now rewrite map_length, seq_length. Qed.

Lemma norm_all_spec vals n : forall js,
  norm_all vals n = Ok js -> length js = length vals /\ forall k v, nth_error vals k = Some v -> exists j, norm v n = Some j /\ nth_error js k = Some j.
Proof.
  induction vals as [|v0 vals IH]; intros js H; cbn [norm_all] in H.
  - injection H as <-. split; [reflexivity|]. intros k v E. now destruct k.
  - destruct (norm v0 n) as [j0|] eqn:E0; [|discriminate].
    destruct (norm_all vals n) as [js'| |]; cbn [rbind] in H; try discriminate. injection H as <-.
    destruct (IH js' eq_refl) as [A1 A2]. split; [cbn; lia|]. intros k v E. destruct k; cbn [nth_error] in *.
    + injection E as <-. eauto.
    + now apply A2.
Qed.

(* ---------------- the spec, split around a coordinate inserted at d *)
Lemma ix_shape_around pre it post d n s r :
  d <= length s -> cons_n pre = d -> consumes it = 1 ->
  ix_shape (pre ++ it :: post) (insert_at d n s) = Some r ->
  exists o1 oa o2,
    ix_shape pre (firstn d s) = Some o1 /\ item_shape it [n] = Some oa /\ ix_shape post (skipn d s) = Some o2 /\
    r = o1 ++ oa ++ o2 /\ ix_shape (pre ++ post) s = Some (o1 ++ o2) /\ length o1 = prod_n pre.
Proof.
  intros Hd Hc Hi H. rewrite ix_shape_app, Hc, length_insert_at in H.
  replace (S (length s) <? d) with false in H by (symmetry; apply Nat.ltb_ge; lia).
  rewrite firstn_insert_at_le, skipn_insert_at_le, Nat.sub_diag, insert_at_0 in H by lia.
  destruct (ix_shape pre (firstn d s)) as [o1|] eqn:E1; cbn [obind] in H; [|discriminate].
  cbn [ix_shape] in H. rewrite Hi in H. cbn [length Nat.ltb Nat.leb firstn skipn] in H.
  destruct (item_shape it [n]) as [oa|] eqn:Ea; cbn [obind] in H; [|discriminate].
  destruct (ix_shape post (skipn d s)) as [o2|] eqn:E2; cbn [obind] in H; [|discriminate].
  injection H as <-. exists o1, oa, o2. repeat split; auto.
  - rewrite ix_shape_app, Hc. replace (length s <? d) with false by (symmetry; apply Nat.ltb_ge; lia).
    rewrite E1. cbn [obind]. now rewrite E2.
  - destruct (ix_shape_length _ _ _ E1) as [_ L]. rewrite firstn_length, Nat.min_l in L by lia. lia.
Qed.

Lemma ix_src_around pre it post d n s R I :
  d <= length s -> cons_n pre = d -> consumes it = 1 ->
  ix_src (pre ++ it :: post) (insert_at d n s) R = Some I ->
  let q := prod_n pre in
  exists s1 j s2,
    I = s1 ++ j :: s2 /\ length s1 = d /\ prod_n pre + produces it <= length R /\
    item_src it [n] (firstn (produces it) (skipn q R)) = Some [j] /\
    ix_src (pre ++ post) s (firstn q R ++ skipn (q + produces it) R) = Some (s1 ++ s2).
Proof.
  intros Hd Hc Hi H q. rewrite ix_src_app, Hc, length_insert_at in H.
  replace (S (length s) <? d) with false in H by (symmetry; apply Nat.ltb_ge; lia). cbn [orb] in H.
  destruct (length R <? prod_n pre) eqn:Eq; [discriminate|]. apply Nat.ltb_ge in Eq.
  rewrite firstn_insert_at_le, skipn_insert_at_le, Nat.sub_diag, insert_at_0 in H by lia.
  destruct (ix_src pre (firstn d s) (firstn (prod_n pre) R)) as [s1|] eqn:E1; cbn [obind] in H; [|discriminate].
  cbn [ix_src] in H. rewrite Hi in H. cbn [length firstn skipn] in H.
  replace (S (length (skipn d s)) <? 1) with false in H by (symmetry; apply Nat.ltb_ge; lia). cbn [orb] in H.
  destruct (length (skipn (prod_n pre) R) <? produces it) eqn:Ep; [discriminate|]. apply Nat.ltb_ge in Ep.
  rewrite skipn_length in Ep.
  destruct (item_src it [n] (firstn (produces it) (skipn (prod_n pre) R))) as [sa|] eqn:Ea; cbn [obind] in H; [|discriminate].
  destruct (ix_src post (skipn d s) (skipn (produces it) (skipn (prod_n pre) R))) as [s2|] eqn:E2; cbn [obind] in H; [|discriminate].
  injection H as <-.
  destruct (item_src_length _ _ _ _ Ea) as [_ La]. cbn [length] in La.
  destruct sa as [|j [|? ?]]; cbn [length] in La; try lia.
  destruct (ix_src_length _ _ _ _ E1) as (L1 & _ & _). rewrite firstn_length, Nat.min_l in L1 by lia.
  exists s1, j, s2. repeat split; auto; try lia.
  rewrite ix_src_app, Hc. fold q.
  replace (length s <? d) with false by (symmetry; apply Nat.ltb_ge; lia). cbn [orb].
  rewrite app_length, firstn_length, skipn_length, Nat.min_l by lia.
  replace (q + (length R - (q + produces it)) <? q) with false by (symmetry; apply Nat.ltb_ge; lia).
  assert (Lq : length (firstn q R) = q) by (rewrite firstn_length; lia).
  remember (firstn q R) as RA eqn:ERA. remember (skipn (q + produces it) R) as RB eqn:ERB.
  replace (firstn q (RA ++ RB)) with RA by (rewrite <- Lq at 1; now rewrite firstn_app_exact).
  replace (skipn q (RA ++ RB)) with RB by (rewrite <- Lq at 1; now rewrite skipn_app_exact).
  subst RA RB. fold q in E1. rewrite E1. cbn [obind].
  rewrite skipn_skipn_add in E2. fold q in E2. rewrite E2. reflexivity.
Qed.

Lemma denote_stack_at d l s1 j s2 :
  length s1 = d -> denote (Stack d l) (s1 ++ j :: s2) = match nth_error l j with Some m => denote m (s1 ++ s2) | None => None end.
Proof.
  intros L. rewrite denote_stack. replace d with (length s1 + 0) by lia.
  rewrite nth_error_app_r, remove_at_app_r. reflexivity.
Qed.

Lemma ix_shape_before pre d n s r :
  d <= length s -> cons_n pre <= d ->
  ix_shape pre (insert_at d n s) = Some r ->
  let c := cons_n pre in
  exists o1, r = o1 ++ insert_at (d - c) n (skipn c s) /\ ix_shape pre s = Some (o1 ++ skipn c s) /\ length o1 = prod_n pre.
Proof.
  intros Hd Hc H c. rewrite <- (app_nil_r pre) in H. rewrite ix_shape_app, length_insert_at in H. fold c in H.
  replace (S (length s) <? c) with false in H by (symmetry; apply Nat.ltb_ge; lia).
  rewrite firstn_insert_at_le, skipn_insert_at_le in H by lia.
  destruct (ix_shape pre (firstn c s)) as [o1|] eqn:E1; cbn [obind ix_shape] in H; [|discriminate].
  injection H as <-. exists o1. repeat split.
  - rewrite <- (app_nil_r pre) at 1. rewrite ix_shape_app. fold c.
    replace (length s <? c) with false by (symmetry; apply Nat.ltb_ge; lia). rewrite E1. reflexivity.
  - destruct (ix_shape_length _ _ _ E1) as [_ L]. rewrite firstn_length, Nat.min_l in L by lia. fold c in L. lia.
Qed.

Lemma list_split_at {A} (l : list A) q : q <= length l -> exists a b, l = a ++ b /\ length a = q.
Proof. intros H. exists (firstn q l), (skipn q l). split; [symmetry; apply firstn_skipn|rewrite firstn_length; lia]. Qed.

Lemma ix_src_before pre d n s R I :
  d <= length s -> cons_n pre <= d ->
  ix_src pre (insert_at d n s) R = Some I ->
  let c := cons_n pre in let q := prod_n pre in
  exists s1 j RA T, R = RA ++ T /\ length RA = q /\ length s1 = c /\ I = s1 ++ T /\ nth_error T (d - c) = Some j /\
    ix_src pre s (RA ++ remove_at (d - c) T) = Some (s1 ++ remove_at (d - c) T).
Proof.
  intros Hd Hc H c q. rewrite <- (app_nil_r pre) in H. rewrite ix_src_app, length_insert_at in H. fold c q in H.
  replace (S (length s) <? c) with false in H by (symmetry; apply Nat.ltb_ge; lia). cbn [orb] in H.
  destruct (length R <? q) eqn:Eq; [discriminate|]. apply Nat.ltb_ge in Eq.
  destruct (list_split_at R q Eq) as (RA & T & -> & Lq). clear Eq.
  rewrite firstn_insert_at_le, skipn_insert_at_le in H by lia.
  assert (F1 : firstn q (RA ++ T) = RA) by (rewrite <- Lq; apply firstn_app_exact).
  assert (F2 : skipn q (RA ++ T) = T) by (rewrite <- Lq; apply skipn_app_exact).
  rewrite F1, F2 in H.
  destruct (ix_src pre (firstn c s) RA) as [s1|] eqn:E1; cbn [obind ix_src] in H; [|discriminate].
  destruct (in_range (insert_at (d - c) n (skipn c s)) T) eqn:Er; cbn [obind] in H; [|discriminate].
  injection H as <-.
  rewrite in_range_insert in Er by (rewrite skipn_length; lia).
  destruct (nth_error T (d - c)) as [j|] eqn:Ej; [|discriminate]. apply andb_true_iff in Er as [_ Er].
  destruct (ix_src_length _ _ _ _ E1) as (L1 & _ & _). rewrite firstn_length, Nat.min_l in L1 by lia.
  exists s1, j, RA, T. repeat split; auto.
  rewrite <- (app_nil_r pre) at 1. rewrite ix_src_app. fold c q.
  rewrite app_length, Lq.
  replace ((length s <? c) || (q + length (remove_at (d - c) T) <? q)) with false
    by (symmetry; apply orb_false_iff; split; apply Nat.ltb_ge; lia).
  replace (firstn q (RA ++ remove_at (d - c) T)) with RA by (rewrite <- Lq; now rewrite firstn_app_exact).
  replace (skipn q (RA ++ remove_at (d - c) T)) with (remove_at (d - c) T) by (rewrite <- Lq; now rewrite skipn_app_exact).
  rewrite E1. cbn [obind ix_src]. rewrite Er. reflexivity.
Qed.

Lemma stack_of_members nd ms t :
  ms <> [] -> Forall (fun y => shape y = Some t /\ wf y = true) ms -> nd <= length t ->
  shape (Stack nd ms) = Some (insert_at nd (length ms) t) /\ wf (Stack nd ms) = true.
Proof.
  intros Hne Hall Hnd. destruct ms as [|m r]; [congruence|]. inversion Hall as [|? ? [Hm Hw] Hr]; subst. split.
  - now rewrite (shape_stack nd m r t Hm Hnd).
  - apply wf_stack. exists m, r, t. repeat split; auto.
    + constructor; [assumption|]. eapply Forall_impl; [|exact Hr]. now intros ? [_ ?].
    + constructor; [assumption|]. eapply Forall_impl; [|exact Hr]. now intros ? [? _].
Qed.

(* the members of a well-formed stack, indexed with the same sub-index *)
Lemma members_indexed l sub s t ys :
  Forall (fun m => forall idx sh r y, wf m = true -> shape m = Some sh -> n_adv idx <= 1 -> ix_shape idx sh = Some r ->
                    index m idx = Ok y ->
                    shape y = Some r /\ wf y = true /\ forall R I, ix_src idx sh R = Some I -> denote y R = denote m I) l ->
  Forall (fun y => wf y = true) l -> Forall (fun y => shape y = Some s) l ->
  n_adv sub <= 1 -> ix_shape sub s = Some t -> rmap (fun m => index m sub) l = Ok ys ->
  length ys = length l /\
  Forall (fun y => shape y = Some t /\ wf y = true) ys /\
  forall j m y, nth_error l j = Some m -> nth_error ys j = Some y ->
    forall R I, ix_src sub s R = Some I -> denote y R = denote m I.
Proof.
  intros IH Hw Hs Hn Ht E. split; [eapply rmap_ok_length; eauto|]. split.
  - apply Forall_forall. intros y Hy. apply In_nth_error in Hy as [k Hk].
    destruct (rmap_ok_nth_inv _ _ _ _ _ E Hk) as (m & Em & Hm).
    destruct (Forall_nth_error _ _ _ _ IH Em sub s t y (Forall_nth_error _ _ _ _ Hw Em) (Forall_nth_error _ _ _ _ Hs Em) Hn Ht Hm)
      as (A & B & _). now split.
  - intros j m y Em Ey R I Hsrc.
    destruct (rmap_ok_nth _ _ _ _ _ E Em) as (y' & Ey' & Hm). assert (y' = y) by congruence. subst y'.
    destruct (Forall_nth_error _ _ _ _ IH Em sub s t y (Forall_nth_error _ _ _ _ Hw Em) (Forall_nth_error _ _ _ _ Hs Em) Hn Ht Hm)
      as (_ & _ & C). now apply C.
Qed.

Lemma n_adv_sub pre it post : n_adv (pre ++ it :: post) <= 1 -> n_adv (pre ++ post) <= 1.
Proof. rewrite !n_adv_app, n_adv_cons. lia. Qed.

Lemma insert_at_len_app {A} (a b : list A) x : insert_at (length a) x (a ++ b) = a ++ x :: b.
Proof. replace (length a) with (length a + 0) by lia. now rewrite insert_at_app_r. Qed.

(* ---------------- nested stacks for an integer index tensor of any rank *)
Lemma chunks_length {A} k P : forall (l : list A), length (chunks k P l) = k.
Proof. induction k as [|k IH]; intros l; cbn [chunks length]; [reflexivity|]. now rewrite IH. Qed.
Lemma chunks_nth {A} k P : forall (l : list A) a, a < k -> nth_error (chunks k P l) a = Some (firstn P (skipn (a * P) l)).
Proof.
  induction k as [|k IH]; intros l a Ha; [lia|]. cbn [chunks]. destruct a as [|a]; cbn [nth_error]; [reflexivity|].
  rewrite IH by lia. cbn [Nat.mul]. now rewrite skipn_skipn_add.
Qed.
Lemma nth_error_firstn_lt {A} (l : list A) : forall P b, b < P -> nth_error (firstn P l) b = nth_error l b.
Proof.
  induction l as [|x l IH]; intros P b Hb; [now rewrite firstn_nil|].
  destruct P as [|P]; [lia|]. destruct b as [|b]; cbn [firstn nth_error]; [reflexivity|apply IH; lia].
Qed.
Lemma nth_firstn_skipn {A} (l : list A) P o b : b < P -> nth_error (firstn P (skipn o l)) b = nth_error l (o + b).
Proof.
  intros Hb. rewrite nth_error_firstn_lt by assumption. clear Hb. revert l. induction o as [|o IH]; intros l; [reflexivity|].
  destruct l as [|x l]; cbn [skipn Nat.add nth_error]; [now destruct b|apply IH].
Qed.
Lemma ravel_lt sh : forall r, in_range sh r = true -> ravel sh r < prod sh.
Proof.
  induction sh as [|n sh IH]; intros [|x r]; cbn [in_range ravel]; try discriminate; [cbn; lia|].
  intros H. apply andb_true_iff in H as [Hx Hr]. apply Nat.ltb_lt in Hx. specialize (IH r Hr). rewrite prod_cons. nia.
Qed.

Lemma In_firstn_skipn {A} (l : list A) P o x : In x (firstn P (skipn o l)) -> In x l.
Proof.
  intros H. apply In_nth_error in H as [b Hb].
  assert (b < P).
  { destruct (Nat.lt_ge_cases b P); [assumption|].
    assert (nth_error (firstn P (skipn o l)) b = None) by (apply nth_error_None; rewrite firstn_length; lia). congruence. }
  rewrite nth_firstn_skipn in Hb by assumption. eapply nth_error_In; eauto.
Qed.

Lemma nest_stack_spec q t : forall tsh items y,
  Forall (fun m => shape m = Some t /\ wf m = true) items -> q <= length t -> length items = prod tsh ->
  nest_stack q tsh items = Ok y ->
  shape y = Some (firstn q t ++ tsh ++ skipn q t) /\ wf y = true /\
  forall RA RM RB, length RA = q -> in_range tsh RM = true ->
    denote y (RA ++ RM ++ RB) = match nth_error items (ravel tsh RM) with Some m => denote m (RA ++ RB) | None => None end.
Proof.
  induction tsh as [|k rest IH]; intros items y Hall Hq Hlen H; [discriminate|].
  destruct rest as [|k2 rest'].
  - (* one level *)
    cbn [nest_stack] in H. destruct items as [|m0 items']; [discriminate|]. injection H as <-.
    destruct (stack_of_members q (m0 :: items') t ltac:(discriminate) Hall Hq) as [S W].
    split; [|split; [exact W|]].
    + rewrite S, Hlen. cbn [prod fold_right]. rewrite Nat.mul_1_r. reflexivity.
    + intros RA RM RB LA Hr. destruct RM as [|a [|? ?]]; cbn [in_range] in Hr; try discriminate;
        [|rewrite andb_false_r in Hr; discriminate].
      cbn [app ravel prod fold_right]. rewrite Nat.mul_1_r, Nat.add_0_r. now apply denote_stack_at.
  - (* several levels *)
    remember (k2 :: rest') as rest eqn:Erest.
    assert (Hn : nest_stack q (k :: rest) items =
                 match k with 0 => Raised | _ => rbind (rmap (nest_stack q rest) (chunks k (prod rest) items)) (fun ms => Ok (Stack q ms)) end).
    { subst rest. reflexivity. }
    rewrite Hn in H. clear Hn. destruct k as [|k]; [discriminate|].
    destruct (rmap (nest_stack q rest) (chunks (S k) (prod rest) items)) as [ms| |] eqn:E; cbn [rbind] in H; try discriminate.
    injection H as <-. rewrite prod_cons in Hlen.
    set (P := prod rest) in *. set (t' := firstn q t ++ rest ++ skipn q t).
    assert (Hq' : q <= length t') by (unfold t'; rewrite app_length, firstn_length; lia).
    assert (Hms : forall a, a < S k -> exists y, nth_error ms a = Some y /\
              shape y = Some t' /\ wf y = true /\
              forall RA RM RB, length RA = q -> in_range rest RM = true ->
                denote y (RA ++ RM ++ RB) =
                match nth_error (firstn P (skipn (a * P) items)) (ravel rest RM) with Some m => denote m (RA ++ RB) | None => None end).
    { intros a Ha. pose proof (chunks_nth (S k) P items a Ha) as Ec.
      destruct (rmap_ok_nth _ _ _ _ _ E Ec) as (ya & Eya & Hya). exists ya. split; [assumption|].
      apply (IH (firstn P (skipn (a * P) items)) ya); auto.
      - apply Forall_forall. intros m Hm. rewrite Forall_forall in Hall. apply Hall.
        eapply In_firstn_skipn; eauto.
      - rewrite firstn_length, skipn_length. fold P. nia. }
    assert (Lms : length ms = S k) by (rewrite (rmap_ok_length _ _ _ E); apply chunks_length).
    assert (Hall' : Forall (fun y => shape y = Some t' /\ wf y = true) ms).
    { apply Forall_forall. intros y Hy. apply In_nth_error in Hy as [a Ea].
      assert (a < S k) by (rewrite <- Lms; apply nth_error_Some; congruence).
      destruct (Hms a H) as (y' & Ey' & A & B & _). assert (y' = y) by congruence. subst. now split. }
    destruct (stack_of_members q ms t' ltac:(intros ->; discriminate) Hall' Hq') as [S W].
    split; [|split; [exact W|]].
    + rewrite S, Lms. unfold t'. assert (Lf : length (firstn q t) = q) by (rewrite firstn_length; lia).
      rewrite <- Lf at 1. rewrite insert_at_len_app. reflexivity.
    + intros RA RM RB LA Hr. destruct RM as [|a RM']; cbn [in_range] in Hr; [discriminate|].
      apply andb_true_iff in Hr as [Ha Hr]. apply Nat.ltb_lt in Ha.
      cbn [app]. rewrite denote_stack_at by assumption.
      destruct (Hms a Ha) as (ya & Eya & _ & _ & Hd). rewrite Eya, Hd by assumption.
      cbn [ravel]. fold P. rewrite nth_firstn_skipn by (apply ravel_lt; assumption). reflexivity.
Qed.

Lemma remove_at_app_ge {A} (a b : list A) k : length a <= k -> remove_at k (a ++ b) = a ++ remove_at (k - length a) b.
Proof. intros H. rewrite <- (remove_at_app_r a b (k - length a)). f_equal. lia. Qed.
Lemma nth_error_app_ge {A} (a b : list A) k : length a <= k -> nth_error (a ++ b) k = nth_error b (k - length a).
Proof. intros H. now rewrite nth_error_app2 by lia. Qed.

Lemma list_split3 {A} (R : list A) q p : q + p <= length R -> R = firstn q R ++ firstn p (skipn q R) ++ skipn (q + p) R.
Proof. intros H. rewrite <- skipn_skipn_add, firstn_skipn, firstn_skipn. reflexivity. Qed.

Lemma rmap_index_nil l : rmap (fun m => index m []) l = Ok l.
Proof. induction l as [|m l IH]; cbn [rmap]; [reflexivity|]. rewrite index_nil, IH. reflexivity. Qed.

(* ---------------- index_denote *)
Theorem index_denote x : forall idx sh r y,
  wf x = true -> shape x = Some sh -> n_adv idx <= 1 -> ix_shape idx sh = Some r -> index x idx = Ok y ->
  shape y = Some r /\ wf y = true /\ forall R I, ix_src idx sh R = Some I -> denote y R = denote x I.
Proof.
  induction x as [p sh0|d l IH] using nt_ind'; intros idx sh r y Hw Hsh Hn Hr H.
  - (* NonTensorData *)
    cbn [shape] in Hsh. injection Hsh as <-. destruct idx as [|it idx].
    + rewrite index_nil in H. injection H as <-. cbn [ix_shape] in Hr. injection Hr as <-.
      repeat split; auto. intros R I HI. cbn [ix_src] in HI. destruct (in_range sh0 R); [now injection HI as <-|discriminate].
    + cbn [index] in H. rewrite (B.gbs_of_spec _ _ _ Hn Hr) in H. injection H as <-.
      repeat split; auto. intros R I HI. cbn [denote].
      rewrite (ix_src_result_range _ _ _ _ _ Hr HI). destruct (ix_src_length _ _ _ _ HI) as (_ & _ & E). now rewrite E.
  - (* NonTensorStack *)
    destruct idx as [|it0 idx0].
    { rewrite index_nil in H. injection H as <-. cbn [ix_shape] in Hr. injection Hr as <-.
      repeat split; auto. intros R I HI. cbn [ix_src] in HI. destruct (in_range sh R); [now injection HI as <-|discriminate]. }
    pose proof Hw as Hw0. apply wf_stack in Hw as (m0 & r0 & s & El & Hwf & Hss & Hd).
    assert (Hshape : sh = insert_at d (length l) s).
    { subst l. inversion Hss; subst. rewrite (shape_stack d m0 r0 s) in Hsh by assumption. now injection Hsh as <-. }
    rewrite index_stack in H.
    destruct (split_at d (it0 :: idx0) sst0) as [[[st at_] post]| |] eqn:Esp; try discriminate.
    destruct (split_at_top _ _ _ _ _ Hn Esp) as (Eidx & Hc & Hnd & Hat).
    destruct (rmap (fun m => index m (s_pre st ++ post)) l) as [ys| |] eqn:Eys; cbn [rbind] in H; try discriminate.
    remember (s_pre st) as pre eqn:Epre. remember (length l) as n eqn:En.
    rewrite Eidx in Hr, Hn |- *. clear Eidx Esp it0 idx0. subst sh.
    destruct at_ as [it|].
    + destruct Hat as [Hcd Hnn]. assert (Hq : new_stack_dim d st = prod_n pre) by lia. rewrite Hq in H. clear Hnd Hq.
      assert (Hci : consumes it = 1 \/ exists msh bits, it = IMask msh bits /\ length msh <> 1).
      { destruct it as [i|a b c| |tsh vals|msh bits]; cbn; auto; try congruence. destruct (Nat.eq_dec (length msh) 1); eauto. }
      destruct Hci as [Hci|(msh & bits & -> & Hm1)].
      2:{ (* a mask of another rank on the stack dim is not in the model *)
          cbn [index_at] in H. destruct msh as [|k [|? ?]]; try discriminate. now cbn in Hm1. }
      destruct (ix_shape_around pre it post d n s r Hd Hcd Hci Hr) as (o1 & oa & o2 & E1 & Ea & E2 & -> & Esub & Lo1).
      destruct (members_indexed l (pre ++ post) s (o1 ++ o2) ys IH Hwf Hss (n_adv_sub _ _ _ Hn) Esub Eys) as (Lys & Hallys & Hden).
      assert (Hsrc : forall R I, ix_src (pre ++ it :: post) (insert_at d n s) R = Some I ->
                exists s1 j s2, I = s1 ++ j :: s2 /\ length s1 = d /\
                  R = firstn (prod_n pre) R ++ firstn (produces it) (skipn (prod_n pre) R) ++ skipn (prod_n pre + produces it) R /\
                  length (firstn (prod_n pre) R) = prod_n pre /\
                  item_src it [n] (firstn (produces it) (skipn (prod_n pre) R)) = Some [j] /\
                  ix_src (pre ++ post) s (firstn (prod_n pre) R ++ skipn (prod_n pre + produces it) R) = Some (s1 ++ s2)).
      { intros R I HI. destruct (ix_src_around pre it post d n s R I Hd Hcd Hci HI) as (s1 & j & s2 & A1 & A2 & A3 & A4 & A5).
        exists s1, j, s2. repeat split; auto; [apply list_split3; lia|rewrite firstn_length; lia]. }
      destruct it as [i|a b c| |tsh vals|msh bits]; [| | congruence | |];
        cbn [index_at] in H; rewrite <- En in H.
      * (* int *)
        cbn [item_shape] in Ea. destruct (norm i n) as [j0|] eqn:Ej0; [|discriminate]. injection Ea as <-.
        destruct (nth_error ys j0) as [y0|] eqn:Ey0; cbn [of_opt] in H; [|discriminate]. injection H as <-.
        pose proof (Forall_nth_error _ _ _ _ Hallys Ey0) as [Sy Wy]. cbn [app]. split; [exact Sy|split; [exact Wy|]].
        intros R I HI. destruct (Hsrc R I HI) as (s1 & j & s2 & -> & L1 & ER & LA & Ei & Es).
        cbn [produces firstn item_src] in Ei. rewrite Ej0 in Ei. cbn [option_map] in Ei. injection Ei as <-.
        rewrite denote_stack_at by assumption.
        cbn [produces firstn app] in ER. rewrite Nat.add_0_r in ER, Es. rewrite <- ER in Es.
        destruct (nth_error l j0) as [m|] eqn:Em.
        -- eapply Hden; eauto.
        -- apply nth_error_None in Em. assert (j0 < length ys) by (apply nth_error_Some; congruence). lia.
      * (* slice *)
        cbn [item_shape] in Ea. destruct (step_of c <=? 0)%Z eqn:Ec; [discriminate|]. injection Ea as <-.
        replace (step_of c =? 0)%Z with false in H by lia. replace (step_of c <? 0)%Z with false in H by lia.
        destruct (range_sel a b c n) as [|j0 sel'] eqn:Esel; [discriminate|]. rewrite <- Esel in H.
        destruct (all_nth ys (range_sel a b c n)) as [ms| |] eqn:Ems; cbn [rbind] in H; try discriminate. injection H as <-.
        destruct (all_nth_spec _ _ _ Ems) as [Lms Hms]. rewrite range_sel_length in Lms.
        assert (Hall : Forall (fun y => shape y = Some (o1 ++ o2) /\ wf y = true) ms).
        { apply Forall_forall. intros y Hy. pose proof (all_nth_in _ _ _ Ems y Hy) as Hin. rewrite Forall_forall in Hallys. auto. }
        assert (Hne : ms <> []). { intros ->. cbn in Lms. pose proof (range_sel_length a b c n). rewrite Esel in H. cbn in H. lia. }
        destruct (stack_of_members (prod_n pre) ms (o1 ++ o2) Hne Hall ltac:(rewrite app_length; lia)) as [S W].
        split; [|split; [exact W|]].
        -- rewrite S, Lms, <- Lo1, insert_at_len_app. reflexivity.
        -- intros R I HI. destruct (Hsrc R I HI) as (s1 & j & s2 & -> & L1 & ER & LA & Ei & Es).
           cbn [produces] in *. remember (firstn (prod_n pre) R) as RA. remember (skipn (prod_n pre + 1) R) as RB.
           destruct (firstn 1 (skipn (prod_n pre) R)) as [|k [|? ?]] eqn:EM; cbn [item_src] in Ei; try discriminate.
           rewrite Ec in Ei. destruct (k <? sl_len a b c n) eqn:Ek; [|discriminate]. injection Ei as <-. apply Nat.ltb_lt in Ek.
           rewrite ER. cbn [app]. rewrite !denote_stack_at by assumption.
           rewrite (Hms k _ (range_sel_nth a b c n k Ek)).
           destruct (nth_error l (sl_nth a b c n k)) as [m|] eqn:Em.
           ++ destruct (nth_error ys (sl_nth a b c n k)) as [y0|] eqn:Ey0.
              ** eapply Hden; eauto.
              ** apply nth_error_None in Ey0. assert (sl_nth a b c n k < length l) by (apply nth_error_Some; congruence). lia.
           ++ apply nth_error_None in Em. destruct (nth_error ys (sl_nth a b c n k)) eqn:Ey0; [|reflexivity].
              assert (sl_nth a b c n k < length ys) by (apply nth_error_Some; congruence). lia.
      * (* integer tensor *)
        cbn [item_shape] in Ea.
        destruct (Nat.eqb (length vals) (prod tsh) && vals_ok vals n && negb (Nat.eqb (length tsh) 0)) eqn:Ev; [|discriminate].
        injection Ea as <-. apply andb_true_iff in Ev as [Ev _]. apply andb_true_iff in Ev as [Ev _]. apply Nat.eqb_eq in Ev.
        replace (Nat.eqb (length vals) (prod tsh)) with true in H by (symmetry; now apply Nat.eqb_eq). cbn [negb] in H.
        destruct (norm_all vals n) as [js| |] eqn:Ejs; cbn [rbind] in H; try discriminate.
        destruct (all_nth ys js) as [ms| |] eqn:Ems; cbn [rbind] in H; try discriminate.
        destruct (all_nth_spec _ _ _ Ems) as [Lms Hms]. destruct (norm_all_spec _ _ _ Ejs) as [Ljs Hjs].
        assert (Hall : Forall (fun y => shape y = Some (o1 ++ o2) /\ wf y = true) ms).
        { apply Forall_forall. intros y1 Hy. pose proof (all_nth_in _ _ _ Ems y1 Hy) as Hin. rewrite Forall_forall in Hallys. auto. }
        destruct (nest_stack_spec (prod_n pre) (o1 ++ o2) tsh ms y Hall ltac:(rewrite app_length; lia) ltac:(lia) H) as (S & W & Dn).
        split; [|split; [exact W|]].
        -- rewrite S, <- Lo1, firstn_app_exact, skipn_app_exact. reflexivity.
        -- intros R I HI. destruct (Hsrc R I HI) as (s1 & j & s2 & -> & L1 & ER & LA & Ei & Es).
           cbn [produces] in *. remember (firstn (prod_n pre) R) as RA. remember (skipn (prod_n pre + length tsh) R) as RB.
           remember (firstn (length tsh) (skipn (prod_n pre) R)) as RM.
           cbn [item_src] in Ei.
           destruct (Nat.eqb (length vals) (prod tsh) && vals_ok vals n && negb (Nat.eqb (length tsh) 0) && in_range tsh RM) eqn:Ev2; [|discriminate].
           apply andb_true_iff in Ev2 as [_ Erm].
           destruct (nth_error vals (ravel tsh RM)) as [v|] eqn:Evv; [|discriminate].
           destruct (norm v n) as [jj|] eqn:Ejj; cbn [option_map] in Ei; [|discriminate]. injection Ei as <-.
           rewrite ER, (Dn RA RM RB LA Erm), denote_stack_at by assumption.
           destruct (Hjs _ _ Evv) as (j' & Ej' & Ejs'). assert (j' = jj) by congruence. subst j'.
           rewrite (Hms _ _ Ejs').
           destruct (nth_error l jj) as [m|] eqn:Em.
           ++ destruct (nth_error ys jj) as [y0|] eqn:Ey0.
              ** eapply Hden; eauto.
              ** apply nth_error_None in Ey0. assert (jj < length l) by (apply nth_error_Some; congruence). lia.
           ++ apply nth_error_None in Em. destruct (nth_error ys jj) eqn:Ey0; [|reflexivity].
              assert (jj < length ys) by (apply nth_error_Some; congruence). lia.
      * (* a 1-d mask on the stack dim *)
        destruct msh as [|k [|? ?]]; cbn [consumes length] in Hci; try discriminate.
        cbn [item_shape] in Ea.
        destruct (shape_eqb [k] [n] && Nat.eqb (length bits) (prod [k]) && negb (Nat.eqb (length [k]) 0)) eqn:Ev; [|discriminate].
        injection Ea as <-.
        destruct (Nat.eqb k n && Nat.eqb (length bits) n); [|discriminate].
        destruct (true_pos bits) as [|p0 sel'] eqn:Etp; [discriminate|]. rewrite <- Etp in H |- *.
        destruct (all_nth ys (true_pos bits)) as [ms| |] eqn:Ems; cbn [rbind] in H; try discriminate. injection H as <-.
        destruct (all_nth_spec _ _ _ Ems) as [Lms Hms].
        assert (Hall : Forall (fun y => shape y = Some (o1 ++ o2) /\ wf y = true) ms).
        { apply Forall_forall. intros y Hy. pose proof (all_nth_in _ _ _ Ems y Hy) as Hin. rewrite Forall_forall in Hallys. auto. }
        assert (Hne : ms <> []). { intros ->. cbn in Lms. rewrite Etp in Lms. discriminate. }
        destruct (stack_of_members (prod_n pre) ms (o1 ++ o2) Hne Hall ltac:(rewrite app_length; lia)) as [S W].
        split; [|split; [exact W|]].
        -- rewrite S, Lms, <- Lo1, insert_at_len_app. reflexivity.
        -- intros R I HI. destruct (Hsrc R I HI) as (s1 & j & s2 & -> & L1 & ER & LA & Ei & Es).
           cbn [produces] in *. remember (firstn (prod_n pre) R) as RA. remember (skipn (prod_n pre + 1) R) as RB.
           destruct (firstn 1 (skipn (prod_n pre) R)) as [|k' [|? ?]] eqn:EM; cbn [item_src] in Ei; rewrite Ev in Ei; try discriminate.
           destruct (nth_error (true_pos bits) k') as [pp|] eqn:Epp; cbn [option_map] in Ei; [|discriminate].
           cbn [unravel prod fold_right] in Ei. rewrite Nat.div_1_r in Ei. injection Ei as <-.
           rewrite ER. cbn [app]. rewrite !denote_stack_at by assumption.
           rewrite (Hms k' _ Epp).
           destruct (nth_error l pp) as [m|] eqn:Em.
           ++ destruct (nth_error ys pp) as [y0|] eqn:Ey0.
              ** eapply Hden; eauto.
              ** apply nth_error_None in Ey0. assert (pp < length l) by (apply nth_error_Some; congruence). lia.
           ++ apply nth_error_None in Em. destruct (nth_error ys pp) eqn:Ey0; [|reflexivity].
              assert (pp < length ys) by (apply nth_error_Some; congruence). lia.
    + (* the index ends before the stack dim *)
      subst post. rewrite app_nil_r in *. cbn [index_at] in H. injection H as <-.
      destruct (ix_shape_before pre d n s r Hd Hc Hr) as (o1 & -> & Esub & Lo1).
      destruct (members_indexed l pre s (o1 ++ skipn (cons_n pre) s) ys IH Hwf Hss Hn Esub Eys) as (Lys & Hallys & Hden).
      assert (Hne : ys <> []). { intros ->. subst l. cbn in Lys. lia. }
      destruct (stack_of_members (new_stack_dim d st) ys (o1 ++ skipn (cons_n pre) s) Hne Hallys
                  ltac:(rewrite app_length, skipn_length; lia)) as [S W].
      split; [|split; [exact W|]].
      * rewrite S, Lys, <- En, Hnd. replace (d - cons_n pre + prod_n pre) with (length o1 + (d - cons_n pre)) by lia.
        now rewrite insert_at_app_r.
      * intros R I HI.
        destruct (ix_src_before pre d n s R I Hd Hc HI) as (s1 & j & RA & T & -> & LA & L1 & -> & Ej & Es).
        rewrite Hnd. replace (d - cons_n pre + prod_n pre) with (length RA + (d - cons_n pre)) by lia.
        rewrite !denote_stack, nth_error_app_r, remove_at_app_r, Ej.
        rewrite nth_error_app_ge, remove_at_app_ge, L1, Ej by lia.
        destruct (nth_error l j) as [m|] eqn:Em.
        -- destruct (nth_error ys j) as [y0|] eqn:Ey0.
           ++ eapply Hden; eauto.
           ++ apply nth_error_None in Ey0. assert (j < length l) by (apply nth_error_Some; congruence). lia.
        -- apply nth_error_None in Em. destruct (nth_error ys j) eqn:Ey0; [|reflexivity].
           assert (j < length ys) by (apply nth_error_Some; congruence). lia.
Qed.

(* ---------------- the converse direction: building a source position of the stacked array from one of a member *)
Lemma ix_src_around_inv pre it post d n s RA RM RB j Im :
  d <= length s -> cons_n pre = d -> consumes it = 1 ->
  length RA = prod_n pre -> length RM = produces it ->
  item_src it [n] RM = Some [j] ->
  ix_src (pre ++ post) s (RA ++ RB) = Some Im ->
  ix_src (pre ++ it :: post) (insert_at d n s) (RA ++ RM ++ RB) = Some (insert_at d j Im).
Proof.
  intros Hd Hc Hi LA LM Ei Es.
  rewrite ix_src_app, Hc in Es. replace (length s <? d) with false in Es by (symmetry; apply Nat.ltb_ge; lia). cbn [orb] in Es.
  rewrite app_length, LA in Es. replace (prod_n pre + length RB <? prod_n pre) with false in Es by (symmetry; apply Nat.ltb_ge; lia).
  replace (firstn (prod_n pre) (RA ++ RB)) with RA in Es by (rewrite <- LA; now rewrite firstn_app_exact).
  replace (skipn (prod_n pre) (RA ++ RB)) with RB in Es by (rewrite <- LA; now rewrite skipn_app_exact).
  destruct (ix_src pre (firstn d s) RA) as [s1|] eqn:E1; cbn [obind] in Es; [|discriminate].
  destruct (ix_src post (skipn d s) RB) as [s2|] eqn:E2; cbn [obind] in Es; [|discriminate]. injection Es as <-.
  destruct (ix_src_length _ _ _ _ E1) as (L1 & _ & _). rewrite firstn_length, Nat.min_l in L1 by lia.
  rewrite ix_src_app, Hc, length_insert_at.
  replace (S (length s) <? d) with false by (symmetry; apply Nat.ltb_ge; lia). cbn [orb].
  rewrite !app_length, LA. replace (prod_n pre + (length RM + length RB) <? prod_n pre) with false by (symmetry; apply Nat.ltb_ge; lia).
  rewrite firstn_insert_at_le, skipn_insert_at_le, Nat.sub_diag, insert_at_0 by lia.
  replace (firstn (prod_n pre) (RA ++ RM ++ RB)) with RA by (rewrite <- LA; now rewrite firstn_app_exact).
  replace (skipn (prod_n pre) (RA ++ RM ++ RB)) with (RM ++ RB) by (rewrite <- LA; now rewrite skipn_app_exact).
  rewrite E1. cbn [obind ix_src]. rewrite Hi. cbn [length firstn skipn].
  replace (S (length (skipn d s)) <? 1) with false by (symmetry; apply Nat.ltb_ge; lia). cbn [orb].
  rewrite app_length. replace (length RM + length RB <? produces it) with false by (symmetry; apply Nat.ltb_ge; lia).
  rewrite <- LM, firstn_app_exact, skipn_app_exact, Ei. cbn [obind]. rewrite E2. cbn [obind].
  f_equal. rewrite <- L1. now rewrite insert_at_len_app.
Qed.

Lemma insert_at_app_ge {A} (a b : list A) k (x : A) : length a <= k -> insert_at k x (a ++ b) = a ++ insert_at (k - length a) x b.
Proof. intros H. rewrite <- (insert_at_app_r a b (k - length a) x). f_equal. lia. Qed.

Lemma ix_src_before_inv pre d n s Rm Im j :
  d <= length s -> cons_n pre <= d -> j < n ->
  ix_src pre s Rm = Some Im ->
  let c := cons_n pre in let q := prod_n pre in
  ix_src pre (insert_at d n s) (insert_at (q + (d - c)) j Rm) = Some (insert_at d j Im).
Proof.
  intros Hd Hc Hj Es c q.
  rewrite <- (app_nil_r pre) in Es. rewrite ix_src_app in Es. fold c q in Es.
  destruct ((length s <? c) || (length Rm <? q)) eqn:E0; [discriminate|]. apply orb_false_iff in E0 as [_ Eq]. apply Nat.ltb_ge in Eq.
  destruct (list_split_at Rm q Eq) as (RA & T & -> & LA).
  replace (firstn q (RA ++ T)) with RA in Es by (rewrite <- LA; now rewrite firstn_app_exact).
  replace (skipn q (RA ++ T)) with T in Es by (rewrite <- LA; now rewrite skipn_app_exact).
  destruct (ix_src pre (firstn c s) RA) as [s1|] eqn:E1; cbn [obind ix_src] in Es; [|discriminate].
  destruct (in_range (skipn c s) T) eqn:Er; cbn [obind] in Es; [|discriminate]. injection Es as <-.
  destruct (ix_src_length _ _ _ _ E1) as (L1 & _ & _). rewrite firstn_length, Nat.min_l in L1 by lia.
  pose proof (in_range_length _ _ Er) as LT. rewrite skipn_length in LT.
  rewrite insert_at_app_ge by lia. rewrite LA. replace (q + (d - c) - q) with (d - c) by lia.
  rewrite <- (app_nil_r pre) at 1. rewrite ix_src_app, length_insert_at. fold c q.
  rewrite app_length, LA.
  replace ((S (length s) <? c) || (q + length (insert_at (d - c) j T) <? q)) with false
    by (symmetry; apply orb_false_iff; split; apply Nat.ltb_ge; lia).
  rewrite firstn_insert_at_le, skipn_insert_at_le by lia.
  replace (firstn q (RA ++ insert_at (d - c) j T)) with RA by (rewrite <- LA; now rewrite firstn_app_exact).
  replace (skipn q (RA ++ insert_at (d - c) j T)) with (insert_at (d - c) j T) by (rewrite <- LA; now rewrite skipn_app_exact).
  rewrite E1. cbn [obind ix_src].
  rewrite in_range_insert by (rewrite skipn_length; lia).
  rewrite nth_error_insert_at, remove_insert_at by lia.
  replace (j <? n) with true by (symmetry; now apply Nat.ltb_lt). cbn [andb]. rewrite Er. cbn [obind].
  f_equal. rewrite insert_at_app_ge by lia. now rewrite L1.
Qed.
