(* C20 — lazy stacks: member i of the result is the reference on member i with the i-th slices of the other operands along
   self's stack dim; refusals; apply_. *)
From Coq Require Import ZArith List String Bool Lia Arith.
Import ListNotations.
From TD Require Import Model.C20_Apply Model.C20_Sched Model.C20_Spec Model.C20_Lazy
     Proofs.C20_EraseP Proofs.C20_SpecP.
Open Scope string_scope.

Ltac inv H := inversion H; subst; clear H.

Lemma bind_okL {X Y} (r : res X) (f : X -> res Y) y : bind r f = Ok y -> exists x, r = Ok x /\ f x = Ok y.
Proof. destruct r; cbn [bind]; [eauto|discriminate|discriminate]. Qed.

(* ------------------------------------------------------------------ the per-member dispatch, position by position *)
Section Members.
Variable A : Type.
Variable o : opts.
Variable fn : option (list string) -> tree A -> list (option (tree A)) -> option A.
Notation tree := (tree A).

(* the i-th column of the unbound operands *)
Definition col (i : nat) (ls : list (list tree)) (c : list tree) : Prop :=
  Forall2 (fun l x => nth_error l i = Some x) ls c.
Definition out_at (out : option (list tree)) (i : nat) : option tree :=
  match out with Some l => nth_error l i | None => None end.

Lemma heads_col : forall ls h, heads A ls = Some h -> col 0 ls h.
Proof.
  induction ls as [|l r IH]; intros h H; cbn [heads] in H.
  - inv H. constructor.
  - destruct l as [|x l']; [discriminate|]. destruct (heads A r) as [h'|]; [|discriminate]. inv H.
    constructor; [reflexivity|]. now apply IH.
Qed.

Lemma col_tl : forall ls c i, col i (map (@tl tree) ls) c -> col (S i) ls c.
Proof.
  induction ls as [|l r IH]; intros c i H; cbn [map] in H; inv H.
  - constructor.
  - constructor; [|now apply IH]. destruct l; cbn [tl] in *; [now destruct i|assumption].
Qed.

Lemma apply_nest_fe_false con prefix so sm sf oth out names r :
  o_fe o = Some false -> apply_nest A o fn con prefix so sm sf oth out names = Ok r -> r <> None.
Proof.
  intros Hfe H. unfold apply_nest in H.
  apply bind_okL in H. destruct H as (init & _ & H). apply bind_okL in H. destruct H as (ra & _ & H).
  inv H. unfold level_finish. rewrite Hfe. discriminate.
Qed.

Lemma lazy_members_nth : forall members others out con prefix rs,
  lazy_members A o fn con prefix members others out = Ok rs ->
  List.length rs = List.length members /\
  forall i m r, nth_error rs i = Some (m, r) ->
    nth_error members i = Some m /\
    exists so sm sf oth, m = Node so sm sf /\ col i others oth
      /\ (forall l, out = Some l -> nth_error l i <> None)
      /\ apply_nest A o fn con prefix so sm sf oth (out_at out i) None = Ok r.
Proof.
  induction members as [|m ms IH]; intros others out con prefix rs H; cbn [lazy_members] in H.
  - destruct (forallb (@nil_b tree) others); [|discriminate]. inv H. split; [reflexivity|].
    intros i m r Hi. destruct i; discriminate.
  - destruct (heads A others) as [oth0|] eqn:Eh; [|discriminate].
    destruct m as [s v|ob d mm|so sm sf]; try discriminate.
    assert (Hout : out <> Some []).
    { intro E. subst out. discriminate. }
    assert (H' : bind (apply_nest A o fn con prefix so sm sf oth0 (match out with Some (x :: _) => Some x | _ => None end) None)
                   (fun r => bind (lazy_members A o fn con prefix ms (map (@tl tree) others) (option_map (@tl tree) out))
                                  (fun rs0 => Ok ((Node so sm sf, r) :: rs0))) = Ok rs).
    { destruct out as [[|x l]|]; [now elim Hout|exact H|exact H]. }
    clear H. apply bind_okL in H'. destruct H' as (r0 & Hr0 & H). apply bind_okL in H. destruct H as (rs0 & Hrs0 & H). inv H.
    destruct (IH _ _ _ _ _ Hrs0) as [Hlen Hnth]. split; [cbn [List.length]; now rewrite Hlen|].
    intros i m r Hi. destruct i as [|j]; cbn [nth_error] in Hi |- *.
    + inv Hi. split; [reflexivity|]. exists so, sm, sf, oth0. repeat split.
      * now apply heads_col.
      * intros l E. subst out. destruct l; [now elim Hout|discriminate].
      * replace (out_at out 0) with (match out with Some (x :: _) => Some x | _ => None end); [exact Hr0|].
        destruct out as [[|x l]|]; reflexivity.
    + destruct (Hnth j m r Hi) as (Hm & so' & sm' & sf' & oth & E & Hc & Ho & Ha). split; [exact Hm|].
      exists so', sm', sf', oth. repeat split; try assumption.
      * now apply col_tl.
      * intros l E'. subst out. cbn [option_map] in Ho. specialize (Ho _ eq_refl). destruct l; [now destruct j|exact Ho].
      * replace (out_at out (S j)) with (out_at (option_map (@tl tree) out) j); [exact Ha|].
        destruct out as [[|x l]|]; cbn [out_at option_map tl nth_error]; try reflexivity. now destruct j.
Qed.

End Members.

(* ------------------------------------------------------------------ names= keeps the plain dicts *)
Section Names.
Variable A : Type.
Notation tree := (tree A).
Notation erase_t := (erase_t A).
Notation erase_f := (erase_f A).

Lemma erase_f_erase1 : forall f : forest A, erase_f (f_erase1 A f) = erase_f f.
Proof.
  induction f as [|k t r IH]; cbn [f_erase1]; [reflexivity|].
  rewrite !erase_f_cons, IH. f_equal. destruct t; rewrite ?erase_t_node, ?erase_t_nont, ?erase_t_leaf; reflexivity.
Qed.
End Names.

Section Names2.
Variable A : Type.
Notation tree := (tree A).
Notation erase_t := (erase_t A).
Notation erase_f := (erase_f A).

Lemma names_erase_erase (t : tree) : erase_t (names_erase A t) = erase_t t.
Proof. destruct t; cbn [names_erase]; try reflexivity. now rewrite !erase_t_node, erase_f_erase1. Qed.

Lemma names_set_erase value (t t' : tree) : names_set A value t = Ok t' -> erase_t t' = erase_t t.
Proof.
  destruct t as [s v|ob d m|ob m f]; cbn [names_set]; try discriminate.
  destruct (Nat.eqb (count_none value) (List.length (m_bs m))).
  - intro H. inv H. apply (names_erase_erase (Node ob m f)).
  - destruct (negb (names_unique value)); [discriminate|].
    destruct (negb (Nat.eqb (List.length value) (List.length (m_bs m)))); [discriminate|].
    intro H. inv H. now rewrite !erase_t_node, erase_rename.
Qed.

Definition same_dicts (l l' : list tree) : Prop := Forall2 (fun a b => erase_t b = erase_t a) l l'.

Lemma rename_members_erase name rest : forall ms ms', rename_members A name rest ms = Ok ms' -> same_dicts ms ms'.
Proof.
  induction ms as [|t r IH]; intros ms' H; cbn [rename_members] in H.
  - inv H. constructor.
  - destruct (match name with Some n => t_has_name A n t | None => false end); [discriminate|].
    apply bind_okL in H. destruct H as (t' & Ht & H). apply bind_okL in H. destruct H as (r' & Hr & H). inv H.
    constructor; [now apply names_set_erase in Ht|now apply IH].
Qed.

Lemma same_dicts_map_erase : forall l : list tree, same_dicts l (map (names_erase A) l).
Proof. induction l; cbn [map]; constructor; [apply names_erase_erase|assumption]. Qed.
Lemma same_dicts_refl : forall l : list tree, same_dicts l l.
Proof. induction l; constructor; auto. Qed.

Lemma finish_names_stack names ob sd nm ms r :
  finish_names A names (Some (LRStack A ob sd nm ms)) = Ok r ->
  exists nm' ms', r = LRStack A ob sd nm' ms' /\ same_dicts ms ms'.
Proof.
  unfold finish_names. destruct names as [n|].
  - unfold lazy_set_names. destruct n as [value|].
    + destruct (nth_error value sd) as [name|]; [|discriminate]. intro H. apply bind_okL in H. destruct H as (ms' & Hm & H). inv H.
      exists name, ms'. split; [reflexivity|]. now apply rename_members_erase in Hm.
    + intro H. inv H. exists None, (map (names_erase A) ms). split; [reflexivity|apply same_dicts_map_erase].
  - intro H. inv H. exists nm, ms. split; [reflexivity|apply same_dicts_refl].
Qed.

Lemma finish_names_none names r : finish_names A names None = Ok r -> r = LRNone A.
Proof. unfold finish_names. destruct names; [discriminate|]. intro H. now inv H. Qed.

End Names2.

(* ------------------------------------------------------------------ small list facts *)
Lemma nth_map_seq {X} (f : nat -> X) : forall n s i x, nth_error (map f (seq s n)) i = Some x -> x = f (s + i).
Proof.
  induction n as [|n IH]; intros s i x H; cbn [seq map] in H.
  - destruct i; discriminate.
  - destruct i as [|j]; cbn [nth_error] in H.
    + inv H. now rewrite Nat.add_0_r.
    + apply IH in H. subst x. f_equal. lia.
Qed.
Lemma nth_map_inv {X Y} (f : X -> Y) : forall l i y, nth_error (map f l) i = Some y -> exists x, nth_error l i = Some x /\ y = f x.
Proof.
  induction l as [|a l IH]; intros i y H; destruct i; cbn [map nth_error] in H; try discriminate.
  - inv H. exists a. split; reflexivity.
  - now apply IH.
Qed.
Lemma Forall2_nth_r {X Y} (R : X -> Y -> Prop) : forall l1 l2 i y, Forall2 R l1 l2 -> nth_error l2 i = Some y ->
  exists x, nth_error l1 i = Some x /\ R x y.
Proof.
  intros l1 l2 i y H. revert i y. induction H as [|a b l1 l2 Hab _ IH]; intros i y Hi; destruct i; cbn [nth_error] in Hi; try discriminate.
  - inv Hi. exists a. split; [reflexivity|assumption].
  - now apply IH.
Qed.
Lemma Forall2_len {X Y} (R : X -> Y -> Prop) l1 l2 : Forall2 R l1 l2 -> List.length l1 = List.length l2.
Proof. induction 1; cbn [List.length]; congruence. Qed.
Lemma flat_somes {X} : forall rets : list (option X), existsb is_none rets = false ->
  Forall2 (fun r t => r = Some t) rets (flat_map (fun r => match r with Some t => [t] | None => [] end) rets).
Proof.
  induction rets as [|r l IH]; intro H; cbn [flat_map existsb] in *.
  - constructor.
  - apply orb_false_iff in H. destruct H as [H1 H2]. destruct r as [t|]; [|discriminate]. cbn [app]. constructor; [reflexivity|now apply IH].
Qed.

(* ------------------------------------------------------------------ lazy_apply_spec *)
Section LazySpec.
Variable A : Type.
Variable o : opts.
Variable fn : option (list string) -> tree A -> list (option (tree A)) -> option A.
Notation tree := (tree A).
Notation erase_t := (erase_t A).
Notation mo := (mo o).
Notation keep := (fun mr : tree * option tree => match snd mr with Some t => t | None => fst mr end).
Notation somes := (flat_map (fun r : option tree => match r with Some t => [t] | None => [] end)).

(* the members of a lazy operand are its slices along its stack dim *)
Definition wf_operand (d : nat) (op : operand A) : Prop :=
  match op_lazy A op with
  | Some (sd, ms) => sd = d -> ms = map (op_slice A op d) (seq 0 (nth d (op_bs A op) 0))
  | None => True
  end.

Lemma op_unbind_slices d op l :
  wf_operand d op -> op_unbind A d op = Ok l -> forall i x, nth_error l i = Some x -> x = op_slice A op d i.
Proof.
  unfold wf_operand, op_unbind. intros Hwf H i x Hi.
  destruct (Nat.leb (List.length (op_bs A op)) d); [discriminate|].
  assert (E : l = map (op_slice A op d) (seq 0 (nth d (op_bs A op) 0))).
  { destruct (op_lazy A op) as [[sd ms]|].
    - destruct (Nat.eqb d sd) eqn:Ed; inv H; [|reflexivity]. apply Nat.eqb_eq in Ed. now apply Hwf.
    - now inv H. }
  subst l. now apply nth_map_seq in Hi.
Qed.

Lemma unbind_all_col d : forall ops ls, Forall (wf_operand d) ops -> unbind_all A d ops = Ok ls ->
  forall i c, col A i ls c -> c = map (fun op => op_slice A op d i) ops.
Proof.
  induction ops as [|op r IH]; intros ls Hwf H i c Hc; cbn [unbind_all] in H.
  - inv H. inv Hc. reflexivity.
  - apply bind_okL in H. destruct H as (l & Hl & H). apply bind_okL in H. destruct H as (ls' & Hls & H). inv H.
    inv Hwf. inv Hc. cbn [map]. f_equal.
    + eapply op_unbind_slices; eassumption.
    + eapply IH; eassumption.
Qed.

(* what a returning call went through *)
Definition body_outcome (con : bool) (self : lstack A) (others : list (operand A)) (out : option (lout A)) (names : option dnames)
           (r : lres A) : Prop :=
  exists oth rs,
    unbind_all A (l_sd A self) others = Ok oth
    /\ lazy_members A mo fn con [] (l_members A self) oth (out_members A out) = Ok rs
    /\ ((r = LRNone A /\ forallb is_none (map snd rs) = true)
        \/ (o_inplace o = true
            /\ finish_names A names (Some (LRStack A (l_obj A self) (l_sd A self) (l_name A self) (map keep rs))) = Ok r)
        \/ (o_inplace o = false /\ existsb is_none (map snd rs) = false
            /\ finish_names A names (Some (LRStack A New (l_sd A self) (l_name A self) (somes (map snd rs)))) = Ok r)).

Lemma lz_apply_nest_inv con self others out names r :
  lz_apply_nest A o fn con self others out names = Ok r ->
  l_members A self <> [] /\ refuse_inplace o names = false /\ out <> Some (OutOther A)
  /\ ((out = None /\ exists b m, o_bs o = Some b /\ r = LRView A m /\ m_bs m = b)
      \/ ((out <> None \/ o_bs o = None) /\ body_outcome con self others out names r)).
Proof.
  unfold lz_apply_nest. destruct (l_members A self) as [|m0 mrest] eqn:Em; [discriminate|].
  destruct (refuse_inplace o names) eqn:Eref; [discriminate|].
  intro H. split; [discriminate|]. split; [reflexivity|].
  assert (Hbody : forall (Hside : out <> None \/ o_bs o = None),
            bind (unbind_all A (l_sd A self) others) (fun oth =>
            bind (lazy_members A mo fn con [] (m0 :: mrest) oth (out_members A out)) (fun rs =>
            let rets := map snd rs in
            if forallb is_none rets && fe_drops o then Ok (LRNone A)
            else bind (if o_inplace o then Ok (Some (LRStack A (l_obj A self) (l_sd A self) (l_name A self) (map keep rs)))
                       else if forallb is_none rets then Ok None
                       else if existsb is_none rets then Raised ERuntime
                       else Ok (Some (LRStack A New (l_sd A self) (l_name A self) (somes rets))))
                      (finish_names A names))) = Ok r ->
            body_outcome con self others out names r).
  { intros _ Hb. apply bind_okL in Hb. destruct Hb as (oth & Hoth & Hb). apply bind_okL in Hb. destruct Hb as (rs & Hrs & Hb).
    exists oth, rs. rewrite Em. split; [exact Hoth|]. split; [exact Hrs|]. cbn zeta in Hb.
    destruct (forallb is_none (map snd rs)) eqn:Eall; cbn [andb] in Hb.
    - destruct (fe_drops o). { inv Hb. left. split; reflexivity. }
      destruct (o_inplace o) eqn:Ei; cbn [bind] in Hb.
      + right. left. split; [reflexivity|exact Hb].
      + apply finish_names_none in Hb. left. split; [exact Hb|reflexivity].
    - destruct (o_inplace o) eqn:Ei; cbn [bind] in Hb.
      + right. left. split; [reflexivity|exact Hb].
      + destruct (existsb is_none (map snd rs)) eqn:Eex; [discriminate|]. cbn [bind] in Hb.
        right. right. repeat split; assumption. }
  destruct out as [[tc oms|]|].
  - split; [discriminate|]. right. split; [left; discriminate|]. apply Hbody; [left; discriminate|].
    destruct (o_bs o); exact H.
  - discriminate.
  - split; [discriminate|]. destruct (o_bs o) as [b|] eqn:Eb.
    + left. split; [reflexivity|]. destruct (first_meta A (m0 :: mrest)) as [mm|]; [|discriminate]. inv H.
      exists b, (mkMeta b match o_dev o with Some d => d | None => m_dev mm end match names with Some n => n | None => None end false).
      repeat split; reflexivity.
    + right. split; [right; reflexivity|]. apply Hbody; [right; reflexivity|exact H].
Qed.

Lemma front_of_apply_nest con so sm sf oth out r :
  apply_nest A mo fn con [] so sm sf oth out None = Ok r ->
  front A mo fn con false (Node so sm sf) oth out None = Ok r.
Proof. intro H. unfold front. rewrite H. reflexivity. Qed.

(* member i of the result of a returning call *)
Lemma member_ref con self others oth rs i m r out :
  Forall (wf_operand (l_sd A self)) others ->
  unbind_all A (l_sd A self) others = Ok oth ->
  lazy_members A mo fn con [] (l_members A self) oth (out_members A out) = Ok rs ->
  nth_error rs i = Some (m, r) ->
  nth_error (l_members A self) i = Some m /\
  forall so sm sf, m = Node so sm sf -> wf_keys A sf = true ->
    ref_apply A mo fn con (Node so sm sf) (map (fun op => op_slice A op (l_sd A self) i) others) (out_at A (out_members A out) i)
    = ROk (option_map erase_t r).
Proof.
  intros Hwf Hoth Hrs Hi.
  destruct (lazy_members_nth A mo fn _ _ _ _ _ _ Hrs) as [_ Hnth].
  destruct (Hnth i m r Hi) as (Hm & so & sm & sf & c & E & Hc & _ & Ha). split; [exact Hm|].
  intros so' sm' sf' E' Hk. rewrite E in E'. inv E'.
  rewrite <- (unbind_all_col _ _ _ Hwf Hoth i c Hc).
  apply apply_spec with (propagate := false) (names := None); [exact Hk|]. now apply front_of_apply_nest.
Qed.

Theorem lazy_apply_spec : forall con self others out names ob sd nm ms,
  Forall (wf_operand (l_sd A self)) others ->
  lz_apply_nest A o fn con self others out names = Ok (LRStack A ob sd nm ms) ->
  sd = l_sd A self /\ ob = (if o_inplace o then l_obj A self else New)
  /\ List.length ms = List.length (l_members A self)
  /\ forall i so sm sf t,
       nth_error (l_members A self) i = Some (Node so sm sf) -> wf_keys A sf = true -> nth_error ms i = Some t ->
       let oth := map (fun op => op_slice A op (l_sd A self) i) others in
       let out_i := out_at A (out_members A out) i in
       ref_apply A mo fn con (Node so sm sf) oth out_i = ROk (Some (erase_t t))
       \/ (o_inplace o = true /\ ref_apply A mo fn con (Node so sm sf) oth out_i = ROk None
           /\ erase_t t = erase_t (Node so sm sf)).
Proof.
  intros con self others out names ob sd nm ms Hwf H.
  destruct (lz_apply_nest_inv _ _ _ _ _ _ H) as (_ & _ & _ & [(_ & b & m & _ & E & _)|(_ & oth & rs & Hoth & Hrs & Hcase)]); [discriminate|].
  destruct (lazy_members_nth A mo fn _ _ _ _ _ _ Hrs) as [Hlen _].
  destruct Hcase as [(E & _)|[(Hi & Hfin)|(Hi & Hex & Hfin)]]; [discriminate| |].
  - (* in place *)
    apply finish_names_stack in Hfin. destruct Hfin as (nm' & ms' & E & Hsame). inv E. rewrite Hi.
    split; [reflexivity|]. split; [reflexivity|].
    split. { rewrite <- (Forall2_len _ _ _ Hsame), map_length. exact Hlen. }
    intros i so sm sf t Hm Hk Ht oth' out_i.
    destruct (Forall2_nth_r _ _ _ _ _ Hsame Ht) as (t0 & Ht0 & Eer).
    apply nth_map_inv in Ht0. destruct Ht0 as ([m r] & Hr & Et0). cbn [fst snd] in Et0.
    destruct (member_ref con self others oth rs i m r out Hwf Hoth Hrs Hr) as [Hm' Href].
    rewrite Hm in Hm'. inv Hm'. specialize (Href so sm sf eq_refl Hk).
    destruct r as [t1|]; cbn [option_map] in Href; cbn [fst snd] in *.
    + left. unfold oth', out_i. now rewrite Eer.
    + right. split; [reflexivity|]. split; [exact Href|exact Eer].
  - (* a new stack *)
    apply finish_names_stack in Hfin. destruct Hfin as (nm' & ms' & E & Hsame). inv E. rewrite Hi.
    split; [reflexivity|]. split; [reflexivity|].
    pose proof (flat_somes _ Hex) as Hs.
    split. { rewrite <- (Forall2_len _ _ _ Hsame), <- (Forall2_len _ _ _ Hs), map_length. exact Hlen. }
    intros i so sm sf t Hm Hk Ht oth' out_i. left.
    destruct (Forall2_nth_r _ _ _ _ _ Hsame Ht) as (t0 & Ht0 & Eer).
    destruct (Forall2_nth_r _ _ _ _ _ Hs Ht0) as (r0 & Hr0 & Er0). subst r0.
    apply nth_map_inv in Hr0. destruct Hr0 as ([m r] & Hr & Et0). cbn [snd] in Et0. subst r.
    destruct (member_ref con self others oth rs i m (Some t0) out Hwf Hoth Hrs Hr) as [Hm' Href].
    rewrite Hm in Hm'. inv Hm'. specialize (Href so sm sf eq_refl Hk). cbn [option_map] in Href.
    unfold oth', out_i. now rewrite Eer.
Qed.

(* the call returns None exactly when the reference drops every member *)
Theorem lazy_apply_none : forall con self others out names,
  Forall (wf_operand (l_sd A self)) others ->
  lz_apply_nest A o fn con self others out names = Ok (LRNone A) ->
  forall i so sm sf, nth_error (l_members A self) i = Some (Node so sm sf) -> wf_keys A sf = true ->
    ref_apply A mo fn con (Node so sm sf) (map (fun op => op_slice A op (l_sd A self) i) others) (out_at A (out_members A out) i)
    = ROk None.
Proof.
  intros con self others out names Hwf H i so sm sf Hm Hk.
  destruct (lz_apply_nest_inv _ _ _ _ _ _ H) as (_ & _ & _ & [(_ & b & m & _ & E & _)|(_ & oth & rs & Hoth & Hrs & Hcase)]); [discriminate|].
  destruct (lazy_members_nth A mo fn _ _ _ _ _ _ Hrs) as [Hlen _].
  destruct Hcase as [(_ & Hall)|[(Hi & Hfin)|(Hi & Hex & Hfin)]].
  - assert (Hlt : i < List.length rs). { rewrite Hlen. apply nth_error_Some. congruence. }
    destruct (nth_error rs i) as [[m r]|] eqn:Hr; [|apply nth_error_None in Hr; lia].
    destruct (member_ref con self others oth rs i m r out Hwf Hoth Hrs Hr) as [Hm' Href].
    rewrite Hm in Hm'. inv Hm'. specialize (Href so sm sf eq_refl Hk).
    rewrite forallb_forall in Hall. assert (Hn : is_none r = true).
    { apply Hall. apply in_map_iff. exists (Node so sm sf, r). split; [reflexivity|]. eapply nth_error_In; eassumption. }
    destruct r; [discriminate|exact Href].
  - apply finish_names_stack in Hfin. destruct Hfin as (? & ? & E & _). discriminate.
  - apply finish_names_stack in Hfin. destruct Hfin as (? & ? & E & _). discriminate.
Qed.

(* refusals: the option points and operands that the lazy code rejects, or hands to the stacked view *)
Theorem lazy_refusals : forall con self others out names,
  l_members A self <> [] ->
  (refuse_inplace o names = true -> lz_apply_nest A o fn con self others out names = Raised EValue)
  /\ (refuse_inplace o names = false -> out = Some (OutOther A) ->
        lz_apply_nest A o fn con self others out names = Raised EValue)
  /\ (forall r, lz_apply_nest A o fn con self others out names = Ok r ->
        refuse_inplace o names = false /\ out <> Some (OutOther A)
        /\ ((exists m, r = LRView A m) <-> (out = None /\ o_bs o <> None))
        /\ (forall m, r = LRView A m -> Some (m_bs m) = o_bs o))
  /\ (o_inplace o = false -> forall oth rs,
        refuse_inplace o names = false -> out <> Some (OutOther A) -> (out <> None \/ o_bs o = None) ->
        unbind_all A (l_sd A self) others = Ok oth ->
        lazy_members A mo fn con [] (l_members A self) oth (out_members A out) = Ok rs ->
        existsb is_none (map snd rs) = true -> forallb is_none (map snd rs) = false ->
        lz_apply_nest A o fn con self others out names = Raised ERuntime).
Proof.
  intros con self others out names Hne. split; [|split; [|split]].
  - intro Hr. unfold lz_apply_nest. destruct (l_members A self); [now elim Hne|]. now rewrite Hr.
  - intros Hr Ho. unfold lz_apply_nest. destruct (l_members A self); [now elim Hne|]. rewrite Hr. subst out. reflexivity.
  - intros r H. pose proof (lz_apply_nest_inv _ _ _ _ _ _ H) as Hinv.
    destruct Hinv as (_ & Hr & Ho & Hcase). split; [exact Hr|]. split; [exact Ho|].
    assert (Hnoview : forall m, body_outcome con self others out names (LRView A m) -> False).
    { intros m (oth & rs & _ & _ & Hc). destruct Hc as [(E & _)|[(_ & Hfin)|(_ & _ & Hfin)]]; [discriminate| |];
        apply finish_names_stack in Hfin; destruct Hfin as (? & ? & E & _); discriminate. }
    split; [split|].
    + intros (m & E). subst r. destruct Hcase as [(Hon & b & m' & Eb & _)|(_ & Hb)].
      * split; [exact Hon|congruence].
      * exfalso. eapply Hnoview; eassumption.
    + intros (Hon & Hb). destruct Hcase as [(_ & b & m' & _ & E & _)|([Hc|Hc] & _)]; [eauto|now elim Hc|now elim Hb].
    + intros m E. subst r. destruct Hcase as [(Hon & b & m' & Eb & E & Hm)|(_ & Hb)].
      * inv E. now rewrite Eb.
      * exfalso. eapply Hnoview; eassumption.
  - intros Hi oth rs Hr Ho Hside Hoth Hrs Hex Hall. unfold lz_apply_nest.
    destruct (l_members A self) eqn:Em; [now elim Hne|]. rewrite Hr.
    assert (Hb : bind (unbind_all A (l_sd A self) others) (fun oth =>
            bind (lazy_members A mo fn con [] (t :: l) oth (out_members A out)) (fun rs =>
            let rets := map snd rs in
            if forallb is_none rets && fe_drops o then Ok (LRNone A)
            else bind (if o_inplace o then Ok (Some (LRStack A (l_obj A self) (l_sd A self) (l_name A self) (map keep rs)))
                       else if forallb is_none rets then Ok None
                       else if existsb is_none rets then Raised ERuntime
                       else Ok (Some (LRStack A New (l_sd A self) (l_name A self) (somes rets))))
                      (finish_names A names))) = Raised ERuntime).
    { rewrite Hoth. cbn [bind]. rewrite Hrs. cbn [bind]. cbn zeta. rewrite Hall, Hi, Hex. reflexivity. }
    destruct out as [[tc oms|]|]; [destruct (o_bs o); exact Hb|now elim Ho|].
    destruct Hside as [Hs|Hs]; [now elim Hs|]. rewrite Hs. exact Hb.
Qed.

End LazySpec.

(* ------------------------------------------------------------------ apply_ on a lazy stack *)
From TD Require Import Proofs.C20_FrameP.
Section LazyApply_.
Variable A : Type.
Variable o : opts.
Variable fn : option (list string) -> tree A -> list (option (tree A)) -> option A.
Notation tree := (tree A).
Notation erase_t := (erase_t A).

Lemma apply__members_nth : forall members others con names ms',
  apply__members A o fn con names members others = Ok ms' ->
  List.length ms' = List.length members /\
  forall i t, nth_error ms' i = Some t ->
    exists m oth r, nth_error members i = Some m /\ col A i others oth
      /\ front A (ao o) fn con true m oth None names = Ok r /\ t = match r with Some x => x | None => m end.
Proof.
  induction members as [|m ms IH]; intros others con names ms' H; cbn [apply__members] in H.
  - destruct (forallb (@nil_b tree) others); [|discriminate]. inv H. split; [reflexivity|]. intros i t Hi. destruct i; discriminate.
  - destruct (heads A others) as [oth0|] eqn:Eh; [|discriminate].
    apply bind_okL in H. destruct H as (r0 & Hr0 & H). apply bind_okL in H. destruct H as (rs & Hrs & H). inv H.
    destruct (IH _ _ _ _ Hrs) as [Hlen Hnth]. split; [cbn [List.length]; now rewrite Hlen|].
    intros i t Hi. destruct i as [|j]; cbn [nth_error] in Hi |- *.
    + inv Hi. exists m, oth0, r0. repeat split; try assumption. now apply heads_col.
    + destruct (Hnth j t Hi) as (m' & oth & r & Hm & Hc & Hf & Et). exists m', oth, r. repeat split; try assumption. now apply col_tl.
Qed.

Theorem lazy_apply__spec : forall con names self others ob sd nm ms,
  Forall (wf_operand A (l_sd A self)) others ->
  lz_apply_ A o fn con names self others = Ok (LRStack A ob sd nm ms) ->
  ob = l_obj A self /\ sd = l_sd A self /\ nm = l_name A self /\ List.length ms = List.length (l_members A self)
  /\ forall i so sm sf t,
       nth_error (l_members A self) i = Some (Node so sm sf) -> wf_keys A sf = true -> nth_error ms i = Some t ->
       let oth := map (fun op => op_slice A op (l_sd A self) i) others in
       shape_t A t = shape_t A (Node so sm sf)
       /\ (ref_apply A (ao o) fn con (Node so sm sf) oth None = ROk (Some (erase_t t))
           \/ (ref_apply A (ao o) fn con (Node so sm sf) oth None = ROk None /\ t = Node so sm sf)).
Proof.
  intros con names self others ob sd nm ms Hwf H. unfold lz_apply_ in H.
  apply bind_okL in H. destruct H as (oth & Hoth & H). apply bind_okL in H. destruct H as (ms' & Hms & H). inv H.
  destruct (apply__members_nth _ _ _ _ _ Hms) as [Hlen Hnth].
  repeat split; try reflexivity; try assumption.
  - destruct (Hnth i t H1) as (m & c & r & Hm & Hc & Hf & Et). rewrite H in Hm. inv Hm.
    destruct r as [x|]; [|reflexivity].
    eapply (inplace_shape A (ao o) fn); [reflexivity|exact H0|exact Hf].
  - destruct (Hnth i t H1) as (m & c & r & Hm & Hc & Hf & Et). rewrite H in Hm. inv Hm.
    rewrite <- (unbind_all_col A _ _ _ Hwf Hoth i c Hc).
    pose proof (apply_spec A (ao o) fn con true so sm sf c None names r H0 Hf) as Href.
    destruct r as [x|]; cbn [option_map] in Href; [left; exact Href|right; split; [exact Href|reflexivity]].
Qed.

End LazyApply_.
