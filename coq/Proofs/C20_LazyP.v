(* C20 — lazy stacks: member i of the result is the reference on member i with the i-th slices of the other operands along
   self's stack dim; refusals; apply_. *)
From Coq Require Import ZArith List String Bool Lia Arith.
Import ListNotations.
From TD Require Import Model.C20_Apply Model.C20_Sched Model.C20_Spec Model.C20_Lazy
     Proofs.C20_EraseP Proofs.C20_SpecP.
Open Scope string_scope.

Ltac inv H := inversion H; subst; clear H.

Lemma bind_okL {X Y} (r : res X) (f : X -> res Y) y : bind r f = Ok y -> exists x, r = Ok x /\ f x = Ok y.
Proof. destruct r; cbn [bind]; [eauto|discriminate|discriminate]. Qed.

(* ------------------------------------------------------------------ the per-member dispatch, position by position *)
Section Members.
Variable A : Type.
Variable o : opts.
Variable fn : option (list string) -> tree A -> list (option (tree A)) -> option A.
Notation tree := (tree A).

(* the i-th column of the unbound operands *)
Definition col (i : nat) (ls : list (list tree)) (c : list tree) : Prop :=
  Forall2 (fun l x => nth_error l i = Some x) ls c.
Definition out_at (out : option (list tree)) (i : nat) : option tree :=
  match out with Some l => nth_error l i | None => None end.

Lemma heads_col : forall ls h, heads A ls = Some h -> col 0 ls h.
Proof.
  induction ls as [|l r IH]; intros h H; cbn [heads] in H.
  - inv H. constructor.
  - destruct l as [|x l']; [discriminate|]. destruct (heads A r) as [h'|]; [|discriminate]. inv H.
    constructor; [reflexivity|]. now apply IH.
Qed.

Lemma col_tl : forall ls c i, col i (map (@tl tree) ls) c -> col (S i) ls c.
Proof.
  induction ls as [|l r IH]; intros c i H; cbn [map] in H; inv H.
  - constructor.
  - constructor; [|now apply IH]. destruct l; cbn [tl] in *; [now destruct i|assumption].
Qed.

Lemma apply_nest_fe_false con prefix so sm sf oth out names r :
  o_fe o = Some false -> apply_nest A o fn con prefix so sm sf oth out names = Ok r -> r <> None.
Proof.
  intros Hfe H. unfold apply_nest in H.
  apply bind_okL in H. destruct H as (init & _ & H). apply bind_okL in H. destruct H as (ra & _ & H).
  inv H. unfold level_finish. rewrite Hfe. discriminate.
Qed.

Lemma lazy_members_nth : forall members others out con prefix rs,
  lazy_members A o fn con prefix members others out = Ok rs ->
  List.length rs = List.length members /\
  forall i m r, nth_error rs i = Some (m, r) ->
    nth_error members i = Some m /\
    exists so sm sf oth, m = Node so sm sf /\ col i others oth
      /\ (forall l, out = Some l -> nth_error l i <> None)
      /\ apply_nest A o fn con prefix so sm sf oth (out_at out i) None = Ok r.
Proof.
  induction members as [|m ms IH]; intros others out con prefix rs H; cbn [lazy_members] in H.
  - destruct (forallb (@nil_b tree) others); [|discriminate]. inv H. split; [reflexivity|].
    intros i m r Hi. destruct i; discriminate.
  - destruct (heads A others) as [oth0|] eqn:Eh; [|discriminate].
    destruct m as [s v|ob d mm|so sm sf]; try discriminate.
    assert (Hout : out <> Some []).
    { intro E. subst out. discriminate. }
    assert (H' : bind (apply_nest A o fn con prefix so sm sf oth0 (match out with Some (x :: _) => Some x | _ => None end) None)
                   (fun r => bind (lazy_members A o fn con prefix ms (map (@tl tree) others) (option_map (@tl tree) out))
                                  (fun rs0 => Ok ((Node so sm sf, r) :: rs0))) = Ok rs).
    { destruct out as [[|x l]|]; [now elim Hout|exact H|exact H]. }
    clear H. apply bind_okL in H'. destruct H' as (r0 & Hr0 & H). apply bind_okL in H. destruct H as (rs0 & Hrs0 & H). inv H.
    destruct (IH _ _ _ _ _ Hrs0) as [Hlen Hnth]. split; [cbn [List.length]; now rewrite Hlen|].
    intros i m r Hi. destruct i as [|j]; cbn [nth_error] in Hi |- *.
    + inv Hi. split; [reflexivity|]. exists so, sm, sf, oth0. repeat split.
      * now apply heads_col.
      * intros l E. subst out. destruct l; [now elim Hout|discriminate].
      * replace (out_at out 0) with (match out with Some (x :: _) => Some x | _ => None end); [exact Hr0|].
        destruct out as [[|x l]|]; reflexivity.
    + destruct (Hnth j m r Hi) as (Hm & so' & sm' & sf' & oth & E & Hc & Ho & Ha). split; [exact Hm|].
      exists so', sm', sf', oth. repeat split; try assumption.
      * now apply col_tl.
      * intros l E'. subst out. cbn [option_map] in Ho. specialize (Ho _ eq_refl). destruct l; [now destruct j|exact Ho].
      * replace (out_at out (S j)) with (out_at (option_map (@tl tree) out) j); [exact Ha|].
        destruct out as [[|x l]|]; cbn [out_at option_map tl nth_error]; try reflexivity. now destruct j.
Qed.

End Members.

(* ------------------------------------------------------------------ names= keeps the plain dicts *)
Section Names.
Variable A : Type.
Notation tree := (tree A).
Notation erase_t := (erase_t A).
Notation erase_f := (erase_f A).

Lemma erase_f_erase1 : forall f : forest A, erase_f (f_erase1 A f) = erase_f f.
Proof.
  induction f as [|k t r IH]; cbn [f_erase1]; [reflexivity|].
  rewrite !erase_f_cons, IH. f_equal. destruct t; rewrite ?erase_t_node, ?erase_t_nont, ?erase_t_leaf; reflexivity.
Qed.
End Names.

Section Names2.
Variable A : Type.
Notation tree := (tree A).
Notation erase_t := (erase_t A).
Notation erase_f := (erase_f A).

Lemma names_erase_erase (t : tree) : erase_t (names_erase A t) = erase_t t.
Proof. destruct t; cbn [names_erase]; try reflexivity. now rewrite !erase_t_node, erase_f_erase1. Qed.

Lemma names_set_erase value (t t' : tree) : names_set A value t = Ok t' -> erase_t t' = erase_t t.
Proof.
  destruct t as [s v|ob d m|ob m f]; cbn [names_set]; try discriminate.
  destruct (Nat.eqb (count_none value) (List.length (m_bs m))).
  - intro H. inv H. apply (names_erase_erase (Node ob m f)).
  - destruct (negb (names_unique value)); [discriminate|].
    destruct (negb (Nat.eqb (List.length value) (List.length (m_bs m)))); [discriminate|].
    intro H. inv H. now rewrite !erase_t_node, erase_rename.
Qed.

Definition same_dicts (l l' : list tree) : Prop := Forall2 (fun a b => erase_t b = erase_t a) l l'.

Lemma rename_members_erase name rest : forall ms ms', rename_members A name rest ms = Ok ms' -> same_dicts ms ms'.
Proof.
  induction ms as [|t r IH]; intros ms' H; cbn [rename_members] in H.
  - inv H. constructor.
  - destruct (match name with Some n => t_has_name A n t | None => false end); [discriminate|].
    apply bind_okL in H. destruct H as (t' & Ht & H). apply bind_okL in H. destruct H as (r' & Hr & H). inv H.
    constructor; [now apply names_set_erase in Ht|now apply IH].
Qed.

Lemma same_dicts_map_erase : forall l : list tree, same_dicts l (map (names_erase A) l).
Proof. induction l; cbn [map]; constructor; [apply names_erase_erase|assumption]. Qed.
Lemma same_dicts_refl : forall l : list tree, same_dicts l l.
Proof. induction l; constructor; auto. Qed.

Lemma finish_names_stack names ob sd nm ms r :
  finish_names A names (Some (LRStack A ob sd nm ms)) = Ok r ->
  exists nm' ms', r = LRStack A ob sd nm' ms' /\ same_dicts ms ms'.
Proof.
  unfold finish_names. destruct names as [n|].
  - unfold lazy_set_names. destruct n as [value|].
    + destruct (nth_error value sd) as [name|]; [|discriminate]. intro H. apply bind_okL in H. destruct H as (ms' & Hm & H). inv H.
      exists name, ms'. split; [reflexivity|]. now apply rename_members_erase in Hm.
    + intro H. inv H. exists None, (map (names_erase A) ms). split; [reflexivity|apply same_dicts_map_erase].
  - intro H. inv H. exists nm, ms. split; [reflexivity|apply same_dicts_refl].
Qed.

Lemma finish_names_none names r : finish_names A names None = Ok r -> r = LRNone A.
Proof. unfold finish_names. destruct names; [discriminate|]. intro H. now inv H. Qed.

End Names2.

(* ------------------------------------------------------------------ small list facts *)
Lemma nth_map_seq {X} (f : nat -> X) : forall n s i x, nth_error (map f (seq s n)) i = Some x -> x = f (s + i).
Proof.
  induction n as [|n IH]; intros s i x H; cbn [seq map] in H.
  - destruct i; discriminate.
  - destruct i as [|j]; cbn [nth_error] in H.
    + inv H. now rewrite Nat.add_0_r.
    + apply IH in H. subst x. f_equal. lia.
Qed.
Lemma nth_map_inv {X Y} (f : X -> Y) : forall l i y, nth_error (map f l) i = Some y -> exists x, nth_error l i = Some x /\ y = f x.
Proof.
  induction l as [|a l IH]; intros i y H; destruct i; cbn [map nth_error] in H; try discriminate.
  - inv H. exists a. split; reflexivity.
  - now apply IH.
Qed.
Lemma Forall2_nth_r {X Y} (R : X -> Y -> Prop) : forall l1 l2 i y, Forall2 R l1 l2 -> nth_error l2 i = Some y ->
  exists x, nth_error l1 i = Some x /\ R x y.
Proof.
  intros l1 l2 i y H. revert i y. induction H as [|a b l1 l2 Hab _ IH]; intros i y Hi; destruct i; cbn [nth_error] in Hi; try discriminate.
  - inv Hi. exists a. split; [reflexivity|assumption].
  - now apply IH.
Qed.
Lemma Forall2_len {X Y} (R : X -> Y -> Prop) l1 l2 : Forall2 R l1 l2 -> List.length l1 = List.length l2.
Proof. induction 1; cbn [List.length]; congruence. Qed.
Lemma flat_somes {X} : forall rets : list (option X), existsb is_none rets = false ->
  Forall2 (fun r t => r = Some t) rets (flat_map (fun r => match r with Some t => [t] | None => [] end) rets).
Proof.
  induction rets as [|r l IH]; intro H; cbn [flat_map existsb] in *.
  - constructor.
  - apply orb_false_iff in H. destruct H as [H1 H2]. destruct r as [t|]; [|discriminate]. cbn [app]. constructor; [reflexivity|now apply IH].
Qed.
