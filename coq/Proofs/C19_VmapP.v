From Coq Require Import ZArith List Bool Lia ZifyBool.
Import ListNotations.
From TD Require Import Model.C19_Vmap.
Open Scope nat_scope.

Lemma length_insert_at {A} (l : list A) i x : length (insert_at l i x) = S (length l).
Proof. revert l; induction i as [|i IH]; intros [|y r]; cbn; auto. Qed.

Lemma length_remove_nth {A} (l : list A) i : i < length l -> length (remove_nth l i) = length l - 1.
Proof.
  revert i; induction l as [|y r IH]; intros [|i] H; cbn in *; try lia.
  rewrite IH by lia. lia.
Qed.

Lemma nth_insert_at {A} (l : list A) i x k d : i <= length l ->
  nth k (insert_at l i x) d = if k <? i then nth k l d else if k =? i then x else nth (k - 1) l d.
Proof.
  revert l k; induction i as [|i IH]; intros l k H.
  - destruct k; cbn; [reflexivity|]. now rewrite Nat.sub_0_r.
  - destruct l as [|y r]; [cbn in H; lia|]. destruct k as [|k]; [reflexivity|].
    cbn [insert_at nth]. rewrite IH by (cbn in H; lia).
    change (S k <? S i) with (k <? i). change (S k =? S i) with (k =? i).
    destruct (k <? i) eqn:E1; [reflexivity|]. destruct (k =? i) eqn:E2; [reflexivity|].
    apply Nat.ltb_ge in E1. apply Nat.eqb_neq in E2.
    destruct k as [|k]; [lia|]. cbn. now rewrite Nat.sub_0_r.
Qed.

Lemma nth_remove_nth {A} (l : list A) i k d :
  nth k (remove_nth l i) d = if k <? i then nth k l d else nth (S k) l d.
Proof.
  revert i k; induction l as [|y r IH]; intros i k.
  - destruct i, k; cbn; try reflexivity; match goal with |- context [if ?c then _ else _] => destruct c end; reflexivity.
  - destruct i as [|i]; [reflexivity|]. destruct k as [|k]; [reflexivity|].
    cbn [remove_nth nth]. rewrite IH. change (S k <? S i) with (k <? i). reflexivity.
Qed.

Lemma list_ext {A} (l1 l2 : list A) d :
  length l1 = length l2 -> (forall k, k < length l1 -> nth k l1 d = nth k l2 d) -> l1 = l2.
Proof.
  revert l2; induction l1 as [|x r IH]; intros [|y r2] Hl H; cbn in *; try discriminate; [reflexivity|].
  f_equal; [apply (H 0); lia|]. apply IH; [lia|]. intros k Hk. apply (H (S k)). lia.
Qed.

Ltac len_simpl :=
  repeat (rewrite length_insert_at
          || (rewrite length_remove_nth by (repeat rewrite length_insert_at; lia))).
Ltac len_simpl_in H :=
  repeat (rewrite length_insert_at in H
          || (rewrite length_remove_nth in H by (repeat rewrite length_insert_at; lia))).

Ltac split_ifs :=
  repeat match goal with
         | |- context [?a <? ?b] => destruct (Nat.ltb_spec a b)
         | |- context [?a =? ?b] => destruct (Nat.eqb_spec a b)
         end.

(* ---------------- regular tensordicts ---------------- *)
Lemma py_insert_nonneg {A} (l : list A) (o : nat) x : py_insert l (Z.of_nat o) x = insert_at l o x.
Proof. unfold py_insert. destruct (Z.of_nat o <? 0)%Z eqn:E; [lia|]. now rewrite Nat2Z.id. Qed.

(* vmap(identity): the batch size comes back with dim i moved to o, exactly torch.movedim / the stack of the slices *)
Theorem td_vmap_identity bs i o :
  td_remove (td_add bs i) (nth i bs 0) (Z.of_nat o) = movedim_shape bs i o.
Proof. unfold td_remove, td_add, movedim_shape. apply py_insert_nonneg. Qed.

Lemma remove_nth_app {A} (l f : list A) i : i < length l -> remove_nth (l ++ f) i = remove_nth l i ++ f.
Proof. revert i; induction l as [|y r IH]; intros [|i] H; cbn in *; try lia; [reflexivity|]. now rewrite IH by lia. Qed.

Lemma insert_at_app {A} (l f : list A) i x : i <= length l -> insert_at (l ++ f) i x = insert_at l i x ++ f.
Proof. revert l; induction i as [|i IH]; intros [|y r] H; cbn in *; try lia; try reflexivity. now rewrite IH by lia. Qed.

(* coherence: what torch does to every entry (shape bs ++ feat) and to every nested node (bs ++ extra) has the new batch
   size as prefix and the trailing dims untouched *)
Theorem td_vmap_leaf_coherent bs feat i o :
  i < length bs -> o <= length bs - 1 ->
  movedim_shape (bs ++ feat) i o = td_remove (td_add bs i) (nth i bs 0) (Z.of_nat o) ++ feat.
Proof.
  intros Hi Ho. rewrite td_vmap_identity. unfold movedim_shape.
  rewrite remove_nth_app by assumption. rewrite app_nth1 by assumption.
  apply insert_at_app. rewrite length_remove_nth by assumption. exact Ho.
Qed.

(* negative in_dims are wrapped against the batch rank; out-of-range ones are refused *)
Theorem process_in_dim_spec rank i k :
  process_in_dim rank i = Some k ->
  k < rank /\ ((0 <= i)%Z -> Z.of_nat k = i) /\ ((i < 0)%Z -> Z.of_nat k = (i + Z.of_nat rank)%Z).
Proof.
  unfold process_in_dim. destruct ((i <? - Z.of_nat rank)%Z || (i >=? Z.of_nat rank)%Z) eqn:E; [discriminate|].
  apply orb_false_iff in E. destruct E as [E1 E2]. intros H. injection H as <-.
  destruct (i <? 0)%Z eqn:E3; lia.
Qed.

(* ---------------- lazy stacks ---------------- *)
(* vmap(identity) over a lazy stack along ANY dim (the stack dim included) to ANY out position: the resulting lazy stack
   has the moved batch size, is not hidden any more, and its stack dim is a valid position of its members' batch size *)
Theorem lazy_vmap_identity L i o :
  hidden L = false -> sd L <= length (mbs L) ->
  i < length (lazy_bs L) -> o <= length (lazy_bs L) - 1 ->
  let L' := lazy_remove (lazy_add L i) (nth i (lazy_bs L) 0) o in
  lazy_bs L' = movedim_shape (lazy_bs L) i o /\ hidden L' = false /\ sd L' <= length (mbs L').
Proof.
  destruct L as [m n s h]. cbn [hidden sd mbs nmem]. intros -> Hs Hi Ho.
  unfold lazy_bs in *. cbn [hidden sd mbs nmem] in *. rewrite length_insert_at in Hi, Ho.
  unfold lazy_add. cbn [hidden sd mbs nmem].
  destruct (Nat.eqb_spec i s) as [->|Nis].
  - (* vmapped dim = stack dim: hidden, then re-stacked at o *)
    unfold lazy_remove. cbn [hidden sd mbs nmem]. unfold lazy_bs. cbn [hidden sd mbs nmem].
    split; [|split; [reflexivity|lia]].
    unfold movedim_shape. rewrite nth_insert_at by lia.
    replace (s <? s) with false by (symmetry; apply Nat.ltb_ge; lia). rewrite Nat.eqb_refl.
    f_equal. apply (list_ext _ _ 0).
    + len_simpl. lia.
    + intros k Hk. repeat (rewrite nth_remove_nth || (rewrite nth_insert_at by (len_simpl; lia))).
      split_ifs; try lia; try (f_equal; lia).
  - destruct (Nat.ltb_spec i s) as [Lis|Gis].
    + (* vmapped dim before the stack dim *)
      unfold lazy_remove. cbn [hidden sd mbs nmem].
      assert (Hlen : length (remove_nth m i) = length m - 1) by (apply length_remove_nth; lia).
      destruct (Nat.ltb_spec (s - 1) o) as [Lo|Go]; unfold lazy_bs; cbn [hidden sd mbs nmem];
        (split; [|split; [reflexivity|rewrite ?length_insert_at, ?Hlen; lia]]).
      * unfold movedim_shape. apply (list_ext _ _ 0).
        -- len_simpl. lia.
        -- intros k Hk. len_simpl_in Hk.
           repeat (rewrite nth_remove_nth || (rewrite nth_insert_at by (len_simpl; lia))).
           split_ifs; try lia; try (f_equal; lia).
      * unfold movedim_shape. apply (list_ext _ _ 0).
        -- len_simpl. lia.
        -- intros k Hk. len_simpl_in Hk.
           repeat (rewrite nth_remove_nth || (rewrite nth_insert_at by (len_simpl; lia))).
           split_ifs; try lia; try (f_equal; lia).
    + (* vmapped dim after the stack dim *)
      unfold lazy_remove. cbn [hidden sd mbs nmem].
      assert (Hlen : length (remove_nth m (i - 1)) = length m - 1) by (apply length_remove_nth; lia).
      destruct (Nat.ltb_spec s o) as [Lo|Go]; unfold lazy_bs; cbn [hidden sd mbs nmem];
        (split; [|split; [reflexivity|rewrite ?length_insert_at, ?Hlen; lia]]).
      * unfold movedim_shape. apply (list_ext _ _ 0).
        -- len_simpl. lia.
        -- intros k Hk. len_simpl_in Hk.
           repeat (rewrite nth_remove_nth || (rewrite nth_insert_at by (len_simpl; lia))).
           split_ifs; try lia; try (f_equal; lia).
      * unfold movedim_shape. apply (list_ext _ _ 0).
        -- len_simpl. lia.
        -- intros k Hk. len_simpl_in Hk.
           repeat (rewrite nth_remove_nth || (rewrite nth_insert_at by (len_simpl; lia))).
           split_ifs; try lia; try (f_equal; lia).
Qed.

(* negative out_dims: python's list.insert(-1, B) inserts BEFORE the last element, torch's out_dims=-1 means the last
   position of the result — the two disagree (outside the property's quantifier; the library raises on such calls) *)
Theorem negative_out_dim_differs :
  exists bs B, td_remove bs B (-1) <> insert_at bs (length bs) B.
Proof. exists [3], 2. cbv. discriminate. Qed.
