(* C11 — auxiliary facts: the shape of a tree (everything but bytes and view flags), lock closure, the view check *)
From Coq Require Import ZArith List Bool Arith Lia String.
Import ListNotations.
From TD Require Import Model.C11_Layout Model.C11_Tree Proofs.C11_LayoutP Proofs.C11_TreeP.
Open Scope nat_scope.

(* ------------------------------------------------------------------ the shape of a tree: everything but bytes and view flags *)
Definition shape_leaf (l : leaf) : leaf := {| l_dt := l_dt l; l_esz := l_esz l; l_shape := l_shape l; l_bytes := [] |}.
Fixpoint shape_t (t : tree) : tree := match t with Node m f => Node m (shape_f f) end
with shape_f (f : forest) : forest :=
  match f with
  | FNil => FNil
  | FLeaf k l _ r => FLeaf k (shape_leaf l) None (shape_f r)
  | FNonT k p bs r => FNonT k p bs (shape_f r)
  | FSub k t r => FSub k (shape_t t) (shape_f r)
  end.

Lemma shape_specs :
  (forall t, lspecs (flat (shape_t t)) = lspecs (flat t)) /\ (forall f, lspecs (flat_f (shape_f f)) = lspecs (flat_f f)).
Proof.
  unfold lspecs. apply tree_forest_ind; cbn [shape_t shape_f flat flat_f map].
  - intros m f H. exact H.
  - reflexivity.
  - intros k l v r H. change (spec_of (shape_leaf l)) with (spec_of l). now rewrite H.
  - intros k p bs r H. exact H.
  - intros k t H r H0. now rewrite !map_app, H, H0.
Qed.

Lemma shape_meta A np :
  (forall t s, meta_t A np (shape_t t) s = meta_t A np t s) /\ (forall f s, meta_f A np (shape_f f) s = meta_f A np f s).
Proof.
  apply tree_forest_ind; cbn [shape_t shape_f meta_t meta_f].
  - intros m f IH s. now rewrite IH.
  - reflexivity.
  - intros k l v r IH s. change (spec_of (shape_leaf l)) with (spec_of l). rewrite IH. reflexivity.
  - intros k p bs r IH s. now rewrite IH.
  - intros k t IHt r IHr s. rewrite IHt. destruct (meta_t A np t s) as [mt mid]. now rewrite IHr.
Qed.

Lemma shape_reserved :
  (forall t, no_reserved_t (shape_t t) = no_reserved_t t) /\ (forall f, no_reserved_f (shape_f f) = no_reserved_f f).
Proof.
  apply tree_forest_ind; cbn [shape_t shape_f no_reserved_t no_reserved_f]; intros; auto.
  now rewrite H, H0.
Qed.

Lemma sizes_ok_specs A np a b : lspecs a = lspecs b -> sizes_ok A np a = sizes_ok A np b.
Proof.
  unfold sizes_ok, lspecs. revert b. induction a as [|x a IH]; intros [|y b] H; cbn [map forallb] in *; try discriminate; [reflexivity|].
  injection H as He Hs Ht. rewrite (IH b Ht).
  unfold flat_size, nbytes, spec_of. cbn [sp_esz sp_shape]. now rewrite He, Hs.
Qed.

(* a locked node's descendants are locked *)
Fixpoint all_locked_t (t : tree) : bool := match t with Node m f => m_locked m && all_locked_f f end
with all_locked_f (f : forest) : bool :=
  match f with
  | FNil => true
  | FLeaf _ _ _ r | FNonT _ _ _ r => all_locked_f r
  | FSub _ t r => all_locked_t t && all_locked_f r
  end.
Fixpoint lock_closed_t (t : tree) : bool :=
  match t with Node m f => (if m_locked m then all_locked_f f else true) && lock_closed_f f end
with lock_closed_f (f : forest) : bool :=
  match f with
  | FNil => true
  | FLeaf _ _ _ r | FNonT _ _ _ r => lock_closed_f r
  | FSub _ t r => lock_closed_t t && lock_closed_f r
  end.

Lemma set_locked_same m : set_locked m (m_locked m) = m.
Proof. now destruct m. Qed.

Lemma relock_all_locked :
  (forall t, all_locked_t t = true -> relock_t true t = t) /\ (forall f, all_locked_f f = true -> relock_f true f = f).
Proof.
  apply tree_forest_ind; cbn [all_locked_t all_locked_f relock_t relock_f].
  - intros m f IH H. apply andb_true_iff in H as [H1 H2]. rewrite H1. cbn [orb]. rewrite (IH H2).
    rewrite <- H1 at 1. now rewrite set_locked_same.
  - reflexivity.
  - intros k l v r IH H. now rewrite (IH H).
  - intros k p bs r IH H. now rewrite (IH H).
  - intros k t IHt r IHr H. apply andb_true_iff in H as [H1 H2]. now rewrite (IHt H1), (IHr H2).
Qed.

Lemma relock_closed :
  (forall t, lock_closed_t t = true -> relock_t false t = t) /\ (forall f, lock_closed_f f = true -> relock_f false f = f).
Proof.
  apply tree_forest_ind; cbn [lock_closed_t lock_closed_f relock_t relock_f].
  - intros m f IH H. apply andb_true_iff in H as [H1 H2]. rewrite orb_false_r, set_locked_same.
    destruct (m_locked m); [now rewrite (proj2 relock_all_locked f H1)|now rewrite (IH H2)].
  - reflexivity.
  - intros k l v r IH H. now rewrite (IH H).
  - intros k p bs r IH H. now rewrite (IH H).
  - intros k t IHt r IHr H. apply andb_true_iff in H as [H1 H2]. now rewrite (IHt H1), (IHr H2).
Qed.


Lemma shape_locks :
  (forall t, lock_closed_t (shape_t t) = lock_closed_t t /\ all_locked_t (shape_t t) = all_locked_t t) /\
  (forall f, lock_closed_f (shape_f f) = lock_closed_f f /\ all_locked_f (shape_f f) = all_locked_f f).
Proof.
  apply tree_forest_ind; cbn [shape_t shape_f lock_closed_t lock_closed_f all_locked_t all_locked_f].
  - intros m f [H1 H2]. now rewrite H1, H2.
  - auto.
  - intros k l v r H. exact H.
  - intros k p bs r H. exact H.
  - intros k t [H1 H2] r [H3 H4]. now rewrite H1, H2, H3, H4.
Qed.

(* marking the views changes nothing but the view flags *)
Lemma shape_mark A np :
  (forall t s, shape_t (fst (mark_t A np t s)) = shape_t t) /\ (forall f s, shape_f (fst (mark_f A np f s)) = shape_f f).
Proof.
  apply tree_forest_ind; cbn [mark_t mark_f].
  - intros m f IH s. specialize (IH s). destruct (mark_f A np f s). cbn [fst shape_t] in *. now rewrite IH.
  - reflexivity.
  - intros k l v r IH s. specialize (IH (s + flat_size A np (spec_of l))).
    destruct (mark_f A np r (s + flat_size A np (spec_of l))). cbn [fst shape_f] in *. now rewrite IH.
  - intros k p bs r IH s. specialize (IH s). destruct (mark_f A np r s). cbn [fst shape_f] in *. now rewrite IH.
  - intros k t IHt r IHr s. specialize (IHt s). destruct (mark_t A np t s) as [t' mid]. specialize (IHr mid).
    destruct (mark_f A np r mid). cbn [fst shape_f] in *. now rewrite IHt, IHr.
Qed.

Lemma meta_of_shape A np t t2 s : shape_t t2 = shape_t t -> meta_t A np t2 s = meta_t A np t s.
Proof. intros H. rewrite <- (proj1 (shape_meta A np) t2), H. apply (proj1 (shape_meta A np)). Qed.

Lemma lock_closed_of_shape t t2 : shape_t t2 = shape_t t -> lock_closed_t t2 = lock_closed_t t.
Proof. intros H. rewrite <- (proj1 (proj1 shape_locks t2)), H. apply (proj1 (proj1 shape_locks t)). Qed.

(* fix: D110 -- the in-memory result of consolidate() has the metadata of its source *)
Lemma out_meta_id m : out_meta false m = m.
Proof. now destruct m. Qed.
Lemma outmeta_id : (forall t, outmeta_t false t = t) /\ (forall f, outmeta_f false f = f).
Proof.
  apply tree_forest_ind; cbn [outmeta_t outmeta_f]; intros; try congruence.
  now rewrite out_meta_id, H.
Qed.

(* the view check accepts exactly the trees that are their own marking *)
Lemma vok_mark A np :
  (forall t s, vok_t A np (fst (mark_t A np t s)) s = (true, snd (mark_t A np t s))) /\
  (forall f s, vok_f A np (fst (mark_f A np f s)) s = (true, snd (mark_f A np f s))).
Proof.
  apply tree_forest_ind; cbn [mark_t mark_f].
  - intros m f IH s. specialize (IH s). destruct (mark_f A np f s). cbn [fst snd vok_t] in *. exact IH.
  - reflexivity.
  - intros k l v r IH s. specialize (IH (s + flat_size A np (spec_of l))).
    destruct (mark_f A np r (s + flat_size A np (spec_of l))). cbn [fst snd vok_f] in *. now rewrite IH, Nat.eqb_refl.
  - intros k p bs r IH s. specialize (IH s). destruct (mark_f A np r s). cbn [fst snd vok_f] in *. exact IH.
  - intros k t IHt r IHr s. specialize (IHt s). destruct (mark_t A np t s) as [t' mid]. specialize (IHr mid).
    destruct (mark_f A np r mid). cbn [fst snd vok_f] in *. now rewrite IHt, IHr.
Qed.

Lemma vok_sound A np :
  (forall t s, fst (vok_t A np t s) = true -> mark_t A np t s = (t, snd (vok_t A np t s))) /\
  (forall f s, fst (vok_f A np f s) = true -> mark_f A np f s = (f, snd (vok_f A np f s))).
Proof.
  apply tree_forest_ind; cbn [mark_t mark_f vok_t vok_f].
  - intros m f IH s H. now rewrite (IH s H).
  - reflexivity.
  - intros k l v r IH s H.
    destruct (vok_f A np r (s + flat_size A np (spec_of l))) as [b e] eqn:E. cbn [fst snd] in *.
    apply andb_true_iff in H as [Hv Hb]. specialize (IH (s + flat_size A np (spec_of l))). rewrite E in IH. cbn [fst snd] in IH.
    rewrite (IH Hb). destruct v as [x|]; [|discriminate]. apply Nat.eqb_eq in Hv. now subst.
  - intros k p bs r IH s H. now rewrite (IH s H).
  - intros k t IHt r IHr s H.
    destruct (vok_t A np t s) as [b1 mid] eqn:E1. destruct (vok_f A np r mid) as [b2 e] eqn:E2. cbn [fst snd] in *.
    apply andb_true_iff in H as [H1 H2]. specialize (IHt s). rewrite E1 in IHt. specialize (IHr mid). rewrite E2 in IHr.
    cbn [fst snd] in *. now rewrite (IHt H1), (IHr H2).
Qed.
