(* C06 — the invariant of the memoisation layer and its preservation by every history whose writes under lock are in-place. *)
From Coq Require Import ZArith List String Bool Arith Lia.
Import ListNotations.
From TD Require Import Model.C06_Cache Proofs.C06_PathP Proofs.C06_ViewP Proofs.C06_KeyP.
Open Scope string_scope.
Open Scope list_scope.

(* ---------------------------------------------------------------- the invariant *)
Definition entry_ok (U : list obj) (s : state) (n : node) (e : centry) : Prop :=
  e_key e = make_cache_key (e_args e) (e_kwargs e)
  /\ e_val e = fresh s n (e_meth e) (e_args e) (e_kwargs e)
  /\ incl (call_objs (e_args e) (e_kwargs e)) U
  /\ sort_kw (e_kwargs e) = e_kwargs e.

Record Good (U : list obj) (s : state) : Prop := {
  g_nodup : NoDup (map n_path (nodes s));
  g_td : forall n, In n (nodes s) -> n_kind n = NTD /\ n_flag n <> None;                  (* no lazy stack: locks are explicit *)
  g_lc : forall n x, In n (nodes s) -> In x (nodes s) -> flag_locked n = true ->
                     is_prefix (n_path n) (n_path x) = true -> flag_locked x = true;      (* a locked node's subtree is locked *)
  g_pc : forall n x, In n (nodes s) -> In x (nodes s) -> flag_locked n = true ->
                     proper_prefix (n_path n) (n_path x) = true -> In (n_path n) (n_parents x);   (* ... and registered (lock graph) *)
  g_ue : forall n, In n (nodes s) -> flag_locked n = false -> n_cache n = [];             (* unlocked nodes hold no entry *)
  g_inv : forall n e, In n (nodes s) -> In e (n_cache n) -> entry_ok U s n e              (* every entry is what a fresh call returns *)
}.

Lemma good_all_td : forall U s, Good U s -> all_td s.
Proof. intros U s G n Hn. now destruct (g_td U s G n Hn). Qed.

Lemma node_locked_td : forall s n, n_flag n <> None -> node_locked s n = flag_locked n.
Proof. intros s n H. unfold node_locked, flag_locked. destruct (n_flag n); [reflexivity|contradiction]. Qed.

Lemma cache_active_td : forall s n, n_flag n <> None -> cache_active s n = flag_locked n.
Proof.
  intros s n H. unfold cache_active. rewrite (node_locked_td s n H). destruct (n_flag n); [|contradiction].
  now rewrite orb_true_r, andb_true_r.
Qed.

Lemma cache_active_locked : forall s n, cache_active s n = true -> node_locked s n = true.
Proof. intros s n H. unfold cache_active in H. now apply andb_prop in H. Qed.

(* ---------------------------------------------------------------- finding nodes *)
Lemma find_node_in : forall s p n, find_node s p = Some n -> In n (nodes s) /\ n_path n = p.
Proof.
  intros s p n H. unfold find_node in H. apply find_some in H. destruct H as [H1 H2]. split; [assumption|now apply path_eqb_eq].
Qed.

Lemma nodup_path_inj : forall (l : list node) a b, NoDup (map n_path l) -> In a l -> In b l -> n_path a = n_path b -> a = b.
Proof.
  induction l as [|x l IH]; intros a b ND Ha Hb E; [contradiction|]. cbn in ND. inversion ND as [|? ? Hx ND']; subst.
  destruct Ha as [->|Ha], Hb as [->|Hb]; try reflexivity.
  - exfalso. apply Hx. rewrite E. now apply in_map.
  - exfalso. apply Hx. rewrite <- E. now apply in_map.
  - now apply IH.
Qed.

Lemma find_node_of_in : forall s n, NoDup (map n_path (nodes s)) -> In n (nodes s) -> find_node s (n_path n) = Some n.
Proof.
  intros s n ND Hn. unfold find_node. destruct (find (fun x => path_eqb (n_path x) (n_path n)) (nodes s)) as [m|] eqn:E.
  - apply find_some in E. destruct E as [Hm E]. apply path_eqb_eq in E. f_equal. now apply (nodup_path_inj (nodes s)).
  - exfalso. apply (find_none _ _ E) in Hn. now rewrite path_eqb_refl in Hn.
Qed.

Lemma find_map : forall (f : node -> node) p l, (forall n, n_path (f n) = n_path n) ->
  find (fun x => path_eqb (n_path x) p) (map f l) = option_map f (find (fun x => path_eqb (n_path x) p) l).
Proof.
  intros f p l H. induction l as [|x l IH]; cbn; [reflexivity|]. rewrite H. destruct (path_eqb (n_path x) p); [reflexivity|assumption].
Qed.

Lemma find_node_upd : forall s f p, (forall n, n_path (f n) = n_path n) -> find_node (upd_nodes s f) p = option_map f (find_node s p).
Proof. intros. unfold find_node, upd_nodes. cbn. now apply find_map. Qed.

Lemma in_upd : forall s f n', In n' (nodes (upd_nodes s f)) -> exists n, In n (nodes s) /\ n' = f n.
Proof. intros s f n' H. unfold upd_nodes in H. cbn in H. apply in_map_iff in H. destruct H as [n [E Hn]]. now exists n. Qed.

Lemma nodup_upd : forall s f, (forall n, n_path (f n) = n_path n) -> NoDup (map n_path (nodes s)) -> NoDup (map n_path (nodes (upd_nodes s f))).
Proof.
  intros s f H ND. unfold upd_nodes. cbn. rewrite map_map. erewrite map_ext; [exact ND|]. intros n. apply H.
Qed.

(* ---------------------------------------------------------------- entries survive every change that keeps the node's view *)
Lemma entry_ok_view : forall U s s' n n' e,
  n_path n' = n_path n -> view_of s' (n_path n) = view_of s (n_path n) -> entry_ok U s n e -> entry_ok U s' n' e.
Proof.
  intros U s s' n n' e Hp Hv [H1 [H2 [H3 H4]]]. repeat split; try assumption.
  rewrite H2. unfold fresh. now rewrite Hp, Hv.
Qed.

(* ---------------------------------------------------------------- lock_ *)
Lemma with_lock_path : forall n fl pa mm c, n_path (with_lock n fl pa mm c) = n_path n /\ info (with_lock n fl pa mm c) = info n.
Proof. intros. split; reflexivity. Qed.

Definition plock_f (s : state) (p : path) (n : node) : node :=
  if is_prefix p (n_path n)
  then with_lock n (Some true) (if path_eqb (n_path n) p then n_parents n else add_parents (n_parents n) (chain s p (n_path n))) (n_memmap n) (n_cache n)
  else n.

Lemma propagate_lock_eq : forall s p, propagate_lock s p = upd_nodes s (plock_f s p).
Proof. reflexivity. Qed.

Lemma plock_f_keeps : forall s p n, n_path (plock_f s p n) = n_path n /\ info (plock_f s p n) = info n.
Proof. intros. unfold plock_f. destruct (is_prefix p (n_path n)); split; reflexivity. Qed.

Lemma plock_f_cache : forall s p n, n_cache (plock_f s p n) = n_cache n.
Proof. intros. unfold plock_f. destruct (is_prefix p (n_path n)); reflexivity. Qed.

Lemma plock_f_flag : forall s p n, flag_locked (plock_f s p n) = (is_prefix p (n_path n) || flag_locked n).
Proof. intros. unfold plock_f. destruct (is_prefix p (n_path n)); reflexivity. Qed.

Lemma in_add_parents : forall q old new, In q old \/ In q new -> In q (add_parents old new).
Proof.
  intros q old new [H|H]; unfold add_parents; apply in_or_app; [now left|].
  destruct (path_mem q old) eqn:E.
  - left. unfold path_mem in E. apply existsb_exists in E. destruct E as [x [Hx E]]. apply path_eqb_eq in E. now subst.
  - right. apply filter_In. split; [assumption|now rewrite E].
Qed.

Lemma in_chain : forall s p a x, In a (nodes s) -> is_prefix p (n_path a) = true -> proper_prefix (n_path a) x = true -> In (n_path a) (chain s p x).
Proof.
  intros s p a x Ha H1 H2. unfold chain. apply in_map. apply filter_In. split; [assumption|]. now rewrite H1, H2.
Qed.

(* the structural part of the invariant (everything but the entries) after locking the subtree of p, from any state whose
   nodes outside the subtree already satisfy it *)
Lemma lock_structure : forall U s p,
  Good U s -> Good U (propagate_lock s p).
Proof.
  intros U s p G. rewrite propagate_lock_eq.
  assert (K := plock_f_keeps s p).
  constructor.
  - apply nodup_upd; [intros; apply K|apply (g_nodup U s G)].
  - intros n' Hn'. apply in_upd in Hn'. destruct Hn' as [n [Hn ->]]. destruct (g_td U s G n Hn) as [T F].
    unfold plock_f. destruct (is_prefix p (n_path n)); cbn; [split; [assumption|discriminate]|now split].
  - intros n' x' Hn' Hx' L P. apply in_upd in Hn', Hx'. destruct Hn' as [n [Hn ->]], Hx' as [x [Hx ->]].
    rewrite plock_f_flag in *. destruct (K n) as [Kn _], (K x) as [Kx _]. rewrite Kn, Kx in P.
    apply orb_true_iff in L. apply orb_true_iff. destruct L as [L|L].
    + left. eapply is_prefix_trans; eauto.
    + right. eapply (g_lc U s G n x); eauto.
  - intros n' x' Hn' Hx' L P. apply in_upd in Hn', Hx'. destruct Hn' as [n [Hn ->]], Hx' as [x [Hx ->]].
    rewrite plock_f_flag in L. destruct (K n) as [Kn _], (K x) as [Kx _]. rewrite Kn, Kx in P. rewrite Kn.
    unfold plock_f at 1. destruct (is_prefix p (n_path x)) eqn:Px; cbn.
    + destruct (is_prefix p (n_path n)) eqn:Pn.
      * (* n lies in the subtree: it is on the chain from p to x *)
        destruct (path_eqb (n_path x) p) eqn:Exp.
        -- apply path_eqb_eq in Exp. exfalso. rewrite Exp in P.
           apply proper_prefix_iff in P. destruct P as [a [r P]]. apply is_prefix_iff in Pn. destruct Pn as [t Pn].
           rewrite Pn in P. rewrite <- app_assoc in P. rewrite <- (app_nil_r p) in P at 1. apply app_inv_head in P.
           destruct t; discriminate.
        -- apply in_add_parents. right. now apply in_chain.
      * cbn in L. assert (In (n_path n) (n_parents x)) by (eapply (g_pc U s G n x); eauto).
        destruct (path_eqb (n_path x) p); [assumption|apply in_add_parents; now left].
    + destruct (is_prefix p (n_path n)) eqn:Pn.
      * exfalso. assert (is_prefix p (n_path x) = true) by (eapply is_prefix_trans; [exact Pn|now apply proper_is_prefix]). congruence.
      * cbn in L. eapply (g_pc U s G n x); eauto.
  - intros n' Hn' L. apply in_upd in Hn'. destruct Hn' as [n [Hn ->]]. rewrite plock_f_flag in L. rewrite plock_f_cache.
    apply orb_false_iff in L. destruct L as [_ L]. now apply (g_ue U s G).
  - intros n' e Hn' He. apply in_upd in Hn'. destruct Hn' as [n [Hn ->]]. rewrite plock_f_cache in He.
    eapply entry_ok_view; [apply K| |apply (g_inv U s G n e Hn He)]. apply view_upd. apply K.
Qed.

Lemma lock_good : forall fx U s p, Good U s -> Good U (fst (lock_ fx s p)).
Proof.
  intros fx U s p G. unfold lock_. destruct (find_node s p) as [n|]; [|exact G].
  destruct (if fix_lockflag fx then flag_locked n else node_locked s n); cbn; [exact G|now apply lock_structure].
Qed.

(* ---------------------------------------------------------------- unlock_ *)
Definition punlock_kf (k : bool) (p : path) (n : node) : node :=
  if is_prefix p (n_path n) then with_lock n (match n_kind n with NTD => Some false | NLAZY => None end) (n_parents n) (k && n_memmap n) [] else n.
Definition punlock_f (p : path) (n : node) : node :=
  if is_prefix p (n_path n) then with_lock n (match n_kind n with NTD => Some false | NLAZY => None end) (n_parents n) false [] else n.

Lemma punlock_f_keeps : forall p n, n_path (punlock_f p n) = n_path n /\ info (punlock_f p n) = info n.
Proof. intros. unfold punlock_f. destruct (is_prefix p (n_path n)); split; reflexivity. Qed.
Lemma punlock_kf_keeps : forall k p n, n_path (punlock_kf k p n) = n_path n /\ info (punlock_kf k p n) = info n.
Proof. intros. unfold punlock_kf. destruct (is_prefix p (n_path n)); split; reflexivity. Qed.

Definition cparents_f (p : path) (n : node) : node :=
  if is_prefix p (n_path n) && nkind_eqb (n_kind n) NTD then with_lock n (n_flag n) [] (n_memmap n) (n_cache n) else n.

Lemma cparents_f_keeps : forall p n, n_path (cparents_f p n) = n_path n /\ info (cparents_f p n) = info n.
Proof. intros. unfold cparents_f. destruct (is_prefix p (n_path n) && nkind_eqb (n_kind n) NTD); split; reflexivity. Qed.

(* unlock_ that went through: the subtree is unlocked with empty caches, everything else is as it was *)
Lemma unlock_done_good : forall U s p n0,
  Good U s -> find_node s p = Some n0 -> unlock_blocked (propagate_unlock s p) p = false ->
  Good U (clear_parents (propagate_unlock s p) p).
Proof.
  intros U s p n0 G F NB.
  set (f := fun n => cparents_f p (punlock_f p n)).
  assert (E : clear_parents (propagate_unlock s p) p = upd_nodes s f).
  { unfold clear_parents, propagate_unlock, upd_nodes. cbn. f_equal. rewrite map_map. reflexivity. }
  rewrite E.
  assert (K : forall n, n_path (f n) = n_path n /\ info (f n) = info n).
  { intros n. unfold f. destruct (cparents_f_keeps p (punlock_f p n)) as [A B], (punlock_f_keeps p n) as [C D]. split; congruence. }
  assert (Fl : forall n, In n (nodes s) -> flag_locked (f n) = (negb (is_prefix p (n_path n)) && flag_locked n)).
  { intros n Hn. destruct (g_td U s G n Hn) as [T _]. unfold f, cparents_f, punlock_f.
    destruct (is_prefix p (n_path n)) eqn:P; cbn; rewrite ?P, ?T; cbn; reflexivity. }
  assert (Ca : forall n, n_cache (f n) = if is_prefix p (n_path n) then [] else n_cache n).
  { intros n. unfold f, cparents_f, punlock_f. destruct (is_prefix p (n_path n)) eqn:P; cbn; rewrite ?P; [destruct (nkind_eqb (n_kind n) NTD); reflexivity|reflexivity]. }
  assert (Pa : forall n, is_prefix p (n_path n) = false -> n_parents (f n) = n_parents n).
  { intros n P. unfold f, cparents_f, punlock_f. rewrite P. cbn. rewrite P. reflexivity. }
  (* no locked node outside the subtree lies above a node of the subtree: otherwise the unlock would have been refused *)
  assert (NoAbove : forall n x, In n (nodes s) -> In x (nodes s) -> flag_locked n = true -> is_prefix p (n_path n) = false ->
                                is_prefix (n_path n) (n_path x) = true -> is_prefix p (n_path x) = true -> False).
  { intros n x Hn Hx L Pn Pnx Px.
    destruct (prefix_comparable _ _ _ Pnx Px) as [C|C]; [|congruence].
    destruct (prefix_split _ _ C) as [C'|C']; [rewrite C' in Pn; rewrite is_prefix_refl in Pn; discriminate|].
    destruct (find_node_in s p n0 F) as [Hn0 Pn0].
    assert (Reg : In (n_path n) (n_parents n0)) by (eapply (g_pc U s G n n0); eauto; now rewrite Pn0).
    assert (B : unlock_blocked (propagate_unlock s p) p = true).
    { unfold unlock_blocked. apply existsb_exists. exists (punlock_f p n0). split.
      - unfold propagate_unlock, upd_nodes. cbn. apply in_map_iff. exists n0. split; [reflexivity|assumption].
      - destruct (punlock_f_keeps p n0) as [A _]. rewrite A, Pn0, is_prefix_refl. cbn.
        apply existsb_exists. exists (n_path n). split.
        + unfold punlock_f. rewrite Pn0, is_prefix_refl. exact Reg.
        + assert (FN : find_node (propagate_unlock s p) (n_path n) = Some (punlock_f p n)).
          { change (propagate_unlock s p) with (upd_nodes s (punlock_f p)).
            rewrite find_node_upd; [|intros; apply punlock_f_keeps]. rewrite (find_node_of_in s n (g_nodup U s G) Hn). reflexivity. }
          change (match find_node (propagate_unlock s p) (n_path n) with Some a => flag_locked a | None => false end = true).
          rewrite FN. unfold punlock_f. rewrite Pn. exact L. }
    congruence. }
  constructor.
  - apply nodup_upd; [intros; apply K|apply (g_nodup U s G)].
  - intros n' Hn'. apply in_upd in Hn'. destruct Hn' as [n [Hn ->]]. destruct (g_td U s G n Hn) as [T Fn]. split.
    + destruct (K n) as [_ I]. unfold info in I. inversion I. congruence.
    + unfold f, cparents_f, punlock_f. destruct (is_prefix p (n_path n)) eqn:P; cbn; rewrite ?P, ?T; cbn; [discriminate|assumption].
  - intros n' x' Hn' Hx' L P. apply in_upd in Hn', Hx'. destruct Hn' as [n [Hn ->]], Hx' as [x [Hx ->]].
    rewrite (Fl n Hn) in L. rewrite (Fl x Hx). destruct (K n) as [Kn _], (K x) as [Kx _]. rewrite Kn, Kx in P.
    apply andb_true_iff in L. destruct L as [Pn L]. apply negb_true_iff in Pn.
    destruct (is_prefix p (n_path x)) eqn:Px; cbn.
    + exfalso. exact (NoAbove n x Hn Hx L Pn P Px).
    + eapply (g_lc U s G n x); eauto.
  - intros n' x' Hn' Hx' L P. apply in_upd in Hn', Hx'. destruct Hn' as [n [Hn ->]], Hx' as [x [Hx ->]].
    rewrite (Fl n Hn) in L. destruct (K n) as [Kn _], (K x) as [Kx _]. rewrite Kn, Kx in P. rewrite Kn.
    apply andb_true_iff in L. destruct L as [Pn L]. apply negb_true_iff in Pn.
    destruct (is_prefix p (n_path x)) eqn:Px.
    + exfalso. exact (NoAbove n x Hn Hx L Pn (proper_is_prefix _ _ P) Px).
    + rewrite (Pa x Px). eapply (g_pc U s G n x); eauto.
  - intros n' Hn' L. apply in_upd in Hn'. destruct Hn' as [n [Hn ->]]. rewrite (Fl n Hn) in L. rewrite Ca.
    destruct (is_prefix p (n_path n)); [reflexivity|]. cbn in L. now apply (g_ue U s G).
  - intros n' e Hn' He. apply in_upd in Hn'. destruct Hn' as [n [Hn ->]]. rewrite Ca in He.
    destruct (is_prefix p (n_path n)); [contradiction|].
    eapply entry_ok_view; [apply K| |apply (g_inv U s G n e Hn He)]. apply view_upd. apply K.
Qed.

(* unlock_ that was refused: the subtree is locked again; its caches were erased on the way *)
Lemma unlock_refused_good : forall k U s p,
  Good U s -> Good U (propagate_lock (propagate_unlock_k k s p) p).
Proof.
  intros k U s p G.
  set (s1 := propagate_unlock_k k s p).
  set (f := fun n => plock_f s1 p (punlock_kf k p n)).
  assert (E : propagate_lock s1 p = upd_nodes s f).
  { rewrite propagate_lock_eq. unfold s1, propagate_unlock_k, upd_nodes. cbn. f_equal. rewrite map_map. reflexivity. }
  rewrite E.
  assert (K : forall n, n_path (f n) = n_path n /\ info (f n) = info n).
  { intros n. unfold f. destruct (plock_f_keeps s1 p (punlock_kf k p n)) as [A B], (punlock_kf_keeps k p n) as [C D]. split; congruence. }
  assert (Fl : forall n, flag_locked (f n) = (is_prefix p (n_path n) || flag_locked n)).
  { intros n. unfold f. rewrite plock_f_flag. destruct (punlock_kf_keeps k p n) as [A _]. rewrite A.
    unfold punlock_kf. destruct (is_prefix p (n_path n)); reflexivity. }
  assert (Ca : forall n, n_cache (f n) = if is_prefix p (n_path n) then [] else n_cache n).
  { intros n. unfold f. rewrite plock_f_cache. unfold punlock_kf. destruct (is_prefix p (n_path n)); reflexivity. }
  assert (Pa : forall n, n_parents (f n) = if is_prefix p (n_path n)
                                           then (if path_eqb (n_path n) p then n_parents n else add_parents (n_parents n) (chain s1 p (n_path n)))
                                           else n_parents n).
  { intros n. unfold f, plock_f. destruct (punlock_kf_keeps k p n) as [A _]. rewrite A.
    unfold punlock_kf. destruct (is_prefix p (n_path n)); reflexivity. }
  assert (Ch : forall a x, In a (nodes s) -> is_prefix p (n_path a) = true -> proper_prefix (n_path a) x = true -> In (n_path a) (chain s1 p x)).
  { intros a x Ha H1 H2. replace (n_path a) with (n_path (punlock_kf k p a)) by apply punlock_kf_keeps.
    apply in_chain; [|now rewrite (proj1 (punlock_kf_keeps k p a))|now rewrite (proj1 (punlock_kf_keeps k p a))].
    unfold s1, propagate_unlock_k, upd_nodes. cbn. apply in_map_iff. exists a. split; [reflexivity|assumption]. }
  constructor.
  - apply nodup_upd; [intros; apply K|apply (g_nodup U s G)].
  - intros n' Hn'. apply in_upd in Hn'. destruct Hn' as [n [Hn ->]]. destruct (g_td U s G n Hn) as [T Fn]. split.
    + destruct (K n) as [_ I]. unfold info in I. inversion I. congruence.
    + unfold f, plock_f, punlock_kf. destruct (is_prefix p (n_path n)) eqn:P; cbn; rewrite ?P; cbn; [discriminate|assumption].
  - intros n' x' Hn' Hx' L P. apply in_upd in Hn', Hx'. destruct Hn' as [n [Hn ->]], Hx' as [x [Hx ->]].
    rewrite Fl in *. destruct (K n) as [Kn _], (K x) as [Kx _]. rewrite Kn, Kx in P.
    apply orb_true_iff in L. apply orb_true_iff. destruct L as [L|L].
    + left. eapply is_prefix_trans; eauto.
    + right. eapply (g_lc U s G n x); eauto.
  - intros n' x' Hn' Hx' L P. apply in_upd in Hn', Hx'. destruct Hn' as [n [Hn ->]], Hx' as [x [Hx ->]].
    rewrite Fl in L. destruct (K n) as [Kn _], (K x) as [Kx _]. rewrite Kn, Kx in P. rewrite Kn, Pa.
    destruct (is_prefix p (n_path x)) eqn:Px.
    + destruct (is_prefix p (n_path n)) eqn:Pn.
      * destruct (path_eqb (n_path x) p) eqn:Exp.
        -- apply path_eqb_eq in Exp. exfalso. rewrite Exp in P.
           apply proper_prefix_iff in P. destruct P as [a [r P]]. apply is_prefix_iff in Pn. destruct Pn as [t Pn].
           rewrite Pn in P. rewrite <- app_assoc in P. rewrite <- (app_nil_r p) in P at 1. apply app_inv_head in P.
           destruct t; discriminate.
        -- apply in_add_parents. right. now apply Ch.
      * cbn in L. assert (In (n_path n) (n_parents x)) by (eapply (g_pc U s G n x); eauto).
        destruct (path_eqb (n_path x) p); [assumption|apply in_add_parents; now left].
    + destruct (is_prefix p (n_path n)) eqn:Pn.
      * exfalso. assert (is_prefix p (n_path x) = true) by (eapply is_prefix_trans; [exact Pn|now apply proper_is_prefix]). congruence.
      * cbn in L. eapply (g_pc U s G n x); eauto.
  - intros n' Hn' L. apply in_upd in Hn'. destruct Hn' as [n [Hn ->]]. rewrite Fl in L. rewrite Ca.
    apply orb_false_iff in L. destruct L as [P L]. rewrite P. now apply (g_ue U s G).
  - intros n' e Hn' He. apply in_upd in Hn'. destruct Hn' as [n [Hn ->]]. rewrite Ca in He.
    destruct (is_prefix p (n_path n)); [contradiction|].
    eapply entry_ok_view; [apply K| |apply (g_inv U s G n e Hn He)]. apply view_upd. apply K.
Qed.

Lemma unlock_good : forall fx U s p, Good U s -> Good U (fst (unlock_ fx s p)).
Proof.
  intros fx U s p G. unfold unlock_. destruct (find_node s p) as [n0|] eqn:F; [|exact G].
  destruct (unlock_blocked (propagate_unlock s p) p) eqn:B; cbn.
  - now apply unlock_refused_good.
  - now apply (unlock_done_good U s p n0).
Qed.
